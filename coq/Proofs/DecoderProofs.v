(* C19 machinery: a Hoare-style predicate [H] (no panic, never out of fuel,
   remaining input shrinks) and an allocation predicate [abound] for the reader
   monad of Model/Format.v, proved for every primitive, every loop, the element
   decoder, IndexFromReader, ArchiveDecoder.Next and Protocol.ReadMessage. *)
From Coq Require Import List NArith Arith Bool Lia ZifyN ZifyNat ZifyBool.
From DS Require Import Gen.Constants Base.Bytes Base.LE64 Model.Format Model.Index Model.Protocol Model.Archive
     Proofs.FormatProofs.
Import ListNotations.
Local Open Scope N_scope.

(* ================= H: no panic, enough fuel, progress ================= *)

(* On every input of at most n bytes: m does not panic, does not run out of
   fuel, and on success its value x and the number l of bytes left satisfy Q. *)
Definition H {A} (n : nat) (m : M A) (Q : A -> nat -> Prop) : Prop :=
  forall s, (length s <= n)%nat ->
    match m s with
    | (Ok x, s', _) => Q x (length s')
    | (Err e, _, _) => e <> OutOfFuel
    | (Panic _, _, _) => False
    end.

Lemma H_weaken {A} n (m : M A) (Q R : A -> nat -> Prop) :
  H n m Q -> (forall x l, Q x l -> R x l) -> H n m R.
Proof.
  intros Hm HQR s Hs. specialize (Hm s Hs). destruct (m s) as [[[x|e|p] s'] a]; auto.
Qed.

Lemma H_mono {A} n n' (m : M A) Q : (n' <= n)%nat -> H n m Q -> H n' m Q.
Proof. intros Hle Hm s Hs. apply Hm. lia. Qed.

Lemma H_ret {A} n (x : A) : H n (ret x) (fun y l => y = x /\ (l <= n)%nat).
Proof. intros s Hs. cbn. auto. Qed.

Lemma H_fail {A} n e (Q : A -> nat -> Prop) : e <> OutOfFuel -> H n (fail e) Q.
Proof. intros He s Hs. cbn. exact He. Qed.

Lemma H_charge n c : H n (charge c) (fun _ l => (l <= n)%nat).
Proof. intros s Hs. cbn. exact Hs. Qed.

Lemma H_bind {A B} n (m : M A) (f : A -> M B) Q R :
  H n m Q -> (forall x k, Q x k -> H k (f x) R) -> H n (bind m f) R.
Proof.
  intros Hm Hf s Hs. specialize (Hm s Hs). unfold bind.
  destruct (m s) as [[[x|e|p] s1] a1]; [|exact Hm|exact Hm].
  specialize (Hf x (length s1) Hm s1 (le_n _)).
  destruct (f x s1) as [[r s2] a2]. destruct r; exact Hf.
Qed.

Lemma H_read_full n k : H n (read_full k) (fun b l => length b = k /\ (l + k <= n)%nat).
Proof.
  intros s Hs. unfold read_full. destruct (take_exact k s) as [[a r]|] eqn:E.
  - apply take_exact_some in E. destruct E as [-> Hl]. rewrite app_length in Hs. split; [exact Hl|lia].
  - destruct s; discriminate.
Qed.

Lemma H_read_u64 n : H n read_u64 (fun x l => x < two64 /\ (l + 8 <= n)%nat).
Proof.
  unfold read_u64. eapply H_bind; [apply H_read_full|].
  intros b k [_ Hk]. eapply H_weaken; [apply H_ret|]. cbv beta. intros x l [-> Hl].
  split; [apply u64_lt|lia].
Qed.

Lemma H_read_id n : H n read_id (fun _ l => (l + 32 <= n)%nat).
Proof. unfold read_id. eapply H_weaken; [apply H_read_full|]. cbv beta. intros; lia. Qed.

Lemma H_make_read_full n c : c <= maxAlloc -> H n (make_read_full c) (fun b l => lenN b = c /\ (l + N.to_nat c <= n)%nat).
Proof.
  intros Hc s Hs. unfold make_read_full.
  replace (maxAlloc <? c) with false by (symmetry; apply N.ltb_ge; exact Hc).
  destruct (take_upto c s) as [a r] eqn:E. apply take_upto_parts in E. destruct E as [-> Hl].
  rewrite app_length in Hs.
  destruct (lenN a =? c) eqn:Ec.
  - apply N.eqb_eq in Ec. split; [exact Ec|unfold lenN in *; lia].
  - destruct a; discriminate.
Qed.

Lemma H_read_n n c : H n (read_n Fixed c) (fun b l => lenN b = c /\ (l + N.to_nat c <= n)%nat).
Proof.
  unfold read_n. destruct (MaxInt64 <? c) eqn:E1; [apply H_fail; discriminate|].
  destruct (c <=? 65536) eqn:E2.
  - apply H_make_read_full. apply N.leb_le in E2. unfold maxAlloc. lia.
  - intros s Hs. destruct (take_upto c s) as [a r] eqn:E. apply take_upto_parts in E. destruct E as [-> Hl].
    rewrite app_length in Hs.
    destruct (lenN a <? c) eqn:Ec; [discriminate|].
    apply N.ltb_ge in Ec. unfold lenN in *. split; [lia|lia].
Qed.

Lemma H_read_body n hdr consumed mn :
  H n (read_body Fixed hdr consumed mn) (fun b l => mn <= lenN b /\ (l <= n)%nat).
Proof.
  unfold read_body.
  destruct ((h_size hdr <? consumed) || (sub64 (h_size hdr) consumed <? mn)) eqn:E; [apply H_fail; discriminate|].
  apply orb_false_iff in E. destruct E as [_ E]. apply N.ltb_ge in E.
  eapply H_weaken; [apply H_read_n|]. cbv beta. intros b l [Hb Hl]. split; [lia|lia].
Qed.

Lemma H_strip_last n b : b <> [] -> H n (strip_last b) (fun _ l => (l <= n)%nat).
Proof.
  intros Hb. unfold strip_last. destruct b; [contradiction|].
  eapply H_weaken; [apply H_ret|]. cbv beta. intros; lia.
Qed.

Lemma H_read_string n hdr consumed : H n (read_string Fixed hdr consumed) (fun _ l => (l <= n)%nat).
Proof.
  unfold read_string. eapply H_bind; [apply H_read_body|].
  intros b k [Hb Hk]. eapply H_weaken; [apply H_strip_last|cbv beta; intros; lia].
  intros ->. cbn in Hb. lia.
Qed.

Lemma H_payload n hdr c :
  H n (fun s => match take_upto c s with (a, r) => (Ok (Payload hdr a), r, 0) end) (fun _ l => (l <= n)%nat).
Proof.
  intros s Hs. destruct (take_upto c s) as [a r] eqn:E. apply take_upto_parts in E. destruct E as [-> _].
  rewrite app_length in Hs. lia.
Qed.

Lemma H_with_input_fuel {A} n (f : nat -> M A) Q :
  (forall k, (k <= n)%nat -> H k (f (S k)) Q) -> H n (with_input_fuel f) Q.
Proof. intros Hf s Hs. unfold with_input_fuel. apply (Hf (length s) Hs s (le_n _)). Qed.

Ltac hfin := eapply H_weaken; [apply H_ret|cbv beta; intros ? ? [? ?]; subst; cbv beta iota; lia].
Ltac hrd := eapply H_bind; [apply H_read_u64|cbv beta; intros ? ? ?].

Lemma H_goodbye_loop : forall fuel n c acc,
  (n < fuel)%nat -> H n (goodbye_loop fuel c acc) (fun _ l => (l <= n)%nat).
Proof.
  induction fuel as [|fuel IH]; intros n c acc Hn; [lia|].
  cbn [goodbye_loop]. destruct (c =? 0); [hfin|].
  hrd. hrd. hrd. eapply H_bind; [apply H_charge|cbv beta; intros ? ? ?].
  eapply H_weaken; [apply IH; lia|cbv beta; intros; lia].
Qed.

Lemma H_table_loop : forall fuel n acc,
  (n < fuel)%nat -> H n (table_loop fuel acc) (fun _ l => (l <= n)%nat).
Proof.
  induction fuel as [|fuel IH]; intros n acc Hn; [lia|].
  cbn [table_loop]. hrd. destruct (_ =? 0); [hfin|].
  eapply H_bind; [apply H_read_id|cbv beta; intros ? ? ?].
  eapply H_bind; [apply H_charge|cbv beta; intros ? ? ?].
  eapply H_weaken; [apply IH; lia|cbv beta; intros; lia].
Qed.

Ltac hstr C := eapply H_bind; [apply H_read_string|cbv beta; intros ? ? ?]; hfin.

Lemma H_next_body n hdr : H n (next_body Fixed hdr) (fun _ l => (l <= n)%nat).
Proof.
  unfold next_body.
  repeat match goal with |- H _ (if ?t =? ?c then _ else _) _ => destruct (t =? c) end.
  - destruct (negb _); [apply H_fail; discriminate|]. repeat hrd. hfin.
  - hstr User.
  - hstr Group.
  - hstr XAttr.
  - hstr SELinux.
  - hstr Filename.
  - hstr Symlink.
  - destruct (negb _); [apply H_fail; discriminate|]. repeat hrd. hfin.
  - destruct (_ || _); [apply H_fail; discriminate|]. apply H_payload.
  - eapply H_bind; [apply H_read_body|cbv beta; intros ? ? ?]. hfin.
  - hrd. hrd. hstr ACLUser.
  - hrd. hrd. hstr ACLGroup.
  - hrd. hfin.
  - repeat hrd. hfin.
  - destruct (_ <? _); [apply H_fail; discriminate|].
    eapply H_bind.
    + apply H_with_input_fuel. intros k Hk. eapply H_weaken; [apply H_goodbye_loop; lia|].
      cbv beta. intros x l Hl. exact (Nat.le_trans _ _ _ Hl Hk).
    + cbv beta. intros items k Hk. destruct (last_hash items); [|apply H_fail; discriminate].
      destruct (_ =? _); [hfin|apply H_fail; discriminate].
  - repeat hrd. hfin.
  - destruct (negb _); [apply H_fail; discriminate|].
    eapply H_bind.
    + apply H_with_input_fuel. intros k Hk. eapply H_weaken; [apply H_table_loop; lia|].
      cbv beta. intros x l Hl. exact (Nat.le_trans _ _ _ Hl Hk).
    + cbv beta. intros items k Hk. hrd. destruct (negb _); [apply H_fail; discriminate|].
      hrd. hrd. hrd. destruct (negb _); [apply H_fail; discriminate|]. hfin.
  - apply H_fail. discriminate.
Qed.

Lemma read_u64_cases s :
  (exists x s1, read_u64 s = (Ok x, s1, 0) /\ length s = (8 + length s1)%nat) \/
  (read_u64 s = (Err EOF, [], 0) /\ s = []) \/
  (read_u64 s = (Err UnexpectedEOF, [], 0) /\ s <> [] /\ (length s < 8)%nat).
Proof.
  unfold read_u64, bind, read_full. destruct (take_exact 8 s) as [[a r]|] eqn:E.
  - left. apply take_exact_some in E. destruct E as [-> Hl]. exists (u64 (un_le64 a)), r. split; [reflexivity|].
    rewrite app_length. lia.
  - apply take_exact_none in E. right. destruct s; [left; split; reflexivity|].
    right. split; [reflexivity|]. split; [discriminate|exact E].
Qed.

Lemma H_read_header n :
  H n read_header (fun oh l => match oh with Some _ => (l + 16 <= n)%nat | None => (l <= n)%nat end).
Proof.
  intros s Hs. unfold read_header.
  destruct (read_u64_cases s) as [[x [s1 [E1 L1]]]|[[E1 _]|[E1 _]]]; rewrite E1; [|cbn; lia|discriminate].
  destruct (read_u64_cases s1) as [[y [s2 [E2 L2]]]|[[E2 _]|[E2 _]]]; rewrite E2; [lia|cbn; lia|discriminate].
Qed.

Lemma H_next n :
  H n (next Fixed) (fun oe l => match oe with Some _ => (l + 16 <= n)%nat | None => (l <= n)%nat end).
Proof.
  unfold next. eapply H_bind; [apply H_read_header|]. cbv beta. intros [hdr|] k Hk.
  - eapply H_bind; [apply H_next_body|cbv beta; intros ? ? ?]. hfin.
  - hfin.
Qed.

Lemma H_all_loop : forall fuel n acc, (n < fuel)%nat -> H n (all_loop Fixed fuel acc) (fun _ l => (l <= n)%nat).
Proof.
  induction fuel as [|fuel IH]; intros n acc Hn; [lia|].
  cbn [all_loop]. eapply H_bind; [apply H_next|]. cbv beta. intros [e|] k Hk.
  - eapply H_weaken; [apply IH; lia|cbv beta; intros; lia].
  - hfin.
Qed.

Lemma H_decode_all n : H n (decode_all Fixed) (fun _ l => (l <= n)%nat).
Proof.
  unfold decode_all. apply H_with_input_fuel. intros k Hk.
  eapply H_weaken; [apply H_all_loop; lia|cbv beta; intros; lia].
Qed.

Lemma chunks_of_items_cases v mx : forall items last,
  (exists cs, chunks_of_items_v v mx last items = Ok cs) \/
  (exists e, chunks_of_items_v v mx last items = Err e /\ e <> OutOfFuel).
Proof.
  induction items as [|[off id] r IH]; intros last; cbn [chunks_of_items_v]; [left; eexists; reflexivity|].
  destruct (match v with Fixed => off <? last | PreFix => false end); [right; eexists; split; [reflexivity|discriminate]|].
  destruct (mx <? sub64 off last); [right; eexists; split; [reflexivity|discriminate]|].
  destruct (IH off) as [[cs E]|[e [E He]]]; rewrite E; [left; eexists; reflexivity|right; exists e; split; [reflexivity|exact He]].
Qed.

Lemma H_index_from_reader n d : H n (index_from_reader d) (fun _ l => (l <= n)%nat).
Proof.
  unfold index_from_reader_v. eapply H_bind; [apply H_next|]. cbv beta. intros oe k Hk.
  destruct oe as [e|]; [|apply H_fail; discriminate].
  destruct e; try (apply H_fail; discriminate).
  destruct (negb _); [apply H_fail; discriminate|].
  eapply H_bind; [apply H_next|]. cbv beta. intros oe2 k2 Hk2.
  destruct oe2 as [e2|]; [|apply H_fail; discriminate].
  destruct e2; try (apply H_fail; discriminate).
  eapply H_bind; [apply H_charge|cbv beta; intros ? ? ?].
  destruct (chunks_of_items_cases Fixed chunk_max items 0) as [[cs E]|[e [E He]]]; rewrite E.
  - hfin.
  - apply H_fail. exact He.
Qed.

Lemma H_read_message n : H n (read_message Fixed) (fun _ l => (l + 16 <= n)%nat).
Proof.
  unfold read_message. eapply H_bind; [apply H_read_u64|]. cbv beta. intros x k [Hx Hk].
  destruct (x <? 16) eqn:E; [apply H_fail; discriminate|].
  apply N.ltb_ge in E.
  eapply H_bind; [apply H_read_n|]. cbv beta. intros b k2 [Hb Hk2].
  rewrite sub64_exact in Hb, Hk2 by lia.
  intros s Hs. destruct (take_exact 8 b) as [[t body]|] eqn:Et.
  - cbn. lia.
  - apply take_exact_none in Et. unfold lenN in Hb. lia.
Qed.

(* ---------- ArchiveDecoder.Next ---------- *)

Notation good_last := wf_astate.

Definition last_cost (st : astate) : nat := match a_last st with Some _ => 1 | None => 0 end.

Definition arch_post (n : nat) (fresh : Prop) (r : option node * astate) (l : nat) : Prop :=
  good_last (snd r) /\ (l <= n)%nat /\ match fst r with Some _ => fresh -> (l + 16 <= n)%nat | None => True end.

Lemma good_last_finish st l e :
  good_last st -> good_last (snd (finish_node st l e)).
Proof.
  intros Hg. unfold finish_node. destruct (l_payload l) as [[? ?]|]; [exact Hg|].
  destruct (l_device l) as [[? ?]|]; [exact Hg|]. destruct (l_symlink l); exact Hg.
Qed.

Lemma arch_post_stale n k r l' (P Q : Prop) : (k <= n)%nat -> ~ Q -> arch_post k P r l' -> arch_post n Q r l'.
Proof.
  unfold arch_post. intros Hk HQ [Hg [Hl Hm]]. split; [exact Hg|]. split; [lia|].
  destruct (fst r); [intros; contradiction|exact I].
Qed.

Lemma H_finish n st l e :
  good_last st -> l_entry l <> None ->
  H n (finish st l e) (arch_post n (l_entry l = None)).
Proof.
  intros Hg Hne. unfold finish.
  assert (Hr : H n (ret (finish_node (mkAState (a_dir st) (a_last st) true) l e)) (arch_post n (l_entry l = None))).
  { eapply H_weaken; [apply H_ret|]. cbv beta. intros r k [-> Hk]. unfold arch_post.
    split; [apply good_last_finish; exact Hg|]. split; [exact Hk|].
    destruct (fst (finish_node _ l e)); [intros; contradiction|exact I]. }
  destruct (l_name l); [destruct (a_started st); [apply H_fail; discriminate|exact Hr]|exact Hr].
Qed.

Lemma H_archive_loop : forall fuel n st l,
  good_last st -> (n + last_cost st < fuel)%nat ->
  H n (archive_loop fuel st l) (arch_post n (l_entry l = None)).
Proof.
  induction fuel as [|fuel IH]; intros n st l Hg Hfuel; [lia|].
  cbn [archive_loop].
  (* one iteration: where the element comes from *)
  assert (Hsrc : H n (match a_last st with
                      | Some c => ret (Some c, mkAState (a_dir st) None (a_started st))
                      | None => do c <- next Fixed; ret (c, st)
                      end)
                   (fun cs k => a_last (snd cs) = None /\ (k <= n)%nat /\ (fst cs <> None -> (k < fuel)%nat) /\
                                match fst cs with
                                | Some (Entry _ _ _ _ _ _ _) => (k + 16 <= n)%nat
                                | _ => True
                                end /\
                                (fst cs = None \/ (k + 16 <= n)%nat \/ a_last st <> None))).
  { unfold wf_astate, last_cost in *. destruct (a_last st) as [c|] eqn:El.
    - eapply H_weaken; [apply H_ret|]. cbv beta. intros cs k [-> Hk]. cbn [fst snd a_last].
      split; [reflexivity|]. split; [exact Hk|]. split; [intros _; lia|]. split.
      + destruct c; try exact I. contradiction.
      + right. right. discriminate.
    - eapply H_bind; [apply H_next|]. cbv beta. intros c k Hk.
      eapply H_weaken; [apply H_ret|]. cbv beta. intros cs k' [-> Hk']. cbn [fst snd].
      split; [exact El|]. destruct c as [e|].
      + split; [lia|]. split; [intros _; lia|]. split; [destruct e; try exact I; lia|]. right. left. lia.
      + split; [lia|]. split; [intros Hc; contradiction|]. split; [exact I|]. left. reflexivity. }
  eapply H_bind; [exact Hsrc|]. clear Hsrc. cbv beta.
  intros [c st'] k [Hl' [Hk [Hkf [Hent Hprog]]]]. cbn [fst snd] in *.
  assert (Hg' : good_last st') by (unfold wf_astate; now rewrite Hl').
  assert (Hc' : last_cost st' = 0%nat) by (unfold last_cost; now rewrite Hl').
  (* recursive calls: the stashed element is gone, so the remaining input bounds the fuel *)
  assert (Hrec : (k < fuel)%nat -> forall st2 l2, a_last st2 = None -> (l_entry l = None -> l_entry l2 = None \/ (k + 16 <= n)%nat) ->
                   (l_entry l = None -> l_entry l2 = None -> (k + 16 <= n)%nat \/ a_last st <> None \/ True) ->
                   H k (archive_loop fuel st2 l2) (fun r l' => good_last (snd r) /\ (l' <= k)%nat /\
                        match fst r with Some _ => l_entry l2 = None -> (l' + 16 <= k)%nat | None => True end)).
  { intros Hkf' st2 l2 Hl2 _ _. apply IH; [unfold wf_astate; now rewrite Hl2|unfold last_cost; rewrite Hl2; lia]. }
  assert (Hwk : forall l2, (l_entry l = None -> l_entry l2 = None \/ (k + 16 <= n)%nat) ->
            forall r l', (good_last (snd r) /\ (l' <= k)%nat /\
                          match fst r with Some _ => l_entry l2 = None -> (l' + 16 <= k)%nat | None => True end) ->
                         arch_post n (l_entry l = None) r l').
  { intros l2 Hl2 r l' [Hgr [Hle Hm]]. unfold arch_post. split; [exact Hgr|]. split; [lia|].
    destruct (fst r); [|exact I]. intros Hfresh. destruct (Hl2 Hfresh) as [Hn|Hn]; [specialize (Hm Hn); lia|lia]. }
  destruct c as [e|].
  2:{ eapply H_weaken; [apply H_ret|]. cbv beta. intros r k' [-> Hk']. unfold arch_post. cbn [fst snd].
      split; [exact Hg'|]. split; [lia|exact I]. }
  specialize (Hkf ltac:(discriminate)).
  destruct e.
  - (* Entry *)
    destruct (l_entry l) eqn:Ee; [apply H_fail; discriminate|].
    eapply H_weaken; [apply (Hrec Hkf); [exact Hl'|auto|auto]|]. apply Hwk. intros _. right. exact Hent.
  - eapply H_weaken; [apply (Hrec Hkf); [exact Hl'|auto|auto]|]. apply Hwk. intros Hn. left. exact Hn.
  - eapply H_weaken; [apply (Hrec Hkf); [exact Hl'|auto|auto]|]. apply Hwk. intros Hn. left. exact Hn.
  - (* XAttr *)
    destruct (l_entry l) eqn:Ee; [|apply H_fail; discriminate].
    destruct (split_nul name_and_value) as [[kk vv]|]; [|apply H_fail; discriminate].
    eapply H_weaken; [apply (Hrec Hkf); [exact Hl'|auto|auto]|]. apply Hwk. intros Hn. discriminate.
  - eapply H_weaken; [apply (Hrec Hkf); [exact Hl'|auto|auto]|]. apply Hwk. intros Hn. left. exact Hn.
  - (* Filename *)
    destruct (l_entry l) eqn:Ee.
    + eapply H_weaken; [apply H_finish|].
      * unfold wf_astate. cbn. exact I.
      * rewrite Ee. discriminate.
      * cbv beta. intros r l'. apply arch_post_stale; [exact Hk|discriminate].
    + destruct (bad_name name); [apply H_fail; discriminate|].
      eapply H_weaken; [apply (Hrec Hkf); [exact Hl'|auto|auto]|]. apply Hwk. intros Hn. left. reflexivity.
  - (* Symlink *)
    destruct (l_entry l) eqn:Ee; [|apply H_fail; discriminate].
    eapply H_weaken; [apply (Hrec Hkf); [exact Hl'|auto|auto]|]. apply Hwk. intros Hn. discriminate.
  - (* Device *)
    destruct (l_entry l) eqn:Ee; [|apply H_fail; discriminate].
    eapply H_weaken; [apply (Hrec Hkf); [exact Hl'|auto|auto]|]. apply Hwk. intros Hn. discriminate.
  - (* Payload *)
    destruct (l_entry l) eqn:Ee; [|apply H_fail; discriminate].
    eapply H_weaken; [apply H_finish; [exact Hg'|cbn; discriminate]|].
    cbv beta. intros r l'. apply arch_post_stale; [exact Hk|discriminate].
  - eapply H_weaken; [apply (Hrec Hkf); [exact Hl'|auto|auto]|]. apply Hwk. intros Hn. left. exact Hn.
  - eapply H_weaken; [apply (Hrec Hkf); [exact Hl'|auto|auto]|]. apply Hwk. intros Hn. left. exact Hn.
  - eapply H_weaken; [apply (Hrec Hkf); [exact Hl'|auto|auto]|]. apply Hwk. intros Hn. left. exact Hn.
  - eapply H_weaken; [apply (Hrec Hkf); [exact Hl'|auto|auto]|]. apply Hwk. intros Hn. left. exact Hn.
  - eapply H_weaken; [apply (Hrec Hkf); [exact Hl'|auto|auto]|]. apply Hwk. intros Hn. left. exact Hn.
  - (* Goodbye *)
    destruct (l_entry l) eqn:Ee.
    + eapply H_weaken; [apply H_finish; [unfold wf_astate; cbn; exact I|rewrite Ee; discriminate]|].
      cbv beta. intros r l'. apply arch_post_stale; [exact Hk|discriminate].
    + eapply H_weaken; [apply (Hrec Hkf); [cbn; exact Hl'|auto|auto]|]. apply Hwk. intros Hn. left. exact Ee.
  - apply H_fail. discriminate.
  - apply H_fail. discriminate.
Qed.

Lemma H_archive_next n st : good_last st ->
  H n (archive_next st) (fun r l => good_last (snd r) /\ (l <= n)%nat /\
                                    match fst r with Some _ => (l + 16 <= n)%nat | None => True end).
Proof.
  intros Hg. unfold archive_next. apply H_with_input_fuel. intros k Hk.
  eapply H_weaken.
  - apply H_archive_loop; [exact Hg|]. unfold last_cost. destruct (a_last st); lia.
  - cbv beta. unfold arch_post. intros r l [Hgr [Hl Hm]]. split; [exact Hgr|]. split; [lia|].
    destruct (fst r); [|exact I]. specialize (Hm eq_refl). lia.
Qed.

Lemma H_archive_all_loop : forall fuel n st acc, good_last st -> (n < fuel)%nat ->
  H n (archive_all_loop fuel st acc) (fun _ l => (l <= n)%nat).
Proof.
  induction fuel as [|fuel IH]; intros n st acc Hg Hn; [lia|].
  cbn [archive_all_loop]. eapply H_bind; [apply H_archive_next; exact Hg|]. cbv beta.
  intros [on st'] k [Hg' [Hk Hm]]. cbn [fst snd] in *. destruct on as [nd|].
  - eapply H_weaken; [apply IH; [exact Hg'|lia]|cbv beta; intros; lia].
  - hfin.
Qed.

Lemma H_archive_all n : H n archive_all (fun _ l => (l <= n)%nat).
Proof.
  unfold archive_all. apply H_with_input_fuel. intros k Hk.
  eapply H_weaken; [apply H_archive_all_loop; [exact I|lia]|cbv beta; intros; lia].
Qed.

Lemma H_messages_loop : forall fuel n acc, (n < fuel)%nat ->
  H n (messages_loop Fixed fuel acc) (fun _ l => (l <= n)%nat).
Proof.
  induction fuel as [|fuel IH]; intros n acc Hn; [lia|].
  cbn [messages_loop]. intros s Hs. destruct s as [|x t] eqn:Es.
  - cbn. lia.
  - rewrite <- Es in *. clear Es.
    assert (Hb : H n (do m <- read_message Fixed; messages_loop Fixed fuel (m :: acc)) (fun _ l => (l <= n)%nat)).
    { eapply H_bind; [apply H_read_message|]. cbv beta. intros m k Hk.
      eapply H_weaken; [apply IH; lia|cbv beta; intros; lia]. }
    exact (Hb s Hs).
Qed.

Lemma H_read_messages n : H n (read_messages Fixed) (fun _ l => (l <= n)%nat).
Proof.
  unfold read_messages. apply H_with_input_fuel. intros k Hk.
  eapply H_weaken; [apply H_messages_loop; lia|cbv beta; intros; lia].
Qed.

(* H at the input's own length, as a statement about one run *)
Lemma H_run {A} (m : M A) Q b : H (length b) m Q ->
  match m b with
  | (Ok x, s', _) => Q x (length s')
  | (Err e, _, _) => e <> OutOfFuel
  | (Panic _, _, _) => False
  end.
Proof. intros Hm. apply Hm. apply le_n. Qed.

(* ================= abound: allocation against input ================= *)

(* Largest single buffer the fixed code allocates before it has seen the data
   (reader.ReadN: make([]byte, n) for n <= 64 KiB). *)
Definition K : N := 65536.

(* With a factor c: what m allocates (a) is paid for by the input it consumed
   (c per byte) plus [debt]; on success [spare x] of the payment is left over.
   A failing run may in addition have allocated one buffer of at most K. *)
Definition abound {A} (c : N) (spare : A -> N) (debt : N) (m : M A) : Prop :=
  forall s, match m s with
            | (Ok x, s', a) => a + spare x + c * lenN s' <= c * lenN s + debt
            | (_, s', a) => a + c * lenN s' <= c * lenN s + debt + K
            end.

Section Abound.
  Variable c : N.
  Hypothesis c_pos : 1 <= c.

  Lemma abound_bind {A B} sp1 db1 sp2 (m : M A) (f : A -> M B) :
    abound c sp1 db1 m -> (forall x, abound c sp2 (sp1 x) (f x)) -> abound c sp2 db1 (bind m f).
  Proof.
    intros Hm Hf s. specialize (Hm s). unfold bind.
    destruct (m s) as [[[x|e|p] s1] a1]; [|exact Hm|exact Hm].
    specialize (Hf x s1). destruct (f x s1) as [[r s2] a2]. destruct r; lia.
  Qed.

  Lemma abound_weaken {A} sp db sp' db' (m : M A) :
    (forall x, sp' x <= sp x) -> db <= db' -> abound c sp db m -> abound c sp' db' m.
  Proof.
    intros Hsp Hdb Hm s. specialize (Hm s). destruct (m s) as [[[x|e|p] s1] a1]; [specialize (Hsp x)|..]; lia.
  Qed.

  Lemma abound_ret {A} d (x : A) : abound c (fun _ => d) d (ret x).
  Proof. intros s. cbn. lia. Qed.

  Lemma abound_ret' {A} (sp : A -> N) d (x : A) : sp x <= d -> abound c sp d (ret x).
  Proof. intros Hx s. cbn. lia. Qed.

  Lemma abound_fail {A} sp d e : abound c sp d (@fail A e).
  Proof. intros s. cbn. unfold K. lia. Qed.

  Lemma abound_throw {A} sp d p : abound c sp d (@throw A p).
  Proof. intros s. cbn. unfold K. lia. Qed.

  Lemma abound_charge d n : abound c (fun _ => d) (d + n) (charge n).
  Proof. intros s. cbn. lia. Qed.

  Lemma abound_read_full d k : abound c (fun _ => c * N.of_nat k + d) d (read_full k).
  Proof.
    intros s. unfold read_full. destruct (take_exact k s) as [[a r]|] eqn:E.
    - apply take_exact_some in E. destruct E as [-> Hl]. rewrite lenN_app. unfold lenN. rewrite Hl. lia.
    - destruct s; cbn; unfold K; lia.
  Qed.

  Lemma abound_read_u64 d : abound c (fun _ => c * 8 + d) d read_u64.
  Proof.
    unfold read_u64. eapply abound_bind; [apply (abound_read_full d 8)|]. intros b. cbv beta.
    change (N.of_nat 8) with 8. apply abound_ret.
  Qed.

  Lemma abound_read_id d : abound c (fun _ => c * 32 + d) d read_id.
  Proof. unfold read_id. apply (abound_read_full d 32). Qed.

  Lemma abound_make_read_full d n : n <= K -> abound c (fun _ => d) d (make_read_full n).
  Proof.
    intros Hn s. unfold make_read_full. destruct (maxAlloc <? n); [cbn; unfold K; lia|].
    destruct (take_upto n s) as [a r] eqn:E. apply take_upto_parts in E. destruct E as [-> Hl].
    rewrite lenN_app. destruct (lenN a =? n) eqn:Ec.
    - apply N.eqb_eq in Ec. nia.
    - destruct a; cbn [lenN length N.of_nat]; nia.
  Qed.

  Lemma abound_read_n d n : abound c (fun _ => d) d (read_n Fixed n).
  Proof.
    unfold read_n. destruct (MaxInt64 <? n); [apply abound_fail|].
    destruct (n <=? 65536) eqn:E.
    - apply abound_make_read_full. apply N.leb_le in E. exact E.
    - intros s. destruct (take_upto n s) as [a r] eqn:Et. apply take_upto_parts in Et. destruct Et as [-> Hl].
      rewrite lenN_app. destruct (lenN a <? n); nia.
  Qed.

  Lemma abound_read_body d hdr consumed mn : abound c (fun _ => d) d (read_body Fixed hdr consumed mn).
  Proof. unfold read_body. destruct (_ || _); [apply abound_fail|apply abound_read_n]. Qed.

  Lemma abound_strip_last d b : abound c (fun _ => d) d (strip_last b).
  Proof. unfold strip_last. destruct b; [apply abound_throw|apply abound_ret]. Qed.

  Lemma abound_read_string d hdr consumed : abound c (fun _ => d) d (read_string Fixed hdr consumed).
  Proof.
    unfold read_string. eapply abound_bind; [apply abound_read_body|]. intros b. cbv beta. apply abound_strip_last.
  Qed.

  Lemma abound_payload (sp : elem -> N) d hdr n : (forall a, sp (Payload hdr a) <= d) ->
    abound c sp d (fun s => match take_upto n s with (a, r) => (Ok (Payload hdr a), r, 0) end).
  Proof.
    intros Hsp s. destruct (take_upto n s) as [a r] eqn:E. apply take_upto_parts in E. destruct E as [-> _].
    rewrite lenN_app. specialize (Hsp a). nia.
  Qed.

  Lemma abound_with_input_fuel {A} sp d (f : nat -> M A) :
    (forall fuel, abound c sp d (f fuel)) -> abound c sp d (with_input_fuel f).
  Proof. intros Hf s. unfold with_input_fuel. apply Hf. Qed.

  Definition tsp (n : nat) : N := (c - 1) * 40 * N.of_nat n.
  (* what a decoded element still has to its credit: the table rows *)
  Definition esp (e : elem) : N := match e with Table _ items => tsp (length items) | _ => 0 end.
  Definition osp (oe : option elem) : N := match oe with Some e => esp e | None => 0 end.

  Ltac ard := eapply abound_bind; [apply abound_read_u64|cbv beta; intros ?].
  Ltac afin := apply abound_ret'; cbv beta; cbn [esp osp]; lia.

  Lemma abound_goodbye_loop d : forall fuel n acc, abound c (fun _ => d) d (goodbye_loop fuel n acc).
  Proof.
    induction fuel as [|fuel IH]; intros n acc; cbn [goodbye_loop]; destruct (n =? 0); try apply abound_ret; try apply abound_fail.
    ard. ard. ard. eapply abound_bind.
    - eapply abound_weaken; [| |apply (abound_charge d 24)]; [cbv beta; intros; apply N.le_refl|lia].
    - cbv beta. intros _. apply IH.
  Qed.

  Lemma abound_table_loop d : forall fuel acc,
    abound c (fun items => tsp (length items) + d) (tsp (length acc) + d) (table_loop fuel acc).
  Proof.
    induction fuel as [|fuel IH]; intros acc; cbn [table_loop]; [apply abound_fail|].
    ard. destruct (_ =? 0).
    - apply abound_ret'. rewrite rev_length. lia.
    - eapply abound_bind; [apply abound_read_id|cbv beta; intros id].
      eapply abound_bind.
      + eapply abound_weaken; [| |apply (abound_charge (tsp (length ((x, id) :: acc)) + d) 40)].
        * cbv beta; intros; apply N.le_refl.
        * unfold tsp, titem. cbn [length]. rewrite Nat2N.inj_succ.
          assert (E : c = c - 1 + 1) by lia. remember (c - 1) as t. rewrite E. clear E Heqt. rewrite N.mul_succ_r. lia.
      + cbv beta. intros _. apply IH.
  Qed.

  Ltac astr := eapply abound_bind; [apply abound_read_string|cbv beta; intros ?]; afin.

  Lemma abound_next_body d hdr : abound c (fun e => esp e + d) d (next_body Fixed hdr).
  Proof.
    unfold next_body.
    repeat match goal with |- abound _ _ _ (if ?t =? ?k then _ else _) => destruct (t =? k) end.
    - destruct (negb _); [apply abound_fail|]. repeat ard. afin.
    - astr.
    - astr.
    - astr.
    - astr.
    - astr.
    - astr.
    - destruct (negb _); [apply abound_fail|]. repeat ard. afin.
    - destruct (_ || _); [apply abound_fail|].
      apply abound_payload. intros a. cbn [esp]. lia.
    - eapply abound_bind; [apply abound_read_body|cbv beta; intros ?]. afin.
    - ard. ard. astr.
    - ard. ard. astr.
    - ard. afin.
    - repeat ard. afin.
    - destruct (_ <? _); [apply abound_fail|].
      eapply abound_bind; [apply abound_with_input_fuel; intros; apply abound_goodbye_loop|cbv beta; intros items].
      destruct (last_hash items); [|apply abound_fail]. destruct (_ =? _); [afin|apply abound_fail].
    - repeat ard. afin.
    - destruct (negb _); [apply abound_fail|].
      eapply abound_bind.
      + apply abound_with_input_fuel. intros fuel.
        eapply abound_weaken; [| |apply (abound_table_loop d fuel [])]; [cbv beta; intros; apply N.le_refl|unfold tsp; cbn; lia].
      + cbv beta. intros items. ard. destruct (negb _); [apply abound_fail|]. ard. ard. ard.
        destruct (negb _); [apply abound_fail|].
        apply abound_ret'. cbn [esp]. lia.
    - apply abound_fail.
  Qed.

  Lemma abound_read_header d : abound c (fun _ => d) d read_header.
  Proof.
    intros s. unfold read_header.
    destruct (read_u64_cases s) as [[x [s1 [E1 L1]]]|[[E1 ->]|[E1 _]]]; rewrite E1; [|cbn; lia|cbn; unfold K; lia].
    destruct (read_u64_cases s1) as [[y [s2 [E2 L2]]]|[[E2 ->]|[E2 _]]]; rewrite E2; unfold lenN, K in *; cbn [length]; lia.
  Qed.

  Lemma abound_next d : abound c (fun oe => osp oe + d) d (next Fixed).
  Proof.
    unfold next. eapply abound_bind; [apply abound_read_header|cbv beta; intros [hdr|]].
    - eapply abound_bind; [apply abound_next_body|cbv beta; intros e].
      apply abound_ret'. cbn [osp]. lia.
    - apply abound_ret'. cbn [osp]. lia.
  Qed.

  Lemma abound_all_loop d : forall fuel acc, abound c (fun _ => d) d (all_loop Fixed fuel acc).
  Proof.
    induction fuel as [|fuel IH]; intros acc; cbn [all_loop]; [apply abound_fail|].
    eapply abound_bind; [apply abound_next|cbv beta; intros [e|]].
    - eapply abound_weaken; [| |apply IH]; [cbv beta; intros; apply N.le_refl|lia].
    - afin.
  Qed.

  Lemma abound_decode_all d : abound c (fun _ => d) d (decode_all Fixed).
  Proof. unfold decode_all. apply abound_with_input_fuel. intros. apply abound_all_loop. Qed.

  Lemma abound_read_message d : abound c (fun _ => d) d (read_message Fixed).
  Proof.
    unfold read_message. ard. destruct (_ <? 16); [apply abound_fail|].
    eapply abound_bind; [apply abound_read_n|cbv beta; intros b].
    destruct (take_exact 8 b) as [[t body]|]; [afin|apply abound_throw].
  Qed.

  Lemma abound_messages_loop d : forall fuel acc, abound c (fun _ => d) d (messages_loop Fixed fuel acc).
  Proof.
    induction fuel as [|fuel IH]; intros acc; cbn [messages_loop]; [apply abound_fail|].
    assert (Hb : abound c (fun _ => d) d (do m <- read_message Fixed; messages_loop Fixed fuel (m :: acc))).
    { eapply abound_bind; [apply abound_read_message|cbv beta; intros m].
      eapply abound_weaken; [| |apply IH]; [cbv beta; intros; apply N.le_refl|lia]. }
    intros s. destruct s as [|x t]; [cbn; lia|]. exact (Hb (x :: t)).
  Qed.

  Lemma abound_archive_loop d : forall fuel st l, abound c (fun _ => d) d (archive_loop fuel st l).
  Proof.
    induction fuel as [|fuel IH]; intros st l; cbn [archive_loop]; [apply abound_fail|].
    eapply abound_bind with (sp1 := fun _ => d).
    - destruct (a_last st); [apply abound_ret|].
      eapply abound_bind; [apply abound_next|cbv beta; intros oe]. afin.
    - cbv beta. intros [oe st']. cbn [fst snd].
      destruct oe as [e|]; [|apply abound_ret].
      destruct e; unfold finish; repeat first
        [ apply abound_ret | apply abound_fail | apply IH
        | match goal with |- abound _ _ _ (match ?x with _ => _ end) => destruct x end
        | match goal with |- abound _ _ _ (if ?x then _ else _) => destruct x end ].
  Qed.

  Lemma abound_archive_next d st : abound c (fun _ => d) d (archive_next st).
  Proof. unfold archive_next. apply abound_with_input_fuel. intros. apply abound_archive_loop. Qed.

  Lemma abound_archive_all_loop d : forall fuel st acc, abound c (fun _ => d) d (archive_all_loop fuel st acc).
  Proof.
    induction fuel as [|fuel IH]; intros st acc; cbn [archive_all_loop]; [apply abound_fail|].
    eapply abound_bind; [apply abound_archive_next|cbv beta; intros [on st']]. cbn [fst snd].
    destruct on; [apply IH|apply abound_ret].
  Qed.
End Abound.

(* IndexFromReader also allocates 48 bytes per 40-byte table row: factor 3 *)
Lemma abound_index_from_reader d0 dg : abound 3 (fun _ => d0) d0 (index_from_reader dg).
Proof.
  assert (c3 : 1 <= 3) by lia.
  unfold index_from_reader_v.
  eapply abound_bind; [exact c3|apply (abound_next 3 c3 d0)|cbv beta; intros oe].
  destruct oe as [e|]; [|apply abound_fail; exact c3].
  destruct e; try (apply abound_fail; exact c3).
  destruct (negb _); [apply abound_fail; exact c3|].
  eapply abound_bind; [exact c3|apply (abound_next 3 c3)|cbv beta; intros oe2].
  destruct oe2 as [e2|]; [|apply abound_fail; exact c3].
  destruct e2; try (apply abound_fail; exact c3).
  cbn [osp esp].
  eapply abound_bind with (sp1 := fun _ => d0); [exact c3| |cbv beta; intros u].
  - intros s. unfold charge, tsp. cbv beta iota. lia.
  - destruct (chunks_of_items chunk_max 0 items); [apply abound_ret|apply abound_fail|apply abound_throw]; exact c3.
Qed.

(* ================= the C19 statements ================= *)

Lemma survives_run {A} (m : M A) Q b : H (length b) m Q -> survives (run_result m b).
Proof.
  intros Hm. pose proof (H_run m Q b Hm) as Hr. unfold run_result, survives.
  destruct (m b) as [[[x|e|p] s'] a]; [exact I|exact Hr|exact Hr].
Qed.

Theorem decoders_total (b : bytes) :
  survives (decode_next b) /\ survives (decode_elems b) /\
  (forall d, survives (decode_index d b)) /\
  survives (decode_message b) /\ survives (decode_messages b) /\
  (forall st, wf_astate st -> survives (decode_archive_next st b)) /\ survives (decode_archive b).
Proof.
  split; [eapply survives_run, H_next|].
  split; [eapply survives_run, H_decode_all|].
  split.
  { intros d. pose proof (survives_run _ _ b (H_index_from_reader (length b) d)) as Hs.
    unfold decode_index, run_result, survives in *. destruct (index_from_reader d b) as [[[x|e|p] s'] a]; exact Hs. }
  split; [eapply survives_run, H_read_message|].
  split; [eapply survives_run, H_read_messages|].
  split; [intros st Hst; eapply survives_run, H_archive_next; exact Hst|].
  eapply survives_run, H_archive_all.
Qed.

Theorem archive_state_preserved st b nd st' rest :
  wf_astate st -> decode_archive_next st b = Ok ((nd, st'), rest) -> wf_astate st'.
Proof.
  intros Hst E. pose proof (H_run _ _ b (H_archive_next (length b) st Hst)) as Hr.
  unfold decode_archive_next, run_result in E. destruct (archive_next st b) as [[[x|e|p] s'] a]; try discriminate.
  inversion E; subst. destruct Hr as [Hg _]. exact Hg.
Qed.

Lemma alloc_run {A} c (m : M A) b : abound c (fun _ => 0) 0 m -> run_alloc m b <= c * lenN b + K.
Proof.
  intros Hm. specialize (Hm b). unfold run_alloc. destruct (m b) as [[[x|e|p] s'] a]; cbn [snd]; lia.
Qed.

Theorem decoders_alloc_bound (b : bytes) :
  decode_next_alloc b <= lenN b + 65536 /\ decode_elems_alloc b <= lenN b + 65536 /\
  (forall d, decode_index_alloc d b <= 3 * lenN b + 65536) /\
  decode_message_alloc b <= lenN b + 65536 /\ decode_messages_alloc b <= lenN b + 65536 /\
  (forall st, decode_archive_next_alloc st b <= lenN b + 65536) /\ decode_archive_alloc b <= lenN b + 65536.
Proof.
  assert (c1 : 1 <= 1) by lia.
  assert (E : forall x, 1 * x + K = x + 65536) by (intros; unfold K; lia).
  split; [rewrite <- E; apply alloc_run; eapply abound_weaken; [exact c1| | |apply (abound_next 1 c1 0)]; [intros; cbv beta; apply N.le_0_l|apply N.le_refl]|].
  split; [rewrite <- E; apply alloc_run, abound_decode_all; exact c1|].
  split; [intros d; apply (alloc_run 3), abound_index_from_reader|].
  split; [rewrite <- E; apply alloc_run, abound_read_message; exact c1|].
  split; [rewrite <- E; apply alloc_run; unfold read_messages; apply abound_with_input_fuel; intros; apply abound_messages_loop; exact c1|].
  split; [intros st; rewrite <- E; apply alloc_run, abound_archive_next; exact c1|].
  rewrite <- E. apply alloc_run. unfold archive_all. apply abound_with_input_fuel. intros. apply abound_archive_all_loop. exact c1.
Qed.
