(* Proofs about format.go makeGoodbyeBST / bst (Model/Goodbye.v).

   Part 1  the abstract tree built by the k formula: its in-order traversal is
           the input, its heap positions are exactly 0..n-1      (for EVERY n)
   Part 2  heap numbering: node and leaf positions of any tree are pairwise
           distinct, hence the leaves of a complete tree lie beyond the array
   Part 3  the array-writing model [bst] performs exactly the writes of that tree
   Part 4  reading the array back: arr_inorder, casync_lookup
   Part 5  sorting, and the theorems about make_goodbye_bst *)
From Coq Require Import List NArith Arith Bool Lia Permutation Sorted Orders Mergesort FMapPositive ZifyN ZifyNat ZifyBool.
From DS Require Import Model.Goodbye.
Import ListNotations.

(* ---- NoDup over append (not in the 8.16 stdlib) ---- *)
Lemma nodup_app_intro {B} (a b : list B) :
  NoDup a -> NoDup b -> (forall x, In x a -> In x b -> False) -> NoDup (a ++ b).
Proof.
  induction a as [|x a IH]; intros Ha Hb Hd; [exact Hb|].
  cbn [app]. inversion Ha as [|? ? Hx Ha']; subst. constructor.
  - rewrite in_app_iff. intros [H|H]; [exact (Hx H)|]. apply (Hd x); [left; reflexivity|exact H].
  - apply IH; [exact Ha'|exact Hb|]. intros y Hy1 Hy2. apply (Hd y); [right; exact Hy1|exact Hy2].
Qed.

Lemma nodup_app_l {B} (a b : list B) : NoDup (a ++ b) -> NoDup a.
Proof.
  induction a as [|x a IH]; intros H; [constructor|].
  cbn [app] in H. inversion H as [|? ? Hx H']; subst. constructor.
  - intros Hin. apply Hx. rewrite in_app_iff. auto.
  - apply IH. exact H'.
Qed.

Lemma nodup_app_r {B} (a b : list B) : NoDup (a ++ b) -> NoDup b.
Proof.
  induction a as [|x a IH]; intros H; [exact H|].
  cbn [app] in H. inversion H; subst. apply IH. assumption.
Qed.

Lemma nodup_app_disj {B} (a b : list B) x : NoDup (a ++ b) -> In x a -> In x b -> False.
Proof.
  induction a as [|y a IH]; intros H Ha Hb; [destruct Ha|].
  cbn [app] in H. inversion H as [|? ? Hy H']; subst. destruct Ha as [->|Ha].
  - apply Hy. rewrite in_app_iff. auto.
  - exact (IH H' Ha Hb).
Qed.

(* ====================== Part 1: the tree of the k formula ====================== *)
Section BST.
Context {A : Type} (d : A).

Inductive tree := Leaf | Node (l : tree) (x : A) (r : tree).

Fixpoint inorder (t : tree) : list A :=
  match t with Leaf => [] | Node l x r => inorder l ++ x :: inorder r end.

Fixpoint height (t : tree) : nat :=
  match t with Leaf => 0 | Node l _ r => S (Nat.max (height l) (height r)) end.

(* heap placement: positions of the nodes, preorder *)
Fixpoint pos (t : tree) (i : nat) : list nat :=
  match t with Leaf => [] | Node l _ r => i :: pos l (2*i+1) ++ pos r (2*i+2) end.

Fixpoint place (t : tree) (i : nat) : list (nat * A) :=
  match t with Leaf => [] | Node l x r => (i, x) :: place l (2*i+1) ++ place r (2*i+2) end.

(* positions where the tree has an empty subtree *)
Fixpoint leafpos (t : tree) (i : nat) : list nat :=
  match t with Leaf => [i] | Node l _ r => leafpos l (2*i+1) ++ leafpos r (2*i+2) end.

(* k as computed by format.go:bst, with p = 2^(e-1) *)
Definition kof (p n : nat) : nat :=
  if p - 1 + p / 2 <=? n then p - 1 else n - p / 2.

Fixpoint build (e : nat) (l : list A) : tree :=
  match e with
  | 0 => Leaf
  | S e' =>
    match l with
    | [] => Leaf
    | _ => let k := kof (2 ^ e') (length l) in
           Node (build e' (firstn k l)) (nth k l d) (build e' (skipn (S k) l))
    end
  end.

(* e is the bit length of n (or n = 0 and e = 0) *)
Definition valid (n e : nat) := 2 ^ e <= 2 * (n + 1) /\ n < 2 ^ e.

Lemma pow2_pos e : 1 <= 2 ^ e.
Proof. induction e; cbn; lia. Qed.

Lemma kof_lt p n : 1 <= p -> p - 1 <= n -> n < 2 * p -> 1 <= n -> kof p n < n.
Proof.
  intros Hp Hlo Hhi Hn. unfold kof. destruct (Nat.leb_spec (p - 1 + p / 2) n) as [H|H].
  - assert (p / 2 <= p) by (apply Nat.div_le_upper_bound; lia).
    destruct (Nat.eq_dec p 1) as [->|]. { cbn in *. lia. }
    assert (1 <= p / 2). { apply Nat.div_le_lower_bound; lia. } lia.
  - destruct (Nat.eq_dec p 1) as [->|]. { cbn in *. lia. }
    assert (1 <= p / 2). { apply Nat.div_le_lower_bound; lia. } lia.
Qed.

Lemma valid_children e' n : valid n (S e') -> 1 <= n ->
  let k := kof (2 ^ e') n in k < n /\ valid k e' /\ valid (n - 1 - k) e'.
Proof.
  unfold valid. cbn [Nat.pow]. intros [Hlo Hhi] Hn.
  assert (Hp := pow2_pos e'). set (p := 2 ^ e') in *.
  assert (Hk : kof p n < n) by (apply kof_lt; lia).
  split; [exact Hk|].
  destruct e' as [|e''].
  - cbn in p. subst p. assert (n = 1) by lia. subst n. cbn. lia.
  - assert (Hh := pow2_pos e''). cbn [Nat.pow] in p. set (h := 2 ^ e'') in *.
    assert (Ehalf : p / 2 = h). { subst p. replace (2 * h) with (h * 2) by lia. apply Nat.div_mul. lia. }
    unfold kof in *. rewrite Ehalf in *. cbn [Nat.pow]. fold h.
    destruct (Nat.leb_spec (p - 1 + h) n); subst p; lia.
Qed.

Lemma build_S e' l : l <> [] ->
  build (S e') l = let k := kof (2 ^ e') (length l) in
           Node (build e' (firstn k l)) (nth k l d) (build e' (skipn (S k) l)).
Proof. destruct l; [congruence|reflexivity]. Qed.

Lemma skipn_nth_cons (k : nat) (l : list A) : k < length l -> skipn k l = nth k l d :: skipn (S k) l.
Proof.
  revert l. induction k as [|k IH]; intros [|a l] H; cbn in *; try lia; [reflexivity|].
  apply IH. lia.
Qed.

Lemma inorder_build e : forall l, valid (length l) e -> inorder (build e l) = l.
Proof.
  induction e as [|e' IH]; intros l Hv.
  - destruct Hv as [_ H]. cbn in H. destruct l; [reflexivity|cbn in H; lia].
  - assert (Hcases : l = [] \/ l <> []) by (destruct l; [left; reflexivity|right; congruence]).
    destruct Hcases as [->|Hne]; [reflexivity|].
    assert (Hn : 1 <= length l) by (destruct l; [congruence|cbn; lia]).
    rewrite build_S by exact Hne. cbv zeta.
    destruct (valid_children e' (length l) Hv Hn) as (Hk & Hl & Hr).
    set (k := kof (2 ^ e') (length l)) in *.
    cbn [inorder]. rewrite IH, IH.
    + rewrite <- skipn_nth_cons by exact Hk. apply firstn_skipn.
    + rewrite skipn_length. replace (length l - S k) with (length l - 1 - k) by lia. exact Hr.
    + rewrite firstn_length_le by lia. exact Hl.
Qed.

Lemma height_build e : forall l, height (build e l) <= e.
Proof.
  induction e as [|e' IH]; intros l; [cbn; lia|].
  destruct l as [|a l]; [cbn; lia|].
  rewrite build_S by congruence. cbv zeta. cbn [height].
  pose proof (IH (firstn (kof (2 ^ e') (length (a :: l))) (a :: l))).
  pose proof (IH (skipn (S (kof (2 ^ e') (length (a :: l)))) (a :: l))). lia.
Qed.

(* ---- completeness: heap positions are exactly 0..n-1 ---- *)

Definition cnt (t m : nat) : nat := Nat.min t (m - (t - 1)).   (* nodes at the level of width t in a complete tree of m nodes *)

Fixpoint levels (e : nat) (f : nat -> list nat) : list nat :=   (* concat_{j<e} f j *)
  match e with 0 => [] | S e' => levels e' f ++ f e' end.

Lemma levels_ext e f g : (forall j, j < e -> f j = g j) -> levels e f = levels e g.
Proof. induction e; cbn; intros H; [reflexivity|]. rewrite IHe, H by (intros; try apply H; lia). reflexivity. Qed.

Lemma levels_shift e f : levels (S e) f = f 0 ++ levels e (fun j => f (S j)).
Proof.
  induction e as [|e IH]; [cbn; now rewrite app_nil_r|].
  change (levels (S (S e)) f) with (levels (S e) f ++ f (S e)). rewrite IH.
  cbn [levels]. now rewrite app_assoc.
Qed.

Lemma levels_perm_app e f g :
  Permutation (levels e (fun j => f j ++ g j)) (levels e f ++ levels e g).
Proof.
  induction e as [|e IH]; cbn; [constructor|].
  rewrite IH. rewrite <- !app_assoc. apply Permutation_app_head.
  rewrite !app_assoc. apply Permutation_app_tail. apply Permutation_app_comm.
Qed.

Definition blk (i j n : nat) : list nat := seq (2 ^ j * (i + 1) - 1) (cnt (2 ^ j) n).

Lemma arith_core h t n :
  1 <= t -> (t = h \/ 2 * t <= h) -> 2 * h - 1 <= n -> n < 4 * h ->
  let p := 2 * h in
  let k := if p - 1 + h <=? n then p - 1 else n - h in
  let r := n - 1 - k in
  cnt t k + cnt t r = cnt (2 * t) n /\ (cnt t k = t \/ cnt t r = 0).
Proof.
  intros Ht Hth Hlo Hhi p k r. subst p k r. unfold cnt.
  destruct (Nat.leb_spec (2 * h - 1 + h) n) as [HA|HB]; destruct Hth as [->|H2].
  - rewrite (Nat.min_l h (2 * h - 1 - (h - 1))) by lia.
    rewrite (Nat.min_r h (n - 1 - (2 * h - 1) - (h - 1))) by lia.
    rewrite (Nat.min_r (2 * h) (n - (2 * h - 1))) by lia. lia.
  - rewrite (Nat.min_l t (2 * h - 1 - (t - 1))) by lia.
    rewrite (Nat.min_l t (n - 1 - (2 * h - 1) - (t - 1))) by lia.
    rewrite (Nat.min_l (2 * t) (n - (2 * t - 1))) by lia. lia.
  - rewrite (Nat.min_r h (n - h - (h - 1))) by lia.
    rewrite (Nat.min_r h (n - 1 - (n - h) - (h - 1))) by lia.
    rewrite (Nat.min_r (2 * h) (n - (2 * h - 1))) by lia. lia.
  - rewrite (Nat.min_l t (n - h - (t - 1))) by lia.
    rewrite (Nat.min_l t (n - 1 - (n - h) - (t - 1))) by lia.
    rewrite (Nat.min_l (2 * t) (n - (2 * t - 1))) by lia. lia.
Qed.

Lemma pos_build e : forall l i, valid (length l) e ->
  Permutation (pos (build e l) i) (levels e (fun j => blk i j (length l))).
Proof.
  induction e as [|e' IH]; intros l i Hv.
  - destruct Hv as [_ H]. cbn in H. destruct l; [constructor|cbn in H; lia].
  - assert (Hcases : l = [] \/ l <> []) by (destruct l; [left; reflexivity|right; congruence]).
    destruct Hcases as [->|Hne].
    { cbn [build pos length]. clear. induction (S e'); cbn; [constructor|].
      rewrite <- IHn. unfold blk, cnt. cbn. now rewrite Nat.min_0_r. }
    assert (Hn : 1 <= length l) by (destruct l; [congruence|cbn; lia]).
    rewrite build_S by exact Hne. cbv zeta.
    destruct (valid_children e' (length l) Hv Hn) as (Hk & Hl & Hr).
    set (n := length l) in *. set (k := kof (2 ^ e') n) in *.
    cbn [pos].
    rewrite (IH (firstn k l) (2*i+1)) by (rewrite firstn_length_le by lia; exact Hl).
    rewrite (IH (skipn (S k) l) (2*i+2)) by (rewrite skipn_length; replace (length l - S k) with (n - 1 - k) by (subst n; lia); exact Hr).
    rewrite firstn_length_le by lia. rewrite skipn_length. fold n.
    replace (n - S k) with (n - 1 - k) by lia.
    rewrite levels_shift.
    assert (E0 : blk i 0 n = [i]).
    { unfold blk, cnt. change (2 ^ 0) with 1. rewrite Nat.min_l by lia. cbn [seq]. f_equal. lia. }
    rewrite E0. cbn [app]. apply perm_skip.
    rewrite <- levels_perm_app.
    erewrite levels_ext; [reflexivity|].
    intros j Hj. cbv beta. unfold blk.
    destruct e' as [|e'']; [lia|].
    assert (Hh := pow2_pos e''). assert (Ht := pow2_pos j).
    destruct Hv as [Hv1 Hv2]. cbn [Nat.pow] in Hv1, Hv2.
    assert (Hth : 2 ^ j = 2 ^ e'' \/ 2 * 2 ^ j <= 2 ^ e'').
    { destruct (Nat.eq_dec j e'') as [->|]; [left; reflexivity|right].
      change (2 * 2 ^ j) with (2 ^ S j). apply Nat.pow_le_mono_r; lia. }
    assert (Ek : k = if 2 * 2 ^ e'' - 1 + 2 ^ e'' <=? n then 2 * 2 ^ e'' - 1 else n - 2 ^ e'').
    { subst k. unfold kof. cbn [Nat.pow].
      replace (2 * 2 ^ e'' / 2) with (2 ^ e'') by (replace (2 * 2 ^ e'') with (2 ^ e'' * 2) by lia; symmetry; apply Nat.div_mul; lia).
      reflexivity. }
    destruct (arith_core (2 ^ e'') (2 ^ j) n Ht Hth ltac:(lia) ltac:(lia)) as [Hsum Hcont].
    cbv zeta in Hsum, Hcont. rewrite <- Ek in Hsum, Hcont.
    cbn [Nat.pow]. rewrite <- Hsum.
    set (t := 2 ^ j) in *.
    rewrite seq_app. f_equal.
    + f_equal. lia.
    + destruct Hcont as [Hc|Hc].
      * rewrite Hc. f_equal. nia.
      * rewrite Hc. cbn. reflexivity.
Qed.

Lemma levels_root e n : levels e (fun j => blk 0 j n) = seq 0 (Nat.min n (2 ^ e - 1)).
Proof.
  induction e as [|e IH]; [cbn; now rewrite Nat.min_0_r|].
  cbn [levels]. rewrite IH. unfold blk, cnt. assert (Hp := pow2_pos e). cbn [Nat.pow].
  set (P := 2 ^ e) in *. replace (P * (0 + 1) - 1) with (P - 1) by lia.
  destruct (Nat.le_gt_cases n (P - 1)).
  - replace (Nat.min P (n - (P - 1))) with 0 by lia. cbn. rewrite app_nil_r. f_equal. lia.
  - replace (Nat.min n (P - 1)) with (P - 1) by lia.
    rewrite <- seq_app. f_equal. lia.
Qed.

Theorem bst_complete e l : valid (length l) e ->
  Permutation (pos (build e l) 0) (seq 0 (length l)).
Proof.
  intros Hv. rewrite pos_build by exact Hv. rewrite levels_root.
  destruct Hv. replace (Nat.min (length l) (2 ^ e - 1)) with (length l) by lia. reflexivity.
Qed.

(* ====================== Part 2: heap numbering ====================== *)

(* j lies in the subtree of slots rooted at i: d levels down, c-th from the left *)
Definition under (i j : nat) : Prop := exists dd c, c < 2 ^ dd /\ j + 1 = 2 ^ dd * (i + 1) + c.

Lemma under_refl i : under i i.
Proof. exists 0, 0. cbn. lia. Qed.

Lemma under_left i j : under (2 * i + 1) j -> under i j.
Proof.
  intros (dd & c & Hc & E). exists (S dd), c. cbn [Nat.pow]. split; [lia|]. nia.
Qed.

Lemma under_right i j : under (2 * i + 2) j -> under i j.
Proof.
  intros (dd & c & Hc & E). exists (S dd), (2 ^ dd + c). cbn [Nat.pow]. split; [lia|]. nia.
Qed.

Lemma under_gt_left i j : under (2 * i + 1) j -> i < j.
Proof. intros (dd & c & Hc & E). pose proof (pow2_pos dd). nia. Qed.

Lemma under_gt_right i j : under (2 * i + 2) j -> i < j.
Proof. intros (dd & c & Hc & E). pose proof (pow2_pos dd). nia. Qed.

Lemma pow2_lt_double a b : a < b -> 2 * 2 ^ a <= 2 ^ b.
Proof. intros H. change (2 * 2 ^ a) with (2 ^ S a). apply Nat.pow_le_mono_r; lia. Qed.

Lemma under_disjoint i j : under (2 * i + 1) j -> under (2 * i + 2) j -> False.
Proof.
  intros (d1 & c1 & Hc1 & E1) (d2 & c2 & Hc2 & E2).
  destruct (Nat.lt_trichotomy d1 d2) as [H|[H|H]].
  - pose proof (pow2_lt_double _ _ H). nia.
  - subst d2. nia.
  - pose proof (pow2_lt_double _ _ H). nia.
Qed.

Lemma all_under t : forall i j, In j (pos t i ++ leafpos t i) -> under i j.
Proof.
  induction t as [|l IHl x r IHr]; intros i j Hin.
  - cbn in Hin. destruct Hin as [<-|[]]. apply under_refl.
  - cbn [pos leafpos] in Hin. rewrite in_app_iff in Hin. cbn [In] in Hin. rewrite !in_app_iff in Hin.
    destruct Hin as [[<-|[H|H]]|[H|H]].
    + apply under_refl.
    + apply under_left, IHl. rewrite in_app_iff. auto.
    + apply under_right, IHr. rewrite in_app_iff. auto.
    + apply under_left, IHl. rewrite in_app_iff. auto.
    + apply under_right, IHr. rewrite in_app_iff. auto.
Qed.

Lemma slots_nodup t : forall i, NoDup (pos t i ++ leafpos t i).
Proof.
  induction t as [|l IHl x r IHr]; intros i.
  - cbn. constructor; [intros []|constructor].
  - cbn [pos leafpos].
    assert (P : Permutation ((i :: pos l (2*i+1) ++ pos r (2*i+2)) ++ leafpos l (2*i+1) ++ leafpos r (2*i+2))
                            (i :: (pos l (2*i+1) ++ leafpos l (2*i+1)) ++ (pos r (2*i+2) ++ leafpos r (2*i+2)))).
    { cbn [app]. apply perm_skip. rewrite <- !app_assoc. apply Permutation_app_head.
      rewrite !app_assoc. apply Permutation_app_tail. apply Permutation_app_comm. }
    apply (Permutation_NoDup (Permutation_sym P)).
    constructor.
    + rewrite in_app_iff. intros [H|H].
      * apply all_under, under_gt_left in H. lia.
      * apply all_under, under_gt_right in H. lia.
    + apply nodup_app_intro; [apply IHl|apply IHr|].
      intros j H1 H2. apply all_under in H1, H2. exact (under_disjoint _ _ H1 H2).
Qed.

Lemma pos_nodup t i : NoDup (pos t i).
Proof. pose proof (slots_nodup t i) as H. apply nodup_app_l in H. exact H. Qed.

(* the empty subtrees of the tree built for n items hang at slots >= n *)
Lemma build_leaves_beyond e l j : valid (length l) e ->
  In j (leafpos (build e l) 0) -> length l <= j.
Proof.
  intros Hv Hin.
  destruct (Nat.le_gt_cases (length l) j) as [H|H]; [exact H|exfalso].
  assert (Hp : In j (pos (build e l) 0)).
  { apply (Permutation_in _ (Permutation_sym (bst_complete e l Hv))). apply in_seq. lia. }
  pose proof (slots_nodup (build e l) 0) as ND.
  apply in_split in Hp. destruct Hp as (a & b & Eq). rewrite Eq in ND.
  rewrite <- app_assoc in ND. cbn [app] in ND. apply NoDup_remove_2 in ND.
  apply ND. rewrite !in_app_iff. auto.
Qed.

End BST.

Arguments Leaf {A}.
Arguments Node {A} l x r.

(* ====================== Part 3: the array-writing model ====================== *)

Lemma slot_key_inj i j : slot_key i = slot_key j -> i = j.
Proof.
  unfold slot_key. intros H. apply (f_equal N.pos) in H. rewrite !N.succ_pos_spec in H. lia.
Qed.

Lemma arr_set_spec a i x a' : arr_set a i x = Some a' ->
  a_len a' = a_len a /\ arr_get a' i = x /\ (forall j, j <> i -> arr_get a' j = arr_get a j).
Proof.
  unfold arr_set. destruct (N.ltb_spec i (a_len a)) as [Hlt|Hge]; [|discriminate]. intros H. inversion H; subst. clear H.
  unfold arr_get. cbn [a_len a_map]. split; [reflexivity|]. split.
  - rewrite PositiveMap.gss. reflexivity.
  - intros j Hj. rewrite PositiveMap.gso; [reflexivity|]. intros E. apply Hj. exact (slot_key_inj _ _ E).
Qed.

Lemma arr_set_some a i x : (i < a_len a)%N -> exists a', arr_set a i x = Some a'.
Proof. intros H. unfold arr_set. destruct (N.ltb_spec i (a_len a)); [eauto|lia]. Qed.

Lemma bst_k_valid e' n : valid n (S e') -> 1 <= n -> bst_k (2 ^ e') n = Some (kof (2 ^ e') n).
Proof.
  unfold valid. cbn [Nat.pow]. intros [Hlo Hhi] Hn. pose proof (pow2_pos e') as Hp.
  unfold bst_k, kof. destruct (Nat.leb_spec (2 ^ e' - 1 + 2 ^ e' / 2) n) as [H|H]; [reflexivity|].
  assert (Hh : 2 ^ e' / 2 <= n).
  { destruct (Nat.eq_dec (2 ^ e') 1) as [->|Hne]; [cbn; lia|].
    assert (2 ^ e' / 2 < 2 ^ e') by (apply Nat.div_lt; lia). lia. }
  destruct (Nat.leb_spec (2 ^ e' / 2) n); [reflexivity|lia].
Qed.

Lemma place_pos {B} (t : @tree B) : forall i, map fst (place t i) = pos t i.
Proof.
  induction t as [|l IHl x r IHr]; intros i; [reflexivity|].
  cbn [place pos map fst]. rewrite map_app, IHl, IHr. reflexivity.
Qed.

Lemma place_in_pos {B} (t : @tree B) i j x : In (j, x) (place t i) -> In j (pos t i).
Proof. intros H. rewrite <- place_pos. change j with (fst (j, x)). apply in_map. exact H. Qed.

Lemma bst_writes e : forall inl out i, valid (length inl) e ->
  (forall j, In j (pos (build zero_item e inl) i) -> (N.of_nat j < a_len out)%N) ->
  exists out', bst e inl out (N.of_nat i) = Some out' /\ a_len out' = a_len out /\
    (forall j, ~ In j (pos (build zero_item e inl) i) -> arr_get out' (N.of_nat j) = arr_get out (N.of_nat j)) /\
    (forall j x, In (j, x) (place (build zero_item e inl) i) -> arr_get out' (N.of_nat j) = x).
Proof.
  induction e as [|e' IH]; intros inl out i Hv Hb.
  - destruct Hv as [_ H]. cbn in H. destruct inl; [|cbn in H; lia].
    exists out. cbn. repeat split; intros; tauto.
  - destruct inl as [|a l0] eqn:Einl.
    { exists out. cbn. repeat split; intros; tauto. }
    rewrite <- Einl in *. assert (Hne : inl <> []) by (subst; congruence).
    assert (Hn : 1 <= length inl) by (subst; cbn; lia).
    rewrite build_S in * by exact Hne. cbv zeta in *.
    destruct (valid_children e' (length inl) Hv Hn) as (Hk & Hl & Hr).
    set (k := kof (2 ^ e') (length inl)) in *.
    set (L := build zero_item e' (firstn k inl)) in *.
    set (R := build zero_item e' (skipn (S k) inl)) in *.
    cbn [pos place] in *.
    assert (ND : NoDup (i :: pos L (2*i+1) ++ pos R (2*i+2))) by exact (pos_nodup (Node L (nth k inl zero_item) R) i).
    assert (Ebst : bst (S e') inl out (N.of_nat i) =
      match arr_set out (N.of_nat i) (nth k inl zero_item) with
      | None => None
      | Some out1 => match bst e' (firstn k inl) out1 (N.of_nat (2*i+1)) with
                     | None => None
                     | Some out2 => bst e' (skipn (S k) inl) out2 (N.of_nat (2*i+2))
                     end
      end).
    { rewrite Einl at 1. cbn [bst]. rewrite <- Einl. rewrite (bst_k_valid e' (length inl) Hv Hn). fold k.
      rewrite (nth_error_nth' inl zero_item Hk).
      replace (2 * N.of_nat i + 1)%N with (N.of_nat (2*i+1)) by lia.
      replace (2 * N.of_nat i + 2)%N with (N.of_nat (2*i+2)) by lia. reflexivity. }
    rewrite Ebst.
    destruct (arr_set_some out (N.of_nat i) (nth k inl zero_item) (Hb i (or_introl eq_refl))) as (out1 & E1).
    rewrite E1. destruct (arr_set_spec _ _ _ _ E1) as (Hl1 & Hs1 & Ho1).
    destruct (IH (firstn k inl) out1 (2*i+1)) as (out2 & E2 & Hl2 & Hf2 & Hp2).
    { rewrite firstn_length_le by lia. exact Hl. }
    { intros j Hj. rewrite Hl1. apply Hb. right. rewrite in_app_iff. auto. }
    fold L in Hf2, Hp2. rewrite E2.
    destruct (IH (skipn (S k) inl) out2 (2*i+2)) as (out3 & E3 & Hl3 & Hf3 & Hp3).
    { rewrite skipn_length. replace (length inl - S k) with (length inl - 1 - k) by lia. exact Hr. }
    { intros j Hj. rewrite Hl2, Hl1. apply Hb. right. rewrite in_app_iff. auto. }
    fold R in Hf3, Hp3. rewrite E3.
    inversion ND as [|? ? Hi ND']; subst.
    exists out3. split; [reflexivity|]. split; [congruence|]. split.
    + intros j Hj. cbn [In] in Hj. rewrite in_app_iff in Hj.
      rewrite Hf3 by tauto. rewrite Hf2 by tauto. apply Ho1. intros E. apply Nat2N.inj in E. subst. tauto.
    + intros j x [Hx|Hx].
      * inversion Hx; subst j x. rewrite in_app_iff in Hi.
        rewrite Hf3 by tauto. rewrite Hf2 by tauto. exact Hs1.
      * rewrite in_app_iff in Hx. destruct Hx as [Hx|Hx].
        -- rewrite Hf3; [exact (Hp2 _ _ Hx)|].
           intros Hjr. exact (nodup_app_disj _ _ j ND' (place_in_pos _ _ _ _ Hx) Hjr).
        -- exact (Hp3 _ _ Hx).
Qed.

Lemma arr_list_from_length a k : forall i, length (arr_list_from a k i) = k.
Proof. induction k as [|k IH]; intros i; cbn [arr_list_from length]; [reflexivity|]. now rewrite IH. Qed.

Lemma arr_list_from_nth a k : forall i j, j < k ->
  nth_error (arr_list_from a k i) j = Some (arr_get a (i + N.of_nat j)).
Proof.
  induction k as [|k IH]; intros i j H; [lia|].
  cbn [arr_list_from]. destruct j as [|j]; cbn [nth_error].
  - f_equal. f_equal. lia.
  - rewrite IH by lia. f_equal. f_equal. lia.
Qed.

Lemma arr_to_list_length a : length (arr_to_list a) = N.to_nat (a_len a).
Proof. apply arr_list_from_length. Qed.

Lemma arr_to_list_nth a j : j < N.to_nat (a_len a) ->
  nth_error (arr_to_list a) j = Some (arr_get a (N.of_nat j)).
Proof. intros H. unfold arr_to_list. rewrite arr_list_from_nth by exact H. reflexivity. Qed.

(* ====================== Part 4: reading the array back ====================== *)

(* arr holds the tree t at root slot i: nodes in their slots, empty subtrees beyond the array *)
Definition holds (arr : list item) (t : @tree item) (i : nat) : Prop :=
  (forall j x, In (j, x) (place t i) -> nth_error arr j = Some x) /\
  (forall j, In j (leafpos t i) -> length arr <= j).

Lemma holds_node arr l x r i : holds arr (Node l x r) i ->
  nth_error arr i = Some x /\ holds arr l (2*i+1) /\ holds arr r (2*i+2).
Proof.
  intros [Hp Hl]. cbn [place leafpos] in *. split; [apply Hp; left; reflexivity|].
  split; split; intros; try (apply Hp; right; rewrite in_app_iff; auto); apply Hl; rewrite in_app_iff; auto.
Qed.

Lemma holds_leaf arr i : holds arr Leaf i -> nth_error arr i = None.
Proof. intros [_ Hl]. apply nth_error_None. apply Hl. left. reflexivity. Qed.

Lemma arr_inorder_tree arr t : forall i fuel, holds arr t i -> length arr <= fuel + i ->
  arr_inorder fuel arr i = inorder t.
Proof.
  induction t as [|l IHl x r IHr]; intros i fuel H Hf.
  - destruct fuel; [reflexivity|]. cbn [arr_inorder]. rewrite (holds_leaf _ _ H). reflexivity.
  - destruct (holds_node _ _ _ _ _ H) as (Hx & HL & HR).
    assert (i < length arr) by (apply nth_error_Some; congruence).
    destruct fuel as [|f]; [lia|]. cbn [arr_inorder inorder]. rewrite Hx.
    rewrite (IHl (2*i+1) f HL) by lia. rewrite (IHr (2*i+2) f HR) by lia. reflexivity.
Qed.

(* the search on the tree *)
Fixpoint tlookup (t : @tree item) (i : nat) (h : N) : option (nat * item) :=
  match t with
  | Leaf => None
  | Node l x r => if (h =? it_hash x)%N then Some (i, x)
                  else if (h <? it_hash x)%N then tlookup l (2*i+1) h else tlookup r (2*i+2) h
  end.

Lemma lookup_tree arr h t : forall i fuel, holds arr t i -> length arr <= fuel + i ->
  lookup_from fuel arr h i = tlookup t i h.
Proof.
  induction t as [|l IHl x r IHr]; intros i fuel H Hf.
  - destruct fuel; [reflexivity|]. cbn [lookup_from]. rewrite (holds_leaf _ _ H). reflexivity.
  - destruct (holds_node _ _ _ _ _ H) as (Hx & HL & HR).
    assert (i < length arr) by (apply nth_error_Some; congruence).
    destruct fuel as [|f]; [lia|]. cbn [lookup_from tlookup]. rewrite Hx.
    rewrite (IHl (2*i+1) f HL) by lia. rewrite (IHr (2*i+2) f HR) by lia. reflexivity.
Qed.

Definition hash_le (a b : item) : Prop := (it_hash a <= it_hash b)%N.

Lemma strongly_sorted_mid {B} (R : B -> B -> Prop) l x r :
  StronglySorted R (l ++ x :: r) ->
  StronglySorted R l /\ StronglySorted R r /\ Forall (fun y => R y x) l /\ Forall (R x) r.
Proof.
  induction l as [|a l IH]; intros H.
  - cbn in H. inversion H; subst. repeat split; [constructor|assumption|constructor|assumption].
  - cbn [app] in H. inversion H as [|? ? Hs Hf]; subst.
    destruct (IH Hs) as (H1 & H2 & H3 & H4).
    rewrite Forall_app in Hf. destruct Hf as [Hfl Hfx]. inversion Hfx; subst.
    repeat split; try assumption; constructor; assumption.
Qed.

Lemma tlookup_finds t : forall i x, StronglySorted hash_le (inorder t) -> In x (inorder t) ->
  exists j y, tlookup t i (it_hash x) = Some (j, y) /\ In (j, y) (place t i) /\ it_hash y = it_hash x.
Proof.
  induction t as [|l IHl a r IHr]; intros i x Hs Hin; [destruct Hin|].
  cbn [inorder] in Hs, Hin. destruct (strongly_sorted_mid _ _ _ _ Hs) as (Hsl & Hsr & Hfl & Hfr).
  cbn [tlookup place].
  destruct (N.eqb_spec (it_hash x) (it_hash a)) as [E|NE].
  - exists i, a. split; [reflexivity|]. split; [left; reflexivity|congruence].
  - rewrite in_app_iff in Hin. cbn [In] in Hin.
    destruct (N.ltb_spec (it_hash x) (it_hash a)) as [Hlt|Hge].
    + assert (Hl : In x (inorder l)).
      { destruct Hin as [H|[H|H]]; [exact H|subst; congruence|].
        rewrite Forall_forall in Hfr. specialize (Hfr _ H). unfold hash_le in Hfr. lia. }
      destruct (IHl (2*i+1) x Hsl Hl) as (j & y & E1 & E2 & E3).
      exists j, y. split; [exact E1|]. split; [right; rewrite in_app_iff; auto|exact E3].
    + assert (Hr : In x (inorder r)).
      { destruct Hin as [H|[H|H]]; [|subst; congruence|exact H].
        rewrite Forall_forall in Hfl. specialize (Hfl _ H). unfold hash_le in Hfl. lia. }
      destruct (IHr (2*i+2) x Hsr Hr) as (j & y & E1 & E2 & E3).
      exists j, y. split; [exact E1|]. split; [right; rewrite in_app_iff; auto|exact E3].
Qed.

Lemma place_values {B} (t : @tree B) : forall i, Permutation (map snd (place t i)) (inorder t).
Proof.
  induction t as [|l IHl x r IHr]; intros i; [constructor|].
  cbn [place inorder map snd]. rewrite map_app, IHl, IHr. apply Permutation_middle.
Qed.

Lemma place_in_inorder {B} (t : @tree B) i j x : In (j, x) (place t i) -> In x (inorder t).
Proof.
  intros H. apply (Permutation_in _ (place_values t i)). change x with (snd (j, x)). apply in_map. exact H.
Qed.

(* ====================== Part 5: sorting; make_goodbye_bst ====================== *)

Lemma leb_iff a b : ItemOrder.leb a b = true <->
  (it_hash a < it_hash b \/ (it_hash a = it_hash b /\ it_offset a <= it_offset b))%N.
Proof.
  unfold ItemOrder.leb, item_less.
  destruct (N.ltb_spec (it_hash b) (it_hash a)); cbn; [split; [discriminate|lia]|].
  destruct (N.ltb_spec (it_hash a) (it_hash b)); cbn; [split; [lia|reflexivity]|].
  destruct (N.ltb_spec (it_offset b) (it_offset a)); cbn; split; try discriminate; try reflexivity; lia.
Qed.

(* the order of the sorted table: by hash, ties by offset *)
Definition item_le (a b : item) : Prop :=
  (it_hash a < it_hash b \/ (it_hash a = it_hash b /\ it_offset a <= it_offset b))%N.

Lemma item_le_hash a b : item_le a b -> hash_le a b.
Proof. unfold item_le, hash_le. lia. Qed.

Lemma sort_items_perm l : Permutation l (sort_items l).
Proof. apply ItemSort.Permuted_sort. Qed.

Lemma sort_items_length l : length (sort_items l) = length l.
Proof. symmetry. apply Permutation_length, sort_items_perm. Qed.

Lemma strongly_sorted_impl {B} (R S : B -> B -> Prop) l :
  (forall a b, R a b -> S a b) -> StronglySorted R l -> StronglySorted S l.
Proof.
  intros HRS. induction 1 as [|a l Hs IH Hf]; constructor; [exact IH|].
  eapply Forall_impl; [|exact Hf]. intros; apply HRS; assumption.
Qed.

Lemma sort_items_sorted l : StronglySorted item_le (sort_items l).
Proof.
  apply (strongly_sorted_impl (fun a b => is_true (ItemOrder.leb a b))).
  - intros a b H. apply leb_iff. exact H.
  - apply ItemSort.StronglySorted_sort.
    intros a b c H1 H2. apply leb_iff in H1, H2. apply leb_iff. lia.
Qed.

Lemma bitlen_valid n : valid n (bitlen n).
Proof.
  unfold valid, bitlen, bitlenN.
  pose proof (N.size_gt (N.of_nat n)) as Hgt. pose proof (N.size_le (N.of_nat n)) as Hle.
  set (s := N.size (N.of_nat n)) in *.
  assert (E : N.of_nat (2 ^ N.to_nat s) = (2 ^ s)%N).
  { rewrite Nat2N.inj_pow. rewrite N2Nat.id. reflexivity. }
  rewrite N.succ_double_spec in Hle. lia.
Qed.

(* what makeGoodbyeBST computes, in terms of the tree of Part 1 *)
Lemma make_goodbye_bst_tree items :
  let s := sort_items items in
  let t := build zero_item (bitlen (length s)) s in
  exists out, make_goodbye_bst items = Some out /\ length out = length items /\ holds out t 0.
Proof.
  intros s t. unfold make_goodbye_bst. fold s.
  pose proof (bitlen_valid (length s)) as Hv.
  assert (Hin : forall j, In j (pos t 0) -> j < length s).
  { intros j Hj. apply (Permutation_in _ (bst_complete zero_item _ s Hv)) in Hj. apply in_seq in Hj. lia. }
  destruct (bst_writes (bitlen (length s)) s (arr_make (N.of_nat (length s))) 0 Hv) as (a & E & Hl & _ & Hp).
  { intros j Hj. cbn [arr_make a_len]. apply Hin in Hj. lia. }
  change (N.of_nat 0) with 0%N in E. rewrite E. cbn [arr_make a_len] in Hl.
  exists (arr_to_list a). split; [reflexivity|].
  assert (Hlen : length (arr_to_list a) = length s) by (rewrite arr_to_list_length, Hl; lia).
  split; [rewrite Hlen; apply sort_items_length|].
  split.
  - intros j x Hjx. rewrite arr_to_list_nth.
    + f_equal. exact (Hp _ _ Hjx).
    + rewrite Hl. apply place_in_pos in Hjx. apply Hin in Hjx. lia.
  - intros j Hj. rewrite Hlen. exact (build_leaves_beyond zero_item _ s j Hv Hj).
Qed.

Lemma nth_error_all_perm {B} (dflt : B) (out : list B) (pl : list (nat * B)) :
  (forall j x, In (j, x) pl -> nth_error out j = Some x) ->
  Permutation (map fst pl) (seq 0 (length out)) ->
  Permutation (map snd pl) out.
Proof.
  intros Hp Hperm.
  assert (E1 : map snd pl = map (fun j => nth j out dflt) (map fst pl)).
  { rewrite map_map. apply map_ext_in. intros [j x] Hin. cbn. symmetry. apply nth_error_nth. apply Hp. exact Hin. }
  assert (E2 : out = map (fun j => nth j out dflt) (seq 0 (length out))).
  { clear. induction out as [|a out IH]; [reflexivity|].
    cbn [length seq map nth]. f_equal. rewrite <- seq_shift, map_map. exact IH. }
  rewrite E1. etransitivity; [apply Permutation_map; exact Hperm|]. rewrite <- E2. reflexivity.
Qed.

Theorem bst_inorder_proof items :
  exists out, make_goodbye_bst items = Some out /\
    length out = length items /\
    arr_inorder (length out) out 0 = sort_items items /\
    Permutation out items.
Proof.
  destruct (make_goodbye_bst_tree items) as (out & E & Hl & Hh). cbv zeta in Hh.
  pose proof (bitlen_valid (length (sort_items items))) as Hv.
  exists out. split; [exact E|]. split; [exact Hl|]. split.
  - rewrite (arr_inorder_tree _ _ 0 (length out) Hh) by lia. apply inorder_build. exact Hv.
  - apply Permutation_sym. rewrite (sort_items_perm items) at 1.
    rewrite <- (inorder_build zero_item _ _ Hv) at 1.
    rewrite <- (place_values _ 0).
    apply (nth_error_all_perm zero_item); [exact (proj1 Hh)|].
    rewrite place_pos. rewrite Hl, <- (sort_items_length items). apply bst_complete. exact Hv.
Qed.

Lemma nodup_map_inj {B C} (f : B -> C) l x y :
  NoDup (map f l) -> In x l -> In y l -> f x = f y -> x = y.
Proof.
  induction l as [|a l IH]; intros ND Hx Hy E; [destruct Hx|].
  cbn [map] in ND. inversion ND as [|? ? Ha ND']; subst.
  destruct Hx as [->|Hx], Hy as [->|Hy]; try reflexivity.
  - exfalso. apply Ha. rewrite E. apply in_map. exact Hy.
  - exfalso. apply Ha. rewrite <- E. apply in_map. exact Hx.
  - exact (IH ND' Hx Hy E).
Qed.

Theorem bst_lookup_proof items out : make_goodbye_bst items = Some out ->
  forall x, In x items ->
  exists j y, casync_lookup out (it_hash x) = Some (j, y) /\
    nth_error out j = Some y /\ In y items /\ it_hash y = it_hash x /\
    (NoDup (map it_hash items) -> y = x).
Proof.
  intros E x Hx.
  destruct (make_goodbye_bst_tree items) as (out' & E' & Hl & Hh). cbv zeta in Hh.
  rewrite E in E'. inversion E'; subst out'. clear E'.
  pose proof (bitlen_valid (length (sort_items items))) as Hv.
  set (t := build zero_item (bitlen (length (sort_items items))) (sort_items items)) in *.
  assert (Hin : inorder t = sort_items items) by (apply inorder_build; exact Hv).
  assert (Hs : StronglySorted hash_le (inorder t)).
  { rewrite Hin. apply (strongly_sorted_impl item_le); [exact item_le_hash|apply sort_items_sorted]. }
  assert (Hxt : In x (inorder t)).
  { rewrite Hin. apply (Permutation_in _ (sort_items_perm items)). exact Hx. }
  destruct (tlookup_finds t 0 x Hs Hxt) as (j & y & E1 & E2 & E3).
  exists j, y. unfold casync_lookup. rewrite (lookup_tree out _ t 0 _ Hh) by lia.
  split; [exact E1|]. split; [exact (proj1 Hh _ _ E2)|].
  assert (Hy : In y items).
  { apply (Permutation_in _ (Permutation_sym (sort_items_perm items))). rewrite <- Hin.
    exact (place_in_inorder _ _ _ _ E2). }
  split; [exact Hy|]. split; [exact E3|].
  intros ND. exact (nodup_map_inj it_hash items y x ND Hy Hx E3).
Qed.

(* the statement of C13_bst_inorder, assembled *)
Theorem bst_inorder_full items :
  exists out,
    make_goodbye_bst items = Some out /\
    length out = length items /\
    Permutation out items /\
    arr_inorder (length out) out 0 = sort_items items /\
    Permutation items (sort_items items) /\
    StronglySorted item_le (sort_items items).
Proof.
  destruct (bst_inorder_proof items) as (out & H1 & H2 & H3 & H4).
  exists out. repeat split; try assumption; [apply sort_items_perm|apply sort_items_sorted].
Qed.
