From Coq Require Import List NArith Arith Bool Lia ZifyN ZifyNat ZifyBool.
From DS Require Import Gen.Constants Base.Bytes Base.LE64 Model.Format Model.Archive Model.ArchiveLeaf
     Proofs.FormatProofs Proofs.DecoderProofs.
Import ListNotations.
Local Open Scope N_scope.

Lemma H_archive_next_full n ds : wf_astate (d_core ds) ->
  H n (archive_next_full ds) (fun r l => wf_astate (d_core (snd r)) /\ (l <= n)%nat /\
                                         match fst r with Some _ => (l + 16 <= n)%nat | None => True end).
Proof.
  intros Hg. unfold archive_next_full. eapply H_bind; [apply H_archive_next; exact Hg|]. cbv beta.
  intros [on st'] k [Hg' [Hk Hm]]. cbn [fst snd] in *. destruct on as [nd|].
  - destruct (d_leaf_root ds); [apply H_fail; discriminate|].
    eapply H_weaken; [apply H_ret|]. cbv beta. intros r l [-> Hl]. cbn [fst snd d_core]. repeat split; [exact Hg'|lia|lia].
  - eapply H_weaken; [apply H_ret|]. cbv beta. intros r l [-> Hl]. cbn [fst snd d_core]. repeat split; [exact Hg'|lia].
Qed.

Lemma H_archive_all_full_loop : forall fuel n ds acc, wf_astate (d_core ds) -> (n < fuel)%nat ->
  H n (archive_all_full_loop fuel ds acc) (fun _ l => (l <= n)%nat).
Proof.
  induction fuel as [|fuel IH]; intros n ds acc Hg Hn; [lia|].
  cbn [archive_all_full_loop]. eapply H_bind; [apply H_archive_next_full; exact Hg|]. cbv beta.
  intros [on ds'] k [Hg' [Hk Hm]]. cbn [fst snd] in *. destruct on as [nd|].
  - eapply H_weaken; [apply IH; [exact Hg'|lia]|cbv beta; intros; lia].
  - eapply H_weaken; [apply H_ret|]. cbv beta. intros ? ? [_ Hl]. lia.
Qed.

Lemma H_archive_all_full n : H n archive_all_full (fun _ l => (l <= n)%nat).
Proof.
  unfold archive_all_full. apply H_with_input_fuel. intros k Hk.
  eapply H_weaken; [apply H_archive_all_full_loop; [exact I|lia]|cbv beta; intros; lia].
Qed.

Lemma abound_archive_next_full d ds : abound 1 (fun _ => d) d (archive_next_full ds).
Proof.
  assert (c1 : 1 <= 1) by lia.
  unfold archive_next_full. eapply abound_bind; [exact c1|apply abound_archive_next; exact c1|]. cbv beta.
  intros [on st']. cbn [fst snd]. destruct on; [destruct (d_leaf_root ds); [apply abound_fail|apply abound_ret]|apply abound_ret]; exact c1.
Qed.

Lemma abound_archive_all_full_loop d : forall fuel ds acc, abound 1 (fun _ => d) d (archive_all_full_loop fuel ds acc).
Proof.
  assert (c1 : 1 <= 1) by lia.
  induction fuel as [|fuel IH]; intros ds acc; cbn [archive_all_full_loop]; [apply abound_fail; exact c1|].
  eapply abound_bind; [exact c1|apply abound_archive_next_full|]. cbv beta. intros [on ds']. cbn [fst snd].
  destruct on; [apply IH|apply abound_ret; exact c1].
Qed.

Theorem archive_full_total (b : bytes) :
  (forall ds, wf_astate (d_core ds) ->
     survives (decode_archive_next_full ds b) /\ decode_archive_next_full_alloc ds b <= lenN b + 65536) /\
  survives (decode_archive_full b) /\ decode_archive_full_alloc b <= lenN b + 65536.
Proof.
  split; [intros ds Hg; split|split].
  - eapply survives_run, H_archive_next_full. exact Hg.
  - pose proof (alloc_run 1 (archive_next_full ds) b (abound_archive_next_full 0 ds)) as Ha. unfold K in Ha.
    unfold decode_archive_next_full_alloc. lia.
  - eapply survives_run, H_archive_all_full.
  - assert (Hab : abound 1 (fun _ => 0) 0 archive_all_full).
    { unfold archive_all_full. apply abound_with_input_fuel. intros. apply abound_archive_all_full_loop. }
    pose proof (alloc_run 1 archive_all_full b Hab) as Ha. unfold K in Ha. unfold decode_archive_full_alloc. lia.
Qed.

Theorem archive_full_state_preserved ds b nd ds' rest :
  wf_astate (d_core ds) -> decode_archive_next_full ds b = Ok ((nd, ds'), rest) -> wf_astate (d_core ds').
Proof.
  intros Hg E. pose proof (H_run _ _ b (H_archive_next_full (length b) ds Hg)) as Hr.
  unfold decode_archive_next_full, run_result in E. destruct (archive_next_full ds b) as [[[x|e|p] s'] a]; try discriminate.
  inversion E; subst. destruct Hr as [Hg' _]. exact Hg'.
Qed.

(* once the root was a file, symlink or device, no further node is ever returned *)
Theorem leaf_root_is_last ds b r rest :
  d_leaf_root ds = true -> decode_archive_next_full ds b = Ok (r, rest) -> fst r = None.
Proof.
  intros Hl E. unfold decode_archive_next_full, run_result, archive_next_full, bind in E. rewrite Hl in E.
  destruct (archive_next (d_core ds) b) as [[[[on st']|e|p] s1] a1]; try discriminate.
  cbn [fst snd] in E. destruct on; cbn in E; [discriminate|]. inversion E. reflexivity.
Qed.
