(* path.Join(p, name), path.Dir and path.Clean (Base/GoPath.v) on the paths filepath.Walk builds:
     dir_join_child    path.Dir(path.Join(w, name)) = path.Clean(w)
     rank_join_child   the child's path is "longer" than the cleaned parent's
   for every non-empty w (however it is spelled) and every real element name. *)
From Coq Require Import List NArith Arith Bool Lia.
From DS Require Import Base.Bytes Base.GoPath.
Import ListNotations.

(* the component machine's view of a path: (rooted, state after all components) *)
Definition pstate (w : bytes) : bool * cstate :=
  match w with
  | [] => (false, (0, []))
  | c :: r => let rooted := is_slash c in
              (rooted, fold_left (cstep rooted) (split47 (if rooted then r else w)) (0, []))
  end.

Lemma clean_pstate w : w <> [] -> clean w = finish (render (fst (pstate w)) (snd (pstate w))).
Proof. destruct w as [|c r]; [congruence|]. intros _. rewrite clean_eq_spec. reflexivity. Qed.

Lemma pstate_norm w : st_norm (fst (pstate w)) (snd (pstate w)).
Proof.
  destruct w as [|c r]; cbn [pstate fst snd].
  - split; [discriminate|constructor].
  - apply st_norm_fold; [apply split47_noslash|]. split; [reflexivity|constructor].
Qed.

Lemma split47_snoc a e : noslash e -> split47 (a ++ slash :: e) = split47 a ++ [e].
Proof.
  intros N. rewrite <- (join47_split47 a) at 1.
  pose proof (split47_nonempty a) as Hne. pose proof (split47_noslash a) as Hns.
  destruct (split47 a) as [|x xs] eqn:E; [congruence|].
  assert (J : join47 (x :: xs) ++ slash :: e = join47 ((x :: xs) ++ [e])) by (rewrite join47_snoc; reflexivity).
  rewrite J. apply split47_join47; [discriminate|]. apply Forall_app. split; [exact Hns|constructor; [exact N|constructor]].
Qed.

Lemma pstate_snoc w e : w <> [] -> noslash e ->
  pstate (w ++ slash :: e) = (fst (pstate w), cstep (fst (pstate w)) (snd (pstate w)) e).
Proof.
  destruct w as [|c r]; [congruence|]. intros _ N. cbn [app pstate fst snd].
  destruct (is_slash c).
  - rewrite split47_snoc by exact N. rewrite fold_left_app. reflexivity.
  - change (c :: r ++ slash :: e) with ((c :: r) ++ slash :: e).
    rewrite split47_snoc by exact N. rewrite fold_left_app. reflexivity.
Qed.

Lemma join_child w n : w <> [] -> join [w; n] = clean (w ++ slash :: n).
Proof. destruct w as [|c r]; [congruence|]. intros _. reflexivity. Qed.

Lemma app_slash_nonempty (w e : bytes) : w ++ slash :: e <> [].
Proof. destruct w; discriminate. Qed.

Lemma comps_head_nonempty rooted st c0 cs : st_norm rooted st -> comps_of st = c0 :: cs -> c0 <> [].
Proof.
  intros [_ F] E. unfold comps_of in E. destruct (fst st) as [|k].
  - cbn [repeat app] in E. assert (Hin : In c0 (rev (snd st))) by (rewrite E; left; reflexivity).
    apply in_rev in Hin. rewrite Forall_forall in F. apply real_elem_nonempty. apply F. exact Hin.
  - cbn [repeat app] in E. injection E as <- _. discriminate.
Qed.

Lemma render_nonempty rooted st c0 cs : st_norm rooted st -> comps_of st = c0 :: cs -> render rooted st <> [].
Proof.
  intros Hn E. unfold render. rewrite E. rewrite join47_cons.
  pose proof (comps_head_nonempty _ _ _ _ Hn E) as H0. destruct (root_prefix rooted); [|discriminate].
  destruct c0; [congruence|discriminate].
Qed.

(* the shape of a child's path *)
Lemma join_child_shape w n : w <> [] -> real_elem n ->
  let rooted := fst (pstate w) in let st := snd (pstate w) in
  clean w = finish (render rooted st) /\
  join [w; n] = match comps_of st with
                | [] => root_prefix rooted ++ n
                | _ :: _ => render rooted st ++ slash :: n
                end.
Proof.
  intros Hw [Hk Hn]. cbv zeta. split; [apply clean_pstate; exact Hw|].
  rewrite join_child by exact Hw. rewrite clean_pstate by apply app_slash_nonempty.
  rewrite pstate_snoc by assumption. cbn [fst snd]. unfold cstep. rewrite Hk.
  rewrite render_push.
  assert (Hne : n <> []) by (intros ->; discriminate).
  destruct (comps_of (snd (pstate w))) eqn:E.
  - destruct (root_prefix (fst (pstate w))); [destruct n; [congruence|reflexivity]|reflexivity].
  - destruct (render (fst (pstate w)) (snd (pstate w)) ++ slash :: n) eqn:E2; [|reflexivity].
    exfalso. exact (app_slash_nonempty _ _ E2).
Qed.

Lemma clean_trailing_slash x : x <> [] -> clean (x ++ [slash]) = clean x.
Proof.
  intros H. rewrite (clean_pstate (x ++ [slash])) by apply app_slash_nonempty.
  rewrite (pstate_snoc x []) by (try exact H; intros []). cbn [fst snd].
  change (cstep (fst (pstate x)) (snd (pstate x)) []) with (snd (pstate x)).
  symmetry. apply clean_pstate. exact H.
Qed.

(* path.Dir(path.Join(w, name)) == path.Clean(w) *)
Theorem dir_join_child w n : w <> [] -> real_elem n -> dir (join [w; n]) = clean w.
Proof.
  intros Hw Hr. destruct (join_child_shape w n Hw Hr) as [Ec Ej]. cbv zeta in *.
  pose proof (pstate_norm w) as Hn. destruct Hr as [Hk Hns].
  set (rooted := fst (pstate w)) in *. set (st := snd (pstate w)) in *.
  unfold dir. rewrite Ej. destruct (comps_of st) as [|c0 cs] eqn:E.
  - assert (Er : render rooted st = root_prefix rooted) by (unfold render; rewrite E; cbn [join47]; apply app_nil_r).
    rewrite Ec, Er. destruct rooted; cbn [root_prefix app].
    + change (slash :: n) with ([] ++ slash :: n). rewrite split_path_app_slash by exact Hns. reflexivity.
    + rewrite split_path_noslash by exact Hns. reflexivity.
  - rewrite split_path_app_slash by exact Hns. cbn [fst].
    pose proof (render_nonempty _ _ _ _ Hn E) as Hx.
    rewrite clean_trailing_slash by exact Hx.
    assert (Ef : finish (render rooted st) = render rooted st) by (destruct (render rooted st); [congruence|reflexivity]).
    rewrite Ef in Ec. rewrite <- Ec. apply clean_idempotent.
Qed.

(* a rank that strictly grows from a (cleaned) directory path to the path of an entry in it *)
Definition prank (p : bytes) : nat := if beq p [dot] then 0 else length p.

Theorem rank_join_child w n : w <> [] -> real_elem n -> prank (clean w) < prank (join [w; n]).
Proof.
  intros Hw Hr. destruct (join_child_shape w n Hw Hr) as [Ec Ej]. cbv zeta in *.
  pose proof (pstate_norm w) as Hn. pose proof (real_elem_nonempty _ Hr) as Hne. destruct Hr as [Hk Hns].
  set (rooted := fst (pstate w)) in *. set (st := snd (pstate w)) in *.
  rewrite Ej, Ec. destruct (comps_of st) as [|c0 cs] eqn:E.
  - assert (Er : render rooted st = root_prefix rooted) by (unfold render; rewrite E; cbn [join47]; apply app_nil_r).
    rewrite Er. destruct rooted; cbn [root_prefix app finish].
    + unfold prank. change (beq [slash] [dot]) with false.
      destruct (beq (slash :: n) [dot]) eqn:Eb; [apply beq_eq in Eb; unfold slash, dot in Eb; discriminate|].
      cbn [length]. destruct n; [congruence|cbn [length]; lia].
    + unfold prank at 1. change (beq [dot] [dot]) with true. unfold prank.
      destruct (beq n [dot]) eqn:Eb; [apply beq_eq in Eb; subst; discriminate|].
      destruct n; [congruence|cbn [length]; lia].
  - pose proof (render_nonempty _ _ _ _ Hn E) as Hx.
    assert (Ef : finish (render rooted st) = render rooted st) by (destruct (render rooted st); [congruence|reflexivity]).
    rewrite Ef. set (x := render rooted st) in *.
    assert (H1 : prank x <= length x) by (unfold prank; destruct (beq x [dot]); lia).
    assert (H2 : prank (x ++ slash :: n) = length (x ++ slash :: n)).
    { unfold prank. destruct (beq (x ++ slash :: n) [dot]) eqn:Eb; [|reflexivity].
      apply beq_eq in Eb. apply (f_equal (@length _)) in Eb. rewrite app_length in Eb. cbn [length] in Eb.
      destruct x; [congruence|cbn [length] in Eb; lia]. }
    rewrite H2, app_length. cbn [length]. lia.
Qed.

Lemma join_child_nonempty w n : w <> [] -> real_elem n -> join [w; n] <> [].
Proof.
  intros Hw Hr E. pose proof (rank_join_child w n Hw Hr) as H. rewrite E in H. unfold prank in H. cbn in H. lia.
Qed.

Lemma join_child_clean w n : w <> [] -> clean (join [w; n]) = join [w; n].
Proof. intros Hw. rewrite join_child by exact Hw. apply clean_idempotent. Qed.

(* path.Base of a plain name *)
Lemma base_plain n : real_elem n -> base n = n.
Proof.
  intros [Hk Hns]. assert (Hne : n <> []) by (intros ->; discriminate).
  destruct n as [|c r]; [congruence|]. unfold base.
  assert (Es : strip_trailing_slashes (c :: r) = c :: r).
  { clear Hk Hne. revert Hns. generalize (c :: r). intros l. induction l as [|a l IH]; intros Hns; [reflexivity|].
    apply noslash_cons in Hns. destruct Hns as [Ha Hl]. cbn [strip_trailing_slashes]. rewrite (IH Hl).
    destruct l; [|reflexivity]. apply is_slash_false in Ha. rewrite Ha. reflexivity. }
  rewrite Es. rewrite split_path_noslash by exact Hns. reflexivity.
Qed.
