(* All-schedule theorems for FailoverGroup and SwapStore (Model/ChainsConc.v). *)
From Coq Require Import List Arith Bool Lia.
From DS Require Import Base.Sched Model.ChainsConc.
Import ListNotations.

Lemma updf_eq {A} (f : nat -> A) t x : updf f t x t = x.
Proof. unfold updf. rewrite Nat.eqb_refl. reflexivity. Qed.
Lemma updf_neq {A} (f : nat -> A) t u x : u <> t -> updf f t x u = f u.
Proof. unfold updf. intros H. apply Nat.eqb_neq in H. rewrite H. reflexivity. Qed.

(* ---------- FailoverGroup ---------- *)

Section Failover.
  Variables (n g : nat).                 (* number of members; member g never fails *)
  Hypothesis Hn : g < n.
  Variable resp : nat -> nat -> nat -> ans.
  Hypothesis Hg : forall t k, resp t k g <> AFail.

  (* how far [active] still is from the member that never fails, going forward round the ring *)
  Definition dist (x : nat) : nat := (g + n - x) mod n.

  Lemma dist_step x : x < n -> x <> g -> dist ((x + 1) mod n) + 1 = dist x.
  Proof.
    intros Hx Hne. unfold dist.
    destruct (Nat.eq_dec (x + 1) n) as [E|E].
    - rewrite E, Nat.mod_same by lia. rewrite Nat.sub_0_r.
      replace (g + n) with (g + 1 * n) by lia. rewrite Nat.mod_add by lia.
      rewrite Nat.mod_small by lia.
      replace (g + n - x) with (g + 1) by lia. rewrite Nat.mod_small; lia.
    - rewrite (Nat.mod_small (x + 1)) by lia.
      destruct (Nat.lt_ge_cases x g).
      + replace (g + n - (x + 1)) with ((g - x - 1) + 1 * n) by lia.
        replace (g + n - x) with ((g - x) + 1 * n) by lia.
        rewrite !Nat.mod_add by lia. rewrite !Nat.mod_small; lia.
      + rewrite !Nat.mod_small; lia.
  Qed.

  Lemma dist_inj x y : x < n -> y < n -> dist x = dist y -> x = y.
  Proof.
    unfold dist. intros Hx Hy.
    destruct (Nat.le_gt_cases x g), (Nat.le_gt_cases y g).
    all: repeat match goal with
         | |- context [(g + n - ?z) mod n] =>
           first [ replace (g + n - z) with ((g - z) + 1 * n) by lia; rewrite Nat.mod_add by lia; rewrite (Nat.mod_small (g - z)) by lia
                 | rewrite (Nat.mod_small (g + n - z)) by lia ]
         end; lia.
  Qed.

  Lemma dist_lt x : dist x < n.
  Proof. unfold dist. apply Nat.mod_upper_bound. lia. Qed.

  (* members already tried lie strictly further from g than [bound] *)
  Definition tried_ok (bound : nat) (strict : bool) (tr : list nat) : Prop :=
    NoDup tr /\ forall m, In m tr -> m < n /\ (if strict then bound < dist m else bound <= dist m).

  Definition th_inv (t : nat) (act : nat) (th : fthread) : Prop :=
    match f_pc th with
    | F0 k => k + dist act <= n - 1 /\ length (f_tried th) = k /\ tried_ok (dist act) true (f_tried th)
    | F1 a k => a < n /\ dist act <= dist a /\ k + dist a <= n - 1 /\ length (f_tried th) = k /\
                tried_ok (dist a) true (f_tried th)
    | F2 a k => a < n /\ a <> g /\ dist act <= dist a /\ k + dist a <= n - 1 /\ length (f_tried th) = S k /\
                tried_ok (dist a) false (f_tried th)
    | FDone r => exists v a tr, r = Some v /\ f_tried th = a :: tr /\ resp t (length tr) a = AVal v /\
                               length (f_tried th) <= n /\ NoDup (f_tried th)
    end.

  Definition FInv (s : fstate) : Prop := f_active s < n /\ forall t, th_inv t (f_active s) (f_thr s t).

  Lemma tried_ok_mono b b' st tr : b' <= b -> tried_ok b st tr -> tried_ok b' st tr.
  Proof.
    intros Hle [Hnd H]. split; auto. intros m Hm. destruct (H m Hm) as [A B]. split; auto.
    destruct st; lia.
  Qed.

  Lemma th_inv_mono t act act' th : dist act' <= dist act -> th_inv t act th -> th_inv t act' th.
  Proof.
    unfold th_inv. destruct (f_pc th); intros Hle H; auto.
    - destruct H as (A & B & C). split; [lia|split; [auto|eapply tried_ok_mono; eauto]].
    - intuition lia.
    - intuition lia.
  Qed.

  Lemma fstep_inv s t s' : FInv s -> fstep n resp s t = Some s' -> FInv s'.
  Proof.
    intros [Ha Hp] Hs. unfold fstep in Hs. pose proof (Hp t) as Ht. unfold th_inv in Ht.
    destruct (f_pc (f_thr s t)) as [k|a k|a k|r] eqn:Epc.
    - (* loop head *)
      destruct Ht as (Hk & Hlen & Htr).
      destruct (Nat.eqb_spec k n) as [->|Hkn]; [pose proof (dist_lt (f_active s)); lia|].
      inversion Hs; subst s'; clear Hs. split; [exact Ha|]. intro u. cbn [f_active f_thr].
      destruct (Nat.eq_dec u t) as [->|Hne]; [rewrite updf_eq|rewrite updf_neq by auto; apply Hp].
      unfold th_inv. cbn. repeat (split; [solve [auto | lia]|]). exact Htr.
    - (* member call *)
      destruct Ht as (Han & Hd & Hk & Hlen & Hnd & Htr).
      assert (Hnew : NoDup (a :: f_tried (f_thr s t))).
      { constructor; auto. intros Hin. destruct (Htr a Hin) as [_ Hlt]. lia. }
      assert (Hlen' : length (a :: f_tried (f_thr s t)) <= n).
      { cbn. pose proof (dist_lt a). lia. }
      destruct (resp t k a) eqn:Er; inversion Hs; subst s'; clear Hs; (split; [exact Ha|]); intro u; cbn [f_active f_thr];
        (destruct (Nat.eq_dec u t) as [->|Hne]; [rewrite updf_eq|rewrite updf_neq by auto; apply Hp]); unfold th_inv; cbn [f_pc f_tried].
      + exists v, a, (f_tried (f_thr s t)). rewrite Hlen. auto.
      + assert (a <> g) by (intros ->; apply (Hg t k); auto).
        split; [auto|]. split; [auto|]. split; [lia|]. split; [lia|]. split; [cbn; lia|]. split; [exact Hnew|].
        intros m [<-|Hin]; [split; auto|]. destruct (Htr m Hin). split; auto. lia.
    - (* errorFrom *)
      destruct Ht as (Han & Hag & Hd & Hk & Hlen & Hnd & Htr).
      inversion Hs; subst s'; clear Hs. cbn [f_active f_thr].
      assert (Hstrict : forall act', dist act' < dist a -> th_inv t act' {| f_pc := F0 (S k); f_tried := f_tried (f_thr s t) |}).
      { intros act' Hlt. unfold th_inv. cbn. split; [lia|]. split; [auto|]. split; [exact Hnd|].
        intros m Hin. destruct (Htr m Hin). split; auto. lia. }
      destruct (Nat.eqb_spec (f_active s) a) as [Eq|Neq].
      + subst a. pose proof (dist_step (f_active s) Ha Hag) as Hds.
        split; [apply Nat.mod_upper_bound; lia|].
        intro u. cbn [f_active f_thr]. destruct (Nat.eq_dec u t) as [->|Hne]; [rewrite updf_eq; apply Hstrict; lia|rewrite updf_neq by auto].
        eapply th_inv_mono; [|apply Hp]. lia.
      + split; [exact Ha|]. intro u. cbn [f_active f_thr].
        destruct (Nat.eq_dec u t) as [->|Hne]; [rewrite updf_eq|rewrite updf_neq by auto; apply Hp].
        apply Hstrict. assert (dist (f_active s) <> dist a) by (intro E; apply Neq; apply dist_inj; auto). lia.
    - discriminate.
  Qed.

  Lemma finit_inv a0 : a0 < n -> FInv (finit a0).
  Proof.
    intros Ha0. split; [exact Ha0|]. intro u. unfold th_inv. cbn. pose proof (dist_lt a0).
    split; [lia|]. split; [reflexivity|]. split; [constructor|]. intros m [].
  Qed.

  Lemma failover_progress a0 sched t r : a0 < n ->
    let s := run (fstep n resp) sched (finit a0) in
    f_pc (f_thr s t) = FDone r ->
    exists v a tr, r = Some v /\ f_tried (f_thr s t) = a :: tr /\ resp t (length tr) a = AVal v /\
                   length (f_tried (f_thr s t)) <= n /\ NoDup (f_tried (f_thr s t)).
  Proof.
    intros Ha0 s Hd.
    assert (HI : FInv s).
    { apply inv_run with (Inv := FInv); [intros; eapply fstep_inv; eauto|apply finit_inv; auto]. }
    destruct HI as [_ HI]. specialize (HI t). unfold th_inv in HI. rewrite Hd in HI. exact HI.
  Qed.

  (* the active index settles: once it is g it stays g *)
  Lemma failover_active_settles a0 sched sched' : a0 < n ->
    f_active (run (fstep n resp) sched (finit a0)) = g ->
    f_active (run (fstep n resp) (sched ++ sched') (finit a0)) = g.
  Proof.
    intros Ha0 Hact. rewrite run_app.
    assert (HI : FInv (run (fstep n resp) sched (finit a0))).
    { apply inv_run with (Inv := FInv); [intros; eapply fstep_inv; eauto|apply finit_inv; auto]. }
    revert HI Hact. generalize (run (fstep n resp) sched (finit a0)) as s.
    induction sched' as [|u r IH]; intros s HI Hact; [exact Hact|].
    cbn. unfold run1 at 2. destruct (fstep n resp s u) as [s'|] eqn:Es; [|apply IH; auto].
    apply IH; [eapply fstep_inv; eauto|].
    unfold fstep in Es. destruct HI as [Ha Hp]. pose proof (Hp u) as Hu. unfold th_inv in Hu.
    destruct (f_pc (f_thr s u)) as [k|a k|a k|r0].
    - destruct (Nat.eqb k n); inversion Es; subst; auto.
    - destruct (resp u k a); inversion Es; subst; auto.
    - inversion Es; subst. cbn. destruct Hu as (_ & Hag & _).
      destruct (Nat.eqb_spec (f_active s) a); [congruence|auto].
    - discriminate.
  Qed.
End Failover.

(* errorFrom(a) by a request whose store a is no longer the active one changes nothing but the request's own pc *)
Lemma failover_stale_report_ignored n resp s t a k :
  f_pc (f_thr s t) = F2 a k -> f_active s <> a ->
  exists s', fstep n resp s t = Some s' /\ f_active s' = f_active s /\
             (forall u, u <> t -> f_thr s' u = f_thr s u) /\ f_pc (f_thr s' t) = F0 (S k).
Proof.
  intros Hp Hne. unfold fstep. rewrite Hp. eexists. split; [reflexivity|]. cbn.
  apply Nat.eqb_neq in Hne. rewrite Hne. split; [reflexivity|]. split.
  - intros u Hu. apply updf_neq; auto.
  - rewrite updf_eq. reflexivity.
Qed.

(* ... and the report of the ACTIVE store's failure advances the group by exactly one *)
Lemma failover_active_report_advances n resp s t k :
  f_pc (f_thr s t) = F2 (f_active s) k ->
  exists s', fstep n resp s t = Some s' /\ f_active s' = (f_active s + 1) mod n.
Proof.
  intros Hp. unfold fstep. rewrite Hp. eexists. split; [reflexivity|]. cbn. rewrite Nat.eqb_refl. reflexivity.
Qed.

(* With an errorFrom that moves on from the reporting store whatever the active one is, progress is lost: three
   members, member 2 never fails; request 0 sits in member 0, request 1 in member 1, request 2 has moved the group on
   to member 2; request 0's late report drags [active] back to 1 between request 1's report and its next current():
   request 1 calls member 1 a second time, runs out of attempts and fails. *)
Definition stale_ex_resp : nat -> nat -> nat -> ans := fun _ _ m => if Nat.eqb m 2 then AVal 7 else AFail.
Definition stale_ex_sched : list nat := [0; 1; 1; 1; 1; 2; 2; 2; 2; 2; 1; 0; 1; 0; 1; 1; 1; 1].

Lemma failover_stale_report_breaks_progress :
  exists n g resp sched t,
    g < n /\ (forall t k, resp t k g <> AFail) /\
    f_pc (f_thr (run (fstep_stale n resp) sched (finit 0)) t) = FDone None.
Proof.
  exists 3, 2, stale_ex_resp, stale_ex_sched, 1. split; [repeat constructor|]. split.
  - intros t k. unfold stale_ex_resp. cbn. discriminate.
  - vm_compute. reflexivity.
Qed.

(* ---------- SwapStore ---------- *)

Section Swap.
  Variable is_swap : nat -> bool.
  Variable ncalls : nat -> nat.

  Definition holds_w (p : spc) : bool := match p with W1 | W2 | W3 => true | _ => false end.

  Record SInv (s : sstate) : Prop := {
    si_fresh : s_cur s < s_next s /\ forall g, s_next s <= g -> s_closed s g = false;
    si_open : s_writer s = None -> s_closed s (s_cur s) = false;
    si_writer : forall w, s_writer s = Some w ->
        s_readers s = [] /\ holds_w (s_pc s w) = true /\ (s_pc s w <> W2 -> s_closed s (s_cur s) = false);
    si_wpc : forall t, holds_w (s_pc s t) = true -> s_writer s = Some t;
    si_reader : forall t g j, s_pc s t = Q1 g j -> In t (s_readers s) /\ g = s_cur s /\ s_lockgen s t = g;
    si_log : forall e, In e (s_log s) -> sc_closed e = false /\ sc_gen e = sc_lockgen e;
  }.

  Lemma sinit_inv : SInv (sinit is_swap).
  Proof.
    split; cbn; auto; try discriminate.
    - intros t H. destruct (is_swap t); discriminate.
    - intros t g j H. destruct (is_swap t); discriminate.
    - intros e [].
  Qed.

  Lemma readers_no_writer s t : SInv s -> In t (s_readers s) -> s_writer s = None.
  Proof.
    intros HI Hin. destruct (s_writer s) as [w|] eqn:E; [|reflexivity].
    destruct (si_writer s HI w E) as (Hr & _). rewrite Hr in Hin. destruct Hin.
  Qed.

  Ltac pc_cases u t := destruct (Nat.eq_dec u t) as [->|?]; [repeat rewrite updf_eq in *|repeat rewrite updf_neq in * by auto].

  Lemma sstep_inv s t s' : SInv s -> sstep ncalls s t = Some s' -> SInv s'.
  Proof.
    intros HI Hs. unfold sstep in Hs.
    destruct (s_pc s t) as [|g [|j]| | | | | |] eqn:Epc.
    - (* RLock *)
      destruct (s_writer s) as [w|] eqn:Ew; [discriminate|]. inversion Hs; subst s'; clear Hs.
      split; cbn [s_cur s_next s_closed s_readers s_writer s_pc s_lockgen s_log]; unfold set_spc.
      + apply (si_fresh s HI).
      + intros _. apply (si_open s HI Ew).
      + discriminate.
      + intros u Hu. pc_cases u t; [discriminate|]. rewrite (si_wpc s HI u Hu) in Ew. discriminate.
      + intros u g j Hu. pc_cases u t.
        * inversion Hu; subst. auto with datatypes.
        * destruct (si_reader s HI u g j Hu) as (A & B & C). auto with datatypes.
      + apply (si_log s HI).
    - (* last call made: towards RUnlock *)
      inversion Hs; subst s'; clear Hs.
      split; cbn [s_cur s_next s_closed s_readers s_writer s_pc s_lockgen s_log]; unfold set_spc.
      + apply (si_fresh s HI).
      + apply (si_open s HI).
      + intros w Hw. destruct (si_writer s HI w Hw) as (A & B & C). pc_cases w t; [rewrite Epc in B; discriminate|auto].
      + intros u Hu. pc_cases u t; [discriminate|]. apply (si_wpc s HI u Hu).
      + intros u g0 j Hu. pc_cases u t; [discriminate|]. apply (si_reader s HI u g0 j Hu).
      + apply (si_log s HI).
    - (* a call reaches the store *)
      inversion Hs; subst s'; clear Hs.
      destruct (si_reader s HI t g (S j) Epc) as (Hin & Hg & Hlg).
      pose proof (readers_no_writer s t HI Hin) as Hnw.
      split; cbn [s_cur s_next s_closed s_readers s_writer s_pc s_lockgen s_log]; unfold set_spc.
      + apply (si_fresh s HI).
      + apply (si_open s HI).
      + intros w Hw. congruence.
      + intros u Hu. pc_cases u t; [discriminate|]. apply (si_wpc s HI u Hu).
      + intros u g0 j0 Hu. pc_cases u t; [inversion Hu; subst; auto|]. apply (si_reader s HI u g0 j0 Hu).
      + intros e [<-|Hin']; [|apply (si_log s HI e Hin')]. cbn. split; [|congruence].
        rewrite Hg. apply (si_open s HI Hnw).
    - (* RUnlock *)
      inversion Hs; subst s'; clear Hs.
      split; cbn [s_cur s_next s_closed s_readers s_writer s_pc s_lockgen s_log]; unfold set_spc.
      + apply (si_fresh s HI).
      + apply (si_open s HI).
      + intros w Hw. destruct (si_writer s HI w Hw) as (A & B & C). rewrite A. cbn.
        pc_cases w t; [rewrite Epc in B; discriminate|auto].
      + intros u Hu. pc_cases u t; [discriminate|]. apply (si_wpc s HI u Hu).
      + intros u g0 j Hu. pc_cases u t; [discriminate|]. destruct (si_reader s HI u g0 j Hu) as (A & B & C).
        split; auto. apply filter_In. split; auto. apply Nat.eqb_neq in n. rewrite n. reflexivity.
      + apply (si_log s HI).
    - (* Lock *)
      destruct (s_writer s) as [w|] eqn:Ew; [discriminate|]. destruct (s_readers s) eqn:Er; [|discriminate].
      inversion Hs; subst s'; clear Hs.
      split; cbn [s_cur s_next s_closed s_readers s_writer s_pc s_lockgen s_log]; unfold set_spc.
      + apply (si_fresh s HI).
      + discriminate.
      + intros w Hw. inversion Hw; subst w. rewrite updf_eq. repeat split; auto. intros _. apply (si_open s HI Ew).
      + intros u Hu. pc_cases u t; [reflexivity|]. rewrite (si_wpc s HI u Hu) in Ew. discriminate.
      + intros u g0 j Hu. pc_cases u t; [discriminate|]. destruct (si_reader s HI u g0 j Hu) as (A & _). rewrite Er in A. destruct A.
      + apply (si_log s HI).
    - (* Close the installed store *)
      inversion Hs; subst s'; clear Hs.
      assert (Hw : s_writer s = Some t) by (apply (si_wpc s HI); rewrite Epc; reflexivity).
      destruct (si_writer s HI t Hw) as (Hr & _ & _).
      split; cbn [s_cur s_next s_closed s_readers s_writer s_pc s_lockgen s_log]; unfold set_spc.
      + destruct (si_fresh s HI) as [A B]. split; auto. intros g Hg. rewrite updf_neq by lia. auto.
      + congruence.
      + intros w Hw'. rewrite Hw in Hw'. inversion Hw'; subst w. rewrite updf_eq. repeat split; auto. congruence.
      + intros u Hu. pc_cases u t; [auto|]. apply (si_wpc s HI u Hu).
      + intros u g0 j Hu. pc_cases u t; [discriminate|]. destruct (si_reader s HI u g0 j Hu) as (A & _). rewrite Hr in A. destruct A.
      + apply (si_log s HI).
    - (* install the new store *)
      inversion Hs; subst s'; clear Hs.
      assert (Hw : s_writer s = Some t) by (apply (si_wpc s HI); rewrite Epc; reflexivity).
      destruct (si_writer s HI t Hw) as (Hr & _ & _).
      destruct (si_fresh s HI) as [A B].
      split; cbn [s_cur s_next s_closed s_readers s_writer s_pc s_lockgen s_log]; unfold set_spc.
      + split; [lia|]. intros g Hg. apply B. lia.
      + congruence.
      + intros w Hw'. rewrite Hw in Hw'. inversion Hw'; subst w. rewrite updf_eq. repeat split; auto.
      + intros u Hu. pc_cases u t; [auto|]. apply (si_wpc s HI u Hu).
      + intros u g0 j Hu. pc_cases u t; [discriminate|]. destruct (si_reader s HI u g0 j Hu) as (A' & _). rewrite Hr in A'. destruct A'.
      + apply (si_log s HI).
    - (* Unlock *)
      inversion Hs; subst s'; clear Hs.
      assert (Hw : s_writer s = Some t) by (apply (si_wpc s HI); rewrite Epc; reflexivity).
      destruct (si_writer s HI t Hw) as (Hr & _ & Hc).
      split; cbn [s_cur s_next s_closed s_readers s_writer s_pc s_lockgen s_log]; unfold set_spc.
      + apply (si_fresh s HI).
      + intros _. apply Hc. rewrite Epc. discriminate.
      + discriminate.
      + intros u Hu. pc_cases u t; [discriminate|]. pose proof (si_wpc s HI u Hu). congruence.
      + intros u g0 j Hu. pc_cases u t; [discriminate|]. apply (si_reader s HI u g0 j Hu).
      + apply (si_log s HI).
    - discriminate.
  Qed.

  Lemma swap_safe sched e :
    In e (s_log (run (sstep ncalls) sched (sinit is_swap))) -> sc_closed e = false /\ sc_gen e = sc_lockgen e.
  Proof.
    apply si_log. apply inv_run with (Inv := SInv); [intros; eapply sstep_inv; eauto|apply sinit_inv].
  Qed.
End Swap.

(* without the write lock in Swap a request in flight is served by a closed store *)
Lemma swap_nolock_unsafe :
  exists is_swap ncalls sched e,
    In e (s_log (run (sstep_nolock ncalls) sched (sinit is_swap))) /\ sc_closed e = true.
Proof.
  exists (fun t => Nat.eqb t 1), (fun _ => 1), [0; 1; 1; 0].
  eexists. split; [left; reflexivity|]. vm_compute. reflexivity.
Qed.
