(* sort.Strings over the xattr keys (Model/TarModel.v: insert_kv, sort_xattrs).

   bytes_cmp is Go's string order.  Results:
     sort_xattrs_sorted    the result has strictly increasing keys
     sort_xattrs_idem      sorting a sorted list changes nothing
     sort_xattrs_elems     with distinct keys nothing is lost or invented
     sort_xattrs_perm      two listings of the same attributes (any order) sort to the same list *)
From Coq Require Import List NArith Bool Lia Permutation Sorted.
From DS Require Import Base.Bytes Model.TarModel.
From DS Require Base.FS.
Import ListNotations.
Local Open Scope N_scope.

Notation cmp := FS.bytes_cmp.

Lemma cmp_refl a : cmp a a = Eq.
Proof. apply FS.bytes_cmp_eq. reflexivity. Qed.

Lemma cmp_flip : forall a b, cmp b a = CompOpp (cmp a b).
Proof.
  induction a as [|x a IH]; intros [|y b]; cbn [FS.bytes_cmp]; try reflexivity.
  rewrite (N.compare_antisym x y). destruct (x ?= y); cbn [CompOpp]; try reflexivity. apply IH.
Qed.

Lemma cmp_gt_lt a b : cmp a b = Gt <-> cmp b a = Lt.
Proof. rewrite (cmp_flip a b). destruct (cmp a b); cbn; split; congruence. Qed.

Lemma cmp_lt_trans : forall a b c, cmp a b = Lt -> cmp b c = Lt -> cmp a c = Lt.
Proof.
  induction a as [|x a IH]; intros [|y b] [|z c]; cbn [FS.bytes_cmp]; try congruence.
  destruct (x ?= y) eqn:Exy; try congruence.
  - apply N.compare_eq in Exy. subst y. destruct (x ?= z); try congruence. apply IH.
  - intros _. destruct (y ?= z) eqn:Eyz; try congruence.
    + apply N.compare_eq in Eyz. subst z. rewrite Exy. reflexivity.
    + intros _. rewrite N.compare_lt_iff in *. assert (H : x < z) by lia.
      apply N.compare_lt_iff in H. rewrite H. reflexivity.
Qed.

Lemma cmp_eq_iff a b : cmp a b = Eq <-> a = b.
Proof. apply FS.bytes_cmp_eq. Qed.

Definition klt (x y : bytes * bytes) : Prop := cmp (fst x) (fst y) = Lt.
Definition ksorted (l : list (bytes * bytes)) : Prop := StronglySorted klt l.

Lemma klt_trans x y z : klt x y -> klt y z -> klt x z.
Proof. unfold klt. apply cmp_lt_trans. Qed.

Lemma in_insert_kv kv : forall l x, In x (insert_kv kv l) -> x = kv \/ In x l.
Proof.
  induction l as [|y r IH]; intros x Hx; cbn [insert_kv] in Hx.
  - destruct Hx as [<-|[]]. now left.
  - destruct (cmp (fst kv) (fst y)).
    + destruct Hx as [<-|Hx]; [now left|right; now right].
    + destruct Hx as [<-|Hx]; [now left|right; exact Hx].
    + destruct Hx as [<-|Hx]; [right; now left|]. destruct (IH _ Hx) as [->|H]; [now left|right; now right].
Qed.

Lemma insert_kv_sorted kv : forall l, ksorted l -> ksorted (insert_kv kv l).
Proof.
  induction l as [|y r IH]; intros Hs; cbn [insert_kv].
  - constructor; constructor.
  - inversion Hs as [|? ? Hr Hy]; subst.
    destruct (cmp (fst kv) (fst y)) eqn:E.
    + (* same key: replace *)
      apply cmp_eq_iff in E. constructor; [exact Hr|].
      eapply Forall_impl; [|exact Hy]. intros z Hz. unfold klt in *. rewrite E. exact Hz.
    + constructor; [exact Hs|]. constructor; [exact E|].
      eapply Forall_impl; [|exact Hy]. intros z Hz. eapply klt_trans; [exact E|exact Hz].
    + constructor; [apply IH; exact Hr|].
      rewrite Forall_forall. intros z Hz. destruct (in_insert_kv _ _ _ Hz) as [->|Hin].
      * apply cmp_gt_lt. exact E.
      * rewrite Forall_forall in Hy. apply Hy. exact Hin.
Qed.

Lemma fold_insert_sorted : forall l acc, ksorted acc -> ksorted (fold_left (fun acc kv => insert_kv kv acc) l acc).
Proof. induction l as [|kv l IH]; intros acc Ha; cbn [fold_left]; [exact Ha|]. apply IH, insert_kv_sorted, Ha. Qed.

Lemma sort_xattrs_sorted l : ksorted (sort_xattrs l).
Proof. apply fold_insert_sorted. constructor. Qed.

(* a key above everything that is there goes to the end *)
Lemma insert_kv_max kv : forall l, Forall (fun y => klt y kv) l -> insert_kv kv l = l ++ [kv].
Proof.
  induction l as [|y r IH]; intros Hl; [reflexivity|].
  inversion Hl as [|? ? Hy Hr]; subst. cbn [insert_kv app].
  unfold klt in Hy. apply cmp_gt_lt in Hy. rewrite Hy. now rewrite IH.
Qed.

Lemma ksorted_app_inv a b : ksorted (a ++ b) -> ksorted a /\ ksorted b /\ forall x y, In x a -> In y b -> klt x y.
Proof.
  induction a as [|x a IH]; intros H.
  - repeat split; [constructor|exact H|intros ? ? []].
  - cbn [app] in H. inversion H as [|? ? Hs Hx]; subst. destruct (IH Hs) as (Ha & Hb & Hab).
    apply Forall_app in Hx. destruct Hx as [Hxa Hxb]. repeat split.
    + constructor; assumption.
    + exact Hb.
    + intros u v [<-|Hu] Hv; [rewrite Forall_forall in Hxb; apply Hxb, Hv|apply Hab; assumption].
Qed.

Lemma fold_insert_idem : forall l acc, ksorted (acc ++ l) -> fold_left (fun acc kv => insert_kv kv acc) l acc = acc ++ l.
Proof.
  induction l as [|kv l IH]; intros acc Hs; cbn [fold_left]; [now rewrite app_nil_r|].
  destruct (ksorted_app_inv _ _ Hs) as (_ & _ & Hab).
  rewrite insert_kv_max.
  - rewrite IH; rewrite <- app_assoc; [reflexivity|exact Hs].
  - rewrite Forall_forall. intros y Hy. apply Hab; [exact Hy|now left].
Qed.

(* setting sorted attributes one by one on an object without attributes gives the same list *)
Lemma sort_sorted l : ksorted l -> sort_xattrs l = l.
Proof. intros H. unfold sort_xattrs. now rewrite fold_insert_idem. Qed.

Lemma sort_xattrs_idem l : sort_xattrs (sort_xattrs l) = sort_xattrs l.
Proof. apply sort_sorted, sort_xattrs_sorted. Qed.

(* ---------- elements ---------- *)

Definition keys (l : list (bytes * bytes)) : list bytes := map fst l.

Lemma insert_kv_in_fresh kv : forall l, ~ In (fst kv) (keys l) -> forall x, In x (insert_kv kv l) <-> x = kv \/ In x l.
Proof.
  induction l as [|y r IH]; intros Hk x; cbn [insert_kv].
  - cbn. intuition congruence.
  - cbn [keys map In] in Hk. destruct (cmp (fst kv) (fst y)) eqn:E.
    + apply cmp_eq_iff in E. exfalso. apply Hk. left. now symmetry.
    + cbn [In]. intuition congruence.
    + cbn [In]. rewrite IH by (intros H; apply Hk; right; exact H). intuition congruence.
Qed.

Lemma keys_insert kv : forall l k, In k (keys (insert_kv kv l)) <-> k = fst kv \/ In k (keys l).
Proof.
  induction l as [|y r IH]; intros k; cbn [insert_kv].
  - cbn. intuition congruence.
  - destruct (cmp (fst kv) (fst y)) eqn:E; cbn [keys map In].
    + apply cmp_eq_iff in E. rewrite <- E. intuition congruence.
    + intuition congruence.
    + fold (keys (insert_kv kv r)). rewrite IH. fold (keys r). intuition congruence.
Qed.

Lemma fold_insert_elems : forall l acc,
  NoDup (keys l) -> (forall k, In k (keys l) -> ~ In k (keys acc)) ->
  forall x, In x (fold_left (fun acc kv => insert_kv kv acc) l acc) <-> In x acc \/ In x l.
Proof.
  induction l as [|kv l IH]; intros acc Hnd Hdis x; cbn [fold_left]; [cbn; tauto|].
  cbn [keys map] in Hnd. inversion Hnd as [|? ? Hk Hnd']; subst.
  rewrite IH.
  - rewrite insert_kv_in_fresh by (apply Hdis; now left). cbn [In]. intuition congruence.
  - exact Hnd'.
  - intros k Hin Hk'. apply keys_insert in Hk'. destruct Hk' as [->|Hk'].
    + exact (Hk Hin).
    + apply (Hdis k); [right; exact Hin|exact Hk'].
Qed.

Lemma sort_xattrs_elems l : NoDup (keys l) -> forall x, In x (sort_xattrs l) <-> In x l.
Proof.
  intros Hnd x. unfold sort_xattrs. rewrite fold_insert_elems; [cbn; tauto|exact Hnd|intros ? ? []].
Qed.

(* strictly sorted lists with the same elements are equal *)
Lemma klt_irrefl x : ~ klt x x.
Proof. unfold klt. rewrite cmp_refl. discriminate. Qed.

Lemma ksorted_ext : forall a b, ksorted a -> ksorted b -> (forall x, In x a <-> In x b) -> a = b.
Proof.
  induction a as [|x a IH]; intros b Ha Hb Hab.
  - destruct b as [|y b]; [reflexivity|]. exfalso. apply (Hab y). now left.
  - destruct b as [|y b]; [exfalso; apply (Hab x); now left|].
    inversion Ha as [|? ? Hsa Hxa]; subst. inversion Hb as [|? ? Hsb Hyb]; subst.
    rewrite Forall_forall in Hxa, Hyb.
    assert (x = y).
    { destruct (proj1 (Hab x) (or_introl eq_refl)) as [->|Hxb]; [reflexivity|].
      destruct (proj2 (Hab y) (or_introl eq_refl)) as [->|Hya]; [reflexivity|].
      exfalso. apply (klt_irrefl x). eapply klt_trans; [apply Hxa; exact Hya|apply Hyb; exact Hxb]. }
    subst y. f_equal. apply IH; [exact Hsa|exact Hsb|].
    intros z. split; intros Hz.
    + destruct (proj1 (Hab z) (or_intror Hz)) as [->|H]; [|exact H]. exfalso. exact (klt_irrefl _ (Hxa _ Hz)).
    + destruct (proj2 (Hab z) (or_intror Hz)) as [->|H]; [|exact H]. exfalso. exact (klt_irrefl _ (Hyb _ Hz)).
Qed.

(* the order in which the keys of the map are listed does not matter *)
Theorem sort_xattrs_perm l1 l2 : Permutation l1 l2 -> NoDup (keys l1) -> sort_xattrs l1 = sort_xattrs l2.
Proof.
  intros Hp Hnd.
  assert (Hnd2 : NoDup (keys l2)) by (eapply Permutation_NoDup; [apply Permutation_map; exact Hp|exact Hnd]).
  apply ksorted_ext; try apply sort_xattrs_sorted.
  intros x. rewrite !sort_xattrs_elems by assumption.
  split; intros H; [eapply Permutation_in; [exact Hp|exact H]|eapply Permutation_in; [symmetry; exact Hp|exact H]].
Qed.
