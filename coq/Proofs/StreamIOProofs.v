From Coq Require Import List Arith Bool Lia.
From DS Require Import Model.StreamIO.
Import ListNotations.

(* a source read error reported by the chunker before the end of the stream makes ChunkStream fail: no index *)
Theorem cs_source_error_reported pre r post acc :
  Forall (fun x => nr_err x = false /\ 0 < nr_len x) pre -> nr_err r = true ->
  cs_feed true (pre ++ r :: post) acc = FErr.
Proof.
  revert acc. induction pre as [|x pre IH]; intros acc Hp Hr; cbn.
  - rewrite Hr. reflexivity.
  - inversion Hp as [|? ? [Hx Hl] Hp']; subst. rewrite Hx.
    destruct (nr_len x =? 0) eqn:E; [apply Nat.eqb_eq in E; lia|]. apply IH; assumption.
Qed.

(* nil => the jobs are exactly the chunks returned before the first empty result, none of them with an error *)
Theorem cs_nil_complete rs acc jobs :
  cs_feed true rs acc = FNil jobs ->
  exists pre post, rs = pre ++ post /\ jobs = rev acc ++ map nr_len pre /\
                   Forall (fun x => nr_err x = false /\ 0 < nr_len x) pre /\
                   (post = [] \/ exists r q, post = r :: q /\ nr_err r = false /\ nr_len r = 0).
Proof.
  revert acc. induction rs as [|x rs IH]; intros acc E; cbn in E.
  - inversion E; subst. exists [], []. cbn. rewrite app_nil_r. repeat split; auto.
  - destruct (nr_err x) eqn:Ex; [discriminate|].
    destruct (nr_len x =? 0) eqn:El.
    + inversion E; subst. exists [], (x :: rs). cbn. rewrite app_nil_r. repeat split; auto.
      right. exists x, rs. apply Nat.eqb_eq in El. auto.
    + apply IH in E. destruct E as [pre [post [Ers [Ej [Hp Hpost]]]]].
      exists (x :: pre), post. subst rs. cbn. split; [reflexivity|]. split.
      * rewrite Ej. cbn. rewrite <- app_assoc. reflexivity.
      * split; [|exact Hpost]. constructor; [|exact Hp]. apply Nat.eqb_neq in El. split; [exact Ex|lia].
Qed.

(* the mutant order: an empty chunk that comes with an error is taken for the end of the stream *)
Theorem cs_feed_mutant_refuted :
  exists rs, cs_feed false rs [] = FNil [] /\ cs_feed true rs [] = FErr.
Proof. exists [{| nr_len := 0; nr_err := true |}]. split; reflexivity. Qed.

(* Index.WriteTo: no error <=> every write to the sink succeeded *)
Theorem write_to_sound n_mid ok :
  write_to true n_mid ok = false <-> forall k, k <= n_mid -> ok k = true.
Proof.
  unfold write_to. rewrite orb_false_iff. cbn [andb]. split.
  - intros [E1 E2] k Hk. destruct (Nat.eq_dec k n_mid) as [->|Hne].
    + destruct (ok n_mid); [reflexivity|discriminate].
    + destruct (ok k) eqn:Ek; [reflexivity|exfalso].
      assert (Hx : existsb (fun k => negb (ok k)) (seq 0 n_mid) = true).
      { apply existsb_exists. exists k. split; [apply in_seq; lia|]. rewrite Ek. reflexivity. }
      congruence.
  - intros Hall. split.
    + destruct (existsb (fun k => negb (ok k)) (seq 0 n_mid)) eqn:E; [|reflexivity].
      apply existsb_exists in E. destruct E as [k [Hk Ek]]. apply in_seq in Hk.
      rewrite Hall in Ek by lia. discriminate.
    + rewrite Hall by lia. reflexivity.
Qed.

(* the mutant (Flush deferred, its result dropped): an index that fits the buffer is "written" to a failing sink *)
Theorem write_to_mutant_refuted :
  exists ok, write_to false 0 ok = false /\ ok 0 = false /\ write_to true 0 ok = true.
Proof. exists (fun _ => false). repeat split; reflexivity. Qed.

(* up to 99 chunks the encoded index fits bufio's 4096 bytes: the only sink write is the final Flush *)
Lemma index_fits_buffer : index_bytes 99 <= 4096 /\ 4096 < index_bytes 100.
Proof. unfold index_bytes. lia. Qed.

(* tar -i: exit 0 => ChunkStream, the Tar goroutine and the index store all succeeded *)
Theorem run_tar_sound cs_err tar_err sink_err :
  run_tar true cs_err tar_err sink_err = false -> cs_err = false /\ tar_err = false /\ sink_err = false.
Proof. unfold run_tar. destruct cs_err, tar_err, sink_err; cbn; intros; try discriminate; auto. Qed.

Theorem run_tar_mutant_refuted :
  run_tar false false true false = false /\ run_tar true false true false = true.
Proof. split; reflexivity. Qed.
