(* IndexFromFile: the protocol cannot get stuck and every run of enabled steps is finite. *)
From Coq Require Import List NArith Arith Bool Lia.
From DS Require Import Gen.Constants Base.Bytes Base.Hash Base.Sched Model.Chunker Model.PChunker
     Proofs.ChunkerSpecProofs Proofs.PChunkerBase Proofs.PChunkerInv Proofs.PChunkerSteps Proofs.PChunkerMain.
Import ListNotations.

Section Live.
  Variable H : bytes -> id.
  Variables (min max : nat) (d : N) (data : bytes).
  Hypothesis Hmin : W <= min.
  Hypothesis Hmax : min <= max.
  Hypothesis Hpos : 0 < max.
  Variables (nw span : nat).
  Hypothesis Hspan : forall i, i < nw -> span * i <= length data.

  Notation PInv := (PInv min max d data nw span).
  Notation step := (pstep H min max d data false).

  (* ---------- no deadlock ---------- *)

  Lemma worker_enabled s i : i < nworkers s -> w_pc (getw s i) <> Exited ->
    step_worker H min max d data s i <> None.
  Proof.
    intros Hi Hpc. unfold step_worker.
    replace (negb (i <? nworkers s)) with false by (symmetry; apply negb_false_iff, Nat.ltb_lt; exact Hi).
    destruct (w_pc (getw s i)) as [|c prev|c n|c n| |]; try congruence;
      repeat match goal with
             | |- context [if ?x then _ else _] => destruct x
             | |- context [match ?x with _ => _ end] => destruct x
             end; discriminate.
  Qed.

  Theorem pchunk_deadlock_free s : PInv s -> k_done (p_c s) = false -> exists t, step s t <> None.
  Proof.
    intros I Hd.
    destruct (p_col _ _ _ _ _ _ s I Hd) as [Hk _].
    (* is some worker still running? *)
    assert (Hdec0 : forall k, (exists i, i < k /\ w_pc (getw s i) <> Exited) \/ (forall i, i < k -> w_pc (getw s i) = Exited)).
    { induction k as [|m IH]; [right; intros; lia|].
      destruct IH as [[i [Hi Hp]]|Hall]; [left; exists i; split; [lia|exact Hp]|].
      destruct (w_pc (getw s m)) eqn:E; try (left; exists m; split; [lia|congruence]).
      right. intros i Hi. destruct (Nat.eq_dec i m) as [->|]; [exact E|apply Hall; lia]. }
    pose proof (Hdec0 nw) as Hdec.
    destruct Hdec as [[i [Hi Hp]]|Hall].
    - exists (PWorker i). cbn. apply worker_enabled; [rewrite (p_n _ _ _ _ _ _ s I); exact Hi|exact Hp].
    - exists PCollector. cbn. unfold step_collector. rewrite Hd.
      replace (negb (k_cur (p_c s) <? nworkers s)) with false
        by (symmetry; apply negb_false_iff, Nat.ltb_lt; rewrite (p_n _ _ _ _ _ _ s I); exact Hk).
      destruct (bucket_head (getw s (k_cur (p_c s)))); [discriminate|].
      pose proof (p_act _ _ _ _ _ _ s I _ Hk) as Ha. rewrite (Hall _ Hk) in *. cbn in Ha. rewrite Ha.
      destruct (length data <=? out_length (k_out (p_c s))); discriminate.
  Qed.

  (* ---------- a measure that every step decreases ---------- *)

  Definition rank (p : pc) : nat :=
    match p with Exited => 0 | Top => 1 | Skip => 2 | After _ _ => 3 | NullLoop _ _ => 4 | SyncLoop _ _ => 5 end.

  Definition wmeasure (w : wstate) : nat :=
    7 * (length data - w_pos w) + rank (w_pc w) + (length (w_emit w) - w_cons w).

  Definition sumw (l : list wstate) : nat := fold_right (fun w a => wmeasure w + a) 0 l.

  Definition mu (s : pstate) : nat :=
    sumw (p_w s) + 2 * (nw - k_cur (p_c s)) + (if k_done (p_c s) then 0 else 1).

  Lemma sumw_set_nth l i w' : i < length l ->
    sumw (set_nth l i w') + wmeasure (nth i l dummy) = sumw l + wmeasure w'.
  Proof.
    revert i. induction l as [|x l IH]; intros i Hi; [cbn in Hi; lia|].
    destruct i as [|i].
    - cbn [set_nth nth]. change (sumw (w' :: l)) with (wmeasure w' + sumw l).
      change (sumw (x :: l)) with (wmeasure x + sumw l). lia.
    - cbn [set_nth nth]. change (sumw (x :: set_nth l i w')) with (wmeasure x + sumw (set_nth l i w')).
      change (sumw (x :: l)) with (wmeasure x + sumw l). specialize (IH i ltac:(cbn in Hi; lia)). lia.
  Qed.

  Lemma sumw_setw s i w' : i < nworkers s ->
    sumw (p_w (setw s i w')) + wmeasure (getw s i) = sumw (p_w s) + wmeasure w'.
  Proof. intros Hi. unfold setw, getw. cbn. apply sumw_set_nth. exact Hi. Qed.

  Lemma mu_setw_lt s i w' : i < nworkers s -> wmeasure w' < wmeasure (getw s i) ->
    mu (setw s i w') < mu s.
  Proof. intros Hi Hlt. pose proof (sumw_setw s i w' Hi). unfold mu. cbn [p_c setw]. lia. Qed.

  Lemma mu_setw2_lt s i j w' b' : i < nworkers s -> j < nworkers s -> i <> j ->
    wmeasure w' + wmeasure b' < wmeasure (getw s i) + wmeasure (getw s j) ->
    mu (setw (setw s j b') i w') < mu s.
  Proof.
    intros Hi Hj Hne Hlt.
    pose proof (sumw_setw s j b' Hj) as E1.
    pose proof (sumw_setw (setw s j b') i w' ltac:(rewrite nworkers_setw; exact Hi)) as E2.
    rewrite getw_setw in E2 by exact Hj. destruct (Nat.eqb_spec j i); [congruence|].
    unfold mu. cbn [p_c setw] in *. lia.
  Qed.

  Lemma null_chunks_length k : forall from, length (null_chunks max k from) = k.
  Proof. induction k as [|k IH]; intros from; cbn [null_chunks length]; [reflexivity|]. now rewrite IH. Qed.

  Theorem pchunk_step_decreases s t s' : PInv s -> PInv s' -> step s t = Some s' -> mu s' < mu s.
  Proof.
    intros I I' E. destruct t as [i|]; cbn in E.
    - (* worker *)
      unfold step_worker in E.
      destruct (negb (i <? nworkers s)) eqn:Ei; [discriminate|].
      apply negb_false_iff, Nat.ltb_lt in Ei. pose proof Ei as Ei'. rewrite (p_n _ _ _ _ _ _ s I) in Ei'.
      set (w := getw s i) in *.
      pose proof (p_pos _ _ _ _ _ _ s I i Ei') as Hp. fold w in Hp.
      pose proof (emit_end_le H min max d data Hmin Hmax Hpos nw span Hspan s i I Ei') as Hle.
      pose proof (p_cons _ _ _ _ _ _ s I i Ei') as Hc. fold w in Hc.
      destruct (w_pc w) as [|c prev|c n|c n| |] eqn:Epc.
      + destruct (next_chunk min max d data (w_pos w)) as [c|] eqn:Enc; injection E as <-.
        * destruct (next_chunk_some min max d data Hmin Hmax Hpos _ _ Enc) as [Ec Hlt].
          assert (Hne : skipn (w_pos w) data <> []).
          { intro En. apply (f_equal (@length _)) in En. rewrite skipn_length in En. cbn in En. lia. }
          pose proof (cut_pos min max d Hmin Hmax Hpos _ Hne) as Hc1.
          pose proof (cut_le_len min max d Hmin Hmax Hpos (skipn (w_pos w) data)) as Hc2. rewrite skipn_length in Hc2.
          apply mu_setw_lt; [exact Ei|]. unfold wmeasure. fold w. rewrite Epc. cbn [w_pos w_pc w_emit w_cons rank].
          rewrite app_length. cbn [length]. rewrite Ec. unfold c_end. cbn [fst snd].
          destruct (w_next w <? nworkers s); cbn [rank]; lia.
        * apply mu_setw_lt; [exact Ei|]. unfold wmeasure, exit_w. fold w. rewrite Epc. cbn. lia.
      + set (j := w_next w) in *. set (b := getw s j) in *.
        pose proof (p_pcl _ _ _ _ _ _ s I i Ei') as Hpcl. unfold pcl in Hpcl. fold w in Hpcl. rewrite Epc in Hpcl.
        destruct Hpcl as (_ & _ & Hj). fold j in Hj.
        assert (Hij : i <> j) by (pose proof (p_next _ _ _ _ _ _ s I i Ei'); fold w j in H0; lia).
        assert (Hjn : j < nworkers s) by (rewrite (p_n _ _ _ _ _ _ s I); exact Hj).
        destruct (sync_start (w_sync b) <? c_start c).
        * destruct (bucket_head b) as [v|] eqn:Eh; injection E as <-.
          -- apply mu_setw2_lt; auto. unfold wmeasure, with_pc, recv_w. fold w b. rewrite Epc. cbn.
             assert (w_cons b < length (w_emit b)) by (apply nth_error_Some; unfold bucket_head in Eh; rewrite Eh; discriminate). lia.
          -- apply mu_setw_lt; [exact Ei|]. unfold wmeasure, with_pc. fold w. rewrite Epc. cbn. lia.
        * destruct (w_sync b) as [m|].
          -- destruct ((c_start c =? c_start m) && (c_size c =? c_size m)); [injection E as <-; apply mu_setw_lt; [exact Ei|]; unfold wmeasure, exit_w; fold w; rewrite Epc; cbn; lia|].
             destruct (is_null H max data m && is_null_opt H max data prev); injection E as <-;
               (apply mu_setw_lt; [exact Ei|]; unfold wmeasure, with_pc; fold w; rewrite Epc; cbn; lia).
          -- destruct ((c_start c =? 0) && (c_size c =? 0)); injection E as <-;
               (apply mu_setw_lt; [exact Ei|]; unfold wmeasure, with_pc, exit_w; fold w; rewrite Epc; cbn; lia).
      + set (j := w_next w) in *. set (b := getw s j) in *.
        pose proof (p_pcl _ _ _ _ _ _ s I i Ei') as Hpcl. unfold pcl in Hpcl. fold w in Hpcl. rewrite Epc in Hpcl.
        destruct Hpcl as (_ & _ & Hj). fold j in Hj.
        assert (Hij : i <> j) by (pose proof (p_next _ _ _ _ _ _ s I i Ei'); fold w j in H0; lia).
        assert (Hjn : j < nworkers s) by (rewrite (p_n _ _ _ _ _ _ s I); exact Hj).
        destruct (bucket_head b) as [v|] eqn:Eh.
        * assert (w_cons b < length (w_emit b)) by (apply nth_error_Some; unfold bucket_head in Eh; rewrite Eh; discriminate).
          destruct (is_null H max data v); injection E as <-;
            (apply mu_setw2_lt; auto; unfold wmeasure, with_pc, recv_w; fold w b; rewrite Epc; cbn; lia).
        * injection E as <-. apply mu_setw_lt; [exact Ei|]. unfold wmeasure, with_pc. fold w. rewrite Epc. cbn. lia.
      + (* After: uses the invariant of the new state for pos' <= size *)
        destruct (n <? max); injection E as <-.
        * apply mu_setw_lt; [exact Ei|]. unfold wmeasure, with_pc. fold w. rewrite Epc. cbn. lia.
        * pose proof (p_pos _ _ _ _ _ _ _ I' i Ei') as Hp'.
          pose proof (emit_end_le H min max d data Hmin Hmax Hpos nw span Hspan _ i I' Ei') as Hle'.
          rewrite getw_setw in Hp' by exact Ei. rewrite Nat.eqb_refl in Hp'. cbn [w_pos] in Hp'.
          apply mu_setw_lt; [exact Ei|]. unfold wmeasure. fold w. rewrite Epc. cbn [w_pos w_pc w_emit w_cons rank].
          rewrite app_length. cbn [length]. lia.
      + set (j := w_next w) in *. set (b := getw s j) in *.
        destruct ((j <? nworkers s) && negb (w_active b) && (length (w_emit b) <=? w_cons b)); injection E as <-;
          (apply mu_setw_lt; [exact Ei|]; unfold wmeasure, with_pc; fold w; rewrite Epc; cbn; lia).
      + discriminate.
    - (* collector *)
      unfold step_collector in E.
      destruct (k_done (p_c s)) eqn:Ed; [discriminate|].
      pose proof (co_k min max d data nw span s I Ed) as Hk.
      destruct (negb (k_cur (p_c s) <? nworkers s)) eqn:Ek.
      { apply negb_true_iff, Nat.ltb_ge in Ek. rewrite (p_n _ _ _ _ _ _ s I) in Ek. lia. }
      destruct (bucket_head (getw s (k_cur (p_c s)))) as [v|] eqn:Eh.
      + injection E as <-. unfold mu. cbn [p_w p_c k_cur k_done]. rewrite Ed.
        assert (Hkl : k_cur (p_c s) < length (p_w s)) by (rewrite <- (p_n _ _ _ _ _ _ s I) in Hk; exact Hk).
        pose proof (sumw_set_nth (p_w s) (k_cur (p_c s)) (take_w (getw s (k_cur (p_c s)))) Hkl) as Es.
        fold (getw s (k_cur (p_c s))) in Es.
        assert (Hlt : w_cons (getw s (k_cur (p_c s))) < length (w_emit (getw s (k_cur (p_c s)))))
          by (apply nth_error_Some; unfold bucket_head in Eh; rewrite Eh; discriminate).
        assert (Hm : wmeasure (take_w (getw s (k_cur (p_c s)))) < wmeasure (getw s (k_cur (p_c s))))
          by (unfold wmeasure, take_w; cbn [w_pos w_pc w_emit w_cons]; lia).
        lia.
      + destruct (w_active (getw s (k_cur (p_c s)))); [discriminate|].
        destruct (w_pc (getw s (k_cur (p_c s)))); try discriminate.
        destruct (length data <=? out_length (k_out (p_c s))); injection E as <-;
          unfold mu; cbn [p_w p_c k_cur k_done]; rewrite Ed; lia.
  Qed.

  (* Every run that only schedules enabled threads stays within mu(init) steps -- or exhibits a
     collision with the null chunk's digest (the one event that voids the invariant). *)
  Theorem pchunk_terminates : forall sched s s', PInv s -> run_strict step sched s = Some s' ->
    length sched + mu s' <= mu s \/ Collision H.
  Proof.
    induction sched as [|t r IH]; intros s s' I E.
    - cbn in E. injection E as <-. left. cbn. lia.
    - cbn in E. destruct (step s t) as [s1|] eqn:Es; [|discriminate].
      destruct (pstep_inv H min max d data Hmin Hmax Hpos nw span Hspan s t s1 I Es) as [I1|C]; [|right; exact C].
      pose proof (pchunk_step_decreases s t s1 I I1 Es) as Hd.
      destruct (IH s1 s' I1 E) as [Hb|C]; [left; cbn; lia|right; exact C].
  Qed.
End Live.

Section LiveFinal.
  Variable H : bytes -> id.
  Variables (min max : nat) (d : N) (data : bytes).
  Hypothesis Hmin : W <= min.
  Hypothesis Hmax : min <= max.
  Hypothesis Hpos : 0 < max.
  Variable n : nat.
  Hypothesis Hn : 1 <= n.

  Notation nw := (eff_n max data n).
  Notation span := (length data / eff_n max data n).
  Notation step := (pstep H min max d data false).
  Notation init := (pinit max data n).

  (* an explicit bound on the number of steps of any run: linear in file size x workers *)
  Definition live_bound : nat := nw * (7 * length data + 3) + 1.

  Lemma sumw_init_le : forall l, sumw data (map (init_w nw span) l) <= length l * (7 * length data + 1).
  Proof.
    induction l as [|i l IH]; [cbn; lia|].
    cbn [map length]. unfold sumw in *. cbn [fold_right].
    assert (wmeasure data (init_w nw span i) <= 7 * length data + 1)
      by (unfold wmeasure, init_w; cbn [w_pos w_pc w_emit w_cons rank length];
          generalize (length data / nw * i); intros; lia).
    lia.
  Qed.

  Lemma mu_init_le : mu data (eff_n max data n) init <= live_bound.
  Proof.
    unfold mu, live_bound, pinit. cbn [p_w p_c k_cur k_done].
    pose proof (sumw_init_le (seq 0 nw)) as Hs. rewrite seq_length in Hs. lia.
  Qed.

  (* From the initial state, under ANY schedule (including unfair ones and ones naming disabled
     threads), as long as the collector is not done some thread can take a step. *)
  Theorem pchunk_never_stuck sched :
    let s := run step sched init in
    k_done (p_c s) = false -> (exists t, step s t <> None) \/ Collision H.
  Proof.
    intros s Hd.
    destruct (run_inv_or H min max d data Hmin Hmax Hpos n Hn sched init
                (or_introl (init_inv H min max d data Hmin Hmax Hpos n Hn))) as [I|C]; [left|right; exact C].
    exact (pchunk_deadlock_free H min max d data Hmin Hmax Hpos _ _ (span_ok H min max data Hmin Hmax Hpos n Hn) _ I Hd).
  Qed.

  (* Every sequence of enabled steps from the initial state has at most live_bound steps:
     the protocol terminates under every scheduler, without any fairness assumption. *)
  Theorem pchunk_run_bounded sched s' :
    run_strict step sched init = Some s' -> length sched <= live_bound \/ Collision H.
  Proof.
    intros E.
    destruct (pchunk_terminates H min max d data Hmin Hmax Hpos _ _ (span_ok H min max data Hmin Hmax Hpos n Hn) sched init s'
                (init_inv H min max d data Hmin Hmax Hpos n Hn) E) as [Hb|C]; [left|right; exact C].
    pose proof mu_init_le. lia.
  Qed.

  (* Together: a run of enabled steps that cannot be extended has the collector done, and then
     (pchunk_eq_seq) the collected index is the single-stream index. *)
  Theorem pchunk_maximal_run_complete sched s' :
    run_strict step sched init = Some s' -> (forall t, step s' t = None) ->
    k_out (p_c s') = seq_index min max d data \/ Collision H.
  Proof.
    intros E Hmaxr. pose proof (run_strict_run _ _ _ _ E) as Er.
    destruct (k_done (p_c s')) eqn:Hd.
    - rewrite <- Er in Hd |- *. exact (pchunk_eq_seq H min max d data Hmin Hmax Hpos n Hn sched Hd).
    - pose proof (pchunk_never_stuck sched) as Hs. cbv zeta in Hs. rewrite Er in Hs.
      destruct (Hs Hd) as [[t Ht]|C]; [exfalso; exact (Ht (Hmaxr t))|right; exact C].
  Qed.
End LiveFinal.

(* The synthetic null chunks carry the null chunk's ID without being hashed (make.go:
   IndexChunk{..., ID: c.nullChunk.ID}).  That ID is right: whenever a worker is about to emit
   one, the bytes of that chunk are max zero bytes. *)
Section SyntheticNull.
  Variable H : bytes -> id.
  Variables (min max : nat) (d : N) (data : bytes).
  Hypothesis Hmin : W <= min.
  Hypothesis Hmax : min <= max.
  Hypothesis Hpos : 0 < max.
  Variables (nw span : nat).

  Theorem synthetic_null_is_zero s i c n : PInv min max d data nw span s -> i < nw ->
    w_pc (getw s i) = After c n -> max <= n ->
    slice data (c_end c) max = repeat 0%N max /\ c_end c + max <= length data.
  Proof.
    intros I Hi Epc Hn.
    pose proof (p_sl _ _ _ _ _ _ s I i Hi) as Hsl. unfold sl in Hsl. rewrite Epc in Hsl.
    pose proof (p_pcl _ _ _ _ _ _ s I i Hi) as Hpcl. unfold pcl in Hpcl. rewrite Epc in Hpcl.
    destruct Hpcl as (Hcan & _ & _).
    destruct Hsl as [Hlt|[Zc _]]; [lia|].
    destruct (canon_bounds min max d data Hmin Hmax Hpos c Hcan) as (_ & Hsz & _).
    assert (Hz : all_zero data (c_end c) max).
    { eapply (all_zero_sub min max data Hmin Hmax Hpos); [exact Zc|unfold c_end, c_start, c_size in *; lia|unfold c_end, c_start, c_size in *; lia]. }
    exact Hz.
  Qed.
End SyntheticNull.

Section SyntheticNullFinal.
  Variable H : bytes -> id.
  Variables (min max : nat) (d : N) (data : bytes).
  Hypothesis Hmin : W <= min.
  Hypothesis Hmax : min <= max.
  Hypothesis Hpos : 0 < max.
  Variable n : nat.
  Hypothesis Hn : 1 <= n.

  Theorem pchunk_synthetic_null sched i c k :
    let s := run (pstep H min max d data false) sched (pinit max data n) in
    i < nworkers s -> w_pc (getw s i) = After c k -> max <= k ->
    (slice data (c_end c) max = repeat 0%N max /\ c_end c + max <= length data) \/ Collision H.
  Proof.
    intros s Hi Epc Hk.
    destruct (run_inv_or H min max d data Hmin Hmax Hpos n Hn sched (pinit max data n)
                (or_introl (init_inv H min max d data Hmin Hmax Hpos n Hn))) as [I|C]; [left|right; exact C].
    fold s in I. rewrite (p_n _ _ _ _ _ _ s I) in Hi.
    exact (synthetic_null_is_zero H min max d data Hmin Hmax Hpos _ _ s i c k I Hi Epc Hk).
  Qed.
End SyntheticNullFinal.
