(* C18: the untar run of the decoder as it is now ([Fixed]) stays beneath the destination.

   Invariant of the UnTar loop (a.dir = rel cs), by decoder state:
     Fresh     nothing returned yet: cs = [], the PARENT chain of the destination rs consists
               of real directories and rs itself is not a link (it may be absent, a file or
               a directory);
     Started   rs ++ cs is a chain of REAL directories (established by the Lstat of
               CreateDir, kept because every write goes to rs ++ cs0 ++ [name] with cs0 a
               prefix of cs, a place strictly below every directory of the chain);
     LeafRoot  the nameless first entry was a file, link or device written AT rs: the
               decoder yields no further node.
   Each LocalFS method is a Hoare triple over the place P it works on: all its writes are
   updates at P (chain), and the calls that FOLLOW a final link (chown, chmod, utimes,
   open) are only issued when P is known not to be a link. *)
From Coq Require Import List NArith Arith Bool Lia.
From DS Require Import Base.Bytes Base.FS Base.GoPath Model.FSLinks Model.ArchiveNames Model.Untar
     Proofs.ArchiveNamesProofs Proofs.FSLinksProofs.
Import ListNotations.

Lemma wstate_eta st : mkW (w_fs st) (w_touched st) = st.
Proof. now destruct st. Qed.

Section Confine.
  Variable rs : path.
  Hypothesis rs_ne : rs <> [].
  Hypothesis rs_real : Forall real_elem rs.
  Variable o : opts.
  Let root := rootstr rs.

  (* [NameOk] holds of the Name of every node the decoder yields; a place is an ENTRY PLACE if it is
     what the kernel makes of filepath.Join(root, Name) for such a Name *)
  Variable NameOk : bytes -> Prop.
  Definition entry_place (p : path) : Prop := exists name, NameOk name /\ dst_of root name = rootstr p.

  (* ---------- a run of updates at one place ---------- *)

  Inductive chain (P : path) : wstate -> wstate -> Prop :=
  | chain_refl st : chain P st st
  | chain_step st fs' st'' f :
      upd P f (w_fs st) = Ok fs' -> chain P (mkW fs' (w_touched st ++ [P])) st'' -> chain P st st''.

  Lemma chain_trans P a b c : chain P a b -> chain P b c -> chain P a c.
  Proof. induction 1; intros H2; [exact H2|]. eapply chain_step; eauto. Qed.

  Lemma effect_chain P st fs' t : effect P (w_fs st) fs' t -> chain P st (mkW fs' (w_touched st ++ t)).
  Proof.
    intros [[-> ->]|[-> [f U]]].
    - rewrite app_nil_r, wstate_eta. constructor.
    - eapply chain_step; [exact U|constructor].
  Qed.

  Definition safe (st st' : wstate) : Prop :=
    (forall q, beneath rs q = false -> stat q (w_fs st') = stat q (w_fs st)) /\
    (exists t, w_touched st' = w_touched st ++ t /\ Forall (fun p => beneath rs p = true /\ entry_place p) t).

  Lemma safe_refl st : safe st st.
  Proof. split; [reflexivity|]. exists []. now rewrite app_nil_r. Qed.

  Lemma safe_trans a b c : safe a b -> safe b c -> safe a c.
  Proof.
    intros [F1 [t1 [T1 A1]]] [F2 [t2 [T2 A2]]]. split.
    - intros q Hq. now rewrite F2, F1.
    - exists (t1 ++ t2). split; [now rewrite T2, T1, app_assoc|]. apply Forall_app. now split.
  Qed.

  Lemma chain_safe P st st' : beneath rs P = true -> entry_place P -> chain P st st' -> safe st st'.
  Proof.
    intros B EP. induction 1 as [st|st fs' st'' f U C IH]; [apply safe_refl|].
    eapply safe_trans; [|exact IH]. split; cbn [w_fs w_touched].
    - intros q Hq. apply (upd_frame _ _ _ _ U).
      destruct (is_prefix P q) eqn:E; [|reflexivity]. unfold beneath in *. now rewrite (is_prefix_trans _ _ _ B E) in Hq.
    - exists [P]. split; [reflexivity|]. constructor; [split; [exact B|exact EP]|constructor].
  Qed.

  Lemma chain_keeps_dir P d st st' : is_prefix P d = false -> chain P st st' ->
    is_dir_at d (w_fs st) -> is_dir_at d (w_fs st').
  Proof.
    intros Hp. induction 1 as [st|st fs' st'' f U C IH]; [auto|]. intros H. apply IH. cbn [w_fs].
    exact (upd_keeps_dir _ _ _ _ _ U Hp H).
  Qed.

  Lemma is_prefix_removelast P : P <> [] -> is_prefix P (removelast P) = false.
  Proof.
    intros H. destruct (exists_last' P H) as (D & n & ->). rewrite removelast_last. apply is_prefix_longer.
  Qed.

  Lemma chain_parent P st st' : P <> [] -> chain P st st' -> parent_ok P (w_fs st) -> parent_ok P (w_fs st').
  Proof. intros H C. apply (chain_keeps_dir P); [now apply is_prefix_removelast|exact C]. Qed.

  (* ---------- Hoare triples over one place ---------- *)

  Definition triple (P : path) (Pre : node -> Prop) (s : step) (Post : node -> Prop) : Prop :=
    forall st, parent_ok P (w_fs st) -> Pre (w_fs st) ->
      chain P st (fst (s st)) /\ (snd (s st) = None -> Post (w_fs (fst (s st)))).

  Lemma triple_ok P A : triple P A ok_step A.
  Proof. intros st _ H. split; [constructor|auto]. Qed.

  Lemma triple_fail P A B e : triple P A (fail_step e) B.
  Proof. intros st _ _. split; [constructor|discriminate]. Qed.

  Lemma triple_weaken P (A A' B B' : node -> Prop) s :
    (forall fs, A' fs -> A fs) -> (forall fs, B fs -> B' fs) -> triple P A s B -> triple P A' s B'.
  Proof. intros HA HB T st Hp H. destruct (T st Hp (HA _ H)) as [C Q]. split; auto. Qed.

  Lemma triple_andthen P A B C a b : P <> [] -> triple P A a B -> triple P B b C -> triple P A (andthen a b) C.
  Proof.
    intros Hne Ta Tb st Hp H. unfold andthen. destruct (Ta st Hp H) as [Ca Qa].
    destruct (a st) as [st1 [e|]]; cbn [fst snd] in *.
    - split; [exact Ca|discriminate].
    - destruct (Tb st1 (chain_parent P _ _ Hne Ca Hp) (Qa eq_refl)) as [Cb Qb].
      split; [eapply chain_trans; eauto|exact Qb].
  Qed.

  Lemma triple_lift P (A B : node -> Prop) sc :
    (forall fs fs' t, parent_ok P fs -> A fs -> sc fs = Ok (fs', t) -> effect P fs fs' t /\ B fs') ->
    triple P A (lift sc) B.
  Proof.
    intros Hsc st Hp H. unfold lift. destruct (sc (w_fs st)) as [[fs' t]|e] eqn:E; cbn [fst snd].
    - destruct (Hsc _ _ _ Hp H E) as [Ef Hb]. split; [now apply effect_chain|auto].
    - split; [constructor|discriminate].
  Qed.

  Lemma triple_steps_same P A l : P <> [] -> (forall s, In s l -> triple P A s A) -> triple P A (steps l) A.
  Proof.
    intros Hne. induction l as [|s l IH]; intros H; cbn [steps]; [apply triple_ok|].
    apply (triple_andthen P A A A); [exact Hne|apply H; now left|apply IH; intros; apply H; now right].
  Qed.

  Section Place.
    Variable P : path.
    Hypothesis P_ne : P <> [].
    Hypothesis P_real : Forall real_elem P.
    Let dst := rootstr P.

    Definition has_kind (k : option nkind) (fs : node) : Prop := kind_at P fs = k.
    Definition any (fs : node) : Prop := True.

    Lemma not_link_of_kind k fs : k <> Some KLink -> has_kind k fs -> not_link_at P fs.
    Proof. intros Hk E. apply kind_not_link. unfold has_kind in E. now rewrite E. Qed.

    Lemma T_setmeta follow g k : (follow = true -> k <> Some KLink) ->
      triple P (has_kind k) (lift (k_setmeta follow g dst)) (has_kind k).
    Proof.
      intros Hk. apply triple_lift. intros fs fs' t Hp Hpre E.
      destruct (k_setmeta_spec P P_ne P_real follow g fs fs' t Hp) as [Ef Kk]; [|exact E|].
      - intros F. exact (not_link_of_kind k fs (Hk F) Hpre).
      - split; [exact Ef|]. unfold has_kind in *. congruence.
    Qed.

    Lemma T_set_perms m k fo wc : (k <> Some KLink \/ (fo = false /\ wc = false)) ->
      triple P (has_kind k) (set_perms o dst m fo wc) (has_kind k).
    Proof.
      intros Hk. unfold set_perms. apply (triple_andthen P _ (has_kind k)); [exact P_ne| |].
      - destruct (no_same_owner o); [apply triple_ok|].
        apply (triple_andthen P _ (has_kind k)); [exact P_ne| |].
        + apply T_setmeta. intros ->. destruct Hk as [Hk|[Hk _]]; [exact Hk|discriminate].
        + apply triple_steps_same; [exact P_ne|]. intros s Hs. apply in_map_iff in Hs as (kv & <- & _).
          apply T_setmeta. discriminate.
      - destruct (wc && negb (no_same_perms o)) eqn:W; [|apply triple_ok].
        apply T_setmeta. intros _. destruct Hk as [Hk|[_ ->]]; [exact Hk|discriminate].
    Qed.

    Lemma T_chtimes m k : k <> Some KLink -> triple P (has_kind k) (chtimes dst m) (has_kind k).
    Proof.
      intros Hk. unfold chtimes. destruct (N.eqb (n_mtime m) 0); [apply triple_ok|]. apply T_setmeta. now intros _.
    Qed.

    Lemma T_lchtimes m k : triple P (has_kind k) (lchtimes dst m) (has_kind k).
    Proof.
      unfold lchtimes. destruct (N.eqb (n_mtime m) 0); [apply triple_ok|]. apply T_setmeta. discriminate.
    Qed.

    Lemma T_mkdir m : triple P any (lift (k_mkdir dst m)) (has_kind (Some KDir)).
    Proof. apply triple_lift. intros fs fs' t Hp _ E. exact (k_mkdir_spec P P_ne P_real m fs fs' t Hp E). Qed.

    Lemma T_mknod m : triple P any (lift (k_mknod dst m)) (has_kind (Some KFile)).
    Proof. apply triple_lift. intros fs fs' t Hp _ E. exact (k_mknod_spec P P_ne P_real m fs fs' t Hp E). Qed.

    Lemma T_symlink target m : triple P any (lift (k_symlink target dst m)) (has_kind (Some KLink)).
    Proof. apply triple_lift. intros fs fs' t Hp _ E. exact (k_symlink_spec P P_ne P_real target m fs fs' t Hp E). Qed.

    Lemma T_remove_all : triple P any (lift (k_remove_all dst)) (has_kind None).
    Proof. apply triple_lift. intros fs fs' t Hp _ E. exact (k_remove_all_spec P P_ne P_real fs fs' t Hp E). Qed.

    Lemma T_create_trunc m data k : k <> Some KLink ->
      triple P (has_kind k) (lift (k_create_trunc dst m data)) (has_kind (Some KFile)).
    Proof.
      intros Hk. apply triple_lift. intros fs fs' t Hp Hpre E.
      exact (k_create_trunc_spec P P_ne P_real m data fs fs' t Hp (not_link_of_kind k fs Hk Hpre) E).
    Qed.

    Lemma T_unlink_ignoring : triple P any (ignore_enoent (lift (k_unlink dst))) (has_kind None).
    Proof.
      intros st Hp _. unfold ignore_enoent, lift. destruct (k_unlink dst (w_fs st)) as [[fs' t]|e] eqn:E; cbn [fst snd].
      - destruct (k_unlink_spec P P_ne P_real _ _ _ Hp E) as [Ef K]. split; [now apply effect_chain|auto].
      - destruct e; cbn [fst snd]; (split; [constructor|try discriminate]).
        intros _. exact (k_unlink_enoent P P_ne P_real _ Hp E).
    Qed.

    (* ----- the LocalFS methods on the place P ----- *)

    Variable name : bytes.
    Hypothesis dst_name : dst_of root name = dst.

    Lemma T_create_dir m : triple P any (create_dir o root name m) (has_kind (Some KDir)).
    Proof.
      intros st Hp _. unfold create_dir. rewrite dst_name.
      assert (Trest : triple P (has_kind (Some KDir)) (andthen (set_perms o dst m true true) (chtimes dst m)) (has_kind (Some KDir))).
      { apply (triple_andthen P _ (has_kind (Some KDir))); [exact P_ne| |].
        - apply T_set_perms. left. discriminate.
        - apply T_chtimes. discriminate. }
      destruct (k_lstat_spec P P_ne P_real (w_fs st) Hp) as [[e E]|[n [E L]]]; fold dst in E; rewrite E.
      - apply (triple_andthen P any (has_kind (Some KDir))); [exact P_ne|apply T_mkdir|exact Trest|exact Hp|exact I].
      - destruct n as [m0 l|m0 b|m0 t].
        + apply Trest; [exact Hp|]. unfold has_kind, kind_at. now rewrite L.
        + split; [constructor|discriminate].
        + split; [constructor|discriminate].
    Qed.

    Lemma T_create_file m data : triple P any (create_file o root name m data) (has_kind (Some KFile)).
    Proof.
      unfold create_file. rewrite dst_name. cbn [steps].
      apply (triple_andthen P _ (has_kind None)); [exact P_ne|apply T_remove_all|].
      apply (triple_andthen P _ (has_kind (Some KFile))); [exact P_ne|apply T_create_trunc; discriminate|].
      apply (triple_andthen P _ (has_kind (Some KFile))); [exact P_ne|apply T_set_perms; left; discriminate|].
      apply (triple_andthen P _ (has_kind (Some KFile))); [exact P_ne|apply T_chtimes; discriminate|apply triple_ok].
    Qed.

    Lemma T_create_symlink m target : triple P any (create_symlink o root name m target) (has_kind (Some KLink)).
    Proof.
      unfold create_symlink. rewrite dst_name. cbn [steps].
      apply (triple_andthen P _ (has_kind None)); [exact P_ne|apply T_unlink_ignoring|].
      apply (triple_andthen P _ (has_kind (Some KLink))); [exact P_ne| |].
      - eapply triple_weaken; [| |apply T_symlink]; [intros; exact I|auto].
      - apply (triple_andthen P _ (has_kind (Some KLink))); [exact P_ne|apply T_set_perms; now right|].
        apply (triple_andthen P _ (has_kind (Some KLink))); [exact P_ne|apply T_lchtimes|apply triple_ok].
    Qed.

    Lemma T_create_device m : triple P any (create_device o root name m) (has_kind (Some KFile)).
    Proof.
      unfold create_device. rewrite dst_name. cbn [steps].
      apply (triple_andthen P _ (has_kind None)); [exact P_ne|apply T_unlink_ignoring|].
      apply (triple_andthen P _ (has_kind (Some KFile))); [exact P_ne| |].
      - destruct (mknod_refused (n_mode m)); [apply triple_fail|].
        eapply triple_weaken; [| |apply T_mknod]; [intros; exact I|auto].
      - apply (triple_andthen P _ (has_kind (Some KFile))); [exact P_ne|apply T_set_perms; left; discriminate|].
        apply (triple_andthen P _ (has_kind (Some KFile))); [exact P_ne|apply T_chtimes; discriminate|apply triple_ok].
    Qed.

    (* CreateSymlink / CreateDevice on a place that is a directory: unlink fails, nothing happens *)
    Lemma unlink_dir_fails st : parent_ok P (w_fs st) -> is_dir_at P (w_fs st) ->
      exists e, ignore_enoent (lift (k_unlink dst)) st = (st, Some e).
    Proof.
      intros Hp Hd. destruct (k_unlink_dir P P_ne P_real _ Hp Hd) as (e & E & Ne).
      exists e. unfold ignore_enoent, lift, dst. rewrite E. destruct e; try reflexivity. congruence.
    Qed.

    Lemma create_symlink_on_dir m target st : parent_ok P (w_fs st) -> is_dir_at P (w_fs st) ->
      exists e, create_symlink o root name m target st = (st, Some e).
    Proof.
      intros Hp Hd. destruct (unlink_dir_fails st Hp Hd) as [e E]. exists e.
      unfold create_symlink. rewrite dst_name. cbn [steps]. unfold andthen at 1. now rewrite E.
    Qed.

    Lemma create_device_on_dir m st : parent_ok P (w_fs st) -> is_dir_at P (w_fs st) ->
      exists e, create_device o root name m st = (st, Some e).
    Proof.
      intros Hp Hd. destruct (unlink_dir_fails st Hp Hd) as [e E]. exists e.
      unfold create_device. rewrite dst_name. cbn [steps]. unfold andthen at 1. now rewrite E.
    Qed.
  End Place.

  (* ---------- a destination path below which nothing resolves ---------- *)

  Lemma lift_noop st : (mkW (w_fs st) (w_touched st ++ []), @None errno) = (st, None).
  Proof. now rewrite app_nil_r, wstate_eta. Qed.

  Lemma write_node_unresolvable nd st dst :
    dst_of root (node_name nd) = dst ->
    (forall f, exists e, resolve_str (w_fs st) dst f = Err e) ->
    exists e, write_node o root nd st = (st, Some e).
  Proof.
    intros Hd Hres. destruct (Hres false) as [e0 R0]. destruct (Hres true) as [e1 R1].
    assert (Hun : exists e, ignore_enoent (lift (k_unlink dst)) st = (st, Some e) \/
                            ignore_enoent (lift (k_unlink dst)) st = (st, None)).
    { unfold ignore_enoent, lift, k_unlink. rewrite R0. exists e0. destruct e0; auto. }
    destruct nd as [nm m|nm m data|nm m target|nm m major minor]; cbn [node_name] in Hd; cbn [write_node].
    - unfold create_dir. rewrite Hd. unfold k_lstat. rewrite R0.
      exists e0. unfold andthen, lift, k_mkdir. now rewrite R0.
    - unfold create_file. rewrite Hd. cbn [steps]. unfold andthen at 1. unfold lift at 1, k_remove_all. rewrite R0.
      assert (Hct : andthen (lift (k_create_trunc dst meta_file data))
                      (andthen (set_perms o dst m true true) (andthen (chtimes dst m) ok_step)) st = (st, Some e1)).
      { unfold andthen at 1. unfold lift at 1, k_create_trunc. now rewrite R1. }
      destruct e0; try (eexists; reflexivity). cbv beta iota. rewrite app_nil_r, wstate_eta. eauto.
    - unfold create_symlink. rewrite Hd. cbn [steps]. unfold andthen at 1.
      destruct Hun as [e [-> | ->]]; [eauto|].
      unfold andthen at 1. unfold lift at 1, k_symlink. destruct target; [eauto|]. rewrite R0. eauto.
    - unfold create_device. rewrite Hd. cbn [steps]. unfold andthen at 1.
      destruct Hun as [e [-> | ->]]; [eauto|].
      unfold andthen at 1. destruct (mknod_refused (n_mode m)); [unfold fail_step; eauto|].
      unfold lift at 1, k_mknod. rewrite R0. eauto.
  Qed.

  (* ---------- the loop invariant ---------- *)

  Definition ginv (ds : dstate) (cs : list bytes) (fs : node) : Prop :=
    Forall real_elem cs /\
    match ds with
    | Fresh => cs = [] /\ parent_ok rs fs /\ not_link_at rs fs
    | Started => is_dir_at (rs ++ cs) fs
    | LeafRoot => True
    end.

  Lemma beneath_root_app p : beneath rs (rs ++ p) = true.
  Proof. apply is_prefix_app. Qed.

  Lemma prefix_nil cs0 : prefix_of cs0 [] -> cs0 = [].
  Proof. intros [t E]. symmetry in E. now apply app_eq_nil in E. Qed.

  Lemma dst_rel cs : Forall real_elem cs -> dst_of root (rel cs) = rootstr (rs ++ cs).
  Proof. intros F. unfold dst_of, root, rootstr. now apply join_root_rel. Qed.

  (* a named entry below a chain of real directories *)
  Lemma write_named cs0 nd base dir' st :
    NameOk (node_name nd) ->
    Forall real_elem cs0 -> real_elem base -> node_name nd = rel (cs0 ++ [base]) ->
    dir' = rel (if is_dir_node nd then cs0 ++ [base] else cs0) ->
    is_dir_at (rs ++ cs0) (w_fs st) ->
    safe st (fst (write_node o root nd st)) /\
    (snd (write_node o root nd st) = None ->
     exists cs', dir' = rel cs' /\ Forall real_elem cs' /\ is_dir_at (rs ++ cs') (w_fs (fst (write_node o root nd st)))).
  Proof.
    intros HQ F0 Rb Hname Hdir HD.
    assert (Fn : Forall real_elem (cs0 ++ [base])) by (apply Forall_app; split; [exact F0|constructor; [exact Rb|constructor]]).
    set (P := rs ++ cs0 ++ [base]).
    assert (P_ne : P <> []) by (unfold P; destruct rs; [congruence|discriminate]).
    assert (P_real : Forall real_elem P) by (unfold P; apply Forall_app; split; [exact rs_real|exact Fn]).
    assert (Hd : dst_of root (node_name nd) = rootstr P) by (rewrite Hname; now apply dst_rel).
    assert (BP : beneath rs P = true) by apply beneath_root_app.
    assert (EPl : entry_place P) by (exists (node_name nd); split; [exact HQ|exact Hd]).
    assert (EP : P = (rs ++ cs0) ++ [base]) by (unfold P; now rewrite app_assoc).
    assert (Hp : parent_ok P (w_fs st)) by (unfold parent_ok; rewrite EP, removelast_last; exact HD).
    assert (Hlong : is_prefix P (rs ++ cs0) = false) by (rewrite EP; apply is_prefix_longer).
    assert (Keep : forall st', chain P st st' -> is_dir_at (rs ++ cs0) (w_fs st')).
    { intros st' C. exact (chain_keeps_dir P _ _ _ Hlong C HD). }
    destruct nd as [nm m|nm m data|nm m target|nm m major minor]; cbn [node_name is_dir_node] in *; cbn [write_node].
    - destruct (T_create_dir P P_ne P_real nm Hd m st Hp I) as [C Q]. split; [exact (chain_safe P _ _ BP EPl C)|].
      intros E. exists (cs0 ++ [base]). split; [exact Hdir|]. split; [exact Fn|].
      apply kind_dir_iff. exact (Q E).
    - destruct (T_create_file P P_ne P_real nm Hd m data st Hp I) as [C Q]. split; [exact (chain_safe P _ _ BP EPl C)|].
      intros _. exists cs0. split; [exact Hdir|]. split; [exact F0|exact (Keep _ C)].
    - destruct (T_create_symlink P P_ne P_real nm Hd m target st Hp I) as [C Q]. split; [exact (chain_safe P _ _ BP EPl C)|].
      intros _. exists cs0. split; [exact Hdir|]. split; [exact F0|exact (Keep _ C)].
    - destruct (T_create_device P P_ne P_real nm Hd m st Hp I) as [C Q]. split; [exact (chain_safe P _ _ BP EPl C)|].
      intros _. exists cs0. split; [exact Hdir|]. split; [exact F0|exact (Keep _ C)].
  Qed.

  (* the nameless first entry: written AT the destination path *)
  Lemma write_root nd st :
    NameOk (node_name nd) -> node_name nd = rel [] -> parent_ok rs (w_fs st) ->
    safe st (fst (write_node o root nd st)) /\
    (snd (write_node o root nd st) = None -> is_dir_node nd = true -> is_dir_at rs (w_fs (fst (write_node o root nd st)))).
  Proof.
    intros HQ Hname Hp.
    assert (Hd : dst_of root (node_name nd) = rootstr rs).
    { rewrite Hname. rewrite (dst_rel []) by constructor. now rewrite app_nil_r. }
    assert (BP : beneath rs rs = true) by apply is_prefix_refl.
    assert (EPl : entry_place rs) by (exists (node_name nd); split; [exact HQ|exact Hd]).
    destruct nd as [nm m|nm m data|nm m target|nm m major minor]; cbn [node_name is_dir_node] in *; cbn [write_node].
    - destruct (T_create_dir rs rs_ne rs_real nm Hd m st Hp I) as [C Q]. split; [exact (chain_safe rs _ _ BP EPl C)|].
      intros E _. apply kind_dir_iff. exact (Q E).
    - destruct (T_create_file rs rs_ne rs_real nm Hd m data st Hp I) as [C Q]. split; [exact (chain_safe rs _ _ BP EPl C)|discriminate].
    - destruct (T_create_symlink rs rs_ne rs_real nm Hd m target st Hp I) as [C Q]. split; [exact (chain_safe rs _ _ BP EPl C)|discriminate].
    - destruct (T_create_device rs rs_ne rs_real nm Hd m st Hp I) as [C Q]. split; [exact (chain_safe rs _ _ BP EPl C)|discriminate].
  Qed.

  Lemma opt_comp_real base : real_elem base -> opt_comp base = [base].
  Proof. intros [K _]. destruct base; [discriminate|reflexivity]. Qed.

  Lemma write_node_inv ds cs nd base dir' st :
    NameOk (node_name nd) -> ginv ds cs (w_fs st) -> node_shape ds cs nd base dir' ->
    safe st (fst (write_node o root nd st)) /\
    (snd (write_node o root nd st) = None ->
     exists cs', dir' = rel cs' /\ ginv (dstate_after Fixed ds nd base) cs' (w_fs (fst (write_node o root nd st)))).
  Proof.
    intros HQ (Fcs & Hinv) (Hleaf & cs0 & Hpre & F0 & Nb & Hb & Hname & Hdir).
    destruct ds; [| |congruence].
    - (* Fresh: cs = [] *)
      destruct Hinv as (-> & Hp & NL). apply prefix_nil in Hpre. subst cs0. cbn [app] in *.
      destruct Nb as [->|Rb].
      + (* the nameless first entry *)
        cbn [opt_comp] in *. destruct (write_root nd st HQ Hname Hp) as [S Q0]. split; [exact S|].
        intros E. exists []. split; [destruct (is_dir_node nd); exact Hdir|].
        split; [constructor|]. cbn [dstate_after]. destruct (is_dir_node nd) eqn:Dn; [|exact I].
        rewrite app_nil_r. exact (Q0 E eq_refl).
      + (* a named first entry: the destination has to be a directory already *)
        rewrite (opt_comp_real base Rb) in *.
        assert (Eds : dstate_after Fixed Fresh nd base = Started) by (destruct base; [destruct Rb as [K _]; discriminate|reflexivity]).
        rewrite Eds.
        assert (Fq : Forall real_elem (rs ++ [base])) by (apply Forall_app; split; [exact rs_real|constructor; [exact Rb|constructor]]).
        assert (Hd : dst_of root (node_name nd) = rootstr (rs ++ [base])).
        { rewrite Hname. apply (dst_rel [base]). constructor; [exact Rb|constructor]. }
        destruct (not_link_cases rs (w_fs st) NL) as [HD|[Ln|(m0 & b0 & Lf)]].
        * rewrite <- (app_nil_r rs) in HD.
          destruct (write_named [] nd base dir' st HQ (Forall_nil _) Rb Hname Hdir HD) as [S Q0]. split; [exact S|].
          intros E. destruct (Q0 E) as (cs' & E1 & F1 & D1). exists cs'. split; [exact E1|]. split; assumption.
        * destruct (write_node_unresolvable nd st _ Hd) as [e ->].
          { intros f. apply resolve_below_absent; [exact rs_ne|discriminate|exact Fq|exact Hp|exact Ln]. }
          cbn [fst snd]. split; [apply safe_refl|discriminate].
        * destruct (write_node_unresolvable nd st _ Hd) as [e ->].
          { intros f. eapply resolve_below_file'; [exact rs_ne|discriminate|exact Fq|exact Lf]. }
          cbn [fst snd]. split; [apply safe_refl|discriminate].
    - (* Started: every entry is named, rs ++ cs0 is a chain of real directories *)
      destruct Nb as [->|Rb]; [specialize (Hb eq_refl); discriminate|].
      rewrite (opt_comp_real base Rb) in *.
      assert (HD : is_dir_at (rs ++ cs0) (w_fs st)).
      { destruct Hpre as [t ->]. rewrite app_assoc in Hinv. exact (is_dir_at_prefix _ _ _ Hinv). }
      destruct (write_named cs0 nd base dir' st HQ F0 Rb Hname Hdir HD) as [S Q0]. split; [exact S|].
      intros E. destruct (Q0 E) as (cs' & E1 & F1 & D1). exists cs'. split; [exact E1|].
      assert (Eds : dstate_after Fixed Started nd base = Started) by (destruct base; reflexivity).
      rewrite Eds. split; assumption.
  Qed.

  Lemma untar_loop_safe : forall fuel ds cs inp st,
    (forall x, In x (nodes_loop fuel Fixed ds (rel cs) inp) -> NameOk (node_name (fst x))) ->
    ginv ds cs (w_fs st) ->
    safe st (fst (untar_loop fuel Fixed o root ds (rel cs) inp st)).
  Proof.
    induction fuel as [|fuel IH]; intros ds cs inp st HQ G; cbn [untar_loop]; [apply safe_refl|].
    cbn [nodes_loop] in HQ.
    destruct (archive_next Fixed ds (rel cs) inp) as [nd base dir' rest| |] eqn:E; cbn [fst]; try apply safe_refl.
    pose proof (archive_next_shape _ _ _ _ _ _ _ (proj1 G) E) as Sh.
    destruct (write_node_inv ds cs nd base dir' st (HQ (nd, base) (or_introl eq_refl)) G Sh) as [S Q0].
    destruct (write_node o root nd st) as [st' [e|]]; cbn [fst snd] in *; [exact S|].
    destruct (Q0 eq_refl) as (cs' & -> & G'). eapply safe_trans; [exact S|]. apply IH; [|exact G'].
    intros x Hx. apply HQ. now right.
  Qed.

  Lemma untar_loop_fuel pol : forall fuel ds dir inp st,
    length inp < fuel -> snd (untar_loop fuel pol o root ds dir inp st) <> OutOfFuel.
  Proof.
    induction fuel as [|fuel IH]; intros ds dir inp st L; [lia|]. cbn [untar_loop].
    destruct (archive_next pol ds dir inp) as [nd base dir' rest| |] eqn:E; cbn [snd]; try discriminate.
    apply archive_next_rest in E. destruct (write_node o root nd st) as [st' [e|]]; cbn [snd]; [discriminate|].
    apply IH. lia.
  Qed.
End Confine.

(* ---------- the theorems ---------- *)

(* every place written is what the kernel makes of filepath.Join(root, Name) for the Name of a
   node of the archive: the writer uses no other (temporary, partial, lock) names *)
Theorem untar_writes_entry_paths : forall (o : opts) (rs : path) (elems : list elem) (fs : node),
  rs <> [] -> Forall real_elem rs -> parent_ok rs fs -> not_link_at rs fs ->
  let r := untar Fixed o (rootstr rs) elems fs in
  Forall (fun p => beneath rs p = true /\
                   exists nd base, In (nd, base) (nodes_of Fixed elems) /\
                                   dst_of (rootstr rs) (node_name nd) = rootstr p)
         (w_touched (fst r)) /\
  (forall q, beneath rs q = false -> stat q (w_fs (fst r)) = stat q fs).
Proof.
  intros o rs elems fs Hne Fr Hp NL r. unfold r, untar.
  set (Q := fun name => exists nd base, In (nd, base) (nodes_of Fixed elems) /\ node_name nd = name).
  assert (G : ginv rs Fresh [] (w_fs (mkW fs []))).
  { split; [constructor|]. cbn [w_fs]. auto. }
  assert (HQ : forall x, In x (nodes_loop (S (length elems)) Fixed Fresh (rel []) elems) -> Q (node_name (fst x))).
  { intros [nd base] Hx. exists nd, base. split; [exact Hx|reflexivity]. }
  destruct (untar_loop_safe rs Hne Fr o Q (S (length elems)) Fresh [] elems (mkW fs []) HQ G) as [Fq [t [T A]]].
  change (rel []) with dir0 in *. split; [|exact Fq].
  cbn [w_touched app] in T. rewrite T. eapply Forall_impl; [|exact A].
  intros p [B (name & (nd & base & Hin & <-) & Hd)]. split; [exact B|]. now exists nd, base.
Qed.

Theorem untar_confined : forall (o : opts) (rs : path) (elems : list elem) (fs : node),
  rs <> [] -> Forall real_elem rs -> parent_ok rs fs -> not_link_at rs fs ->
  let r := untar Fixed o (rootstr rs) elems fs in
  Forall (fun p => beneath rs p = true) (w_touched (fst r)) /\
  (forall q, beneath rs q = false -> stat q (w_fs (fst r)) = stat q fs) /\
  snd r <> OutOfFuel.
Proof.
  intros o rs elems fs Hne Fr Hp NL r.
  destruct (untar_writes_entry_paths o rs elems fs Hne Fr Hp NL) as [A Fq]. split; [|split].
  - eapply Forall_impl; [|exact A]. now intros p [B _].
  - exact Fq.
  - unfold r, untar. apply untar_loop_fuel; [exact (fun _ => True)|lia].
Qed.

(* the usual case: the destination exists and is a real directory *)
Corollary untar_confined_dir : forall (o : opts) (rs : path) (elems : list elem) (fs : node),
  rs <> [] -> Forall real_elem rs -> is_dir_at rs fs ->
  let r := untar Fixed o (rootstr rs) elems fs in
  Forall (fun p => beneath rs p = true) (w_touched (fst r)) /\
  (forall q, beneath rs q = false -> stat q (w_fs (fst r)) = stat q fs) /\
  snd r <> OutOfFuel.
Proof.
  intros o rs elems fs Hne Fr Hd. apply untar_confined; try assumption.
  - now apply is_dir_at_removelast.
  - now apply is_dir_not_link.
Qed.

(* the name discipline on its own: every Name the decoder hands to the writer is a clean
   relative path of validated components below the directory the decoder is in *)
Theorem archive_names_components : forall ds cs inp nd base dir' rest,
  Forall real_elem cs -> archive_next Fixed ds (rel cs) inp = NNode nd base dir' rest ->
  ds <> LeafRoot /\
  exists cs0, prefix_of cs0 cs /\ Forall real_elem (cs0 ++ opt_comp base) /\
              node_name nd = rel (cs0 ++ opt_comp base) /\ (base = [] -> ds = Fresh) /\
              exists cs', dir' = rel cs' /\ Forall real_elem cs'.
Proof.
  intros ds cs inp nd base dir' rest F E.
  destruct (archive_next_shape _ _ _ _ _ _ _ F E) as (Hl & cs0 & Hp & F0 & Nb & Hb & Hn & Hd).
  split; [exact Hl|].
  exists cs0. split; [exact Hp|]. split; [now apply Forall_app_opt|]. split; [exact Hn|]. split; [exact Hb|].
  eexists. split; [exact Hd|]. destruct (is_dir_node nd); [now apply Forall_app_opt|exact F0].
Qed.

(* goodbyes in excess stay at "." *)
Theorem goodbye_at_top : GoPath.dir dir0 = dir0.
Proof. reflexivity. Qed.
