(* A trace accepted by [replay] is an execution of the model: all theorems about every schedule
   (pchunk_eq_seq, pchunk_prefix, ...) apply to the run the Go code actually performed. *)
From Coq Require Import List NArith Arith Bool Lia.
From DS Require Import Base.Bytes Base.Hash Base.Sched Model.Chunker Model.PChunker Model.PChunkerTrace
     Proofs.PChunkerMain.
Import ListNotations.

Section TraceProofs.
  Variable H : bytes -> id.
  Variables (min max : nat) (d : N).
  Variable data : bytes.

  Notation pstep := (pstep H min max d data false).
  Notation catchup := (catchup H min max d data).
  Notation apply_ev := (apply_ev H min max d data).
  Notation replay := (replay H min max d data).
  Notation finish := (finish data).

  Definition reach (s s' : pstate) : Prop := exists sched, run_strict pstep sched s = Some s'.

  Lemma reach_refl s : reach s s.
  Proof. exists []. reflexivity. Qed.

  Lemma reach_step s t s1 s' : pstep s t = Some s1 -> reach s1 s' -> reach s s'.
  Proof. intros E [sc Hs]. exists (t :: sc). cbn. rewrite E. exact Hs. Qed.

  Lemma reach_trans s s1 s' : reach s s1 -> reach s1 s' -> reach s s'.
  Proof.
    intros [a Ha] [b Hb]. exists (a ++ b). revert s Ha. induction a as [|t a IH]; intros s Ha; cbn in *.
    - injection Ha as <-. exact Hb.
    - destruct (pstep s t) as [s2|]; [apply IH; exact Ha|discriminate].
  Qed.

  Lemma catchup_reach : forall fuel s i want s', catchup fuel s i want = Some s' -> reach s s'.
  Proof.
    induction fuel as [|f IH]; intros s i want s' E; [discriminate|]. cbn [PChunkerTrace.catchup] in E.
    destruct (step_worker H min max d data s i) as [s1|] eqn:Es; [|discriminate].
    assert (Hst : pstep s (PWorker i) = Some s1) by exact Es.
    destruct (label_worker min max d data s i);
      try (destruct (lab_eqb _ want); [injection E as <-; eapply reach_step; [exact Hst|apply reach_refl]|discriminate]).
    eapply reach_step; [exact Hst|]. eapply IH. exact E.
  Qed.

  Lemma apply_ev_reach s e s' : apply_ev s e = Some s' -> reach s s'.
  Proof.
    unfold PChunkerTrace.apply_ev. destruct (lab_of e) as [[i l]|] eqn:El.
    - apply catchup_reach.
    - intros E.
      assert (Hc : forall s1, step_collector data false s = Some s1 -> reach s s1).
      { intros s1 E1. eapply reach_step with (t := PCollector); [exact E1|apply reach_refl]. }
      destruct e; try discriminate.
      + destruct (_ && _); [apply Hc; exact E|discriminate].
      + destruct (step_collector data false s) as [s1|] eqn:E1; [|discriminate].
        destruct (_ && _); [injection E as <-; apply Hc; reflexivity|discriminate].
      + destruct (step_collector data false s) as [s1|] eqn:E1; [|discriminate].
        destruct (_ && _); [injection E as <-; apply Hc; reflexivity|discriminate].
  Qed.

  Lemma replay_reach : forall evs pos s s', replay pos evs s = inl s' -> reach s s'.
  Proof.
    induction evs as [|e r IH]; intros pos s s' E; cbn in E.
    - injection E as <-. apply reach_refl.
    - destruct (apply_ev s e) as [s1|] eqn:E1; [|discriminate].
      eapply reach_trans; [eapply apply_ev_reach; exact E1|eapply IH; exact E].
  Qed.

  Lemma finish_reach s : reach s (finish s).
  Proof.
    unfold PChunkerTrace.finish. destruct (k_done (p_c s)); [apply reach_refl|].
    destruct (negb (k_cur (p_c s) <? nworkers s)); [|apply reach_refl].
    destruct (step_collector data false s) as [s1|] eqn:E; [|apply reach_refl].
    eapply reach_step with (t := PCollector); [exact E|apply reach_refl].
  Qed.

  Hypothesis Hmin : W <= min.
  Hypothesis Hmax : min <= max.
  Hypothesis Hpos : 0 < max.

  (* If the model can follow the recorded trace of a run of the Go code to a state in which the
     collector is done, the index collected in that state is the single-stream index. *)
  Theorem trace_valid_index n evs s' : 1 <= n ->
    replay 0 evs (pinit max data n) = inl s' -> k_done (p_c (finish s')) = true ->
    k_out (p_c (finish s')) = seq_index min max d data \/ Collision H.
  Proof.
    intros Hn E Hd.
    assert (R : reach (pinit max data n) (finish s')).
    { eapply reach_trans; [eapply replay_reach; exact E|apply finish_reach]. }
    destruct R as [sched Hs]. apply run_strict_run in Hs.
    pose proof (pchunk_eq_seq H min max d data Hmin Hmax Hpos n Hn sched) as T. cbv zeta in T.
    rewrite Hs in T. exact (T Hd).
  Qed.
End TraceProofs.

(* What "the model followed the event" means: the labels are what the steps do. *)
Section Labels.
  Variable H : bytes -> id.
  Variables (min max : nat) (d : N).
  Variable data : bytes.
  Notation step_worker := (step_worker H min max d data).
  Notation label_worker := (label_worker min max d data).

  Lemma getw_setw_same s i w : i < nworkers s -> getw (setw s i w) i = w.
  Proof.
    unfold getw, setw, nworkers. cbn [p_w]. revert i. induction (p_w s) as [|a l IH]; intros i Hi; [cbn in Hi; lia|].
    destruct i as [|i]; [reflexivity|]. cbn. apply IH. cbn in Hi. lia.
  Qed.

  Lemma getw_setw_other s i j w : i <> j -> getw (setw s i w) j = getw s j.
  Proof.
    unfold getw, setw. cbn [p_w]. revert i j. induction (p_w s) as [|a l IH]; intros i j Hne; [destruct i; reflexivity|].
    destruct i as [|i], j as [|j]; try reflexivity; [lia|]. cbn. apply IH. lia.
  Qed.

  Lemma nworkers_setw s i w : nworkers (setw s i w) = nworkers s.
  Proof.
    unfold nworkers, setw. cbn [p_w]. revert i. induction (p_w s) as [|a l IH]; intros i; [destruct i; reflexivity|].
    destruct i; cbn; [reflexivity|f_equal; apply IH].
  Qed.

  (* a step labelled "send c" appends exactly c to worker i's bucket *)
  Lemma label_send_sound s i c s' : label_worker s i = LSend c -> step_worker s i = Some s' ->
    w_emit (getw s' i) = w_emit (getw s i) ++ [c].
  Proof.
    unfold PChunkerTrace.label_worker, PChunker.step_worker.
    destruct (negb (i <? nworkers s)) eqn:Ei; [discriminate|].
    apply negb_false_iff, Nat.ltb_lt in Ei.
    destruct (w_pc (getw s i)) as [|c0 prev|c0 n|c0 n| |] eqn:Epc; try discriminate.
    - destruct (next_chunk min max d data (w_pos (getw s i))) as [c1|]; [|discriminate].
      intros E E'. injection E as <-. injection E' as <-. rewrite getw_setw_same by exact Ei. reflexivity.
    - destruct (sync_start (w_sync (getw s (w_next (getw s i)))) <? c_start c0).
      + destruct (bucket_head (getw s (w_next (getw s i)))); discriminate.
      + destruct (w_sync (getw s (w_next (getw s i)))) as [m|].
        * destruct ((c_start c0 =? c_start m) && (c_size c0 =? c_size m)); discriminate.
        * destruct ((c_start c0 =? 0) && (c_size c0 =? 0)); discriminate.
    - destruct (bucket_head (getw s (w_next (getw s i)))); discriminate.
    - destruct (n <? max); [discriminate|].
      intros E E'. injection E as <-. injection E' as <-. rewrite getw_setw_same by exact Ei. reflexivity.
  Qed.

  (* a step labelled "recv j v" takes exactly v, the head of bucket j, and makes it j's sync chunk *)
  Lemma label_recv_sound s i j v s' : label_worker s i = LRecv j v -> step_worker s i = Some s' ->
    j = w_next (getw s i) /\ bucket_head (getw s j) = Some v /\
    (i <> j -> j < nworkers s -> w_cons (getw s' j) = S (w_cons (getw s j)) /\ w_sync (getw s' j) = Some v).
  Proof.
    unfold PChunkerTrace.label_worker, PChunker.step_worker.
    destruct (negb (i <? nworkers s)) eqn:Ei; [discriminate|].
    apply negb_false_iff, Nat.ltb_lt in Ei.
    destruct (w_pc (getw s i)) as [|c0 prev|c0 n|c0 n| |] eqn:Epc; try discriminate.
    - destruct (next_chunk min max d data (w_pos (getw s i))); discriminate.
    - destruct (sync_start (w_sync (getw s (w_next (getw s i)))) <? c_start c0).
      + destruct (bucket_head (getw s (w_next (getw s i)))) as [v0|] eqn:Eh; [|discriminate].
        intros E E'. injection E as <- <-. injection E' as <-. split; [reflexivity|]. split; [exact Eh|].
        intros Hne Hj. rewrite getw_setw_other by exact Hne. rewrite getw_setw_same by exact Hj. split; reflexivity.
      + destruct (w_sync (getw s (w_next (getw s i)))) as [m|].
        * destruct ((c_start c0 =? c_start m) && (c_size c0 =? c_size m)); discriminate.
        * destruct ((c_start c0 =? 0) && (c_size c0 =? 0)); discriminate.
    - destruct (bucket_head (getw s (w_next (getw s i)))) as [v0|] eqn:Eh; [|discriminate].
      intros E E'. injection E as <- <-. split; [reflexivity|]. split; [exact Eh|].
      intros Hne Hj. destruct (is_null H max data v0); injection E' as <-;
        (rewrite getw_setw_other by exact Hne; rewrite getw_setw_same by exact Hj; split; reflexivity).
    - destruct (n <? max); discriminate.
  Qed.

  (* "empty j": the bucket of the next worker had nothing to receive *)
  Lemma label_empty_sound s i j : label_worker s i = LEmpty j ->
    j = w_next (getw s i) /\ bucket_head (getw s j) = None.
  Proof.
    unfold PChunkerTrace.label_worker.
    destruct (negb (i <? nworkers s)); [discriminate|].
    destruct (w_pc (getw s i)) as [|c0 prev|c0 n|c0 n| |]; try discriminate.
    - destruct (next_chunk min max d data (w_pos (getw s i))); discriminate.
    - destruct (sync_start (w_sync (getw s (w_next (getw s i)))) <? c_start c0).
      + destruct (bucket_head (getw s (w_next (getw s i)))) eqn:Eh; [discriminate|]. intros E. injection E as <-. split; [reflexivity|exact Eh].
      + destruct (w_sync (getw s (w_next (getw s i)))) as [m|].
        * destruct ((c_start c0 =? c_start m) && (c_size c0 =? c_size m)); discriminate.
        * destruct ((c_start c0 =? 0) && (c_size c0 =? 0)); discriminate.
    - destruct (bucket_head (getw s (w_next (getw s i)))) eqn:Eh; [discriminate|]. intros E. injection E as <-. split; [reflexivity|exact Eh].
    - destruct (n <? max); discriminate.
  Qed.

  (* "exit": the worker is inactive afterwards; "skip yes/no": the neighbour pointer moves iff yes *)
  Lemma label_exit_sound s i s' : label_worker s i = LExit -> step_worker s i = Some s' ->
    w_active (getw s' i) = false /\ w_pc (getw s' i) = Exited.
  Proof.
    unfold PChunkerTrace.label_worker, PChunker.step_worker.
    destruct (negb (i <? nworkers s)) eqn:Ei; [discriminate|].
    apply negb_false_iff, Nat.ltb_lt in Ei.
    destruct (w_pc (getw s i)) as [|c0 prev|c0 n|c0 n| |] eqn:Epc; try discriminate.
    - destruct (next_chunk min max d data (w_pos (getw s i))); [discriminate|].
      intros _ E'. injection E' as <-. rewrite getw_setw_same by exact Ei. split; reflexivity.
    - destruct (sync_start (w_sync (getw s (w_next (getw s i)))) <? c_start c0).
      + destruct (bucket_head (getw s (w_next (getw s i)))); discriminate.
      + destruct (w_sync (getw s (w_next (getw s i)))) as [m|].
        * destruct ((c_start c0 =? c_start m) && (c_size c0 =? c_size m)); [|discriminate].
          intros _ E'. injection E' as <-. rewrite getw_setw_same by exact Ei. split; reflexivity.
        * destruct ((c_start c0 =? 0) && (c_size c0 =? 0)); [|discriminate].
          intros _ E'. injection E' as <-. rewrite getw_setw_same by exact Ei. split; reflexivity.
    - destruct (bucket_head (getw s (w_next (getw s i)))); discriminate.
    - destruct (n <? max); discriminate.
  Qed.

  Lemma label_skip_sound s i y s' : label_worker s i = LSkip y -> step_worker s i = Some s' ->
    w_next (getw s' i) = if y then w_next (getw s (w_next (getw s i))) else w_next (getw s i).
  Proof.
    unfold PChunkerTrace.label_worker, PChunker.step_worker.
    destruct (negb (i <? nworkers s)) eqn:Ei; [discriminate|].
    apply negb_false_iff, Nat.ltb_lt in Ei.
    destruct (w_pc (getw s i)) as [|c0 prev|c0 n|c0 n| |] eqn:Epc; try discriminate.
    - destruct (next_chunk min max d data (w_pos (getw s i))); discriminate.
    - destruct (sync_start (w_sync (getw s (w_next (getw s i)))) <? c_start c0).
      + destruct (bucket_head (getw s (w_next (getw s i)))); discriminate.
      + destruct (w_sync (getw s (w_next (getw s i)))) as [m|].
        * destruct ((c_start c0 =? c_start m) && (c_size c0 =? c_size m)); discriminate.
        * destruct ((c_start c0 =? 0) && (c_size c0 =? 0)); discriminate.
    - destruct (bucket_head (getw s (w_next (getw s i)))); discriminate.
    - destruct (n <? max); discriminate.
    - intros E E'. injection E as <-.
      destruct ((w_next (getw s i) <? nworkers s) && negb (w_active (getw s (w_next (getw s i)))) &&
                (length (w_emit (getw s (w_next (getw s i)))) <=? w_cons (getw s (w_next (getw s i)))));
        injection E' as <-; rewrite getw_setw_same by exact Ei; reflexivity.
  Qed.
End Labels.
