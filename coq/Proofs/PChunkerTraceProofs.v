(* A trace accepted by [replay] is an execution of the model: all theorems about every schedule
   (pchunk_eq_seq, pchunk_prefix, ...) apply to the run the Go code actually performed. *)
From Coq Require Import List NArith Arith Bool Lia.
From DS Require Import Base.Bytes Base.Hash Base.Sched Model.Chunker Model.PChunker Model.PChunkerTrace
     Proofs.PChunkerMain.
Import ListNotations.

Section TraceProofs.
  Variable H : bytes -> id.
  Variables (min max : nat) (d : N).
  Variable data : bytes.

  Notation pstep := (pstep H min max d data false).
  Notation catchup := (catchup H min max d data).
  Notation apply_ev := (apply_ev H min max d data).
  Notation replay := (replay H min max d data).
  Notation finish := (finish data).

  Definition reach (s s' : pstate) : Prop := exists sched, run_strict pstep sched s = Some s'.

  Lemma reach_refl s : reach s s.
  Proof. exists []. reflexivity. Qed.

  Lemma reach_step s t s1 s' : pstep s t = Some s1 -> reach s1 s' -> reach s s'.
  Proof. intros E [sc Hs]. exists (t :: sc). cbn. rewrite E. exact Hs. Qed.

  Lemma reach_trans s s1 s' : reach s s1 -> reach s1 s' -> reach s s'.
  Proof.
    intros [a Ha] [b Hb]. exists (a ++ b). revert s Ha. induction a as [|t a IH]; intros s Ha; cbn in *.
    - injection Ha as <-. exact Hb.
    - destruct (pstep s t) as [s2|]; [apply IH; exact Ha|discriminate].
  Qed.

  Lemma catchup_reach : forall fuel s i want s', catchup fuel s i want = Some s' -> reach s s'.
  Proof.
    induction fuel as [|f IH]; intros s i want s' E; [discriminate|]. cbn [PChunkerTrace.catchup] in E.
    destruct (step_worker H min max d data s i) as [s1|] eqn:Es; [|discriminate].
    assert (Hst : pstep s (PWorker i) = Some s1) by exact Es.
    destruct (label_worker min max d data s i);
      try (destruct (lab_eqb _ want); [injection E as <-; eapply reach_step; [exact Hst|apply reach_refl]|discriminate]).
    eapply reach_step; [exact Hst|]. eapply IH. exact E.
  Qed.

  Lemma apply_ev_reach s e s' : apply_ev s e = Some s' -> reach s s'.
  Proof.
    unfold PChunkerTrace.apply_ev. destruct (lab_of e) as [[i l]|] eqn:El.
    - apply catchup_reach.
    - intros E.
      assert (Hc : forall s1, step_collector data false s = Some s1 -> reach s s1).
      { intros s1 E1. eapply reach_step with (t := PCollector); [exact E1|apply reach_refl]. }
      destruct e; try discriminate.
      + destruct (_ && _); [apply Hc; exact E|discriminate].
      + destruct (step_collector data false s) as [s1|] eqn:E1; [|discriminate].
        destruct (_ && _); [injection E as <-; apply Hc; reflexivity|discriminate].
      + destruct (step_collector data false s) as [s1|] eqn:E1; [|discriminate].
        destruct (_ && _); [injection E as <-; apply Hc; reflexivity|discriminate].
  Qed.

  Lemma replay_reach : forall evs pos s s', replay pos evs s = inl s' -> reach s s'.
  Proof.
    induction evs as [|e r IH]; intros pos s s' E; cbn in E.
    - injection E as <-. apply reach_refl.
    - destruct (apply_ev s e) as [s1|] eqn:E1; [|discriminate].
      eapply reach_trans; [eapply apply_ev_reach; exact E1|eapply IH; exact E].
  Qed.

  Lemma finish_reach s : reach s (finish s).
  Proof.
    unfold PChunkerTrace.finish. destruct (k_done (p_c s)); [apply reach_refl|].
    destruct (negb (k_cur (p_c s) <? nworkers s)); [|apply reach_refl].
    destruct (step_collector data false s) as [s1|] eqn:E; [|apply reach_refl].
    eapply reach_step with (t := PCollector); [exact E|apply reach_refl].
  Qed.

  Hypothesis Hmin : W <= min.
  Hypothesis Hmax : min <= max.
  Hypothesis Hpos : 0 < max.

  (* If the model can follow the recorded trace of a run of the Go code to a state in which the
     collector is done, the index collected in that state is the single-stream index. *)
  Theorem trace_valid_index n evs s' : 1 <= n ->
    replay 0 evs (pinit max data n) = inl s' -> k_done (p_c (finish s')) = true ->
    k_out (p_c (finish s')) = seq_index min max d data \/ Collision H.
  Proof.
    intros Hn E Hd.
    assert (R : reach (pinit max data n) (finish s')).
    { eapply reach_trans; [eapply replay_reach; exact E|apply finish_reach]. }
    destruct R as [sched Hs]. apply run_strict_run in Hs.
    pose proof (pchunk_eq_seq H min max d data Hmin Hmax Hpos n Hn sched) as T. cbv zeta in T.
    rewrite Hs in T. exact (T Hd).
  Qed.
End TraceProofs.
