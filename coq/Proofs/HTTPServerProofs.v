(* Lemmas about Model/HTTPServer.v used by Props/C15.v (authorization gate, read-only
   mode, path confinement, write verification) and Props/C14.v (server side of the
   transport). *)
From Coq Require Import List NArith Arith Bool Lia ZifyN ZifyNat ZifyBool.
From DS Require Import Gen.Constants Base.Bytes Base.Hash Base.Hex Base.GoPath Model.HTTPServer.
Import ListNotations.

Definition chunk_ext (compressed : bool) : bytes :=
  if compressed then CompressedChunkExt_bytes else UncompressedChunkExt_bytes.

(* ---------- facts about the generated extension constants ---------- *)

Lemma forallb_noslash e : forallb (fun c => negb (is_slash c)) e = true -> noslash e.
Proof.
  induction e as [|c e IH]; cbn [forallb]; [intros _ []|].
  intros E. apply andb_prop in E as [E1 E2]. apply noslash_cons. split; [|now apply IH].
  apply is_slash_false. now destruct (is_slash c).
Qed.

Lemma chunk_ext_noslash comp : noslash (chunk_ext comp).
Proof. destruct comp; apply forallb_noslash; vm_compute; reflexivity. Qed.

(* ---------- hex strings are real path elements ---------- *)

Lemma hexchar_not_slash c : is_hexchar c = true -> c <> slash /\ c <> dot.
Proof. unfold is_hexchar, slash, dot. intros E. split; intros ->; vm_compute in E; discriminate. Qed.

Lemma hexchars_noslash s : forallb is_hexchar s = true -> noslash s.
Proof.
  induction s as [|c s IH]; cbn [forallb]; [intros _ []|].
  intros E. apply andb_prop in E as [E1 E2]. apply noslash_cons. split; [|now apply IH].
  now apply hexchar_not_slash.
Qed.

Lemma forallb_firstn {A} (f : A -> bool) n l : forallb f l = true -> forallb f (firstn n l) = true.
Proof.
  revert l. induction n as [|n IH]; intros [|x l]; cbn [firstn forallb]; try reflexivity.
  intros E. apply andb_prop in E as [E1 E2]. rewrite E1. cbn. now apply IH.
Qed.

Lemma hexchars_real s t :
  forallb is_hexchar s = true -> s <> [] -> noslash t -> real_elem (s ++ t).
Proof.
  intros E Ne Nt. destruct s as [|c s]; [congruence|]. cbn [forallb] in E.
  apply andb_prop in E as [E1 E2]. destruct (hexchar_not_slash _ E1) as [Ns Nd].
  cbn [app]. apply real_elem_intro; [exact Ns|exact Nd|].
  apply noslash_app. split; [now apply hexchars_noslash|exact Nt].
Qed.

(* ---------- idFromPath ---------- *)

Lemma chunk_id_from_string_some s i :
  chunk_id_from_string s = Some i -> unhex s = Some i /\ length i = 32.
Proof.
  unfold chunk_id_from_string. destruct (unhex s) as [b|]; [|discriminate].
  destruct (length b =? 32) eqn:E; [|discriminate]. intros [= <-]. split; [reflexivity|].
  now apply Nat.eqb_eq.
Qed.

Definition id_from_path_ext (ext p : bytes) : option bytes :=
  let sID := trim_suffix (base p) ext in
  if length sID <? 4 then None
  else if negb (beq p (join [[slash]; firstn 4 sID; sID ++ ext])) then None
  else chunk_id_from_string sID.

Lemma id_from_path_unfold comp p :
  id_from_path comp p =
  if negb comp && has_suffix p CompressedChunkExt_bytes then None else id_from_path_ext (chunk_ext comp) p.
Proof. destruct comp; reflexivity. Qed.

(* Every accepted path is exactly /<sid[0:4]>/<sid><ext> for a 64-digit hex string sid that
   decodes to the id. *)
Lemma id_from_path_sound comp p i :
  id_from_path comp p = Some i ->
  exists sid,
    p = [slash] ++ firstn 4 sid ++ [slash] ++ sid ++ chunk_ext comp /\
    unhex sid = Some i /\ length i = 32 /\ length sid = 64 /\ hex i = lower sid.
Proof.
  rewrite id_from_path_unfold.
  destruct (negb comp && has_suffix p CompressedChunkExt_bytes); cbv iota; [discriminate|].
  unfold id_from_path_ext. set (sid := trim_suffix (base p) (chunk_ext comp)). cbv zeta.
  destruct (length sid <? 4) eqn:El; cbv iota; [discriminate|].
  destruct (beq p (join [[slash]; firstn 4 sid; sid ++ chunk_ext comp])) eqn:Ep; cbn [negb]; cbv iota; [|discriminate].
  intros E. apply chunk_id_from_string_some in E as [Eu Li].
  apply Nat.ltb_ge in El. apply beq_eq in Ep.
  pose proof (unhex_hexchars _ _ Eu) as Hh.
  pose proof (unhex_length _ _ Eu) as Ls.
  exists sid. split; [|repeat split; try assumption; [lia|now apply hex_unhex]].
  rewrite Ep at 1. rewrite join_rooted_plain.
  - cbn [app]. reflexivity.
  - rewrite <- (app_nil_r (firstn 4 sid)). apply hexchars_real; [now apply forallb_firstn| |intros []].
    destruct sid as [|a [|b [|c [|d sid']]]]; cbn in El; try lia. discriminate.
  - apply hexchars_real; [exact Hh| |apply chunk_ext_noslash]. destruct sid; [cbn in El; lia|discriminate].
Qed.

(* The canonical path of every id is accepted (so the statement above is not vacuous). *)
Lemma last_app_r {A} (a b : list A) d : b <> [] -> last (a ++ b) d = last b d.
Proof.
  intros Nb. induction a as [|x a IH]; [reflexivity|]. cbn [app]. 
  destruct (a ++ b) eqn:E; [destruct a; [cbn in E; congruence|discriminate]|].
  cbn [last]. exact IH.
Qed.

Lemma has_suffix_last s suf d : has_suffix s suf = true -> suf <> [] -> last s d = last suf d.
Proof.
  intros E Ne. apply has_suffix_iff in E as [pre ->]. now apply last_app_r.
Qed.

Lemma lower_hexchars_last s d : forallb is_lower_hexchar s = true -> s <> [] -> is_lower_hexchar (last s d) = true.
Proof.
  intros E Ne. rewrite forallb_forall in E. apply E.
  destruct (exists_last Ne) as [s' [c ->]]. rewrite last_last. apply in_or_app. right. now left.
Qed.

Lemma id_from_path_complete comp i :
  wf_bytes i -> length i = 32 ->
  id_from_path comp ([slash] ++ firstn 4 (hex i) ++ [slash] ++ hex i ++ chunk_ext comp) = Some i.
Proof.
  intros Wf Li.
  pose proof (hex_lower_hexchars _ Wf) as Hl.
  assert (forallb is_hexchar (hex i) = true) as Hh.
  { rewrite forallb_forall in *. intros x Hx. apply is_lower_hexchar_hexchar. now apply Hl. }
  pose proof (hex_length i) as Lh. rewrite Li in Lh.
  assert (hex i <> []) as Hne by (intros E; rewrite E in Lh; cbn in Lh; lia).
  set (p := [slash] ++ firstn 4 (hex i) ++ [slash] ++ hex i ++ chunk_ext comp).
  assert (real_elem (hex i ++ chunk_ext comp)) as Re by (apply hexchars_real; [exact Hh|exact Hne|apply chunk_ext_noslash]).
  assert (base p = hex i ++ chunk_ext comp) as Eb.
  { unfold p. replace ([slash] ++ firstn 4 (hex i) ++ [slash] ++ hex i ++ chunk_ext comp)
      with (([slash] ++ firstn 4 (hex i)) ++ slash :: (hex i ++ chunk_ext comp)) by (rewrite <- app_assoc; reflexivity).
    apply base_app_slash; [now apply real_elem_nonempty|apply Re]. }
  rewrite id_from_path_unfold.
  assert ((negb comp && has_suffix p CompressedChunkExt_bytes) = false) as E1.
  { destruct comp; [reflexivity|]. cbn [negb andb].
    destruct (has_suffix p CompressedChunkExt_bytes) eqn:Es; [|reflexivity]. exfalso.
    apply (has_suffix_last _ _ 0%N) in Es; [|vm_compute; discriminate].
    assert (is_lower_hexchar (last p 0%N) = true) as Hlast.
    { unfold p, chunk_ext. change UncompressedChunkExt_bytes with (@nil byte). rewrite app_nil_r.
      rewrite !app_assoc. rewrite last_app_r by exact Hne. now apply lower_hexchars_last. }
    rewrite Es in Hlast. vm_compute in Hlast. discriminate. }
  rewrite E1. unfold id_from_path_ext. rewrite Eb, trim_suffix_app. rewrite Lh. cbn [Nat.ltb Nat.leb].
  replace (64 <? 4) with false by reflexivity.
  rewrite join_rooted_plain.
  - unfold p. cbn [app]. rewrite beq_refl. cbn [negb].
    unfold chunk_id_from_string. rewrite unhex_hex by exact Wf. rewrite Li. reflexivity.
  - rewrite <- (app_nil_r (firstn 4 (hex i))). apply hexchars_real; [now apply forallb_firstn| |intros []].
    destruct (hex i) as [|a [|b [|c [|d s']]]]; cbn in Lh; try lia. discriminate.
  - exact Re.
Qed.

Section ServerProofs.
  Variable H : bytes -> id.
  Variable zcomp : bytes -> bytes.
  Variable zdecomp : bytes -> option bytes.

  Notation chunk_handle := (chunk_handle H zcomp zdecomp).
  Notation chunk_serve := (chunk_serve H zdecomp).
  Notation chunk_exec := (chunk_exec H zcomp zdecomp).

  (* ---------- authorization ---------- *)

  Lemma auth_denied_true c r : c_auth c <> [] -> r_auth r <> c_auth c -> auth_denied c r = true.
  Proof.
    intros Hc Hr. unfold auth_denied. destruct (c_auth c) eqn:E; [congruence|]. cbn [nonempty andb].
    apply negb_true_iff. apply beq_neq. rewrite <- E in *. exact Hr.
  Qed.

  Lemma chunk_auth_gate c s r :
    c_auth c <> [] -> r_auth r <> c_auth c -> chunk_handle c s r = (resp 401 [], s).
  Proof.
    intros Hc Hr. unfold HTTPServer.chunk_handle, HTTPServer.chunk_serve.
    now rewrite (auth_denied_true _ _ Hc Hr).
  Qed.

  (* ---------- what the chunk handler can do ---------- *)

  Lemma new_chunk_id i b cs skip ch :
    new_chunk_from_storage H zdecomp i b cs skip = Some ch ->
    chunk_id H zdecomp ch = i /\ ch_storage ch = b /\ ch_conv ch = cs.
  Proof.
    unfold new_chunk_from_storage. destruct skip.
    - intros [= <-]. repeat split.
    - destruct (chunk_data zdecomp _) as [d|]; [|discriminate].
      destruct (N.eqb (H d) i); [|discriminate]. intros [= <-]. repeat split.
  Qed.

  Lemma new_chunk_data i b cs skip ch :
    new_chunk_from_storage H zdecomp i b cs skip = Some ch ->
    chunk_data zdecomp ch = if nonempty b then from_storage zdecomp cs b else None.
  Proof.
    unfold new_chunk_from_storage. destruct skip; [intros [= <-]; reflexivity|].
    unfold chunk_data at 1. cbn [ch_data ch_storage ch_conv nonempty].
    destruct (nonempty b) eqn:Enb; [|discriminate].
    destruct (from_storage zdecomp cs b) as [d0|] eqn:Ef; [|discriminate].
    destruct (N.eqb (H d0) i); [|discriminate]. intros [= <-].
    unfold chunk_data. cbn [ch_data ch_storage ch_conv].
    destruct (nonempty d0) eqn:End; [reflexivity|]. now rewrite Enb, Ef.
  Qed.

  Lemma new_chunk_verified i b cs ch :
    new_chunk_from_storage H zdecomp i b cs false = Some ch ->
    exists d, (if nonempty b then from_storage zdecomp cs b else None) = Some d /\ H d = i.
  Proof.
    unfold new_chunk_from_storage, chunk_data. cbn [ch_data ch_storage ch_conv nonempty].
    destruct (if nonempty b then from_storage zdecomp cs b else None) as [d|]; [|discriminate].
    destruct (N.eqb (H d) i) eqn:E; [|discriminate]. intros _. apply N.eqb_eq in E. now exists d.
  Qed.

  Lemma lookup_update_other {B} i j (v : B) m : j <> i -> lookup j (update i v m) = lookup j m.
  Proof.
    intros N. unfold update. cbn [lookup]. replace (N.eqb j i) with false by (symmetry; now apply N.eqb_neq).
    induction m as [|[k w] m IH]; [reflexivity|]. cbn [filter fst lookup].
    destruct (N.eqb i k) eqn:E; cbn [negb].
    - apply N.eqb_eq in E. subst k. replace (N.eqb j i) with false by (symmetry; now apply N.eqb_neq). exact IH.
    - cbn [lookup]. destruct (N.eqb j k); [reflexivity|exact IH].
  Qed.

  Lemma lookup_update_same {B} i (v : B) m : lookup i (update i v m) = Some v.
  Proof. unfold update. cbn [lookup]. now rewrite N.eqb_refl. Qed.

  (* Every action of the chunk handler names the id parsed from the path. *)
  Lemma chunk_serve_cases c r :
    (chunk_serve c r = Deny401 /\ auth_denied c r = true) \/
    (auth_denied c r = false /\
     ((chunk_serve c r = Bad400) \/
      exists ib, id_from_path (c_compressed c) (r_path r) = Some ib /\
        let i := id_of_bytes ib in
        (chunk_serve c r = NotAllowed405 /\ r_method r = OTHER) \/
        (chunk_serve c r = DoGet i /\ r_method r = GET) \/
        (chunk_serve c r = DoHead i /\ r_method r = HEAD) \/
        (chunk_serve c r = DoPut i (r_body r) /\ r_method r = PUT /\ c_writable c = true /\ c_store_writable c = true /\
         exists ch, new_chunk_from_storage H zdecomp i (r_body r) (handler_conv c) (c_skip_verify_write c) = Some ch))).
  Proof.
    unfold HTTPServer.chunk_serve. destruct (auth_denied c r); [left; split; reflexivity|]. right. split; [reflexivity|].
    destruct (id_from_path (c_compressed c) (r_path r)) as [ib|]; [|left; reflexivity].
    destruct (r_method r) eqn:Em.
    - right. exists ib. split; [reflexivity|]. right. left. split; reflexivity.
    - right. exists ib. split; [reflexivity|]. right. right. left. split; reflexivity.
    - unfold handler_put_pre. destruct (c_writable c); cbn [negb]; [|left; reflexivity].
      destruct (c_store_writable c); cbn [negb]; [|left; reflexivity].
      destruct (new_chunk_from_storage H zdecomp (id_of_bytes ib) (r_body r) (handler_conv c) (c_skip_verify_write c)) as [ch|] eqn:En;
        [|left; reflexivity].
      right. exists ib. split; [reflexivity|]. right. right. right. repeat split; try reflexivity. now exists ch.
    - right. exists ib. split; [reflexivity|]. left. split; reflexivity.
  Qed.

  Lemma chunk_readonly c s r : c_writable c = false -> snd (chunk_handle c s r) = s.
  Proof.
    intros Hw. unfold HTTPServer.chunk_handle.
    destruct (chunk_serve_cases c r) as [[-> _]|[_ [->|[ib [_ [[-> _]|[[-> _]|[[-> _]|[_ [_ [Hw' _]]]]]]]]]]];
      try reflexivity. congruence.
  Qed.

  (* A change of the store: a PUT on a canonical path, the chunk decodes, and exactly the
     file of that id is written. *)
  Lemma chunk_write_inv c s r rs s' :
    chunk_handle c s r = (rs, s') -> s' <> s ->
    exists ib d,
      id_from_path (c_compressed c) (r_path r) = Some ib /\ r_method r = PUT /\
      c_writable c = true /\ auth_denied c r = false /\
      from_storage zdecomp (handler_conv c) (r_body r) = Some d /\ r_body r <> [] /\
      (c_skip_verify_write c = false -> H d = id_of_bytes ib) /\
      s' = {| ls_files := update (id_of_bytes ib) (to_storage zcomp (opt_converters (ls_uncompressed s)) d) (ls_files s);
              ls_uncompressed := ls_uncompressed s; ls_skip_verify := ls_skip_verify s |}.
  Proof.
    unfold HTTPServer.chunk_handle. intros E Hne.
    destruct (chunk_serve_cases c r) as [[Ea _]|[Hauth [Ea|[ib [Eid [[Ea _]|[[Ea _]|[[Ea _]|[Ea [Em [Hw [_ [ch Ech]]]]]]]]]]]]];
      rewrite Ea in E; cbn [HTTPServer.chunk_exec] in E; try (injection E as _ <-; congruence).
    rewrite Ech in E. unfold local_store in E.
    destruct (new_chunk_id _ _ _ _ _ Ech) as [Eid' [Est Ecv]].
    pose proof (new_chunk_data _ _ _ _ _ Ech) as Edata.
    destruct (chunk_data zdecomp ch) as [d|] eqn:Ed; [|injection E as _ <-; congruence].
    injection E as _ <-. exists ib, d. rewrite Eid'.
    destruct (nonempty (r_body r)) eqn:Enb; [|discriminate].
    repeat split; try assumption; try (symmetry; exact Edata).
    - intros Eb. rewrite Eb in Enb. discriminate.
    - intros Hskip. rewrite Hskip in Ech. apply new_chunk_verified in Ech as [d' [Ed' Hh]].
      rewrite Enb in Ed'. rewrite <- Edata in Ed'. injection Ed' as <-. exact Hh.
  Qed.

  (* The answer depends on the store only through the file of the requested id. *)
  Lemma chunk_read_local c s1 s2 r :
    ls_uncompressed s1 = ls_uncompressed s2 -> ls_skip_verify s1 = ls_skip_verify s2 ->
    (forall ib, id_from_path (c_compressed c) (r_path r) = Some ib ->
                lookup (id_of_bytes ib) (ls_files s1) = lookup (id_of_bytes ib) (ls_files s2)) ->
    fst (chunk_handle c s1 r) = fst (chunk_handle c s2 r).
  Proof.
    intros Eu Ev El. unfold HTTPServer.chunk_handle.
    destruct (chunk_serve_cases c r) as [[-> _]|[_ [->|[ib [Eid [[-> _]|[[-> _]|[[-> _]|[-> [_ [_ [_ [ch Ech]]]]]]]]]]]]];
      try reflexivity; cbn [HTTPServer.chunk_exec fst]; specialize (El ib Eid).
    - unfold local_get. rewrite El, Eu, Ev. reflexivity.
    - unfold local_has. rewrite El. reflexivity.
    - rewrite Ech. unfold local_store. destruct (chunk_data zdecomp ch); reflexivity.
  Qed.

  (* ---------- index handler ---------- *)
  Variable index_t : Type.
  Variable idx_decode : bytes -> option index_t.
  Variable idx_encode : index_t -> bytes.
  Notation index_handle := (index_handle index_t idx_decode idx_encode).
  Notation index_serve := (index_serve index_t idx_decode).

  Lemma index_auth_gate c d r :
    c_auth c <> [] -> r_auth r <> c_auth c -> index_handle c d r = (resp 401 [], d).
  Proof.
    intros Hc Hr. unfold HTTPServer.index_handle, HTTPServer.index_serve.
    now rewrite (auth_denied_true _ _ Hc Hr).
  Qed.

  Lemma index_readonly c d r : c_writable c = false -> snd (index_handle c d r) = d.
  Proof.
    intros Hw. unfold HTTPServer.index_handle, HTTPServer.index_serve.
    destruct (auth_denied c r); [reflexivity|]. rewrite Hw. cbn [negb].
    destruct (r_method r); cbn [index_exec]; try reflexivity.
    destruct (fs_open d (base (r_path r))); try reflexivity. destruct (idx_decode content); reflexivity.
  Qed.

  Lemma special_name_false n :
    special_name n = false -> n <> [dot] /\ n <> [dot; dot] /\ n <> [slash].
  Proof.
    unfold special_name. intros E. apply orb_false_iff in E as [E E3]. apply orb_false_iff in E as [E1 E2].
    repeat split; now apply beq_neq.
  Qed.

  (* A change of the served directory: an authorized PUT on a writable server, and exactly the
     file named path.Base(URL path) -- a plain name -- is created or replaced by the uploaded index. *)
  Lemma index_write_inv c d r rs d' :
    index_handle c d r = (rs, d') -> d' <> d ->
    let n := base (r_path r) in
    exists ix,
      r_method r = PUT /\ c_writable c = true /\ auth_denied c r = false /\
      idx_decode (r_body r) = Some ix /\
      noslash n /\ n <> [dot] /\ n <> [dot; dot] /\ ~ In 0%N n /\
      d' = dupdate n (DFile (idx_encode ix)) d.
  Proof.
    unfold HTTPServer.index_handle, HTTPServer.index_serve. intros E Hne. set (n := base (r_path r)) in *.
    destruct (auth_denied c r) eqn:Ea; [injection E as _ <-; congruence|].
    destruct (r_method r) eqn:Em; cbn [index_exec] in E.
    - destruct (fs_open d n); try (injection E as _ <-; congruence).
      destruct (idx_decode content); injection E as _ <-; congruence.
    - injection E as _ <-; congruence.
    - destruct (c_writable c) eqn:Ew; cbn [negb] in E; [|injection E as _ <-; congruence].
      destruct (c_store_writable c); cbn [negb] in E; [|injection E as _ <-; congruence].
      destruct (idx_decode (r_body r)) as [ix|] eqn:Ed; [|injection E as _ <-; congruence].
      cbn [index_exec] in E. rewrite Ed in E. unfold fs_create in E.
      destruct (special_name n) eqn:Es; [injection E as _ <-; congruence|].
      destruct (bad_name n) eqn:Eb; [injection E as _ <-; congruence|].
      assert (d' = dupdate n (DFile (idx_encode ix)) d) as Ed'.
      { destruct (dlookup n d) as [[b| |]|]; injection E as _ <-; congruence. }
      exists ix. destruct (special_name_false _ Es) as [N1 [N2 N3]].
      repeat split; try assumption; try reflexivity.
      + destruct (base_no_slash (r_path r)) as [Hb|Hb]; [contradiction|exact Hb].
      + unfold bad_name in Eb. apply orb_false_iff in Eb as [Eb _]. intros Hin.
        assert (existsb (fun c0 => N.eqb c0 0) n = true) as Hex by (apply existsb_exists; exists 0%N; split; [exact Hin|reflexivity]).
        congruence.
    - injection E as _ <-. congruence.
  Qed.

  (* The answer depends on the directory only through the entry named path.Base(URL path). *)
  Lemma index_read_local c d1 d2 r :
    dlookup (base (r_path r)) d1 = dlookup (base (r_path r)) d2 ->
    fst (index_handle c d1 r) = fst (index_handle c d2 r).
  Proof.
    intros El. unfold HTTPServer.index_handle, HTTPServer.index_serve.
    destruct (auth_denied c r); [reflexivity|].
    destruct (r_method r); cbn [index_exec fst]; try reflexivity.
    - unfold fs_open. rewrite El. destruct (special_name _); [reflexivity|]. destruct (bad_name _); [reflexivity|].
      destruct (dlookup (base (r_path r)) d2) as [[b| |]|]; try reflexivity. destruct (idx_decode b); reflexivity.
    - unfold fs_open. rewrite El. destruct (special_name _); [reflexivity|]. destruct (bad_name _); [reflexivity|].
      destruct (dlookup (base (r_path r)) d2) as [[b| |]|]; reflexivity.
    - destruct (c_writable c); cbn [negb]; [|reflexivity]. destruct (c_store_writable c); cbn [negb]; [|reflexivity].
      destruct (idx_decode (r_body r)) as [ix|] eqn:Ed; [|reflexivity]. cbn [index_exec]. rewrite Ed.
      unfold fs_create. destruct (special_name _); [reflexivity|]. destruct (bad_name _); [reflexivity|].
      rewrite El. destruct (dlookup (base (r_path r)) d2) as [[b| |]|]; reflexivity.
  Qed.

  (* File content is only ever taken from an entry of the served directory with a plain name. *)
  Lemma fs_open_file d n b :
    fs_open d n = OFile b -> dlookup n d = Some (DFile b) /\ n <> [dot] /\ n <> [dot; dot] /\ n <> [slash].
  Proof.
    unfold fs_open. destruct (special_name n) eqn:Es; [discriminate|]. destruct (bad_name n); [discriminate|].
    destruct (dlookup n d) as [[c| |]|]; try discriminate. intros [= ->]. split; [reflexivity|].
    now apply special_name_false.
  Qed.
End ServerProofs.

(* ---------- combined statements for Props/C15.v ---------- *)

Lemma auth_gate_both H zcomp zdecomp index_t idx_decode idx_encode c r :
  c_auth c <> [] -> r_auth r <> c_auth c ->
  (forall s, chunk_handle H zcomp zdecomp c s r = (resp 401 [], s)) /\
  (forall d, index_handle index_t idx_decode idx_encode c d r = (resp 401 [], d)).
Proof. intros Hc Hr. split; intros; [now apply chunk_auth_gate|now apply index_auth_gate]. Qed.

Lemma readonly_both H zcomp zdecomp index_t idx_decode idx_encode c r :
  c_writable c = false ->
  (forall s, snd (chunk_handle H zcomp zdecomp c s r) = s) /\
  (forall d, snd (index_handle index_t idx_decode idx_encode c d r) = d).
Proof. intros Hw. split; intros; [now apply chunk_readonly|now apply index_readonly]. Qed.

Lemma put_verified H zcomp zdecomp c s r rs s' :
  c_skip_verify_write c = false ->
  chunk_handle H zcomp zdecomp c s r = (rs, s') -> s' <> s ->
  exists ib d,
    id_from_path (c_compressed c) (r_path r) = Some ib /\
    from_storage zdecomp (handler_conv c) (r_body r) = Some d /\
    H d = id_of_bytes ib /\
    lookup (id_of_bytes ib) (ls_files s') = Some (to_storage zcomp (opt_converters (ls_uncompressed s)) d) /\
    forall j, j <> id_of_bytes ib -> lookup j (ls_files s') = lookup j (ls_files s).
Proof.
  intros Hv E Hne. destruct (chunk_write_inv _ _ _ _ _ _ _ _ E Hne) as [ib [d [Eid [_ [_ [_ [Ed [_ [Hh ->]]]]]]]]].
  exists ib, d. repeat split; try assumption; [now apply Hh| |].
  - cbn [ls_files]. apply lookup_update_same.
  - intros j Hj. cbn [ls_files]. now apply lookup_update_other.
Qed.

Lemma chunk_write_confined H zcomp zdecomp c s r rs s' :
  chunk_handle H zcomp zdecomp c s r = (rs, s') -> s' <> s ->
  exists ib d,
    id_from_path (c_compressed c) (r_path r) = Some ib /\ r_method r = PUT /\
    c_writable c = true /\ auth_denied c r = false /\
    from_storage zdecomp (handler_conv c) (r_body r) = Some d /\
    lookup (id_of_bytes ib) (ls_files s') = Some (to_storage zcomp (opt_converters (ls_uncompressed s)) d) /\
    forall j, j <> id_of_bytes ib -> lookup j (ls_files s') = lookup j (ls_files s).
Proof.
  intros E Hne. destruct (chunk_write_inv _ _ _ _ _ _ _ _ E Hne) as [ib [d [Eid [Em [Hw [Ha [Ed [_ [_ ->]]]]]]]]].
  exists ib, d. repeat split; try assumption.
  - cbn [ls_files]. apply lookup_update_same.
  - intros j Hj. cbn [ls_files]. now apply lookup_update_other.
Qed.

Lemma dlookup_dupdate_other n m e d : m <> n -> dlookup m (dupdate n e d) = dlookup m d.
Proof.
  intros N. unfold dupdate. cbn [dlookup]. replace (beq m n) with false by (symmetry; now apply beq_neq).
  induction d as [|[k w] d IH]; [reflexivity|]. cbn [filter fst dlookup].
  destruct (beq n k) eqn:E; cbn [negb].
  - apply beq_eq in E. subst k. replace (beq m n) with false by (symmetry; now apply beq_neq). exact IH.
  - cbn [dlookup]. destruct (beq m k); [reflexivity|exact IH].
Qed.

Lemma index_write_confined index_t idx_decode idx_encode c d r rs d' :
  index_handle index_t idx_decode idx_encode c d r = (rs, d') -> d' <> d ->
  let n := base (r_path r) in
  r_method r = PUT /\ c_writable c = true /\ auth_denied c r = false /\
  noslash n /\ n <> [dot] /\ n <> [dot; dot] /\ ~ In 0%N n /\
  (exists ix, idx_decode (r_body r) = Some ix /\ dlookup n d' = Some (DFile (idx_encode ix))) /\
  forall m, m <> n -> dlookup m d' = dlookup m d.
Proof.
  intros E Hne n. destruct (index_write_inv _ _ _ _ _ _ _ _ E Hne) as [ix [Em [Hw [Ha [Ed [N1 [N2 [N3 [N4 ->]]]]]]]]].
  fold n. repeat split; try assumption.
  - exists ix. split; [exact Ed|]. unfold dupdate. cbn [dlookup]. now rewrite beq_refl.
  - intros m Hm. now apply dlookup_dupdate_other.
Qed.

(* ---------- the same guarantees over the command-line options (Model/ServerCLI.v) ---------- *)
From DS Require Import Model.ServerCLI.

Lemma cli_auth_nonempty o : o_auth_flag o <> [] \/ o_auth_env o <> [] -> cli_auth o <> [].
Proof.
  unfold cli_auth. destruct (o_auth_flag o) eqn:E; cbn [nonempty]; [|intros _; discriminate].
  intros [Hf|He]; [congruence|exact He].
Qed.

(* an expected value given by the flag OR only through the environment is enforced by both servers *)
Lemma cli_auth_gate H zcomp zdecomp index_t idx_decode idx_encode o r :
  o_auth_flag o <> [] \/ o_auth_env o <> [] -> r_auth r <> cli_auth o ->
  (forall files, cli_chunk_handle H zcomp zdecomp o files r = (resp 401 [], cli_store o files)) /\
  (forall d, cli_index_handle index_t idx_decode idx_encode o d r = (resp 401 [], d)).
Proof.
  intros Hne Hr. pose proof (cli_auth_nonempty o Hne) as Ha.
  split; intros; [apply chunk_auth_gate; assumption|apply index_auth_gate; assumption].
Qed.

(* the flag wins over the environment; the environment counts when the flag is absent *)
Lemma cli_auth_flag o : o_auth_flag o <> [] -> cli_auth o = o_auth_flag o.
Proof. unfold cli_auth. destruct (o_auth_flag o); [congruence|reflexivity]. Qed.
Lemma cli_auth_env o : o_auth_flag o = [] -> cli_auth o = o_auth_env o.
Proof. unfold cli_auth. now intros ->. Qed.

Lemma cli_readonly H zcomp zdecomp index_t idx_decode idx_encode o r :
  o_writable o = false ->
  (forall files, snd (cli_chunk_handle H zcomp zdecomp o files r) = cli_store o files) /\
  (forall d, snd (cli_index_handle index_t idx_decode idx_encode o d r) = d).
Proof. intros Hw. split; intros; [now apply chunk_readonly|now apply index_readonly]. Qed.

(* --skip-verify-write=false: whatever --skip-verify-read says, a stored chunk hashes to its id *)
Lemma cli_put_verified H zcomp zdecomp o files r rs s' :
  o_skip_verify_write o = false ->
  cli_chunk_handle H zcomp zdecomp o files r = (rs, s') -> s' <> cli_store o files ->
  exists ib d,
    id_from_path (negb (o_uncompressed o)) (r_path r) = Some ib /\
    from_storage zdecomp (opt_converters (o_uncompressed o)) (r_body r) = Some d /\
    H d = id_of_bytes ib /\
    lookup (id_of_bytes ib) (ls_files s') = Some (zcomp d) /\
    forall j, j <> id_of_bytes ib -> lookup j (ls_files s') = lookup j files.
Proof.
  intros Hv E Hne. unfold cli_chunk_handle in E.
  destruct (put_verified H zcomp zdecomp (cli_chunk_cfg o) (cli_store o files) r rs s' Hv E Hne) as [ib [d [E1 [E2 [E3 [E4 E5]]]]]].
  exists ib, d. unfold handler_conv, cli_chunk_cfg, cli_store in *.
  cbn [c_compressed ls_files ls_uncompressed opt_converters to_storage layer_to] in *.
  rewrite negb_involutive in E2. repeat split; assumption.
Qed.

(* ---------- a PUT answered 200 stored exactly the body, whatever its length ---------- *)

Lemma put_200_stores H zcomp zdecomp c s r rs s' :
  r_method r = PUT -> chunk_handle H zcomp zdecomp c s r = (rs, s') -> status rs = 200%N ->
  exists ib d,
    id_from_path (c_compressed c) (r_path r) = Some ib /\
    from_storage zdecomp (handler_conv c) (r_body r) = Some d /\
    lookup (id_of_bytes ib) (ls_files s') = Some (to_storage zcomp (opt_converters (ls_uncompressed s)) d).
Proof.
  intros Em E Hs. unfold chunk_handle in E.
  destruct (chunk_serve_cases H zdecomp c r) as [[Ea _]|[_ [Ea|[ib [Eid [[Ea Em']|[[Ea Em']|[[Ea Em']|[Ea [_ [_ [_ [ch Ech]]]]]]]]]]]]];
    try congruence; rewrite Ea in E; cbn [chunk_exec] in E; try (injection E as <- _; discriminate Hs).
  rewrite Ech in E. unfold local_store in E.
  destruct (new_chunk_id H zdecomp _ _ _ _ _ Ech) as [Eid' _].
  pose proof (new_chunk_data H zdecomp _ _ _ _ _ Ech) as Edata.
  destruct (chunk_data zdecomp ch) as [d|] eqn:Ed; [|injection E as <- _; discriminate Hs].
  injection E as _ <-. exists ib, d. split; [exact Eid|]. rewrite Eid'. split.
  - destruct (nonempty (r_body r)); [now symmetry|discriminate].
  - cbn [ls_files]. apply lookup_update_same.
Qed.

(* uncompressed server in front of an uncompressed store: the file is the body, byte for byte *)
Lemma put_200_stores_body H zcomp zdecomp c s r rs s' :
  r_method r = PUT -> c_compressed c = false -> ls_uncompressed s = true ->
  chunk_handle H zcomp zdecomp c s r = (rs, s') -> status rs = 200%N ->
  exists ib, id_from_path false (r_path r) = Some ib /\
             lookup (id_of_bytes ib) (ls_files s') = Some (r_body r).
Proof.
  intros Em Hc Hu E Hs. destruct (put_200_stores H zcomp zdecomp c s r rs s' Em E Hs) as [ib [d [E1 [E2 E3]]]].
  exists ib. rewrite Hc in E1. split; [exact E1|].
  unfold handler_conv in E2. rewrite Hc in E2. cbn in E2. injection E2 as <-.
  rewrite Hu in E3. exact E3.
Qed.

(* ---------- histories: the servers are stateless ---------- *)

(* on a read-only server every request of a history is answered exactly as if it were the only
   one ever sent, and the store is never touched: nothing an earlier request did -- an authorized
   GET of the same object, say -- can change the answer to a later one *)
Lemma chunk_history_readonly H zcomp zdecomp c s rs :
  c_writable c = false ->
  chunk_history H zcomp zdecomp c s rs = (map (fun r => fst (chunk_handle H zcomp zdecomp c s r)) rs, s).
Proof.
  intros Hw. induction rs as [|r rest IH]; [reflexivity|]. cbn [chunk_history map].
  pose proof (chunk_readonly H zcomp zdecomp c s r Hw) as Hs.
  destruct (chunk_handle H zcomp zdecomp c s r) as [a s1]. cbn [snd fst] in *. subst s1. now rewrite IH.
Qed.

Lemma index_history_readonly index_t idx_decode idx_encode c d rs :
  c_writable c = false ->
  index_history index_t idx_decode idx_encode c d rs =
  (map (fun r => fst (index_handle index_t idx_decode idx_encode c d r)) rs, d).
Proof.
  intros Hw. induction rs as [|r rest IH]; [reflexivity|]. cbn [index_history map].
  pose proof (index_readonly index_t idx_decode idx_encode c d r Hw) as Hs.
  destruct (index_handle index_t idx_decode idx_encode c d r) as [a d1]. cbn [snd fst] in *. subst d1. now rewrite IH.
Qed.

(* in ANY history (writable or not), every request that does not carry the configured value is
   answered 401, whatever was requested before it, and by whom *)
Lemma chunk_history_auth H zcomp zdecomp c : forall rs s,
  c_auth c <> [] ->
  Forall2 (fun r a => r_auth r <> c_auth c -> a = resp 401 [])
          rs (fst (chunk_history H zcomp zdecomp c s rs)).
Proof.
  induction rs as [|r rest IH]; intros s Hc; [constructor|]. cbn [chunk_history].
  destruct (chunk_handle H zcomp zdecomp c s r) as [a s1] eqn:E.
  specialize (IH s1 Hc). destruct (chunk_history H zcomp zdecomp c s1 rest) as [l s2]. cbn [fst] in *.
  constructor; [|exact IH]. intros Hr. rewrite (chunk_auth_gate H zcomp zdecomp c s r Hc Hr) in E. congruence.
Qed.

Lemma index_history_auth index_t idx_decode idx_encode c : forall rs d,
  c_auth c <> [] ->
  Forall2 (fun r a => r_auth r <> c_auth c -> a = resp 401 [])
          rs (fst (index_history index_t idx_decode idx_encode c d rs)).
Proof.
  induction rs as [|r rest IH]; intros d Hc; [constructor|]. cbn [index_history].
  destruct (index_handle index_t idx_decode idx_encode c d r) as [a d1] eqn:E.
  specialize (IH d1 Hc). destruct (index_history index_t idx_decode idx_encode c d1 rest) as [l d2]. cbn [fst] in *.
  constructor; [|exact IH]. intros Hr. rewrite (index_auth_gate index_t idx_decode idx_encode c d r Hc Hr) in E. congruence.
Qed.
