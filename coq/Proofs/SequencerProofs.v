(* The plan made by the sequencer tiles the index, its sources carry the IDs of the rows they
   replace, source-less entries are single rows, and the validate/skip loop ends. *)
From Coq Require Import List NArith Arith Bool Lia.
From DS Require Import Base.Bytes Base.Hash Model.Sequencer.
Import ListNotations.

Definition ids (l : list ichunk) : list id := map c_id l.

(* ---------- maxMatchFrom ---------- *)

Lemma match_len_le limit : forall rows sd sp,
  match_len limit sp rows sd <= length rows /\ match_len limit sp rows sd <= length sd.
Proof.
  induction rows as [|c cr IH]; intros sd sp; [cbn; destruct sd; cbn; lia|].
  destruct sd as [|s sr]; [cbn; lia|]. cbn [match_len length].
  destruct (negb (limit =? 0) && (sp =? limit)); [lia|].
  destruct (N.eqb (c_id c) (c_id s)); [|lia].
  destruct (IH sr (S sp)). lia.
Qed.

Lemma match_len_ids limit : forall rows sd sp,
  ids (firstn (match_len limit sp rows sd) sd) = ids (firstn (match_len limit sp rows sd) rows).
Proof.
  induction rows as [|c cr IH]; intros sd sp; [destruct sd; reflexivity|].
  destruct sd as [|s sr]; [reflexivity|]. cbn [match_len].
  destruct (negb (limit =? 0) && (sp =? limit)); [reflexivity|].
  destruct (N.eqb (c_id c) (c_id s)) eqn:E; [|reflexivity].
  apply N.eqb_eq in E. cbn [firstn ids map]. f_equal; [symmetry; exact E|]. apply IH.
Qed.

(* what every answer of a file seed satisfies *)
Definition fmatch (rows sidx m : list ichunk) : Prop :=
  length m <= length rows /\ ids m = ids (firstn (length m) rows) /\
  exists p, m = firstn (length m) (skipn p sidx).

Lemma max_match_from_ok rows sidx p limit : fmatch rows sidx (max_match_from rows sidx p limit).
Proof.
  unfold max_match_from, fmatch.
  set (n := match_len limit 0 rows (skipn p sidx)).
  destruct (match_len_le limit rows (skipn p sidx) 0) as [Hr Hs]. fold n in Hr, Hs.
  assert (Hl : length (firstn n (skipn p sidx)) = n) by (rewrite firstn_length; lia).
  rewrite Hl. repeat split; [exact Hr|apply match_len_ids|exists p; reflexivity].
Qed.

Lemma fs_best_ok limit rows sidx : forall ps best,
  fmatch rows sidx best -> fmatch rows sidx (fs_best limit rows sidx ps best).
Proof.
  induction ps as [|p r IH]; intros best Hb; [exact Hb|]. cbn [fs_best].
  set (m := max_match_from rows sidx p limit).
  assert (Hb' : fmatch rows sidx (if length best <? length m then m else best)).
  { destruct (length best <? length m); [apply max_match_from_ok|exact Hb]. }
  destruct (negb (limit =? 0) && (limit =? length (if length best <? length m then m else best)));
    [exact Hb'|apply IH; exact Hb'].
Qed.

Lemma fmatch_nil rows sidx : fmatch rows sidx [].
Proof. unfold fmatch; cbn. split; [lia|]. split; [reflexivity|]. exists 0; reflexivity. Qed.

Lemma fs_longest_ok cr inv sidx rows n m :
  fs_longest cr inv sidx rows = (n, Some m) -> n = length m /\ inv = false /\ fmatch rows sidx m.
Proof.
  unfold fs_longest. destruct rows as [|c cr']; [discriminate|]. destruct sidx as [|s sr]; [discriminate|].
  destruct inv; [discriminate|].
  destruct (positions_from 0 (c_id c) (s :: sr)) as [|p ps]; [discriminate|].
  intros E. injection E as <- <-. split; [reflexivity|]. split; [reflexivity|].
  exact (fs_best_ok (limit_of cr) (c :: cr') (s :: sr) (p :: ps) [] (fmatch_nil _ _)).
Qed.

Lemma fs_longest_none cr inv sidx rows n : fs_longest cr inv sidx rows = (n, None) -> n = 0.
Proof.
  unfold fs_longest. destruct rows; [congruence|]. destruct sidx; [congruence|]. destruct inv; [congruence|].
  destruct (positions_from 0 (c_id i) (i0 :: sidx)); congruence.
Qed.

(* ---------- nullChunkSeed ---------- *)

Lemma ns_count_ok limit nid : forall rows n,
  n <= ns_count limit n nid rows /\ ns_count limit n nid rows <= n + length rows /\
  forall i, i < ns_count limit n nid rows - n -> c_id (nth i rows (Build_ichunk 0%N 0%N 0%N)) = nid.
Proof.
  induction rows as [|c r IH]; intros n; cbn [ns_count length].
  - split; [lia|split; [lia|intros i Hi; lia]].
  - destruct (negb (limit =? 0) && (limit =? n)); [split; [lia|split; [lia|intros i Hi; lia]]|].
    destruct (N.eqb (c_id c) nid) eqn:E; [|split; [lia|split; [lia|intros i Hi; lia]]].
    apply N.eqb_eq in E. destruct (IH (S n)) as (A & B & C). split; [lia|split; [lia|]].
    intros i Hi. destruct i as [|i]; [exact E|]. cbn [nth]. apply C. lia.
Qed.

(* ---------- Next ---------- *)

(* the rows [first .. last] of the index *)
Definition rows_of (idx : list ichunk) (first last : nat) : list ichunk :=
  firstn (last + 1 - first) (skipn first idx).

Definition src_ok (seeds : list seedm) (rows : list ichunk) (adv : nat) (src : option source) : Prop :=
  match src with
  | None => adv = 1
  | Some (FromFile k m) =>
      exists cr sidx, nth_error seeds k = Some (SFile cr false sidx) /\
        length m = adv /\ ids m = ids (firstn adv rows) /\ exists p, m = firstn adv (skipn p sidx)
  | Some (FromNull k from to) =>
      exists cr nid f, nth_error seeds k = Some (SNull cr nid) /\ hd_error rows = Some f /\
        (forall i, i < adv -> c_id (nth i rows f) = nid) /\
        from = c_start f /\ to = w64 (c_start (nth (adv - 1) rows f) + c_size (nth (adv - 1) rows f))
  end.

Lemma longest_ok all k s rows n src sz : rows <> [] ->
  nth_error all k = Some s -> longest k s rows = (n, src, sz) -> 0 < n ->
  n <= length rows /\ src_ok all rows n src /\ src <> None.
Proof.
  intros Hne Hk E Hn. destruct s as [cr inv sidx|cr nid]; cbn [longest] in E.
  - destruct (fs_longest cr inv sidx rows) as [n' [m|]] eqn:El; injection E as <- <- <-.
    + destruct (fs_longest_ok _ _ _ _ _ _ El) as (-> & -> & Hl & Hi & p & Hp).
      repeat split; [exact Hl| |discriminate].
      cbn. exists cr, sidx. repeat split; [exact Hk|exact Hi|exists p; exact Hp].
    + apply fs_longest_none in El. lia.
  - destruct rows as [|f r]; [congruence|].
    set (c := ns_count (nlimit_of cr) 0 nid (f :: r)) in *.
    destruct (c =? 0) eqn:Ec; injection E as <- <- <-; [lia|].
    destruct (ns_count_ok (nlimit_of cr) nid (f :: r) 0) as (_ & B & C). fold c in B, C.
    clearbody c. split; [cbn [length] in *; lia|]. split; [|discriminate].
    cbn [src_ok]. exists cr, nid, f. split; [exact Hk|]. split; [reflexivity|]. split; [|split; reflexivity].
    intros i Hi. rewrite nth_indep with (d' := Build_ichunk 0%N 0%N 0%N) by (cbn [length] in *; lia). apply C. lia.
Qed.

Lemma next_fold_ok all rows : rows <> [] -> forall seeds k best adv mx,
  (forall j s, nth_error seeds j = Some s -> nth_error all (k + j) = Some s) ->
  1 <= adv <= length rows -> src_ok all rows adv best ->
  let '(src, a) := next_fold k seeds rows best adv mx in
  1 <= a <= length rows /\ src_ok all rows a src.
Proof.
  intros Hne. induction seeds as [|s r IH]; intros k best adv mx Hall Ha Hb; cbn [next_fold]; [split; assumption|].
  destruct (longest k s rows) as [[n src] sz] eqn:El.
  assert (Hall' : forall j s0, nth_error r j = Some s0 -> nth_error all (S k + j) = Some s0).
  { intros j s0 Hj. replace (S k + j) with (k + S j) by lia. apply Hall. exact Hj. }
  destruct ((0 <? n) && (mx <? sz)%N) eqn:Ec.
  - apply andb_true_iff in Ec. destruct Ec as [Hn _]. apply Nat.ltb_lt in Hn.
    assert (Hk : nth_error all k = Some s) by (specialize (Hall 0 s eq_refl); rewrite Nat.add_0_r in Hall; exact Hall).
    destruct (longest_ok all k s rows n src sz Hne Hk El Hn) as (Hl & Hs & _).
    apply IH; [exact Hall'|lia|exact Hs].
  - apply IH; [exact Hall'|exact Ha|exact Hb].
Qed.

Lemma next_ok seeds rows : rows <> [] ->
  let '(src, a) := next seeds rows in 1 <= a <= length rows /\ src_ok seeds rows a src.
Proof.
  intros Hne. unfold next. apply next_fold_ok; [exact Hne| | |reflexivity].
  - intros j s Hj. exact Hj.
  - destruct rows; [congruence|cbn; lia].
Qed.

(* ---------- Plan ---------- *)

(* consecutive non-empty segments from k up to exactly n *)
Fixpoint tiles (n k : nat) (pl : list (nat * nat)) : Prop :=
  match pl with
  | [] => k = n
  | (f, l) :: rest => f = k /\ f <= l /\ tiles n (S l) rest
  end.

Definition cand_ok (seeds : list seedm) (idx : list ichunk) (c : cand) : Prop :=
  cd_first c <= cd_last c /\ cd_last c < length idx /\
  src_ok seeds (skipn (cd_first c) idx) (cd_last c + 1 - cd_first c) (cd_src c).

Lemma plan_from_ok seeds idx : forall fuel rows cur,
  rows <> [] -> length rows <= fuel -> rows = skipn cur idx ->
  tiles (length idx) cur (segs (plan_from fuel seeds rows cur)) /\
  Forall (cand_ok seeds idx) (plan_from fuel seeds rows cur).
Proof.
  induction fuel as [|f IH]; intros rows cur Hne Hf Hr; [destruct rows; [congruence|cbn in Hf; lia]|].
  cbn [plan_from]. pose proof (next_ok seeds rows Hne) as Hn.
  destruct (next seeds rows) as [src adv]. destruct Hn as [Ha Hs].
  assert (Hlen : length rows = length idx - cur) by (rewrite Hr; apply skipn_length).
  assert (Hc : cand_ok seeds idx {| cd_first := cur; cd_last := cur + adv - 1; cd_src := src |}).
  { unfold cand_ok; cbn. repeat split; try lia. rewrite <- Hr. replace (cur + adv - 1 + 1 - cur) with adv by lia. exact Hs. }
  destruct (skipn adv rows) as [|r0 rr] eqn:Er.
  - cbn [segs map tiles cd_first cd_last]. split; [|constructor; [exact Hc|constructor]].
    repeat split; try lia. cbn.
    assert (length (skipn adv rows) = 0) by (rewrite Er; reflexivity). rewrite skipn_length in H. lia.
  - assert (Hr' : r0 :: rr = skipn (cur + adv) idx).
    { rewrite <- Er, Hr. rewrite skipn_skipn. reflexivity. }
    assert (Hl' : length (r0 :: rr) <= f).
    { rewrite <- Er, skipn_length. lia. }
    destruct (IH (r0 :: rr) (cur + adv) ltac:(discriminate) Hl' Hr') as [Ht Hf'].
    cbn [segs map tiles cd_first cd_last]. split; [|constructor; assumption].
    repeat split; try lia. replace (S (cur + adv - 1)) with (cur + adv) by lia. exact Ht.
Qed.

Theorem plan_ok_all seeds idx :
  tiles (length idx) 0 (segs (plan seeds idx)) /\ Forall (cand_ok seeds idx) (plan seeds idx).
Proof.
  unfold plan. destruct idx as [|c r] eqn:E; [cbn; split; [reflexivity|constructor]|].
  rewrite <- E. apply plan_from_ok; [rewrite E; discriminate|lia|reflexivity].
Qed.

(* a source-less entry is a single row: the worker's panic("... doesn't contain just a single chunk") is unreachable *)
Corollary plan_sourceless_single seeds idx c :
  In c (plan seeds idx) -> cd_src c = None -> cd_last c = cd_first c.
Proof.
  intros Hin Hs. destruct (plan_ok_all seeds idx) as [_ Hf].
  rewrite Forall_forall in Hf. destruct (Hf c Hin) as (A & B & C). rewrite Hs in C. cbn in C. lia.
Qed.

(* ---------- the validate / skip loop ---------- *)

Lemma usable_mark_le bad : forall seeds i, usable_files (mark_from i bad seeds) <= usable_files seeds.
Proof.
  unfold usable_files. induction seeds as [|s r IH]; intros i; [cbn; lia|]. cbn [mark_from filter].
  specialize (IH (S i)).
  destruct (existsb (Nat.eqb i) bad); [|destruct (is_usable_file s); cbn [length]; lia].
  destruct s as [cr inv sidx|cr nid]; cbn [set_invalid is_usable_file negb].
  - destruct inv; cbn [negb length]; lia.
  - exact IH.
Qed.

Lemma usable_mark_lt bad : forall seeds i k s,
  nth_error seeds k = Some s -> is_usable_file s = true -> In (i + k) bad ->
  usable_files (mark_from i bad seeds) < usable_files seeds.
Proof.
  induction seeds as [|s0 r IH]; intros i k s Hk Hu Hin; [destruct k; discriminate|].
  destruct k as [|k].
  - injection Hk as ->. rewrite Nat.add_0_r in Hin. unfold usable_files. cbn [mark_from filter].
    assert (Hex : existsb (Nat.eqb i) bad = true) by (apply existsb_exists; exists i; split; [exact Hin|apply Nat.eqb_refl]).
    rewrite Hex, Hu. destruct s as [cr inv sidx|cr nid]; [|discriminate].
    cbn [set_invalid is_usable_file negb length]. pose proof (usable_mark_le bad r (S i)) as Hle. unfold usable_files in Hle. lia.
  - cbn [nth_error] in Hk. replace (i + S k) with (S i + k) in Hin by lia.
    specialize (IH (S i) k s Hk Hu Hin). unfold usable_files in *. cbn [mark_from filter].
    destruct (existsb (Nat.eqb i) bad).
    + destruct s0 as [cr inv sidx|cr nid]; cbn [set_invalid is_usable_file negb].
      * destruct inv; cbn [negb length]; lia.
      * exact IH.
    + destruct (is_usable_file s0); cbn [length]; lia.
Qed.

Lemma used_is_usable seeds idx k :
  In k (file_seeds_used (plan seeds idx)) -> exists s, nth_error seeds k = Some s /\ is_usable_file s = true.
Proof.
  intros Hin. unfold file_seeds_used in Hin. apply in_flat_map in Hin. destruct Hin as (c & Hc & Hk).
  destruct (plan_ok_all seeds idx) as [_ Hf]. rewrite Forall_forall in Hf. destruct (Hf c Hc) as (_ & _ & Hs).
  destruct (cd_src c) as [[k' m|k' from to]|]; cbn in Hk; try contradiction.
  destruct Hk as [<-|[]]. cbn in Hs. destruct Hs as (cr & sidx & Hn & _). exists (SFile cr false sidx). split; [exact Hn|reflexivity].
Qed.

(* The loop ends after at most (number of usable file seeds + 1) attempts, whatever the
   validation verdicts are, and the plan it ends with has all the properties above. *)
Theorem replan_terminates idx : forall fuel seeds verdicts,
  usable_files seeds < fuel ->
  exists p n seeds', replan fuel seeds idx verdicts = Some (p, n) /\ n <= usable_files seeds + 1 /\
    p = plan seeds' idx /\ length seeds' = length seeds.
Proof.
  induction fuel as [|f IH]; intros seeds verdicts Hf; [lia|]. cbn [replan].
  destruct verdicts as [|v vs]; [exists (plan seeds idx), 1, seeds; repeat split; lia|].
  destruct (filter (fun k => existsb (Nat.eqb k) (file_seeds_used (plan seeds idx))) v) as [|b bs] eqn:Eb;
    [exists (plan seeds idx), 1, seeds; repeat split; lia|].
  assert (Hb : In b (filter (fun k => existsb (Nat.eqb k) (file_seeds_used (plan seeds idx))) v)) by (rewrite Eb; left; reflexivity).
  apply filter_In in Hb. destruct Hb as [_ Hb]. apply existsb_exists in Hb. destruct Hb as (k & Hk & Ebk).
  apply Nat.eqb_eq in Ebk. subst k.
  destruct (used_is_usable seeds idx b Hk) as (s & Hs & Hu).
  assert (Hlt : usable_files (mark_all (b :: bs) seeds) < usable_files seeds).
  { unfold mark_all. apply (usable_mark_lt (b :: bs) seeds 0 b s Hs Hu). left; reflexivity. }
  destruct (IH (mark_all (b :: bs) seeds) vs ltac:(lia)) as (p & n & seeds' & E & Hn & Hp & Hl).
  rewrite E. exists p, (S n), seeds'. repeat split; [lia|exact Hp|].
  rewrite Hl. unfold mark_all. clear. generalize 0. induction seeds as [|s r IHs]; intros i; [reflexivity|cbn; f_equal; apply IHs].
Qed.
