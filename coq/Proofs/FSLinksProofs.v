(* C18: path resolution along real directories, and what each system call of
   Model/FSLinks.v does when the parent chain of its path consists of real directories. *)
From Coq Require Import List NArith Arith Bool Lia.
From DS Require Import Base.Bytes Base.FS Base.GoPath Model.FSLinks Model.ArchiveNames Proofs.ArchiveNamesProofs.
Import ListNotations.

(* ---------- lookup facts ---------- *)

Lemma lookup_prefix_dir p q fs x : lookup (p ++ q) fs = Some x -> q <> [] -> is_dir_at p fs.
Proof.
  rewrite lookup_app. intros E Hq. destruct q as [|nm rest]; [congruence|].
  destruct (lookup p fs) as [n|] eqn:L; [|discriminate]. cbn [lookup_opt] in E. rewrite lookup_cons in E.
  destruct n as [m l| |]; try discriminate. now exists m, l.
Qed.

Lemma is_dir_at_prefix p q fs : is_dir_at (p ++ q) fs -> is_dir_at p fs.
Proof.
  intros [m [l E]]. destruct q as [|nm rest].
  - rewrite app_nil_r in E. now exists m, l.
  - eapply lookup_prefix_dir; [exact E|discriminate].
Qed.

Lemma is_dir_at_removelast p fs : is_dir_at p fs -> is_dir_at (removelast p) fs.
Proof.
  intros H. destruct p as [|x p] using rev_ind; [exact H|]. rewrite removelast_last.
  eapply is_dir_at_prefix. exact H.
Qed.

Lemma is_dir_not_link p fs : is_dir_at p fs -> not_link_at p fs.
Proof. intros [m [l E]] m' t. rewrite E. discriminate. Qed.

Lemma is_prefix_trans a b c : is_prefix a b = true -> is_prefix b c = true -> is_prefix a c = true.
Proof.
  rewrite !is_prefix_spec. intros [r1 ->] [r2 ->]. exists (r1 ++ r2). now rewrite app_assoc.
Qed.

Lemma is_prefix_longer p x q : is_prefix (p ++ x :: q) p = false.
Proof.
  destruct (is_prefix (p ++ x :: q) p) eqn:E; [|reflexivity]. apply is_prefix_spec in E as [r E].
  apply (f_equal (@length _)) in E. rewrite !app_length in E. cbn [length] in E. lia.
Qed.

Lemma stat_eq_stat_opt q fs : stat q fs = stat_opt q (Some fs).
Proof. reflexivity. Qed.

Lemma upd_frame loc f fs fs' : upd loc f fs = Ok fs' ->
  forall q, is_prefix loc q = false -> stat q fs' = stat q fs.
Proof.
  intros E q Hq. apply upd_inv in E. rewrite !stat_eq_stat_opt. exact (stat_update_frame _ _ _ _ E q Hq).
Qed.

Lemma upd_at loc f fs fs' : upd loc f fs = Ok fs' -> exists r, f (lookup loc fs) = Ok r /\ lookup loc fs' = r.
Proof. intros E. destruct (stat_upd_point _ _ _ _ E) as (r & F & L & _). now exists r. Qed.

Lemma stat_dir_iff p fs : is_dir_at p fs <-> exists m, stat p fs = Some (EDir m).
Proof.
  unfold is_dir_at, stat. split.
  - intros [m [l E]]. rewrite E. now exists m.
  - intros [m E]. destruct (lookup p fs) as [[m' l| |]|]; try discriminate. now exists m', l.
Qed.

Lemma upd_keeps_dir loc f fs fs' d : upd loc f fs = Ok fs' -> is_prefix loc d = false ->
  is_dir_at d fs -> is_dir_at d fs'.
Proof.
  intros E Hp H. apply stat_dir_iff in H as [m H]. apply stat_dir_iff. exists m.
  now rewrite (upd_frame _ _ _ _ E d Hp).
Qed.

(* ---------- walking along real directories ---------- *)

Definition plain (c : name) : Prop := is_dotlike c = false /\ is_dotdot c = false.

Lemma real_elem_plain c : real_elem c -> plain c.
Proof.
  intros [K N]. unfold plain, is_dotlike, is_dotdot. destruct c as [|x r]; [discriminate|]. split.
  - apply bytes_eqb_neq. intros E. rewrite E in K. discriminate.
  - apply bytes_eqb_neq. intros E. rewrite E in K. discriminate.
Qed.

Lemma Forall_real_plain l : Forall real_elem l -> Forall plain l.
Proof. intros F. eapply Forall_impl; [|exact F]. exact real_elem_plain. Qed.

Lemma walk1_dirs fs : forall ds cur rest f, Forall plain ds -> is_dir_at (cur ++ ds) fs ->
  walk1 fs cur (ds ++ rest) f = walk1 fs (cur ++ ds) rest f.
Proof.
  induction ds as [|d ds IH]; intros cur rest f F H.
  - now rewrite app_nil_r.
  - inversion F as [|? ? [P1 P2] F']; subst. cbn [app walk1]. rewrite P1, P2.
    replace (cur ++ d :: ds) with ((cur ++ [d]) ++ ds) in * by (rewrite <- app_assoc; reflexivity).
    destruct (is_dir_at_prefix _ _ _ H) as [m [l E]]. rewrite E. now apply IH.
Qed.

(* the walk of the components D ++ [n] when D is a chain of real directories *)
Lemma walk1_leaf fs D n f : Forall plain D -> plain n -> is_dir_at D fs ->
  walk1 fs [] (D ++ [n]) f =
  match lookup (D ++ [n]) fs with
  | Some (Symlink m t) => if f then WLink D t [] else WDone (D ++ [n]) (Some (Symlink m t))
  | o => WDone (D ++ [n]) o
  end.
Proof.
  intros F [P1 P2] H. rewrite (walk1_dirs fs D [] [n] f F H). cbn [app walk1]. rewrite P1, P2.
  destruct (lookup (D ++ [n]) fs) as [[m l|m b|m t]|] eqn:E; reflexivity.
Qed.

Lemma walk1_below_file fs D n q f m b : Forall plain D -> plain n -> q <> [] ->
  lookup (D ++ [n]) fs = Some (File m b) ->
  walk1 fs [] (D ++ n :: q) f = WErr ENOTDIR.
Proof.
  intros F [P1 P2] Hq E.
  assert (H : is_dir_at D fs) by (eapply lookup_prefix_dir; [exact E|discriminate]).
  rewrite (walk1_dirs fs D [] (n :: q) f F H). cbn [app walk1]. rewrite P1, P2, E.
  destruct q; [congruence|reflexivity].
Qed.

(* ---------- the kernel's view of a clean absolute path ---------- *)

Definition guards_ok (s : bytes) : bool :=
  negb (has_nul s) && negb (path_max <=? length s) && negb (existsb too_long (split47 s)).

Lemma resolve_str_unfold fs P f : P <> [] -> Forall real_elem P ->
  resolve_str fs (rootstr P) f =
  if guards_ok (rootstr P) then walk max_links fs [] P f else Err EINVAL.
Proof.
  intros Hne F. unfold resolve_str, guards_ok.
  destruct (has_nul (rootstr P)); [reflexivity|]. destruct (path_max <=? length (rootstr P)); [reflexivity|].
  destruct (existsb too_long (split47 (rootstr P))); [reflexivity|]. cbn [negb andb].
  unfold rootstr at 1. cbn [is_abs]. change (is_slash slash) with true. cbv iota.
  unfold rootstr. rewrite split47_rooted by (try exact Hne; now apply Forall_real_noslash).
  (* the leading empty component is skipped *)
  reflexivity.
Qed.

Lemma exists_last' {A} (l : list A) : l <> [] -> exists l' x, l = l' ++ [x].
Proof. intros H. destruct (exists_last H) as [l' [x E]]. now exists l', x. Qed.

Lemma walk_unfold links fs cur comps f :
  walk links fs cur comps f =
  match walk1 fs cur comps f with
  | WDone loc o => Ok (loc, o)
  | WErr e => Err e
  | WLink d t rest =>
      match links with
      | O => Err EIO
      | S l => match t with
               | [] => Err ENOENT
               | _ :: _ => walk l fs (if is_abs t then [] else d) (split47 t ++ rest) f
               end
      end
  end.
Proof. destruct links; reflexivity. Qed.

(* the parent chain of P consists of real directories *)
Definition parent_ok (P : path) (fs : node) : Prop := is_dir_at (removelast P) fs.

Lemma resolve_at fs P f : P <> [] -> Forall real_elem P -> parent_ok P fs -> (f = true -> not_link_at P fs) ->
  resolve_str fs (rootstr P) f = Err EINVAL \/ resolve_str fs (rootstr P) f = Ok (P, lookup P fs).
Proof.
  intros Hne F H NL. rewrite resolve_str_unfold by assumption. destruct (guards_ok _); [|now left]. right.
  destruct (exists_last' P Hne) as (D & n & ->). unfold parent_ok in H. rewrite removelast_last in H.
  apply Forall_app in F as [FD Fn]. inversion Fn as [|? ? Rn _]; subst.
  rewrite walk_unfold.
  pose proof (walk1_leaf fs D n f (Forall_real_plain _ FD) (real_elem_plain _ Rn) H) as W.
  unfold name, path in *. rewrite W. clear W.
  destruct (lookup (D ++ [n]) fs) as [[m l|m b|m t]|] eqn:E; try reflexivity.
  destruct f; [|reflexivity]. exfalso. exact (NL eq_refl m t E).
Qed.

(* below a regular file nothing resolves *)
Lemma resolve_below_file fs R q f m b : R <> [] -> q <> [] -> Forall real_elem (R ++ q) ->
  lookup R fs = Some (File m b) ->
  resolve_str fs (rootstr (R ++ q)) f = Err EINVAL \/ resolve_str fs (rootstr (R ++ q)) f = Err ENOTDIR.
Proof.
  intros HR Hq F L. rewrite resolve_str_unfold by (first [exact F|destruct R; [congruence|discriminate]]).
  destruct (guards_ok _); [|now left]. right.
  destruct (exists_last' R HR) as (D & n & ->). apply Forall_app in F as [FR Fq]. apply Forall_app in FR as [FD Fn].
  inversion Fn as [|? ? Rn _]; subst. rewrite walk_unfold. rewrite <- app_assoc. cbn [app].
  pose proof (walk1_below_file fs D n q f m b (Forall_real_plain _ FD) (real_elem_plain _ Rn) Hq L) as W.
  unfold name, path in *. now rewrite W.
Qed.

(* ---------- kinds ---------- *)

Inductive nkind := KDir | KFile | KLink.
Definition node_kind (n : node) : nkind := match n with Dir _ _ => KDir | File _ _ => KFile | Symlink _ _ => KLink end.
Definition kind_at (P : path) (fs : node) : option nkind := option_map node_kind (lookup P fs).

Lemma kind_dir_iff P fs : kind_at P fs = Some KDir <-> is_dir_at P fs.
Proof.
  unfold kind_at, is_dir_at. split.
  - destruct (lookup P fs) as [[m l| |]|]; try discriminate. intros _. now exists m, l.
  - intros [m [l ->]]. reflexivity.
Qed.

Lemma kind_file_iff P fs : kind_at P fs = Some KFile <-> exists m b, lookup P fs = Some (File m b).
Proof.
  unfold kind_at. split.
  - destruct (lookup P fs) as [[|m b|]|]; try discriminate. intros _. now exists m, b.
  - intros [m [b ->]]. reflexivity.
Qed.

Lemma kind_not_link P fs : kind_at P fs <> Some KLink -> not_link_at P fs.
Proof. unfold kind_at. intros H m t E. rewrite E in H. now apply H. Qed.

Lemma kind_with_meta g n : node_kind (with_meta g n) = node_kind n.
Proof. now destruct n. Qed.

(* ---------- what a successful call did ---------- *)

Definition effect (P : path) (fs fs' : node) (t : list path) : Prop :=
  (fs' = fs /\ t = []) \/ (t = [P] /\ exists f, upd P f fs = Ok fs').

Lemma at_loc_spec P f fs fs' t : at_loc P f fs = Ok (fs', t) -> t = [P] /\ upd P f fs = Ok fs'.
Proof. unfold at_loc. destruct (upd P f fs); intros E; inversion E; auto. Qed.

Lemma at_loc_const_ok P r fs x : P <> [] -> lookup P fs = Some x -> exists fs', at_loc P (fun _ => Ok r) fs = Ok (fs', [P]).
Proof.
  intros Hne L. unfold lookup in L. destruct (FS.resolve P fs) as [tgt|] eqn:R; [|discriminate].
  destruct (upd_ok P (fun _ => Ok r) fs tgt r Hne R eq_refl) as [fs' U]. exists fs'. unfold at_loc. now rewrite U.
Qed.

Section Ops.
  Variable P : path.
  Hypothesis P_ne : P <> [].
  Hypothesis P_real : Forall real_elem P.
  Let dst := rootstr P.

  Lemma no_follow_ok : false = true -> forall fs, not_link_at P fs.
  Proof. discriminate. Qed.

  Lemma k_lstat_spec fs : parent_ok P fs ->
    (exists e, k_lstat fs dst = Err e) \/ (exists n, k_lstat fs dst = Ok n /\ lookup P fs = Some n).
  Proof.
    intros H. unfold k_lstat, dst.
    destruct (resolve_at fs P false P_ne P_real H (fun e => no_follow_ok e fs)) as [E|E]; rewrite E.
    - left. eauto.
    - destruct (lookup P fs) as [n|]; [right; eauto|left; eauto].
  Qed.

  Lemma k_mkdir_spec m fs fs' t : parent_ok P fs -> k_mkdir dst m fs = Ok (fs', t) ->
    effect P fs fs' t /\ kind_at P fs' = Some KDir.
  Proof.
    intros H. unfold k_mkdir, dst.
    destruct (resolve_at fs P false P_ne P_real H (fun e => no_follow_ok e fs)) as [E|E]; rewrite E; [discriminate|].
    destruct (lookup P fs) eqn:L; [discriminate|]. intros A. apply at_loc_spec in A as [-> U].
    split; [right; eauto|]. apply upd_at in U as (r & Fr & Lr). injection Fr as <-.
    unfold kind_at. now rewrite Lr.
  Qed.

  Lemma k_mknod_spec m fs fs' t : parent_ok P fs -> k_mknod dst m fs = Ok (fs', t) ->
    effect P fs fs' t /\ kind_at P fs' = Some KFile.
  Proof.
    intros H. unfold k_mknod, dst.
    destruct (resolve_at fs P false P_ne P_real H (fun e => no_follow_ok e fs)) as [E|E]; rewrite E; [discriminate|].
    destruct (lookup P fs) eqn:L; [discriminate|]. intros A. apply at_loc_spec in A as [-> U].
    split; [right; eauto|]. apply upd_at in U as (r & Fr & Lr). injection Fr as <-.
    unfold kind_at. now rewrite Lr.
  Qed.

  Lemma k_symlink_spec target m fs fs' t : parent_ok P fs -> k_symlink target dst m fs = Ok (fs', t) ->
    effect P fs fs' t /\ kind_at P fs' = Some KLink.
  Proof.
    intros H. unfold k_symlink, dst. destruct target; [discriminate|].
    destruct (resolve_at fs P false P_ne P_real H (fun e => no_follow_ok e fs)) as [E|E]; rewrite E; [discriminate|].
    destruct (lookup P fs) eqn:L; [discriminate|]. intros A. apply at_loc_spec in A as [-> U].
    split; [right; eauto|]. apply upd_at in U as (r & Fr & Lr). injection Fr as <-.
    unfold kind_at. now rewrite Lr.
  Qed.

  Lemma k_unlink_spec fs fs' t : parent_ok P fs -> k_unlink dst fs = Ok (fs', t) ->
    effect P fs fs' t /\ kind_at P fs' = None.
  Proof.
    intros H. unfold k_unlink, dst.
    destruct (resolve_at fs P false P_ne P_real H (fun e => no_follow_ok e fs)) as [E|E]; rewrite E; [discriminate|].
    destruct (lookup P fs) as [[| |]|] eqn:L; try discriminate;
      intros A; apply at_loc_spec in A as [-> U]; (split; [right; eauto|]);
      apply upd_at in U as (r & Fr & Lr); injection Fr as <-; unfold kind_at; now rewrite Lr.
  Qed.

  (* unlink fails with ENOENT only if nothing is there *)
  Lemma k_unlink_enoent fs : parent_ok P fs -> k_unlink dst fs = Err ENOENT -> kind_at P fs = None.
  Proof.
    intros H. unfold k_unlink, dst.
    destruct (resolve_at fs P false P_ne P_real H (fun e => no_follow_ok e fs)) as [E|E]; rewrite E; [discriminate|].
    destruct (lookup P fs) as [[m l|m b|m t]|] eqn:L; try discriminate.
    - destruct (at_loc_const_ok P None fs _ P_ne L) as [fs' ->]. discriminate.
    - destruct (at_loc_const_ok P None fs _ P_ne L) as [fs' ->]. discriminate.
    - intros _. unfold kind_at. now rewrite L.
  Qed.

  (* unlink of a directory fails, and not with ENOENT *)
  Lemma k_unlink_dir fs : parent_ok P fs -> is_dir_at P fs -> exists e, k_unlink dst fs = Err e /\ e <> ENOENT.
  Proof.
    intros H [m [l L]]. unfold k_unlink, dst.
    destruct (resolve_at fs P false P_ne P_real H (fun e => no_follow_ok e fs)) as [E|E]; rewrite E.
    - exists EINVAL. split; [reflexivity|discriminate].
    - rewrite L. exists EISDIR. split; [reflexivity|discriminate].
  Qed.

  Lemma k_remove_all_spec fs fs' t : parent_ok P fs -> k_remove_all dst fs = Ok (fs', t) ->
    effect P fs fs' t /\ kind_at P fs' = None.
  Proof.
    intros H. unfold k_remove_all, dst.
    destruct (resolve_at fs P false P_ne P_real H (fun e => no_follow_ok e fs)) as [E|E]; rewrite E; [discriminate|].
    destruct (lookup P fs) as [n|] eqn:L.
    - intros A. apply at_loc_spec in A as [-> U]. split; [right; eauto|].
      apply upd_at in U as (r & Fr & Lr). injection Fr as <-. unfold kind_at. now rewrite Lr.
    - intros A. inversion A; subst. split; [now left|]. unfold kind_at. now rewrite L.
  Qed.

  Lemma k_create_trunc_spec m data fs fs' t : parent_ok P fs -> not_link_at P fs ->
    k_create_trunc dst m data fs = Ok (fs', t) -> effect P fs fs' t /\ kind_at P fs' = Some KFile.
  Proof.
    intros H NL. unfold k_create_trunc, dst.
    destruct (resolve_at fs P true P_ne P_real H (fun _ => NL)) as [E|E]; rewrite E; [discriminate|].
    destruct (lookup P fs) as [[| |]|] eqn:L; try discriminate;
      intros A; apply at_loc_spec in A as [-> U]; (split; [right; eauto|]);
      apply upd_at in U as (r & Fr & Lr); injection Fr as <-; unfold kind_at; now rewrite Lr.
  Qed.

  Lemma k_setmeta_spec follow g fs fs' t : parent_ok P fs -> (follow = true -> not_link_at P fs) ->
    k_setmeta follow g dst fs = Ok (fs', t) -> effect P fs fs' t /\ kind_at P fs' = kind_at P fs.
  Proof.
    intros H NL. unfold k_setmeta, dst.
    destruct (resolve_at fs P follow P_ne P_real H NL) as [E|E]; rewrite E; [discriminate|].
    destruct (lookup P fs) as [n|] eqn:L; [|discriminate].
    intros A. apply at_loc_spec in A as [-> U]. split; [right; eauto|].
    apply upd_at in U as (r & Fr & Lr). injection Fr as <-. unfold kind_at. rewrite Lr, L. cbn [option_map].
    now rewrite kind_with_meta.
  Qed.
End Ops.

(* ---------- below a regular file every call fails, and not with ENOENT ---------- *)

Section BelowFile.
  Variables (R q : path) (fs : node) (m0 : meta) (b0 : bytes).
  Hypothesis R_ne : R <> [].
  Hypothesis q_ne : q <> [].
  Hypothesis Rq_real : Forall real_elem (R ++ q).
  Hypothesis R_file : lookup R fs = Some (File m0 b0).
  Let dst := rootstr (R ++ q).

  Lemma below_file_resolve f : exists e, resolve_str fs dst f = Err e /\ e <> ENOENT.
  Proof.
    destruct (resolve_below_file fs R q f m0 b0 R_ne q_ne Rq_real R_file) as [E|E];
      [exists EINVAL|exists ENOTDIR]; (split; [exact E|discriminate]).
  Qed.

  Lemma below_file_lstat : exists e, k_lstat fs dst = Err e.
  Proof. unfold k_lstat. destruct (below_file_resolve false) as (e & -> & _). eauto. Qed.

  Lemma below_file_mkdir m : exists e, k_mkdir dst m fs = Err e.
  Proof. unfold k_mkdir. destruct (below_file_resolve false) as (e & -> & _). eauto. Qed.

  Lemma below_file_unlink : exists e, k_unlink dst fs = Err e /\ e <> ENOENT.
  Proof. unfold k_unlink. destruct (below_file_resolve false) as (e & -> & N). eauto. Qed.

  Lemma below_file_remove_all : exists e, k_remove_all dst fs = Err e.
  Proof.
    unfold k_remove_all. destruct (below_file_resolve false) as (e & -> & N).
    destruct e; try (eexists; reflexivity). congruence.
  Qed.
End BelowFile.

(* ---------- below a place where nothing is, nothing resolves either ---------- *)

Lemma walk1_below_absent fs D n q f : Forall plain D -> plain n -> q <> [] -> is_dir_at D fs ->
  lookup (D ++ [n]) fs = None -> walk1 fs [] (D ++ n :: q) f = WErr ENOENT.
Proof.
  intros F [P1 P2] Hq H E.
  rewrite (walk1_dirs fs D [] (n :: q) f F H). cbn [app walk1]. rewrite P1, P2, E.
  destruct q; [congruence|reflexivity].
Qed.

Lemma resolve_below_absent fs R q f : R <> [] -> q <> [] -> Forall real_elem (R ++ q) ->
  parent_ok R fs -> lookup R fs = None ->
  exists e, resolve_str fs (rootstr (R ++ q)) f = Err e.
Proof.
  intros HR Hq F Hp L. rewrite resolve_str_unfold by (first [exact F|destruct R; [congruence|discriminate]]).
  destruct (guards_ok _); [|eauto].
  destruct (exists_last' R HR) as (D & n & ->). unfold parent_ok in Hp. rewrite removelast_last in Hp.
  apply Forall_app in F as [FR Fq]. apply Forall_app in FR as [FD Fn].
  inversion Fn as [|? ? Rn _]; subst. rewrite walk_unfold. rewrite <- app_assoc. cbn [app].
  pose proof (walk1_below_absent fs D n q f (Forall_real_plain _ FD) (real_elem_plain _ Rn) Hq Hp L) as W.
  unfold name, path in *. rewrite W. eauto.
Qed.

Lemma resolve_below_file' fs R q f m b : R <> [] -> q <> [] -> Forall real_elem (R ++ q) ->
  lookup R fs = Some (File m b) -> exists e, resolve_str fs (rootstr (R ++ q)) f = Err e.
Proof.
  intros HR Hq F L. destruct (resolve_below_file fs R q f m b HR Hq F L) as [E|E]; rewrite E; eauto.
Qed.

(* a place that is not a link is a directory, a childless non-link, or nothing *)
Lemma not_link_cases p fs : not_link_at p fs ->
  is_dir_at p fs \/ lookup p fs = None \/ exists m b, lookup p fs = Some (File m b).
Proof.
  intros NL. destruct (lookup p fs) as [[m l|m b|m t]|] eqn:E.
  - left. now exists m, l.
  - right. right. now exists m, b.
  - exfalso. exact (NL m t E).
  - right. now left.
Qed.
