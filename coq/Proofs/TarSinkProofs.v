(* Model/TarSink.v: success on a target of limited capacity means every byte was accepted. *)
From Coq Require Import List NArith Arith Bool Lia ZifyN ZifyNat ZifyBool.
From DS Require Import Gen.Constants Base.Bytes Base.LE64 Model.Format Model.Goodbye Model.Tar Model.TarSink
     Proofs.FormatProofs Proofs.TarProofs.
Import ListNotations.
Local Open Scope N_scope.

Lemma sink_write_ok s p s1 : sink_write s p = (s1, true) ->
  s_data s1 = s_data s ++ p /\ s_cap s = s_cap s1 + lenN p.
Proof.
  unfold sink_write. destruct (N.leb_spec (lenN p) (s_cap s)) as [Hle|Hgt]; intros H; inversion H; subst; clear H.
  cbn [s_data s_cap]. split; [reflexivity|lia].
Qed.

Lemma sink_write_fits s p : lenN p <= s_cap s ->
  sink_write s p = (mkSink (s_cap s - lenN p) (s_data s ++ p), true).
Proof. intros H. unfold sink_write. destruct (N.leb_spec (lenN p) (s_cap s)); [reflexivity|lia]. Qed.

Lemma write_all_ok ps : forall s s1, write_all ps s = (s1, true) ->
  s_data s1 = s_data s ++ concat ps /\ s_cap s = s_cap s1 + lenN (concat ps).
Proof.
  induction ps as [|p r IH]; intros s s1 H.
  - inversion H; subst. cbn [concat]. rewrite app_nil_r. split; [reflexivity|cbn; lia].
  - cbn [write_all] in H. destruct (sink_write s p) as [s0 [|]] eqn:E; [|discriminate].
    destruct (sink_write_ok _ _ _ E) as [Ed Ec]. destruct (IH _ _ H) as [Hd Hc].
    cbn [concat]. rewrite Hd, Ed, <- app_assoc, lenN_app. split; [reflexivity|lia].
Qed.

Lemma write_all_fits ps : forall s, lenN (concat ps) <= s_cap s ->
  write_all ps s = (mkSink (s_cap s - lenN (concat ps)) (s_data s ++ concat ps), true).
Proof.
  induction ps as [|p r IH]; intros s H.
  - cbn [write_all concat]. rewrite app_nil_r. destruct s. cbn. f_equal. f_equal. lia.
  - cbn [concat] in *. rewrite lenN_app in H. cbn [write_all]. rewrite sink_write_fits by lia.
    rewrite IH by (cbn [s_cap]; lia). cbn [s_cap s_data]. rewrite <- app_assoc, lenN_app. do 2 f_equal. lia.
Qed.

Lemma goodbye_items_ok items : forall s s1, goodbye_items_into EncFixed items s = (s1, true) ->
  s_data s1 = s_data s ++ flat_map enc_gitem items /\ s_cap s = s_cap s1 + lenN (flat_map enc_gitem items).
Proof.
  induction items as [|i r IH]; intros s s1 H.
  - inversion H; subst. cbn [flat_map]. rewrite app_nil_r. split; [reflexivity|cbn; lia].
  - cbn [goodbye_items_into] in H. destruct (sink_write s (enc_gitem i)) as [s0 [|]] eqn:E; [|discriminate].
    destruct (sink_write_ok _ _ _ E) as [Ed Ec]. destruct (IH _ _ H) as [Hd Hc].
    cbn [flat_map]. rewrite Hd, Ed, <- app_assoc, lenN_app. split; [reflexivity|lia].
Qed.

Lemma goodbye_items_fits v items : forall s, lenN (flat_map enc_gitem items) <= s_cap s ->
  goodbye_items_into v items s =
    (mkSink (s_cap s - lenN (flat_map enc_gitem items)) (s_data s ++ flat_map enc_gitem items), true).
Proof.
  induction items as [|i r IH]; intros s H.
  - cbn [goodbye_items_into flat_map]. rewrite app_nil_r. destruct s. cbn. f_equal. f_equal. lia.
  - cbn [flat_map] in *. rewrite lenN_app in H. cbn [goodbye_items_into]. rewrite sink_write_fits by lia.
    rewrite IH by (cbn [s_cap]; lia). cbn [s_cap s_data]. rewrite <- app_assoc, lenN_app. do 2 f_equal. lia.
Qed.

Lemma elem_writes_concat e : (forall h items, e <> Goodbye h items) -> concat (elem_writes e) = encode_elem e.
Proof.
  destruct e; intros H; cbn [elem_writes encode_elem concat]; rewrite ?app_nil_r; try reflexivity.
  exfalso. eapply H. reflexivity.
Qed.

Lemma encode_into_ok e s s1 : encode_into EncFixed e s = (s1, true) ->
  s_data s1 = s_data s ++ encode_elem e /\ s_cap s = s_cap s1 + lenN (encode_elem e).
Proof.
  intros H.
  assert (Hg : (exists h items, e = Goodbye h items) \/ (forall h items, e <> Goodbye h items)).
  { destruct e; try (right; intros; discriminate). left. eauto. }
  destruct Hg as [(h & items & ->)|Hn].
  - cbn [encode_into] in H. destruct (sink_write s (le64s [h_size h; h_type h])) as [s0 [|]] eqn:E; [|discriminate].
    destruct (sink_write_ok _ _ _ E) as [Ed Ec]. destruct (goodbye_items_ok _ _ _ H) as [Hd Hc].
    cbn [encode_elem]. rewrite Hd, Ed, <- app_assoc, lenN_app. split; [reflexivity|lia].
  - assert (E : encode_into EncFixed e s = write_all (elem_writes e) s).
    { destruct e; try reflexivity. exfalso. eapply Hn. reflexivity. }
    rewrite E in H. rewrite <- (elem_writes_concat e Hn). apply write_all_ok. exact H.
Qed.

Lemma encode_into_fits v e s : lenN (encode_elem e) <= s_cap s ->
  encode_into v e s = (mkSink (s_cap s - lenN (encode_elem e)) (s_data s ++ encode_elem e), true).
Proof.
  intros H.
  assert (Hg : (exists h items, e = Goodbye h items) \/ (forall h items, e <> Goodbye h items)).
  { destruct e; try (right; intros; discriminate). left. eauto. }
  destruct Hg as [(h & items & ->)|Hn].
  - cbn [encode_into encode_elem] in *. rewrite lenN_app in H. rewrite sink_write_fits by lia.
    rewrite goodbye_items_fits by (cbn [s_cap]; lia). cbn [s_cap s_data]. rewrite <- app_assoc, lenN_app. do 2 f_equal. lia.
  - assert (E : encode_into v e s = write_all (elem_writes e) s).
    { destruct e; try reflexivity. exfalso. eapply Hn. reflexivity. }
    rewrite E. rewrite <- (elem_writes_concat e Hn) in *. apply write_all_fits. exact H.
Qed.

Lemma write_elems_ok es : forall s s1, write_elems EncFixed es s = (s1, true) ->
  s_data s1 = s_data s ++ encode_elems es /\ s_cap s = s_cap s1 + lenN (encode_elems es).
Proof.
  induction es as [|e r IH]; intros s s1 H.
  - inversion H; subst. cbn. rewrite app_nil_r. split; [reflexivity|lia].
  - cbn [write_elems] in H. destruct (encode_into EncFixed e s) as [s0 [|]] eqn:E; [|discriminate].
    destruct (encode_into_ok _ _ _ E) as [Ed Ec]. destruct (IH _ _ H) as [Hd Hc].
    cbn [encode_elems flat_map]. fold (encode_elems r). rewrite Hd, Ed, <- app_assoc, lenN_app. split; [reflexivity|lia].
Qed.

Lemma write_elems_fits v es : forall s, lenN (encode_elems es) <= s_cap s ->
  write_elems v es s = (mkSink (s_cap s - lenN (encode_elems es)) (s_data s ++ encode_elems es), true).
Proof.
  induction es as [|e r IH]; intros s H.
  - cbn [write_elems encode_elems flat_map]. rewrite app_nil_r. destruct s. cbn. f_equal. f_equal. lia.
  - cbn [encode_elems flat_map] in *. fold (encode_elems r) in *. rewrite lenN_app in H.
    cbn [write_elems]. rewrite encode_into_fits by lia. rewrite IH by (cbn [s_cap]; lia).
    cbn [s_cap s_data]. rewrite <- app_assoc, lenN_app. do 2 f_equal. lia.
Qed.

(* Tar() == nil on a target of capacity k: the target holds the whole archive (and it fitted) *)
Theorem tar_into_ok_proof t k b : tar_into EncFixed t k = (b, true) ->
  b = tar_bytes t /\ lenN (tar_bytes t) <= k.
Proof.
  unfold tar_into. destruct (write_elems EncFixed (tar_model t) (mkSink k [])) as [s ok] eqn:E.
  intros H. inversion H; subst. destruct (write_elems_ok _ _ _ E) as [Hd Hc].
  cbn [s_data s_cap app] in *. unfold tar_bytes. split; [exact Hd|lia].
Qed.

(* and with enough room it succeeds, whatever the variant *)
Theorem tar_into_fits_proof v t k : lenN (tar_bytes t) <= k -> tar_into v t k = (tar_bytes t, true).
Proof.
  intros H. unfold tar_into. rewrite write_elems_fits by exact H. reflexivity.
Qed.

Theorem tar_into_wellformed_proof ord t k b : good ord t -> snd (tar_node t) < two64 ->
  tar_into EncFixed t k = (b, true) -> validate ord b = Some (casync_view t).
Proof.
  intros Hg Hb H. destruct (tar_into_ok_proof _ _ _ H) as [-> _]. apply tar_wellformed_proof; assumption.
Qed.

(* the swallowed error: directory with two files, target full 30 bytes before the end *)
Definition ex_sink_tree : node := NDir ex_meta [] [([97], NFile ex_meta [] [1; 2; 3]); ([98], NFile ex_meta [] [])].

Lemma tar_into_swallow_refuted_proof :
  let k := lenN (tar_bytes ex_sink_tree) - 30 in
  exists b, tar_into EncSwallow ex_sink_tree k = (b, true) /\ lenN b = k /\ validate true b = None /\
            fst (tar_into EncFixed ex_sink_tree k) = b /\ snd (tar_into EncFixed ex_sink_tree k) = false.
Proof.
  cbv zeta. eexists. split; [vm_compute; reflexivity|]. vm_compute. repeat split; reflexivity.
Qed.
