(* AssembleFile with the plan the sequencer makes: the tiling premise of assemble_safe is discharged. *)
From Coq Require Import List NArith Arith Bool Lia.
From DS Require Import Base.Bytes Base.Hash Base.Sched Model.Assemble Model.VerifyIndex Model.Sequencer
     Proofs.AssembleProofs Proofs.SequencerProofs.
Import ListNotations.

(* the index rows as the sequencer sees them: (id, start, size) with cumulative starts *)
Fixpoint rows_from (start : N) (idx : Assemble.index) : list ichunk :=
  match idx with
  | [] => []
  | (i, sz) :: r => {| c_id := i; c_start := start; c_size := N.of_nat sz |} :: rows_from (start + N.of_nat sz) r
  end.
Definition index_rows (idx : Assemble.index) : list ichunk := rows_from 0 idx.

Lemma rows_from_length idx : forall s, length (rows_from s idx) = length idx.
Proof. induction idx as [|[i sz] r IH]; intros s; [reflexivity|cbn; f_equal; apply IH]. Qed.

Lemma tiles_plan_tiles idx : forall pl k, tiles (length idx) k pl -> plan_tiles_from idx k pl.
Proof.
  induction pl as [|[f l] r IH]; intros k Ht; [exact Ht|]. cbn in *. destruct Ht as (A & B & C).
  repeat split; [exact A|exact B|apply IH; exact C].
Qed.

Theorem sequencer_plan_ok seeds idx : plan_ok idx (segs (plan seeds (index_rows idx))).
Proof.
  unfold plan_ok. apply tiles_plan_tiles.
  destruct (plan_ok_all seeds (index_rows idx)) as [Ht _].
  unfold index_rows in *. rewrite rows_from_length in Ht. exact Ht.
Qed.

(* AssembleFile end to end at the model level: ANY seeds (stale, corrupted, empty, duplicated,
   pointing at the target), ANY outcome of the validation attempts, the plan the loop ends with,
   ANY schedule of worker events: all jobs finished => the file is the blob (or H collides). *)
Theorem assemble_safe_seq (H : bytes -> id) (idx : Assemble.index) (seeds : list seedm) (verdicts : list verdict) :
  exists p n, replan (usable_files seeds + 1) seeds (index_rows idx) verdicts = Some (p, n) /\
    n <= usable_files seeds + 1 /\
    forall file0 blob (sched : list event),
      index_describes H idx blob -> length file0 = length blob ->
      let s := run (Assemble.step H idx (segs p)) sched (Assemble.init (segs p) file0) in
      all_finished s = true -> a_file s = blob \/ Collision H.
Proof.
  destruct (replan_terminates (index_rows idx) (usable_files seeds + 1) seeds verdicts ltac:(lia))
    as (p & n & seeds' & E & Hn & Hp & _).
  exists p, n. split; [exact E|]. split; [exact Hn|].
  intros file0 blob sched Hd Hl. subst p.
  apply (assemble_safe H idx (segs (plan seeds' (index_rows idx))) (sequencer_plan_ok seeds' idx) file0 blob sched Hd Hl).
Qed.
