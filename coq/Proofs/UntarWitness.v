(* C18: concrete witnesses (vm_compute) -- the escapes of the decoder as it is now (an
   entry without a Filename element) and of the decoder before commit 41ef764 (a
   Filename element "../out/x"), and runs showing that the hypotheses of the
   confinement theorems are satisfiable. *)
From Coq Require Import List NArith Bool.
From DS Require Import Base.Bytes Base.FS Base.GoPath Model.FSLinks Model.ArchiveNames Model.Untar Proofs.FSLinksProofs.
Import ListNotations.
Local Open Scope N_scope.

(* "sb", "dest", "out", "x", "d", "e" *)
Definition w_sb : name := [115; 98].
Definition w_dest : name := [100; 101; 115; 116].
Definition w_out : name := [111; 117; 116].
Definition w_x : name := [120].
Definition w_d : name := [100].
Definition w_e : name := [101].

(* /sb/dest (empty) next to /sb/out/x *)
Definition wit_fs : node :=
  Dir meta0 [(w_sb, Dir meta0 [(w_dest, Dir meta0 []); (w_out, Dir meta0 [(w_x, File meta0 [1; 2; 3])])])].
Definition w_root : path := [w_sb; w_dest].
Definition w_victim : path := [w_sb; w_out; w_x].
Definition w_opts : opts := mkOpts false false.

Definition dirE : elem := EEntry 16877 0 0 1000.    (* S_IFDIR | 0755 *)
Definition regE : elem := EEntry 33188 0 0 1000.    (* S_IFREG | 0644 *)
Definition lnkE : elem := EEntry 41471 0 0 1000.    (* S_IFLNK | 0777 *)
Definition w_up_out : bytes := [46; 46; 47] ++ w_out.   (* "../out" *)

(* root dir; d/; d/e/; Goodbye (leaves e); [Entry Payload] with no name: file AT d;
   [Entry Symlink] with no name: link AT d -> ../out; file x below d *)
Definition w_nameless : list elem :=
  [dirE; EFilename w_d; dirE; EFilename w_e; dirE; EGoodbye;
   regE; EPayload [7];
   lnkE; ESymlink w_up_out;
   EFilename w_x; regE; EPayload [9; 9]; EGoodbye; EGoodbye].

(* root dir; file "../out/x" *)
Definition w_dotdot : list elem :=
  [dirE; EFilename (w_up_out ++ [47] ++ w_x); regE; EPayload [9]; EGoodbye].

(* a well-formed archive: root dir, a link s -> ../out, d/, d/x, a second entry named s (a file) *)
Definition w_s : name := [115].
Definition w_benign : list elem :=
  [dirE; EFilename w_d; dirE; EFilename w_x; regE; EPayload [5]; EGoodbye;
   EFilename w_s; lnkE; ESymlink w_up_out; EFilename w_s; regE; EPayload [6]; EGoodbye].

Definition escapes (pol : policy) (els : list elem) : Prop :=
  is_dir_at w_root wit_fs /\ beneath w_root w_victim = false /\
  snd (untar pol w_opts (rootstr w_root) els wit_fs) = Done /\
  stat w_victim (w_fs (fst (untar pol w_opts (rootstr w_root) els wit_fs))) <> stat w_victim wit_fs.

Lemma nameless_escapes : escapes Fix1 w_nameless.
Proof.
  split; [do 2 eexists; vm_compute; reflexivity|].
  split; [vm_compute; reflexivity|]. split; [vm_compute; reflexivity|].
  vm_compute. discriminate.
Qed.

Lemma dotdot_escapes : escapes PreFix w_dotdot.
Proof.
  split; [do 2 eexists; vm_compute; reflexivity|].
  split; [vm_compute; reflexivity|]. split; [vm_compute; reflexivity|].
  vm_compute. discriminate.
Qed.

(* the decoder as it is now refuses both archives *)
Lemma nameless_rejected_now : snd (untar Fixed w_opts (rootstr w_root) w_nameless wit_fs) = DecodeError.
Proof. vm_compute. reflexivity. Qed.

Lemma dotdot_rejected : snd (untar Fixed w_opts (rootstr w_root) w_dotdot wit_fs) = DecodeError.
Proof. vm_compute. reflexivity. Qed.

(* every Filename element of the first archive is a valid name: the check of 41ef764 does not see it *)
Lemma nameless_names_valid :
  Forall (fun e => match e with EFilename n => bad_name n = false | _ => True end) w_nameless.
Proof. repeat constructor. Qed.

(* ---------- the hypotheses of untar_confined are satisfiable, and runs that matter ---------- *)

Ltac solve_real := split; [reflexivity|intros H; cbn in H; repeat (destruct H as [H|H]; [discriminate H|]); exact H].

Lemma w_root_real : Forall real_elem w_root.
Proof. repeat (constructor; [solve_real|]). constructor. Qed.

Lemma w_root_dir : is_dir_at w_root wit_fs.
Proof. do 2 eexists. vm_compute. reflexivity. Qed.

(* a well-formed archive with a link "s" -> ../out followed by a FILE named "s": the link is
   removed, the file is created in the destination, /sb/out/x is untouched *)
Lemma benign_run :
  snd (untar Fixed w_opts (rootstr w_root) w_benign wit_fs) = Done /\
  stat (w_root ++ [w_s]) (w_fs (fst (untar Fixed w_opts (rootstr w_root) w_benign wit_fs)))
    = Some (EFile (mkMeta 420 0 0 1000 []) [6]) /\
  stat w_victim (w_fs (fst (untar Fixed w_opts (rootstr w_root) w_benign wit_fs))) = stat w_victim wit_fs /\
  length (w_touched (fst (untar Fixed w_opts (rootstr w_root) w_benign wit_fs))) = 19%nat.
Proof. vm_compute. repeat split. Qed.

(* link "s" -> ../out, then a DIRECTORY named "s" with a file below: CreateDir's Lstat sees
   the link and stops the run *)
Definition w_link_then_dir : list elem :=
  [dirE; EFilename w_s; lnkE; ESymlink w_up_out; EFilename w_s; dirE; EFilename w_x; regE; EPayload [9]; EGoodbye; EGoodbye].
Lemma link_then_dir_stops :
  snd (untar Fixed w_opts (rootstr w_root) w_link_then_dir wit_fs) = WriteError EEXIST /\
  stat w_victim (w_fs (fst (untar Fixed w_opts (rootstr w_root) w_link_then_dir wit_fs))) = stat w_victim wit_fs.
Proof. vm_compute. split; reflexivity. Qed.

(* the destination already holds a link "d" -> ../out (an earlier extraction): same *)
Definition wit_fs_pre : node :=
  Dir meta0 [(w_sb, Dir meta0 [(w_dest, Dir meta0 [(w_d, Symlink meta0 w_up_out)]);
                               (w_out, Dir meta0 [(w_x, File meta0 [1; 2; 3])])])].
Definition w_into_pre : list elem := [dirE; EFilename w_d; dirE; EFilename w_x; regE; EPayload [9]; EGoodbye; EGoodbye].
Lemma pre_existing_link_stops :
  snd (untar Fixed w_opts (rootstr w_root) w_into_pre wit_fs_pre) = WriteError EEXIST /\
  stat w_victim (w_fs (fst (untar Fixed w_opts (rootstr w_root) w_into_pre wit_fs_pre))) = stat w_victim wit_fs_pre.
Proof. vm_compute. split; reflexivity. Qed.

(* the first entry may be a regular file: it replaces the destination itself, the decoder accepts nothing after it *)
Definition w_file_root : list elem := [regE; EPayload [1]; EFilename w_x; regE; EPayload [2]].
Lemma file_root_run :
  snd (untar Fixed w_opts (rootstr w_root) w_file_root wit_fs) = DecodeError /\
  stat w_root (w_fs (fst (untar Fixed w_opts (rootstr w_root) w_file_root wit_fs))) = Some (EFile (mkMeta 420 0 0 1000 []) [1]) /\
  stat w_victim (w_fs (fst (untar Fixed w_opts (rootstr w_root) w_file_root wit_fs))) = stat w_victim wit_fs.
Proof. vm_compute. repeat split. Qed.

(* ---------- the refutations, in the form Props/C18.v states them ---------- *)

Lemma untar_nameless_refuted :
  exists (elems : list elem) (fs : node) (root victim : path),
    Forall (fun e => match e with EFilename n => bad_name n = false | _ => True end) elems /\
    root <> [] /\ Forall real_elem root /\ is_dir_at root fs /\ beneath root victim = false /\
    snd (untar Fix1 (mkOpts false false) (rootstr root) elems fs) = Done /\
    stat victim (Untar.w_fs (fst (untar Fix1 (mkOpts false false) (rootstr root) elems fs))) <> stat victim fs.
Proof.
  exists w_nameless, wit_fs, w_root, w_victim. split; [exact nameless_names_valid|].
  split; [discriminate|]. split; [exact w_root_real|]. exact nameless_escapes.
Qed.

Lemma untar_dotdot_refuted :
  exists (elems : list elem) (fs : node) (root victim : path),
    root <> [] /\ Forall real_elem root /\ is_dir_at root fs /\ beneath root victim = false /\
    snd (untar PreFix (mkOpts false false) (rootstr root) elems fs) = Done /\
    stat victim (Untar.w_fs (fst (untar PreFix (mkOpts false false) (rootstr root) elems fs))) <> stat victim fs.
Proof.
  exists w_dotdot, wit_fs, w_root, w_victim.
  split; [discriminate|]. split; [exact w_root_real|]. exact dotdot_escapes.
Qed.

(* ---------- the destination does not exist yet ---------- *)

(* /sb/out/x, no /sb/dest *)
Definition wit_fs_absent : node :=
  Dir meta0 [(w_sb, Dir meta0 [(w_out, Dir meta0 [(w_x, File meta0 [1; 2; 3])])])].

(* the root entry is a link -> "out" (created AT /sb/dest), then a file x *)
Definition w_root_link : list elem := [lnkE; ESymlink w_out; EFilename w_x; regE; EPayload [9]].

Lemma untar_leafroot_refuted :
  exists (elems : list elem) (fs : node) (root victim : path),
    root <> [] /\ Forall real_elem root /\ parent_ok root fs /\ not_link_at root fs /\ beneath root victim = false /\
    snd (untar Fix2 (mkOpts false false) (rootstr root) elems fs) = Done /\
    stat victim (Untar.w_fs (fst (untar Fix2 (mkOpts false false) (rootstr root) elems fs))) <> stat victim fs.
Proof.
  exists w_root_link, wit_fs_absent, w_root, w_victim.
  split; [discriminate|]. split; [exact w_root_real|].
  split; [do 2 eexists; vm_compute; reflexivity|].
  split; [intros m t; vm_compute; discriminate|].
  split; [vm_compute; reflexivity|]. split; [vm_compute; reflexivity|]. vm_compute. discriminate.
Qed.

(* the decoder as it is now stops after the root link: /sb/dest is the link, nothing else happened *)
Lemma root_link_now :
  snd (untar Fixed w_opts (rootstr w_root) w_root_link wit_fs_absent) = DecodeError /\
  stat w_root (Untar.w_fs (fst (untar Fixed w_opts (rootstr w_root) w_root_link wit_fs_absent)))
    = Some (ELink (mkMeta 511 0 0 1000 []) w_out) /\
  stat w_victim (Untar.w_fs (fst (untar Fixed w_opts (rootstr w_root) w_root_link wit_fs_absent))) = stat w_victim wit_fs_absent.
Proof. vm_compute. repeat split. Qed.

(* an absent destination and a directory as the root entry: the destination is created *)
Lemma absent_dest_created :
  parent_ok w_root wit_fs_absent /\ not_link_at w_root wit_fs_absent /\ ~ is_dir_at w_root wit_fs_absent /\
  snd (untar Fixed w_opts (rootstr w_root) w_benign wit_fs_absent) = Done /\
  is_dir_at w_root (Untar.w_fs (fst (untar Fixed w_opts (rootstr w_root) w_benign wit_fs_absent))).
Proof.
  split; [do 2 eexists; vm_compute; reflexivity|]. split; [intros m t; vm_compute; discriminate|].
  split; [intros [m [l E]]; vm_compute in E; discriminate|]. split; [vm_compute; reflexivity|].
  do 2 eexists. vm_compute. reflexivity.
Qed.
