(* C18: concrete witnesses (vm_compute) -- the escapes of the decoder as it is now (an
   entry without a Filename element) and of the decoder before commit 41ef764 (a
   Filename element "../out/x"), and runs showing that the hypotheses of the
   confinement theorems are satisfiable. *)
From Coq Require Import List NArith Bool.
From DS Require Import Base.Bytes Base.FS Base.GoPath Model.FSLinks Model.ArchiveNames Model.Untar.
Import ListNotations.
Local Open Scope N_scope.

(* "sb", "dest", "out", "x", "d", "e" *)
Definition w_sb : name := [115; 98].
Definition w_dest : name := [100; 101; 115; 116].
Definition w_out : name := [111; 117; 116].
Definition w_x : name := [120].
Definition w_d : name := [100].
Definition w_e : name := [101].

(* /sb/dest (empty) next to /sb/out/x *)
Definition wit_fs : node :=
  Dir meta0 [(w_sb, Dir meta0 [(w_dest, Dir meta0 []); (w_out, Dir meta0 [(w_x, File meta0 [1; 2; 3])])])].
Definition w_root : path := [w_sb; w_dest].
Definition w_victim : path := [w_sb; w_out; w_x].
Definition w_opts : opts := mkOpts false false.

Definition dirE : elem := EEntry 16877 0 0 1000.    (* S_IFDIR | 0755 *)
Definition regE : elem := EEntry 33188 0 0 1000.    (* S_IFREG | 0644 *)
Definition lnkE : elem := EEntry 41471 0 0 1000.    (* S_IFLNK | 0777 *)
Definition w_up_out : bytes := [46; 46; 47] ++ w_out.   (* "../out" *)

(* root dir; d/; d/e/; Goodbye (leaves e); [Entry Payload] with no name: file AT d;
   [Entry Symlink] with no name: link AT d -> ../out; file x below d *)
Definition w_nameless : list elem :=
  [dirE; EFilename w_d; dirE; EFilename w_e; dirE; EGoodbye;
   regE; EPayload [7];
   lnkE; ESymlink w_up_out;
   EFilename w_x; regE; EPayload [9; 9]; EGoodbye; EGoodbye].

(* root dir; file "../out/x" *)
Definition w_dotdot : list elem :=
  [dirE; EFilename (w_up_out ++ [47] ++ w_x); regE; EPayload [9]; EGoodbye].

(* a well-formed archive: root dir, a link s -> ../out, d/, d/x, a second entry named s (a file) *)
Definition w_s : name := [115].
Definition w_benign : list elem :=
  [dirE; EFilename w_d; dirE; EFilename w_x; regE; EPayload [5]; EGoodbye;
   EFilename w_s; lnkE; ESymlink w_up_out; EFilename w_s; regE; EPayload [6]; EGoodbye].

Definition escapes (pol : policy) (els : list elem) : Prop :=
  is_dir_at w_root wit_fs /\ beneath w_root w_victim = false /\
  snd (untar pol w_opts (rootstr w_root) els wit_fs) = Done /\
  stat w_victim (w_fs (fst (untar pol w_opts (rootstr w_root) els wit_fs))) <> stat w_victim wit_fs.

Lemma nameless_escapes : escapes Fix1 w_nameless.
Proof.
  split; [do 2 eexists; vm_compute; reflexivity|].
  split; [vm_compute; reflexivity|]. split; [vm_compute; reflexivity|].
  vm_compute. discriminate.
Qed.

Lemma dotdot_escapes : escapes PreFix w_dotdot.
Proof.
  split; [do 2 eexists; vm_compute; reflexivity|].
  split; [vm_compute; reflexivity|]. split; [vm_compute; reflexivity|].
  vm_compute. discriminate.
Qed.

(* the decoder as it is now refuses both archives *)
Lemma nameless_rejected_now : snd (untar Fixed w_opts (rootstr w_root) w_nameless wit_fs) = DecodeError.
Proof. vm_compute. reflexivity. Qed.

Lemma dotdot_rejected : snd (untar Fixed w_opts (rootstr w_root) w_dotdot wit_fs) = DecodeError.
Proof. vm_compute. reflexivity. Qed.

(* every Filename element of the first archive is a valid name: the check of 41ef764 does not see it *)
Lemma nameless_names_valid :
  Forall (fun e => match e with EFilename n => bad_name n = false | _ => True end) w_nameless.
Proof. repeat constructor. Qed.
