(* Lemmas about the de-duplication queues (Model/Dedup.v). *)
From Coq Require Import List Arith Bool Lia.
From DS Require Import Base.Sched Model.Dedup.
Import ListNotations.

(* ---------- lists ---------- *)

Lemma length_upd {A} (l : list A) i x : length (upd l i x) = length l.
Proof. revert i; induction l as [|y l IH]; intros [|i]; cbn; auto. Qed.

Lemma nth_upd_eq {A} (l : list A) i x y : nth_error l i = Some y -> nth_error (upd l i x) i = Some x.
Proof. revert i; induction l as [|z l IH]; intros [|i]; cbn; intros E; try discriminate; auto. Qed.

Lemma nth_upd_neq {A} (l : list A) i j x : i <> j -> nth_error (upd l i x) j = nth_error l j.
Proof.
  revert i j; induction l as [|z l IH]; intros [|i] [|j] Hne; cbn; auto; try congruence.
Qed.

Lemma nth_upd {A} (l : list A) i j x y : nth_error l i = Some y ->
  nth_error (upd l i x) j = if Nat.eqb j i then Some x else nth_error l j.
Proof.
  intros E. destruct (Nat.eqb_spec j i) as [->|Hne]; [eapply nth_upd_eq; eauto|apply nth_upd_neq; auto].
Qed.

Lemma nth_app_new {A} (l : list A) x j :
  nth_error (l ++ [x]) j = if Nat.eqb j (length l) then Some x else nth_error l j.
Proof.
  destruct (Nat.eqb_spec j (length l)) as [->|Hne].
  - rewrite nth_error_app2 by lia. rewrite Nat.sub_diag. reflexivity.
  - destruct (Nat.lt_ge_cases j (length l)).
    + apply nth_error_app1; auto.
    + rewrite nth_error_app2 by lia. destruct (j - length l) as [|[|k]] eqn:E; try lia; cbn.
      all: symmetry; apply nth_error_None; lia.
Qed.

Lemma filter_length_le1 {A} (P : A -> bool) (l : list A) :
  (forall n m x y, nth_error l n = Some x -> nth_error l m = Some y -> P x = true -> P y = true -> n = m) ->
  length (filter P l) <= 1.
Proof.
  induction l as [|a l IH]; intros H; cbn; [lia|].
  destruct (P a) eqn:Pa.
  - cbn. assert (filter P l = []) as ->; [|cbn; lia].
    destruct (filter P l) as [|b r] eqn:F; [reflexivity|exfalso].
    assert (In b (filter P l)) as Hb by (rewrite F; left; reflexivity).
    apply filter_In in Hb. destruct Hb as [Hin Pb].
    apply In_nth_error in Hin. destruct Hin as [m Hm].
    specialize (H 0 (S m) a b eq_refl Hm Pa Pb). discriminate.
  - apply IH. intros n m x y Hn Hm Px Py.
    specialize (H (S n) (S m) x y Hn Hm Px Py). lia.
Qed.

(* ---------- the queue maps ---------- *)

Lemma kind_eqb_eq a b : kind_eqb a b = true <-> a = b.
Proof. destruct a, b; cbn; split; congruence. Qed.

Lemma key_eqb_spec k i e : key_eqb k i e = true <-> fst (fst e) = k /\ snd (fst e) = i.
Proof.
  unfold key_eqb. rewrite andb_true_iff, kind_eqb_eq, Nat.eqb_eq. tauto.
Qed.

Lemma qfind_cons q k d r k' d' :
  qfind ((k, d, r) :: q) k' d' = if kind_eqb k k' && Nat.eqb d d' then Some r else qfind q k' d'.
Proof. reflexivity. Qed.

Lemma key_same k d : kind_eqb k k && Nat.eqb d d = true.
Proof. rewrite (proj2 (kind_eqb_eq k k) eq_refl), Nat.eqb_refl. reflexivity. Qed.

Lemma qfind_qdel q k d k' d' :
  qfind (qdel q k d) k' d' = if kind_eqb k k' && Nat.eqb d d' then None else qfind q k' d'.
Proof.
  unfold qdel. induction q as [|e q IH]; cbn [filter qfind].
  - destruct (kind_eqb k k' && Nat.eqb d d'); reflexivity.
  - destruct (key_eqb k d e) eqn:E1; cbn [negb].
    + rewrite IH. apply key_eqb_spec in E1. destruct e as [[a b] c]. cbn in E1. destruct E1; subst.
      destruct (kind_eqb k k' && Nat.eqb d d') eqn:E; [reflexivity|].
      unfold key_eqb; cbn [fst snd]. rewrite E. reflexivity.
    + cbn [qfind]. rewrite IH. destruct (key_eqb k' d' e) eqn:E2; [|reflexivity].
      apply key_eqb_spec in E2. destruct e as [[a b] c]. cbn in E2. destruct E2; subst.
      destruct (kind_eqb k k' && Nat.eqb d d') eqn:E3; [|reflexivity]. exfalso.
      apply andb_true_iff in E3. destruct E3 as [Ea Eb].
      apply kind_eqb_eq in Ea. apply Nat.eqb_eq in Eb. subst.
      unfold key_eqb in E1. cbn [fst snd] in E1. rewrite key_same in E1. discriminate.
Qed.

Lemma key_diff k d k' d' : (k, d) <> (k', d') -> kind_eqb k k' && Nat.eqb d d' = false.
Proof.
  intros Hne. destruct (kind_eqb k k' && Nat.eqb d d') eqn:E; [|reflexivity].
  apply andb_true_iff in E. destruct E as [Ea Eb].
  apply kind_eqb_eq in Ea. apply Nat.eqb_eq in Eb. subst. congruence.
Qed.

(* ---------- program counters ---------- *)

Definition leader_of (p : pc) : option nat :=
  match p with PLead r | PUp r _ | PGot r _ | PMarked r _ => Some r | _ => None end.

Definition unmarked_leader (p : pc) : option nat :=
  match p with PLead r | PUp r _ | PGot r _ => Some r | _ => None end.

Definition tkind (t : thread) : kind := kind_of (c_op (t_call t)).
Definition tid_ (t : thread) : id := c_id (t_call t).

Lemma set_pc_call t p now : t_call (set_pc t p now) = t_call t.
Proof. reflexivity. Qed.
Lemma set_pc_pc t p now : t_pc (set_pc t p now) = p.
Proof. reflexivity. Qed.
Lemma set_obt_call t r now : t_call (set_obt t r now) = t_call t.
Proof. reflexivity. Qed.

(* [match nth_error l r with Some q => upd l r (f q) | None => l end] modifies entry r in place *)
Lemma nth_modify {A} (l : list A) r (f : A -> A) j :
  nth_error (match nth_error l r with Some q => upd l r (f q) | None => l end) j =
  match nth_error l j with Some q => Some (if Nat.eqb j r then f q else q) | None => None end.
Proof.
  destruct (nth_error l r) as [q|] eqn:E.
  - rewrite (nth_upd l r j (f q) q E). destruct (Nat.eqb_spec j r) as [->|Hne].
    + rewrite E. reflexivity.
    + destruct (nth_error l j); reflexivity.
  - destruct (Nat.eqb_spec j r) as [->|Hne].
    + rewrite E. reflexivity.
    + destruct (nth_error l j); reflexivity.
Qed.

(* ---------- the protocol invariant ---------- *)

Record Inv (s : state) : Prop := {
  (* an entry of a queue map is a live record whose leader is between loadOrStore and delete *)
  inv_q : forall k d r, qfind (queue s) k d = Some r ->
    exists q tl, nth_error (reqs s) r = Some q /\ q_kind q = k /\ q_id q = d /\ q_del q = None /\
                 nth_error (thr s) (q_leader q) = Some tl /\ leader_of (t_pc tl) = Some r;
  (* a leader's record is the entry of its (kind, id); done/result are set exactly by markDone *)
  inv_lead : forall i t r, nth_error (thr s) i = Some t -> leader_of (t_pc t) = Some r ->
    qfind (queue s) (tkind t) (tid_ t) = Some r /\
    exists q, nth_error (reqs s) r = Some q /\ q_leader q = i /\
              match t_pc t with
              | PMarked _ res => q_done q = true /\ q_res q = Some res
              | _ => q_done q = false
              end;
  (* a follower waits on a record that is done, or whose leader has not yet reached markDone *)
  inv_wait : forall i t r, nth_error (thr s) i = Some t -> t_pc t = PWait r ->
    exists q, nth_error (reqs s) r = Some q /\
      ((q_done q = true /\ q_res q <> None) \/
       (exists tl, nth_error (thr s) (q_leader q) = Some tl /\ unmarked_leader (t_pc tl) = Some r));
  (* upstream calls in flight belong to leaders in PUp, and vice versa *)
  inv_up : forall i t r n, nth_error (thr s) i = Some t -> t_pc t = PUp r n ->
    exists u, nth_error (ups s) n = Some u /\ u_ret u = None /\ u_by u = i /\ u_req u = r /\
              u_kind u = tkind t /\ u_id u = tid_ t;
  inv_open : forall n u, nth_error (ups s) n = Some u -> u_ret u = None ->
    exists t, nth_error (thr s) (u_by u) = Some t /\ t_pc t = PUp (u_req u) n /\
              u_kind u = tkind t /\ u_id u = tid_ t;
}.

Lemma inv_init calls : Inv (init calls).
Proof.
  split; cbn.
  - discriminate.
  - intros i t r Ht Hl. rewrite nth_error_map in Ht. destruct (nth_error calls i); inversion Ht; subst. discriminate.
  - intros i t r Ht Hp. rewrite nth_error_map in Ht. destruct (nth_error calls i); inversion Ht; subst. discriminate.
  - intros i t r n Ht Hp. rewrite nth_error_map in Ht. destruct (nth_error calls i); inversion Ht; subst. discriminate.
  - intros [|n] u E; discriminate.
Qed.

(* two leaders of the same (kind, id) are the same thread on the same record *)
Lemma leader_unique s i j ti tj ri rj : Inv s ->
  nth_error (thr s) i = Some ti -> nth_error (thr s) j = Some tj ->
  leader_of (t_pc ti) = Some ri -> leader_of (t_pc tj) = Some rj ->
  tkind ti = tkind tj -> tid_ ti = tid_ tj -> i = j /\ ri = rj.
Proof.
  intros HI Hi Hj Li Lj Ek Ed.
  destruct (inv_lead s HI i ti ri Hi Li) as (Qi & qi & Hqi & Lqi & _).
  destruct (inv_lead s HI j tj rj Hj Lj) as (Qj & qj & Hqj & Lqj & _).
  rewrite Ek, Ed in Qi. rewrite Qi in Qj. inversion Qj; subst rj.
  rewrite Hqi in Hqj. inversion Hqj; subst qj. split; congruence.
Qed.

Lemma leader_by_record s i j ti tj r : Inv s ->
  nth_error (thr s) i = Some ti -> nth_error (thr s) j = Some tj ->
  leader_of (t_pc ti) = Some r -> leader_of (t_pc tj) = Some r -> i = j.
Proof.
  intros HI Hi Hj Li Lj.
  destruct (inv_lead s HI i ti r Hi Li) as (_ & qi & Hqi & Lqi & _).
  destruct (inv_lead s HI j tj r Hj Lj) as (_ & qj & Hqj & Lqj & _).
  congruence.
Qed.

Lemma unmarked_is_leader p r : unmarked_leader p = Some r -> leader_of p = Some r.
Proof. destruct p; cbn; congruence. Qed.

(* thread i changes only its pc, from a pc that is neither leader nor upstream to one that is neither
   leader, waiting, nor upstream: nothing the invariant says is touched *)
Lemma idle_pc_inv s i t t' now : Inv s ->
  nth_error (thr s) i = Some t -> leader_of (t_pc t) = None ->
  leader_of (t_pc t') = None -> (forall r, t_pc t' <> PWait r) ->
  Inv {| queue := queue s; reqs := reqs s; thr := upd (thr s) i t'; ups := ups s; clock := now |}.
Proof.
  intros HI Et Hl Hl' Hw.
  assert (Hother : forall j tj, nth_error (upd (thr s) i t') j = Some tj -> j <> i -> nth_error (thr s) j = Some tj).
  { intros j tj Hj Hne. rewrite nth_upd_neq in Hj by auto. exact Hj. }
  assert (Hkeep : forall j tj, nth_error (thr s) j = Some tj -> leader_of (t_pc tj) <> None ->
                               nth_error (upd (thr s) i t') j = Some tj).
  { intros j tj Hj Hne. rewrite nth_upd_neq; auto. intros ->. rewrite Et in Hj. inversion Hj; subst. auto. }
  split; cbn [queue reqs thr ups].
  - intros k d r Hq. destruct (inv_q s HI k d r Hq) as (q & tl & Hr & Hk & Hd & Hdel & Htl & Hlead).
    exists q, tl. repeat split; auto. apply Hkeep; auto. congruence.
  - intros j tj r Hj Hlj. destruct (Nat.eq_dec j i) as [->|Hne].
    + rewrite (nth_upd_eq _ _ _ _ Et) in Hj. inversion Hj; subst. congruence.
    + apply (inv_lead s HI j tj r); auto.
  - intros j tj r Hj Hp. destruct (Nat.eq_dec j i) as [->|Hne].
    + rewrite (nth_upd_eq _ _ _ _ Et) in Hj. inversion Hj; subst. exfalso. eapply Hw; eauto.
    + destruct (inv_wait s HI j tj r (Hother _ _ Hj Hne) Hp) as (q & Hr & Hcase).
      exists q. split; auto. destruct Hcase as [Hd|(tl & Htl & Hul)]; [left; auto|right].
      exists tl. split; auto. apply Hkeep; auto. rewrite (unmarked_is_leader _ _ Hul). discriminate.
  - intros j tj r n Hj Hp. destruct (Nat.eq_dec j i) as [->|Hne].
    + rewrite (nth_upd_eq _ _ _ _ Et) in Hj. inversion Hj; subst. rewrite Hp in Hl'. discriminate.
    + apply (inv_up s HI j tj r n); auto.
  - intros n u Hn Ho. destruct (inv_open s HI n u Hn Ho) as (tu & Htu & Hpu & Hku).
    exists tu. repeat split; try tauto. apply Hkeep; auto. rewrite Hpu. discriminate.
Qed.

(* thread i attaches as a follower to the record found under some key *)
Lemma attach_inv s i t t' k d r now : Inv s ->
  nth_error (thr s) i = Some t -> leader_of (t_pc t) = None ->
  qfind (queue s) k d = Some r -> t_pc t' = PWait r ->
  Inv {| queue := queue s; reqs := reqs s; thr := upd (thr s) i t'; ups := ups s; clock := now |}.
Proof.
  intros HI Et Hl Hq Hp'.
  assert (Hother : forall j tj, nth_error (upd (thr s) i t') j = Some tj -> j <> i -> nth_error (thr s) j = Some tj).
  { intros j tj Hj Hne. rewrite nth_upd_neq in Hj by auto. exact Hj. }
  assert (Hkeep : forall j tj, nth_error (thr s) j = Some tj -> leader_of (t_pc tj) <> None ->
                               nth_error (upd (thr s) i t') j = Some tj).
  { intros j tj Hj Hne. rewrite nth_upd_neq; auto. intros ->. rewrite Et in Hj. inversion Hj; subst. auto. }
  split; cbn [queue reqs thr ups].
  - intros k0 d0 r0 Hq0. destruct (inv_q s HI k0 d0 r0 Hq0) as (q & tl & Hr & Hk & Hd & Hdel & Htl & Hlead).
    exists q, tl. repeat split; auto. apply Hkeep; auto. congruence.
  - intros j tj r0 Hj Hlj. destruct (Nat.eq_dec j i) as [->|Hne].
    + rewrite (nth_upd_eq _ _ _ _ Et) in Hj. inversion Hj; subst. rewrite Hp' in Hlj. discriminate.
    + apply (inv_lead s HI j tj r0); auto.
  - intros j tj r0 Hj Hp. destruct (Nat.eq_dec j i) as [->|Hne].
    + rewrite (nth_upd_eq _ _ _ _ Et) in Hj. inversion Hj; subst tj. rewrite Hp' in Hp. inversion Hp; subst r0.
      destruct (inv_q s HI k d r Hq) as (q & tl & Hr & Hk & Hd & Hdel & Htl & Hlead).
      exists q. split; auto.
      destruct (inv_lead s HI (q_leader q) tl r Htl Hlead) as (_ & q' & Hr' & _ & Hst).
      rewrite Hr in Hr'. inversion Hr'; subst q'.
      destruct (t_pc tl) eqn:Epl; cbn in Hlead; try discriminate; inversion Hlead; subst.
      * right. exists tl. split; [apply Hkeep; auto; rewrite Epl; discriminate|rewrite Epl; reflexivity].
      * right. exists tl. split; [apply Hkeep; auto; rewrite Epl; discriminate|rewrite Epl; reflexivity].
      * right. exists tl. split; [apply Hkeep; auto; rewrite Epl; discriminate|rewrite Epl; reflexivity].
      * left. destruct Hst as [Hd1 Hd2]. split; auto. congruence.
    + destruct (inv_wait s HI j tj r0 (Hother _ _ Hj Hne) Hp) as (q & Hr & Hcase).
      exists q. split; auto. destruct Hcase as [Hd|(tl & Htl & Hul)]; [left; auto|right].
      exists tl. split; auto. apply Hkeep; auto. rewrite (unmarked_is_leader _ _ Hul). discriminate.
  - intros j tj r0 n Hj Hp. destruct (Nat.eq_dec j i) as [->|Hne].
    + rewrite (nth_upd_eq _ _ _ _ Et) in Hj. inversion Hj; subst. congruence.
    + apply (inv_up s HI j tj r0 n); auto.
  - intros n u Hn Ho. destruct (inv_open s HI n u Hn Ho) as (tu & Htu & Hpu & Hku).
    exists tu. repeat split; try tauto. apply Hkeep; auto. rewrite Hpu. discriminate.
Qed.

Lemma nth_app_old {A} (l : list A) x j y : nth_error l j = Some y -> nth_error (l ++ [x]) j = Some y.
Proof.
  intros E. rewrite nth_error_app1; auto. apply nth_error_Some. congruence.
Qed.

(* thread i registers a new record as the leader of its (kind, id) *)
Lemma register_inv s i t t' nq now : Inv s ->
  nth_error (thr s) i = Some t -> leader_of (t_pc t) = None ->
  qfind (queue s) (tkind t) (tid_ t) = None ->
  t_pc t' = PLead (length (reqs s)) -> t_call t' = t_call t ->
  q_kind nq = tkind t -> q_id nq = tid_ t -> q_done nq = false -> q_leader nq = i -> q_del nq = None ->
  Inv {| queue := (tkind t, tid_ t, length (reqs s)) :: queue s; reqs := reqs s ++ [nq];
         thr := upd (thr s) i t'; ups := ups s; clock := now |}.
Proof.
  intros HI Et Hl Hq Hp' Hc' Nk Nd Ndone Nl Ndel.
  assert (Hother : forall j tj, nth_error (upd (thr s) i t') j = Some tj -> j <> i -> nth_error (thr s) j = Some tj).
  { intros j tj Hj Hne. rewrite nth_upd_neq in Hj by auto. exact Hj. }
  assert (Hkeep : forall j tj, nth_error (thr s) j = Some tj -> leader_of (t_pc tj) <> None ->
                               nth_error (upd (thr s) i t') j = Some tj).
  { intros j tj Hj Hne. rewrite nth_upd_neq; auto. intros ->. rewrite Et in Hj. inversion Hj; subst. auto. }
  assert (Hi' : nth_error (upd (thr s) i t') i = Some t') by (eapply nth_upd_eq; eauto).
  assert (Hk' : tkind t' = tkind t) by (unfold tkind; rewrite Hc'; reflexivity).
  assert (Hd' : tid_ t' = tid_ t) by (unfold tid_; rewrite Hc'; reflexivity).
  split; cbn [queue reqs thr ups].
  - intros k0 d0 r0 Hq0. rewrite qfind_cons in Hq0.
    destruct (kind_eqb (tkind t) k0 && Nat.eqb (tid_ t) d0) eqn:E.
    + inversion Hq0; subst r0. apply andb_true_iff in E. destruct E as [Ea Eb].
      apply kind_eqb_eq in Ea. apply Nat.eqb_eq in Eb. subst k0 d0.
      exists nq, t'. rewrite nth_app_new, Nat.eqb_refl. repeat split; auto.
      * rewrite Nl. exact Hi'.
      * rewrite Hp'. reflexivity.
    + destruct (inv_q s HI k0 d0 r0 Hq0) as (q & tl & Hr & Hk & Hd & Hdel & Htl & Hlead).
      exists q, tl. repeat split; auto; [apply nth_app_old; auto|]. apply Hkeep; auto. congruence.
  - intros j tj r0 Hj Hlj. destruct (Nat.eq_dec j i) as [->|Hne].
    + rewrite Hi' in Hj. inversion Hj; subst tj. rewrite Hp' in Hlj. cbn in Hlj. inversion Hlj; subst r0.
      rewrite Hk', Hd', qfind_cons, key_same. split; [reflexivity|].
      exists nq. rewrite nth_app_new, Nat.eqb_refl. rewrite Hp'. auto.
    + pose proof (Hother _ _ Hj Hne) as Hj0.
      destruct (inv_lead s HI j tj r0 Hj0 Hlj) as (Hqj & q & Hr & Hlq & Hst).
      split.
      * rewrite qfind_cons, key_diff; auto. intros Heq. inversion Heq as [[Ek Ed]].
        rewrite <- Ek, <- Ed in Hqj. congruence.
      * exists q. split; [apply nth_app_old; auto|auto].
  - intros j tj r0 Hj Hp. destruct (Nat.eq_dec j i) as [->|Hne].
    + rewrite Hi' in Hj. inversion Hj; subst. congruence.
    + destruct (inv_wait s HI j tj r0 (Hother _ _ Hj Hne) Hp) as (q & Hr & Hcase).
      exists q. split; [apply nth_app_old; auto|]. destruct Hcase as [Hd|(tl & Htl & Hul)]; [left; auto|right].
      exists tl. split; auto. apply Hkeep; auto. rewrite (unmarked_is_leader _ _ Hul). discriminate.
  - intros j tj r0 n Hj Hp. destruct (Nat.eq_dec j i) as [->|Hne].
    + rewrite Hi' in Hj. inversion Hj; subst. congruence.
    + apply (inv_up s HI j tj r0 n); auto.
  - intros n u Hn Ho. destruct (inv_open s HI n u Hn Ho) as (tu & Htu & Hpu & Hku).
    exists tu. repeat split; try tauto. apply Hkeep; auto. rewrite Hpu. discriminate.
Qed.

(* Common part of the leader's steps PLead -> PUp -> PGot -> PMarked: thread i stays the leader of record r,
   record r is rewritten by [f] (which keeps kind, id, leader, removal time and never resets done/result),
   and the upstream log becomes [ups'] (obligations about it are passed in). *)
Lemma leader_step_inv s i t t' r f ups' now : Inv s ->
  nth_error (thr s) i = Some t -> leader_of (t_pc t) = Some r -> leader_of (t_pc t') = Some r ->
  t_call t' = t_call t ->
  (forall q, q_kind (f q) = q_kind q /\ q_id (f q) = q_id q /\ q_leader (f q) = q_leader q /\ q_del (f q) = q_del q) ->
  (forall q, q_done q = true -> q_res q <> None -> q_done (f q) = true /\ q_res (f q) <> None) ->
  (forall q, nth_error (reqs s) r = Some q ->
     match t_pc t' with PMarked _ res => q_done (f q) = true /\ q_res (f q) = Some res | _ => q_done (f q) = false end) ->
  (forall q, nth_error (reqs s) r = Some q ->
     unmarked_leader (t_pc t') = Some r \/ (q_done (f q) = true /\ q_res (f q) <> None)) ->
  (* upstream obligations *)
  (forall n, t_pc t' = PUp r n ->
     exists u, nth_error ups' n = Some u /\ u_ret u = None /\ u_by u = i /\ u_req u = r /\ u_kind u = tkind t /\ u_id u = tid_ t) ->
  (forall j tj r0 n u, j <> i -> nth_error (thr s) j = Some tj -> t_pc tj = PUp r0 n ->
     nth_error (ups s) n = Some u -> u_ret u = None -> nth_error ups' n = Some u) ->
  (forall n u, nth_error ups' n = Some u -> u_ret u = None ->
     (nth_error (ups s) n = Some u /\ u_by u <> i) \/ (u_by u = i /\ u_req u = r /\ t_pc t' = PUp r n /\ u_kind u = tkind t /\ u_id u = tid_ t)) ->
  Inv {| queue := queue s;
         reqs := match nth_error (reqs s) r with Some q => upd (reqs s) r (f q) | None => reqs s end;
         thr := upd (thr s) i t'; ups := ups'; clock := now |}.
Proof.
  intros HI Et Hl Hl' Hc' Hf Hmono Hst' Hfoll Hup_i Hup_keep Hopen.
  assert (Hother : forall j tj, nth_error (upd (thr s) i t') j = Some tj -> j <> i -> nth_error (thr s) j = Some tj).
  { intros j tj Hj Hne. rewrite nth_upd_neq in Hj by auto. exact Hj. }
  assert (Hi' : nth_error (upd (thr s) i t') i = Some t') by (eapply nth_upd_eq; eauto).
  assert (Hk' : tkind t' = tkind t) by (unfold tkind; rewrite Hc'; reflexivity).
  assert (Hd' : tid_ t' = tid_ t) by (unfold tid_; rewrite Hc'; reflexivity).
  destruct (inv_lead s HI i t r Et Hl) as (Hqi & qi & Hri & Hli & Hsti).
  split; cbn [queue reqs thr ups].
  - intros k0 d0 r0 Hq0. destruct (inv_q s HI k0 d0 r0 Hq0) as (q & tl & Hr & Hk & Hd & Hdel & Htl & Hlead).
    rewrite nth_modify, Hr.
    destruct (Hf q) as (F1 & F2 & F3 & F4).
    destruct (Nat.eqb_spec r0 r) as [->|Hne].
    + exists (f q), t'. rewrite F1, F2, F3, F4. repeat split; auto.
      assert (Hlq : q_leader q = i) by (eapply leader_by_record; eauto). rewrite Hlq. exact Hi'.
    + exists q, tl. repeat split; auto.
      rewrite nth_upd_neq; auto. intros Heq. rewrite <- Heq in Htl. rewrite Et in Htl. inversion Htl; subst tl. congruence.
  - intros j tj r0 Hj Hlj. destruct (Nat.eq_dec j i) as [->|Hne].
    + rewrite Hi' in Hj. inversion Hj; subst tj. rewrite Hl' in Hlj. inversion Hlj; subst r0.
      rewrite Hk', Hd'. split; [exact Hqi|].
      exists (f qi). rewrite nth_modify, Hri, Nat.eqb_refl. destruct (Hf qi) as (_ & _ & F3 & _).
      split; [reflexivity|]. split; [congruence|]. apply Hst'; auto.
    + pose proof (Hother _ _ Hj Hne) as Hj0.
      destruct (inv_lead s HI j tj r0 Hj0 Hlj) as (Hqj & q & Hr & Hlq & Hst).
      split; auto. exists q. rewrite nth_modify, Hr.
      destruct (Nat.eqb_spec r0 r) as [->|Hner]; [|auto].
      exfalso. apply Hne. eapply leader_by_record; eauto.
  - intros j tj r0 Hj Hp. destruct (Nat.eq_dec j i) as [->|Hne].
    + rewrite Hi' in Hj. inversion Hj; subst tj. rewrite Hp in Hl'. discriminate.
    + destruct (inv_wait s HI j tj r0 (Hother _ _ Hj Hne) Hp) as (q & Hr & Hcase).
      rewrite nth_modify, Hr. destruct (Hf q) as (F1 & F2 & F3 & F4).
      destruct (Nat.eqb_spec r0 r) as [->|Hner].
      * exists (f q). split; auto. rewrite F3.
        destruct Hcase as [[Hd1 Hd2]|(tl & Htl & Hul)]; [left; apply Hmono; auto|].
        assert (Hlq : q_leader q = i) by (eapply leader_by_record; eauto using unmarked_is_leader).
        destruct (Hfoll q Hr) as [Hu|Hd]; [right; exists t'; rewrite Hlq; auto|left; auto].
      * exists q. split; auto. destruct Hcase as [Hd|(tl & Htl & Hul)]; [left; auto|right].
        exists tl. split; auto. rewrite nth_upd_neq; auto. intros Heq. rewrite <- Heq in Htl.
        rewrite Et in Htl. inversion Htl; subst tl. apply unmarked_is_leader in Hul. congruence.
  - intros j tj r0 n Hj Hp. destruct (Nat.eq_dec j i) as [->|Hne].
    + rewrite Hi' in Hj. inversion Hj; subst tj. rewrite Hp in Hl'. cbn in Hl'. inversion Hl'; subst r0.
      rewrite Hk', Hd'. apply Hup_i; auto.
    + pose proof (Hother _ _ Hj Hne) as Hj0.
      destruct (inv_up s HI j tj r0 n Hj0 Hp) as (u & Hu & Hret & Hrest).
      exists u. split; auto. eapply Hup_keep; eauto.
  - intros n u Hn Ho. destruct (Hopen n u Hn Ho) as [[Hold Hby]|(Hby & Hrq & Hp & Hk & Hd)].
    + destruct (inv_open s HI n u Hold Ho) as (tu & Htu & Hpu & Hku).
      exists tu. repeat split; try tauto. rewrite nth_upd_neq; auto.
    + exists t'. rewrite Hby, Hrq, Hk', Hd'. repeat split; auto.
Qed.

(* the leader removes its record from the queue and returns *)
Lemma delete_inv s i t t' r res0 f res now : Inv s ->
  nth_error (thr s) i = Some t -> t_pc t = PMarked r res0 -> t_pc t' = PDone res ->
  (forall q, q_kind (f q) = q_kind q /\ q_id (f q) = q_id q /\ q_leader (f q) = q_leader q /\
             q_done (f q) = q_done q /\ q_res (f q) = q_res q) ->
  Inv {| queue := qdel (queue s) (tkind t) (tid_ t);
         reqs := match nth_error (reqs s) r with Some q => upd (reqs s) r (f q) | None => reqs s end;
         thr := upd (thr s) i t'; ups := ups s; clock := now |}.
Proof.
  intros HI Et Hp Hp' Hf.
  assert (Hl : leader_of (t_pc t) = Some r) by (rewrite Hp; reflexivity).
  assert (Hother : forall j tj, nth_error (upd (thr s) i t') j = Some tj -> j <> i -> nth_error (thr s) j = Some tj).
  { intros j tj Hj Hne. rewrite nth_upd_neq in Hj by auto. exact Hj. }
  assert (Hi' : nth_error (upd (thr s) i t') i = Some t') by (eapply nth_upd_eq; eauto).
  destruct (inv_lead s HI i t r Et Hl) as (Hqi & qi & Hri & Hli & Hsti). rewrite Hp in Hsti.
  split; cbn [queue reqs thr ups].
  - intros k0 d0 r0 Hq0. rewrite qfind_qdel in Hq0.
    destruct (kind_eqb (tkind t) k0 && Nat.eqb (tid_ t) d0) eqn:E; [discriminate|].
    destruct (inv_q s HI k0 d0 r0 Hq0) as (q & tl & Hr & Hk & Hd & Hdel & Htl & Hlead).
    assert (Hne : r0 <> r).
    { intros ->. rewrite Hri in Hr. inversion Hr; subst q.
      destruct (inv_q s HI _ _ _ Hqi) as (q2 & _ & Hr2 & Hk2 & Hd2 & _). rewrite Hri in Hr2. inversion Hr2; subst q2.
      rewrite <- Hk2, <- Hd2, Hk, Hd, key_same in E. discriminate. }
    exists q, tl. rewrite nth_modify, Hr. apply Nat.eqb_neq in Hne. rewrite Hne.
    repeat split; auto. rewrite nth_upd_neq; auto. intros Heq. rewrite <- Heq in Htl. rewrite Et in Htl.
    inversion Htl; subst tl. apply Nat.eqb_neq in Hne. congruence.
  - intros j tj r0 Hj Hlj. destruct (Nat.eq_dec j i) as [->|Hne].
    + rewrite Hi' in Hj. inversion Hj; subst tj. rewrite Hp' in Hlj. discriminate.
    + pose proof (Hother _ _ Hj Hne) as Hj0.
      destruct (inv_lead s HI j tj r0 Hj0 Hlj) as (Hqj & q & Hr & Hlq & Hst).
      assert (Hner : r0 <> r) by (intros ->; apply Hne; eapply leader_by_record; eauto).
      split.
      * rewrite qfind_qdel, key_diff; auto. intros Heq. inversion Heq as [[Ek Ed]].
        rewrite <- Ek, <- Ed, Hqi in Hqj. congruence.
      * exists q. rewrite nth_modify, Hr. apply Nat.eqb_neq in Hner. rewrite Hner. auto.
  - intros j tj r0 Hj Hpw. destruct (Nat.eq_dec j i) as [->|Hne].
    + rewrite Hi' in Hj. inversion Hj; subst tj. congruence.
    + destruct (inv_wait s HI j tj r0 (Hother _ _ Hj Hne) Hpw) as (q & Hr & Hcase).
      rewrite nth_modify, Hr. destruct (Hf q) as (F1 & F2 & F3 & F4 & F5).
      destruct (Nat.eqb_spec r0 r) as [->|Hner].
      * exists (f q). split; auto. left. rewrite F4, F5. rewrite Hri in Hr. inversion Hr; subst q.
        destruct Hsti as [-> ->]. split; [reflexivity|discriminate].
      * exists q. split; auto. destruct Hcase as [Hd|(tl & Htl & Hul)]; [left; auto|right].
        exists tl. split; auto. rewrite nth_upd_neq; auto. intros Heq. rewrite <- Heq in Htl.
        rewrite Et in Htl. inversion Htl; subst tl. rewrite Hp in Hul. discriminate.
  - intros j tj r0 n Hj Hpu. destruct (Nat.eq_dec j i) as [->|Hne].
    + rewrite Hi' in Hj. inversion Hj; subst tj. congruence.
    + apply (inv_up s HI j tj r0 n); auto.
  - intros n u Hn Ho. destruct (inv_open s HI n u Hn Ho) as (tu & Htu & Hpu & Hku).
    exists tu. repeat split; try tauto. rewrite nth_upd_neq; auto. intros Heq. rewrite <- Heq in Htu.
    rewrite Et in Htu. inversion Htu; subst tu. congruence.
Qed.

Lemma upd_same {A} (l : list A) i x : nth_error l i = Some x -> upd l i x = l.
Proof. revert i; induction l as [|y l IH]; intros [|i]; cbn; intros E; try discriminate; [congruence|f_equal; auto]. Qed.

Lemma modify_id {A} (l : list A) r : match nth_error l r with Some q => upd l r q | None => l end = l.
Proof. destruct (nth_error l r) eqn:E; [apply upd_same; auto|reflexivity]. Qed.

Lemma load_or_store_inv s i t : Inv s ->
  nth_error (thr s) i = Some t -> leader_of (t_pc t) = None -> Inv (load_or_store s i t).
Proof.
  intros HI Et Hl. unfold load_or_store.
  destruct (qfind (queue s) (kind_of (c_op (t_call t))) (c_id (t_call t))) as [r|] eqn:Eq.
  - unfold with_thr. eapply attach_inv; eauto.
  - apply register_inv; auto.
Qed.

Lemma step_inv up s i s' : Inv s -> step up s i = Some s' -> Inv s'.
Proof.
  intros HI Hs. unfold step in Hs.
  destruct (nth_error (thr s) i) as [t|] eqn:Et; [|discriminate].
  destruct (t_pc t) as [| |r|r|r n|r res|r res|res] eqn:Epc.
  - (* PStart *)
    assert (Hl : leader_of (t_pc t) = None) by (rewrite Epc; reflexivity).
    destruct (c_op (t_call t)) eqn:Eop; try (inversion Hs; subst; apply load_or_store_inv; auto).
    destruct (qfind (queue s) QStore (c_id (t_call t))) as [r|] eqn:Eq; inversion Hs; subst; unfold with_thr.
    + eapply attach_inv; eauto.
    + eapply idle_pc_inv; eauto; cbn; congruence.
  - (* PPeeked *)
    inversion Hs; subst. apply load_or_store_inv; auto. rewrite Epc. reflexivity.
  - (* PWait *)
    destruct (nth_error (reqs s) r) as [q|] eqn:Er; [|discriminate].
    destruct (q_done q); [|discriminate]. destruct (q_res q); [|discriminate].
    inversion Hs; subst. unfold with_thr. eapply idle_pc_inv; eauto; cbn; try congruence. rewrite Epc. reflexivity.
  - (* PLead: the upstream call starts *)
    inversion Hs; subst; clear Hs.
    assert (Hl : leader_of (t_pc t) = Some r) by (rewrite Epc; reflexivity).
    destruct (inv_lead s HI i t r Et Hl) as (_ & q' & Hq' & _ & Hst). rewrite Epc in Hst.
    apply (leader_step_inv s i t (set_pc t (PUp r (length (ups s))) (clock s)) r
              (fun q => {| q_kind := q_kind q; q_id := q_id q; q_res := q_res q; q_done := q_done q;
                           q_leader := q_leader q; q_reg := q_reg q; q_del := q_del q; q_up := Some (length (ups s)) |})
              _ _ HI Et Hl); cbn [t_pc set_pc].
    + reflexivity.
    + reflexivity.
    + intros q. cbn. auto.
    + intros q Hd Hr. cbn. auto.
    + intros q Hq. cbn. congruence.
    + intros q Hq. left. reflexivity.
    + intros n Hn. inversion Hn; subst n. eexists. rewrite nth_app_new, Nat.eqb_refl. split; [reflexivity|]. cbn. auto.
    + intros j tj r0 n u Hne Hj Hp Hu Ho. apply nth_app_old; auto.
    + intros n u Hn Ho. rewrite nth_app_new in Hn. destruct (Nat.eqb_spec n (length (ups s))) as [->|Hne].
      * inversion Hn; subst u. right. cbn. auto.
      * left. split; auto. destruct (inv_open s HI n u Hn Ho) as (tu & Htu & Hpu & _).
        intros Heq. rewrite Heq, Et in Htu. inversion Htu; subst tu. congruence.
  - (* PUp: the upstream call returns *)
    inversion Hs; subst; clear Hs.
    assert (Hl : leader_of (t_pc t) = Some r) by (rewrite Epc; reflexivity).
    destruct (inv_lead s HI i t r Et Hl) as (_ & q' & Hq' & _ & Hst). rewrite Epc in Hst.
    rewrite <- (modify_id (reqs s) r).
    apply (leader_step_inv s i t (set_pc t (PGot r (interp (kind_of (c_op (t_call t))) (stored_tag (c_op (t_call t))) n (up n))) (clock s)) r
              (fun q => q) _ _ HI Et Hl); cbn [t_pc set_pc].
    + reflexivity.
    + reflexivity.
    + intros q. auto.
    + intros q Hd Hr. auto.
    + intros q Hq. congruence.
    + intros q Hq. left. reflexivity.
    + intros n0 Hn. discriminate.
    + intros j tj r0 n0 u Hne Hj Hp Hu Ho. rewrite nth_modify, Hu.
      destruct (Nat.eqb_spec n0 n) as [->|Hnn]; [|reflexivity].
      exfalso.
      destruct (inv_up s HI i t r n Et Epc) as (u' & Hu' & _ & Hby & _).
      rewrite Hu in Hu'. inversion Hu'; subst u'.
      destruct (inv_up s HI j tj r0 n Hj Hp) as (u'' & Hu'' & _ & Hby' & _).
      rewrite Hu in Hu''. inversion Hu''; subst u''. congruence.
    + intros n0 u Hn Ho. rewrite nth_modify in Hn. destruct (nth_error (ups s) n0) as [u0|] eqn:Eu; [|discriminate].
      destruct (Nat.eqb_spec n0 n) as [->|Hnn]; inversion Hn; subst u; [discriminate Ho|].
      left. split; auto. destruct (inv_open s HI n0 u0 Eu Ho) as (tu & Htu & Hpu & _).
      intros Heq. rewrite Heq, Et in Htu. inversion Htu; subst tu. rewrite Epc in Hpu. inversion Hpu; subst. auto.
  - (* PGot: markDone *)
    inversion Hs; subst; clear Hs.
    assert (Hl : leader_of (t_pc t) = Some r) by (rewrite Epc; reflexivity).
    apply (leader_step_inv s i t (set_pc t (PMarked r res) (clock s)) r
              (fun q => {| q_kind := q_kind q; q_id := q_id q; q_res := Some res; q_done := true;
                           q_leader := q_leader q; q_reg := q_reg q; q_del := q_del q; q_up := q_up q |})
              _ _ HI Et Hl); cbn [t_pc set_pc].
    + reflexivity.
    + reflexivity.
    + intros q. cbn. auto.
    + intros q Hd Hr. cbn. split; [reflexivity|discriminate].
    + intros q Hq. cbn. auto.
    + intros q Hq. right. cbn. split; [reflexivity|discriminate].
    + intros n Hn. discriminate.
    + intros j tj r0 n u Hne Hj Hp Hu Ho. exact Hu.
    + intros n u Hn Ho. left. split; auto. destruct (inv_open s HI n u Hn Ho) as (tu & Htu & Hpu & _).
      intros Heq. rewrite Heq, Et in Htu. inversion Htu; subst tu. congruence.
  - (* PMarked: delete and return *)
    inversion Hs; subst; clear Hs.
    eapply (delete_inv s i t _ r res
              (fun q => {| q_kind := q_kind q; q_id := q_id q; q_res := q_res q; q_done := q_done q;
                           q_leader := q_leader q; q_reg := q_reg q; q_del := Some (clock s); q_up := q_up q |}));
      eauto; try reflexivity.
  - discriminate.
Qed.

Lemma inv_reachable up calls sched : Inv (run (step up) sched (init calls)).
Proof. apply inv_run; [intros; eapply step_inv; eauto|apply inv_init]. Qed.

(* ---------- single flight ---------- *)

Lemma single_flight_inv s k d : Inv s -> in_flight s k d <= 1.
Proof.
  intros HI. unfold in_flight. apply filter_length_le1.
  intros n m x y Hn Hm Px Py.
  apply andb_true_iff in Px. destruct Px as [Px Ox]. apply andb_true_iff in Px. destruct Px as [Kx Dx].
  apply andb_true_iff in Py. destruct Py as [Py Oy]. apply andb_true_iff in Py. destruct Py as [Ky Dy].
  apply kind_eqb_eq in Kx. apply kind_eqb_eq in Ky. apply Nat.eqb_eq in Dx. apply Nat.eqb_eq in Dy.
  destruct (u_ret x) eqn:Rx; [discriminate|]. destruct (u_ret y) eqn:Ry; [discriminate|].
  destruct (inv_open s HI n x Hn Rx) as (tx & Htx & Hpx & Hkx & Hdx).
  destruct (inv_open s HI m y Hm Ry) as (ty & Hty & Hpy & Hky & Hdy).
  assert (u_by x = u_by y /\ u_req x = u_req y) as [Eby Ereq].
  { eapply leader_unique; eauto; try (rewrite Hpx; reflexivity); try (rewrite Hpy; reflexivity); congruence. }
  rewrite Eby, Hty in Htx. inversion Htx; subst tx. rewrite Hpy in Hpx. inversion Hpx. auto.
Qed.

Lemma single_flight up calls sched k d : in_flight (run (step up) sched (init calls)) k d <= 1.
Proof. apply single_flight_inv, inv_reachable. Qed.

(* ---------- no deadlock ---------- *)

Lemma final_false_thread s : final s = false -> exists i t, nth_error (thr s) i = Some t /\ is_done t = false.
Proof.
  unfold final. intros H. induction (thr s) as [|a l IH]; cbn in H; [discriminate|].
  destruct (is_done a) eqn:Ea.
  - destruct (IH H) as (i & t & Hi & Ht). exists (S i), t. auto.
  - exists 0, a. auto.
Qed.

(* every thread that has not returned and is not waiting can take a step *)
Lemma step_enabled_nonwait up s i t : nth_error (thr s) i = Some t ->
  is_done t = false -> (forall r, t_pc t <> PWait r) -> step up s i <> None.
Proof.
  intros Et Hd Hw. unfold step. rewrite Et.
  destruct (t_pc t) eqn:Epc; try discriminate.
  - destruct (c_op (t_call t)); try discriminate. destruct (qfind (queue s) QStore (c_id (t_call t))); discriminate.
  - exfalso. eapply Hw; eauto.
  - unfold is_done in Hd. rewrite Epc in Hd. discriminate.
Qed.

Lemma deadlock_free_inv up s : Inv s -> final s = false -> exists i, step up s i <> None.
Proof.
  intros HI Hf. destruct (final_false_thread s Hf) as (i & t & Et & Hd).
  destruct (t_pc t) eqn:Epc; try (exists i; eapply step_enabled_nonwait; eauto; intros; congruence).
  - (* waiting on record r *)
    destruct (inv_wait s HI i t r Et Epc) as (q & Hq & [[Hdone Hres]|(tl & Htl & Hul)]).
    + exists i. unfold step. rewrite Et, Epc, Hq, Hdone. destruct (q_res q); [discriminate|congruence].
    + exists (q_leader q). eapply step_enabled_nonwait; eauto.
      * unfold is_done. destruct (t_pc tl); cbn in Hul; try discriminate; reflexivity.
      * intros r0 E. rewrite E in Hul. discriminate.
Qed.

Lemma deadlock_free up calls sched :
  let s := run (step up) sched (init calls) in
  final s = false -> exists i, step up s i <> None.
Proof. intros s. apply deadlock_free_inv, inv_reachable. Qed.

(* ---------- termination: every enabled step consumes one unit of a caller's remaining program ---------- *)

Definition pc_left (p : pc) : nat :=
  match p with
  | PStart => 7 | PPeeked => 6 | PLead _ => 5 | PUp _ _ => 4 | PGot _ _ => 3 | PMarked _ _ => 2
  | PWait _ => 1 | PDone _ => 0
  end.

Definition mu (s : state) : nat := fold_right (fun t a => pc_left (t_pc t) + a) 0 (thr s).

Lemma mu_upd l i t t' : nth_error l i = Some t ->
  fold_right (fun t a => pc_left (t_pc t) + a) 0 (upd l i t') + pc_left (t_pc t) =
  fold_right (fun t a => pc_left (t_pc t) + a) 0 l + pc_left (t_pc t').
Proof.
  revert i; induction l as [|a l IH]; intros [|i] E; cbn in *; try discriminate.
  - inversion E; subst. lia.
  - specialize (IH i E). lia.
Qed.

Lemma mu_set s i t t' q r u c : nth_error (thr s) i = Some t -> pc_left (t_pc t') < pc_left (t_pc t) ->
  mu {| queue := q; reqs := r; thr := upd (thr s) i t'; ups := u; clock := c |} < mu s.
Proof. intros Et Hlt. unfold mu. cbn [thr]. pose proof (mu_upd (thr s) i t t' Et). lia. Qed.

Lemma load_or_store_mu s i t : nth_error (thr s) i = Some t -> 5 < pc_left (t_pc t) ->
  mu (load_or_store s i t) < mu s.
Proof.
  intros Et Hlt. unfold load_or_store.
  destruct (qfind (queue s) (kind_of (c_op (t_call t))) (c_id (t_call t))); [unfold with_thr|];
    eapply mu_set; eauto; cbn; lia.
Qed.

Lemma step_decreases up s i s' : step up s i = Some s' -> mu s' < mu s.
Proof.
  unfold step. destruct (nth_error (thr s) i) as [t|] eqn:Et; [|discriminate].
  destruct (t_pc t) eqn:Epc; intros H.
  - destruct (c_op (t_call t));
      try (inversion H; subst; apply load_or_store_mu; auto; rewrite Epc; cbn; lia).
    destruct (qfind (queue s) QStore (c_id (t_call t))); inversion H; subst; unfold with_thr;
      eapply mu_set; eauto; rewrite Epc; cbn; lia.
  - inversion H; subst. apply load_or_store_mu; auto. rewrite Epc; cbn; lia.
  - destruct (nth_error (reqs s) r) as [q|]; [|discriminate]. destruct (q_done q); [|discriminate].
    destruct (q_res q); [|discriminate]. inversion H; subst. unfold with_thr. eapply mu_set; eauto. rewrite Epc. cbn. lia.
  - inversion H; subst. eapply mu_set; eauto. rewrite Epc. cbn. lia.
  - inversion H; subst. eapply mu_set; eauto. rewrite Epc. cbn. lia.
  - inversion H; subst. eapply mu_set; eauto. rewrite Epc. cbn. lia.
  - inversion H; subst. eapply mu_set; eauto. rewrite Epc. cbn. lia.
  - discriminate.
Qed.

Lemma mu_init calls : mu (init calls) = 7 * length calls.
Proof. unfold mu, init. cbn [thr]. induction calls; cbn in *; lia. Qed.

Lemma terminates up calls sched s' :
  run_strict (step up) sched (init calls) = Some s' -> length sched + mu s' <= 7 * length calls.
Proof.
  intros H. rewrite <- mu_init. eapply measure_bound; eauto. intros. eapply step_decreases; eauto.
Qed.

(* a run that only schedules enabled callers and can no longer be extended has every caller returned *)
Lemma maximal_run_all_returned up calls sched s' :
  run_strict (step up) sched (init calls) = Some s' ->
  (forall i, step up s' i = None) -> final s' = true.
Proof.
  intros Hr Hstuck. destruct (final s') eqn:Ef; [reflexivity|exfalso].
  assert (HI : Inv s') by (rewrite <- (run_strict_run _ _ _ _ Hr); apply inv_reachable).
  destruct (deadlock_free_inv up s' HI Ef) as (i & Hi). apply Hi, Hstuck.
Qed.

Lemma all_return up calls sched s' :
  run_strict (step up) sched (init calls) = Some s' ->
  length sched <= 7 * length calls /\ ((forall i, step up s' i = None) -> final s' = true).
Proof.
  intros H. split.
  - pose proof (terminates up calls sched s' H). lia.
  - exact (maximal_run_all_returned up calls sched s' H).
Qed.
