(* Lemmas about the de-duplication queues (Model/Dedup.v). *)
From Coq Require Import List Arith Bool Lia.
From DS Require Import Base.Sched Model.Dedup.
Import ListNotations.

(* ---------- lists ---------- *)

Lemma length_upd {A} (l : list A) i x : length (upd l i x) = length l.
Proof. revert i; induction l as [|y l IH]; intros [|i]; cbn; auto. Qed.

Lemma nth_upd_eq {A} (l : list A) i x y : nth_error l i = Some y -> nth_error (upd l i x) i = Some x.
Proof. revert i; induction l as [|z l IH]; intros [|i]; cbn; intros E; try discriminate; auto. Qed.

Lemma nth_upd_neq {A} (l : list A) i j x : i <> j -> nth_error (upd l i x) j = nth_error l j.
Proof.
  revert i j; induction l as [|z l IH]; intros [|i] [|j] Hne; cbn; auto; try congruence.
Qed.

Lemma nth_upd {A} (l : list A) i j x y : nth_error l i = Some y ->
  nth_error (upd l i x) j = if Nat.eqb j i then Some x else nth_error l j.
Proof.
  intros E. destruct (Nat.eqb_spec j i) as [->|Hne]; [eapply nth_upd_eq; eauto|apply nth_upd_neq; auto].
Qed.

Lemma nth_app_new {A} (l : list A) x j :
  nth_error (l ++ [x]) j = if Nat.eqb j (length l) then Some x else nth_error l j.
Proof.
  destruct (Nat.eqb_spec j (length l)) as [->|Hne].
  - rewrite nth_error_app2 by lia. rewrite Nat.sub_diag. reflexivity.
  - destruct (Nat.lt_ge_cases j (length l)).
    + apply nth_error_app1; auto.
    + rewrite nth_error_app2 by lia. destruct (j - length l) as [|[|k]] eqn:E; try lia; cbn.
      all: symmetry; apply nth_error_None; lia.
Qed.

Lemma filter_length_le1 {A} (P : A -> bool) (l : list A) :
  (forall n m x y, nth_error l n = Some x -> nth_error l m = Some y -> P x = true -> P y = true -> n = m) ->
  length (filter P l) <= 1.
Proof.
  induction l as [|a l IH]; intros H; cbn; [lia|].
  destruct (P a) eqn:Pa.
  - cbn. assert (filter P l = []) as ->; [|cbn; lia].
    destruct (filter P l) as [|b r] eqn:F; [reflexivity|exfalso].
    assert (In b (filter P l)) as Hb by (rewrite F; left; reflexivity).
    apply filter_In in Hb. destruct Hb as [Hin Pb].
    apply In_nth_error in Hin. destruct Hin as [m Hm].
    specialize (H 0 (S m) a b eq_refl Hm Pa Pb). discriminate.
  - apply IH. intros n m x y Hn Hm Px Py.
    specialize (H (S n) (S m) x y Hn Hm Px Py). lia.
Qed.

(* ---------- the queue maps ---------- *)

Lemma kind_eqb_eq a b : kind_eqb a b = true <-> a = b.
Proof. destruct a, b; cbn; split; congruence. Qed.

Lemma key_eqb_spec k i e : key_eqb k i e = true <-> fst (fst e) = k /\ snd (fst e) = i.
Proof.
  unfold key_eqb. rewrite andb_true_iff, kind_eqb_eq, Nat.eqb_eq. tauto.
Qed.

Lemma qfind_cons q k d r k' d' :
  qfind ((k, d, r) :: q) k' d' = if kind_eqb k k' && Nat.eqb d d' then Some r else qfind q k' d'.
Proof. reflexivity. Qed.

Lemma key_same k d : kind_eqb k k && Nat.eqb d d = true.
Proof. rewrite (proj2 (kind_eqb_eq k k) eq_refl), Nat.eqb_refl. reflexivity. Qed.

Lemma qfind_qdel q k d k' d' :
  qfind (qdel q k d) k' d' = if kind_eqb k k' && Nat.eqb d d' then None else qfind q k' d'.
Proof.
  unfold qdel. induction q as [|e q IH]; cbn [filter qfind].
  - destruct (kind_eqb k k' && Nat.eqb d d'); reflexivity.
  - destruct (key_eqb k d e) eqn:E1; cbn [negb].
    + rewrite IH. apply key_eqb_spec in E1. destruct e as [[a b] c]. cbn in E1. destruct E1; subst.
      destruct (kind_eqb k k' && Nat.eqb d d') eqn:E; [reflexivity|].
      unfold key_eqb; cbn [fst snd]. rewrite E. reflexivity.
    + cbn [qfind]. rewrite IH. destruct (key_eqb k' d' e) eqn:E2; [|reflexivity].
      apply key_eqb_spec in E2. destruct e as [[a b] c]. cbn in E2. destruct E2; subst.
      destruct (kind_eqb k k' && Nat.eqb d d') eqn:E3; [|reflexivity]. exfalso.
      apply andb_true_iff in E3. destruct E3 as [Ea Eb].
      apply kind_eqb_eq in Ea. apply Nat.eqb_eq in Eb. subst.
      unfold key_eqb in E1. cbn [fst snd] in E1. rewrite key_same in E1. discriminate.
Qed.

Lemma key_diff k d k' d' : (k, d) <> (k', d') -> kind_eqb k k' && Nat.eqb d d' = false.
Proof.
  intros Hne. destruct (kind_eqb k k' && Nat.eqb d d') eqn:E; [|reflexivity].
  apply andb_true_iff in E. destruct E as [Ea Eb].
  apply kind_eqb_eq in Ea. apply Nat.eqb_eq in Eb. subst. congruence.
Qed.

(* ---------- program counters ---------- *)

Definition leader_of (p : pc) : option nat :=
  match p with PLead r | PUp r _ | PGot r _ | PMarked r _ => Some r | _ => None end.

Definition unmarked_leader (p : pc) : option nat :=
  match p with PLead r | PUp r _ | PGot r _ => Some r | _ => None end.

Definition tkind (t : thread) : kind := kind_of (c_op (t_call t)).
Definition tid_ (t : thread) : id := c_id (t_call t).

Lemma set_pc_call t p now : t_call (set_pc t p now) = t_call t.
Proof. reflexivity. Qed.
Lemma set_pc_pc t p now : t_pc (set_pc t p now) = p.
Proof. reflexivity. Qed.
Lemma set_obt_call t r now : t_call (set_obt t r now) = t_call t.
Proof. reflexivity. Qed.

(* [match nth_error l r with Some q => upd l r (f q) | None => l end] modifies entry r in place *)
Lemma nth_modify {A} (l : list A) r (f : A -> A) j :
  nth_error (match nth_error l r with Some q => upd l r (f q) | None => l end) j =
  match nth_error l j with Some q => Some (if Nat.eqb j r then f q else q) | None => None end.
Proof.
  destruct (nth_error l r) as [q|] eqn:E.
  - rewrite (nth_upd l r j (f q) q E). destruct (Nat.eqb_spec j r) as [->|Hne].
    + rewrite E. reflexivity.
    + destruct (nth_error l j); reflexivity.
  - destruct (Nat.eqb_spec j r) as [->|Hne].
    + rewrite E. reflexivity.
    + destruct (nth_error l j); reflexivity.
Qed.

(* ---------- the protocol invariant ---------- *)

Record Inv (s : state) : Prop := {
  (* an entry of a queue map is a live record whose leader is between loadOrStore and delete *)
  inv_q : forall k d r, qfind (queue s) k d = Some r ->
    exists q tl, nth_error (reqs s) r = Some q /\ q_kind q = k /\ q_id q = d /\ q_del q = None /\
                 nth_error (thr s) (q_leader q) = Some tl /\ leader_of (t_pc tl) = Some r;
  (* a leader's record is the entry of its (kind, id); done/result are set exactly by markDone *)
  inv_lead : forall i t r, nth_error (thr s) i = Some t -> leader_of (t_pc t) = Some r ->
    qfind (queue s) (tkind t) (tid_ t) = Some r /\
    exists q, nth_error (reqs s) r = Some q /\ q_leader q = i /\
              match t_pc t with
              | PMarked _ res => q_done q = true /\ q_res q = Some res
              | _ => q_done q = false
              end;
  (* a follower waits on a record that is done, or whose leader has not yet reached markDone *)
  inv_wait : forall i t r, nth_error (thr s) i = Some t -> t_pc t = PWait r ->
    exists q, nth_error (reqs s) r = Some q /\
      ((q_done q = true /\ q_res q <> None) \/
       (exists tl, nth_error (thr s) (q_leader q) = Some tl /\ unmarked_leader (t_pc tl) = Some r));
  (* upstream calls in flight belong to leaders in PUp, and vice versa *)
  inv_up : forall i t r n, nth_error (thr s) i = Some t -> t_pc t = PUp r n ->
    exists u, nth_error (ups s) n = Some u /\ u_ret u = None /\ u_by u = i /\ u_req u = r /\
              u_kind u = tkind t /\ u_id u = tid_ t;
  inv_open : forall n u, nth_error (ups s) n = Some u -> u_ret u = None ->
    exists t, nth_error (thr s) (u_by u) = Some t /\ t_pc t = PUp (u_req u) n /\
              u_kind u = tkind t /\ u_id u = tid_ t;
}.

Lemma inv_init calls : Inv (init calls).
Proof.
  split; cbn.
  - discriminate.
  - intros i t r Ht Hl. rewrite nth_error_map in Ht. destruct (nth_error calls i); inversion Ht; subst. discriminate.
  - intros i t r Ht Hp. rewrite nth_error_map in Ht. destruct (nth_error calls i); inversion Ht; subst. discriminate.
  - intros i t r n Ht Hp. rewrite nth_error_map in Ht. destruct (nth_error calls i); inversion Ht; subst. discriminate.
  - intros [|n] u E; discriminate.
Qed.

(* two leaders of the same (kind, id) are the same thread on the same record *)
Lemma leader_unique s i j ti tj ri rj : Inv s ->
  nth_error (thr s) i = Some ti -> nth_error (thr s) j = Some tj ->
  leader_of (t_pc ti) = Some ri -> leader_of (t_pc tj) = Some rj ->
  tkind ti = tkind tj -> tid_ ti = tid_ tj -> i = j /\ ri = rj.
Proof.
  intros HI Hi Hj Li Lj Ek Ed.
  destruct (inv_lead s HI i ti ri Hi Li) as (Qi & qi & Hqi & Lqi & _).
  destruct (inv_lead s HI j tj rj Hj Lj) as (Qj & qj & Hqj & Lqj & _).
  rewrite Ek, Ed in Qi. rewrite Qi in Qj. inversion Qj; subst rj.
  rewrite Hqi in Hqj. inversion Hqj; subst qj. split; congruence.
Qed.

Lemma leader_by_record s i j ti tj r : Inv s ->
  nth_error (thr s) i = Some ti -> nth_error (thr s) j = Some tj ->
  leader_of (t_pc ti) = Some r -> leader_of (t_pc tj) = Some r -> i = j.
Proof.
  intros HI Hi Hj Li Lj.
  destruct (inv_lead s HI i ti r Hi Li) as (_ & qi & Hqi & Lqi & _).
  destruct (inv_lead s HI j tj r Hj Lj) as (_ & qj & Hqj & Lqj & _).
  congruence.
Qed.

Lemma unmarked_is_leader p r : unmarked_leader p = Some r -> leader_of p = Some r.
Proof. destruct p; cbn; congruence. Qed.

(* thread i changes only its pc, from a pc that is neither leader nor upstream to one that is neither
   leader, waiting, nor upstream: nothing the invariant says is touched *)
Lemma idle_pc_inv s i t t' now : Inv s ->
  nth_error (thr s) i = Some t -> leader_of (t_pc t) = None ->
  leader_of (t_pc t') = None -> (forall r, t_pc t' <> PWait r) ->
  Inv {| queue := queue s; reqs := reqs s; thr := upd (thr s) i t'; ups := ups s; clock := now |}.
Proof.
  intros HI Et Hl Hl' Hw.
  assert (Hother : forall j tj, nth_error (upd (thr s) i t') j = Some tj -> j <> i -> nth_error (thr s) j = Some tj).
  { intros j tj Hj Hne. rewrite nth_upd_neq in Hj by auto. exact Hj. }
  assert (Hkeep : forall j tj, nth_error (thr s) j = Some tj -> leader_of (t_pc tj) <> None ->
                               nth_error (upd (thr s) i t') j = Some tj).
  { intros j tj Hj Hne. rewrite nth_upd_neq; auto. intros ->. rewrite Et in Hj. inversion Hj; subst. auto. }
  split; cbn [queue reqs thr ups].
  - intros k d r Hq. destruct (inv_q s HI k d r Hq) as (q & tl & Hr & Hk & Hd & Hdel & Htl & Hlead).
    exists q, tl. repeat split; auto. apply Hkeep; auto. congruence.
  - intros j tj r Hj Hlj. destruct (Nat.eq_dec j i) as [->|Hne].
    + rewrite (nth_upd_eq _ _ _ _ Et) in Hj. inversion Hj; subst. congruence.
    + apply (inv_lead s HI j tj r); auto.
  - intros j tj r Hj Hp. destruct (Nat.eq_dec j i) as [->|Hne].
    + rewrite (nth_upd_eq _ _ _ _ Et) in Hj. inversion Hj; subst. exfalso. eapply Hw; eauto.
    + destruct (inv_wait s HI j tj r (Hother _ _ Hj Hne) Hp) as (q & Hr & Hcase).
      exists q. split; auto. destruct Hcase as [Hd|(tl & Htl & Hul)]; [left; auto|right].
      exists tl. split; auto. apply Hkeep; auto. rewrite (unmarked_is_leader _ _ Hul). discriminate.
  - intros j tj r n Hj Hp. destruct (Nat.eq_dec j i) as [->|Hne].
    + rewrite (nth_upd_eq _ _ _ _ Et) in Hj. inversion Hj; subst. rewrite Hp in Hl'. discriminate.
    + apply (inv_up s HI j tj r n); auto.
  - intros n u Hn Ho. destruct (inv_open s HI n u Hn Ho) as (tu & Htu & Hpu & Hku).
    exists tu. repeat split; try tauto. apply Hkeep; auto. rewrite Hpu. discriminate.
Qed.

(* thread i attaches as a follower to the record found under some key *)
Lemma attach_inv s i t t' k d r now : Inv s ->
  nth_error (thr s) i = Some t -> leader_of (t_pc t) = None ->
  qfind (queue s) k d = Some r -> t_pc t' = PWait r ->
  Inv {| queue := queue s; reqs := reqs s; thr := upd (thr s) i t'; ups := ups s; clock := now |}.
Proof.
  intros HI Et Hl Hq Hp'.
  assert (Hother : forall j tj, nth_error (upd (thr s) i t') j = Some tj -> j <> i -> nth_error (thr s) j = Some tj).
  { intros j tj Hj Hne. rewrite nth_upd_neq in Hj by auto. exact Hj. }
  assert (Hkeep : forall j tj, nth_error (thr s) j = Some tj -> leader_of (t_pc tj) <> None ->
                               nth_error (upd (thr s) i t') j = Some tj).
  { intros j tj Hj Hne. rewrite nth_upd_neq; auto. intros ->. rewrite Et in Hj. inversion Hj; subst. auto. }
  split; cbn [queue reqs thr ups].
  - intros k0 d0 r0 Hq0. destruct (inv_q s HI k0 d0 r0 Hq0) as (q & tl & Hr & Hk & Hd & Hdel & Htl & Hlead).
    exists q, tl. repeat split; auto. apply Hkeep; auto. congruence.
  - intros j tj r0 Hj Hlj. destruct (Nat.eq_dec j i) as [->|Hne].
    + rewrite (nth_upd_eq _ _ _ _ Et) in Hj. inversion Hj; subst. rewrite Hp' in Hlj. discriminate.
    + apply (inv_lead s HI j tj r0); auto.
  - intros j tj r0 Hj Hp. destruct (Nat.eq_dec j i) as [->|Hne].
    + rewrite (nth_upd_eq _ _ _ _ Et) in Hj. inversion Hj; subst tj. rewrite Hp' in Hp. inversion Hp; subst r0.
      destruct (inv_q s HI k d r Hq) as (q & tl & Hr & Hk & Hd & Hdel & Htl & Hlead).
      exists q. split; auto.
      destruct (inv_lead s HI (q_leader q) tl r Htl Hlead) as (_ & q' & Hr' & _ & Hst).
      rewrite Hr in Hr'. inversion Hr'; subst q'.
      destruct (t_pc tl) eqn:Epl; cbn in Hlead; try discriminate; inversion Hlead; subst.
      * right. exists tl. split; [apply Hkeep; auto; rewrite Epl; discriminate|rewrite Epl; reflexivity].
      * right. exists tl. split; [apply Hkeep; auto; rewrite Epl; discriminate|rewrite Epl; reflexivity].
      * right. exists tl. split; [apply Hkeep; auto; rewrite Epl; discriminate|rewrite Epl; reflexivity].
      * left. destruct Hst as [Hd1 Hd2]. split; auto. congruence.
    + destruct (inv_wait s HI j tj r0 (Hother _ _ Hj Hne) Hp) as (q & Hr & Hcase).
      exists q. split; auto. destruct Hcase as [Hd|(tl & Htl & Hul)]; [left; auto|right].
      exists tl. split; auto. apply Hkeep; auto. rewrite (unmarked_is_leader _ _ Hul). discriminate.
  - intros j tj r0 n Hj Hp. destruct (Nat.eq_dec j i) as [->|Hne].
    + rewrite (nth_upd_eq _ _ _ _ Et) in Hj. inversion Hj; subst. congruence.
    + apply (inv_up s HI j tj r0 n); auto.
  - intros n u Hn Ho. destruct (inv_open s HI n u Hn Ho) as (tu & Htu & Hpu & Hku).
    exists tu. repeat split; try tauto. apply Hkeep; auto. rewrite Hpu. discriminate.
Qed.

Lemma nth_app_old {A} (l : list A) x j y : nth_error l j = Some y -> nth_error (l ++ [x]) j = Some y.
Proof.
  intros E. rewrite nth_error_app1; auto. apply nth_error_Some. congruence.
Qed.

(* thread i registers a new record as the leader of its (kind, id) *)
Lemma register_inv s i t t' nq now : Inv s ->
  nth_error (thr s) i = Some t -> leader_of (t_pc t) = None ->
  qfind (queue s) (tkind t) (tid_ t) = None ->
  t_pc t' = PLead (length (reqs s)) -> t_call t' = t_call t ->
  q_kind nq = tkind t -> q_id nq = tid_ t -> q_done nq = false -> q_leader nq = i -> q_del nq = None ->
  Inv {| queue := (tkind t, tid_ t, length (reqs s)) :: queue s; reqs := reqs s ++ [nq];
         thr := upd (thr s) i t'; ups := ups s; clock := now |}.
Proof.
  intros HI Et Hl Hq Hp' Hc' Nk Nd Ndone Nl Ndel.
  assert (Hother : forall j tj, nth_error (upd (thr s) i t') j = Some tj -> j <> i -> nth_error (thr s) j = Some tj).
  { intros j tj Hj Hne. rewrite nth_upd_neq in Hj by auto. exact Hj. }
  assert (Hkeep : forall j tj, nth_error (thr s) j = Some tj -> leader_of (t_pc tj) <> None ->
                               nth_error (upd (thr s) i t') j = Some tj).
  { intros j tj Hj Hne. rewrite nth_upd_neq; auto. intros ->. rewrite Et in Hj. inversion Hj; subst. auto. }
  assert (Hi' : nth_error (upd (thr s) i t') i = Some t') by (eapply nth_upd_eq; eauto).
  assert (Hk' : tkind t' = tkind t) by (unfold tkind; rewrite Hc'; reflexivity).
  assert (Hd' : tid_ t' = tid_ t) by (unfold tid_; rewrite Hc'; reflexivity).
  split; cbn [queue reqs thr ups].
  - intros k0 d0 r0 Hq0. rewrite qfind_cons in Hq0.
    destruct (kind_eqb (tkind t) k0 && Nat.eqb (tid_ t) d0) eqn:E.
    + inversion Hq0; subst r0. apply andb_true_iff in E. destruct E as [Ea Eb].
      apply kind_eqb_eq in Ea. apply Nat.eqb_eq in Eb. subst k0 d0.
      exists nq, t'. rewrite nth_app_new, Nat.eqb_refl. repeat split; auto.
      * rewrite Nl. exact Hi'.
      * rewrite Hp'. reflexivity.
    + destruct (inv_q s HI k0 d0 r0 Hq0) as (q & tl & Hr & Hk & Hd & Hdel & Htl & Hlead).
      exists q, tl. repeat split; auto; [apply nth_app_old; auto|]. apply Hkeep; auto. congruence.
  - intros j tj r0 Hj Hlj. destruct (Nat.eq_dec j i) as [->|Hne].
    + rewrite Hi' in Hj. inversion Hj; subst tj. rewrite Hp' in Hlj. cbn in Hlj. inversion Hlj; subst r0.
      rewrite Hk', Hd', qfind_cons, key_same. split; [reflexivity|].
      exists nq. rewrite nth_app_new, Nat.eqb_refl. rewrite Hp'. auto.
    + pose proof (Hother _ _ Hj Hne) as Hj0.
      destruct (inv_lead s HI j tj r0 Hj0 Hlj) as (Hqj & q & Hr & Hlq & Hst).
      split.
      * rewrite qfind_cons, key_diff; auto. intros Heq. inversion Heq as [[Ek Ed]].
        rewrite <- Ek, <- Ed in Hqj. congruence.
      * exists q. split; [apply nth_app_old; auto|auto].
  - intros j tj r0 Hj Hp. destruct (Nat.eq_dec j i) as [->|Hne].
    + rewrite Hi' in Hj. inversion Hj; subst. congruence.
    + destruct (inv_wait s HI j tj r0 (Hother _ _ Hj Hne) Hp) as (q & Hr & Hcase).
      exists q. split; [apply nth_app_old; auto|]. destruct Hcase as [Hd|(tl & Htl & Hul)]; [left; auto|right].
      exists tl. split; auto. apply Hkeep; auto. rewrite (unmarked_is_leader _ _ Hul). discriminate.
  - intros j tj r0 n Hj Hp. destruct (Nat.eq_dec j i) as [->|Hne].
    + rewrite Hi' in Hj. inversion Hj; subst. congruence.
    + apply (inv_up s HI j tj r0 n); auto.
  - intros n u Hn Ho. destruct (inv_open s HI n u Hn Ho) as (tu & Htu & Hpu & Hku).
    exists tu. repeat split; try tauto. apply Hkeep; auto. rewrite Hpu. discriminate.
Qed.

(* Common part of the leader's steps PLead -> PUp -> PGot -> PMarked: thread i stays the leader of record r,
   record r is rewritten by [f] (which keeps kind, id, leader, removal time and never resets done/result),
   and the upstream log becomes [ups'] (obligations about it are passed in). *)
Lemma leader_step_inv s i t t' r f ups' now : Inv s ->
  nth_error (thr s) i = Some t -> leader_of (t_pc t) = Some r -> leader_of (t_pc t') = Some r ->
  t_call t' = t_call t ->
  (forall q, q_kind (f q) = q_kind q /\ q_id (f q) = q_id q /\ q_leader (f q) = q_leader q /\ q_del (f q) = q_del q) ->
  (forall q, q_done q = true -> q_res q <> None -> q_done (f q) = true /\ q_res (f q) <> None) ->
  (forall q, nth_error (reqs s) r = Some q ->
     match t_pc t' with PMarked _ res => q_done (f q) = true /\ q_res (f q) = Some res | _ => q_done (f q) = false end) ->
  (forall q, nth_error (reqs s) r = Some q ->
     unmarked_leader (t_pc t') = Some r \/ (q_done (f q) = true /\ q_res (f q) <> None)) ->
  (* upstream obligations *)
  (forall n, t_pc t' = PUp r n ->
     exists u, nth_error ups' n = Some u /\ u_ret u = None /\ u_by u = i /\ u_req u = r /\ u_kind u = tkind t /\ u_id u = tid_ t) ->
  (forall j tj r0 n u, j <> i -> nth_error (thr s) j = Some tj -> t_pc tj = PUp r0 n ->
     nth_error (ups s) n = Some u -> u_ret u = None -> nth_error ups' n = Some u) ->
  (forall n u, nth_error ups' n = Some u -> u_ret u = None ->
     (nth_error (ups s) n = Some u /\ u_by u <> i) \/ (u_by u = i /\ u_req u = r /\ t_pc t' = PUp r n /\ u_kind u = tkind t /\ u_id u = tid_ t)) ->
  Inv {| queue := queue s;
         reqs := match nth_error (reqs s) r with Some q => upd (reqs s) r (f q) | None => reqs s end;
         thr := upd (thr s) i t'; ups := ups'; clock := now |}.
Proof.
  intros HI Et Hl Hl' Hc' Hf Hmono Hst' Hfoll Hup_i Hup_keep Hopen.
  assert (Hother : forall j tj, nth_error (upd (thr s) i t') j = Some tj -> j <> i -> nth_error (thr s) j = Some tj).
  { intros j tj Hj Hne. rewrite nth_upd_neq in Hj by auto. exact Hj. }
  assert (Hi' : nth_error (upd (thr s) i t') i = Some t') by (eapply nth_upd_eq; eauto).
  assert (Hk' : tkind t' = tkind t) by (unfold tkind; rewrite Hc'; reflexivity).
  assert (Hd' : tid_ t' = tid_ t) by (unfold tid_; rewrite Hc'; reflexivity).
  destruct (inv_lead s HI i t r Et Hl) as (Hqi & qi & Hri & Hli & Hsti).
  split; cbn [queue reqs thr ups].
  - intros k0 d0 r0 Hq0. destruct (inv_q s HI k0 d0 r0 Hq0) as (q & tl & Hr & Hk & Hd & Hdel & Htl & Hlead).
    rewrite nth_modify, Hr.
    destruct (Hf q) as (F1 & F2 & F3 & F4).
    destruct (Nat.eqb_spec r0 r) as [->|Hne].
    + exists (f q), t'. rewrite F1, F2, F3, F4. repeat split; auto.
      assert (Hlq : q_leader q = i) by (eapply leader_by_record; eauto). rewrite Hlq. exact Hi'.
    + exists q, tl. repeat split; auto.
      rewrite nth_upd_neq; auto. intros Heq. rewrite <- Heq in Htl. rewrite Et in Htl. inversion Htl; subst tl. congruence.
  - intros j tj r0 Hj Hlj. destruct (Nat.eq_dec j i) as [->|Hne].
    + rewrite Hi' in Hj. inversion Hj; subst tj. rewrite Hl' in Hlj. inversion Hlj; subst r0.
      rewrite Hk', Hd'. split; [exact Hqi|].
      exists (f qi). rewrite nth_modify, Hri, Nat.eqb_refl. destruct (Hf qi) as (_ & _ & F3 & _).
      split; [reflexivity|]. split; [congruence|]. apply Hst'; auto.
    + pose proof (Hother _ _ Hj Hne) as Hj0.
      destruct (inv_lead s HI j tj r0 Hj0 Hlj) as (Hqj & q & Hr & Hlq & Hst).
      split; auto. exists q. rewrite nth_modify, Hr.
      destruct (Nat.eqb_spec r0 r) as [->|Hner]; [|auto].
      exfalso. apply Hne. eapply leader_by_record; eauto.
  - intros j tj r0 Hj Hp. destruct (Nat.eq_dec j i) as [->|Hne].
    + rewrite Hi' in Hj. inversion Hj; subst tj. rewrite Hp in Hl'. discriminate.
    + destruct (inv_wait s HI j tj r0 (Hother _ _ Hj Hne) Hp) as (q & Hr & Hcase).
      rewrite nth_modify, Hr. destruct (Hf q) as (F1 & F2 & F3 & F4).
      destruct (Nat.eqb_spec r0 r) as [->|Hner].
      * exists (f q). split; auto. rewrite F3.
        destruct Hcase as [[Hd1 Hd2]|(tl & Htl & Hul)]; [left; apply Hmono; auto|].
        assert (Hlq : q_leader q = i) by (eapply leader_by_record; eauto using unmarked_is_leader).
        destruct (Hfoll q Hr) as [Hu|Hd]; [right; exists t'; rewrite Hlq; auto|left; auto].
      * exists q. split; auto. destruct Hcase as [Hd|(tl & Htl & Hul)]; [left; auto|right].
        exists tl. split; auto. rewrite nth_upd_neq; auto. intros Heq. rewrite <- Heq in Htl.
        rewrite Et in Htl. inversion Htl; subst tl. apply unmarked_is_leader in Hul. congruence.
  - intros j tj r0 n Hj Hp. destruct (Nat.eq_dec j i) as [->|Hne].
    + rewrite Hi' in Hj. inversion Hj; subst tj. rewrite Hp in Hl'. cbn in Hl'. inversion Hl'; subst r0.
      rewrite Hk', Hd'. apply Hup_i; auto.
    + pose proof (Hother _ _ Hj Hne) as Hj0.
      destruct (inv_up s HI j tj r0 n Hj0 Hp) as (u & Hu & Hret & Hrest).
      exists u. split; auto. eapply Hup_keep; eauto.
  - intros n u Hn Ho. destruct (Hopen n u Hn Ho) as [[Hold Hby]|(Hby & Hrq & Hp & Hk & Hd)].
    + destruct (inv_open s HI n u Hold Ho) as (tu & Htu & Hpu & Hku).
      exists tu. repeat split; try tauto. rewrite nth_upd_neq; auto.
    + exists t'. rewrite Hby, Hrq, Hk', Hd'. repeat split; auto.
Qed.

(* the leader removes its record from the queue and returns *)
Lemma delete_inv s i t t' r res0 f res now : Inv s ->
  nth_error (thr s) i = Some t -> t_pc t = PMarked r res0 -> t_pc t' = PDone res ->
  (forall q, q_kind (f q) = q_kind q /\ q_id (f q) = q_id q /\ q_leader (f q) = q_leader q /\
             q_done (f q) = q_done q /\ q_res (f q) = q_res q) ->
  Inv {| queue := qdel (queue s) (tkind t) (tid_ t);
         reqs := match nth_error (reqs s) r with Some q => upd (reqs s) r (f q) | None => reqs s end;
         thr := upd (thr s) i t'; ups := ups s; clock := now |}.
Proof.
  intros HI Et Hp Hp' Hf.
  assert (Hl : leader_of (t_pc t) = Some r) by (rewrite Hp; reflexivity).
  assert (Hother : forall j tj, nth_error (upd (thr s) i t') j = Some tj -> j <> i -> nth_error (thr s) j = Some tj).
  { intros j tj Hj Hne. rewrite nth_upd_neq in Hj by auto. exact Hj. }
  assert (Hi' : nth_error (upd (thr s) i t') i = Some t') by (eapply nth_upd_eq; eauto).
  destruct (inv_lead s HI i t r Et Hl) as (Hqi & qi & Hri & Hli & Hsti). rewrite Hp in Hsti.
  split; cbn [queue reqs thr ups].
  - intros k0 d0 r0 Hq0. rewrite qfind_qdel in Hq0.
    destruct (kind_eqb (tkind t) k0 && Nat.eqb (tid_ t) d0) eqn:E; [discriminate|].
    destruct (inv_q s HI k0 d0 r0 Hq0) as (q & tl & Hr & Hk & Hd & Hdel & Htl & Hlead).
    assert (Hne : r0 <> r).
    { intros ->. rewrite Hri in Hr. inversion Hr; subst q.
      destruct (inv_q s HI _ _ _ Hqi) as (q2 & _ & Hr2 & Hk2 & Hd2 & _). rewrite Hri in Hr2. inversion Hr2; subst q2.
      rewrite <- Hk2, <- Hd2, Hk, Hd, key_same in E. discriminate. }
    exists q, tl. rewrite nth_modify, Hr. apply Nat.eqb_neq in Hne. rewrite Hne.
    repeat split; auto. rewrite nth_upd_neq; auto. intros Heq. rewrite <- Heq in Htl. rewrite Et in Htl.
    inversion Htl; subst tl. apply Nat.eqb_neq in Hne. congruence.
  - intros j tj r0 Hj Hlj. destruct (Nat.eq_dec j i) as [->|Hne].
    + rewrite Hi' in Hj. inversion Hj; subst tj. rewrite Hp' in Hlj. discriminate.
    + pose proof (Hother _ _ Hj Hne) as Hj0.
      destruct (inv_lead s HI j tj r0 Hj0 Hlj) as (Hqj & q & Hr & Hlq & Hst).
      assert (Hner : r0 <> r) by (intros ->; apply Hne; eapply leader_by_record; eauto).
      split.
      * rewrite qfind_qdel, key_diff; auto. intros Heq. inversion Heq as [[Ek Ed]].
        rewrite <- Ek, <- Ed, Hqi in Hqj. congruence.
      * exists q. rewrite nth_modify, Hr. apply Nat.eqb_neq in Hner. rewrite Hner. auto.
  - intros j tj r0 Hj Hpw. destruct (Nat.eq_dec j i) as [->|Hne].
    + rewrite Hi' in Hj. inversion Hj; subst tj. congruence.
    + destruct (inv_wait s HI j tj r0 (Hother _ _ Hj Hne) Hpw) as (q & Hr & Hcase).
      rewrite nth_modify, Hr. destruct (Hf q) as (F1 & F2 & F3 & F4 & F5).
      destruct (Nat.eqb_spec r0 r) as [->|Hner].
      * exists (f q). split; auto. left. rewrite F4, F5. rewrite Hri in Hr. inversion Hr; subst q.
        destruct Hsti as [-> ->]. split; [reflexivity|discriminate].
      * exists q. split; auto. destruct Hcase as [Hd|(tl & Htl & Hul)]; [left; auto|right].
        exists tl. split; auto. rewrite nth_upd_neq; auto. intros Heq. rewrite <- Heq in Htl.
        rewrite Et in Htl. inversion Htl; subst tl. rewrite Hp in Hul. discriminate.
  - intros j tj r0 n Hj Hpu. destruct (Nat.eq_dec j i) as [->|Hne].
    + rewrite Hi' in Hj. inversion Hj; subst tj. congruence.
    + apply (inv_up s HI j tj r0 n); auto.
  - intros n u Hn Ho. destruct (inv_open s HI n u Hn Ho) as (tu & Htu & Hpu & Hku).
    exists tu. repeat split; try tauto. rewrite nth_upd_neq; auto. intros Heq. rewrite <- Heq in Htu.
    rewrite Et in Htu. inversion Htu; subst tu. congruence.
Qed.

Lemma upd_same {A} (l : list A) i x : nth_error l i = Some x -> upd l i x = l.
Proof. revert i; induction l as [|y l IH]; intros [|i]; cbn; intros E; try discriminate; [congruence|f_equal; auto]. Qed.

Lemma modify_id {A} (l : list A) r : match nth_error l r with Some q => upd l r q | None => l end = l.
Proof. destruct (nth_error l r) eqn:E; [apply upd_same; auto|reflexivity]. Qed.

Lemma load_or_store_inv s i t : Inv s ->
  nth_error (thr s) i = Some t -> leader_of (t_pc t) = None -> Inv (load_or_store s i t).
Proof.
  intros HI Et Hl. unfold load_or_store.
  destruct (qfind (queue s) (kind_of (c_op (t_call t))) (c_id (t_call t))) as [r|] eqn:Eq.
  - unfold with_thr. eapply attach_inv; eauto.
  - apply register_inv; auto.
Qed.

Lemma step_inv up s i s' : Inv s -> step up s i = Some s' -> Inv s'.
Proof.
  intros HI Hs. unfold step in Hs.
  destruct (nth_error (thr s) i) as [t|] eqn:Et; [|discriminate].
  destruct (t_pc t) as [| |r|r|r n|r res|r res|res] eqn:Epc.
  - (* PStart *)
    assert (Hl : leader_of (t_pc t) = None) by (rewrite Epc; reflexivity).
    destruct (c_op (t_call t)) eqn:Eop; try (inversion Hs; subst; apply load_or_store_inv; auto).
    destruct (qfind (queue s) QStore (c_id (t_call t))) as [r|] eqn:Eq; inversion Hs; subst; unfold with_thr.
    + eapply attach_inv; eauto.
    + eapply idle_pc_inv; eauto; cbn; congruence.
  - (* PPeeked *)
    inversion Hs; subst. apply load_or_store_inv; auto. rewrite Epc. reflexivity.
  - (* PWait *)
    destruct (nth_error (reqs s) r) as [q|] eqn:Er; [|discriminate].
    destruct (q_done q); [|discriminate]. destruct (q_res q); [|discriminate].
    inversion Hs; subst. unfold with_thr. eapply idle_pc_inv; eauto; cbn; try congruence. rewrite Epc. reflexivity.
  - (* PLead: the upstream call starts *)
    inversion Hs; subst; clear Hs.
    assert (Hl : leader_of (t_pc t) = Some r) by (rewrite Epc; reflexivity).
    destruct (inv_lead s HI i t r Et Hl) as (_ & q' & Hq' & _ & Hst). rewrite Epc in Hst.
    apply (leader_step_inv s i t (set_pc t (PUp r (length (ups s))) (clock s)) r
              (fun q => {| q_kind := q_kind q; q_id := q_id q; q_res := q_res q; q_done := q_done q;
                           q_leader := q_leader q; q_reg := q_reg q; q_del := q_del q; q_up := Some (length (ups s)) |})
              _ _ HI Et Hl); cbn [t_pc set_pc].
    + reflexivity.
    + reflexivity.
    + intros q. cbn. auto.
    + intros q Hd Hr. cbn. auto.
    + intros q Hq. cbn. congruence.
    + intros q Hq. left. reflexivity.
    + intros n Hn. inversion Hn; subst n. eexists. rewrite nth_app_new, Nat.eqb_refl. split; [reflexivity|]. cbn. auto.
    + intros j tj r0 n u Hne Hj Hp Hu Ho. apply nth_app_old; auto.
    + intros n u Hn Ho. rewrite nth_app_new in Hn. destruct (Nat.eqb_spec n (length (ups s))) as [->|Hne].
      * inversion Hn; subst u. right. cbn. auto.
      * left. split; auto. destruct (inv_open s HI n u Hn Ho) as (tu & Htu & Hpu & _).
        intros Heq. rewrite Heq, Et in Htu. inversion Htu; subst tu. congruence.
  - (* PUp: the upstream call returns *)
    inversion Hs; subst; clear Hs.
    assert (Hl : leader_of (t_pc t) = Some r) by (rewrite Epc; reflexivity).
    destruct (inv_lead s HI i t r Et Hl) as (_ & q' & Hq' & _ & Hst). rewrite Epc in Hst.
    rewrite <- (modify_id (reqs s) r).
    apply (leader_step_inv s i t (set_pc t (PGot r (interp (kind_of (c_op (t_call t))) (stored_tag (c_op (t_call t))) n (up n))) (clock s)) r
              (fun q => q) _ _ HI Et Hl); cbn [t_pc set_pc].
    + reflexivity.
    + reflexivity.
    + intros q. auto.
    + intros q Hd Hr. auto.
    + intros q Hq. congruence.
    + intros q Hq. left. reflexivity.
    + intros n0 Hn. discriminate.
    + intros j tj r0 n0 u Hne Hj Hp Hu Ho. rewrite nth_modify, Hu.
      destruct (Nat.eqb_spec n0 n) as [->|Hnn]; [|reflexivity].
      exfalso.
      destruct (inv_up s HI i t r n Et Epc) as (u' & Hu' & _ & Hby & _).
      rewrite Hu in Hu'. inversion Hu'; subst u'.
      destruct (inv_up s HI j tj r0 n Hj Hp) as (u'' & Hu'' & _ & Hby' & _).
      rewrite Hu in Hu''. inversion Hu''; subst u''. congruence.
    + intros n0 u Hn Ho. rewrite nth_modify in Hn. destruct (nth_error (ups s) n0) as [u0|] eqn:Eu; [|discriminate].
      destruct (Nat.eqb_spec n0 n) as [->|Hnn]; inversion Hn; subst u; [discriminate Ho|].
      left. split; auto. destruct (inv_open s HI n0 u0 Eu Ho) as (tu & Htu & Hpu & _).
      intros Heq. rewrite Heq, Et in Htu. inversion Htu; subst tu. rewrite Epc in Hpu. inversion Hpu; subst. auto.
  - (* PGot: markDone *)
    inversion Hs; subst; clear Hs.
    assert (Hl : leader_of (t_pc t) = Some r) by (rewrite Epc; reflexivity).
    apply (leader_step_inv s i t (set_pc t (PMarked r res) (clock s)) r
              (fun q => {| q_kind := q_kind q; q_id := q_id q; q_res := Some res; q_done := true;
                           q_leader := q_leader q; q_reg := q_reg q; q_del := q_del q; q_up := q_up q |})
              _ _ HI Et Hl); cbn [t_pc set_pc].
    + reflexivity.
    + reflexivity.
    + intros q. cbn. auto.
    + intros q Hd Hr. cbn. split; [reflexivity|discriminate].
    + intros q Hq. cbn. auto.
    + intros q Hq. right. cbn. split; [reflexivity|discriminate].
    + intros n Hn. discriminate.
    + intros j tj r0 n u Hne Hj Hp Hu Ho. exact Hu.
    + intros n u Hn Ho. left. split; auto. destruct (inv_open s HI n u Hn Ho) as (tu & Htu & Hpu & _).
      intros Heq. rewrite Heq, Et in Htu. inversion Htu; subst tu. congruence.
  - (* PMarked: delete and return *)
    inversion Hs; subst; clear Hs.
    eapply (delete_inv s i t _ r res
              (fun q => {| q_kind := q_kind q; q_id := q_id q; q_res := q_res q; q_done := q_done q;
                           q_leader := q_leader q; q_reg := q_reg q; q_del := Some (clock s); q_up := q_up q |}));
      eauto; try reflexivity.
  - discriminate.
Qed.

Lemma inv_reachable up calls sched : Inv (run (step up) sched (init calls)).
Proof. apply inv_run; [intros; eapply step_inv; eauto|apply inv_init]. Qed.

(* ---------- single flight ---------- *)

Lemma single_flight_inv s k d : Inv s -> in_flight s k d <= 1.
Proof.
  intros HI. unfold in_flight. apply filter_length_le1.
  intros n m x y Hn Hm Px Py.
  apply andb_true_iff in Px. destruct Px as [Px Ox]. apply andb_true_iff in Px. destruct Px as [Kx Dx].
  apply andb_true_iff in Py. destruct Py as [Py Oy]. apply andb_true_iff in Py. destruct Py as [Ky Dy].
  apply kind_eqb_eq in Kx. apply kind_eqb_eq in Ky. apply Nat.eqb_eq in Dx. apply Nat.eqb_eq in Dy.
  destruct (u_ret x) eqn:Rx; [discriminate|]. destruct (u_ret y) eqn:Ry; [discriminate|].
  destruct (inv_open s HI n x Hn Rx) as (tx & Htx & Hpx & Hkx & Hdx).
  destruct (inv_open s HI m y Hm Ry) as (ty & Hty & Hpy & Hky & Hdy).
  assert (u_by x = u_by y /\ u_req x = u_req y) as [Eby Ereq].
  { eapply leader_unique; eauto; try (rewrite Hpx; reflexivity); try (rewrite Hpy; reflexivity); congruence. }
  rewrite Eby, Hty in Htx. inversion Htx; subst tx. rewrite Hpy in Hpx. inversion Hpx. auto.
Qed.

Lemma single_flight up calls sched k d : in_flight (run (step up) sched (init calls)) k d <= 1.
Proof. apply single_flight_inv, inv_reachable. Qed.

(* ---------- no deadlock ---------- *)

Lemma final_false_thread s : final s = false -> exists i t, nth_error (thr s) i = Some t /\ is_done t = false.
Proof.
  unfold final. intros H. induction (thr s) as [|a l IH]; cbn in H; [discriminate|].
  destruct (is_done a) eqn:Ea.
  - destruct (IH H) as (i & t & Hi & Ht). exists (S i), t. auto.
  - exists 0, a. auto.
Qed.

(* every thread that has not returned and is not waiting can take a step *)
Lemma step_enabled_nonwait up s i t : nth_error (thr s) i = Some t ->
  is_done t = false -> (forall r, t_pc t <> PWait r) -> step up s i <> None.
Proof.
  intros Et Hd Hw. unfold step. rewrite Et.
  destruct (t_pc t) eqn:Epc; try discriminate.
  - destruct (c_op (t_call t)); try discriminate. destruct (qfind (queue s) QStore (c_id (t_call t))); discriminate.
  - exfalso. eapply Hw; eauto.
  - unfold is_done in Hd. rewrite Epc in Hd. discriminate.
Qed.

Lemma deadlock_free_inv up s : Inv s -> final s = false -> exists i, step up s i <> None.
Proof.
  intros HI Hf. destruct (final_false_thread s Hf) as (i & t & Et & Hd).
  destruct (t_pc t) eqn:Epc; try (exists i; eapply step_enabled_nonwait; eauto; intros; congruence).
  - (* waiting on record r *)
    destruct (inv_wait s HI i t r Et Epc) as (q & Hq & [[Hdone Hres]|(tl & Htl & Hul)]).
    + exists i. unfold step. rewrite Et, Epc, Hq, Hdone. destruct (q_res q); [discriminate|congruence].
    + exists (q_leader q). eapply step_enabled_nonwait; eauto.
      * unfold is_done. destruct (t_pc tl); cbn in Hul; try discriminate; reflexivity.
      * intros r0 E. rewrite E in Hul. discriminate.
Qed.

Lemma deadlock_free up calls sched :
  let s := run (step up) sched (init calls) in
  final s = false -> exists i, step up s i <> None.
Proof. intros s. apply deadlock_free_inv, inv_reachable. Qed.

(* ---------- termination: every enabled step consumes one unit of a caller's remaining program ---------- *)

Definition pc_left (p : pc) : nat :=
  match p with
  | PStart => 7 | PPeeked => 6 | PLead _ => 5 | PUp _ _ => 4 | PGot _ _ => 3 | PMarked _ _ => 2
  | PWait _ => 1 | PDone _ => 0
  end.

Definition mu (s : state) : nat := fold_right (fun t a => pc_left (t_pc t) + a) 0 (thr s).

Lemma mu_upd l i t t' : nth_error l i = Some t ->
  fold_right (fun t a => pc_left (t_pc t) + a) 0 (upd l i t') + pc_left (t_pc t) =
  fold_right (fun t a => pc_left (t_pc t) + a) 0 l + pc_left (t_pc t').
Proof.
  revert i; induction l as [|a l IH]; intros [|i] E; cbn in *; try discriminate.
  - inversion E; subst. lia.
  - specialize (IH i E). lia.
Qed.

Lemma mu_set s i t t' q r u c : nth_error (thr s) i = Some t -> pc_left (t_pc t') < pc_left (t_pc t) ->
  mu {| queue := q; reqs := r; thr := upd (thr s) i t'; ups := u; clock := c |} < mu s.
Proof. intros Et Hlt. unfold mu. cbn [thr]. pose proof (mu_upd (thr s) i t t' Et). lia. Qed.

Lemma load_or_store_mu s i t : nth_error (thr s) i = Some t -> 5 < pc_left (t_pc t) ->
  mu (load_or_store s i t) < mu s.
Proof.
  intros Et Hlt. unfold load_or_store.
  destruct (qfind (queue s) (kind_of (c_op (t_call t))) (c_id (t_call t))); [unfold with_thr|];
    eapply mu_set; eauto; cbn; lia.
Qed.

Lemma step_decreases up s i s' : step up s i = Some s' -> mu s' < mu s.
Proof.
  unfold step. destruct (nth_error (thr s) i) as [t|] eqn:Et; [|discriminate].
  destruct (t_pc t) eqn:Epc; intros H.
  - destruct (c_op (t_call t));
      try (inversion H; subst; apply load_or_store_mu; auto; rewrite Epc; cbn; lia).
    destruct (qfind (queue s) QStore (c_id (t_call t))); inversion H; subst; unfold with_thr;
      eapply mu_set; eauto; rewrite Epc; cbn; lia.
  - inversion H; subst. apply load_or_store_mu; auto. rewrite Epc; cbn; lia.
  - destruct (nth_error (reqs s) r) as [q|]; [|discriminate]. destruct (q_done q); [|discriminate].
    destruct (q_res q); [|discriminate]. inversion H; subst. unfold with_thr. eapply mu_set; eauto. rewrite Epc. cbn. lia.
  - inversion H; subst. eapply mu_set; eauto. rewrite Epc. cbn. lia.
  - inversion H; subst. eapply mu_set; eauto. rewrite Epc. cbn. lia.
  - inversion H; subst. eapply mu_set; eauto. rewrite Epc. cbn. lia.
  - inversion H; subst. eapply mu_set; eauto. rewrite Epc. cbn. lia.
  - discriminate.
Qed.

Lemma mu_init calls : mu (init calls) = 7 * length calls.
Proof. unfold mu, init. cbn [thr]. induction calls; cbn in *; lia. Qed.

Lemma terminates up calls sched s' :
  run_strict (step up) sched (init calls) = Some s' -> length sched + mu s' <= 7 * length calls.
Proof.
  intros H. rewrite <- mu_init. eapply measure_bound; eauto. intros. eapply step_decreases; eauto.
Qed.

(* a run that only schedules enabled callers and can no longer be extended has every caller returned *)
Lemma maximal_run_all_returned up calls sched s' :
  run_strict (step up) sched (init calls) = Some s' ->
  (forall i, step up s' i = None) -> final s' = true.
Proof.
  intros Hr Hstuck. destruct (final s') eqn:Ef; [reflexivity|exfalso].
  assert (HI : Inv s') by (rewrite <- (run_strict_run _ _ _ _ Hr); apply inv_reachable).
  destruct (deadlock_free_inv up s' HI Ef) as (i & Hi). apply Hi, Hstuck.
Qed.

Lemma all_return up calls sched s' :
  run_strict (step up) sched (init calls) = Some s' ->
  length sched <= 7 * length calls /\ ((forall i, step up s' i = None) -> final s' = true).
Proof.
  intros H. split.
  - pose proof (terminates up calls sched s' H). lia.
  - exact (maximal_run_all_returned up calls sched s' H).
Qed.

(* ---------- the steps, case by case (successor states written out) ---------- *)

Definition mod_req (l : list req) (r : nat) (f : req -> req) : list req :=
  match nth_error l r with Some q => upd l r (f q) | None => l end.

Definition set_up (n : nat) (q : req) : req :=
  {| q_kind := q_kind q; q_id := q_id q; q_res := q_res q; q_done := q_done q;
     q_leader := q_leader q; q_reg := q_reg q; q_del := q_del q; q_up := Some n |}.
Definition set_done (res : result) (q : req) : req :=
  {| q_kind := q_kind q; q_id := q_id q; q_res := Some res; q_done := true;
     q_leader := q_leader q; q_reg := q_reg q; q_del := q_del q; q_up := q_up q |}.
Definition set_del (now : nat) (q : req) : req :=
  {| q_kind := q_kind q; q_id := q_id q; q_res := q_res q; q_done := q_done q;
     q_leader := q_leader q; q_reg := q_reg q; q_del := Some now; q_up := q_up q |}.
Definition new_req (k : kind) (d : id) (i now : nat) : req :=
  {| q_kind := k; q_id := d; q_res := None; q_done := false; q_leader := i; q_reg := now; q_del := None; q_up := None |}.
Definition new_call (k : kind) (d : id) (i r now : nat) : ucall :=
  {| u_kind := k; u_id := d; u_by := i; u_req := r; u_call := now; u_ret := None |}.
Definition set_uret (now : nat) (u : ucall) : ucall :=
  {| u_kind := u_kind u; u_id := u_id u; u_by := u_by u; u_req := u_req u; u_call := u_call u; u_ret := Some now |}.

Section Steps.
  Variable up : nat -> uout.

  Inductive Step (s : state) (i : nat) : state -> Prop :=
  | St_peek_miss t : nth_error (thr s) i = Some t -> t_pc t = PStart -> c_op (t_call t) = CWGet ->
      qfind (queue s) QStore (tid_ t) = None ->
      Step s i (with_thr s i (set_pc t PPeeked (clock s)))
  | St_attach t k r : nth_error (thr s) i = Some t -> (t_pc t = PStart \/ t_pc t = PPeeked) ->
      (k = tkind t \/ (k = QStore /\ c_op (t_call t) = CWGet)) ->
      qfind (queue s) k (tid_ t) = Some r ->
      Step s i (with_thr s i (set_pc (set_obt t r (clock s)) (PWait r) (clock s)))
  | St_register t : nth_error (thr s) i = Some t -> (t_pc t = PStart \/ t_pc t = PPeeked) ->
      qfind (queue s) (tkind t) (tid_ t) = None ->
      Step s i {| queue := (tkind t, tid_ t, length (reqs s)) :: queue s;
                  reqs := reqs s ++ [new_req (tkind t) (tid_ t) i (clock s)];
                  thr := upd (thr s) i (set_pc (set_obt t (length (reqs s)) (clock s)) (PLead (length (reqs s))) (clock s));
                  ups := ups s; clock := S (clock s) |}
  | St_wake t r q res : nth_error (thr s) i = Some t -> t_pc t = PWait r ->
      nth_error (reqs s) r = Some q -> q_done q = true -> q_res q = Some res ->
      Step s i (with_thr s i (set_pc t (PDone (project (c_op (t_call t)) res)) (clock s)))
  | St_call t r : nth_error (thr s) i = Some t -> t_pc t = PLead r ->
      Step s i {| queue := queue s; reqs := mod_req (reqs s) r (set_up (length (ups s)));
                  thr := upd (thr s) i (set_pc t (PUp r (length (ups s))) (clock s));
                  ups := ups s ++ [new_call (tkind t) (tid_ t) i r (clock s)]; clock := S (clock s) |}
  | St_return t r n : nth_error (thr s) i = Some t -> t_pc t = PUp r n ->
      Step s i {| queue := queue s; reqs := reqs s;
                  thr := upd (thr s) i (set_pc t (PGot r (interp (tkind t) (stored_tag (c_op (t_call t))) n (up n))) (clock s));
                  ups := match nth_error (ups s) n with Some u => upd (ups s) n (set_uret (clock s) u) | None => ups s end;
                  clock := S (clock s) |}
  | St_mark t r res : nth_error (thr s) i = Some t -> t_pc t = PGot r res ->
      Step s i {| queue := queue s; reqs := mod_req (reqs s) r (set_done res);
                  thr := upd (thr s) i (set_pc t (PMarked r res) (clock s));
                  ups := ups s; clock := S (clock s) |}
  | St_delete t r res : nth_error (thr s) i = Some t -> t_pc t = PMarked r res ->
      Step s i {| queue := qdel (queue s) (tkind t) (tid_ t); reqs := mod_req (reqs s) r (set_del (clock s));
                  thr := upd (thr s) i (set_pc t (PDone (project (c_op (t_call t)) res)) (clock s));
                  ups := ups s; clock := S (clock s) |}.

  Lemma step_Step s i s' : step up s i = Some s' -> Step s i s'.
  Proof.
    unfold step. destruct (nth_error (thr s) i) as [t|] eqn:Et; [|discriminate].
    assert (Hlos : (t_pc t = PStart \/ t_pc t = PPeeked) -> Step s i (load_or_store s i t)).
    { intros Hp. unfold load_or_store.
      destruct (qfind (queue s) (kind_of (c_op (t_call t))) (c_id (t_call t))) as [r|] eqn:Eq.
      - eapply St_attach; eauto.
      - apply St_register; auto. }
    destruct (t_pc t) eqn:Epc; intros H.
    - destruct (c_op (t_call t)) eqn:Eop; try (inversion H; subst; apply Hlos; auto).
      destruct (qfind (queue s) QStore (c_id (t_call t))) as [r|] eqn:Eq; inversion H; subst.
      + eapply St_attach; eauto.
      + eapply St_peek_miss; eauto.
    - inversion H; subst. apply Hlos; auto.
    - destruct (nth_error (reqs s) r) as [q|] eqn:Eq; [|discriminate]. destruct (q_done q) eqn:Ed; [|discriminate].
      destruct (q_res q) eqn:Er; [|discriminate]. inversion H; subst. eapply St_wake; eauto.
    - inversion H; subst. eapply St_call; eauto.
    - inversion H; subst. eapply St_return; eauto.
    - inversion H; subst. eapply St_mark; eauto.
    - inversion H; subst. eapply St_delete; eauto.
    - discriminate.
  Qed.
End Steps.

(* ---------- ghost invariants: logical times and provenance of results ---------- *)

Definition lt_clock (o : option nat) (c : nat) : Prop := match o with Some x => x < c | None => True end.

Lemma lt_clock_S o c : lt_clock o c -> lt_clock o (S c).
Proof. destruct o; cbn; auto. Qed.

Lemma nth_mod_req l r f j :
  nth_error (mod_req l r f) j = match nth_error l j with Some q => Some (if Nat.eqb j r then f q else q) | None => None end.
Proof. apply nth_modify. Qed.

Record GTime (s : state) : Prop := {
  gt_thr : forall i t, nth_error (thr s) i = Some t ->
     lt_clock (t_start t) (clock s) /\ lt_clock (t_obt t) (clock s) /\ (is_done t = false -> t_ret t = None);
  gt_req : forall r q, nth_error (reqs s) r = Some q -> q_reg q < clock s;
}.

Lemma set_pc_times t p now : is_done t = false ->
  lt_clock (t_start t) now -> lt_clock (t_obt t) now -> (is_done t = false -> t_ret t = None) ->
  lt_clock (t_start (set_pc t p now)) (S now) /\ lt_clock (t_obt (set_pc t p now)) (S now) /\
  (is_done (set_pc t p now) = false -> t_ret (set_pc t p now) = None).
Proof.
  intros H0 H1 H2 H3. cbn. repeat split.
  - destruct (t_start t); cbn in *; lia.
  - apply lt_clock_S; auto.
  - unfold is_done. cbn. destruct p; try discriminate; intros _; apply H3; auto.
Qed.

Lemma set_obt_times t r p now : is_done t = false ->
  lt_clock (t_start t) now -> (is_done t = false -> t_ret t = None) ->
  lt_clock (t_start (set_pc (set_obt t r now) p now)) (S now) /\ lt_clock (t_obt (set_pc (set_obt t r now) p now)) (S now) /\
  (is_done (set_pc (set_obt t r now) p now) = false -> t_ret (set_pc (set_obt t r now) p now) = None).
Proof.
  intros H0 H1 H3. cbn. repeat split.
  - destruct (t_start t); cbn in *; lia.
  - lia.
  - unfold is_done. cbn. destruct p; try discriminate; intros _; apply H3; auto.
Qed.

Lemma not_done_pc t : (t_pc t = PStart \/ t_pc t = PPeeked \/ (exists r, t_pc t = PWait r) \/ leader_of (t_pc t) <> None) -> is_done t = false.
Proof.
  unfold is_done. intros [H|[H|[[r H]|H]]]; try (rewrite H; reflexivity).
  destruct (t_pc t); cbn in H; congruence.
Qed.

Section Ghost.
  Variable up : nat -> uout.

  Lemma step_gtime s i s' : GTime s -> Step up s i s' -> GTime s'.
  Proof.
    intros [HT HR] HS.
    assert (Hthr : forall t t' q r u, nth_error (thr s) i = Some t ->
              (lt_clock (t_start t') (S (clock s)) /\ lt_clock (t_obt t') (S (clock s)) /\ (is_done t' = false -> t_ret t' = None)) ->
              forall j tj, nth_error (thr {| queue := q; reqs := r; thr := upd (thr s) i t'; ups := u; clock := S (clock s) |}) j = Some tj ->
              lt_clock (t_start tj) (S (clock s)) /\ lt_clock (t_obt tj) (S (clock s)) /\ (is_done tj = false -> t_ret tj = None)).
    { intros t t' q r u Et Ht' j tj Hj. cbn [thr] in Hj. rewrite (nth_upd _ _ _ _ _ Et) in Hj.
      destruct (Nat.eqb j i); [inversion Hj; subst; auto|].
      destruct (HT j tj Hj) as (A & B & C). repeat split; auto using lt_clock_S. }
    assert (Hreq : forall r f, (forall q, q_reg (f q) = q_reg q) ->
              forall j q, nth_error (mod_req (reqs s) r f) j = Some q -> q_reg q < S (clock s)).
    { intros r f Hf j q Hj. rewrite nth_mod_req in Hj. destruct (nth_error (reqs s) j) as [q0|] eqn:E; [|discriminate].
      inversion Hj; subst. pose proof (HR j q0 E). destruct (Nat.eqb j r); [rewrite Hf|]; lia. }
    assert (Hreq0 : forall j q, nth_error (reqs s) j = Some q -> q_reg q < S (clock s)).
    { intros j q Hj. pose proof (HR j q Hj). lia. }
    destruct HS as [t Et Hp Hop Hq|t k r Et Hp Hk Hq|t Et Hp Hq|t r q res Et Hp Hq Hd Hr|t r Et Hp|t r n Et Hp|t r res Et Hp|t r res Et Hp];
      destruct (HT i t Et) as (A & B & C);
      assert (Hnd : is_done t = false) by (apply not_done_pc; rewrite Hp || destruct Hp as [Hp|Hp]; rewrite ?Hp; cbn; eauto 6; right; right; right; discriminate).
    all: split; cbn [clock reqs]; unfold with_thr; cbn [clock reqs];
      try (eapply Hthr; eauto; first [apply set_obt_times; auto|apply set_pc_times; auto]);
      try (apply Hreq0); try (apply Hreq; reflexivity).
    (* the new record *)
    intros j q Hj. rewrite nth_app_new in Hj. destruct (Nat.eqb j (length (reqs s))).
    - inversion Hj; subst. cbn. lia.
    - pose proof (HR j q Hj). lia.
  Qed.

  Record GObt (s : state) : Prop := {
    (* the record a caller obtained was registered, and not yet removed, at a moment inside the caller's call *)
    go_obt : forall i t r, nth_error (thr s) i = Some t -> t_req t = Some r ->
       exists q tau st, nth_error (reqs s) r = Some q /\ t_obt t = Some tau /\ t_start t = Some st /\ st <= tau /\
         q_reg q <= tau /\ (forall dl, q_del q = Some dl -> tau < dl) /\ (forall rt, t_ret t = Some rt -> tau < rt);
    go_pc : forall i t r, nth_error (thr s) i = Some t -> (t_pc t = PWait r \/ leader_of (t_pc t) = Some r) -> t_req t = Some r;
  }.

  (* what a step does to the records, as far as registration and removal times go *)
  Definition reqs_ext (s s' : state) : Prop :=
    forall r q, nth_error (reqs s) r = Some q ->
      exists q', nth_error (reqs s') r = Some q' /\ q_reg q' = q_reg q /\
                 (q_del q' = q_del q \/ (q_del q = None /\ q_del q' = Some (clock s))).

  Lemma reqs_ext_mod s r f q0 th u c :
    (forall q, nth_error (reqs s) r = Some q ->
       q_reg (f q) = q_reg q /\ (q_del (f q) = q_del q \/ (q_del q = None /\ q_del (f q) = Some (clock s)))) ->
    reqs_ext s {| queue := q0; reqs := mod_req (reqs s) r f; thr := th; ups := u; clock := c |}.
  Proof.
    intros Hf j q Hj. cbn [reqs]. rewrite nth_mod_req, Hj. destruct (Nat.eqb_spec j r) as [->|Hne].
    - exists (f q). split; [reflexivity|]. apply Hf; auto.
    - exists q. auto.
  Qed.

  Lemma reqs_ext_same s q0 th u c : reqs_ext s {| queue := q0; reqs := reqs s; thr := th; ups := u; clock := c |}.
  Proof. intros j q Hj. exists q. auto. Qed.

  Lemma reqs_ext_app s q0 x th u c : reqs_ext s {| queue := q0; reqs := reqs s ++ [x]; thr := th; ups := u; clock := c |}.
  Proof. intros j q Hj. exists q. cbn [reqs]. split; [apply nth_app_old; auto|auto]. Qed.

  Lemma step_reqs_ext s i s' : Inv s -> Step up s i s' -> reqs_ext s s'.
  Proof.
    intros HI HS.
    destruct HS as [t Et Hp Hop Hq|t k r Et Hp Hk Hq|t Et Hp Hq|t r q res Et Hp Hq Hd Hr|t r Et Hp|t r n Et Hp|t r res Et Hp|t r res Et Hp];
      unfold with_thr; try apply reqs_ext_same; try apply reqs_ext_app; apply reqs_ext_mod; intros q Hq; cbn; auto.
    (* delete: the record had not been removed before *)
    split; auto. right. split; auto.
    destruct (inv_lead s HI i t r Et ltac:(rewrite Hp; reflexivity)) as (Hqf & _).
    destruct (inv_q s HI _ _ _ Hqf) as (q' & _ & Hq' & _ & _ & Hdel & _). congruence.
  Qed.

  Definition obt_fact (s : state) (t : thread) (r : nat) : Prop :=
    exists q tau st, nth_error (reqs s) r = Some q /\ t_obt t = Some tau /\ t_start t = Some st /\ st <= tau /\
      q_reg q <= tau /\ (forall dl, q_del q = Some dl -> tau < dl) /\ (forall rt, t_ret t = Some rt -> tau < rt).

  Lemma obt_keep s s' t t' r : reqs_ext s s' -> lt_clock (t_obt t) (clock s) ->
    obt_fact s t r -> t_obt t' = t_obt t -> (forall st, t_start t = Some st -> t_start t' = Some st) ->
    (t_ret t' = t_ret t \/ t_ret t' = Some (clock s)) -> obt_fact s' t' r.
  Proof.
    intros Hext Hlt (q & tau & st & Hq & Ho & Hs & Hle & Hreg & Hdel & Hret) Eo Es Er.
    destruct (Hext r q Hq) as (q' & Hq' & Hreg' & Hdel').
    rewrite Ho in Hlt. cbn in Hlt.
    exists q', tau, st. repeat split; auto; try congruence.
    - intros dl Hd. destruct Hdel' as [E|[E1 E2]]; [apply Hdel; congruence|]. rewrite E2 in Hd. inversion Hd; subst. exact Hlt.
    - intros rt Hr. destruct Er as [E|E]; [apply Hret; congruence|]. rewrite E in Hr. inversion Hr; subst. exact Hlt.
  Qed.

  Lemma set_pc_keep t p now : t_obt (set_pc t p now) = t_obt t /\ t_req (set_pc t p now) = t_req t /\
    (forall st, t_start t = Some st -> t_start (set_pc t p now) = Some st) /\
    (t_ret (set_pc t p now) = t_ret t \/ t_ret (set_pc t p now) = Some now).
  Proof.
    cbn. repeat split; auto.
    - intros st ->. reflexivity.
    - destruct p; auto.
  Qed.

  Lemma step_gobt s i s' : Inv s -> GTime s -> GObt s -> Step up s i s' -> GObt s'.
  Proof.
    intros HI HT [HO HP] HS.
    pose proof (step_reqs_ext s i s' HI HS) as Hext.
    (* threads other than i, and thread i when only its pc moved *)
    assert (Hold : forall j tj r, nth_error (thr s) j = Some tj -> t_req tj = Some r -> obt_fact s' tj r).
    { intros j tj r Hj Hr. destruct (gt_thr s HT j tj Hj) as (_ & B & _).
      eapply obt_keep; eauto. apply (HO j tj r); auto. }
    assert (Hmove : forall t p r, nth_error (thr s) i = Some t -> t_req t = Some r -> obt_fact s' (set_pc t p (clock s)) r).
    { intros t p r Et Hr. destruct (gt_thr s HT i t Et) as (_ & B & _).
      destruct (set_pc_keep t p (clock s)) as (K1 & K2 & K3 & K4).
      eapply obt_keep; eauto. apply (HO i t r); auto. }
    destruct HS as [t Et Hp Hop Hq|t k r Et Hp Hk Hq|t Et Hp Hq|t r q res Et Hp Hq Hd Hr|t r Et Hp|t r n Et Hp|t r res Et Hp|t r res Et Hp];
      unfold with_thr in *; split; (cbn [thr]; intros j tj r0 Hj Hr0; rewrite (nth_upd _ _ _ _ _ Et) in Hj;
        destruct (Nat.eqb j i); [inversion Hj; subst tj; clear Hj|]);
      try (eapply Hold; eauto; fail); try (eapply HP; eauto; fail);
      try (apply Hmove; auto; fail).
    all: cbn [t_pc set_pc t_req set_obt] in *.
    all: try (destruct Hr0 as [Hr0|Hr0]; discriminate Hr0).
    all: try (destruct Hr0 as [Hr0|Hr0]; inversion Hr0; subst; reflexivity).
    all: try (apply (HP i t r0 Et); rewrite Hp; cbn; destruct Hr0 as [Hr0|Hr0]; inversion Hr0; subst; auto; fail).
    - (* attach: the record is in the queue right now *)
      inversion Hr0; subst r0.
      destruct (inv_q s HI _ _ _ Hq) as (q & _ & Hq' & _ & _ & Hdel & _).
      destruct (gt_thr s HT i t Et) as (A & _ & C).
      pose proof (gt_req s HT r q Hq') as Hrg.
      assert (Hnd : is_done t = false) by (apply not_done_pc; tauto).
      exists q, (clock s). cbn.
      destruct (t_start t) as [st|] eqn:Est; cbn in A.
      + exists st. repeat split; auto; try lia; try congruence. rewrite (C Hnd). discriminate.
      + exists (clock s). repeat split; auto; try lia; try congruence. rewrite (C Hnd). discriminate.
    - (* register: the record is new *)
      inversion Hr0; subst r0.
      destruct (gt_thr s HT i t Et) as (A & _ & C).
      assert (Hnd : is_done t = false) by (apply not_done_pc; tauto).
      exists (new_req (tkind t) (tid_ t) i (clock s)), (clock s). cbn [reqs]. rewrite nth_app_new, Nat.eqb_refl. cbn.
      destruct (t_start t) as [st|] eqn:Est; cbn in A.
      + exists st. repeat split; auto; try lia; try discriminate. rewrite (C Hnd). discriminate.
      + exists (clock s). repeat split; auto; try lia; try discriminate. rewrite (C Hnd). discriminate.
  Qed.

  (* ---------- provenance of results ---------- *)

  Record GRes (s : state) : Prop := {
    gr_nores : forall r q, nth_error (reqs s) r = Some q -> q_done q = false -> q_res q = None;
    gr_up : forall i t r n, nth_error (thr s) i = Some t -> t_pc t = PUp r n ->
       exists q, nth_error (reqs s) r = Some q /\ q_up q = Some n;
    gr_got : forall i t r res, nth_error (thr s) i = Some t -> (t_pc t = PGot r res \/ t_pc t = PMarked r res) ->
       exists q n u, nth_error (reqs s) r = Some q /\ q_up q = Some n /\ nth_error (ups s) n = Some u /\
         u_req u = r /\ u_ret u <> None /\ u_by u = i /\ u_kind u = tkind t /\ u_id u = tid_ t /\
         res = interp (tkind t) (stored_tag (c_op (t_call t))) n (up n);
    gr_res : forall r q res', nth_error (reqs s) r = Some q -> q_res q = Some res' ->
       exists n u tl, q_up q = Some n /\ nth_error (ups s) n = Some u /\ u_req u = r /\ u_ret u <> None /\
         u_by u = q_leader q /\ u_kind u = q_kind q /\ u_id u = q_id q /\
         nth_error (thr s) (q_leader q) = Some tl /\ res' = interp (q_kind q) (stored_tag (c_op (t_call tl))) n (up n);
    gr_done : forall i t res, nth_error (thr s) i = Some t -> t_pc t = PDone res ->
       exists r q res', t_req t = Some r /\ nth_error (reqs s) r = Some q /\ q_res q = Some res' /\
         res = project (c_op (t_call t)) res' /\ t_ret t <> None;
  }.

  (* finished upstream calls are never rewritten; callers keep their call *)
  Definition ups_ext (s s' : state) : Prop :=
    forall n u, nth_error (ups s) n = Some u -> u_ret u <> None -> nth_error (ups s') n = Some u.
  Definition call_ext (s s' : state) : Prop :=
    forall j t, nth_error (thr s) j = Some t -> exists t', nth_error (thr s') j = Some t' /\ t_call t' = t_call t.

  Lemma step_ups_ext s i s' : Inv s -> Step up s i s' -> ups_ext s s'.
  Proof.
    intros HI HS n0 u Hn Hr.
    destruct HS as [t Et Hp Hop Hq|t k r Et Hp Hk Hq|t Et Hp Hq|t r q res Et Hp Hq Hd Hrs|t r Et Hp|t r n Et Hp|t r res Et Hp|t r res Et Hp];
      unfold with_thr; cbn [ups]; auto.
    - apply nth_app_old; auto.
    - destruct (inv_up s HI i t r n Et Hp) as (u' & Hu' & Hret & _).
      rewrite nth_modify, Hn. destruct (Nat.eqb_spec n0 n) as [->|Hne]; [|reflexivity]. congruence.
  Qed.

  Lemma step_call_ext s i s' : Step up s i s' -> call_ext s s'.
  Proof.
    intros HS j tj Hj.
    destruct HS as [t Et Hp Hop Hq|t k r Et Hp Hk Hq|t Et Hp Hq|t r q res Et Hp Hq Hd Hrs|t r Et Hp|t r n Et Hp|t r res Et Hp|t r res Et Hp];
      unfold with_thr; cbn [thr]; rewrite (nth_upd _ _ _ _ _ Et);
      (destruct (Nat.eqb_spec j i) as [->|Hne]; [rewrite Et in Hj; inversion Hj; subst; eexists; split; [reflexivity|reflexivity]|eauto]).
  Qed.

  Lemma nth_mod_req_inv l r f j q' : nth_error (mod_req l r f) j = Some q' ->
    exists q, nth_error l j = Some q /\ q' = if Nat.eqb j r then f q else q.
  Proof.
    rewrite nth_mod_req. destruct (nth_error l j) as [q|]; [|discriminate]. intros H. inversion H. eauto.
  Qed.

  Ltac step_cases HS :=
    destruct HS as [t Et Hp Hop Hq|t k r Et Hp Hk Hq|t Et Hp Hq|t r q res Et Hp Hq Hd Hrs|t r Et Hp|t r n Et Hp|t r res Et Hp|t r res Et Hp];
    unfold with_thr in *.

  Lemma step_nores s i s' :
    (forall r q, nth_error (reqs s) r = Some q -> q_done q = false -> q_res q = None) ->
    Step up s i s' ->
    (forall r q, nth_error (reqs s') r = Some q -> q_done q = false -> q_res q = None).
  Proof.
    intros H HS r0 q0 Hr0 Hd0. step_cases HS; cbn [reqs] in Hr0; eauto.
    - rewrite nth_app_new in Hr0. destruct (Nat.eqb r0 (length (reqs s))); [inversion Hr0; subst; reflexivity|eauto].
    - apply nth_mod_req_inv in Hr0. destruct Hr0 as (q & Hq & ->). destruct (Nat.eqb r0 r); eauto. cbn in *. eauto.
    - apply nth_mod_req_inv in Hr0. destruct Hr0 as (q & Hq & ->). destruct (Nat.eqb r0 r); eauto. cbn in *. discriminate.
    - apply nth_mod_req_inv in Hr0. destruct Hr0 as (q & Hq & ->). destruct (Nat.eqb r0 r); eauto. cbn in *. eauto.
  Qed.

  Lemma step_gup s i s' : Inv s ->
    (forall i t r n, nth_error (thr s) i = Some t -> t_pc t = PUp r n -> exists q, nth_error (reqs s) r = Some q /\ q_up q = Some n) ->
    Step up s i s' ->
    (forall j t r n, nth_error (thr s') j = Some t -> t_pc t = PUp r n -> exists q, nth_error (reqs s') r = Some q /\ q_up q = Some n).
  Proof.
    intros HI H HS j tj r0 n0 Hj Hpj.
    step_cases HS; cbn [thr reqs] in *; rewrite (nth_upd _ _ _ _ _ Et) in Hj;
      (destruct (Nat.eqb_spec j i) as [->|Hne]; [inversion Hj; subst tj; cbn [t_pc set_pc] in Hpj; try discriminate|]);
      try (destruct (H j tj r0 n0 Hj Hpj) as (q0 & Hq0 & Hu0)).
    all: try (exists q0; split; auto; fail).
    - exists q0. split; auto. apply nth_app_old; auto.
    - (* call, thread i itself *)
      inversion Hpj; subst r0 n0.
      destruct (inv_lead s HI i t r Et ltac:(rewrite Hp; reflexivity)) as (_ & q & Hq & _).
      exists (set_up (length (ups s)) q). rewrite nth_mod_req, Hq, Nat.eqb_refl. auto.
    - (* call, another leader in PUp: a different record *)
      assert (r0 <> r).
      { intros ->. apply Hne. eapply leader_by_record; eauto; [rewrite Hpj|rewrite Hp]; reflexivity. }
      exists q0. rewrite nth_mod_req, Hq0. apply Nat.eqb_neq in H0. rewrite H0. auto.
    - rewrite nth_mod_req, Hq0. destruct (Nat.eqb r0 r); eexists; split; eauto.
    - rewrite nth_mod_req, Hq0. destruct (Nat.eqb r0 r); eexists; split; eauto.
  Qed.

  Definition got_fact (s : state) (i : nat) (t : thread) (r : nat) (res : result) : Prop :=
    exists q n u, nth_error (reqs s) r = Some q /\ q_up q = Some n /\ nth_error (ups s) n = Some u /\
      u_req u = r /\ u_ret u <> None /\ u_by u = i /\ u_kind u = tkind t /\ u_id u = tid_ t /\
      res = interp (tkind t) (stored_tag (c_op (t_call t))) n (up n).

  Lemma step_ggot s i s' : Inv s -> GRes s -> Step up s i s' ->
    (forall j t r res, nth_error (thr s') j = Some t -> (t_pc t = PGot r res \/ t_pc t = PMarked r res) -> got_fact s' j t r res).
  Proof.
    intros HI HG HS j tj r0 res0 Hj Hpj.
    pose proof (step_ups_ext s i s' HI HS) as Hue.
    (* a thread other than i keeps its fact: its record is not the one thread i rewrites in q_up *)
    assert (Hold : forall tj, nth_error (thr s) j = Some tj -> (t_pc tj = PGot r0 res0 \/ t_pc tj = PMarked r0 res0) ->
              (forall q, nth_error (reqs s) r0 = Some q -> exists q', nth_error (reqs s') r0 = Some q' /\ q_up q' = q_up q) ->
              got_fact s' j tj r0 res0).
    { intros tj0 Hj0 Hp0 Hrq. destruct (gr_got s HG j tj0 r0 res0 Hj0 Hp0) as (q & n & u & Hq & Hup & Hu & R1 & R2 & R3 & R4 & R5 & R6).
      destruct (Hrq q Hq) as (q' & Hq' & Hup'). exists q', n, u. repeat split; auto; try congruence. }
    step_cases HS; cbn [thr] in Hj; rewrite (nth_upd _ _ _ _ _ Et) in Hj;
      (destruct (Nat.eqb_spec j i) as [->|Hne]; [inversion Hj; subst tj; cbn [t_pc set_pc] in Hpj; try (destruct Hpj; discriminate)|]).
    all: try (apply (Hold tj Hj Hpj); cbn [reqs]; intros q1 Hq1; eauto; fail).
    - apply (Hold tj Hj Hpj). cbn [reqs]. intros q1 Hq1. exists q1. split; auto. apply nth_app_old; auto.
    - (* call by i; j is another leader *)
      apply (Hold tj Hj Hpj). cbn [reqs]. intros q1 Hq1. rewrite nth_mod_req, Hq1.
      assert (Hr : r0 <> r).
      { intros ->. apply Hne. eapply leader_by_record; eauto; [destruct Hpj as [E|E]; rewrite E|rewrite Hp]; reflexivity. }
      apply Nat.eqb_neq in Hr. rewrite Hr. eauto.
    - (* return by i: its own new fact *)
      destruct Hpj as [Hpj|Hpj]; [|discriminate]. inversion Hpj; subst r0 res0.
      destruct (gr_up s HG i t r n Et Hp) as (q & Hq & Hup).
      destruct (inv_up s HI i t r n Et Hp) as (u & Hu & Hret & Hby & Hrq & Hk & Hd).
      exists q, n, (set_uret (clock s) u). cbn [reqs ups]. rewrite nth_modify, Hu, Nat.eqb_refl.
      repeat split; auto; cbn; auto. discriminate.
    - (* mark by i: same result, record rewritten without touching q_up *)
      destruct Hpj as [Hpj|Hpj]; [discriminate|]. inversion Hpj; subst r0 res0.
      destruct (gr_got s HG i t r res Et (or_introl Hp)) as (q & n & u & Hq & Hup & Hu & R1 & R2 & R3 & R4 & R5 & R6).
      exists (set_done res q), n, u. cbn [reqs ups]. rewrite nth_mod_req, Hq, Nat.eqb_refl. repeat split; auto.
    - apply (Hold tj Hj Hpj). cbn [reqs]. intros q1 Hq1. rewrite nth_mod_req, Hq1. destruct (Nat.eqb r0 r); eauto.
    - apply (Hold tj Hj Hpj). cbn [reqs]. intros q1 Hq1. rewrite nth_mod_req, Hq1. destruct (Nat.eqb r0 r); eauto.
  Qed.

  Definition res_fact (s : state) (r : nat) (q : req) (res' : result) : Prop :=
    exists n u tl, q_up q = Some n /\ nth_error (ups s) n = Some u /\ u_req u = r /\ u_ret u <> None /\
      u_by u = q_leader q /\ u_kind u = q_kind q /\ u_id u = q_id q /\
      nth_error (thr s) (q_leader q) = Some tl /\ res' = interp (q_kind q) (stored_tag (c_op (t_call tl))) n (up n).

  Lemma res_keep s s' r q q' res' : ups_ext s s' -> call_ext s s' -> res_fact s r q res' ->
    q_up q' = q_up q -> q_leader q' = q_leader q -> q_kind q' = q_kind q -> q_id q' = q_id q ->
    res_fact s' r q' res'.
  Proof.
    intros Hue Hce (n & u & tl & F1 & F2 & F3 & F4 & F5 & F6 & F7 & F8 & F9) E1 E2 E3 E4.
    destruct (Hce _ _ F8) as (tl' & Htl' & Hc).
    exists n, u, tl'. rewrite E1, E2, E3, E4, Hc. repeat split; auto.
  Qed.

  Lemma step_gres s i s' : Inv s -> GRes s -> Step up s i s' ->
    (forall r q res', nth_error (reqs s') r = Some q -> q_res q = Some res' -> res_fact s' r q res').
  Proof.
    intros HI HG HS r0 q0 res0 Hr0 Hres0.
    pose proof (step_ups_ext s i s' HI HS) as Hue.
    pose proof (step_call_ext s i s' HS) as Hce.
    assert (Hold : forall q, nth_error (reqs s) r0 = Some q -> q_res q = Some res0 ->
              q_up q0 = q_up q -> q_leader q0 = q_leader q -> q_kind q0 = q_kind q -> q_id q0 = q_id q -> res_fact s' r0 q0 res0).
    { intros q Hq Hr E1 E2 E3 E4. eapply res_keep; eauto. apply (gr_res s HG r0 q res0); auto. }
    step_cases HS; cbn [reqs] in Hr0.
    - eapply Hold; eauto.
    - eapply Hold; eauto.
    - rewrite nth_app_new in Hr0. destruct (Nat.eqb r0 (length (reqs s))); [inversion Hr0; subst q0; discriminate|].
      eapply Hold; eauto.
    - eapply Hold; eauto.
    - (* call: the leader's record has no result yet *)
      apply nth_mod_req_inv in Hr0. destruct Hr0 as (q1 & Hq1 & ->).
      destruct (Nat.eqb_spec r0 r) as [->|Hne]; [|eapply Hold; eauto].
      exfalso. cbn in Hres0.
      destruct (inv_lead s HI i t r Et ltac:(rewrite Hp; reflexivity)) as (_ & q2 & Hq2 & _ & Hst). rewrite Hp in Hst.
      rewrite Hq1 in Hq2. inversion Hq2; subst q2.
      rewrite (gr_nores s HG r q1 Hq1 Hst) in Hres0. discriminate.
    - eapply Hold; eauto.
    - (* mark: the result is published now *)
      apply nth_mod_req_inv in Hr0. destruct Hr0 as (q1 & Hq1 & ->).
      destruct (Nat.eqb_spec r0 r) as [->|Hne]; [|eapply Hold; eauto].
      cbn in Hres0. inversion Hres0; subst res0.
      destruct (gr_got s HG i t r res Et (or_introl Hp)) as (q2 & n & u & Hq2 & Hup & Hu & R1 & R2 & R3 & R4 & R5 & R6).
      rewrite Hq1 in Hq2. inversion Hq2; subst q2.
      destruct (inv_lead s HI i t r Et ltac:(rewrite Hp; reflexivity)) as (Hqf & q3 & Hq3 & Hl3 & _).
      rewrite Hq1 in Hq3. inversion Hq3; subst q3.
      destruct (inv_q s HI _ _ _ Hqf) as (q4 & _ & Hq4 & Hk4 & Hd4 & _). rewrite Hq1 in Hq4. inversion Hq4; subst q4.
      exists n, u, (set_pc t (PMarked r res) (clock s)). cbn [q_up q_leader q_kind q_id set_done ups thr].
      rewrite Hl3, (nth_upd_eq _ _ _ _ Et), Hk4. repeat split; auto; congruence.
    - (* delete *)
      apply nth_mod_req_inv in Hr0. destruct Hr0 as (q1 & Hq1 & ->).
      destruct (Nat.eqb_spec r0 r) as [->|Hne]; eapply Hold; eauto.
  Qed.

  Lemma step_gdone s i s' : Inv s -> GObt s -> GRes s -> Step up s i s' ->
    (forall j t res, nth_error (thr s') j = Some t -> t_pc t = PDone res ->
       exists r q res', t_req t = Some r /\ nth_error (reqs s') r = Some q /\ q_res q = Some res' /\
         res = project (c_op (t_call t)) res' /\ t_ret t <> None).
  Proof.
    intros HI HO HG HS j tj res0 Hj Hpj.
    (* records that carry a result keep it *)
    assert (Hkeep : forall r q x, nth_error (reqs s) r = Some q -> q_res q = Some x ->
              exists q', nth_error (reqs s') r = Some q' /\ q_res q' = Some x).
    { intros r1 q1 x Hq1 Hx.
      step_cases HS; cbn [reqs]; eauto.
      - exists q1. split; auto. apply nth_app_old; auto.
      - rewrite nth_mod_req, Hq1. destruct (Nat.eqb r1 r); eauto.
      - rewrite nth_mod_req, Hq1. destruct (Nat.eqb_spec r1 r) as [->|Hne]; eauto.
        exfalso. destruct (inv_lead s HI i t r Et ltac:(rewrite Hp; reflexivity)) as (_ & q2 & Hq2 & _ & Hst). rewrite Hp in Hst.
        rewrite Hq1 in Hq2. inversion Hq2; subst q2. rewrite (gr_nores s HG r q1 Hq1 Hst) in Hx. discriminate.
      - rewrite nth_mod_req, Hq1. destruct (Nat.eqb r1 r); eauto. }
    assert (Hold : forall tj, nth_error (thr s) j = Some tj -> t_pc tj = PDone res0 ->
              exists r q res', t_req tj = Some r /\ nth_error (reqs s') r = Some q /\ q_res q = Some res' /\
                res0 = project (c_op (t_call tj)) res' /\ t_ret tj <> None).
    { intros tj0 Hj0 Hp0. destruct (gr_done s HG j tj0 res0 Hj0 Hp0) as (r1 & q1 & x & A & B & C & D & E).
      destruct (Hkeep r1 q1 x B C) as (q' & Hq' & Hx'). exists r1, q', x. auto. }
    step_cases HS; cbn [thr] in Hj; rewrite (nth_upd _ _ _ _ _ Et) in Hj;
      (destruct (Nat.eqb_spec j i) as [->|Hne]; [inversion Hj; subst tj; cbn [t_pc set_pc] in Hpj; try discriminate|]);
      try (apply Hold; auto; fail).
    - (* wake: the follower returns what its record holds *)
      inversion Hpj; subst res0.
      destruct (Hkeep r q res Hq Hrs) as (q' & Hq' & Hx').
      exists r, q', res. cbn. repeat split; auto; try discriminate.
      apply (go_pc s HO i t r Et). auto.
    - (* delete: the leader returns what it published *)
      inversion Hpj; subst res0.
      destruct (inv_lead s HI i t r Et ltac:(rewrite Hp; reflexivity)) as (_ & q2 & Hq2 & _ & Hst). rewrite Hp in Hst. destruct Hst as [_ Hres].
      destruct (Hkeep r q2 res Hq2 Hres) as (q' & Hq' & Hx').
      exists r, q', res. cbn. repeat split; auto; try discriminate.
      apply (go_pc s HO i t r Et). rewrite Hp. auto.
  Qed.

  (* every upstream call is THE upstream call of its record *)
  Record GUniq (s : state) : Prop := {
    gu_uniq : forall m u, nth_error (ups s) m = Some u -> exists q, nth_error (reqs s) (u_req u) = Some q /\ q_up q = Some m;
    gu_fresh : forall i t r, nth_error (thr s) i = Some t -> t_pc t = PLead r ->
                 forall m u, nth_error (ups s) m = Some u -> u_req u <> r;
  }.

  Lemma step_guniq s i s' : Inv s -> GUniq s -> Step up s i s' -> GUniq s'.
  Proof.
    intros HI [HU HF] HS. split.
    - intros m u Hm.
      step_cases HS; cbn [ups reqs] in *; eauto.
      + destruct (HU m u Hm) as (q1 & Hq1 & Hu1). exists q1. split; auto. apply nth_app_old; auto.
      + (* call *)
        rewrite nth_app_new in Hm. destruct (Nat.eqb_spec m (length (ups s))) as [->|Hne].
        * inversion Hm; subst u. cbn [u_req new_call].
          destruct (inv_lead s HI i t r Et ltac:(rewrite Hp; reflexivity)) as (_ & q2 & Hq2 & _).
          exists (set_up (length (ups s)) q2). rewrite nth_mod_req, Hq2, Nat.eqb_refl. auto.
        * destruct (HU m u Hm) as (q1 & Hq1 & Hu1). pose proof (HF i t r Et Hp m u Hm) as Hfr.
          exists q1. rewrite nth_mod_req, Hq1. apply Nat.eqb_neq in Hfr. rewrite Hfr. auto.
      + (* return *)
        rewrite nth_modify in Hm. destruct (nth_error (ups s) m) as [u0|] eqn:Eu; [|discriminate].
        destruct (HU m u0 Eu) as (q1 & Hq1 & Hu1).
        destruct (Nat.eqb m n); inversion Hm; subst u; cbn; eauto.
      + destruct (HU m u Hm) as (q1 & Hq1 & Hu1). rewrite nth_mod_req, Hq1. destruct (Nat.eqb (u_req u) r); eauto.
      + destruct (HU m u Hm) as (q1 & Hq1 & Hu1). rewrite nth_mod_req, Hq1. destruct (Nat.eqb (u_req u) r); eauto.
    - intros j tj r0 Hj Hpj m u Hm.
      step_cases HS; cbn [thr ups] in *; rewrite (nth_upd _ _ _ _ _ Et) in Hj;
        (destruct (Nat.eqb_spec j i) as [->|Hne]; [inversion Hj; subst tj; cbn [t_pc set_pc] in Hpj; try discriminate|]);
        try (eapply HF; eauto; fail).
      + (* register: no upstream call can name a record that does not exist yet *)
        inversion Hpj; subst r0. destruct (HU m u Hm) as (q1 & Hq1 & _).
        assert (u_req u < length (reqs s)) by (apply nth_error_Some; congruence). lia.
      + (* call by another leader *)
        rewrite nth_app_new in Hm. destruct (Nat.eqb m (length (ups s))); [|eapply HF; eauto].
        inversion Hm; subst u. cbn. intros ->. apply Hne.
        eapply leader_by_record; eauto; [rewrite Hpj|rewrite Hp]; reflexivity.
      + rewrite nth_modify in Hm. destruct (nth_error (ups s) m) as [u0|] eqn:Eu; [|discriminate].
        pose proof (HF j tj r0 Hj Hpj m u0 Eu). destruct (Nat.eqb m n); inversion Hm; subst u; cbn; auto.
  Qed.

  (* the record a caller obtained is about the caller's chunk, in the caller's queue
     (or, for WriteDedupQueue.GetChunk, in the store queue) *)
  Definition key_ok (t : thread) (q : req) : Prop :=
    q_id q = tid_ t /\ (q_kind q = tkind t \/ (q_kind q = QStore /\ c_op (t_call t) = CWGet)).

  Definition GKey (s : state) : Prop :=
    forall i t r, nth_error (thr s) i = Some t -> t_req t = Some r ->
      exists q, nth_error (reqs s) r = Some q /\ key_ok t q.

  Lemma step_kind_ext s i s' : Step up s i s' ->
    forall r q, nth_error (reqs s) r = Some q ->
      exists q', nth_error (reqs s') r = Some q' /\ q_kind q' = q_kind q /\ q_id q' = q_id q /\ q_leader q' = q_leader q.
  Proof.
    intros HS r0 q0 H0. step_cases HS; cbn [reqs]; eauto.
    - exists q0. split; auto. apply nth_app_old; auto.
    - rewrite nth_mod_req, H0. destruct (Nat.eqb r0 r); eauto.
    - rewrite nth_mod_req, H0. destruct (Nat.eqb r0 r); eauto.
    - rewrite nth_mod_req, H0. destruct (Nat.eqb r0 r); eauto.
  Qed.

  (* the leader recorded in a record is a caller of that very (kind, id) *)
  Definition GLead (s : state) : Prop :=
    forall r q, nth_error (reqs s) r = Some q ->
      exists tl, nth_error (thr s) (q_leader q) = Some tl /\ tkind tl = q_kind q /\ tid_ tl = q_id q.

  Lemma step_glead s i s' : GLead s -> Step up s i s' -> GLead s'.
  Proof.
    intros HL HS r0 q0 H0.
    pose proof (step_call_ext s i s' HS) as Hce.
    assert (Hold : forall q, nth_error (reqs s) r0 = Some q -> q_kind q0 = q_kind q -> q_id q0 = q_id q -> q_leader q0 = q_leader q ->
              exists tl, nth_error (thr s') (q_leader q0) = Some tl /\ tkind tl = q_kind q0 /\ tid_ tl = q_id q0).
    { intros q1 Hq1 E1 E2 E3. destruct (HL r0 q1 Hq1) as (tl & Htl & K1 & K2).
      destruct (Hce _ _ Htl) as (tl' & Htl' & Hc). exists tl'. rewrite E1, E2, E3. unfold tkind, tid_ in *. rewrite Hc. auto. }
    step_cases HS; cbn [reqs] in H0; try (eapply Hold; eauto; fail).
    - rewrite nth_app_new in H0. destruct (Nat.eqb r0 (length (reqs s))); [|eapply Hold; eauto].
      inversion H0; subst q0. cbn [q_leader q_kind q_id new_req thr]. rewrite (nth_upd_eq _ _ _ _ Et).
      eexists. split; [reflexivity|]. unfold tkind, tid_. cbn. auto.
    - apply nth_mod_req_inv in H0. destruct H0 as (q1 & Hq1 & ->). destruct (Nat.eqb r0 r); eapply Hold; eauto.
    - apply nth_mod_req_inv in H0. destruct H0 as (q1 & Hq1 & ->). destruct (Nat.eqb r0 r); eapply Hold; eauto.
    - apply nth_mod_req_inv in H0. destruct H0 as (q1 & Hq1 & ->). destruct (Nat.eqb r0 r); eapply Hold; eauto.
  Qed.

  Lemma step_gkey s i s' : Inv s -> GKey s -> Step up s i s' -> GKey s'.
  Proof.
    intros HI HK HS j tj r0 Hj Hr0.
    pose proof (step_kind_ext s i s' HS) as Hke.
    assert (Hold : forall tj', nth_error (thr s) j = Some tj' -> t_req tj' = Some r0 -> t_call tj = t_call tj' ->
              exists q, nth_error (reqs s') r0 = Some q /\ key_ok tj q).
    { intros tj' Hj' Hr' Hc. destruct (HK j tj' r0 Hj' Hr') as (q & Hq & Hk1 & Hk2).
      destruct (Hke r0 q Hq) as (q' & Hq' & E1 & E2 & _). exists q'. split; auto.
      unfold key_ok, tid_, tkind in *. rewrite Hc, E1, E2. auto. }
    step_cases HS; cbn [thr] in Hj; rewrite (nth_upd _ _ _ _ _ Et) in Hj;
      (destruct (Nat.eqb_spec j i) as [->|Hne]; [inversion Hj; subst tj; cbn [t_req set_pc set_obt] in Hr0|]);
      try (eapply Hold; eauto; reflexivity).
    - (* attach *)
      inversion Hr0; subst r0. destruct (inv_q s HI _ _ _ Hq) as (q1 & _ & Hq1 & Hk1 & Hd1 & _).
      exists q1. cbn [reqs]. split; auto. unfold key_ok, tid_, tkind in *. cbn. split; auto.
      destruct Hk as [->|[-> Hop]]; auto.
    - (* register *)
      inversion Hr0; subst r0. eexists. cbn [reqs]. rewrite nth_app_new, Nat.eqb_refl. split; [reflexivity|].
      unfold key_ok, tid_, tkind. cbn. auto.
  Qed.

  (* ---------- everything together ---------- *)

  Record Full (s : state) : Prop := {
    f_inv : Inv s; f_time : GTime s; f_obt : GObt s; f_res : GRes s; f_uniq : GUniq s; f_key : GKey s; f_lead : GLead s }.

  Lemma full_init calls : Full (init calls).
  Proof.
    assert (Hthr : forall i t, nth_error (thr (init calls)) i = Some t ->
              t_pc t = PStart /\ t_start t = None /\ t_obt t = None /\ t_ret t = None /\ t_req t = None).
    { intros i t H. cbn in H. rewrite nth_error_map in H. destruct (nth_error calls i); inversion H; subst. cbn. auto. }
    split.
    - apply inv_init.
    - split.
      + intros i t H. destruct (Hthr i t H) as (A & B & C & D & E). rewrite B, C. cbn. auto.
      + intros [|r] q H; discriminate.
    - split.
      + intros i t r H Hr. destruct (Hthr i t H) as (A & B & C & D & E). congruence.
      + intros i t r H [Hp|Hp]; destruct (Hthr i t H) as (A & _); rewrite A in Hp; discriminate.
    - split.
      + intros [|r] q H; discriminate.
      + intros i t r n H Hp. destruct (Hthr i t H) as (A & _). congruence.
      + intros i t r res H [Hp|Hp]; destruct (Hthr i t H) as (A & _); congruence.
      + intros [|r] q res H; discriminate.
      + intros i t res H Hp. destruct (Hthr i t H) as (A & _). congruence.
    - split.
      + intros [|m] u H; discriminate.
      + intros i t r H Hp. destruct (Hthr i t H) as (A & _). congruence.
    - intros i t r H Hr. destruct (Hthr i t H) as (A & B & C & D & E). congruence.
    - intros [|r] q H; discriminate.
  Qed.

  Lemma full_step s i s' : Full s -> step up s i = Some s' -> Full s'.
  Proof.
    intros [HI HT HO HG HU HK HL] Hs. pose proof (step_Step up s i s' Hs) as HS.
    split.
    - eapply step_inv; eauto.
    - eapply step_gtime; eauto.
    - eapply step_gobt; eauto.
    - split.
      + eapply step_nores; eauto. apply (gr_nores s HG).
      + eapply step_gup; eauto. apply (gr_up s HG).
      + eapply step_ggot; eauto.
      + eapply step_gres; eauto.
      + eapply step_gdone; eauto.
    - eapply step_guniq; eauto.
    - eapply step_gkey; eauto.
    - eapply step_glead; eauto.
  Qed.

  Lemma full_reachable calls sched : Full (run (step up) sched (init calls)).
  Proof. apply inv_run; [intros; eapply full_step; eauto|apply full_init]. Qed.

  (* ---------- the theorems ---------- *)

  Lemma answer_done s i res : answer s i = Some res -> exists t, nth_error (thr s) i = Some t /\ t_pc t = PDone res.
  Proof.
    unfold answer. destruct (nth_error (thr s) i) as [t|]; [|discriminate].
    destruct (t_pc t) eqn:E; try discriminate. intros H. inversion H; subst. eauto.
  Qed.

  Lemma dedup_result calls sched i res :
    let s := run (step up) sched (init calls) in
    answer s i = Some res ->
    exists t r q n u tl tau st rt,
      nth_error (thr s) i = Some t /\ t_req t = Some r /\ nth_error (reqs s) r = Some q /\
      q_id q = c_id (t_call t) /\
      (q_kind q = kind_of (c_op (t_call t)) \/ (q_kind q = QStore /\ c_op (t_call t) = CWGet)) /\
      q_up q = Some n /\ nth_error (ups s) n = Some u /\ u_req u = r /\ u_kind u = q_kind q /\ u_id u = q_id q /\
      (forall m u', nth_error (ups s) m = Some u' -> u_req u' = r -> m = n) /\
      u_by u = q_leader q /\ nth_error (thr s) (q_leader q) = Some tl /\
      res = project (c_op (t_call t)) (interp (q_kind q) (stored_tag (c_op (t_call tl))) n (up n)) /\
      t_start t = Some st /\ t_ret t = Some rt /\ st <= tau /\ tau < rt /\
      q_reg q <= tau /\ (forall dl, q_del q = Some dl -> tau < dl).
  Proof.
    intros s Ha. destruct (full_reachable calls sched) as [HI HT HO HG HU HK HL]. fold s in HI, HT, HO, HG, HU, HK.
    destruct (answer_done s i res Ha) as (t & Et & Hp).
    destruct (gr_done s HG i t res Et Hp) as (r & q & res' & Hr & Hq & Hres & Hproj & Hret).
    destruct (gr_res s HG r q res' Hq Hres) as (n & u & tl & F1 & F2 & F3 & F4 & F5 & F6 & F7 & F8 & F9).
    destruct (go_obt s HO i t r Et Hr) as (q' & tau & st & Hq' & Ho & Hs & Hle & Hreg & Hdel & Hrt).
    rewrite Hq in Hq'. inversion Hq'; subst q'.
    destruct (HK i t r Et Hr) as (q'' & Hq'' & Hk1 & Hk2). rewrite Hq in Hq''. inversion Hq''; subst q''.
    destruct (t_ret t) as [rt|] eqn:Ert; [|congruence].
    exists t, r, q, n, u, tl, tau, st, rt. repeat split; auto.
    - intros m u' Hm Hrq. destruct (gu_uniq s HU m u' Hm) as (q1 & Hq1 & Hu1).
      rewrite Hrq, Hq in Hq1. inversion Hq1; subst q1. congruence.
    - congruence.
  Qed.

  (* once the leader has removed its record (it returns in that very step), no caller that starts later obtains it *)
  Lemma dedup_no_reuse calls sched i t r q dl st :
    let s := run (step up) sched (init calls) in
    nth_error (thr s) i = Some t -> t_req t = Some r -> nth_error (reqs s) r = Some q ->
    q_del q = Some dl -> t_start t = Some st -> st < dl.
  Proof.
    intros s Et Hr Hq Hd Hs. destruct (full_reachable calls sched) as [HI HT HO HG HU HK HL]. fold s in HO.
    destruct (go_obt s HO i t r Et Hr) as (q' & tau & st' & Hq' & Ho & Hs' & Hle & Hreg & Hdel & Hrt).
    rewrite Hq in Hq'. inversion Hq'; subst q'. rewrite Hs in Hs'. inversion Hs'; subst st'.
    specialize (Hdel dl Hd). lia.
  Qed.

  (* the leader's return and the removal of its record are the same step *)
  Lemma dedup_del_is_leader_return calls sched rr qq dl :
    let s := run (step up) sched (init calls) in
    nth_error (reqs s) rr = Some qq -> q_del qq = Some dl ->
    exists tl, nth_error (thr s) (q_leader qq) = Some tl /\ t_ret tl = Some dl.
  Proof.
    intros s. revert rr qq dl. unfold s. clear s.
    induction sched as [|a sched IH] using rev_ind; intros rr qq dl Hqq Hdl.
    - cbn in Hqq. destruct rr; discriminate.
    - rewrite run_app in Hqq |- *. cbn in Hqq |- *. unfold run1 in *.
      set (s := run (step up) sched (init calls)) in *.
      destruct (step up s a) as [s'|] eqn:Es; [|eapply IH; eauto].
      pose proof (full_reachable calls sched) as HF. fold s in HF. destruct HF as [HI HT HO HG HU HK HL].
      pose proof (step_Step up s a s' Es) as HS.
      (* a thread that has returned never moves again, so its return time stays *)
      assert (Hstay : forall tl, nth_error (thr s) (q_leader qq) = Some tl -> t_ret tl = Some dl ->
                exists tl', nth_error (thr s') (q_leader qq) = Some tl' /\ t_ret tl' = Some dl).
      { intros tl Htl Hrt. destruct (gt_thr s HT _ tl Htl) as (_ & _ & C).
        assert (Hdn : is_done tl = true) by (destruct (is_done tl) eqn:E; auto; rewrite (C eq_refl) in Hrt; discriminate).
        assert (Hne : a <> q_leader qq).
        { intros Heq. unfold step in Es. rewrite Heq, Htl in Es. unfold is_done in Hdn. destruct (t_pc tl); discriminate. }
        step_cases HS; cbn [thr]; rewrite nth_upd_neq by auto; eauto. }
      assert (Hold : forall q0, nth_error (reqs s) rr = Some q0 -> q_del q0 = Some dl -> q_leader q0 = q_leader qq ->
                exists tl, nth_error (thr s') (q_leader qq) = Some tl /\ t_ret tl = Some dl).
      { intros q0 Hq0 Hd0 Hl0. destruct (IH rr q0 dl Hq0 Hd0) as (tl & Htl & Hrt). rewrite Hl0 in Htl. eauto. }
      step_cases HS; cbn [reqs] in Hqq; try (eapply Hold; eauto; fail).
      + rewrite nth_app_new in Hqq. destruct (Nat.eqb rr (length (reqs s))); [inversion Hqq; subst qq; discriminate|].
        eapply Hold; eauto.
      + apply nth_mod_req_inv in Hqq. destruct Hqq as (q1 & Hq1 & ->). destruct (Nat.eqb rr r); eapply Hold; eauto.
      + apply nth_mod_req_inv in Hqq. destruct Hqq as (q1 & Hq1 & ->). destruct (Nat.eqb rr r); eapply Hold; eauto.
      + (* delete: this is the step *)
        apply nth_mod_req_inv in Hqq. destruct Hqq as (q1 & Hq1 & ->).
        destruct (Nat.eqb_spec rr r) as [->|Hne]; [|eapply Hold; eauto].
        cbn in Hdl. inversion Hdl; subst dl. cbn [q_leader set_del].
        destruct (inv_lead s HI a t r Et ltac:(rewrite Hp; reflexivity)) as (_ & q2 & Hq2 & Hl2 & _).
        rewrite Hq1 in Hq2. inversion Hq2; subst q2. rewrite Hl2.
        eexists. cbn [thr]. rewrite (nth_upd_eq _ _ _ _ Et). split; reflexivity.
  Qed.

  (* WriteDedupQueue.GetChunk: a read that found a StoreChunk of the chunk registered returns exactly the chunk
     being stored, together with the store's error *)
  Lemma wdq_read_sees_write calls sched i t r q res :
    let s := run (step up) sched (init calls) in
    nth_error (thr s) i = Some t -> c_op (t_call t) = CWGet -> t_req t = Some r ->
    nth_error (reqs s) r = Some q -> q_kind q = QStore -> answer s i = Some res ->
    exists tl tg n, nth_error (thr s) (q_leader q) = Some tl /\ c_op (t_call tl) = CStore tg /\
      c_id (t_call tl) = c_id (t_call t) /\ q_up q = Some n /\
      res = (VChunk tg, match up n with UFail => XErr n | _ => XNil end).
  Proof.
    intros s Et Hop Hr Hq Hk Ha. subst s.
    destruct (dedup_result calls sched i res Ha) as (t' & r' & q' & n & u & tl & tau & st & rt & A1 & A2 & A3 & A4 & A5 & A6 & A7 & A8 & A9 & A10 & A11 & A12 & A13 & A14 & _).
    cbv zeta in *. rewrite Et in A1. inversion A1; subst t'.
    assert (Er : r' = r) by congruence. rewrite Er in *. clear Er A2.
    rewrite Hq in A3. inversion A3; subst q'.
    destruct (full_reachable calls sched) as [HI HT HO HG HU HK HL].
    destruct (HL r q Hq) as (tl' & Htl' & K1 & K2). rewrite A13 in Htl'. inversion Htl'; subst tl'.
    unfold tkind, tid_ in K1, K2. rewrite Hk in K1.
    destruct (c_op (t_call tl)) as [| |tg|] eqn:Eop; try discriminate.
    exists tl, tg, n. repeat split; auto; try congruence.
    rewrite A14, Hop, Hk. cbn. destruct (up n); reflexivity.
  Qed.
End Ghost.

(* ---------- the strict reading of "in flight during its own call" does not hold ---------- *)

(* Two GetChunk callers of chunk 0.  Caller 0 registers, calls upstream (call at time 1, return at time 2),
   markDone at time 3; caller 1 starts at time 4 (between markDone and delete), finds the record still in the
   queue and is handed its result, whose upstream call had returned at time 2 < 4. *)
Definition strict_ex_up : nat -> uout := fun n => UOk (100 + n).
Definition strict_ex_calls : list call := [ {| c_op := CGet; c_id := 0 |}; {| c_op := CGet; c_id := 0 |} ].
Definition strict_ex_sched : list nat := [0; 0; 0; 0; 1; 1; 0].

Lemma strict_overlap_refuted :
  exists up calls sched i res t r q n u st ur,
    let s := run (step up) sched (init calls) in
    final s = true /\
    answer s i = Some res /\ nth_error (thr s) i = Some t /\ t_req t = Some r /\
    nth_error (reqs s) r = Some q /\ q_up q = Some n /\ nth_error (ups s) n = Some u /\
    t_start t = Some st /\ u_ret u = Some ur /\ ur < st.
Proof.
  exists strict_ex_up, strict_ex_calls, strict_ex_sched, 1.
  do 8 eexists. cbv zeta.
  repeat split.
  all: try (vm_compute; reflexivity).
  vm_compute. repeat constructor.
Qed.
