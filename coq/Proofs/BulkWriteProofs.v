From Coq Require Import List NArith Arith Bool Lia.
From DS Require Import Base.Bytes Base.Hash Base.Sched Model.Pool Model.BulkWrite Proofs.PoolProofs.
Import ListNotations.

(* ---- "some worker stands at a program point satisfying P" ---- *)
Definition exw (P : bpc -> Prop) (l : list bpc) : Prop := exists i w, nth_error l i = Some w /\ P w.

Lemma exw_other (P : bpc -> Prop) l i w0 w' :
  nth_error l i = Some w0 -> exw P l -> P w0 \/ exw P (set_nth l i w').
Proof.
  intros Ei [j [w [Ej Hw]]]. destruct (Nat.eq_dec i j) as [->|Hne].
  - left. congruence.
  - right. exists j, w. split; [|exact Hw]. rewrite nth_error_set_nth_ne; assumption.
Qed.

Lemma exw_new (P : bpc -> Prop) l i w0 w' : nth_error l i = Some w0 -> P w' -> exw P (set_nth l i w').
Proof.
  intros Ei Hw. exists i, w'. split; [|exact Hw].
  apply nth_error_set_nth_eq. apply nth_error_Some. congruence.
Qed.

Lemma exw_keep (P : bpc -> Prop) l i w0 w' :
  nth_error l i = Some w0 -> (P w0 -> P w') -> exw P l -> exw P (set_nth l i w').
Proof.
  intros Ei Hk Hx. destruct (exw_other P l i w0 w' Ei Hx) as [Hp|Hr]; [|exact Hr].
  eapply exw_new; eauto.
Qed.

Lemma exw_set_inv (P : bpc -> Prop) l i w' : exw P (set_nth l i w') -> P w' \/ exw P l.
Proof.
  intros [j [w [Ej Hw]]]. apply nth_error_set_nth in Ej. destruct Ej as [[_ ->]|[_ Ej]].
  - now left.
  - right. exists j, w. split; assumption.
Qed.

(* ---- store / processed-set lemmas ---- *)
Lemma lookup_cons st i b j :
  lookup ((i, b) :: st) j = if N.eqb i j then Some b else lookup st j.
Proof. unfold lookup. cbn. destruct (N.eqb i j); reflexivity. Qed.

Lemma has_cons st i b j : has ((i, b) :: st) j = N.eqb i j || has st j.
Proof. unfold has. rewrite lookup_cons. destruct (N.eqb i j); reflexivity. Qed.

Lemma has_lookup st i : has st i = true <-> exists b, lookup st i = Some b.
Proof.
  unfold has. destruct (lookup st i) as [b|]; split; intros E; try discriminate; eauto.
  destruct E; discriminate.
Qed.

Lemma memN_In i l : memN i l = true <-> In i l.
Proof.
  unfold memN. rewrite existsb_exists. split.
  - intros [x [Hx E]]. apply N.eqb_eq in E. now subst.
  - intros Hin. exists i. split; [exact Hin|apply N.eqb_refl].
Qed.

Lemma delN_In i j l : In j (delN i l) -> In j l /\ j <> i.
Proof.
  unfold delN. rewrite filter_In. intros [Hin E]. split; [exact Hin|].
  intro; subst. rewrite N.eqb_refl in E. discriminate.
Qed.

Section BulkProofs.
  Variable H : bytes -> id.
  Variable mode : bmode.
  Variable jobs : list (id * bytes).
  Variable src : id -> option bytes.
  Variable fault : op_kind -> nat -> bool.
  Variable can_cancel : bool.
  Variable store0 : store.

  Notation step := (bstep H mode jobs src fault can_cancel).
  Notation wstep := (worker_step H mode jobs src fault).
  Notation jid := (jid H mode jobs).
  Notation jdata := (jdata jobs).
  Notation jbytes := (jbytes H mode jobs src).
  Notation njobs := (njobs jobs).
  Notation init := (binit store0).

  (* the job a worker is holding *)
  Definition job_of (w : bpc) : option nat :=
    match w with
    | BGot k | BMark k | BHas k | BStore k | BUnmark k | BGet k | BErr k => Some k
    | BIdle | BExited => None
    end.
  Definition holds (k : nat) (w : bpc) : Prop := job_of w = Some k.
  (* owner of an id: between markProcessed and the result of ws.StoreChunk *)
  Definition is_owner (i : id) (w : bpc) : Prop :=
    match w with BHas k | BStore k => jid k = i | _ => False end.
  (* an error is on its way to the errgroup *)
  Definition is_doom (w : bpc) : Prop :=
    match w with BUnmark _ | BErr _ => True | _ => False end.
  Definition doomedc (f : bool) (ws : list bpc) : Prop := f = true \/ exw is_doom ws.
  Definition doomed (s : bstate) : Prop := doomedc (b_failed s) (b_workers s).
  Definition in_store (s : bstate) (i : id) : Prop := has (b_store s) i = true.

  Record BInv (s : bstate) : Prop := {
    v_fed : b_fed s <= njobs;
    v_closed : b_feeder s = Stopped false -> b_fed s = njobs;
    v_holds : forall i w k, nth_error (b_workers s) i = Some w -> holds k w -> k < b_fed s;
    v_cover : forall k, k < b_fed s ->
              In k (b_done s) \/ exw (holds k) (b_workers s) \/ b_failed s = true;
    v_done : forall k, In k (b_done s) ->
             k < njobs /\ (in_store s (jid k) \/ In (jid k) (b_proc s) \/ doomed s);
    v_proc : forall i, In i (b_proc s) ->
             in_store s i \/ exw (is_owner i) (b_workers s) \/ doomed s;
    v_hits : 0 < b_hits s -> doomed s;
  }.

  Lemma init_inv nw : BInv (init nw).
  Proof.
    constructor; cbn; intros; try lia; try discriminate; try contradiction.
    apply nth_error_In, repeat_spec in H0. subst. discriminate.
  Qed.

  Lemma doomed_pres f f' ws i w0 w' :
    nth_error ws i = Some w0 -> (f = true -> f' = true) ->
    (is_doom w0 -> is_doom w' \/ f' = true) ->
    doomedc f ws -> doomedc f' (set_nth ws i w').
  Proof.
    intros Ei Hf Hd [Ef|Hx]; [left; auto|].
    destruct (exw_other _ _ _ _ w' Ei Hx) as [Hp|Hr]; [|right; exact Hr].
    destruct (Hd Hp) as [Hw|Hf']; [right; eapply exw_new; eauto|left; exact Hf'].
  Qed.

  Lemma doomed_new f ws i w0 w' : nth_error ws i = Some w0 -> is_doom w' -> doomedc f (set_nth ws i w').
  Proof. intros Ei Hw. right. eapply exw_new; eauto. Qed.

  (* ---- preservation: the pool part, for a worker that moves from w0 to w' ---- *)
  Lemma pool_move s s' i w0 w' :
    nth_error (b_workers s) i = Some w0 ->
    b_workers s' = set_nth (b_workers s) i w' ->
    b_fed s' = b_fed s -> b_feeder s' = b_feeder s ->
    (b_failed s = true -> b_failed s' = true) ->
    incl (b_done s) (b_done s') ->
    (job_of w' = job_of w0 \/
     (job_of w' = None /\ forall k, job_of w0 = Some k -> In k (b_done s') \/ b_failed s' = true)) ->
    BInv s ->
    (b_fed s' <= njobs) /\ (b_feeder s' = Stopped false -> b_fed s' = njobs) /\
    (forall j w k, nth_error (b_workers s') j = Some w -> holds k w -> k < b_fed s') /\
    (forall k, k < b_fed s' -> In k (b_done s') \/ exw (holds k) (b_workers s') \/ b_failed s' = true).
  Proof.
    intros Ei Ew Efed Efd Hf Hd Hj I. rewrite Efed, Efd, Ew.
    split; [apply (v_fed _ I)|]. split; [apply (v_closed _ I)|]. split.
    - intros j w k Ej Hh. apply nth_error_set_nth in Ej. destruct Ej as [[_ ->]|[_ Ej]].
      + destruct Hj as [Hj|[Hj _]]; unfold holds in Hh.
        * eapply (v_holds _ I); [exact Ei|]. unfold holds. congruence.
        * congruence.
      + eapply (v_holds _ I); eauto.
    - intros k Hk. destruct (v_cover _ I k Hk) as [Hin|[Hx|Hfl]]; [left; auto| |right; right; auto].
      destruct (exw_other _ _ _ _ w' Ei Hx) as [Hp|Hr]; [|right; left; exact Hr].
      unfold holds in Hp. destruct Hj as [Hj|[_ Hj]].
      + right; left. eapply exw_new; eauto. unfold holds. congruence.
      + destruct (Hj k Hp); [left|right; right]; assumption.
  Qed.

  Ltac simp := cbn [b_fed b_feeder b_cancelled b_ext b_failed b_workers b_done b_proc b_store b_rows
                    b_nhas b_nstore b_nget b_hits set_w add_done set_proc add_store add_row count set_pool] in *.

  (* build BInv s' from the pool part (pool_move) and the three effect fields *)
  Lemma mk_inv s' :
    ((b_fed s' <= njobs) /\ (b_feeder s' = Stopped false -> b_fed s' = njobs) /\
     (forall j w k, nth_error (b_workers s') j = Some w -> holds k w -> k < b_fed s') /\
     (forall k, k < b_fed s' -> In k (b_done s') \/ exw (holds k) (b_workers s') \/ b_failed s' = true)) ->
    ((forall k, In k (b_done s') -> k < njobs /\ (in_store s' (jid k) \/ In (jid k) (b_proc s') \/ doomed s')) /\
     (forall i, In i (b_proc s') -> in_store s' i \/ exw (is_owner i) (b_workers s') \/ doomed s') /\
     (0 < b_hits s' -> doomed s')) ->
    BInv s'.
  Proof. intros [A [B [C D]]] [E [F G]]. constructor; assumption. Qed.

  (* the effect part when the new state is doomed: everything is excused *)
  Lemma eff_doomed s s' :
    BInv s -> doomed s' -> incl (b_done s') (b_done s) ->
    (forall k, In k (b_done s') -> k < njobs /\ (in_store s' (jid k) \/ In (jid k) (b_proc s') \/ doomed s')) /\
    (forall i, In i (b_proc s') -> in_store s' i \/ exw (is_owner i) (b_workers s') \/ doomed s') /\
    (0 < b_hits s' -> doomed s').
  Proof.
    intros I Hd Hincl. split; [|split]; auto.
    intros k Hk. split; [apply (v_done _ I k); auto|auto].
  Qed.

  (* the effect part when a worker moves without touching store / processed / done / hits,
     between program points that are neither owner nor doomed-changing *)
  Lemma eff_same s s' i w0 w' :
    nth_error (b_workers s) i = Some w0 ->
    b_workers s' = set_nth (b_workers s) i w' ->
    (b_failed s = true -> b_failed s' = true) ->
    b_done s' = b_done s -> b_proc s' = b_proc s -> b_store s' = b_store s -> b_hits s' = b_hits s ->
    (is_doom w0 -> is_doom w' \/ b_failed s' = true) ->
    (forall id, is_owner id w0 -> is_owner id w') ->
    BInv s ->
    (forall k, In k (b_done s') -> k < njobs /\ (in_store s' (jid k) \/ In (jid k) (b_proc s') \/ doomed s')) /\
    (forall i, In i (b_proc s') -> in_store s' i \/ exw (is_owner i) (b_workers s') \/ doomed s') /\
    (0 < b_hits s' -> doomed s').
  Proof.
    intros Ei Ew Hf Ed Ep Es Eh Hdm How I.
    assert (Hdoom : doomed s -> doomed s').
    { unfold doomed. rewrite Ew. eapply doomed_pres; eauto. }
    unfold in_store. rewrite Ed, Ep, Es, Eh. split; [|split].
    - intros k Hk. destruct (v_done _ I k Hk) as [Hlt [Hs|[Hp|Hd]]]; split; auto.
    - intros id Hid. destruct (v_proc _ I id Hid) as [Hs|[Hx|Hd]]; auto.
      right; left. rewrite Ew. eapply exw_keep; eauto.
    - intros Hh. apply Hdoom. apply (v_hits _ I). exact Hh.
  Qed.

  Lemma has_mono st i b j : has st j = true -> has ((i, b) :: st) j = true.
  Proof. intros E. rewrite has_cons, E. apply orb_true_r. Qed.

  (* a job finishes with nil (w0 -> BIdle, done += k), possibly after storing the chunk:
     the id is in the new store, or was already marked *)
  Lemma eff_finish s s' i w0 k :
    nth_error (b_workers s) i = Some w0 -> job_of w0 = Some k -> ~ is_doom w0 ->
    b_workers s' = set_nth (b_workers s) i BIdle ->
    b_failed s' = b_failed s ->
    b_done s' = k :: b_done s -> b_proc s' = b_proc s -> b_hits s' = b_hits s ->
    (forall j, has (b_store s) j = true -> has (b_store s') j = true) ->
    (has (b_store s') (jid k) = true \/ In (jid k) (b_proc s)) ->
    (forall id, is_owner id w0 -> has (b_store s') id = true) ->
    BInv s ->
    (forall k, In k (b_done s') -> k < njobs /\ (in_store s' (jid k) \/ In (jid k) (b_proc s') \/ doomed s')) /\
    (forall i, In i (b_proc s') -> in_store s' i \/ exw (is_owner i) (b_workers s') \/ doomed s') /\
    (0 < b_hits s' -> doomed s').
  Proof.
    intros Ei Ej Hnd Ew Ef Ed Ep Eh Hmono Hk Hown I.
    assert (Hdoom : doomed s -> doomed s').
    { unfold doomed. rewrite Ew, Ef. eapply doomed_pres; eauto; intros; contradiction. }
    unfold in_store. rewrite Ed, Ep, Eh. split; [|split].
    - intros k' [<-|Hin].
      + split.
        * pose proof (v_holds _ I i w0 k Ei Ej). pose proof (v_fed _ I). lia.
        * destruct Hk; auto.
      + destruct (v_done _ I k' Hin) as [Hlt [Hs|[Hp|Hd]]]; split; auto.
    - intros id Hid. destruct (v_proc _ I id Hid) as [Hs|[Hx|Hd]]; auto.
      destruct (exw_other _ _ _ _ BIdle Ei Hx) as [Hp|Hr]; [left; auto|right; left; rewrite Ew; exact Hr].
    - intros Hh. apply Hdoom. apply (v_hits _ I). exact Hh.
  Qed.

  Lemma step_inv s t s' : BInv s -> step s t = Some s' -> BInv s'.
  Proof.
    intros I E. destruct t as [|i|]; unfold bstep in E.
    - (* feeder *)
      destruct (b_feeder s) eqn:Ef; [|discriminate].
      destruct (b_fed s =? njobs) eqn:Efed.
      + apply Nat.eqb_eq in Efed. inversion E; subst; clear E.
        destruct I. constructor; simp; intros; eauto; try discriminate.
      + destruct (b_cancelled s); [|discriminate]. inversion E; subst; clear E.
        destruct I. constructor; simp; intros; eauto; try discriminate.
    - (* worker i *)
      destruct (nth_error (b_workers s) i) as [w0|] eqn:Ew; [|discriminate].
      assert (Hpool : forall s1 w', b_workers s1 = set_nth (b_workers s) i w' ->
                b_fed s1 = b_fed s -> b_feeder s1 = b_feeder s ->
                (b_failed s = true -> b_failed s1 = true) -> incl (b_done s) (b_done s1) ->
                (job_of w' = job_of w0 \/
                 (job_of w' = None /\ forall k, job_of w0 = Some k -> In k (b_done s1) \/ b_failed s1 = true)) ->
                _) by (intros s1 w' A B C D F G; exact (pool_move s s1 i w0 w' Ew A B C D F G I)).
      destruct w0 as [| |k|k|k|k|k|k|k]; cbn [worker_step] in E.
      + (* BIdle *)
        destruct (b_feeder s) eqn:Ef.
        * destruct (b_fed s <? njobs) eqn:Elt; [|discriminate]. apply Nat.ltb_lt in Elt.
          inversion E; subst; clear E.
          apply mk_inv.
          -- simp. split; [lia|]. split; [discriminate|]. split.
             ++ intros j w k Ej Hh. apply nth_error_set_nth in Ej. destruct Ej as [[_ ->]|[_ Ej]].
                ** unfold holds in Hh. cbn in Hh. inversion Hh. lia.
                ** pose proof (v_holds _ I j w k Ej Hh). lia.
             ++ intros k Hk. destruct (Nat.eq_dec k (b_fed s)) as [->|Hne].
                ** right; left. eapply exw_new; eauto. reflexivity.
                ** destruct (v_cover _ I k ltac:(lia)) as [Hin|[Hx|Hfl]]; auto.
                   right; left. eapply exw_keep; eauto. intros Hh; discriminate Hh.
          -- apply (eff_same s _ i BIdle (BGot (b_fed s)) Ew); simp; auto; intros; contradiction.
        * inversion E; subst; clear E. apply mk_inv.
          -- apply (Hpool _ BExited); simp; auto using incl_refl.
          -- apply (eff_same s _ i BIdle BExited Ew); simp; auto; intros; contradiction.
      + discriminate.
      + (* BGot k *)
        destruct mode eqn:Em; rewrite <- Em in E.
        * (* chop *)
          destruct (N.eqb (H (jdata k)) (jid k)); inversion E; subst; clear E.
          -- apply mk_inv; [apply (Hpool _ (BMark k)); simp; auto using incl_refl|];
               apply (eff_same s _ i (BGot k) (BMark k) Ew); simp; auto; intros; contradiction.
          -- apply mk_inv; [apply (Hpool _ (BErr k)); simp; auto using incl_refl|];
               apply (eff_doomed s); simp; auto using incl_refl; eapply doomed_new; eauto; exact Logic.I.
        * (* copy: dst.HasChunk *)
          destruct (fault OpHas (b_nhas s)).
          -- inversion E; subst; clear E.
             apply mk_inv; [apply (Hpool _ (BErr k)); simp; auto using incl_refl|];
               apply (eff_doomed s); simp; auto using incl_refl; eapply doomed_new; eauto; exact Logic.I.
          -- destruct (has (b_store s) (jid k)) eqn:Eh; inversion E; subst; clear E.
             ++ apply mk_inv;
                  [apply (Hpool _ BIdle); simp; auto using incl_refl, incl_tl;
                   right; split; [reflexivity|]; intros k' Hk'; inversion Hk'; subst; left; now left|];
                  apply (eff_finish s _ i (BGot k) k Ew); simp; auto; intros; contradiction.
             ++ apply mk_inv; [apply (Hpool _ (BGet k)); simp; auto using incl_refl|];
                  apply (eff_same s _ i (BGot k) (BGet k) Ew); simp; auto; intros; contradiction.
        * (* stream *)
          inversion E; subst; clear E.
          apply mk_inv; [apply (Hpool _ (BMark k)); simp; auto using incl_refl|];
            apply (eff_same s _ i (BGot k) (BMark k) Ew); simp; auto; intros; contradiction.
      + (* BMark k *)
        destruct (memN (jid k) (b_proc s)) eqn:Em; inversion E; subst; clear E.
        * apply memN_In in Em.
          apply mk_inv;
            [apply (Hpool _ BIdle); simp; auto using incl_refl, incl_tl;
             right; split; [reflexivity|]; intros k' Hk'; inversion Hk'; subst; left; now left|];
            apply (eff_finish s _ i (BMark k) k Ew); simp; auto; intros; contradiction.
        * apply mk_inv; [apply (Hpool _ (BHas k)); simp; auto using incl_refl|]; simp.
          split; [|split].
          -- intros k' Hk'. destruct (v_done _ I k' Hk') as [Hlt [Hs|[Hp|Hd]]]; split; auto.
             ++ right; left. now right.
             ++ right; right. unfold doomed. simp. eapply doomed_pres; eauto; intros; contradiction.
          -- intros id [<-|Hid].
             ++ right; left. eapply exw_new; eauto. reflexivity.
             ++ destruct (v_proc _ I id Hid) as [Hs|[Hx|Hd]]; auto.
                ** right; left. eapply exw_keep; eauto; intros; contradiction.
                ** right; right. unfold doomed. simp. eapply doomed_pres; eauto; intros; contradiction.
          -- intros Hh. pose proof (v_hits _ I Hh) as Hd. unfold doomed in *. simp.
             eapply doomed_pres; eauto; intros; contradiction.
      + (* BHas k *)
        destruct (fault OpHas (b_nhas s)).
        * inversion E; subst; clear E.
          apply mk_inv; [apply (Hpool _ (BUnmark k)); simp; auto using incl_refl|];
            apply (eff_doomed s); simp; auto using incl_refl; eapply doomed_new; eauto; exact Logic.I.
        * destruct (has (b_store s) (jid k)) eqn:Eh; inversion E; subst; clear E.
          -- apply mk_inv;
               [apply (Hpool _ BIdle); simp; auto using incl_refl, incl_tl;
                right; split; [reflexivity|]; intros k' Hk'; inversion Hk'; subst; left; now left|];
               apply (eff_finish s _ i (BHas k) k Ew); simp; auto; try (intros; contradiction);
               intros id Hid; cbn in Hid; subst; exact Eh.
          -- apply mk_inv; [apply (Hpool _ (BStore k)); simp; auto using incl_refl|];
               apply (eff_same s _ i (BHas k) (BStore k) Ew); simp; auto; intros; contradiction.
      + (* BStore k *)
        destruct (fault OpStore (b_nstore s)).
        * inversion E; subst; clear E.
          apply mk_inv;
            [apply (Hpool _ (match mode with MCopy => BErr k | _ => BUnmark k end)); simp; auto using incl_refl;
             left; destruct mode; reflexivity|];
            apply (eff_doomed s); simp; auto using incl_refl; eapply doomed_new; eauto; destruct mode; exact Logic.I.
        * destruct (jbytes k) as [b|]; inversion E; subst; clear E.
          -- apply mk_inv;
               [apply (Hpool _ BIdle); simp; auto using incl_refl, incl_tl;
                right; split; [reflexivity|]; intros k' Hk'; inversion Hk'; subst; left; now left|];
               apply (eff_finish s _ i (BStore k) k Ew); simp; auto; try (intros; contradiction);
               try (intros; apply has_mono; assumption);
               try (left; rewrite has_cons, N.eqb_refl; reflexivity);
               intros id Hid; cbn in Hid; subst; rewrite has_cons, N.eqb_refl; reflexivity.
          -- apply mk_inv; [apply (Hpool _ (BErr k)); simp; auto using incl_refl|];
               apply (eff_doomed s); simp; auto using incl_refl; eapply doomed_new; eauto; exact Logic.I.
      + (* BUnmark k *)
        inversion E; subst; clear E.
        apply mk_inv; [apply (Hpool _ (BErr k)); simp; auto using incl_refl|];
          apply (eff_doomed s); simp; auto using incl_refl; eapply doomed_new; eauto; exact Logic.I.
      + (* BGet k *)
        destruct (fault OpGet (b_nget s)).
        * inversion E; subst; clear E.
          apply mk_inv; [apply (Hpool _ (BErr k)); simp; auto using incl_refl|];
            apply (eff_doomed s); simp; auto using incl_refl; eapply doomed_new; eauto; exact Logic.I.
        * destruct (src (jid k)); inversion E; subst; clear E.
          -- apply mk_inv; [apply (Hpool _ (BStore k)); simp; auto using incl_refl|];
               apply (eff_same s _ i (BGet k) (BStore k) Ew); simp; auto; intros; contradiction.
          -- apply mk_inv; [apply (Hpool _ (BErr k)); simp; auto using incl_refl|];
               apply (eff_doomed s); simp; auto using incl_refl; eapply doomed_new; eauto; exact Logic.I.
      + (* BErr k: the error reaches the errgroup *)
        inversion E; subst; clear E.
        apply mk_inv;
          [apply (Hpool _ BExited); simp; auto using incl_refl;
           try (right; split; [reflexivity|]; intros; right; reflexivity)|];
          apply (eff_doomed s); simp; auto using incl_refl; left; reflexivity.
    - (* cancel *)
      destruct (can_cancel && negb (b_ext s)); [|discriminate]. inversion E; subst; clear E.
      destruct I. constructor; simp; intros; eauto.
  Qed.

  Lemma run_inv nw sched : BInv (run step sched (init nw)).
  Proof. apply inv_run with (Inv := BInv); [intros; eapply step_inv; eauto|apply init_inv]. Qed.

  Lemma all_exited_exw (P : bpc -> Prop) s :
    ball_exited s = true -> ~ P BExited -> ~ exw P (b_workers s).
  Proof.
    unfold ball_exited. intros Ha Hn [i [w [Ei Hw]]]. rewrite forallb_forall in Ha.
    apply nth_error_In in Ei. apply Ha in Ei. destruct w; try discriminate. contradiction.
  Qed.

  Lemma final_not_doomed s : bfinal s = true -> b_failed s = false -> ~ doomed s.
  Proof.
    unfold bfinal. intros Hf Hfl [Hd|Hd]; [congruence|].
    destruct (b_feeder s); [discriminate|].
    eapply all_exited_exw; eauto. cbn. tauto.
  Qed.

  (* chunkstorage_inv: at every point of every schedule, every id in ChunkStorage.processed is
     present in the target store, or is owned by a live worker between markProcessed and the result
     of ws.StoreChunk, or an error is recorded in (or on its way to) the errgroup. *)
  Theorem chunkstorage_inv nw sched :
    let s := run step sched (init nw) in
    forall i, In i (b_proc s) -> in_store s i \/ exw (is_owner i) (b_workers s) \/ doomed s.
  Proof. intros s. apply (v_proc _ (run_inv nw sched)). Qed.

  (* nil => every chunk of the index is present in the target store *)
  Theorem bulk_complete_present nw sched :
    let s := run step sched (init nw) in
    bfinal s = true -> bulk_result s = RNil ->
    forall k, k < njobs -> has (b_store s) (jid k) = true.
  Proof.
    intros s Hfin Hres k Hk. assert (I := run_inv nw sched). fold s in I.
    unfold bulk_result in Hres. destruct (b_failed s) eqn:Efl; [discriminate|].
    assert (Hnd : ~ doomed s) by (apply final_not_doomed; assumption).
    unfold bfinal in Hfin. destruct (b_feeder s) as [|[|]] eqn:Efd; try discriminate.
    assert (Hfed : b_fed s = njobs) by (apply (v_closed _ I); exact Efd).
    assert (Hc := v_cover _ I k). rewrite Hfed in Hc. specialize (Hc Hk).
    destruct Hc as [Hd|[Hx|Hf]]; [| |congruence].
    - destruct (v_done _ I k Hd) as [_ [Hs|[Hp|Hdm]]]; [exact Hs| |contradiction].
      destruct (v_proc _ I _ Hp) as [Hs|[Hx|Hdm]]; [exact Hs| |contradiction].
      exfalso. eapply all_exited_exw; eauto. cbn. tauto.
    - exfalso. eapply all_exited_exw; eauto. unfold holds. cbn. discriminate.
  Qed.

  Lemma final_all_done nw sched :
    let s := run step sched (init nw) in
    bfinal s = true -> bulk_result s = RNil -> forall k, k < njobs -> In k (b_done s).
  Proof.
    intros s Hfin Hres k Hk. assert (I := run_inv nw sched). fold s in I.
    unfold bulk_result in Hres. destruct (b_failed s) eqn:Efl; [discriminate|].
    unfold bfinal in Hfin. destruct (b_feeder s) as [|[|]] eqn:Efd; try discriminate.
    assert (Hfed : b_fed s = njobs) by (apply (v_closed _ I); exact Efd).
    assert (Hc := v_cover _ I k). rewrite Hfed in Hc. specialize (Hc Hk).
    destruct Hc as [Hd|[Hx|Hf]]; [exact Hd| |congruence].
    exfalso. eapply all_exited_exw; eauto. unfold holds. cbn. discriminate.
  Qed.

  (* bulk_fail_reported: an injected store fault that was delivered to a worker is never masked *)
  Theorem bulk_fail_reported nw sched :
    let s := run step sched (init nw) in
    bfinal s = true -> 0 < b_hits s -> bulk_result s = RErr.
  Proof.
    intros s Hfin Hh. assert (I := run_inv nw sched). fold s in I.
    unfold bulk_result. destruct (b_failed s) eqn:Efl; [reflexivity|].
    exfalso. eapply final_not_doomed; eauto. apply (v_hits _ I). exact Hh.
  Qed.
End BulkProofs.

(* ================= validity of what is stored ================= *)
(* From here on [mode] is an ordinary variable so that it can be analysed. *)

Definition store_ok (H : bytes -> id) (st : store) : Prop :=
  forall i b, lookup st i = Some b -> H b = i.
Definition src_ok (H : bytes -> id) (src : id -> option bytes) : Prop :=
  forall i b, src i = Some b -> H b = i.

(* chop: a worker past readChunkFromFile holds bytes that hash to the row's id *)
Definition pc_valid (H : bytes -> id) (mode : bmode) (jobs : list (id * bytes)) (w : bpc) : Prop :=
  match mode, w with
  | MChop, (BMark k | BHas k | BStore k) => H (jdata jobs k) = jid H mode jobs k
  | MChop, BGet _ => False
  | _, _ => True
  end.

Record VInv H mode jobs (s : bstate) : Prop := {
  vv_store : store_ok H (b_store s);
  vv_pc : forall i w, nth_error (b_workers s) i = Some w -> pc_valid H mode jobs w;
}.

Ltac simp := cbn [b_fed b_feeder b_cancelled b_ext b_failed b_workers b_done b_proc b_store b_rows
                  b_nhas b_nstore b_nget b_hits set_w add_done set_proc add_store add_row count set_pool] in *.

Ltac break_step E :=
  repeat match type of E with
         | context [if ?c then _ else _] => let Q := fresh "Q" in destruct c eqn:Q
         | context [match ?x with Some _ => _ | None => _ end] => let Q := fresh "Q" in destruct x eqn:Q
         | context [match ?x with Feeding => _ | Stopped _ => _ end] => let Q := fresh "Q" in destruct x eqn:Q
         end; try discriminate E.

Lemma step_vinv H mode jobs src fault cc s t s' :
  (mode = MCopy -> src_ok H src) ->
  VInv H mode jobs s -> bstep H mode jobs src fault cc s t = Some s' -> VInv H mode jobs s'.
Proof.
  intros Hsrc I E. destruct t as [|i|]; unfold bstep in E.
  - break_step E; inversion E; subst; clear E; destruct I; constructor; simp; auto.
  - destruct (nth_error (b_workers s) i) as [w0|] eqn:Ew; [|discriminate].
    assert (Hold : forall j w w', nth_error (set_nth (b_workers s) i w') j = Some w ->
                                  pc_valid H mode jobs w' -> pc_valid H mode jobs w).
    { intros j w w' Ej Hw'. apply nth_error_set_nth in Ej. destruct Ej as [[_ ->]|[_ Ej]]; [exact Hw'|].
      eapply (vv_pc _ _ _ _ I); eauto. }
    pose proof (vv_pc _ _ _ _ I i w0 Ew) as Hw0.
    destruct mode; destruct w0 as [| |k|k|k|k|k|k|k]; cbn [worker_step] in E; break_step E;
      inversion E; subst; clear E; constructor; simp;
      try exact (vv_store _ _ _ _ I);
      try (cbn in Hw0);
      try contradiction;
      try (intros j w Ej; eapply Hold; [exact Ej|]; cbn; auto; try (apply N.eqb_eq; assumption); fail);
      try (intros i0 b0; rewrite lookup_cons; destruct (N.eqb _ i0) eqn:Ei; [|apply (vv_store _ _ _ _ I)];
           intros Eb; inversion Eb; subst; clear Eb; apply N.eqb_eq in Ei; subst i0;
           match goal with Q : jbytes _ _ _ _ _ = Some _ |- _ => cbn in Q end;
           first [ apply (Hsrc eq_refl); assumption
                 | match goal with Q : Some _ = Some _ |- _ => inversion Q; subst; first [assumption | reflexivity] end ]).
  - break_step E; inversion E; subst; clear E; destruct I; constructor; simp; auto.
Qed.

Lemma init_vinv H mode jobs store0 nw : store_ok H store0 -> VInv H mode jobs (binit store0 nw).
Proof.
  intros Hs. constructor; cbn; [exact Hs|].
  intros i w Ei. apply nth_error_In, repeat_spec in Ei. subst. destruct mode; exact Logic.I.
Qed.

Lemma run_vinv H mode jobs src fault cc store0 nw sched :
  store_ok H store0 -> (mode = MCopy -> src_ok H src) ->
  VInv H mode jobs (run (bstep H mode jobs src fault cc) sched (binit store0 nw)).
Proof.
  intros Hs Hsrc. apply inv_run with (Inv := VInv H mode jobs).
  - intros s t s' I E. eapply step_vinv; eauto.
  - apply init_vinv. exact Hs.
Qed.

(* bulk_complete: nil => every chunk of the index is in the target store with bytes hashing to its id
   (for every schedule, worker count, fault oracle, cancellation point; duplicates included). *)
Theorem bulk_complete H mode jobs src fault cc store0 nw sched :
  store_ok H store0 -> (mode = MCopy -> src_ok H src) ->
  let s := run (bstep H mode jobs src fault cc) sched (binit store0 nw) in
  bfinal s = true -> bulk_result s = RNil ->
  forall k, k < njobs jobs ->
    exists b, lookup (b_store s) (jid H mode jobs k) = Some b /\ H b = jid H mode jobs k.
Proof.
  intros Hs Hsrc s Hfin Hres k Hk.
  pose proof (bulk_complete_present H mode jobs src fault cc store0 nw sched Hfin Hres k Hk) as Hp.
  apply has_lookup in Hp. destruct Hp as [b Eb]. exists b. split; [exact Eb|].
  eapply (vv_store _ _ _ _ (run_vinv H mode jobs src fault cc store0 nw sched Hs Hsrc)). exact Eb.
Qed.

(* ================= ChunkStream: the index rows ================= *)
Definition rec_ok (H : bytes -> id) (jobs : list (id * bytes)) (rows : list (nat * id)) (w : bpc) : Prop :=
  match w with
  | BMark k | BHas k | BStore k => In (k, jid H MStream jobs k) rows
  | BGet _ => False
  | _ => True
  end.

Record RInv H jobs (s : bstate) : Prop := {
  r_fun : forall k i, In (k, i) (b_rows s) -> i = jid H MStream jobs k;
  r_done : forall k, In k (b_done s) -> In (k, jid H MStream jobs k) (b_rows s);
  r_pc : forall j w, nth_error (b_workers s) j = Some w -> rec_ok H jobs (b_rows s) w;
}.

Lemma step_rinv H jobs src fault cc s t s' :
  RInv H jobs s -> bstep H MStream jobs src fault cc s t = Some s' -> RInv H jobs s'.
Proof.
  intros I E. destruct t as [|i|]; unfold bstep in E.
  - break_step E; inversion E; subst; clear E; destruct I; constructor; simp; auto.
  - destruct (nth_error (b_workers s) i) as [w0|] eqn:Ew; [|discriminate].
    pose proof (r_pc _ _ _ I i w0 Ew) as Hw0.
    destruct w0 as [| |k|k|k|k|k|k|k]; cbn [worker_step] in E; break_step E;
      inversion E; subst; clear E; cbn in Hw0; try contradiction; constructor; simp;
      try exact (r_fun _ _ _ I); try exact (r_done _ _ _ I);
      try (intros k0 i0 [Hin|Hin]; [inversion Hin; subst; reflexivity|eapply (r_fun _ _ _ I); eauto]; fail);
      try (intros k0 [<-|Hin]; [exact Hw0|eapply (r_done _ _ _ I); eauto]; fail);
      try (intros k0 Hin; right; eapply (r_done _ _ _ I); eauto; fail);
      try (intros j w Ej; apply nth_error_set_nth in Ej; destruct Ej as [[_ ->]|[_ Ej]];
           [cbn; auto|pose proof (r_pc _ _ _ I j w Ej) as Hw; destruct w; cbn in *; auto]; fail).
  - break_step E; inversion E; subst; clear E; destruct I; constructor; simp; auto.
Qed.

Lemma run_rinv H jobs src fault cc store0 nw sched :
  RInv H jobs (run (bstep H MStream jobs src fault cc) sched (binit store0 nw)).
Proof.
  apply inv_run with (Inv := RInv H jobs).
  - intros s t s' I E. eapply step_rinv; eauto.
  - constructor; cbn; try contradiction.
    intros j w Ej. apply nth_error_In, repeat_spec in Ej. subst. exact Logic.I.
Qed.

Lemma nth_skipn0 {A} n (l : list A) d : nth 0 (skipn n l) d = nth n l d.
Proof. revert l. induction n as [|n IH]; destruct l; cbn; auto. Qed.

(* ChunkStream: after a nil result, results[k] exists for every chunk number k and its ID is the hash
   of the k-th chunk cut by the chunker: the index describes the stream. *)
Theorem stream_index_exact H jobs src fault cc store0 nw sched :
  let s := run (bstep H MStream jobs src fault cc) sched (binit store0 nw) in
  bfinal s = true -> bulk_result s = RNil ->
  stream_index jobs s = map (fun j => Some (H (snd j))) jobs.
Proof.
  intros s Hfin Hres. pose proof (run_rinv H jobs src fault cc store0 nw sched) as R. fold s in R.
  assert (Hrow : forall k, k < njobs jobs -> row_of s k = Some (H (jdata jobs k))).
  { intros k Hk.
    pose proof (final_all_done H MStream jobs src fault cc store0 nw sched Hfin Hres k Hk) as Hd. fold s in Hd.
    apply (r_done _ _ _ R) in Hd. unfold row_of.
    destruct (find (fun p => fst p =? k) (b_rows s)) as [[k' i']|] eqn:Ef.
    - apply find_some in Ef. destruct Ef as [Hin Ek]. cbn in Ek. apply Nat.eqb_eq in Ek. subst k'.
      cbn. f_equal. apply (r_fun _ _ _ R) in Hin. exact Hin.
    - eapply find_none in Ef; [|exact Hd]. cbn in Ef. rewrite Nat.eqb_refl in Ef. discriminate. }
  unfold stream_index, njobs in *. clear -Hrow.
  assert (G : forall n l, n + length l = length jobs -> l = skipn n jobs ->
              map (row_of s) (seq n (length l)) = map (fun j => Some (H (snd j))) l).
  { intros n l. revert n. induction l as [|x r IH]; intros n Hn El; [reflexivity|].
    cbn [length seq map]. f_equal.
    - rewrite Hrow by (cbn in Hn; lia). unfold jdata. f_equal. f_equal.
      rewrite <- nth_skipn0. rewrite <- El. reflexivity.
    - apply IH; [cbn in Hn; lia|]. 
      replace (S n) with (n + 1) by lia. rewrite <- skipn_skipn, <- El. reflexivity. }
  apply (G 0 jobs); reflexivity.
Qed.

(* ================= the pre-fix result function is refuted ================= *)
Theorem bulk_prefix_refuted_first H mode jobs src fault store0 :
  0 < njobs jobs ->
  exists nw sched,
    let s := run (bstep H mode jobs src fault true) sched (binit store0 nw) in
    bfinal s = true /\ bulk_result_prefix s = RNil /\ bulk_result s = RInterrupted /\
    b_store s = store0 /\ b_done s = [].
Proof.
  intros Hn. exists 1, [BCancel; BFeeder; BWorker 0].
  destruct jobs as [|j r]; [cbn in Hn; lia|]. cbn. repeat split; reflexivity.
Qed.

(* ================= ChunkStorage used with retries (no errgroup around it) ================= *)
(* after a failed ws.StoreChunk the id is unmarked: a retry stores the chunk (before and after the fix) *)
Theorem cs_retry_after_store_error fixed proc st i b :
  memN i proc = false -> has st i = false ->
  let '(r1, proc1, st1) := cs_store_seq fixed proc st i b false true in
  let '(r2, proc2, st2) := cs_store_seq fixed proc1 st1 i b false false in
  r1 = false /\ r2 = true /\ has st2 i = true.
Proof.
  intros Hm Hh. unfold cs_store_seq. rewrite Hm, Hh.
  assert (E : memN i (delN i (i :: proc)) = false).
  { destruct (memN i (delN i (i :: proc))) eqn:E; [|reflexivity].
    apply memN_In, delN_In in E. destruct E as [_ E]. congruence. }
  rewrite E, Hh. repeat split. rewrite has_cons, N.eqb_refl. reflexivity.
Qed.

(* the same after a failed ws.HasChunk, in the current code *)
Theorem cs_retry_after_has_error proc st i b :
  memN i proc = false -> has st i = false ->
  let '(r1, proc1, st1) := cs_store_seq true proc st i b true false in
  let '(r2, proc2, st2) := cs_store_seq true proc1 st1 i b false false in
  r1 = false /\ r2 = true /\ has st2 i = true.
Proof.
  intros Hm Hh. unfold cs_store_seq. rewrite Hm.
  assert (E : memN i (delN i (i :: proc)) = false).
  { destruct (memN i (delN i (i :: proc))) eqn:E; [|reflexivity].
    apply memN_In, delN_In in E. destruct E as [_ E]. congruence. }
  rewrite E, Hh. repeat split. rewrite has_cons, N.eqb_refl. reflexivity.
Qed.

(* before the fix a failed ws.HasChunk left the id marked: the retry returned nil without storing *)
Theorem cs_retry_after_has_error_prefix_refuted :
  exists proc st i b,
    let '(r1, proc1, st1) := cs_store_seq false proc st i b true false in
    let '(r2, proc2, st2) := cs_store_seq false proc1 st1 i b false false in
    r1 = false /\ r2 = true /\ has st2 i = false.
Proof. exists [], [], 5%N, [5%N]. vm_compute. repeat split; reflexivity. Qed.

(* ================= C07: the same functions under cancellation ================= *)
Lemma chop_cancel_sound : forall H rows fault store0 nw sched,
  store_ok H store0 ->
  let s := run (bstep H MChop rows (fun _ => None) fault true) sched (binit store0 nw) in
  bfinal s = true -> bulk_result s = RNil ->
  forall k, k < length rows ->
    exists b, lookup (b_store s) (fst (nth k rows (0%N, []))) = Some b /\ H b = fst (nth k rows (0%N, [])).
Proof.
  intros H rows fault store0 nw sched Hs.
  exact (bulk_complete H MChop rows (fun _ => None) fault true store0 nw sched Hs (fun E => match E with eq_refl => I end)).
Qed.

Lemma copy_cancel_sound : forall H ids src fault store0 nw sched,
  store_ok H store0 -> src_ok H src ->
  let s := run (bstep H MCopy ids src fault true) sched (binit store0 nw) in
  bfinal s = true -> bulk_result s = RNil ->
  forall k, k < length ids ->
    exists b, lookup (b_store s) (fst (nth k ids (0%N, []))) = Some b /\ H b = fst (nth k ids (0%N, [])).
Proof.
  intros H ids src fault store0 nw sched Hs Hsrc.
  exact (bulk_complete H MCopy ids src fault true store0 nw sched Hs (fun _ => Hsrc)).
Qed.

Lemma chunkstream_cancel_sound : forall H chunks fault store0 nw sched,
  store_ok H store0 ->
  let s := run (bstep H MStream chunks (fun _ => None) fault true) sched (binit store0 nw) in
  bfinal s = true -> bulk_result s = RNil ->
  stream_index chunks s = map (fun j => Some (H (snd j))) chunks /\
  forall k, k < length chunks ->
    exists b, lookup (b_store s) (H (snd (nth k chunks (0%N, [])))) = Some b /\ H b = H (snd (nth k chunks (0%N, []))).
Proof.
  intros H chunks fault store0 nw sched Hs s Hfin Hres. split.
  - exact (stream_index_exact H chunks (fun _ => None) fault true store0 nw sched Hfin Hres).
  - exact (bulk_complete H MStream chunks (fun _ => None) fault true store0 nw sched Hs
             (fun E => match E with eq_refl => I end) Hfin Hres).
Qed.

(* ================= completeness: no fault, valid input, no cancellation => nil ================= *)
Definition job_bad (H : bytes -> id) (mode : bmode) (jobs : list (id * bytes)) (src : id -> option bytes) (k : nat) : Prop :=
  match mode with
  | MChop => N.eqb (H (jdata jobs k)) (jid H mode jobs k) = false    (* the file no longer holds the indexed bytes *)
  | MCopy => src (jid H mode jobs k) = None                           (* the source lacks the chunk *)
  | MStream => False
  end.
(* an error has a cause: an injected fault or an invalid job *)
Definition caused H mode jobs src (fault : op_kind -> nat -> bool) : Prop :=
  (exists o n, fault o n = true) \/ (exists k, k < njobs jobs /\ job_bad H mode jobs src k).

(* program points that only exist in one of the modes *)
Definition pc_mode_ok (mode : bmode) (w : bpc) : Prop :=
  match w with
  | BGet _ => mode = MCopy
  | BMark _ | BHas _ | BUnmark _ => mode <> MCopy
  | _ => True
  end.

Record FInv H mode jobs src fault (cc : bool) (s : bstate) : Prop := {
  f_doom : doomed s -> caused H mode jobs src fault;
  f_store : forall i k, nth_error (b_workers s) i = Some (BStore k) -> jbytes H mode jobs src k <> None;
  f_canc : b_cancelled s = true -> b_failed s = true \/ b_ext s = true;
  f_ext : b_ext s = true -> cc = true;
  f_broke : b_feeder s = Stopped true -> b_cancelled s = true;
  f_pc : forall i w, nth_error (b_workers s) i = Some w -> pc_mode_ok mode w;
}.

Lemma step_finv H mode jobs src fault cc s t s' :
  BInv H mode jobs s -> FInv H mode jobs src fault cc s ->
  bstep H mode jobs src fault cc s t = Some s' -> FInv H mode jobs src fault cc s'.
Proof.
  intros B I E. destruct t as [|i|]; unfold bstep in E.
  - break_step E; inversion E; subst; clear E; destruct I; constructor; simp; auto; try discriminate.
  - destruct (nth_error (b_workers s) i) as [w0|] eqn:Ew; [|discriminate].
    assert (Hk : forall k, holds k w0 -> k < njobs jobs).
    { intros k Hh. pose proof (v_holds _ _ _ _ B i w0 k Ew Hh). pose proof (v_fed _ _ _ _ B). lia. }
    assert (Hdoom : forall f' w', (f' = true -> b_failed s = true \/ is_doom w0) ->
              (is_doom w' -> is_doom w0 \/ caused H mode jobs src fault) ->
              doomedc f' (set_nth (b_workers s) i w') -> caused H mode jobs src fault).
    { intros f' w' Hf Hw [Hd|Hd].
      - destruct (Hf Hd) as [Hd'|Hd']; [apply (f_doom _ _ _ _ _ _ _ I); left; exact Hd'|].
        apply (f_doom _ _ _ _ _ _ _ I). right. exists i, w0. split; assumption.
      - apply exw_set_inv in Hd. destruct Hd as [Hd|Hd].
        + destruct (Hw Hd) as [Hd'|Hc]; [|exact Hc].
          apply (f_doom _ _ _ _ _ _ _ I). right. exists i, w0. split; assumption.
        + apply (f_doom _ _ _ _ _ _ _ I). right. exact Hd. }
    assert (Hst : forall w', (forall k, w' = BStore k -> jbytes H mode jobs src k <> None) ->
              forall j k, nth_error (set_nth (b_workers s) i w') j = Some (BStore k) -> jbytes H mode jobs src k <> None).
    { intros w' Hw j k Ej. apply nth_error_set_nth in Ej. destruct Ej as [[_ Ej]|[_ Ej]].
      - apply Hw. congruence.
      - eapply (f_store _ _ _ _ _ _ _ I); eauto. }
    assert (Hpc : forall w', pc_mode_ok mode w' ->
              forall j w, nth_error (set_nth (b_workers s) i w') j = Some w -> pc_mode_ok mode w).
    { intros w' Hw j w Ej. apply nth_error_set_nth in Ej. destruct Ej as [[_ ->]|[_ Ej]]; [exact Hw|].
      eapply (f_pc _ _ _ _ _ _ _ I); eauto. }
    pose proof (f_pc _ _ _ _ _ _ _ I i w0 Ew) as Hw0.
    destruct mode; destruct w0 as [| |k|k|k|k|k|k|k]; cbn [worker_step] in E;
      cbn in Hw0; try discriminate Hw0; try (exfalso; apply Hw0; reflexivity);
      break_step E;
      inversion E; subst; clear E; constructor; simp;
      try exact (f_canc _ _ _ _ _ _ _ I);
      try (apply Hpc; cbn; first [exact Logic.I | reflexivity | discriminate]); try exact (f_ext _ _ _ _ _ _ _ I); try exact (f_broke _ _ _ _ _ _ _ I);
      try (intros; left; reflexivity);
      try (intros; reflexivity);
      try (intros; discriminate);
      try (exfalso; eapply (f_store _ _ _ _ _ _ _ I); eauto; fail);
      try (apply Hst; intros k0 Ek0; first [discriminate Ek0 | inversion Ek0; subst; unfold jbytes; first [discriminate | congruence]]);
      try (unfold doomed; simp; apply Hdoom;
           [ first [ intros Hf; left; exact Hf | intros _; right; exact Logic.I ]
           | cbn; intros Hd;
             first [ contradiction
                   | left; exact Logic.I
                   | right; left; eexists; eexists; eassumption
                   | right; right; exists k; split; [apply Hk; reflexivity|cbn; assumption] ] ]).
  - break_step E; inversion E; subst; clear E; destruct I; constructor; simp; auto.
    intros _. apply andb_true_iff in Q. tauto.
Qed.

Lemma init_finv H mode jobs src fault cc store0 nw : FInv H mode jobs src fault cc (binit store0 nw).
Proof.
  constructor; cbn; try discriminate.
  - intros [Hf|[i [w [Ei Hw]]]]; [discriminate|].
    apply nth_error_In, repeat_spec in Ei. subst. contradiction.
  - intros i k Ei. apply nth_error_In, repeat_spec in Ei. discriminate.
  - intros i w Ei. apply nth_error_In, repeat_spec in Ei. subst. exact Logic.I.
Qed.

Lemma run_finv H mode jobs src fault cc store0 nw sched :
  let s := run (bstep H mode jobs src fault cc) sched (binit store0 nw) in
  BInv H mode jobs s /\ FInv H mode jobs src fault cc s.
Proof.
  apply inv_run with (Inv := fun s => BInv H mode jobs s /\ FInv H mode jobs src fault cc s).
  - intros s t s' [B I] E. split; [eapply step_inv; eauto|eapply step_finv; eauto].
  - split; [apply init_inv|apply init_finv].
Qed.

(* An error is only reported when a store operation failed or a job was invalid; an interruption only
   after a cancellation: without faults, invalid jobs and cancellation every schedule ends in nil. *)
Theorem bulk_err_has_cause H mode jobs src fault cc store0 nw sched :
  let s := run (bstep H mode jobs src fault cc) sched (binit store0 nw) in
  bulk_result s = RErr -> caused H mode jobs src fault.
Proof.
  intros s Hres. destruct (run_finv H mode jobs src fault cc store0 nw sched) as [_ I]. fold s in I.
  unfold bulk_result in Hres. destruct (b_failed s) eqn:Ef.
  - apply (f_doom _ _ _ _ _ _ _ I). left. exact Ef.
  - destruct (b_feeder s) as [|[|]]; discriminate.
Qed.

Theorem bulk_no_fault_nil H mode jobs src fault store0 nw sched :
  (forall o n, fault o n = false) ->
  (forall k, k < njobs jobs -> ~ job_bad H mode jobs src k) ->
  let s := run (bstep H mode jobs src fault false) sched (binit store0 nw) in
  bfinal s = true -> bulk_result s = RNil.
Proof.
  intros Hnf Hok s Hfin.
  destruct (run_finv H mode jobs src fault false store0 nw sched) as [_ I]. fold s in I.
  destruct (bulk_result s) eqn:Hres; [reflexivity| |].
  - exfalso. destruct (bulk_err_has_cause H mode jobs src fault false store0 nw sched Hres) as [[o [n E]]|[k [Hk Hb]]].
    + rewrite Hnf in E. discriminate.
    + exact (Hok k Hk Hb).
  - exfalso. unfold bulk_result in Hres. destruct (b_failed s) eqn:Ef; [discriminate|].
    destruct (b_feeder s) as [|[|]] eqn:Efd; try discriminate.
    pose proof (f_broke _ _ _ _ _ _ _ I Efd) as Hc.
    destruct (f_canc _ _ _ _ _ _ _ I Hc) as [Hf|He]; [congruence|].
    pose proof (f_ext _ _ _ _ _ _ _ I He). discriminate.
Qed.

(* ================= deadlock freedom and termination ================= *)
Record LInv (s : bstate) : Prop := {
  l_failc : b_failed s = true -> b_cancelled s = true;
  l_exit : b_feeder s = Feeding -> forall i, nth_error (b_workers s) i = Some BExited -> b_failed s = true;
}.

Lemma step_linv H mode jobs src fault cc s t s' :
  LInv s -> bstep H mode jobs src fault cc s t = Some s' -> LInv s'.
Proof.
  intros I E. destruct t as [|i|]; unfold bstep in E.
  - break_step E; inversion E; subst; clear E; destruct I; constructor; simp; auto; try discriminate.
  - destruct (nth_error (b_workers s) i) as [w0|] eqn:Ew; [|discriminate].
    assert (Hex : forall w', w' <> BExited -> b_feeder s = Feeding ->
              forall j, nth_error (set_nth (b_workers s) i w') j = Some BExited -> b_failed s = true).
    { intros w' Hw Hf j Ej. apply nth_error_set_nth in Ej. destruct Ej as [[_ Ej]|[_ Ej]]; [congruence|].
      eapply (l_exit _ I); eauto. }
    destruct mode; destruct w0 as [| |k|k|k|k|k|k|k]; cbn [worker_step] in E; break_step E;
      inversion E; subst; clear E; constructor; simp;
      try exact (l_failc _ I); try reflexivity; try (intros; reflexivity); try (intros; discriminate);
      try (apply Hex; discriminate);
      try (intros Hf; congruence).
  - break_step E; inversion E; subst; clear E; destruct I; constructor; simp; auto.
Qed.

Lemma run_linv H mode jobs src fault cc store0 nw sched :
  LInv (run (bstep H mode jobs src fault cc) sched (binit store0 nw)).
Proof.
  apply inv_run with (Inv := LInv).
  - intros s t s' I E. eapply step_linv; eauto.
  - constructor; cbn; [discriminate|].
    intros _ i Ei. apply nth_error_In, repeat_spec in Ei. discriminate.
Qed.

Lemma step_bworkers_length H mode jobs src fault cc s t s' :
  bstep H mode jobs src fault cc s t = Some s' -> length (b_workers s') = length (b_workers s).
Proof.
  intros E. destruct t as [|i|]; unfold bstep in E.
  - break_step E; inversion E; subst; reflexivity.
  - destruct (nth_error (b_workers s) i) as [w0|]; [|discriminate].
    destruct mode; destruct w0; cbn [worker_step] in E; break_step E; inversion E; subst; simp; apply set_nth_length.
  - break_step E; inversion E; subst; reflexivity.
Qed.

Lemma run_bworkers_length H mode jobs src fault cc store0 nw sched :
  length (b_workers (run (bstep H mode jobs src fault cc) sched (binit store0 nw))) = nw.
Proof.
  apply (inv_run (bstep H mode jobs src fault cc) (fun s => length (b_workers s) = nw)).
  - intros s t s' Hs E. rewrite (step_bworkers_length _ _ _ _ _ _ _ _ _ E). exact Hs.
  - cbn. apply repeat_length.
Qed.

(* a worker that is neither idle nor gone can always take its next step *)
Lemma worker_step_enabled H mode jobs src fault s i w :
  w <> BIdle -> w <> BExited -> worker_step H mode jobs src fault s i w <> None.
Proof.
  intros Hi He. destruct w; try congruence; cbn [worker_step];
    repeat match goal with
           | |- context [if ?c then _ else _] => destruct c
           | |- context [match ?x with Some _ => _ | None => _ end] => destruct x
           | |- context [match mode with MChop => _ | MCopy => _ | MStream => _ end] => destruct mode
           end; discriminate.
Qed.

(* ChopFile / Copy / ChunkStream cannot get stuck, whatever faults and cancellations happen. *)
Theorem bulk_deadlock_free H mode jobs src fault cc store0 nw sched :
  let s := run (bstep H mode jobs src fault cc) sched (binit store0 nw) in
  0 < nw -> bfinal s = false -> exists t, bstep H mode jobs src fault cc s t <> None.
Proof.
  intros s Hnw Hfin.
  assert (B := run_inv H mode jobs src fault cc store0 nw sched). fold s in B.
  assert (L := run_linv H mode jobs src fault cc store0 nw sched). fold s in L.
  assert (Hlen : length (b_workers s) = nw) by apply run_bworkers_length.
  unfold bfinal in Hfin. destruct (b_feeder s) as [|b] eqn:Efd.
  - destruct (b_fed s =? njobs jobs) eqn:Efed.
    + exists BFeeder. unfold bstep. rewrite Efd, Efed. discriminate.
    + destruct (b_cancelled s) eqn:Ec.
      * exists BFeeder. unfold bstep. rewrite Efd, Efed, Ec. discriminate.
      * assert (Hnf : b_failed s = false).
        { destruct (b_failed s) eqn:Ef; [|reflexivity]. rewrite (l_failc _ L) in Ec by exact Ef. discriminate. }
        destruct (nth_error (b_workers s) 0) as [w|] eqn:Ew.
        2:{ apply nth_error_None in Ew. lia. }
        exists (BWorker 0). unfold bstep. rewrite Ew.
        destruct w; try (apply worker_step_enabled; discriminate).
        -- cbn [worker_step]. rewrite Efd. apply Nat.eqb_neq in Efed.
           assert (Hlt : b_fed s < njobs jobs) by (pose proof (v_fed _ _ _ _ B); lia).
           apply Nat.ltb_lt in Hlt. rewrite Hlt. discriminate.
        -- rewrite (l_exit _ L Efd 0 Ew) in Hnf. discriminate.
  - unfold ball_exited in Hfin.
    assert (Hex : exists i w, nth_error (b_workers s) i = Some w /\ w <> BExited).
    { clear -Hfin. induction (b_workers s) as [|w r IH]; cbn in Hfin; [discriminate|].
      destruct w; try (exists 0; eexists; split; [reflexivity|discriminate]).
      cbn in Hfin. destruct (IH Hfin) as [i [w [Hi Hw]]]. exists (S i), w. split; assumption. }
    destruct Hex as [i [w [Hi Hw]]]. exists (BWorker i). unfold bstep. rewrite Hi.
    destruct w; try (apply worker_step_enabled; congruence); try congruence.
    cbn [worker_step]. rewrite Efd. discriminate.
Qed.

(* termination: every enabled step strictly decreases a measure *)
Definition bweight (w : bpc) : nat :=
  match w with
  | BExited => 0 | BIdle => 1 | BErr _ => 3 | BUnmark _ => 4 | BStore _ => 5
  | BHas _ => 6 | BMark _ => 7 | BGet _ => 7 | BGot _ => 8
  end.
Definition bsum (l : list bpc) : nat := fold_right (fun w a => bweight w + a) 0 l.
Definition bmu (jobs : list (id * bytes)) (s : bstate) : nat :=
  8 * (njobs jobs - b_fed s) + match b_feeder s with Feeding => 1 | Stopped _ => 0 end
  + bsum (b_workers s) + (if negb (b_ext s) then 1 else 0).

Lemma bsum_set_nth l i w w0 :
  nth_error l i = Some w0 -> bsum (set_nth l i w) + bweight w0 = bsum l + bweight w.
Proof.
  unfold bsum. revert i. induction l as [|x r IH]; destruct i; cbn; intros E; try discriminate.
  - inversion E; subst. lia.
  - specialize (IH _ E). lia.
Qed.

Theorem bulk_step_decreases H mode jobs src fault cc s t s' :
  bstep H mode jobs src fault cc s t = Some s' -> bmu jobs s' < bmu jobs s.
Proof.
  intros E. unfold bmu. destruct t as [|i|]; unfold bstep in E.
  - break_step E; inversion E; subst; clear E; simp; lia.
  - destruct (nth_error (b_workers s) i) as [w0|] eqn:Ew; [|discriminate].
    destruct mode; destruct w0; cbn [worker_step] in E; break_step E; inversion E; subst; clear E; simp;
      try (apply Nat.ltb_lt in Q0);
      try match goal with Qx : b_feeder s = _ |- _ => rewrite ?Qx end;
      match goal with
      | |- context [bsum (set_nth _ _ ?w)] => pose proof (bsum_set_nth _ _ w _ Ew) as Hs; cbn [bweight] in Hs; lia
      end.
  - break_step E; inversion E; subst; clear E; simp.
    apply andb_true_iff in Q. destruct Q as [_ Q]. rewrite Q. cbn. lia.
Qed.

(* every run made of enabled steps only is at most [bmu init] long: no fairness assumption *)
Theorem bulk_terminates H mode jobs src fault cc store0 nw sched s' :
  run_strict (bstep H mode jobs src fault cc) sched (binit store0 nw) = Some s' ->
  length sched <= bmu jobs (binit store0 nw).
Proof.
  intros E.
  pose proof (measure_bound (bstep H mode jobs src fault cc) (bmu jobs)
                (fun s t s' Es => bulk_step_decreases H mode jobs src fault cc s t s' Es)
                sched (binit store0 nw) s' E). lia.
Qed.

(* bulk_complete with the cancelling environment enabled *)
Theorem bulk_cancel_complete H mode jobs src fault store0 nw sched :
  store_ok H store0 -> (mode = MCopy -> src_ok H src) ->
  let s := run (bstep H mode jobs src fault true) sched (binit store0 nw) in
  bfinal s = true -> bulk_result s = RNil ->
  forall k, k < njobs jobs ->
    exists b, lookup (b_store s) (jid H mode jobs k) = Some b /\ H b = jid H mode jobs k.
Proof. exact (bulk_complete H mode jobs src fault true store0 nw sched). Qed.
