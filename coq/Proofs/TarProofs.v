(* Proofs about tar.go's recursion (Model/Tar.v):
   tar_counter   the counter n returned by tar() is the length of what was written
   tar_wf        every element written carries its true size (wf_elem)
   scan_encode   cutting the written bytes into elements gives back the elements with their offsets
   parse_ok      the format-rule reader accepts the elements and returns the tree (casync_view)
   => tar_wellformed, tar_offsets *)
From Coq Require Import List NArith Arith Bool Lia Permutation Sorted ZifyN ZifyNat ZifyBool.
From DS Require Import Gen.Constants Base.Bytes Base.LE64 Model.Format Model.Goodbye Model.Sip Model.Tar
     Proofs.FormatProofs Proofs.GoodbyeProofs.
Import ListNotations.
Local Open Scope N_scope.

(* ---------- induction over trees (children nested in a list) ---------- *)
Section NodeInd.
  Variable P : node -> Prop.
  Hypothesis Hdir : forall m xs cs, Forall (fun nc : bytes * node => P (snd nc)) cs -> P (NDir m xs cs).
  Hypothesis Hfile : forall m xs d, P (NFile m xs d).
  Hypothesis Hsym : forall m xs tg, P (NSymlink m xs tg).
  Hypothesis Hdev : forall m xs c ma mi, P (NDevice m xs c ma mi).
  Hypothesis Hoth : forall m xs s, P (NOther m xs s).
  Fixpoint node_ind' (t : node) : P t :=
    match t with
    | NDir m xs cs =>
        Hdir m xs cs ((fix go (l : list (bytes * node)) : Forall (fun nc => P (snd nc)) l :=
                         match l with
                         | [] => Forall_nil _
                         | nc :: r => Forall_cons nc (node_ind' (snd nc)) (go r)
                         end) cs)
    | NFile m xs d => Hfile m xs d
    | NSymlink m xs tg => Hsym m xs tg
    | NDevice m xs c ma mi => Hdev m xs c ma mi
    | NOther m xs s => Hoth m xs s
    end.
End NodeInd.

(* ---------- the children loop without accumulators ---------- *)
Definition block (nc : bytes * node) : list elem := filename_elem (fst nc) :: tar_model (snd nc).
Definition block_len (nc : bytes * node) : N := enc_len (filename_elem (fst nc)) + snd (tar_node (snd nc)).
Definition blocks_len (cs : list (bytes * node)) : N := fold_right (fun nc a => block_len nc + a) 0 cs.

Fixpoint items_from (n : N) (cs : list (bytes * node)) : list item :=
  match cs with
  | [] => []
  | nc :: r => (n, block_len nc, sip_hash (fst nc)) :: items_from (n + block_len nc) r
  end.

(* the children tar() writes something for: FIFOs and sockets are skipped before anything is written *)
Definition kept (cs : list (bytes * node)) : list (bytes * node) :=
  filter (fun nc => negb (is_other (snd nc))) cs.

Lemma tar_children_eq cs : forall n items,
  tar_children TarFixed tar_node cs n items =
    (flat_map block (kept cs), n + blocks_len (kept cs), items ++ items_from n (kept cs)).
Proof.
  induction cs as [|[name c] rest IH]; intros n items.
  - cbn [kept filter tar_children flat_map blocks_len fold_right items_from]. rewrite app_nil_r. f_equal. f_equal. lia.
  - cbn [tar_children]. unfold kept. cbn [filter snd]. fold (kept rest).
    destruct (is_other c) eqn:Eo; cbn [negb]; [apply IH|].
    destruct (tar_node c) as [ce cn] eqn:Ec.
    rewrite IH. cbn [flat_map blocks_len fold_right items_from fst snd].
    fold (blocks_len (kept rest)).
    assert (Eb : block (name, c) = filename_elem name :: ce).
    { unfold block, tar_model. cbn [fst snd]. rewrite Ec. reflexivity. }
    assert (El : block_len (name, c) = enc_len (filename_elem name) + cn).
    { unfold block_len. cbn [fst snd]. rewrite Ec. reflexivity. }
    rewrite Eb, El. rewrite <- app_assoc. cbn [app].
    replace (n + enc_len (filename_elem name) + cn - n) with (enc_len (filename_elem name) + cn) by lia.
    replace (n + enc_len (filename_elem name) + cn + blocks_len (kept rest))
       with (n + (enc_len (filename_elem name) + cn + blocks_len (kept rest))) by lia.
    replace (n + enc_len (filename_elem name) + cn) with (n + (enc_len (filename_elem name) + cn)) by lia.
    reflexivity.
Qed.

Definition fix_items (n : N) (items : list item) : list item :=
  map (fun it => (n - it_offset it, it_size it, it_hash it)) items.

Definition dir_table (t : node) (cs : list (bytes * node)) : list item :=
  let n0 := elems_len (head_elems t) in
  goodbye_table (fix_items (n0 + blocks_len cs) (items_from n0 cs)).

Definition dir_goodbye (t : node) (cs : list (bytes * node)) : elem :=
  let n := elems_len (head_elems t) + blocks_len cs in
  let table := dir_table t cs in
  let all := table ++ [(n, 16 + N.of_nat (length table) * 24 + 24, CaFormatGoodbyeTailMarker)] in
  Goodbye (mkHeader (16 + N.of_nat (length all) * 24) CaFormatGoodbye) all.

Lemma tar_node_dir m xs cs :
  tar_node (NDir m xs cs) =
    (head_elems (NDir m xs cs) ++ flat_map block (kept cs) ++ [dir_goodbye (NDir m xs cs) (kept cs)],
     elems_len (head_elems (NDir m xs cs)) + blocks_len (kept cs) + enc_len (dir_goodbye (NDir m xs cs) (kept cs))).
Proof.
  unfold tar_node. cbn [tar_node_v]. change (tar_node_v TarFixed) with tar_node.
  rewrite tar_children_eq. cbn [app]. reflexivity.
Qed.

Lemma Forall_kept {P : bytes * node -> Prop} cs : Forall P cs -> Forall P (kept cs).
Proof.
  intros H. apply Forall_forall. intros x Hx. apply filter_In in Hx. rewrite Forall_forall in H. apply H. tauto.
Qed.

Lemma kept_not_other cs : Forall (fun nc => is_other (snd nc) = false) (kept cs).
Proof.
  apply Forall_forall. intros x Hx. apply filter_In in Hx. destruct Hx as [_ H]. now apply negb_true_iff in H.
Qed.

Lemma elems_len_app a b : elems_len (a ++ b) = elems_len a + elems_len b.
Proof. unfold elems_len. induction a as [|e a IH]; cbn [app fold_right]; [reflexivity|]. rewrite IH. apply N.add_assoc. Qed.

Lemma elems_len_encode es : elems_len es = lenN (encode_elems es).
Proof.
  induction es as [|e es IH]; [reflexivity|].
  cbn [elems_len fold_right encode_elems flat_map]. fold (elems_len es). fold (encode_elems es).
  rewrite lenN_app, <- IH. reflexivity.
Qed.

(* tar(): the returned counter is the number of bytes of the elements written *)
Theorem tar_counter : forall t, snd (tar_node t) = elems_len (tar_model t).
Proof.
  unfold tar_model. induction t as [m xs cs IH| | | |] using node_ind'.
  - rewrite tar_node_dir. cbn [fst snd]. rewrite !elems_len_app. cbn [elems_len fold_right].
    apply (@Forall_kept (fun nc => snd (tar_node (snd nc)) = elems_len (fst (tar_node (snd nc))))) in IH.
    assert (E : blocks_len (kept cs) = elems_len (flat_map block (kept cs))).
    { induction IH as [|nc r Hnc _ IHr]; [reflexivity|].
      cbn [blocks_len flat_map fold_right]. fold (blocks_len r). rewrite elems_len_app, <- IHr.
      unfold block_len, block. cbn [elems_len fold_right]. unfold tar_model. rewrite Hnc. reflexivity. }
    rewrite E. lia.
  - cbn [tar_node tar_node_v fst snd]. rewrite elems_len_app. cbn [elems_len fold_right]. lia.
  - cbn [tar_node tar_node_v fst snd]. rewrite elems_len_app. cbn [elems_len fold_right]. lia.
  - cbn [tar_node tar_node_v fst snd]. rewrite elems_len_app. cbn [elems_len fold_right]. lia.
  - reflexivity.
Qed.

Lemma block_len_elems nc : block_len nc = elems_len (block nc).
Proof. unfold block_len, block. cbn [elems_len fold_right]. rewrite tar_counter. reflexivity. Qed.

Lemma blocks_len_elems cs : blocks_len cs = elems_len (flat_map block cs).
Proof.
  induction cs as [|nc r IH]; [reflexivity|].
  cbn [blocks_len flat_map fold_right]. fold (blocks_len r). rewrite elems_len_app, <- IH, block_len_elems. reflexivity.
Qed.

(* ---------- the trees the theorems talk about ---------- *)
Definition good_meta (m : meta) : Prop :=
  m_perm m < 4096 /\ w64 (m_uid m) /\ w64 (m_gid m) /\ w64 (m_mtime m).
Definition good_xattr (kv : xattr) : Prop :=
  fst kv <> [] /\ has_nul (fst kv) = false /\ lenN (fst kv) + 1 + lenN (snd kv) + 1 <= MaxInt64.
(* strictly ascending in strcmp order *)
Fixpoint ascending (prev : option bytes) (keys : list bytes) : Prop :=
  match keys with
  | [] => True
  | k :: r => match prev with None => True | Some p => bytes_ltb p k = true end /\ ascending (Some k) r
  end.

(* A tree as the disk source delivers it: permission bits below 010000, ids and times 64-bit, xattr
   names non-empty without NUL and (as a map has them) pairwise different -- given in ascending
   order --, child names valid and ascending, symlink targets non-empty without NUL, no FIFO / socket. *)
Definition ascending_if (ord : bool) (prev : option bytes) (keys : list bytes) : Prop :=
  ord = true -> ascending prev keys.

(* [good ord t]; ord = true: child names ascending (the disk source); ord = false: any order (a tar
   stream).  A FIFO or socket may sit in any directory (tar() skips it), not at the root. *)
Inductive good (ord : bool) : node -> Prop :=
| good_dir m xs cs : good_meta m -> Forall good_xattr xs -> ascending None (map fst xs) ->
    Forall (fun nc : bytes * node => valid_name (fst nc) = true /\
                                     (is_other (snd nc) = true \/ good ord (snd nc))) cs ->
    ascending_if ord None (map fst cs) -> good ord (NDir m xs cs)
| good_file m xs d : good_meta m -> Forall good_xattr xs -> ascending None (map fst xs) ->
    lenN d <= MaxInt64 -> good ord (NFile m xs d)
| good_sym m xs tg : good_meta m -> Forall good_xattr xs -> ascending None (map fst xs) ->
    has_nul tg = false -> 1 <= lenN tg -> lenN tg + 1 <= MaxInt64 -> good ord (NSymlink m xs tg)
| good_dev m xs c ma mi : good_meta m -> Forall good_xattr xs -> ascending None (map fst xs) ->
    w64 ma -> w64 mi -> good ord (NDevice m xs c ma mi).

Lemma good_head ord t : good ord t ->
  good_meta (node_meta t) /\ Forall good_xattr (node_xattrs t) /\ ascending None (map fst (node_xattrs t)).
Proof. destruct 1; cbn [node_meta node_xattrs]; auto. Qed.

Lemma ascending_weaken p keys : ascending p keys -> ascending None keys.
Proof. destruct keys as [|k r]; cbn; [trivial|]. intros [_ H]. auto. Qed.

Lemma bytes_ltb_asym a : forall b, bytes_ltb a b = true -> bytes_ltb b a = false.
Proof.
  induction a as [|x a IH]; intros [|y b] H; cbn [bytes_ltb] in *; try discriminate; try reflexivity.
  destruct (N.ltb_spec x y); destruct (N.ltb_spec y x); try lia; try reflexivity; try discriminate; auto.
Qed.

Lemma bytes_ltb_trans a : forall b c, bytes_ltb a b = true -> bytes_ltb b c = true -> bytes_ltb a c = true.
Proof.
  induction a as [|x a IH]; intros [|y b] [|z c] H1 H2; cbn [bytes_ltb] in *; try discriminate; try reflexivity.
  destruct (N.ltb_spec x y); destruct (N.ltb_spec y x); destruct (N.ltb_spec y z); destruct (N.ltb_spec z y);
    destruct (N.ltb_spec x z); destruct (N.ltb_spec z x); try lia; try reflexivity; try discriminate.
  eapply IH; eassumption.
Qed.

Lemma ascending_lower a b keys : bytes_ltb a b = true -> ascending (Some b) keys -> ascending (Some a) keys.
Proof.
  destruct keys as [|k r]; cbn [ascending]; [trivial|]. intros Hab [Hbk Hr]. split; [|exact Hr].
  eapply bytes_ltb_trans; eassumption.
Qed.

Lemma ascending_kept cs : forall prev, ascending prev (map fst cs) -> ascending prev (map fst (kept cs)).
Proof.
  induction cs as [|nc r IH]; intros prev H; [exact H|].
  cbn [map ascending] in H. destruct H as [Hp Hr]. unfold kept. cbn [filter]. fold (kept r).
  destruct (negb (is_other (snd nc))).
  - cbn [map ascending]. split; [exact Hp|]. apply IH. exact Hr.
  - apply IH. destruct prev as [p|]; [exact (ascending_lower _ _ _ Hp Hr)|exact (ascending_weaken _ _ Hr)].
Qed.

Lemma good_dir_kept ord m xs cs : good ord (NDir m xs cs) ->
  Forall (fun nc : bytes * node => valid_name (fst nc) = true /\ good ord (snd nc)) (kept cs) /\
  ascending_if ord None (map fst (kept cs)).
Proof.
  intros H. inversion H as [? ? ? _ _ _ Hcs Hasc| | |]; subst. split.
  - apply Forall_forall. intros nc Hin. apply filter_In in Hin. destruct Hin as [Hin Hk].
    rewrite Forall_forall in Hcs. destruct (Hcs nc Hin) as [Hv [Ho|Hg]]; [rewrite Ho in Hk; discriminate|auto].
  - intros E. apply ascending_kept. exact (Hasc E).
Qed.

Lemma sort_xattrs_sorted xs : ascending None (map fst xs) -> sort_xattrs xs = xs.
Proof.
  induction xs as [|x r IH]; intros H; [reflexivity|].
  cbn [map ascending] in H. destruct H as [_ H].
  unfold sort_xattrs in *. cbn [fold_right]. rewrite (IH (ascending_weaken _ _ H)).
  destruct r as [|y r']; [reflexivity|]. cbn [insert_xattr].
  cbn [map ascending] in H. destruct H as [Hlt _].
  rewrite (bytes_ltb_asym _ _ Hlt). reflexivity.
Qed.

(* ---------- every element written carries its true size ---------- *)
Lemma type_bits_bound t : type_bits t <= 49152.
Proof. destruct t as [| | |? ? c ? ?|? ? s]; cbn [type_bits]; try destruct c; try destruct s; unfold S_IFDIR, S_IFREG, S_IFLNK, S_IFCHR, S_IFBLK, S_IFSOCK, S_IFIFO; lia. Qed.

Lemma wf_entry t : good_meta (node_meta t) -> wf_elem (entry_elem t).
Proof.
  intros (Hp & Hu & Hg & Hm). unfold entry_elem. cbn [wf_elem].
  pose proof (type_bits_bound t). repeat split; try assumption; unfold w64; try reflexivity; lia.
Qed.

Lemma wf_xattr kv : good_xattr kv -> wf_elem (xattr_elem kv).
Proof.
  intros (_ & _ & Hl). unfold xattr_elem. cbn [wf_elem]. unfold wf_string.
  assert (E : lenN (fst kv ++ 0 :: snd kv) = lenN (fst kv) + 1 + lenN (snd kv)).
  { unfold lenN. rewrite app_length. cbn [length]. lia. }
  rewrite E. split; [apply f_equal2; [lia|reflexivity]|lia].
Qed.

Lemma valid_name_len name : valid_name name = true -> 1 <= lenN name <= 255.
Proof. unfold valid_name. rewrite !andb_true_iff. intros [[[[_ _] H1] H2] _]. lia. Qed.

Lemma wf_filename name : valid_name name = true -> wf_elem (filename_elem name).
Proof.
  intros H. apply valid_name_len in H. unfold filename_elem. cbn [wf_elem]. unfold wf_string.
  split; [reflexivity|lia].
Qed.

Lemma wf_head ord t : good ord t -> Forall wf_elem (head_elems t).
Proof.
  intros H. destruct (good_head ord t H) as (Hm & Hx & Ha). unfold head_elems.
  constructor; [apply wf_entry; exact Hm|].
  rewrite (sort_xattrs_sorted _ Ha). apply Forall_map. eapply Forall_impl; [|exact Hx]. apply wf_xattr.
Qed.

Lemma block_len_le nc cs : In nc cs -> block_len nc <= blocks_len cs.
Proof.
  induction cs as [|a r IH]; intros H; [destruct H|].
  cbn [blocks_len fold_right]. fold (blocks_len r). destruct H as [->|H]; [lia|]. specialize (IH H). lia.
Qed.

Lemma sip_hash_w64 name : w64 (sip_hash name).
Proof. unfold w64, sip_hash. apply N.mod_lt. discriminate. Qed.

Lemma items_from_spec cs : forall a it, In it (items_from a cs) ->
  a <= it_offset it /\ it_offset it + it_size it <= a + blocks_len cs /\ w64 (it_hash it).
Proof.
  induction cs as [|nc r IH]; intros a it H; [destruct H|].
  cbn [items_from] in H. cbn [blocks_len fold_right]. fold (blocks_len r). destruct H as [<-|H].
  - unfold it_offset, it_size, it_hash. cbn [fst snd]. split; [lia|]. split; [lia|apply sip_hash_w64].
  - destruct (IH _ _ H) as (H1 & H2 & H3). split; [lia|]. split; [lia|exact H3].
Qed.

Lemma goodbye_table_perm items : Permutation (goodbye_table items) items /\
  length (goodbye_table items) = length items /\
  make_goodbye_bst items = Some (goodbye_table items).
Proof.
  unfold goodbye_table. destruct (bst_inorder_proof items) as (out & E & Hl & _ & Hp).
  rewrite E. auto.
Qed.

Lemma enc_len_goodbye h items : enc_len (Goodbye h items) = 16 + 24 * N.of_nat (length items).
Proof.
  unfold enc_len, lenN. cbn [encode_elem]. rewrite app_length, le64s_length, enc_gitems_length.
  cbn [length]. lia.
Qed.

Lemma last_hash_snoc items o s h : last_hash (items ++ [(o, s, h)]) = Some h.
Proof. unfold last_hash. rewrite rev_app_distr. reflexivity. Qed.

Lemma wf_dir_goodbye t cs :
  elems_len (head_elems t) + blocks_len cs + enc_len (dir_goodbye t cs) < two64 ->
  wf_elem (dir_goodbye t cs).
Proof.
  intros Hb. unfold dir_goodbye in *. cbv zeta in *. rewrite enc_len_goodbye in Hb.
  set (n := elems_len (head_elems t) + blocks_len cs) in *.
  set (table := dir_table t cs) in *.
  cbn [wf_elem]. split; [apply f_equal2; [apply f_equal; apply N.mul_comm|reflexivity]|]. split; [clearbody table n; lia|]. split; [|apply last_hash_snoc].
  apply Forall_app. split.
  - unfold table, dir_table. cbv zeta.
    destruct (goodbye_table_perm (fix_items n (items_from (elems_len (head_elems t)) cs))) as (Hp & _ & _).
    fold n. eapply Permutation_Forall; [apply Permutation_sym; exact Hp|].
    unfold fix_items. apply Forall_map. apply Forall_forall. intros it Hin.
    destruct (items_from_spec _ _ _ Hin) as (H1 & H2 & H3).
    cbn [wf_gitem]. unfold w64 in *. repeat split; try assumption; unfold n; lia.
  - constructor; [|constructor]. cbn [wf_gitem]. rewrite app_length in Hb. cbn [length] in Hb.
    unfold w64. clearbody n table. repeat split; try lia; try reflexivity.
Qed.

Theorem tar_wf : forall ord t, good ord t -> snd (tar_node t) < two64 -> Forall wf_elem (tar_model t).
Proof.
  intros ord. unfold tar_model. induction t as [m xs cs IH| | | |] using node_ind'; intros Hg Hb.
  - rewrite tar_node_dir in *. cbn [fst snd] in *.
    pose proof (wf_head _ _ Hg) as Hh.
    destruct (good_dir_kept _ _ _ _ Hg) as [Hcs _].
    apply Forall_kept in IH.
    apply Forall_app. split; [exact Hh|]. apply Forall_app. split.
    + apply Forall_flat_map. rewrite Forall_forall in *. intros nc Hin.
      destruct (Hcs nc Hin) as [Hn Hgc]. unfold block. constructor; [apply wf_filename; exact Hn|].
      apply (IH nc Hin Hgc). pose proof (block_len_le nc (kept cs) Hin). unfold block_len in *. lia.
    + constructor; [|constructor]. apply wf_dir_goodbye. exact Hb.
  - cbn [tar_node tar_node_v fst snd] in *. apply Forall_app. split; [apply (wf_head ord); exact Hg|].
    inversion Hg; subst. constructor; [|constructor]. cbn [wf_elem]. split; [reflexivity|assumption].
  - cbn [tar_node tar_node_v fst snd] in *. apply Forall_app. split; [apply (wf_head ord); exact Hg|].
    inversion Hg; subst. constructor; [|constructor]. cbn [wf_elem]. unfold wf_string. split; [reflexivity|assumption].
  - cbn [tar_node tar_node_v fst snd] in *. apply Forall_app. split; [apply (wf_head ord); exact Hg|].
    inversion Hg; subst. constructor; [|constructor]. cbn [wf_elem]. repeat split; assumption.
  - inversion Hg.
Qed.

(* ---------- phase 1 of the reader on encoded elements ---------- *)
Fixpoint posd (p : N) (es : list elem) : list pelem :=
  match es with
  | [] => []
  | e :: r => (p, p + enc_len e, e) :: posd (p + enc_len e) r
  end.

Lemma posd_app p a b : posd p (a ++ b) = posd p a ++ posd (p + elems_len a) b.
Proof.
  revert p. induction a as [|e a IH]; intros p.
  - cbn [app posd elems_len fold_right]. f_equal. lia.
  - cbn [app posd]. rewrite IH. f_equal. f_equal. unfold elems_len. cbn [fold_right]. apply f_equal2; [|reflexivity]. symmetry. apply N.add_assoc.
Qed.

Lemma posd_length p es : length (posd p es) = length es.
Proof. revert p. induction es as [|e r IH]; intros p; cbn [posd length]; [reflexivity|]. now rewrite IH. Qed.

Lemma prefix_eqb_app a r : prefix_eqb a (a ++ r) = true.
Proof. induction a as [|x a IH]; [reflexivity|]. cbn [app prefix_eqb]. rewrite N.eqb_refl, IH. reflexivity. Qed.

Lemma skipn_app_exact {B} (a r : list B) : skipn (length a) (a ++ r) = r.
Proof. induction a as [|x a IH]; [reflexivity|]. cbn [length app skipn]. exact IH. Qed.

Lemma encode_elem_length e : (16 <= length (encode_elem e))%nat.
Proof.
  destruct e; cbn [encode_elem]; rewrite ?app_length, ?le64s_length; cbn [length]; lia.
Qed.

Lemma decode_next_encode e r : wf_elem e -> decode_next (encode_elem e ++ r) = Ok (Some e, r).
Proof.
  intros H. destruct (next_encode e r H) as (a & E). unfold decode_next, run_result. rewrite E. reflexivity.
Qed.

Lemma scan_S f b p : b <> [] ->
  scan (S f) b p =
    match decode_next b with
    | Ok (Some e, _) =>
        let enc := encode_elem e in
        if prefix_eqb enc b then
          match scan f (skipn (length enc) b) (p + lenN enc) with
          | Some l => Some ((p, p + lenN enc, e) :: l)
          | None => None
          end
        else None
    | _ => None
    end.
Proof. destruct b; [congruence|reflexivity]. Qed.

Lemma scan_encode es : Forall wf_elem es -> forall fuel p, (length es < fuel)%nat ->
  scan fuel (encode_elems es) p = Some (posd p es).
Proof.
  induction 1 as [|e es He _ IH]; intros fuel p Hf.
  - destruct fuel; reflexivity.
  - cbn [encode_elems flat_map]. fold (encode_elems es).
    destruct fuel as [|f]; [cbn in Hf; lia|].
    pose proof (encode_elem_length e) as Hlen.
    rewrite scan_S.
    2:{ intros Eb. apply (f_equal (@length _)) in Eb. rewrite app_length in Eb. cbn in Eb. lia. }
    rewrite (decode_next_encode e _ He). cbv zeta. rewrite prefix_eqb_app, skipn_app_exact.
    rewrite IH by (cbn [length] in Hf; lia). reflexivity.
Qed.

(* ---------- phase 2 of the reader on the elements tar() writes ---------- *)

Definition file_types : list N := [S_IFDIR; S_IFREG; S_IFLNK; S_IFCHR; S_IFBLK; S_IFIFO; S_IFSOCK].
Definition mode_check (ty perm : N) : bool :=
  (N.land (ty + perm) S_IFMT =? ty) && (N.land (ty + perm) PERM_MASK =? perm).

(* a finite check: 7 file types x 4096 permission words *)
Lemma mode_check_all :
  forallb (fun ty => forallb (fun p => mode_check ty (N.of_nat p)) (seq 0 4096)) file_types = true.
Proof. vm_compute. reflexivity. Qed.

Lemma mode_split ty perm : In ty file_types -> perm < 4096 ->
  N.land (ty + perm) S_IFMT = ty /\ N.land (ty + perm) PERM_MASK = perm.
Proof.
  intros Hty Hp. pose proof mode_check_all as H. rewrite forallb_forall in H. specialize (H ty Hty).
  rewrite forallb_forall in H. specialize (H (N.to_nat perm)).
  rewrite N2Nat.id in H. unfold mode_check in H. rewrite andb_true_iff, !N.eqb_eq in H.
  apply H. apply in_seq. lia.
Qed.

Lemma type_bits_in t : In (type_bits t) file_types.
Proof.
  destruct t as [| | |? ? c ? ?|? ? s]; cbn [type_bits]; try destruct c; try destruct s; unfold file_types; cbn [In]; tauto.
Qed.

Lemma split_nul_app k v : has_nul k = false -> split_nul (k ++ 0 :: v) = Some (k, v).
Proof.
  induction k as [|x k IH]; intros H; [reflexivity|].
  unfold has_nul in *. cbn [existsb] in H. apply orb_false_iff in H. destruct H as [Hx Hk].
  cbn [app split_nul]. rewrite Hx. rewrite (IH Hk). reflexivity.
Qed.

Definition not_xattr_head (l : list pelem) : Prop :=
  match l with (_, _, XAttr _ _) :: _ => False | _ => True end.
Definition view_x (kv : xattr) : xattr := (fst kv, snd kv ++ [0]).

Lemma take_xattrs_stop l prev le : not_xattr_head l -> take_xattrs l prev le = Some ([], le, l).
Proof.
  destruct l as [|[[s e] el] r]; [reflexivity|]. destruct el; cbn [not_xattr_head]; intros H; try reflexivity. destruct H.
Qed.

Lemma take_xattrs_ok xs : Forall good_xattr xs -> forall prev p le rest,
  ascending prev (map fst xs) -> not_xattr_head rest ->
  exists le', take_xattrs (posd p (map xattr_elem xs) ++ rest) prev le = Some (map view_x xs, le', rest).
Proof.
  induction 1 as [|kv xs Hkv _ IH]; intros prev p le rest Ha Hr.
  - exists le. cbn [map posd app]. apply take_xattrs_stop. exact Hr.
  - cbn [map ascending] in Ha. destruct Ha as [Hprev Ha].
    destruct Hkv as (Hne & Hnul & _).
    destruct (IH (Some (fst kv)) (p + enc_len (xattr_elem kv)) (p + enc_len (xattr_elem kv)) rest Ha Hr) as (le' & E).
    exists le'. cbn [map posd app]. unfold xattr_elem at 2. cbn [take_xattrs].
    rewrite (split_nul_app _ _ Hnul).
    assert (E1 : negb (match fst kv with [] => false | _ :: _ => true end) = false) by (destruct (fst kv); [congruence|reflexivity]).
    rewrite E1.
    assert (E2 : negb (match prev with None => true | Some p0 => bytes_ltb p0 (fst kv) end) = false).
    { destruct prev; [rewrite Hprev|]; reflexivity. }
    rewrite E2. rewrite E. reflexivity.
Qed.

Definition parse_prop (ord : bool) (t : node) : Prop := good ord t -> forall fuel p rest,
  (length (tar_model t) < fuel)%nat ->
  parse_node ord fuel (posd p (tar_model t) ++ rest) = Some (casync_view t, p + elems_len (tar_model t), rest).

Fixpoint seen_from (p : N) (cs : list (bytes * node)) : list seen :=
  match cs with
  | [] => []
  | nc :: r => (fst nc, p, p + block_len nc, casync_view (snd nc)) :: seen_from (p + block_len nc) r
  end.

Lemma parse_children_S_filename ord f fs fe name l1 es m xs prev acc :
  parse_children ord (S f) ((fs, fe, filename_elem name) :: l1) es m xs prev acc =
    if negb (valid_name name) then None
    else if negb (order_ok ord prev name) then None
    else match parse_node ord f l1 with
         | Some (c, cend, l2) => parse_children ord f l2 es m xs (Some name) (acc ++ [(name, fs, cend, c)])
         | None => None
         end.
Proof. reflexivity. Qed.

Lemma parse_children_S_goodbye ord f gs ge h items l2 es m xs prev acc :
  parse_children ord (S f) ((gs, ge, Goodbye h items) :: l2) es m xs prev acc =
    if check_goodbye es gs ge items acc then Some (NDir m xs (map seen_child acc), ge, l2) else None.
Proof. reflexivity. Qed.

Lemma parse_children_ok ord cs :
  Forall (fun nc : bytes * node => parse_prop ord (snd nc)) cs ->
  Forall (fun nc : bytes * node => valid_name (fst nc) = true /\ good ord (snd nc)) cs ->
  forall prev, ascending_if ord prev (map fst cs) ->
  forall fuel p acc h gitems rest es m xs,
   (length (flat_map block cs) + 1 < fuel)%nat ->
   parse_children ord fuel (posd p (flat_map block cs ++ [Goodbye h gitems]) ++ rest) es m xs prev acc =
     if check_goodbye es (p + blocks_len cs) (p + blocks_len cs + enc_len (Goodbye h gitems)) gitems (acc ++ seen_from p cs)
     then Some (NDir m xs (map seen_child (acc ++ seen_from p cs)),
                p + blocks_len cs + enc_len (Goodbye h gitems), rest)
     else None.
Proof.
  induction 1 as [|nc r Hnc _ IH]; intros Hg prev Ha fuel p acc h gitems rest es m xs Hf.
  - cbn [flat_map app posd blocks_len fold_right seen_from]. rewrite app_nil_r, N.add_0_r.
    destruct fuel as [|f]; [lia|]. apply parse_children_S_goodbye.
  - inversion Hg as [|? ? [Hvn Hgc] Hg']; subst.
    assert (Hprev : order_ok ord prev (fst nc) = true).
    { unfold order_ok. destruct ord; [|reflexivity]. cbn [negb orb]. specialize (Ha eq_refl).
      cbn [map ascending] in Ha. destruct Ha as [Hp _]. destruct prev; [exact Hp|reflexivity]. }
    assert (Ha' : ascending_if ord (Some (fst nc)) (map fst r)).
    { intros E. specialize (Ha E). cbn [map ascending] in Ha. tauto. }
    destruct fuel as [|f]; [lia|].
    cbn [flat_map]. unfold block at 1. cbn [app posd]. rewrite <- !app_assoc. rewrite posd_app. rewrite <- app_assoc.
    rewrite parse_children_S_filename. rewrite Hvn. cbn [negb].
    rewrite Hprev. cbn [negb].
    cbn [flat_map length] in Hf. rewrite app_length in Hf. unfold block in Hf at 1. cbn [length] in Hf.
    rewrite (Hnc Hgc f) by lia.
    rewrite (IH Hg' (Some (fst nc)) Ha' f) by lia.
    cbn [blocks_len fold_right seen_from]. fold (blocks_len r).
    assert (Ep : p + enc_len (filename_elem (fst nc)) + elems_len (tar_model (snd nc)) = p + block_len nc).
    { unfold block_len. rewrite tar_counter. lia. }
    rewrite Ep. rewrite <- app_assoc. cbn [app].
    replace (p + (block_len nc + blocks_len r)) with (p + block_len nc + blocks_len r) by lia.
    reflexivity.
Qed.

(* ---------- the goodbye element tar() writes passes the reader's check ---------- *)
Lemma item_eqb_refl a : item_eqb a a = true.
Proof. unfold item_eqb. rewrite !N.eqb_refl. reflexivity. Qed.

Lemma items_eqb_refl l : items_eqb l l = true.
Proof. induction l as [|a l IH]; [reflexivity|]. cbn [items_eqb]. rewrite item_eqb_refl, IH. reflexivity. Qed.

Lemma expected_items es n cs : forall a,
  map (seen_item (es + n)) (seen_from (es + a) cs) = fix_items n (items_from a cs).
Proof.
  induction cs as [|nc r IH]; intros a; [reflexivity|].
  cbn [seen_from items_from]. unfold fix_items. cbn [map]. fold (fix_items n (items_from (a + block_len nc) r)).
  replace (es + a + block_len nc) with (es + (a + block_len nc)) by lia.
  rewrite IH. apply f_equal2; [|reflexivity].
  unfold seen_item, it_offset, it_size, it_hash. cbn [fst snd].
  generalize (sip_hash (fst nc)) as hh. intros hh.
  generalize (block_len nc) as bl. intros bl.
  apply f_equal2; [apply f_equal2|reflexivity]; lia.
Qed.

Lemma check_dir_goodbye t cs es :
  let n0 := elems_len (head_elems t) in
  let n := n0 + blocks_len cs in
  let table := dir_table t cs in
  let all := table ++ [(n, 16 + N.of_nat (length table) * 24 + 24, CaFormatGoodbyeTailMarker)] in
  forall h,
  check_goodbye es (es + n) (es + n + enc_len (Goodbye h all)) all (seen_from (es + n0) cs) = true.
Proof.
  intros n0 n table all h. unfold check_goodbye. unfold all at 1. rewrite rev_app_distr. cbn [rev app].
  rewrite rev_involutive. rewrite expected_items. fold n0 in table.
  set (items := fix_items n (items_from n0 cs)).
  assert (Et : table = goodbye_table items) by reflexivity.
  destruct (goodbye_table_perm items) as (Hperm & Hlen & Hmk). rewrite <- Et in *.
  destruct (bst_inorder_proof items) as (out & E & _ & Hin & _).
  rewrite Hmk in E. inversion E; subst out. clear E.
  rewrite !andb_true_iff. repeat split.
  - rewrite enc_len_goodbye. unfold all. rewrite app_length. cbn [length].
    replace (es + n - es) with n by lia.
    replace (es + n + (16 + 24 * N.of_nat (length table + 1)) - (es + n)) with (16 + N.of_nat (length table) * 24 + 24) by lia.
    apply item_eqb_refl.
  - rewrite Hlen. apply Nat.eqb_refl.
  - rewrite Hin. apply items_eqb_refl.
  - apply forallb_forall. intros x Hx.
    destruct (bst_lookup_proof items table Hmk x Hx) as (j & y & El & _ & _ & Eh & _).
    rewrite El. apply N.eqb_eq. exact Eh.
Qed.

(* ---------- the reader returns the tree ---------- *)
Lemma parse_node_S_entry ord f es ee t l1 :
  parse_node ord (S f) ((es, ee, entry_elem t) :: l1) =
    let mode := type_bits t + m_perm (node_meta t) in
    if negb ((TarFeatureFlags =? TarFeatureFlags) && (0 =? 0)) then None
    else
      let ty := N.land mode S_IFMT in
      let m := mkMeta (N.land mode PERM_MASK) (m_uid (node_meta t)) (m_gid (node_meta t)) (m_mtime (node_meta t)) in
      if negb (mode =? ty + N.land mode PERM_MASK) then None
      else
        match take_xattrs l1 None ee with
        | None => None
        | Some (xs, le, l2) =>
            if ty =? S_IFREG then
              match l2 with
              | (_, e, Payload _ data) :: l3 => Some (NFile m xs data, e, l3)
              | _ => None
              end
            else if ty =? S_IFLNK then
              match l2 with
              | (_, e, Symlink _ target) :: l3 =>
                  if negb (has_nul target) && (1 <=? lenN target) then Some (NSymlink m xs target, e, l3) else None
              | _ => None
              end
            else if (ty =? S_IFCHR) || (ty =? S_IFBLK) then
              match l2 with
              | (_, e, Device _ major minor) :: l3 => Some (NDevice m xs (ty =? S_IFCHR) major minor, e, l3)
              | _ => None
              end
            else if (ty =? S_IFIFO) || (ty =? S_IFSOCK) then Some (NOther m xs (ty =? S_IFSOCK), le, l2)
            else if ty =? S_IFDIR then parse_children ord f l2 es m xs None []
            else None
        end.
Proof. reflexivity. Qed.

(* what the reader sees after the entry of a good node, up to the point where the node types differ *)
Lemma parse_head ord t tail_elems f p rest : good ord t ->
  not_xattr_head (posd (p + elems_len (head_elems t)) tail_elems ++ rest) ->
  exists le,
  parse_node ord (S f) (posd p (head_elems t ++ tail_elems) ++ rest) =
    let ty := type_bits t in
    let m := node_meta t in
    let xs := map view_x (node_xattrs t) in
    let l2 := posd (p + elems_len (head_elems t)) tail_elems ++ rest in
    if ty =? S_IFREG then
      match l2 with
      | (_, e, Payload _ data) :: l3 => Some (NFile m xs data, e, l3)
      | _ => None
      end
    else if ty =? S_IFLNK then
      match l2 with
      | (_, e, Symlink _ target) :: l3 =>
          if negb (has_nul target) && (1 <=? lenN target) then Some (NSymlink m xs target, e, l3) else None
      | _ => None
      end
    else if (ty =? S_IFCHR) || (ty =? S_IFBLK) then
      match l2 with
      | (_, e, Device _ major minor) :: l3 => Some (NDevice m xs (ty =? S_IFCHR) major minor, e, l3)
      | _ => None
      end
    else if (ty =? S_IFIFO) || (ty =? S_IFSOCK) then Some (NOther m xs (ty =? S_IFSOCK), le, l2)
    else if ty =? S_IFDIR then parse_children ord f l2 p m xs None []
    else None.
Proof.
  intros Hg Hnx. destruct (good_head ord t Hg) as (Hm & Hx & Ha).
  destruct Hm as (Hperm & _).
  destruct (mode_split (type_bits t) (m_perm (node_meta t)) (type_bits_in t) Hperm) as (Ety & Eperm).
  unfold head_elems. rewrite (sort_xattrs_sorted _ Ha).
  cbn [app posd]. rewrite posd_app. rewrite <- app_assoc.
  destruct (take_xattrs_ok (node_xattrs t) Hx None (p + enc_len (entry_elem t)) (p + enc_len (entry_elem t))
              (posd (p + enc_len (entry_elem t) + elems_len (map xattr_elem (node_xattrs t))) tail_elems ++ rest) Ha) as (le & Etx).
  { unfold head_elems in Hnx. rewrite (sort_xattrs_sorted _ Ha) in Hnx. cbn [elems_len fold_right] in Hnx.
    fold (elems_len (map xattr_elem (node_xattrs t))) in Hnx.
    replace (p + enc_len (entry_elem t) + elems_len (map xattr_elem (node_xattrs t)))
       with (p + (enc_len (entry_elem t) + elems_len (map xattr_elem (node_xattrs t)))) by lia. exact Hnx. }
  exists le. rewrite parse_node_S_entry. cbv zeta. rewrite !N.eqb_refl. cbn [andb negb].
  rewrite Ety, Eperm, N.eqb_refl. cbn [negb]. rewrite Etx.
  assert (Em : mkMeta (m_perm (node_meta t)) (m_uid (node_meta t)) (m_gid (node_meta t)) (m_mtime (node_meta t)) = node_meta t)
    by (destruct (node_meta t); reflexivity).
  rewrite Em. cbn [elems_len fold_right]. fold (elems_len (map xattr_elem (node_xattrs t))).
  replace (p + (enc_len (entry_elem t) + elems_len (map xattr_elem (node_xattrs t))))
     with (p + enc_len (entry_elem t) + elems_len (map xattr_elem (node_xattrs t))) by lia.
  reflexivity.
Qed.

Lemma seen_children cs : forall p,
  map seen_child (seen_from p cs) = map (fun nc : bytes * node => (fst nc, casync_view (snd nc))) cs.
Proof. induction cs as [|nc r IH]; intros p; [reflexivity|]. cbn [seen_from map seen_child]. rewrite IH. reflexivity. Qed.

Lemma view_children cs :
  flat_map (fun nc : bytes * node => if is_other (snd nc) then [] else [(fst nc, casync_view (snd nc))]) cs =
  map (fun nc : bytes * node => (fst nc, casync_view (snd nc))) (kept cs).
Proof.
  induction cs as [|nc r IH]; [reflexivity|]. cbn [flat_map]. unfold kept. cbn [filter]. fold (kept r).
  destruct (is_other (snd nc)); cbn [negb app map]; rewrite IH; reflexivity.
Qed.

Theorem parse_ok : forall ord t, parse_prop ord t.
Proof.
  intros ord. induction t as [m xs cs IH|m xs d|m xs tg|m xs c ma mi|m xs s] using node_ind'; intros Hg fuel p rest Hf.
  - (* directory *)
    unfold tar_model in *. rewrite tar_node_dir in *. cbn [fst] in *.
    destruct fuel as [|f]; [lia|].
    set (t := NDir m xs cs) in *.
    destruct (parse_head ord t (flat_map block (kept cs) ++ [dir_goodbye t (kept cs)]) f p rest Hg) as (le & E).
    { destruct (kept cs) as [|[name c] r]; cbn; exact I. }
    rewrite E. clear E. cbv zeta.
    replace (type_bits t) with S_IFDIR by reflexivity.
    replace (S_IFDIR =? S_IFREG) with false by reflexivity.
    replace (S_IFDIR =? S_IFLNK) with false by reflexivity.
    replace (S_IFDIR =? S_IFCHR) with false by reflexivity.
    replace (S_IFDIR =? S_IFBLK) with false by reflexivity.
    replace (S_IFDIR =? S_IFIFO) with false by reflexivity.
    replace (S_IFDIR =? S_IFSOCK) with false by reflexivity.
    replace (S_IFDIR =? S_IFDIR) with true by reflexivity. cbn [orb].
    destruct (good_dir_kept _ _ _ _ Hg) as [Hcs Hasc].
    apply Forall_kept in IH.
    unfold dir_goodbye at 1. cbv zeta.
    rewrite !app_length in Hf. cbn [length] in Hf. unfold head_elems in Hf. cbn [length] in Hf.
    rewrite (parse_children_ok ord (kept cs) IH Hcs None Hasc f) by lia.
    cbn [app].
    replace (p + elems_len (head_elems t) + blocks_len (kept cs)) with (p + (elems_len (head_elems t) + blocks_len (kept cs))) by lia.
    rewrite (check_dir_goodbye t (kept cs) p).
    rewrite seen_children. f_equal. f_equal.
    fold (dir_goodbye t (kept cs)). rewrite !elems_len_app, <- blocks_len_elems. cbn [elems_len fold_right].
    generalize (enc_len (dir_goodbye t (kept cs))) (blocks_len (kept cs)) (elems_len (head_elems t)). intros a b c.
    apply f_equal2; [|lia].
    unfold t. cbn [casync_view]. rewrite view_children. reflexivity.
  - (* regular file *)
    unfold tar_model in *. cbn [tar_node tar_node_v fst] in *. destruct fuel as [|f]; [lia|].
    set (t := NFile m xs d) in *.
    destruct (parse_head ord t [Payload (mkHeader (16 + lenN d) CaFormatPayload) d] f p rest Hg I) as (le & E).
    rewrite E. clear E. cbv zeta.
    replace (type_bits t) with S_IFREG by reflexivity.
    replace (S_IFREG =? S_IFREG) with true by reflexivity.
    cbn [posd app]. rewrite elems_len_app. cbn [elems_len fold_right].
    apply f_equal. apply f_equal2; [apply f_equal2; [reflexivity|lia]|reflexivity].
  - (* symlink *)
    unfold tar_model in *. cbn [tar_node tar_node_v fst] in *. destruct fuel as [|f]; [lia|].
    set (t := NSymlink m xs tg) in *.
    destruct (parse_head ord t [Symlink (mkHeader (16 + lenN tg + 1) CaFormatSymlink) tg] f p rest Hg I) as (le & E).
    rewrite E. clear E. cbv zeta.
    replace (type_bits t) with S_IFLNK by reflexivity.
    replace (S_IFLNK =? S_IFREG) with false by reflexivity.
    replace (S_IFLNK =? S_IFLNK) with true by reflexivity.
    cbn [posd app]. inversion Hg as [| |? ? ? _ _ _ Hn Hl _|]; subst.
    rewrite Hn. cbn [negb andb]. replace (1 <=? lenN tg) with true by (symmetry; apply N.leb_le; exact Hl).
    rewrite elems_len_app. cbn [elems_len fold_right].
    apply f_equal. apply f_equal2; [apply f_equal2; [reflexivity|lia]|reflexivity].
  - (* device *)
    unfold tar_model in *. cbn [tar_node tar_node_v fst] in *. destruct fuel as [|f]; [lia|].
    set (t := NDevice m xs c ma mi) in *.
    destruct (parse_head ord t [Device (mkHeader 32 CaFormatDevice) ma mi] f p rest Hg I) as (le & E).
    rewrite E. clear E. cbv zeta.
    replace (type_bits t) with (if c then S_IFCHR else S_IFBLK) by reflexivity.
    destruct c.
    + replace (S_IFCHR =? S_IFREG) with false by reflexivity.
      replace (S_IFCHR =? S_IFLNK) with false by reflexivity.
      replace (S_IFCHR =? S_IFCHR) with true by reflexivity. cbn [orb].
      cbn [posd app]. rewrite elems_len_app. cbn [elems_len fold_right]. apply f_equal. apply f_equal2; [apply f_equal2; [reflexivity|lia]|reflexivity].
    + replace (S_IFBLK =? S_IFREG) with false by reflexivity.
      replace (S_IFBLK =? S_IFLNK) with false by reflexivity.
      replace (S_IFBLK =? S_IFCHR) with false by reflexivity.
      replace (S_IFBLK =? S_IFBLK) with true by reflexivity. cbn [orb].
      cbn [posd app]. rewrite elems_len_app. cbn [elems_len fold_right]. apply f_equal. apply f_equal2; [apply f_equal2; [reflexivity|lia]|reflexivity].
  - inversion Hg.
Qed.

Lemma elems_count_le es : (length es <= length (encode_elems es))%nat.
Proof.
  induction es as [|e r IH]; [cbn; lia|].
  cbn [encode_elems flat_map length]. fold (encode_elems r). rewrite app_length.
  pose proof (encode_elem_length e). lia.
Qed.

(* Every archive tar() writes for a good tree is accepted by the format-rule reader, which
   returns the tree (xattr values as casync reads them). *)
Theorem tar_wellformed_proof : forall ord t, good ord t -> snd (tar_node t) < two64 ->
  validate ord (tar_bytes t) = Some (casync_view t).
Proof.
  intros ord t Hg Hb. unfold validate, tar_bytes.
  rewrite (scan_encode _ (tar_wf ord t Hg Hb)) by (pose proof (elems_count_le (tar_model t)); lia).
  rewrite posd_length.
  pose proof (parse_ok ord t Hg (S (length (tar_model t))) 0 [] ltac:(lia)) as E.
  rewrite app_nil_r in E. rewrite E. reflexivity.
Qed.

(* ---------- offsets and sizes in the goodbye table are distances in the written bytes ---------- *)
Definition block_bytes (nc : bytes * node) : bytes :=
  encode_elem (filename_elem (fst nc)) ++ tar_bytes (snd nc).

(* the item of each child, from byte counts only: G = where the GOODBYE starts, F = where the
   child's FILENAME starts *)
Fixpoint true_items (G F : N) (cs : list (bytes * node)) : list item :=
  match cs with
  | [] => []
  | nc :: r => (G - F, lenN (block_bytes nc), sip_hash (fst nc)) :: true_items G (F + lenN (block_bytes nc)) r
  end.

Lemma encode_elems_app a b : encode_elems (a ++ b) = encode_elems a ++ encode_elems b.
Proof. unfold encode_elems. apply flat_map_app. Qed.

Lemma block_bytes_encode nc : encode_elems (block nc) = block_bytes nc.
Proof. reflexivity. Qed.

Lemma blocks_bytes_encode cs : encode_elems (flat_map block cs) = flat_map block_bytes cs.
Proof.
  induction cs as [|nc r IH]; [reflexivity|].
  cbn [flat_map]. rewrite encode_elems_app, IH. reflexivity.
Qed.

Lemma block_bytes_len nc : lenN (block_bytes nc) = block_len nc.
Proof. rewrite <- block_bytes_encode, <- elems_len_encode, block_len_elems. reflexivity. Qed.

Lemma true_items_eq n cs : forall a, true_items n a cs = fix_items n (items_from a cs).
Proof.
  induction cs as [|nc r IH]; intros a; [reflexivity|].
  cbn [true_items items_from]. unfold fix_items. cbn [map]. fold (fix_items n (items_from (a + block_len nc) r)).
  rewrite block_bytes_len, IH. unfold it_offset, it_size, it_hash. cbn [fst snd]. reflexivity.
Qed.

Lemma lenN_goodbye h items : lenN (encode_elem (Goodbye h items)) = 16 + 24 * N.of_nat (length items).
Proof. exact (enc_len_goodbye h items). Qed.

Theorem tar_offsets_proof : forall m xs cs,
  let t := NDir m xs cs in
  let ks := kept cs in
  let before := encode_elems (head_elems t) ++ flat_map block_bytes ks in
  let G := lenN before in
  exists table tail_size h,
    tar_bytes t = before ++ encode_elem (Goodbye h (table ++ [(G, tail_size, CaFormatGoodbyeTailMarker)])) /\
    tail_size = lenN (encode_elem (Goodbye h (table ++ [(G, tail_size, CaFormatGoodbyeTailMarker)]))) /\
    h_size h = tail_size /\
    Permutation table (true_items G (lenN (encode_elems (head_elems t))) ks) /\
    snd (tar_node t) = lenN (tar_bytes t).
Proof.
  intros m xs cs t ks before G.
  assert (EG : G = elems_len (head_elems t) + blocks_len ks).
  { unfold G, before. rewrite lenN_app, <- elems_len_encode, <- blocks_bytes_encode, <- elems_len_encode, <- blocks_len_elems. reflexivity. }
  exists (dir_table t ks), (16 + N.of_nat (length (dir_table t ks)) * 24 + 24),
         (mkHeader (16 + N.of_nat (length (dir_table t ks ++ [(G, 16 + N.of_nat (length (dir_table t ks)) * 24 + 24, CaFormatGoodbyeTailMarker)])) * 24) CaFormatGoodbye).
  split; [|split; [|split; [|split]]].
  - unfold tar_bytes, tar_model, t. rewrite tar_node_dir. cbn [fst].
    rewrite !encode_elems_app, blocks_bytes_encode. fold t. fold ks. unfold before. rewrite <- app_assoc. do 2 f_equal.
    unfold dir_goodbye. cbv zeta. rewrite <- EG. cbn [encode_elems flat_map]. rewrite app_nil_r. reflexivity.
  - rewrite lenN_goodbye, app_length. cbn [length]. clear EG. clearbody ks. subst G before t. unfold gitem, item. generalize (@length (N * N * N) (dir_table (NDir m xs cs) ks)). intros k. lia.
  - cbn [h_size]. rewrite app_length. cbn [length]. clear EG. clearbody ks. subst G before t. unfold gitem, item. generalize (@length (N * N * N) (dir_table (NDir m xs cs) ks)). intros k. lia.
  - unfold dir_table. cbv zeta. rewrite true_items_eq, <- elems_len_encode, EG.
    apply (proj1 (goodbye_table_perm _)).
  - rewrite tar_counter. apply elems_len_encode.
Qed.

(* ---------- what the faithful model shows about FIFOs and xattr values ---------- *)
Definition ex_meta : meta := mkMeta 420 1000 1000 1600000000123456789.
(* a directory holding a FIFO "a" and a file "b" *)
Definition ex_fifo_tree : node := NDir ex_meta [] [([97], NOther ex_meta [] false); ([98], NFile ex_meta [] [])].
(* a file with the xattr user.a = "v" *)
Definition ex_xattr_tree : node := NDir ex_meta [] [([97], NFile ex_meta [([117; 115; 101; 114; 46; 97], [118])] [1; 2; 3])].

Lemma good_ex_meta : good_meta ex_meta.
Proof. unfold good_meta, ex_meta, w64; cbn; lia. Qed.

(* before commit 0d1baa3 the FIFO left a FILENAME without ENTRY; now it is simply left out *)
Lemma tar_fifo_prefix_refuted_proof : validate true (tar_bytes_v TarPreSkipFix ex_fifo_tree) = None.
Proof. vm_compute. reflexivity. Qed.

Lemma tar_fifo_fixed_proof : good true ex_fifo_tree /\
  validate true (tar_bytes ex_fifo_tree) = Some (NDir ex_meta [] [([98], NFile ex_meta [] [])]).
Proof.
  split; [|vm_compute; reflexivity].
  apply good_dir; [exact good_ex_meta|constructor|exact I| |intros _; cbn; auto].
  constructor; [|constructor; [|constructor]]; cbn [fst snd].
  - split; [reflexivity|left; reflexivity].
  - split; [reflexivity|right]. apply good_file; [exact good_ex_meta|constructor|exact I|cbn; lia].
Qed.

Lemma tar_xattr_refuted_proof : good true ex_xattr_tree /\ validate true (tar_bytes ex_xattr_tree) <> Some ex_xattr_tree.
Proof.
  split.
  - apply good_dir; [exact good_ex_meta|constructor|exact I| |intros _; cbn; auto].
    constructor; [|constructor]. cbn [fst snd]. split; [reflexivity|right].
    apply good_file; [exact good_ex_meta| |cbn; auto|cbn; lia].
    constructor; [|constructor]. unfold good_xattr. cbn [fst snd]. split; [discriminate|]. split; [reflexivity|cbn; lia].
  - vm_compute. discriminate.
Qed.
