From Coq Require Import List NArith Arith Bool Lia.
From DS Require Import Base.Bytes Base.Hash Base.Sched Model.Pool Model.BulkWrite Model.CtxBound
     Proofs.PoolProofs Proofs.BulkWriteProofs.
Import ListNotations.

Section CtxBoundProofs.
  Variable H : bytes -> id.
  Variable mode : bmode.
  Variable jobs : list (id * bytes).
  Variable src : id -> option bytes.
  Variable fault : op_kind -> nat -> bool.
  Variable can_cancel : bool.
  Variable store0 : store.
  Notation step := (cb_step H mode jobs src fault can_cancel).

  (* every step of the context-bound system is a BulkWrite step under some oracle, and BulkWrite's
     invariants are preserved by a step under any oracle *)
  Lemma cb_run_inv nw sched : BInv H mode jobs (run step sched (binit store0 nw)).
  Proof.
    apply inv_run with (Inv := BInv H mode jobs).
    - intros s t s' I E. unfold cb_step in E. eapply step_inv; eauto.
    - apply init_inv.
  Qed.

  Lemma cb_run_vinv nw sched :
    store_ok H store0 -> (mode = MCopy -> src_ok H src) ->
    VInv H mode jobs (run step sched (binit store0 nw)).
  Proof.
    intros Hs Hsrc. apply inv_run with (Inv := VInv H mode jobs).
    - intros s t s' I E. unfold cb_step in E. eapply step_vinv; eauto.
    - apply init_vinv. exact Hs.
  Qed.

  (* a request that fails because the context is done is a delivered failure: it surfaces as an error *)
  Theorem cb_fail_reported nw sched :
    let s := run step sched (binit store0 nw) in
    bfinal s = true -> 0 < b_hits s -> bulk_result s = RErr.
  Proof.
    intros s Hfin Hh. assert (I := cb_run_inv nw sched). fold s in I.
    unfold bulk_result. destruct (b_failed s) eqn:Efl; [reflexivity|].
    exfalso. eapply final_not_doomed; eauto. apply (v_hits _ _ _ _ I). exact Hh.
  Qed.

  (* nil => complete, also with context-bound stores, for every schedule and cancellation point *)
  Theorem cb_complete nw sched :
    store_ok H store0 -> (mode = MCopy -> src_ok H src) ->
    let s := run step sched (binit store0 nw) in
    bfinal s = true -> bulk_result s = RNil ->
    forall k, k < njobs jobs ->
      exists b, lookup (b_store s) (jid H mode jobs k) = Some b /\ H b = jid H mode jobs k.
  Proof.
    intros Hs Hsrc s Hfin Hres k Hk. assert (I := cb_run_inv nw sched). fold s in I.
    assert (Hp : has (b_store s) (jid H mode jobs k) = true).
    { unfold bulk_result in Hres. destruct (b_failed s) eqn:Efl; [discriminate|].
      assert (Hnd : ~ doomed s) by (eapply final_not_doomed; eauto).
      unfold bfinal in Hfin. destruct (b_feeder s) as [|[|]] eqn:Efd; try discriminate.
      assert (Hfed : b_fed s = njobs jobs) by (apply (v_closed _ _ _ _ I); exact Efd).
      assert (Hc := v_cover _ _ _ _ I k). rewrite Hfed in Hc. specialize (Hc Hk).
      destruct Hc as [Hd|[Hx|Hf]]; [| |congruence].
      - destruct (v_done _ _ _ _ I k Hd) as [_ [Hst|[Hp|Hdm]]]; [exact Hst| |contradiction].
        destruct (v_proc _ _ _ _ I _ Hp) as [Hst|[Hx|Hdm]]; [exact Hst| |contradiction].
        exfalso. eapply all_exited_exw; eauto. cbn. tauto.
      - exfalso. eapply all_exited_exw; eauto. unfold holds. cbn. discriminate. }
    apply has_lookup in Hp. destruct Hp as [b Eb]. exists b. split; [exact Eb|].
    eapply (vv_store _ _ _ _ (cb_run_vinv nw sched Hs Hsrc)). exact Eb.
  Qed.
End CtxBoundProofs.
