(* Lemmas about the element codec (Model/Format.v): reader primitives on
   concatenations, and decode-after-encode for every element type. *)
From Coq Require Import List NArith Arith Bool Lia ZifyN ZifyNat ZifyBool.
From DS Require Import Gen.Constants Base.Bytes Base.LE64 Model.Format.
Import ListNotations.
Local Open Scope N_scope.

(* ---------- take_exact / take_upto ---------- *)

Lemma take_exact_app a r : take_exact (length a) (a ++ r) = Some (a, r).
Proof. induction a as [|x a IH]; cbn [length take_exact app]; [reflexivity|]. now rewrite IH. Qed.

Lemma take_exact_some n : forall l a r, take_exact n l = Some (a, r) -> l = a ++ r /\ length a = n.
Proof.
  induction n as [|n IH]; intros l a r E; cbn [take_exact] in E.
  - inversion E; subst. split; reflexivity.
  - destruct l as [|x t]; [discriminate|].
    destruct (take_exact n t) as [[a' r']|] eqn:E'; [|discriminate].
    inversion E; subst. destruct (IH _ _ _ E') as [-> Hl]. split; [reflexivity|]. cbn [length]. now rewrite Hl.
Qed.

Lemma take_exact_none n : forall l, take_exact n l = None -> (length l < n)%nat.
Proof.
  induction n as [|n IH]; intros l E; cbn [take_exact] in E; [discriminate|].
  destruct l as [|x t]; [cbn; lia|].
  destruct (take_exact n t) as [[a' r']|] eqn:E'; [discriminate|].
  cbn [length]. apply IH in E'. lia.
Qed.

Lemma take_exact_ge n : forall l, (n <= length l)%nat -> take_exact n l = Some (firstn n l, skipn n l).
Proof.
  induction n as [|n IH]; intros l Hl; cbn [take_exact firstn skipn]; [reflexivity|].
  destruct l as [|x t]; [cbn in Hl; lia|]. cbn [length] in Hl. rewrite IH by lia. reflexivity.
Qed.

Lemma take_upto_spec : forall l n, take_upto n l = (firstn (N.to_nat n) l, skipn (N.to_nat n) l).
Proof.
  induction l as [|x t IH]; intros n; cbn [take_upto].
  - now rewrite firstn_nil, skipn_nil.
  - destruct (n =? 0) eqn:E.
    + apply N.eqb_eq in E. subst. reflexivity.
    + apply N.eqb_neq in E. rewrite IH.
      replace (N.to_nat n) with (S (N.to_nat (N.pred n))) by lia. reflexivity.
Qed.

Lemma take_upto_app a r : take_upto (lenN a) (a ++ r) = (a, r).
Proof.
  rewrite take_upto_spec. unfold lenN. rewrite Nat2N.id.
  rewrite firstn_app, firstn_all, Nat.sub_diag, firstn_O, app_nil_r.
  rewrite skipn_app, skipn_all, Nat.sub_diag. reflexivity.
Qed.

Lemma take_upto_parts n l a r : take_upto n l = (a, r) -> l = a ++ r /\ lenN a = N.min n (lenN l).
Proof.
  rewrite take_upto_spec. intros E. inversion E; subst. split; [symmetry; apply firstn_skipn|].
  unfold lenN. rewrite firstn_length. lia.
Qed.

(* ---------- runs that succeed (allocation ignored) ---------- *)

Definition okrun {A} (m : M A) (s : bytes) (x : A) (s' : bytes) : Prop := exists a, m s = (Ok x, s', a).

Lemma okrun_ret {A} (x : A) s : okrun (ret x) s x s.
Proof. exists 0. reflexivity. Qed.

Lemma okrun_bind {A B} (m : M A) (f : A -> M B) s x s1 y s2 :
  okrun m s x s1 -> okrun (f x) s1 y s2 -> okrun (bind m f) s y s2.
Proof. intros [a1 E1] [a2 E2]. exists (a1 + a2). unfold bind. now rewrite E1, E2. Qed.

Lemma okrun_charge n s : okrun (charge n) s tt s.
Proof. exists n. reflexivity. Qed.

Lemma okrun_det {A} (m : M A) s x s1 y s2 : okrun m s x s1 -> okrun m s y s2 -> x = y /\ s1 = s2.
Proof. intros [a1 E1] [a2 E2]. rewrite E1 in E2. inversion E2. split; reflexivity. Qed.

Lemma read_full_app a r : read_full (length a) (a ++ r) = (Ok a, r, 0).
Proof. unfold read_full. now rewrite take_exact_app. Qed.

Lemma okrun_read_full n a r : length a = n -> okrun (read_full n) (a ++ r) a r.
Proof. intros <-. exists 0. apply read_full_app. Qed.

Lemma okrun_read_u64 x r : x < two64 -> okrun read_u64 (le64 x ++ r) x r.
Proof.
  intros Hx. unfold read_u64. eapply okrun_bind.
  - apply okrun_read_full. apply le64_length.
  - cbv beta. rewrite un_le64_le64, u64_small by assumption. apply okrun_ret.
Qed.

Lemma okrun_read_id id r : length id = 32%nat -> okrun read_id (id ++ r) id r.
Proof. intros. unfold read_id. now apply okrun_read_full. Qed.

Lemma okrun_read_header sz ty r :
  sz < two64 -> ty < two64 -> okrun read_header (le64 sz ++ le64 ty ++ r) (Some (mkHeader sz ty)) r.
Proof.
  intros Hs Ht. destruct (okrun_read_u64 sz (le64 ty ++ r) Hs) as [a1 E1].
  destruct (okrun_read_u64 ty r Ht) as [a2 E2].
  exists (a1 + a2). unfold read_header. now rewrite E1, E2.
Qed.

Lemma okrun_make_read_full a r : lenN a <= maxAlloc -> okrun (make_read_full (lenN a)) (a ++ r) a r.
Proof.
  intros Hm. exists (lenN a). unfold make_read_full.
  replace (maxAlloc <? lenN a) with false by (symmetry; apply N.ltb_ge; assumption).
  rewrite take_upto_app, N.eqb_refl. reflexivity.
Qed.

Lemma okrun_read_n a r : lenN a <= MaxInt64 -> okrun (read_n Fixed (lenN a)) (a ++ r) a r.
Proof.
  intros Hm. unfold read_n.
  replace (MaxInt64 <? lenN a) with false by (symmetry; apply N.ltb_ge; assumption).
  destruct (lenN a <=? 65536) eqn:E.
  - apply okrun_make_read_full. apply N.leb_le in E. unfold maxAlloc. lia.
  - exists (lenN a). rewrite take_upto_app, N.ltb_irrefl. reflexivity.
Qed.

Lemma okrun_read_body hdr consumed mn a r :
  h_size hdr = consumed + lenN a -> mn <= lenN a -> lenN a <= MaxInt64 -> consumed <= 32 ->
  okrun (read_body Fixed hdr consumed mn) (a ++ r) a r.
Proof.
  intros Hs Hmn Hmax Hc. unfold read_body. rewrite Hs.
  assert (Hsub : sub64 (consumed + lenN a) consumed = lenN a) by (rewrite sub64_exact by lia; lia).
  rewrite Hsub.
  replace (consumed + lenN a <? consumed) with false by (symmetry; apply N.ltb_ge; lia).
  replace (lenN a <? mn) with false by (symmetry; apply N.ltb_ge; lia).
  cbn [orb]. now apply okrun_read_n.
Qed.

Lemma lenN_app a b : lenN (a ++ b) = lenN a + lenN b.
Proof. unfold lenN. rewrite app_length. lia. Qed.

Lemma okrun_read_string hdr consumed s r :
  h_size hdr = consumed + lenN s + 1 -> lenN s + 1 <= MaxInt64 -> consumed <= 32 ->
  okrun (read_string Fixed hdr consumed) (s ++ 0 :: r) s r.
Proof.
  intros Hs Hmax Hc. replace (s ++ 0 :: r) with ((s ++ [0]) ++ r) by (now rewrite <- app_assoc).
  unfold read_string. eapply okrun_bind.
  - apply okrun_read_body; rewrite ?lenN_app; change (lenN [0]) with 1; lia.
  - cbv beta. unfold strip_last. destruct (s ++ [0]) eqn:E.
    + destruct s; discriminate.
    + rewrite <- E. rewrite removelast_last. apply okrun_ret.
Qed.

(* ---------- loops over encoded items ---------- *)

Lemma okrun_goodbye_loop : forall items fuel acc r,
  Forall wf_gitem items -> (length items <= fuel)%nat ->
  okrun (goodbye_loop fuel (N.of_nat (length items)) acc) (flat_map enc_gitem items ++ r) (rev acc ++ items) r.
Proof.
  induction items as [|[[o s] h] items IH]; intros fuel acc r Hwf Hfuel.
  - cbn [length flat_map app]. destruct fuel; cbn [goodbye_loop N.of_nat N.eqb]; rewrite app_nil_r; apply okrun_ret.
  - inversion Hwf as [|? ? Hi Hwf']; subst. destruct Hi as [Ho [Hs Hh]].
    destruct fuel as [|fuel]; [cbn in Hfuel; lia|].
    cbn [goodbye_loop].
    replace (N.of_nat (length ((o, s, h) :: items)) =? 0) with false by (symmetry; apply N.eqb_neq; cbn [length]; lia).
    cbn [flat_map enc_gitem]. unfold le64s. cbn [flat_map]. rewrite <- !app_assoc. cbn [app].
    eapply okrun_bind; [apply okrun_read_u64; exact Ho|cbv beta].
    eapply okrun_bind; [apply okrun_read_u64; exact Hs|cbv beta].
    eapply okrun_bind; [apply okrun_read_u64; exact Hh|cbv beta].
    eapply okrun_bind; [apply okrun_charge|cbv beta].
    cbn [length]. rewrite Nat2N.inj_succ, N.pred_succ.
    assert (Hf : (length items <= fuel)%nat) by (cbn [length] in Hfuel; lia).
    pose proof (IH fuel ((o, s, h) :: acc) r Hwf' Hf) as IH'. cbn [rev] in IH'. rewrite <- app_assoc in IH'. exact IH'.
Qed.

Lemma okrun_table_loop : forall items fuel acc r,
  Forall wf_titem items -> (length items < fuel)%nat ->
  okrun (table_loop fuel acc) (enc_titems items ++ le64 0 ++ r) (rev acc ++ items) r.
Proof.
  induction items as [|[o id] items IH]; intros fuel acc r Hwf Hfuel.
  - destruct fuel as [|fuel]; [lia|]. cbn [table_loop enc_titems flat_map app].
    eapply okrun_bind; [apply okrun_read_u64; lia|cbv beta].
    cbn [N.eqb]. rewrite app_nil_r. apply okrun_ret.
  - inversion Hwf as [|? ? Hi Hwf']; subst. destruct Hi as [Ho [Hnz Hid]].
    destruct fuel as [|fuel]; [cbn in Hfuel; lia|].
    cbn [table_loop enc_titems flat_map enc_titem]. rewrite <- !app_assoc.
    eapply okrun_bind; [apply okrun_read_u64; exact Ho|cbv beta].
    replace (o =? 0) with false by (symmetry; now apply N.eqb_neq).
    eapply okrun_bind; [apply okrun_read_id; exact Hid|cbv beta].
    eapply okrun_bind; [apply okrun_charge|cbv beta].
    assert (Hf : (length items < fuel)%nat) by (cbn [length] in Hfuel; lia).
    pose proof (IH fuel ((o, id) :: acc) r Hwf' Hf) as IH'. cbn [rev] in IH'. rewrite <- app_assoc in IH'. exact IH'.
Qed.

Lemma enc_titems_length items :
  Forall wf_titem items -> length (enc_titems items) = (40 * length items)%nat.
Proof.
  induction 1 as [|[o id] items Hi _ IH]; [reflexivity|]. destruct Hi as [_ [_ Hid]].
  cbn [enc_titems flat_map enc_titem length]. rewrite !app_length, le64_length, Hid.
  unfold enc_titems in IH. rewrite IH. lia.
Qed.

Lemma enc_gitems_length items : length (flat_map enc_gitem items) = (24 * length items)%nat.
Proof.
  induction items as [|[[o s] h] items IH]; [reflexivity|].
  cbn [flat_map enc_gitem length]. rewrite app_length, le64s_length, IH. cbn [length]. lia.
Qed.

(* ---------- the type switch, one equation per element type ---------- *)

Ltac type_eq := intros; reflexivity.

Lemma next_body_entry v sz : next_body v (mkHeader sz CaFormatEntry) =
  if negb (sz =? 64) then fail InvalidFormat
  else do ff <- read_u64; do mode <- read_u64; do fl <- read_u64;
       do uid <- read_u64; do gid <- read_u64; do mtime <- read_u64;
       ret (Entry (mkHeader sz CaFormatEntry) ff mode fl uid gid mtime).
Proof. type_eq. Qed.
Lemma next_body_user v sz : next_body v (mkHeader sz CaFormatUser) =
  do b <- read_string v (mkHeader sz CaFormatUser) 16; ret (User (mkHeader sz CaFormatUser) b).
Proof. type_eq. Qed.
Lemma next_body_group v sz : next_body v (mkHeader sz CaFormatGroup) =
  do b <- read_string v (mkHeader sz CaFormatGroup) 16; ret (Group (mkHeader sz CaFormatGroup) b).
Proof. type_eq. Qed.
Lemma next_body_xattr v sz : next_body v (mkHeader sz CaFormatXAttr) =
  do b <- read_string v (mkHeader sz CaFormatXAttr) 16; ret (XAttr (mkHeader sz CaFormatXAttr) b).
Proof. type_eq. Qed.
Lemma next_body_selinux v sz : next_body v (mkHeader sz CaFormatSELinux) =
  do b <- read_string v (mkHeader sz CaFormatSELinux) 16; ret (SELinux (mkHeader sz CaFormatSELinux) b).
Proof. type_eq. Qed.
Lemma next_body_filename v sz : next_body v (mkHeader sz CaFormatFilename) =
  do b <- read_string v (mkHeader sz CaFormatFilename) 16; ret (Filename (mkHeader sz CaFormatFilename) b).
Proof. type_eq. Qed.
Lemma next_body_symlink v sz : next_body v (mkHeader sz CaFormatSymlink) =
  do b <- read_string v (mkHeader sz CaFormatSymlink) 16; ret (Symlink (mkHeader sz CaFormatSymlink) b).
Proof. type_eq. Qed.
Lemma next_body_device v sz : next_body v (mkHeader sz CaFormatDevice) =
  if negb (sz =? 32) then fail InvalidFormat
  else do major <- read_u64; do minor <- read_u64; ret (Device (mkHeader sz CaFormatDevice) major minor).
Proof. type_eq. Qed.
Lemma next_body_payload sz : next_body Fixed (mkHeader sz CaFormatPayload) =
  if (sz <? 16) || (MaxInt64 <? sub64 sz 16) then fail InvalidFormat
  else fun s => match take_upto (sub64 sz 16) s with
                | (a, r) => (Ok (Payload (mkHeader sz CaFormatPayload) a), r, 0)
                end.
Proof. type_eq. Qed.
Lemma next_body_fcaps v sz : next_body v (mkHeader sz CaFormatFCaps) =
  do b <- read_body v (mkHeader sz CaFormatFCaps) 16 0; ret (FCaps (mkHeader sz CaFormatFCaps) b).
Proof. type_eq. Qed.
Lemma next_body_acluser v sz : next_body v (mkHeader sz CaFormatACLUser) =
  do uid <- read_u64; do perm <- read_u64; do b <- read_string v (mkHeader sz CaFormatACLUser) 32;
  ret (ACLUser (mkHeader sz CaFormatACLUser) uid perm b).
Proof. type_eq. Qed.
Lemma next_body_aclgroup v sz : next_body v (mkHeader sz CaFormatACLGroup) =
  do gid <- read_u64; do perm <- read_u64; do b <- read_string v (mkHeader sz CaFormatACLGroup) 32;
  ret (ACLGroup (mkHeader sz CaFormatACLGroup) gid perm b).
Proof. type_eq. Qed.
Lemma next_body_aclgroupobj v sz : next_body v (mkHeader sz CaFormatACLGroupObj) =
  do perm <- read_u64; ret (ACLGroupObj (mkHeader sz CaFormatACLGroupObj) perm).
Proof. type_eq. Qed.
Lemma next_body_acldefault v sz : next_body v (mkHeader sz CaFormatACLDefault) =
  do u <- read_u64; do g <- read_u64; do o <- read_u64; do m <- read_u64;
  ret (ACLDefault (mkHeader sz CaFormatACLDefault) u g o m).
Proof. type_eq. Qed.
Lemma next_body_goodbye sz : next_body Fixed (mkHeader sz CaFormatGoodbye) =
  if sz <? 16 then fail InvalidFormat
  else
    do items <- with_input_fuel (fun fuel => goodbye_loop fuel (sub64 sz 16 / 24) []);
    match last_hash items with
    | Some h => if h =? CaFormatGoodbyeTailMarker then ret (Goodbye (mkHeader sz CaFormatGoodbye) items) else fail InvalidFormat
    | None => fail InvalidFormat
    end.
Proof. type_eq. Qed.
Lemma next_body_index v sz : next_body v (mkHeader sz CaFormatIndex) =
  do ff <- read_u64; do mn <- read_u64; do av <- read_u64; do mx <- read_u64;
  ret (Index (mkHeader sz CaFormatIndex) ff mn av mx).
Proof. type_eq. Qed.
Lemma next_body_table v sz : next_body v (mkHeader sz CaFormatTable) =
  if negb (sz =? MaxUint64) then fail InvalidFormat
  else
    do items <- with_input_fuel (fun fuel => table_loop fuel []);
    do fill2 <- read_u64;
    if negb (fill2 =? 0) then fail InvalidFormat
    else do _ <- read_u64; do _ <- read_u64; do marker <- read_u64;
         if negb (marker =? CaFormatTableTailMarker) then fail InvalidFormat
         else ret (Table (mkHeader sz CaFormatTable) items).
Proof. type_eq. Qed.

(* ---------- decode after encode, every element type ---------- *)

Ltac split_words := unfold le64s; cbn [flat_map]; rewrite <- ?app_assoc; cbn [app].
Ltac rd := eapply okrun_bind; [apply okrun_read_u64; assumption|cbv beta].

Lemma okrun_next_of_body e hdr rest r :
  w64 (h_size hdr) -> w64 (h_type hdr) ->
  okrun (next_body Fixed hdr) rest e r ->
  okrun (next Fixed) (le64 (h_size hdr) ++ le64 (h_type hdr) ++ rest) (Some e) r.
Proof.
  intros Hs Ht Hb. unfold next. eapply okrun_bind.
  - destruct hdr as [sz ty]. apply okrun_read_header; assumption.
  - cbv beta iota. eapply okrun_bind; [exact Hb|apply okrun_ret].
Qed.

Lemma string_size_w64 c s : c <= 32 -> lenN s + 1 <= MaxInt64 -> w64 (c + lenN s + 1).
Proof. unfold w64. lia. Qed.

Lemma const_w64 :
  w64 CaFormatEntry /\ w64 CaFormatUser /\ w64 CaFormatGroup /\ w64 CaFormatXAttr /\ w64 CaFormatSELinux /\
  w64 CaFormatFilename /\ w64 CaFormatSymlink /\ w64 CaFormatDevice /\ w64 CaFormatPayload /\ w64 CaFormatFCaps /\
  w64 CaFormatACLUser /\ w64 CaFormatACLGroup /\ w64 CaFormatACLGroupObj /\ w64 CaFormatACLDefault /\
  w64 CaFormatGoodbye /\ w64 CaFormatIndex /\ w64 CaFormatTable /\ w64 CaFormatTableTailMarker /\
  w64 CaFormatGoodbyeTailMarker.
Proof. unfold w64. repeat split; reflexivity. Qed.

Ltac cw := unfold w64; try reflexivity; try lia.

Lemma okrun_string_elem (mk : header -> bytes -> elem) typ consumed s r :
  (forall sz, next_body Fixed (mkHeader sz typ) =
     do b <- read_string Fixed (mkHeader sz typ) consumed; ret (mk (mkHeader sz typ) b)) ->
  w64 typ -> consumed <= 32 -> lenN s + 1 <= MaxInt64 ->
  okrun (next Fixed) (le64 (consumed + lenN s + 1) ++ le64 typ ++ s ++ 0 :: r)
        (Some (mk (mkHeader (consumed + lenN s + 1) typ) s)) r.
Proof.
  intros Hnb Ht Hc Hl.
  apply (okrun_next_of_body _ (mkHeader (consumed + lenN s + 1) typ)); cbn [h_size h_type]; [cw|exact Ht|].
  rewrite Hnb. eapply okrun_bind; [apply okrun_read_string; cbn [h_size]; lia|cbv beta; apply okrun_ret].
Qed.

Theorem next_encode e r : wf_elem e -> okrun (next Fixed) (encode_elem e ++ r) (Some e) r.
Proof.
  destruct e; cbn [wf_elem encode_elem]; intros Hwf.
  - (* Entry *)
    destruct Hwf as [-> [? [? [? [? [? ?]]]]]]. cbn [h_size h_type]. split_words.
    apply (okrun_next_of_body _ (mkHeader 64 CaFormatEntry)); [cw|cw|].
    rewrite next_body_entry. cbn [N.eqb Pos.eqb negb]. repeat rd. apply okrun_ret.
  - destruct Hwf as [-> Hl]. cbn [h_size h_type]. split_words.
    apply (okrun_string_elem User); [apply next_body_user|cw|lia|exact Hl].
  - destruct Hwf as [-> Hl]. cbn [h_size h_type]. split_words.
    apply (okrun_string_elem Group); [apply next_body_group|cw|lia|exact Hl].
  - destruct Hwf as [-> Hl]. cbn [h_size h_type]. split_words.
    apply (okrun_string_elem XAttr); [apply next_body_xattr|cw|lia|exact Hl].
  - destruct Hwf as [-> Hl]. cbn [h_size h_type]. split_words.
    apply (okrun_string_elem SELinux); [apply next_body_selinux|cw|lia|exact Hl].
  - destruct Hwf as [-> Hl]. cbn [h_size h_type]. split_words.
    apply (okrun_string_elem Filename); [apply next_body_filename|cw|lia|exact Hl].
  - destruct Hwf as [-> Hl]. cbn [h_size h_type]. split_words.
    apply (okrun_string_elem Symlink); [apply next_body_symlink|cw|lia|exact Hl].
  - (* Device *)
    destruct Hwf as [-> [? ?]]. cbn [h_size h_type]. split_words.
    apply (okrun_next_of_body _ (mkHeader 32 CaFormatDevice)); [cw|cw|].
    rewrite next_body_device. cbn [N.eqb Pos.eqb negb]. repeat rd. apply okrun_ret.
  - (* Payload *)
    destruct Hwf as [-> Hl]. cbn [h_size h_type]. split_words.
    apply (okrun_next_of_body _ (mkHeader (16 + lenN data) CaFormatPayload)); cbn [h_size h_type]; [cw|cw|].
    rewrite next_body_payload.
    assert (Hsub : sub64 (16 + lenN data) 16 = lenN data) by (rewrite sub64_exact by lia; lia).
    rewrite Hsub.
    replace (16 + lenN data <? 16) with false by (symmetry; apply N.ltb_ge; lia).
    replace (MaxInt64 <? lenN data) with false by (symmetry; apply N.ltb_ge; lia).
    cbn [orb]. exists 0. now rewrite take_upto_app.
  - (* FCaps *)
    destruct Hwf as [-> Hl]. cbn [h_size h_type]. split_words.
    apply (okrun_next_of_body _ (mkHeader (16 + lenN data) CaFormatFCaps)); cbn [h_size h_type]; [cw|cw|].
    rewrite next_body_fcaps. eapply okrun_bind; [apply okrun_read_body; cbn [h_size]; lia|cbv beta; apply okrun_ret].
  - (* ACLUser *)
    destruct Hwf as [[-> Hl] [? ?]]. cbn [h_size h_type]. split_words.
    apply (okrun_next_of_body _ (mkHeader (32 + lenN name + 1) CaFormatACLUser));
      cbn [h_size h_type]; [cw|cw|].
    rewrite next_body_acluser. repeat rd.
    eapply okrun_bind; [apply okrun_read_string; cbn [h_size]; lia|cbv beta; apply okrun_ret].
  - (* ACLGroup *)
    destruct Hwf as [[-> Hl] [? ?]]. cbn [h_size h_type]. split_words.
    apply (okrun_next_of_body _ (mkHeader (32 + lenN name + 1) CaFormatACLGroup));
      cbn [h_size h_type]; [cw|cw|].
    rewrite next_body_aclgroup. repeat rd.
    eapply okrun_bind; [apply okrun_read_string; cbn [h_size]; lia|cbv beta; apply okrun_ret].
  - (* ACLGroupObj *)
    destruct h as [sz ty]. cbn [h_size h_type] in *. destruct Hwf as [-> [? ?]]. split_words.
    apply (okrun_next_of_body _ (mkHeader sz CaFormatACLGroupObj)); cbn [h_size h_type]; [assumption|cw|].
    rewrite next_body_aclgroupobj. repeat rd. apply okrun_ret.
  - (* ACLDefault *)
    destruct h as [sz ty]. cbn [h_size h_type] in *. destruct Hwf as [-> [? [? [? [? ?]]]]]. split_words.
    apply (okrun_next_of_body _ (mkHeader sz CaFormatACLDefault));
      cbn [h_size h_type]; [assumption|cw|].
    rewrite next_body_acldefault. repeat rd. apply okrun_ret.
  - (* Goodbye *)
    destruct Hwf as [-> [Hsz [Hit Hlast]]]. cbn [h_size h_type]. split_words.
    set (n := N.of_nat (length items)) in *.
    apply (okrun_next_of_body _ (mkHeader (16 + 24 * n) CaFormatGoodbye)); cbn [h_size h_type]; [exact Hsz|cw|].
    rewrite next_body_goodbye.
    replace (16 + 24 * n <? 16) with false by (symmetry; apply N.ltb_ge; lia).
    assert (Hn : sub64 (16 + 24 * n) 16 / 24 = n).
    { rewrite sub64_exact by lia. replace (16 + 24 * n - 16) with (n * 24) by lia. apply N.div_mul. lia. }
    rewrite Hn. eapply okrun_bind.
    + unfold with_input_fuel. subst n. apply (okrun_goodbye_loop items _ [] r Hit).
      rewrite app_length, enc_gitems_length. lia.
    + cbv beta. cbn [rev app]. rewrite Hlast, N.eqb_refl. apply okrun_ret.
  - (* Index *)
    destruct h as [sz ty]. cbn [h_size h_type] in *. destruct Hwf as [-> [? [? [? [? ?]]]]]. split_words.
    apply (okrun_next_of_body _ (mkHeader sz CaFormatIndex));
      cbn [h_size h_type]; [assumption|cw|].
    rewrite next_body_index. repeat rd. apply okrun_ret.
  - (* Table *)
    destruct Hwf as [-> Hit]. cbn [h_size h_type]. split_words.
    set (tailsz := lenN _ + 40).
    apply (okrun_next_of_body _ (mkHeader MaxUint64 CaFormatTable)); cbn [h_size h_type]; [cw|cw|].
    rewrite next_body_table. cbn [N.eqb Pos.eqb negb].
    eapply okrun_bind.
    + unfold with_input_fuel. apply (okrun_table_loop items _ [] _ Hit).
      rewrite app_length, enc_titems_length by assumption. lia.
    + cbv beta. cbn [rev app].
      eapply okrun_bind; [apply okrun_read_u64; lia|cbv beta]. cbn [N.eqb negb].
      eapply okrun_bind; [apply okrun_read_u64; lia|cbv beta].
      (* the size word is written modulo 2^64 and not inspected by the decoder *)
      rewrite <- (le64_u64 tailsz).
      eapply okrun_bind; [apply okrun_read_u64; apply u64_lt|cbv beta].
      eapply okrun_bind; [apply okrun_read_u64; cw|cbv beta].
      rewrite N.eqb_refl. cbn [negb]. apply okrun_ret.
Qed.
