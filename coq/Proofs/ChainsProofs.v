(* Lemmas about the sequential store-chain model (Model/Chains.v). *)
From Coq Require Import List Arith Bool Lia.
From DS Require Import Model.Chains.
Import ListNotations.

(* ---------- StoreRouter ---------- *)

(* the members of [pre], asked in order, each from the state its predecessor left,
   all answered with a plain ChunkMissing *)
Inductive skipped (i : id) : list ssem -> world -> world -> Prop :=
| skipped_nil w : skipped i [] w w
| skipped_cons s r w c w1 w2 :
    sget s i w = ((c, EMissing false), w1) -> skipped i r w1 w2 -> skipped i (s :: r) w w2.

Definition router_get_spec (ms : list ssem) (i : id) (w : world) (res : gres) (w' : world) : Prop :=
  exists pre wk, skipped i pre w wk /\
    ((ms = pre /\ res = (None, EMissing false) /\ w' = wk) \/
     (exists s post c e, ms = pre ++ s :: post /\ sget s i wk = ((c, e), w') /\
        is_plain_missing e = false /\
        res = ((if is_nil e then c else None), wrap e))).

Lemma router_get_sound ms i : forall w res w',
  router_get ms i w = (res, w') -> router_get_spec ms i w res w'.
Proof.
  induction ms as [|s r IH]; intros w res w' E; cbn in E.
  - inversion E; subst. exists [], w'. split; [constructor|left; auto].
  - destruct (sget s i w) as [[c e] w1] eqn:Es.
    destruct e as [|[|]|wi|].
    + inversion E; subst. exists [], w. split; [constructor|right].
      exists s, r, c, ENil. cbn. auto.
    + inversion E; subst. exists [], w. split; [constructor|right].
      exists s, r, c, (EMissing true). cbn. auto.
    + destruct (IH _ _ _ E) as (pre & wk & Hsk & Hcase).
      exists (s :: pre), wk. split; [econstructor; eauto|].
      destruct Hcase as [(-> & -> & ->)|(s' & post & c' & e' & -> & Hs' & Hpm & ->)].
      * left; auto.
      * right. exists s', post, c', e'. auto.
    + inversion E; subst. exists [], w. split; [constructor|right].
      exists s, r, c, (EInvalid wi). cbn. auto.
    + inversion E; subst. exists [], w. split; [constructor|right].
      exists s, r, c, EOther. cbn. auto.
Qed.

Lemma router_get_complete ms i : forall w res w',
  router_get_spec ms i w res w' -> router_get ms i w = (res, w').
Proof.
  intros w res w' (pre & wk & Hsk & Hcase). revert ms Hcase.
  induction Hsk as [w|s r w c w1 w2 Hs Hsk IH]; intros ms Hcase.
  - destruct Hcase as [(-> & -> & ->)|(s & post & c & e & -> & Hs & Hpm & ->)]; [reflexivity|].
    cbn. rewrite Hs. destruct e as [|[|]|wi|]; cbn in *; try reflexivity; discriminate.
  - destruct Hcase as [(-> & -> & ->)|(s' & post & c' & e & -> & Hs' & Hpm & ->)].
    + cbn. rewrite Hs. apply IH. left; auto.
    + cbn. rewrite Hs. apply IH. right. exists s', post, c', e. auto.
Qed.

Lemma router_get_refines ms i w res w' :
  router_get ms i w = (res, w') <-> router_get_spec ms i w res w'.
Proof. split; [apply router_get_sound|apply router_get_complete]. Qed.

(* HasChunk: members answering (false, nil) are passed over; the first error or [true] ends the walk *)
Inductive has_skipped (i : id) : list ssem -> world -> world -> Prop :=
| has_skipped_nil w : has_skipped i [] w w
| has_skipped_cons s r w w1 w2 :
    shas s i w = ((false, ENil), w1) -> has_skipped i r w1 w2 -> has_skipped i (s :: r) w w2.

Definition router_has_spec (ms : list ssem) (i : id) (w : world) (res : hres) (w' : world) : Prop :=
  exists pre wk, has_skipped i pre w wk /\
    ((ms = pre /\ res = (false, ENil) /\ w' = wk) \/
     (exists s post b e, ms = pre ++ s :: post /\ shas s i wk = ((b, e), w') /\
        (e <> ENil \/ b = true) /\
        res = (if is_nil e then b else false, e))).

Lemma router_has_sound ms i : forall w res w',
  router_has ms i w = (res, w') -> router_has_spec ms i w res w'.
Proof.
  induction ms as [|s r IH]; intros w res w' E; cbn in E.
  - inversion E; subst. exists [], w'. split; [constructor|left; auto].
  - destruct (shas s i w) as [[b e] w1] eqn:Es.
    destruct (is_nil e) eqn:En; cbn in E.
    + destruct e; try discriminate. destruct b.
      * inversion E; subst. exists [], w. split; [constructor|right].
        exists s, r, true, ENil. cbn. auto.
      * destruct (IH _ _ _ E) as (pre & wk & Hsk & Hcase).
        exists (s :: pre), wk. split; [econstructor; eauto|].
        destruct Hcase as [(-> & -> & ->)|(s' & post & b' & e' & -> & Hs' & Hc & ->)].
        -- left; auto.
        -- right. exists s', post, b', e'. auto.
    + inversion E; subst. exists [], w. split; [constructor|right].
      exists s, r, b, e. rewrite En. repeat split; auto. left. intros ->. discriminate.
Qed.

Lemma router_has_complete ms i : forall w res w',
  router_has_spec ms i w res w' -> router_has ms i w = (res, w').
Proof.
  intros w res w' (pre & wk & Hsk & Hcase). revert ms Hcase.
  induction Hsk as [w|s r w w1 w2 Hs Hsk IH]; intros ms Hcase.
  - destruct Hcase as [(-> & -> & ->)|(s & post & b & e & -> & Hs & Hc & ->)]; [reflexivity|].
    cbn. rewrite Hs. destruct e; cbn; try reflexivity.
    destruct Hc as [Hc| ->]; [congruence|reflexivity].
  - destruct Hcase as [(-> & -> & ->)|(s' & post & b & e & -> & Hs' & Hc & ->)].
    + cbn. rewrite Hs. cbn. apply IH. left; auto.
    + cbn. rewrite Hs. cbn. apply IH. right. exists s', post, b, e. auto.
Qed.

Lemma router_has_refines ms i w res w' :
  router_has ms i w = (res, w') <-> router_has_spec ms i w res w'.
Proof. split; [apply router_has_sound|apply router_has_complete]. Qed.

(* ---------- Cache / RepairableCache ---------- *)

Lemma wrap_nil_or e : (if is_nil e then ENil else wrap e) = wrap e.
Proof. destruct e; reflexivity. Qed.

(* hit: the result and the final state do not depend on the upstream store at all *)
Lemma cache_get_hit s l i w c w1 :
  sget l i w = ((c, ENil), w1) -> cache_get s l i w = ((c, ENil), w1).
Proof. intros E. unfold cache_get. rewrite E. reflexivity. Qed.

Lemma cache_hit_ignores_upstream s s' l i w c w1 :
  sget l i w = ((c, ENil), w1) -> cache_get s l i w = cache_get s' l i w.
Proof. intros E. rewrite (cache_get_hit s l i w c w1 E), (cache_get_hit s' l i w c w1 E). reflexivity. Qed.

Lemma cache_hit_spec (s s' l : ssem) i w c w1 :
  sget l i w = ((c, ENil), w1) ->
  cache_get s l i w = ((c, ENil), w1) /\ cache_get s l i w = cache_get s' l i w.
Proof. intros. split; [eapply cache_get_hit|eapply cache_hit_ignores_upstream]; eauto. Qed.

(* the cache store itself fails (not ChunkMissing): its answer, upstream untouched *)
Lemma cache_get_cache_error s l i w c e w1 :
  sget l i w = ((c, e), w1) -> e <> ENil -> e <> EMissing false -> cache_get s l i w = ((c, e), w1).
Proof.
  intros E H1 H2. unfold cache_get. rewrite E. destruct e as [|[|]| |]; try reflexivity; congruence.
Qed.

(* miss, upstream fails: upstream's answer, nothing stored *)
Lemma cache_get_upstream_error s l i w c w1 c2 e2 w2 :
  sget l i w = ((c, EMissing false), w1) -> sget s i w1 = ((c2, e2), w2) -> e2 <> ENil ->
  cache_get s l i w = ((c2, e2), w2).
Proof.
  intros E1 E2 H. unfold cache_get. rewrite E1, E2. destruct e2; try reflexivity; congruence.
Qed.

(* miss, upstream delivers: the chunk is stored into the cache; the caller gets the chunk, and an error exactly
   when storing failed *)
Lemma cache_get_fill s l i w c w1 t w2 e3 w3 :
  sget l i w = ((c, EMissing false), w1) -> sget s i w1 = ((Some t, ENil), w2) -> sstore l i t w2 = (e3, w3) ->
  cache_get s l i w = ((Some t, wrap e3), w3).
Proof.
  intros E1 E2 E3. unfold cache_get. rewrite E1, E2. cbn. rewrite E3. destruct e3; reflexivity.
Qed.

Lemma repair_get_invalid l i w c wr w1 :
  sget l i w = ((c, EInvalid wr), w1) -> repair_get l i w = ((c, EMissing false), w1).
Proof. intros E. unfold repair_get. rewrite E. reflexivity. Qed.

Lemma repair_get_other l i w c e w1 :
  sget l i w = ((c, e), w1) -> as_invalid e = false -> repair_get l i w = ((c, e), w1).
Proof. intros E H. unfold repair_get. rewrite E, H. reflexivity. Qed.

(* members *)
Lemma nth_upd_nth_eq {A} (l : list A) i x y : nth_error l i = Some y -> nth_error (upd_nth l i x) i = Some x.
Proof. revert i; induction l as [|z l IH]; intros [|i]; cbn; intros E; try discriminate; auto. Qed.

Lemma leaf_get_eq k i w m :
  nth_error (members w) k = Some m ->
  sget (leaf_sem k) i w =
    (fst (member_get i m),
     {| members := upd_nth (members w) k (tick m); actives := actives w;
        log := {| ev_member := k; ev_op := KGet; ev_id := i; ev_closed := m_closed m |} :: log w |}).
Proof. intros E. cbn. unfold on_member. rewrite E. reflexivity. Qed.

Lemma leaf_store_healthy k i t w m :
  nth_error (members w) k = Some m -> fault_at m = FNone ->
  exists w', sstore (leaf_sem k) i t w = (ENil, w') /\
             nth_error (members w') k = Some (tick (put m i (t, true))).
Proof.
  intros E F. cbn. unfold on_member, member_store. rewrite E, F. eexists. split; [reflexivity|].
  cbn. eapply nth_upd_nth_eq; eauto.
Qed.

Lemma leaf_store_failing k i t w m :
  nth_error (members w) k = Some m -> fault_at m = FErr ->
  exists w', sstore (leaf_sem k) i t w = (EOther, w').
Proof. intros E F. cbn. unfold on_member, member_store. rewrite E, F. eexists. reflexivity. Qed.

Lemma lookup_put m i v : lookup (m_content (tick (put m i v))) i = Some v.
Proof. cbn. rewrite Nat.eqb_refl. reflexivity. Qed.

(* Cache over a member store k used as cache, arbitrary upstream [s].  The cache member lacks chunk i (or, with
   repair, holds an INVALID object for it) and is healthy for the lookup; upstream delivers copy t. *)
Lemma cache_fill_leaf (repair : bool) s k i w m t w2 m2 :
  let l := if repair then repair_sem (leaf_sem k) else leaf_sem k in
  nth_error (members w) k = Some m -> fault_at m = FNone ->
  (lookup (m_content m) i = None \/ (repair = true /\ exists t0, lookup (m_content m) i = Some (t0, false))) ->
  sget s i (snd (sget (leaf_sem k) i w)) = ((Some t, ENil), w2) ->
  nth_error (members w2) k = Some m2 ->
  (fault_at m2 = FNone ->
     exists w3 m3, cache_get s l i w = ((Some t, ENil), w3) /\
                   nth_error (members w3) k = Some m3 /\ lookup (m_content m3) i = Some (t, true)) /\
  (fault_at m2 = FErr -> exists w3, cache_get s l i w = ((Some t, EOther), w3)).
Proof.
  intros l Em Fm Hlook Hs Em2.
  rewrite (leaf_get_eq k i w m Em) in Hs. cbn [snd] in Hs.
  assert (Hl : exists c, sget l i w = ((c, EMissing false),
             {| members := upd_nth (members w) k (tick m); actives := actives w;
                log := {| ev_member := k; ev_op := KGet; ev_id := i; ev_closed := m_closed m |} :: log w |})).
  { unfold l. destruct Hlook as [Hnone|(-> & t0 & Hinv)].
    - destruct repair.
      + exists None. cbn [sget repair_sem]. erewrite repair_get_other; [reflexivity| |]; try rewrite (leaf_get_eq k i w m Em); unfold member_get; try rewrite Fm, Hnone; reflexivity.
      + exists None. rewrite (leaf_get_eq k i w m Em). unfold member_get. rewrite Fm, Hnone. reflexivity.
    - exists None. cbn [sget repair_sem]. erewrite repair_get_invalid; [reflexivity|].
      rewrite (leaf_get_eq k i w m Em). unfold member_get. rewrite Fm, Hinv. reflexivity. }
  destruct Hl as (c & Hl).
  assert (Hst : forall w', sstore l i t w2 = w' -> sstore (leaf_sem k) i t w2 = w').
  { unfold l. destruct repair; auto. }
  split; intros F2.
  - destruct (leaf_store_healthy k i t w2 m2 Em2 F2) as (w3 & Hw3 & Hm3).
    exists w3, (tick (put m2 i (t, true))). split; [|split; [exact Hm3|apply lookup_put]].
    assert (Hst' : sstore l i t w2 = (ENil, w3)) by (unfold l; destruct repair; exact Hw3).
    rewrite (cache_get_fill s l i w c _ t w2 ENil w3 Hl Hs Hst'). reflexivity.
  - destruct (leaf_store_failing k i t w2 m2 Em2 F2) as (w3 & Hw3).
    exists w3.
    assert (Hst' : sstore l i t w2 = (EOther, w3)) by (unfold l; destruct repair; exact Hw3).
    rewrite (cache_get_fill s l i w c _ t w2 EOther w3 Hl Hs Hst'). reflexivity.
Qed.

(* without repair an invalid cached object is reported as it is and upstream is not asked *)
Lemma cache_invalid_no_repair s k i w m t0 :
  nth_error (members w) k = Some m -> fault_at m = FNone -> lookup (m_content m) i = Some (t0, false) ->
  cache_get s (leaf_sem k) i w = ((None, EInvalid false), snd (sget (leaf_sem k) i w)).
Proof.
  intros Em Fm Hl. erewrite cache_get_cache_error; [reflexivity| |discriminate|discriminate].
  rewrite (leaf_get_eq k i w m Em). unfold member_get. rewrite Fm, Hl. reflexivity.
Qed.

(* ---------- FailoverGroup, one request at a time ---------- *)

(* a ChunkMissing from the consulted member is handed back as ChunkMissing, whatever was recorded before,
   however many attempts are left; no other member is asked *)
Lemma failover_never_masks_missing g ms i k gerr w c w1 :
  sget (nth (nth g (actives w) 0) ms dead_sem) i w = ((c, EMissing false), w1) ->
  failover_get_loop g ms i (S k) gerr w = ((c, EMissing false), w1).
Proof. intros E. cbn. rewrite E. reflexivity. Qed.

Lemma failover_returns_answer g ms i k gerr w c w1 :
  sget (nth (nth g (actives w) 0) ms dead_sem) i w = ((c, ENil), w1) ->
  failover_get_loop g ms i (S k) gerr w = ((c, ENil), w1).
Proof. intros E. cbn. rewrite E. reflexivity. Qed.

Lemma failover_get_first_missing g s ms i w c w1 :
  nth g (actives w) 0 = 0 -> sget s i w = ((c, EMissing false), w1) ->
  failover_get g (s :: ms) i w = ((c, EMissing false), w1).
Proof. intros Ha E. unfold failover_get. cbn [length]. apply failover_never_masks_missing. rewrite Ha. exact E. Qed.

(* HasChunk fails over on ANY error, including a ChunkMissing returned as an error *)
Lemma failover_has_fails_over g ms i k gerr w b e w1 :
  shas (nth (nth g (actives w) 0) ms dead_sem) i w = ((b, e), w1) -> e <> ENil ->
  failover_has_loop g ms i (S k) gerr w =
  failover_has_loop g ms i k e (snd (error_from g (length ms) (nth g (actives w) 0) w1)).
Proof.
  intros E H. cbn. rewrite E. destruct e; try congruence; cbn;
    destruct (error_from g (length ms) (nth g (actives w) 0) w1); reflexivity.
Qed.

(* ---------- the shapes the command line builds (cmd/desync/store.go, chunkserver.go) ---------- *)

Inductive location := LStore (k : nat) | LGroup (k1 k2 : nat) (ks : list nat).  (* "a" | "a|b|..." : Split gives >= 2 *)

(* storeGroup; failover groups are numbered by the position of their location *)
Definition store_group (pos : nat) (l : location) : stack :=
  match l with
  | LStore k => Leaf k
  | LGroup k1 k2 ks => Failover pos (map Leaf (k1 :: k2 :: ks))
  end.

Fixpoint store_groups (pos : nat) (ls : list location) : list stack :=
  match ls with [] => [] | l :: r => store_group pos l :: store_groups (S pos) r end.

(* multiStoreWithRouter *)
Definition multi_store_with_router (ls : list location) : stack := Router (store_groups 0 ls).

(* MultiStoreWithCache: cacheLocation "" = None; cmdOpt.cacheRepair *)
Definition multi_store_with_cache (cache : option nat) (repair : bool) (ls : list location) : stack :=
  match cache with
  | None => multi_store_with_router ls
  | Some c => Cache (multi_store_with_router ls) (if repair then Repairable (Leaf c) else Leaf c)
  end.

(* chunkServerStore: writable => the single WritableStore; else DedupQueue(MultiStoreWithCache) *)
Definition chunk_server_store (writable : bool) (cache : option nat) (repair : bool) (ls : list location) : option stack :=
  match ls with
  | [] => None                                     (* "no store provided" *)
  | l :: rest =>
      if writable then
        match l, rest, cache with
        | LStore k, [], None => Some (Leaf k)
        | _, _, _ => None                           (* one upstream store, no cache; a "|" group is not a WriteStore *)
        end
      else Some (Dedup (multi_store_with_cache cache repair ls))
  end.

(* the grammar:  member := Leaf | Failover [Leaf, Leaf, ...];  router := Router [member ...];
   cached := router | Cache router (Leaf | Repairable Leaf);  served := Leaf | Dedup cached *)
Definition is_leaf (s : stack) : bool := match s with Leaf _ => true | _ => false end.
Definition is_member (s : stack) : bool :=
  match s with
  | Leaf _ => true
  | Failover _ (a :: b :: r) => forallb is_leaf (a :: b :: r)
  | _ => false
  end.
Definition is_router (s : stack) : bool := match s with Router l => forallb is_member l | _ => false end.
Definition is_cached (s : stack) : bool :=
  match s with
  | Cache r (Leaf _) => is_router r
  | Cache r (Repairable (Leaf _)) => is_router r
  | _ => is_router s
  end.
Definition is_served (s : stack) : bool :=
  match s with Leaf _ => true | Dedup c => is_cached c | _ => false end.

Fixpoint group_ids (s : stack) : list nat :=
  match s with
  | Failover g l => g :: flat_map group_ids l
  | Router l => flat_map group_ids l
  | Cache a b => group_ids a ++ group_ids b
  | Repairable a | Dedup a | WDedup a => group_ids a
  | _ => []
  end.

Lemma forallb_leaf_map ks : forallb is_leaf (map Leaf ks) = true.
Proof. induction ks; cbn; auto. Qed.
Lemma forallb_wf_leaf_map ks : forallb wf_stack (map Leaf ks) = true.
Proof. induction ks; cbn; auto. Qed.

Lemma store_groups_ok pos ls :
  forallb is_member (store_groups pos ls) = true /\ forallb wf_stack (store_groups pos ls) = true /\
  (forall g, In g (flat_map group_ids (store_groups pos ls)) -> pos <= g) /\
  NoDup (flat_map group_ids (store_groups pos ls)).
Proof.
  revert pos. induction ls as [|l r IH]; intros pos; cbn [store_groups forallb flat_map].
  - repeat split; auto. intros g []. constructor.
  - destruct (IH (S pos)) as (A & B & C & D).
    destruct l as [k|k1 k2 ks]; cbn [store_group is_member wf_stack group_ids].
    + rewrite A, B. cbn. repeat split; auto. intros g Hg. apply C in Hg. lia.
    + rewrite A, B. cbn [map forallb is_leaf wf_stack andb negb flat_map group_ids app].
      rewrite forallb_leaf_map, forallb_wf_leaf_map.
      assert (Hnil : flat_map group_ids (map Leaf ks) = []) by (clear; induction ks; cbn; auto).
      rewrite Hnil. cbn. repeat split; auto.
      * intros g [<-|Hg]; [lia|]. apply C in Hg. lia.
      * constructor; auto. intros Hin. apply C in Hin. lia.
Qed.

Lemma cli_shapes writable cache repair ls s :
  chunk_server_store writable cache repair ls = Some s ->
  is_served s = true /\ wf_stack s = true /\ NoDup (group_ids s) /\
  (writable = true -> Chains.writable s = true).
Proof.
  unfold chunk_server_store. destruct ls as [|l rest]; [discriminate|].
  destruct writable.
  - destruct l; try discriminate. destruct rest; try discriminate. destruct cache; try discriminate.
    intros H. inversion H; subst. cbn. repeat split; auto. constructor.
  - intros H. inversion H; subst; clear H.
    destruct (store_groups_ok 0 (l :: rest)) as (A & B & C & D).
    unfold multi_store_with_cache, multi_store_with_router.
    destruct cache as [c|]; [destruct repair|]; cbn [is_served is_cached is_router wf_stack group_ids Chains.writable andb];
      rewrite ?A, ?B, ?app_nil_r; repeat split; auto; discriminate.
Qed.

(* ---------- SwapWriteStore never loses its writable store ---------- *)

Definition top_ok (t : top) : Prop := t_mode t = MSwapRW -> writable (t_cur t) = true.

Lemma exec_top_ok t o w : top_ok t -> top_ok (snd (fst (exec t o w))).
Proof.
  intros H. destruct o as [i|i|i tg|new|]; cbn [exec].
  - destruct (sget (sem (t_cur t)) i w). exact H.
  - destruct (shas (sem (t_cur t)) i w). exact H.
  - destruct (top_writable t && writable (t_cur t)); [destruct (sstore (sem (t_cur t)) i tg w)|]; exact H.
  - destruct (t_mode t) eqn:Em.
    + exact H.
    + destruct (writable (t_cur t) && negb (writable new)); [exact H|].
      destruct (sclose (sem (t_cur t)) w). cbn. intros E. cbn in E. congruence.
    + destruct (writable (t_cur t) && negb (writable new)) eqn:E; [exact H|].
      destruct (sclose (sem (t_cur t)) w). cbn. intros _. cbn. rewrite (H Em) in E.
      destruct (writable new); [reflexivity|discriminate].
  - destruct (sclose (sem (t_cur t)) w). exact H.
Qed.

Lemma exec_all_top_ok ops : forall t w, top_ok t -> top_ok (snd (fst (exec_all t ops w))).
Proof.
  induction ops as [|o r IH]; intros t w H; cbn; auto.
  pose proof (exec_top_ok t o w H) as H1. destruct (exec t o w) as [[x t1] w1]. cbn in H1.
  specialize (IH t1 w1 H1). destruct (exec_all t1 r w1) as [[xs t2] w2]. cbn in *. exact IH.
Qed.

(* ---------- reloading the configuration (mount-index / chunk-server --store-file, SIGHUP) ---------- *)

(* mountIndexStore = MultiStoreWithCache; chunkServerStore (read-only) = DedupQueue around it.  Neither is ever a
   WriteStore: multiStoreWithRouter ALWAYS wraps the configured locations in a StoreRouter, also a single one. *)
Definition mount_index_store := multi_store_with_cache.

Lemma msc_not_writable cache repair ls : writable (multi_store_with_cache cache repair ls) = false.
Proof. unfold multi_store_with_cache, multi_store_with_router. destruct cache; reflexivity. Qed.

(* hence SwapStore.Swap never refuses a reload, whatever the old and the new configuration are, and afterwards
   the installed chain is exactly the one built from the new configuration *)
Lemma cli_reload_accepted (served : bool) cache repair ls (new : stack) w :
  let old := if served then Dedup (multi_store_with_cache cache repair ls) else mount_index_store cache repair ls in
  let t := {| t_mode := MSwapRO; t_cur := old |} in
  fst (fst (exec t (OSwap new) w)) = RSwap true /\ t_cur (snd (fst (exec t (OSwap new) w))) = new.
Proof.
  intros old t. unfold exec. cbn [t_mode t_cur t].
  assert (Hw : writable old = false) by (unfold old; destruct served; [reflexivity|apply msc_not_writable]).
  rewrite Hw. cbn. destruct (sclose (sem old) w). cbn. auto.
Qed.
