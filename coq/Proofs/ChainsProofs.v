(* Lemmas about the sequential store-chain model (Model/Chains.v). *)
From Coq Require Import List Arith Bool Lia.
From DS Require Import Model.Chains.
Import ListNotations.

(* ---------- StoreRouter ---------- *)

(* the members of [pre], asked in order, each from the state its predecessor left,
   all answered with a plain ChunkMissing *)
Inductive skipped (i : id) : list ssem -> world -> world -> Prop :=
| skipped_nil w : skipped i [] w w
| skipped_cons s r w c w1 w2 :
    sget s i w = ((c, EMissing false), w1) -> skipped i r w1 w2 -> skipped i (s :: r) w w2.

Definition router_get_spec (ms : list ssem) (i : id) (w : world) (res : gres) (w' : world) : Prop :=
  exists pre wk, skipped i pre w wk /\
    ((ms = pre /\ res = (None, EMissing false) /\ w' = wk) \/
     (exists s post c e, ms = pre ++ s :: post /\ sget s i wk = ((c, e), w') /\
        is_plain_missing e = false /\
        res = ((if is_nil e then c else None), wrap e))).

Lemma router_get_sound ms i : forall w res w',
  router_get ms i w = (res, w') -> router_get_spec ms i w res w'.
Proof.
  induction ms as [|s r IH]; intros w res w' E; cbn in E.
  - inversion E; subst. exists [], w'. split; [constructor|left; auto].
  - destruct (sget s i w) as [[c e] w1] eqn:Es.
    destruct e as [|[|]|wi|].
    + inversion E; subst. exists [], w. split; [constructor|right].
      exists s, r, c, ENil. cbn. auto.
    + inversion E; subst. exists [], w. split; [constructor|right].
      exists s, r, c, (EMissing true). cbn. auto.
    + destruct (IH _ _ _ E) as (pre & wk & Hsk & Hcase).
      exists (s :: pre), wk. split; [econstructor; eauto|].
      destruct Hcase as [(-> & -> & ->)|(s' & post & c' & e' & -> & Hs' & Hpm & ->)].
      * left; auto.
      * right. exists s', post, c', e'. auto.
    + inversion E; subst. exists [], w. split; [constructor|right].
      exists s, r, c, (EInvalid wi). cbn. auto.
    + inversion E; subst. exists [], w. split; [constructor|right].
      exists s, r, c, EOther. cbn. auto.
Qed.

Lemma router_get_complete ms i : forall w res w',
  router_get_spec ms i w res w' -> router_get ms i w = (res, w').
Proof.
  intros w res w' (pre & wk & Hsk & Hcase). revert ms Hcase.
  induction Hsk as [w|s r w c w1 w2 Hs Hsk IH]; intros ms Hcase.
  - destruct Hcase as [(-> & -> & ->)|(s & post & c & e & -> & Hs & Hpm & ->)]; [reflexivity|].
    cbn. rewrite Hs. destruct e as [|[|]|wi|]; cbn in *; try reflexivity; discriminate.
  - destruct Hcase as [(-> & -> & ->)|(s' & post & c' & e & -> & Hs' & Hpm & ->)].
    + cbn. rewrite Hs. apply IH. left; auto.
    + cbn. rewrite Hs. apply IH. right. exists s', post, c', e. auto.
Qed.

Lemma router_get_refines ms i w res w' :
  router_get ms i w = (res, w') <-> router_get_spec ms i w res w'.
Proof. split; [apply router_get_sound|apply router_get_complete]. Qed.

(* HasChunk: members answering (false, nil) are passed over; the first error or [true] ends the walk *)
Inductive has_skipped (i : id) : list ssem -> world -> world -> Prop :=
| has_skipped_nil w : has_skipped i [] w w
| has_skipped_cons s r w w1 w2 :
    shas s i w = ((false, ENil), w1) -> has_skipped i r w1 w2 -> has_skipped i (s :: r) w w2.

Definition router_has_spec (ms : list ssem) (i : id) (w : world) (res : hres) (w' : world) : Prop :=
  exists pre wk, has_skipped i pre w wk /\
    ((ms = pre /\ res = (false, ENil) /\ w' = wk) \/
     (exists s post b e, ms = pre ++ s :: post /\ shas s i wk = ((b, e), w') /\
        (e <> ENil \/ b = true) /\
        res = (if is_nil e then b else false, e))).

Lemma router_has_sound ms i : forall w res w',
  router_has ms i w = (res, w') -> router_has_spec ms i w res w'.
Proof.
  induction ms as [|s r IH]; intros w res w' E; cbn in E.
  - inversion E; subst. exists [], w'. split; [constructor|left; auto].
  - destruct (shas s i w) as [[b e] w1] eqn:Es.
    destruct (is_nil e) eqn:En; cbn in E.
    + destruct e; try discriminate. destruct b.
      * inversion E; subst. exists [], w. split; [constructor|right].
        exists s, r, true, ENil. cbn. auto.
      * destruct (IH _ _ _ E) as (pre & wk & Hsk & Hcase).
        exists (s :: pre), wk. split; [econstructor; eauto|].
        destruct Hcase as [(-> & -> & ->)|(s' & post & b' & e' & -> & Hs' & Hc & ->)].
        -- left; auto.
        -- right. exists s', post, b', e'. auto.
    + inversion E; subst. exists [], w. split; [constructor|right].
      exists s, r, b, e. rewrite En. repeat split; auto. left. intros ->. discriminate.
Qed.

Lemma router_has_complete ms i : forall w res w',
  router_has_spec ms i w res w' -> router_has ms i w = (res, w').
Proof.
  intros w res w' (pre & wk & Hsk & Hcase). revert ms Hcase.
  induction Hsk as [w|s r w w1 w2 Hs Hsk IH]; intros ms Hcase.
  - destruct Hcase as [(-> & -> & ->)|(s & post & b & e & -> & Hs & Hc & ->)]; [reflexivity|].
    cbn. rewrite Hs. destruct e; cbn; try reflexivity.
    destruct Hc as [Hc| ->]; [congruence|reflexivity].
  - destruct Hcase as [(-> & -> & ->)|(s' & post & b & e & -> & Hs' & Hc & ->)].
    + cbn. rewrite Hs. cbn. apply IH. left; auto.
    + cbn. rewrite Hs. cbn. apply IH. right. exists s', post, b, e. auto.
Qed.

Lemma router_has_refines ms i w res w' :
  router_has ms i w = (res, w') <-> router_has_spec ms i w res w'.
Proof. split; [apply router_has_sound|apply router_has_complete]. Qed.
