(* IndexFromFile: every step preserves the invariant (or exhibits a hash collision with the null
   chunk), hence for EVERY schedule the collected index is the single-stream index. *)
From Coq Require Import List NArith Arith Bool Lia.
From DS Require Import Gen.Constants Base.Bytes Base.Hash Base.Sched Model.Chunker Model.PChunker
     Proofs.ChunkerSpecProofs Proofs.PChunkerBase Proofs.PChunkerInv Proofs.PChunkerSteps.
Import ListNotations.

Section Main.
  Variable H : bytes -> id.
  Variables (min max : nat) (d : N) (data : bytes).
  Hypothesis Hmin : W <= min.
  Hypothesis Hmax : min <= max.
  Hypothesis Hpos : 0 < max.
  Variables (nw span : nat).
  Hypothesis Hspan : forall i, i < nw -> span * i <= length data.

  Notation canon := (canon min max d data).
  Notation PInv := (PInv min max d data nw span).
  Notation all_zero := (all_zero data).
  Notation zdc := (zeros_dont_cut min max d).
  Notation is_null := (is_null H max data).
  Notation step := (pstep H min max d data false).

  (* ---------- zeros ---------- *)

  Lemma firstn_plus {A} : forall a b (X : list A), firstn (a + b) X = firstn a X ++ firstn b (skipn a X).
  Proof.
    induction a as [|a IH]; intros b X; [reflexivity|].
    destruct X as [|x X]; [cbn; now rewrite firstn_nil|]. cbn. f_equal. apply IH.
  Qed.

  Lemma slice_split {A} (l : list A) s a b : slice l s (a + b) = slice l s a ++ slice l (s + a) b.
  Proof. unfold slice. rewrite firstn_plus, skipn_skipn. reflexivity. Qed.

  Lemma az_sub s l s' l' : all_zero s l -> s <= s' -> s' + l' <= s + l -> all_zero s' l'.
  Proof. apply (all_zero_sub min max data Hmin Hmax Hpos). Qed.

  Lemma all_zero_app s a b : all_zero s a -> all_zero (s + a) b -> all_zero s (a + b).
  Proof.
    intros [Z1 B1] [Z2 B2]. split; [|lia]. rewrite slice_split, Z1, Z2. symmetry. apply repeat_app.
  Qed.

  Lemma null_zeros c : canon c -> is_null c = true ->
    (all_zero (c_start c) max /\ c_size c = max) \/ Collision H.
  Proof.
    intros Hc Hn. unfold PChunker.is_null, nullid in Hn. apply N.eqb_eq in Hn.
    destruct (hash_eq H _ _ Hn) as [E|C]; [left|right; exact C].
    destruct (canon_bounds min max d data Hmin Hmax Hpos c Hc) as (_ & _ & Hend).
    assert (Hl : c_size c = max).
    { apply (f_equal (@length _)) in E. rewrite repeat_length, slice_length in E by (unfold c_end, c_start, c_size in *; lia). exact E. }
    split; [|exact Hl]. rewrite Hl in E. split; [exact E|unfold c_end, c_start, c_size in *; lia].
  Qed.

  Lemma null_chunks_facts from : zdc -> forall k, all_zero from (k * max) ->
    chain from (null_chunks max k from) /\ Forall canon (null_chunks max k from) /\
    covered (null_chunks max k from) = k * max.
  Proof.
    intros Hz k. revert from. induction k as [|k IH]; intros from Haz.
    - cbn. repeat split; constructor.
    - cbn [null_chunks].
      assert (Hz1 : all_zero from max) by (eapply az_sub; [exact Haz|lia|cbn; lia]).
      assert (Hz2 : all_zero (from + max) (k * max)) by (eapply az_sub; [exact Haz|lia|cbn; lia]).
      destruct (IH _ Hz2) as (C1 & C2 & C3).
      split; [cbn; split; [reflexivity|exact C1]|]. split.
      + constructor; [|exact C2]. apply (zero_run_cut min max d data Hmin Hmax Hpos); assumption.
      + rewrite covered_cons, C3. cbn. lia.
  Qed.

  Lemma covered_null_chunks k from : covered (null_chunks max k from) = k * max.
  Proof. revert from. induction k; intros; cbn [null_chunks]; [reflexivity|]. rewrite covered_cons, IHk. cbn. lia. Qed.

  (* consecutive elements of a chain *)
  Lemma chain_consecutive from cs k p m : chain from cs ->
    nth_error cs k = Some p -> nth_error cs (S k) = Some m -> c_start m = c_end p.
  Proof.
    intros Hc Hp Hm. pose proof (chain_nth _ _ _ _ Hc Hp) as E1. pose proof (chain_nth _ _ _ _ Hc Hm) as E2.
    rewrite (covered_firstn_S _ _ _ Hp) in E2. unfold c_end, c_start, c_size in *. lia.
  Qed.

  (* ---------- workers ---------- *)

  Ltac gsw s I :=
    repeat (rewrite getw_setw by (rewrite ?nworkers_setw, (p_n _ _ _ _ _ _ s I); assumption));
    repeat match goal with |- context [?a =? ?a] => rewrite (Nat.eqb_refl a) end;
    repeat match goal with |- context [?a =? ?b] => destruct (Nat.eqb_spec a b); [lia|] end.


  Lemma worker_step_inv s i s' : PInv s -> step_worker H min max d data s i = Some s' ->
    PInv s' \/ Collision H.
  Proof.
    intros I E. unfold step_worker in E.
    destruct (negb (i <? nworkers s)) eqn:Ei; [discriminate|].
    apply negb_false_iff, Nat.ltb_lt in Ei. rewrite (p_n _ _ _ _ _ _ s I) in Ei.
    set (w := getw s i) in *.
    assert (Hactb : w_active w = negb (is_ex (w_pc w))) by (apply (p_act _ _ _ _ _ _ s I i Ei)).
    pose proof (p_pos _ _ _ _ _ _ s I i Ei) as Hpos'. fold w in Hpos'.
    pose proof (p_pcl _ _ _ _ _ _ s I i Ei) as Hpcl. unfold pcl in Hpcl. fold w in Hpcl.
    pose proof (p_sl _ _ _ _ _ _ s I i Ei) as Hsl. unfold sl in Hsl. fold w in Hsl.
    destruct (w_pc w) as [|c prev|c n|c n| |] eqn:Epc; cbn [is_ex negb] in Hactb.
    - (* Top *)
      destruct (next_chunk min max d data (w_pos w)) as [c|] eqn:Enc.
      + (* push the next chunk *)
        injection E as <-. left.
        destruct (next_chunk_some min max d data Hmin Hmax Hpos _ _ Enc) as [Ec Hlt].
        assert (Hcs : c_start c = w_pos w) by (rewrite Ec; reflexivity).
        set (newpc := if w_next w <? nworkers s then SyncLoop c None else Skip).
        assert (Hrec : {| w_pos := c_end c; w_emit := w_emit w ++ [c]; w_cons := w_cons w; w_sync := w_sync w;
                          w_next := w_next w; w_active := true; w_eof := false; w_pc := newpc |} =
                       {| w_pos := w_pos w + covered [c]; w_emit := w_emit w ++ [c]; w_cons := w_cons w; w_sync := w_sync w;
                          w_next := w_next w; w_active := true; w_eof := false; w_pc := newpc |}).
        { f_equal. unfold c_end, covered. cbn. unfold c_start, c_size in *. lia. }
        fold newpc. rewrite Hrec.
        assert (Hcan : canon c) by (unfold PChunkerBase.canon; rewrite Hcs; exact Enc).
        apply (push_inv H min max d data Hmin Hmax Hpos nw span Hspan s i [c] newpc I Ei Hactb).
        * cbn. split; [|exact Logic.I]. rewrite Hcs, Hpos'. reflexivity.
        * constructor; [exact Hcan|constructor].
        * unfold newpc. destruct (w_next w <? nworkers s); reflexivity.
        * unfold pcl. rewrite getw_setw by (rewrite (p_n _ _ _ _ _ _ s I); exact Ei). rewrite Nat.eqb_refl. cbn [w_pc].
          unfold newpc. destruct (w_next w <? nworkers s) eqn:En; [|exact Logic.I].
          apply Nat.ltb_lt in En. rewrite (p_n _ _ _ _ _ _ s I) in En.
          split; [exact Hcan|]. split; [|exact En].
          unfold emit_end. rewrite getw_setw by (rewrite (p_n _ _ _ _ _ _ s I); exact Ei). rewrite Nat.eqb_refl.
          cbn [w_emit]. rewrite covered_app, covered_cons. unfold emit_end in Hpos'.
          assert (covered (@nil chunk) = 0) by reflexivity.
          unfold w in *. unfold c_end, c_start, c_size in *. lia.
        * unfold sl. rewrite getw_setw by (rewrite (p_n _ _ _ _ _ _ s I); exact Ei). rewrite Nat.eqb_refl. cbn [w_pc].
          unfold newpc. destruct (w_next w <? nworkers s); exact Logic.I.
      + (* end of stream *)
        injection E as <-. left.
        apply (exit_inv H min max d data nw span s i true I Ei Hactb).
        * intros _. pose proof (next_chunk_none min max d data Hmin Hmax Hpos _ Enc) as Hge.
          pose proof (emit_end_le H min max d data Hmin Hmax Hpos nw span Hspan s i I Ei). lia.
        * discriminate.
    - (* SyncLoop *)
      destruct Hpcl as (Hcan & Hce & Hj).
      set (j := w_next w) in *. set (b := getw s j) in *.
      assert (Hij : i < j) by (apply (p_next _ _ _ _ _ _ s I i Ei)).
      assert (Hij' : i <> w_next (getw s i)) by (unfold j, w in Hij; lia).
      assert (Hkj : k_cur (p_c s) < j).
      { pose proof (active_ge_kcur min max d data nw span s i I Ei Hactb). lia. }
      pose proof (p_sync _ _ _ _ _ _ s I j Hj Hkj) as Hsy. unfold sync_ok in Hsy. fold b in Hsy.
      destruct (sync_start (w_sync b) <? c_start c) eqn:Elt.
      + apply Nat.ltb_lt in Elt.
        destruct (bucket_head b) as [v|] eqn:Eh; injection E as <-; left.
        * (* receive *)
          apply (recv_inv H min max d data Hmin Hmax Hpos nw span Hspan s i v (SyncLoop c (w_sync b)) I Ei Hactb Hj Eh eq_refl).
          -- unfold pcl, emit_end. gsw s I. cbn [w_pc with_pc w_next w_emit]. split; [exact Hcan|]. split; [|exact Hj]. exact Hce.
          -- unfold sl. gsw s I. cbn [w_pc with_pc w_next]. gsw s I.
             change (getw s (w_next (getw s i))) with b. destruct (w_sync b) as [p|] eqn:Es; [|exact Logic.I]. cbn [recv_w w_cons w_emit].
             destruct (w_cons b =? 0) eqn:E0; [discriminate|]. apply Nat.eqb_neq in E0.
             split; [lia|]. split; [|exact Elt].
             replace (S (w_cons b) - 2) with (w_cons b - 1) by lia. symmetry. exact Hsy.
        * (* nothing in the bucket *)
          apply (pc_only_inv H min max d data nw span s i _ I Ei (with_pc_same H data w (After c 0))).
          -- cbn. change (getw s i) with w. rewrite Epc. reflexivity.
          -- unfold pcl, emit_end. gsw s I. cbn [w_pc with_pc w_next w_emit]. split; [exact Hcan|]. split; [|exact Hj]. exact Hce.
          -- unfold sl. gsw s I. cbn [w_pc with_pc]. left. exact Hpos.
      + apply Nat.ltb_ge in Elt.
        destruct (w_sync b) as [m|] eqn:Es.
        * destruct (w_cons b =? 0) eqn:E0; [discriminate|]. apply Nat.eqb_neq in E0.
          assert (Hm : nth_error (w_emit b) (w_cons b - 1) = Some m) by (symmetry; exact Hsy).
          destruct ((c_start c =? c_start m) && (c_size c =? c_size m)) eqn:Eeq.
          -- (* in sync: stop *)
             injection E as <-. left. apply andb_true_iff in Eeq. destruct Eeq as [E1 E2].
             apply Nat.eqb_eq in E1, E2.
             apply (exit_inv H min max d data nw span s i false I Ei Hactb); [discriminate|].
             intros _. fold w j. split; [exact Hj|]. rewrite <- Hce.
             unfold frontier. fold b. replace (w_cons b) with (S (w_cons b - 1)) by lia.
             rewrite (covered_firstn_S _ _ _ Hm).
             pose proof (chain_nth _ _ _ _ (p_chain _ _ _ _ _ _ s I j Hj) Hm) as Hcs. fold b in Hcs.
             unfold c_end, c_start, c_size in *. lia.
          -- destruct (is_null m && is_null_opt H max data prev) eqn:Enull.
             ++ (* null look-ahead *)
                apply andb_true_iff in Enull. destruct Enull as [Nm Np].
                destruct prev as [p|]; [|discriminate]. cbn [is_null_opt] in Np.
                destruct Hsl as (S1 & S2 & S3). fold j b in S1, S2.
                injection E as <-.
                pose proof (p_canon _ _ _ _ _ _ s I j Hj) as Hfb. fold b in Hfb. rewrite Forall_forall in Hfb.
                assert (Hcp : canon p) by (apply Hfb; eapply nth_error_In; exact S2).
                assert (Hcm : canon m) by (apply Hfb; eapply nth_error_In; exact Hm).
                assert (Hpm : c_start m = c_end p).
                { apply (chain_consecutive _ _ (w_cons b - 2) p m (p_chain _ _ _ _ _ _ s I j Hj) S2).
                  fold b. replace (S (w_cons b - 2)) with (w_cons b - 1) by lia. exact Hm. }
                destruct (null_zeros p Hcp Np) as [[Zp Sp]|C]; [|right; exact C].
                destruct (null_zeros m Hcm Nm) as [[Zm Sm]|C]; [|right; exact C].
                left.
                assert (Hzz : all_zero (c_start p) (max + max)).
                { apply all_zero_app; [exact Zp|]. replace (c_start p + max) with (c_start m) by (unfold c_end, c_start, c_size in *; lia). exact Zm. }
                cbn [sync_start] in Elt.
                apply (pc_only_inv H min max d data nw span s i _ I Ei (with_pc_same H data w (NullLoop c (c_end p - c_start c)))).
                ** cbn. change (getw s i) with w. rewrite Epc. reflexivity.
                ** unfold pcl, emit_end. gsw s I. cbn [w_pc with_pc w_next w_emit]. split; [exact Hcan|]. split; [|exact Hj]. exact Hce.
                ** unfold sl. gsw s I. cbn [w_pc with_pc w_next]. gsw s I. change (getw s (w_next (getw s i))) with b. exists m. split; [exact Es|].
                   split; [unfold c_end, c_start, c_size in *; lia|]. split.
                   --- eapply az_sub; [exact Hzz|unfold c_end, c_start, c_size in *; lia|unfold c_end, c_start, c_size in *; lia].
                   --- apply (null_chunk_zeros_dont_cut min max d data Hmin Hmax Hpos p Hcp Sp Zp).
             ++ injection E as <-. left.
                apply (pc_only_inv H min max d data nw span s i _ I Ei (with_pc_same H data w (After c 0))).
                ** cbn. change (getw s i) with w. rewrite Epc. reflexivity.
                ** unfold pcl, emit_end. gsw s I. cbn [w_pc with_pc w_next w_emit]. split; [exact Hcan|]. split; [|exact Hj]. exact Hce.
                ** unfold sl. gsw s I. cbn [w_pc with_pc]. left. exact Hpos.
        * destruct ((c_start c =? 0) && (c_size c =? 0)) eqn:Eeq.
          -- exfalso. apply andb_true_iff in Eeq. destruct Eeq as [_ E2]. apply Nat.eqb_eq in E2.
             destruct (canon_bounds min max d data Hmin Hmax Hpos c Hcan) as (_ & Hsz & _). lia.
          -- injection E as <-. left.
             apply (pc_only_inv H min max d data nw span s i _ I Ei (with_pc_same H data w (After c 0))).
             ++ cbn. change (getw s i) with w. rewrite Epc. reflexivity.
             ++ unfold pcl, emit_end. gsw s I. cbn [w_pc with_pc w_next w_emit]. split; [exact Hcan|]. split; [|exact Hj]. exact Hce.
             ++ unfold sl. gsw s I. cbn [w_pc with_pc]. left. exact Hpos.
    - (* NullLoop *)
      destruct Hpcl as (Hcan & Hce & Hj).
      set (j := w_next w) in *. set (b := getw s j) in *.
      assert (Hij : i < j) by (apply (p_next _ _ _ _ _ _ s I i Ei)).
      assert (Hij' : i <> w_next (getw s i)) by (unfold j, w in Hij; lia).
      assert (Hkj : k_cur (p_c s) < j).
      { pose proof (active_ge_kcur min max d data nw span s i I Ei Hactb). lia. }
      pose proof (p_sync _ _ _ _ _ _ s I j Hj Hkj) as Hsy. unfold sync_ok in Hsy. fold b in Hsy.
      destruct Hsl as (m & Sm & Em & Zc & Zd).
      destruct (bucket_head b) as [v|] eqn:Eh.
      + assert (Hcv : canon v).
        { pose proof (p_canon _ _ _ _ _ _ s I j Hj) as Hfb. fold b in Hfb. rewrite Forall_forall in Hfb.
          apply Hfb. eapply nth_error_In. exact Eh. }
        assert (Hvs : c_start v = c_end m).
        { rewrite Sm in Hsy. destruct (w_cons b =? 0) eqn:E0; [discriminate|]. apply Nat.eqb_neq in E0.
          apply (chain_consecutive _ _ (w_cons b - 1) m v (p_chain _ _ _ _ _ _ s I j Hj)); fold b; [symmetry; exact Hsy|].
          replace (S (w_cons b - 1)) with (w_cons b) by lia. exact Eh. }
        destruct (is_null v) eqn:Nv; injection E as <-.
        * destruct (null_zeros v Hcv Nv) as [[Zv Sv]|C]; [left|right; exact C].
          apply (recv_inv H min max d data Hmin Hmax Hpos nw span Hspan s i v (NullLoop c (n + max)) I Ei Hactb Hj Eh eq_refl).
          -- unfold pcl, emit_end. gsw s I. cbn [w_pc with_pc w_next w_emit]. split; [exact Hcan|]. split; [|exact Hj]. exact Hce.
          -- unfold sl. gsw s I. cbn [w_pc with_pc w_next]. gsw s I.
             change (getw s (w_next (getw s i))) with b. cbn [recv_w w_sync]. exists v. split; [reflexivity|].
             split; [unfold c_end, c_start, c_size in *; lia|]. split; [|exact Zd].
             apply all_zero_app; [exact Zc|]. replace (c_start c + (n + max)) with (c_start v) by (unfold c_end, c_start, c_size in *; lia). exact Zv.
        * left.
          apply (recv_inv H min max d data Hmin Hmax Hpos nw span Hspan s i v (After c n) I Ei Hactb Hj Eh eq_refl).
          -- unfold pcl, emit_end. gsw s I. cbn [w_pc with_pc w_next w_emit]. split; [exact Hcan|]. split; [|exact Hj]. exact Hce.
          -- unfold sl. gsw s I. cbn [w_pc with_pc]. right. split; assumption.
      + injection E as <-. left.
        apply (pc_only_inv H min max d data nw span s i _ I Ei (with_pc_same H data w (After c n))).
        * cbn. change (getw s i) with w. rewrite Epc. reflexivity.
        * unfold pcl, emit_end. gsw s I. cbn [w_pc with_pc w_next w_emit]. split; [exact Hcan|]. split; [|exact Hj]. exact Hce.
        * unfold sl. gsw s I. cbn [w_pc with_pc]. right. split; assumption.
    - (* After: one synthetic null chunk per step *)
      destruct Hpcl as (Hcan & Hce & Hj).
      destruct (n <? max) eqn:Enm; injection E as <-; left.
      + (* nothing (more) to emit *)
        apply (pc_only_inv H min max d data nw span s i _ I Ei (with_pc_same H data w Skip)).
        * cbn. change (getw s i) with w. rewrite Epc. reflexivity.
        * unfold pcl. gsw s I. exact Logic.I.
        * unfold sl. gsw s I. exact Logic.I.
      + apply Nat.ltb_ge in Enm.
        destruct Hsl as [Hlt|[Zc Zd]]; [lia|].
        destruct (canon_bounds min max d data Hmin Hmax Hpos c Hcan) as (_ & Hsz & _).
        set (nc := (c_end c, max)).
        assert (Hz1 : all_zero (c_end c) (1 * max)).
        { eapply az_sub; [exact Zc|unfold c_end, c_start, c_size in *; lia|unfold c_end, c_start, c_size in *; lia]. }
        destruct (null_chunks_facts (c_end c) Zd 1 Hz1) as (F1 & F2 & _). cbn [null_chunks] in F1, F2. fold nc in F1, F2.
        assert (Hrec : {| w_pos := w_pos w + max; w_emit := w_emit w ++ [nc];
                          w_cons := w_cons w; w_sync := w_sync w; w_next := w_next w; w_active := true; w_eof := false; w_pc := After nc (n - max) |} =
                       {| w_pos := w_pos w + covered [nc]; w_emit := w_emit w ++ [nc];
                          w_cons := w_cons w; w_sync := w_sync w; w_next := w_next w; w_active := true; w_eof := false; w_pc := After nc (n - max) |}).
        { cbn. unfold c_size, nc. cbn. rewrite Nat.add_0_r. reflexivity. }
        rewrite Hrec.
        apply (push_inv H min max d data Hmin Hmax Hpos nw span Hspan s i _ (After nc (n - max)) I Ei Hactb).
        * rewrite <- Hce. exact F1.
        * exact F2.
        * reflexivity.
        * unfold pcl. rewrite getw_setw by (rewrite (p_n _ _ _ _ _ _ s I); exact Ei). rewrite Nat.eqb_refl.
          cbn [w_pc w_next]. split; [inversion F2; assumption|]. split; [|exact Hj].
          unfold emit_end. rewrite getw_setw by (rewrite (p_n _ _ _ _ _ _ s I); exact Ei). rewrite Nat.eqb_refl.
          cbn [w_emit]. rewrite covered_app. unfold emit_end in Hce. fold w in Hce. change (getw s i) with w.
          assert (Hcn : covered [nc] = max) by (cbn; unfold c_size, nc; cbn; lia).
          assert (Hen : c_end nc = c_end c + max) by (unfold c_end at 1; unfold nc; cbn; reflexivity).
          rewrite Hcn, Hen. lia.
        * unfold sl. rewrite getw_setw by (rewrite (p_n _ _ _ _ _ _ s I); exact Ei). rewrite Nat.eqb_refl.
          cbn [w_pc]. destruct (Nat.lt_ge_cases (n - max) max) as [Hl|Hg]; [left; exact Hl|right].
          split; [|exact Zd]. replace (n - max + max) with n by lia.
          assert (Hsn : c_start nc = c_start c + c_size c) by reflexivity.
          eapply az_sub; [exact Zc|lia|lia].
    - (* Skip *)
      set (j := w_next w) in *. set (b := getw s j) in *.
      destruct ((j <? nworkers s) && negb (w_active b) && (length (w_emit b) <=? w_cons b)) eqn:Ec; injection E as <-; left.
      + apply andb_true_iff in Ec. destruct Ec as [Ec E3]. apply andb_true_iff in Ec. destruct Ec as [E1 E2].
        apply Nat.ltb_lt in E1. rewrite (p_n _ _ _ _ _ _ s I) in E1. apply negb_true_iff in E2. apply Nat.leb_le in E3.
        apply (skip_inv H min max d data Hmin Hmax Hpos nw span Hspan s i I Ei Hactb E1 E2 E3).
      + apply (pc_only_inv H min max d data nw span s i _ I Ei (with_pc_same H data w Top)).
        * cbn. change (getw s i) with w. rewrite Epc. reflexivity.
        * unfold pcl. gsw s I. exact Logic.I.
        * unfold sl. gsw s I. exact Logic.I.
    - discriminate.
  Qed.

  (* ---------- the collector ---------- *)

  Lemma collector_step_inv s s' : PInv s -> step_collector data false s = Some s' -> PInv s'.
  Proof.
    intros I E. unfold step_collector in E.
    destruct (k_done (p_c s)) eqn:Ed; [discriminate|].
    pose proof (co_k min max d data nw span s I Ed) as Hk.
    destruct (negb (k_cur (p_c s) <? nworkers s)) eqn:Ek.
    { apply negb_true_iff, Nat.ltb_ge in Ek. rewrite (p_n _ _ _ _ _ _ s I) in Ek. lia. }
    destruct (bucket_head (getw s (k_cur (p_c s)))) as [v|] eqn:Eh.
    - injection E as <-. apply (take_inv H min max d data Hmin Hmax Hpos nw span Hspan s I Ed v Eh).
    - destruct (w_active (getw s (k_cur (p_c s)))) eqn:Ea; [discriminate|].
      destruct (w_pc (getw s (k_cur (p_c s)))); try discriminate.
      destruct (length data <=? out_length (k_out (p_c s))) eqn:Ecov; injection E as <-.
      + apply Nat.leb_le in Ecov. apply (done_inv min max d data nw span s I Ed Ecov).
      + apply Nat.leb_gt in Ecov. apply (move_inv H min max d data Hmin Hmax Hpos nw span Hspan s I Ed Ea Eh Ecov).
  Qed.

  Theorem pstep_inv s t s' : PInv s -> step s t = Some s' -> PInv s' \/ Collision H.
  Proof.
    intros I E. destruct t as [i|]; cbn in E.
    - eapply worker_step_inv; eauto.
    - left. eapply collector_step_inv; eauto.
  Qed.
End Main.

(* ---------- the initial state and the theorem for every schedule ---------- *)

Section Final.
  Variable H : bytes -> id.
  Variables (min max : nat) (d : N) (data : bytes).
  Hypothesis Hmin : W <= min.
  Hypothesis Hmax : min <= max.
  Hypothesis Hpos : 0 < max.
  Variable n : nat.
  Hypothesis Hn : 1 <= n.

  Let nw := eff_n max data n.
  Let span := length data / nw.

  Lemma nw_pos : 1 <= nw.
  Proof. unfold nw, eff_n. destruct (Nat.min_spec n (length data / max + 1)) as [[_ E]|[_ E]]; rewrite E; lia. Qed.

  Lemma span_ok : forall i, i < nw -> span * i <= length data.
  Proof.
    intros i Hi. pose proof nw_pos. unfold span.
    transitivity (length data / nw * nw); [apply Nat.mul_le_mono_l; lia|].
    rewrite Nat.mul_comm. apply Nat.mul_div_le. lia.
  Qed.

  Lemma getw_init i : i < nw -> getw (pinit max data n) i = init_w nw span i.
  Proof.
    intros Hi. unfold getw, pinit. cbn [p_w]. fold nw. fold span.
    rewrite nth_indep with (d' := init_w nw span 0) by (rewrite map_length, seq_length; exact Hi).
    rewrite map_nth with (d := 0). rewrite seq_nth by exact Hi. reflexivity.
  Qed.

  Lemma init_inv : PInv min max d data nw span (pinit max data n).
  Proof.
    pose proof nw_pos as Hnw.
    constructor.
    - unfold nworkers, pinit. cbn. fold nw. now rewrite map_length, seq_length.
    - intros i Hi. rewrite getw_init by exact Hi. exact Logic.I.
    - intros i Hi. rewrite getw_init by exact Hi. constructor.
    - intros i Hi. unfold emit_end. rewrite getw_init by exact Hi. cbn. unfold covered. cbn. lia.
    - intros i Hi. rewrite getw_init by exact Hi. cbn. lia.
    - intros i Hi. rewrite getw_init by exact Hi. cbn. lia.
    - intros i Hi. rewrite getw_init by exact Hi. reflexivity.
    - intros i Hi. rewrite getw_init by exact Hi. cbn. discriminate.
    - intros i Hi. unfold pcl. rewrite getw_init by exact Hi. exact Logic.I.
    - intros i Hi _. unfold sync_ok. rewrite getw_init by exact Hi. reflexivity.
    - intros a a' Hlt Ha' _. rewrite getw_init by lia. cbn. lia.
    - intros a j Haj Hjn Hj. rewrite getw_init in Hjn by lia. cbn in Hjn. lia.
    - intros a x Hax Hxn Hx. rewrite getw_init in Hxn by lia. cbn in Hxn. lia.
    - intros a Ha. unfold sl. rewrite getw_init by exact Ha. exact Logic.I.
    - intros i Hi. cbn in Hi. lia.
    - cbn. split; constructor.
    - intros _. cbn [p_c pinit k_cur]. split; [lia|]. left. unfold stateA. cbn [p_c pinit k_cur k_out]. split.
      + intros x Hx. lia.
      + unfold frontier. rewrite getw_init by lia. cbn. unfold covered. cbn. lia.
    - cbn. discriminate.
    - intros a Ha _ Hact. rewrite getw_init in Hact by exact Ha. cbn in Hact. discriminate.
  Qed.

  Notation step := (pstep H min max d data false).

  Lemma run_inv_or sched : forall s,
    PInv min max d data nw span s \/ Collision H ->
    PInv min max d data nw span (run step sched s) \/ Collision H.
  Proof.
    induction sched as [|t r IH]; intros s Hs; [exact Hs|].
    cbn. apply IH. destruct Hs as [I|C]; [|right; exact C].
    unfold run1. destruct (step s t) as [s'|] eqn:E; [|left; exact I].
    apply (pstep_inv H min max d data Hmin Hmax Hpos nw span span_ok s t s' I E).
  Qed.

  (* For EVERY schedule of the n chunk workers and the collector: when the collector is done the
     index it has assembled is exactly the single-stream index -- unless two different byte
     strings hash like max zero bytes. *)
  Theorem pchunk_eq_seq sched :
    let s := run step sched (pinit max data n) in
    k_done (p_c s) = true ->
    k_out (p_c s) = seq_index min max d data \/ Collision H.
  Proof.
    intros s Hd. destruct (run_inv_or sched (pinit max data n) (or_introl init_inv)) as [I|C]; [left|right; exact C].
    apply (final_index min max d data Hmin Hmax Hpos nw span (run step sched (pinit max data n)) I Hd).
  Qed.

  (* and at every moment what has been collected so far is a prefix of it *)
  Theorem pchunk_prefix sched :
    let s := run step sched (pinit max data n) in
    (exists rest, seq_index min max d data = k_out (p_c s) ++ rest) \/ Collision H.
  Proof.
    intros s. destruct (run_inv_or sched (pinit max data n) (or_introl init_inv)) as [I|C]; [left|right; exact C].
    destruct (p_out _ _ _ _ _ _ _ I) as [Hc Hf].
    destruct (chain_canon_prefix min max d data Hmin Hmax Hpos _ 0 Hc Hf) as (rest & E1 & _).
    exists rest. unfold seq_index. unfold seq_from in E1. cbn [skipn] in E1. exact E1.
  Qed.
End Final.
