(* Decoding inverted: what an accepted index file must look like, hence
   re-encoding the decoded index reproduces a canonical file byte for byte. *)
From Coq Require Import List NArith Arith Bool Lia ZifyN ZifyNat ZifyBool.
From DS Require Import Gen.Constants Base.Bytes Base.LE64 Model.Format Model.Index
     Proofs.FormatProofs Proofs.DecoderProofs Proofs.IndexProofs Proofs.PrefixProofs.
Import ListNotations.
Local Open Scope N_scope.

Lemma wf_bytes_app a b : wf_bytes (a ++ b) <-> wf_bytes a /\ wf_bytes b.
Proof. unfold wf_bytes. apply Forall_app. Qed.

Lemma read_full_wf_inv k s x s1 a : read_full k s = (Ok x, s1, a) -> s = x ++ s1 /\ length x = k.
Proof.
  unfold read_full. intros E. destruct (take_exact k s) as [[w r]|] eqn:Et; [|destruct s; discriminate].
  inversion E; subst. now apply take_exact_some.
Qed.

Lemma read_u64_wf_inv s x s1 a : read_u64 s = (Ok x, s1, a) -> wf_bytes s ->
  s = le64 x ++ s1 /\ wf_bytes s1 /\ x < two64.
Proof.
  unfold read_u64, bind. intros E Hwf.
  destruct (read_full 8 s) as [[[w|e|p] s0] a0] eqn:Ef; try discriminate.
  cbn in E. inversion E; subst. clear E.
  destruct (read_full_wf_inv _ _ _ _ _ Ef) as [-> Hl].
  apply wf_bytes_app in Hwf. destruct Hwf as [Hw Hs1].
  rewrite u64_small by (now apply un_le64_lt). rewrite le64_un_le64 by assumption.
  split; [reflexivity|]. split; [exact Hs1|]. now apply un_le64_lt.
Qed.

Lemma read_id_wf_inv s x s1 a : read_id s = (Ok x, s1, a) -> wf_bytes s ->
  s = x ++ s1 /\ wf_bytes s1 /\ length x = 32%nat.
Proof.
  unfold read_id. intros E Hwf. destruct (read_full_wf_inv _ _ _ _ _ E) as [-> Hl].
  apply wf_bytes_app in Hwf. destruct Hwf as [_ Hs1]. repeat split; assumption.
Qed.

Lemma read_header_wf_inv s hdr s1 a : read_header s = (Ok (Some hdr), s1, a) -> wf_bytes s ->
  s = le64 (h_size hdr) ++ le64 (h_type hdr) ++ s1 /\ wf_bytes s1 /\ h_size hdr < two64 /\ h_type hdr < two64.
Proof.
  unfold read_header. intros E Hwf.
  destruct (read_u64 s) as [[[x|e|pp] s0] a0] eqn:E1; [|destruct e; discriminate|discriminate].
  destruct (read_u64 s0) as [[[y|e|pp] s2] a2] eqn:E2; [|destruct e; discriminate|discriminate].
  inversion E; subst. clear E.
  destruct (read_u64_wf_inv _ _ _ _ E1 Hwf) as [-> [Hwf0 Hx]].
  destruct (read_u64_wf_inv _ _ _ _ E2 Hwf0) as [-> [Hwf2 Hy]].
  cbn [h_size h_type]. repeat split; assumption.
Qed.

Lemma table_loop_wf_inv : forall fuel acc s items s' a,
  table_loop fuel acc s = (Ok items, s', a) -> wf_bytes s ->
  exists its, items = rev acc ++ its /\ s = enc_titems its ++ le64 0 ++ s' /\ wf_bytes s' /\ Forall wf_titem its.
Proof.
  induction fuel as [|fuel IH]; intros acc s items s' a E Hwf; [discriminate|].
  cbn [table_loop] in E. unfold bind in E.
  destruct (read_u64 s) as [[[off|e|pp] s1] a1] eqn:Eu; try discriminate.
  destruct (read_u64_wf_inv _ _ _ _ Eu Hwf) as [-> [Hwf1 Hoff]].
  destruct (off =? 0) eqn:Ez.
  - apply N.eqb_eq in Ez. subst off. cbn in E. inversion E; subst.
    exists []. rewrite app_nil_r. repeat split; try assumption. constructor.
  - apply N.eqb_neq in Ez.
    destruct (read_id s1) as [[[id|e|pp] s2] a2] eqn:Ei; try discriminate.
    destruct (read_id_wf_inv _ _ _ _ Ei Hwf1) as [-> [Hwf2 Hid]].
    cbn [charge] in E.
    destruct (table_loop fuel ((off, id) :: acc) s2) as [[r s3] a3] eqn:El.
    destruct r; inversion E; subst. clear E.
    destruct (IH _ _ _ _ _ El Hwf2) as [its [Hits [Hs2 [Hwf' Hwfi]]]].
    exists ((off, id) :: its). split; [rewrite Hits; cbn [rev]; now rewrite <- app_assoc|].
    split; [subst s2; cbn [enc_titems flat_map enc_titem]; now rewrite <- !app_assoc|].
    split; [exact Hwf'|]. constructor; [|exact Hwfi]. unfold wf_titem, w64. repeat split; assumption.
Qed.

(* inverse of the offset/size conversion *)
Lemma table_items_of_chunks mx : forall items last cs,
  chunks_of_items mx last items = Ok cs -> last < two64 -> Forall wf_titem items ->
  table_items last cs = items.
Proof.
  induction items as [|[off id] r IH]; intros last cs E Hlast Hwf; cbn [chunks_of_items_v] in E.
  - inversion E. reflexivity.
  - destruct (off <? last); [discriminate|]. destruct (mx <? sub64 off last); [discriminate|].
    destruct (chunks_of_items mx off r) as [cs'|e|p] eqn:Er; try discriminate.
    inversion E; subst. clear E. inversion Hwf as [|? ? Hi Hwf']; subst. destruct Hi as [Hoff _].
    cbn [table_items c_size c_id fst snd]. rewrite add64_sub64 by assumption.
    f_equal. apply IH; assumption.
Qed.

Lemma word_at_app pre x rest : x < two64 -> word_at (pre ++ le64 x ++ rest) (length pre) = x.
Proof.
  intros Hx. unfold word_at, slice. rewrite skipn_app, skipn_all, Nat.sub_diag. cbn [skipn app].
  rewrite firstn_app, le64_length, Nat.sub_diag, firstn_O, app_nil_r.
  rewrite <- (le64_length x) at 1. rewrite firstn_all. now apply un_le64_le64.
Qed.

(* the shape of every well-formed byte string IndexFromReader accepts *)
Lemma index_from_reader_inv d b i rest a :
  index_from_reader d b = (Ok i, rest, a) -> wf_bytes b ->
  exists sz x y items,
    b = le64s [sz; CaFormatIndex; ix_flags i; ix_min i; ix_avg i; ix_max i]
        ++ le64s [MaxUint64; CaFormatTable] ++ enc_titems items
        ++ le64s [0; 0; x; y; CaFormatTableTailMarker] ++ rest /\
    sz < two64 /\ x < two64 /\ y < two64 /\ Forall wf_titem items /\
    ix_flags i < two64 /\ ix_min i < two64 /\ ix_avg i < two64 /\ ix_max i < two64 /\
    chunks_of_items (ix_max i) 0 items = Ok (ix_chunks i).
Proof.
  unfold index_from_reader_v. intros E Hwf. unfold bind in E.
  destruct (next Fixed b) as [[[oe|er|pp] s1] a1] eqn:E1; try discriminate.
  destruct oe as [e1|]; [|discriminate]. destruct e1; try discriminate.
  destruct (negb (digest_ok d feature_flags)); [discriminate|].
  destruct (next Fixed s1) as [[[oe2|er|pp] s2] a2] eqn:E2; try discriminate.
  destruct oe2 as [e2|]; [|discriminate]. destruct e2; try discriminate.
  cbn [charge] in E.
  destruct (chunks_of_items chunk_max 0 items) as [cs|er|pp] eqn:Ec; try discriminate.
  cbn in E. inversion E; subst. clear E. cbn [ix_flags ix_min ix_avg ix_max ix_chunks].
  (* first element *)
  unfold next, bind in E1.
  destruct (read_header b) as [[[oh|er|pp] t1] b1] eqn:Eh1; try discriminate.
  destruct oh as [hdr1|]; [|discriminate].
  destruct (next_body Fixed hdr1 t1) as [[[e'|er|pp] t2] b2] eqn:Eb1; try discriminate.
  cbn in E1. inversion E1; subst. clear E1.
  destruct (read_header_wf_inv _ _ _ _ Eh1 Hwf) as [-> [Hwf1 [Hsz1 Hty1]]]. clear Eh1.
  destruct (next_body_type_of _ _ _ _ _ Eb1) as [Hh1 Ht1]. cbn [elem_header elem_type] in Hh1, Ht1. subst h.
  destruct hdr1 as [sz1 ty1]. cbn [h_type h_size] in *. subst ty1.
  rewrite next_body_index in Eb1. unfold bind in Eb1.
  destruct (read_u64 t1) as [[[v1|er|pp] u1] c1] eqn:R1; try discriminate.
  destruct (read_u64_wf_inv _ _ _ _ R1 Hwf1) as [-> [Hw1 Hv1]]. clear R1.
  destruct (read_u64 u1) as [[[v2|er|pp] u2] c2] eqn:R2; try discriminate.
  destruct (read_u64_wf_inv _ _ _ _ R2 Hw1) as [-> [Hw2 Hv2]]. clear R2.
  destruct (read_u64 u2) as [[[v3|er|pp] u3] c3] eqn:R3; try discriminate.
  destruct (read_u64_wf_inv _ _ _ _ R3 Hw2) as [-> [Hw3 Hv3]]. clear R3.
  destruct (read_u64 u3) as [[[v4|er|pp] u4] c4] eqn:R4; try discriminate.
  destruct (read_u64_wf_inv _ _ _ _ R4 Hw3) as [-> [Hw4 Hv4]]. clear R4.
  cbn in Eb1. inversion Eb1; subst. clear Eb1.
  (* second element *)
  unfold next, bind in E2.
  destruct (read_header s1) as [[[oh|er|pp] t3] b3] eqn:Eh2; try discriminate.
  destruct oh as [hdr2|]; [|discriminate].
  destruct (next_body Fixed hdr2 t3) as [[[e'|er|pp] t4] b4] eqn:Eb2; try discriminate.
  cbn in E2. inversion E2; subst. clear E2.
  destruct (read_header_wf_inv _ _ _ _ Eh2 Hw4) as [-> [Hwf3 [Hsz2 Hty2]]]. clear Eh2.
  destruct (next_body_type_of _ _ _ _ _ Eb2) as [Hh2 Ht2]. cbn [elem_header elem_type] in Hh2, Ht2. subst h0.
  destruct hdr2 as [sz2 ty2]. cbn [h_type h_size] in *. subst ty2.
  rewrite next_body_table in Eb2.
  destruct (negb (sz2 =? MaxUint64)) eqn:Esz; [discriminate|].
  apply negb_false_iff, N.eqb_eq in Esz. subst sz2.
  unfold bind in Eb2. unfold with_input_fuel in Eb2.
  destruct (table_loop (S (length t3)) [] t3) as [[[its|er|pp] u5] c5] eqn:Etl; try discriminate.
  destruct (table_loop_wf_inv _ _ _ _ _ _ Etl Hwf3) as [its' [Hits [Ht3 [Hw5 Hwfi]]]].
  cbn [rev app] in Hits. subst its'. clear Etl.
  destruct (read_u64 u5) as [[[f2|er|pp] u6] c6] eqn:R5; try discriminate.
  destruct (read_u64_wf_inv _ _ _ _ R5 Hw5) as [-> [Hw6 Hf2]]. clear R5.
  destruct (negb (f2 =? 0)) eqn:Ef2; [discriminate|].
  apply negb_false_iff, N.eqb_eq in Ef2. subst f2.
  destruct (read_u64 u6) as [[[x|er|pp] u7] c7] eqn:R6; try discriminate.
  destruct (read_u64_wf_inv _ _ _ _ R6 Hw6) as [-> [Hw7 Hx]]. clear R6.
  destruct (read_u64 u7) as [[[y|er|pp] u8] c8] eqn:R7; try discriminate.
  destruct (read_u64_wf_inv _ _ _ _ R7 Hw7) as [-> [Hw8 Hy]]. clear R7.
  destruct (read_u64 u8) as [[[mk|er|pp] u9] c9] eqn:R8; try discriminate.
  destruct (read_u64_wf_inv _ _ _ _ R8 Hw8) as [-> [Hw9 Hmk]]. clear R8.
  destruct (negb (mk =? CaFormatTableTailMarker)) eqn:Emk; [discriminate|].
  apply negb_false_iff, N.eqb_eq in Emk. subst mk.
  cbn in Eb2. inversion Eb2; subst. clear Eb2.
  exists sz1, x, y, items. split.
  - unfold le64s. cbn [flat_map]. rewrite <- !app_assoc. cbn [app]. reflexivity.
  - repeat split; assumption.
Qed.

Lemma enc_titems_length' items : Forall wf_titem items -> lenN (enc_titems items) = 40 * N.of_nat (length items).
Proof. intros Hwf. unfold lenN. rewrite enc_titems_length by assumption. lia. Qed.

(* A canonical file that IndexFromReader accepts and reads to its last byte is reproduced by WriteTo. *)
Theorem index_reencode d b i :
  wf_bytes b -> decode_index_rest d b = Ok (i, []) -> canonical b -> encode_index i = b.
Proof.
  intros Hwf E [Hc1 [Hc2 Hc3]]. unfold decode_index_rest, run_result in E.
  destruct (index_from_reader d b) as [[[i'|er|pp] rest] a] eqn:Ei; try discriminate.
  inversion E; subst. clear E.
  destruct (index_from_reader_inv _ _ _ _ _ Ei Hwf) as [sz [x [y [items [Hb [Hsz [Hx [Hy [Hwfi [Hff [Hmn [Hav [Hmx Hch]]]]]]]]]]]]].
  rewrite app_nil_r in Hb.
  assert (Hti : table_items 0 (ix_chunks i) = items) by (eapply table_items_of_chunks; eauto; lia).
  assert (Hlen : length b = (48 + 16 + 40 * length items + 40)%nat).
  { rewrite Hb, !app_length, !le64s_length, enc_titems_length by assumption. cbn [length]. lia. }
  (* the three unchecked words *)
  assert (Esz : sz = 48).
  { rewrite <- Hc1. rewrite Hb. unfold le64s. cbn [flat_map]. rewrite <- !app_assoc.
    symmetry. apply (word_at_app [] sz _ Hsz). }
  assert (Ex : x = 48).
  { rewrite <- Hc2. rewrite Hlen.
    set (pre := le64s [sz; CaFormatIndex; ix_flags i; ix_min i; ix_avg i; ix_max i]
                ++ le64s [MaxUint64; CaFormatTable] ++ enc_titems items ++ le64 0 ++ le64 0).
    assert (Hpre : length pre = (48 + 16 + 40 * length items + 40 - 24)%nat).
    { unfold pre. rewrite !app_length, !le64s_length, enc_titems_length, !le64_length by assumption. cbn [length]. lia. }
    rewrite <- Hpre. rewrite Hb. unfold pre, le64s. cbn [flat_map]. rewrite <- !app_assoc. cbn [app].
    symmetry.
    pose proof (word_at_app (le64 sz ++ le64 CaFormatIndex ++ le64 (ix_flags i) ++ le64 (ix_min i) ++ le64 (ix_avg i) ++
                             le64 (ix_max i) ++ le64 MaxUint64 ++ le64 CaFormatTable ++ enc_titems items ++ le64 0 ++ le64 0)
                            x (le64 y ++ le64 CaFormatTableTailMarker) Hx) as Hw.
    rewrite <- !app_assoc in Hw. exact Hw. }
  assert (Ey : y = N.of_nat (length b - 48)).
  { rewrite <- Hc3. rewrite Hlen.
    set (pre := le64s [sz; CaFormatIndex; ix_flags i; ix_min i; ix_avg i; ix_max i]
                ++ le64s [MaxUint64; CaFormatTable] ++ enc_titems items ++ le64 0 ++ le64 0 ++ le64 x).
    assert (Hpre : length pre = (48 + 16 + 40 * length items + 40 - 16)%nat).
    { unfold pre. rewrite !app_length, !le64s_length, enc_titems_length, !le64_length by assumption. cbn [length]. lia. }
    rewrite <- Hpre. rewrite Hb. unfold pre, le64s. cbn [flat_map]. rewrite <- !app_assoc. cbn [app].
    symmetry.
    pose proof (word_at_app (le64 sz ++ le64 CaFormatIndex ++ le64 (ix_flags i) ++ le64 (ix_min i) ++ le64 (ix_avg i) ++
                             le64 (ix_max i) ++ le64 MaxUint64 ++ le64 CaFormatTable ++ enc_titems items ++ le64 0 ++ le64 0 ++ le64 x)
                            y (le64 CaFormatTableTailMarker) Hy) as Hw.
    rewrite <- !app_assoc in Hw. exact Hw. }
  unfold encode_index. cbn [encode_elem h_size h_type]. rewrite Hti.
  rewrite Hb at 1. subst sz x. rewrite Ey, Hlen.
  rewrite lenN_app, enc_titems_length' by assumption. unfold lenN at 1. rewrite le64s_length. cbn [length].
  rewrite <- !app_assoc.
  replace (N.of_nat (8 * 2) + 40 * N.of_nat (length items) + 40) with (N.of_nat (48 + 16 + 40 * length items + 40 - 48)) by lia.
  reflexivity.
Qed.

(* ---------- what IndexFromReader accepts lies in WriteTo's domain ---------- *)

Lemma chunks_of_items_sound mx : forall items last cs,
  chunks_of_items mx last items = Ok cs -> last < two64 -> Forall wf_titem items ->
  starts_from last cs /\ Forall (fun c => c_size c <= mx) cs /\ last + total_size cs < two64 /\
  Forall (fun c => length (c_id c) = 32%nat) cs /\
  (last = 0 -> match cs with [] => True | c :: _ => c_size c <> 0 end).
Proof.
  induction items as [|[off id] r IH]; intros last cs E Hlast Hwf; cbn [chunks_of_items_v] in E.
  - inversion E; subst. cbn. repeat split; try constructor. lia.
  - destruct (off <? last) eqn:Elt; [discriminate|]. apply N.ltb_ge in Elt.
    destruct (mx <? sub64 off last) eqn:Ebig; [discriminate|]. apply N.ltb_ge in Ebig.
    destruct (chunks_of_items mx off r) as [cs'|e|p] eqn:Er; try discriminate.
    inversion E; subst. clear E. inversion Hwf as [|? ? Hi Hwf']; subst. destruct Hi as [Hoff [Hnz Hid]].
    destruct (IH _ _ Er Hoff Hwf') as [Hst [Hsz [Htot [Hids _]]]].
    rewrite sub64_exact in * by lia.
    cbn [starts_from total_size fold_right c_start c_size c_id fst snd]. fold (total_size cs').
    replace (last + (off - last)) with off by lia.
    repeat split; try assumption; try (constructor; assumption); lia.
Qed.

Theorem index_accepted_wf d b i rest :
  wf_bytes b -> decode_index_rest d b = Ok (i, rest) -> wf_index i.
Proof.
  intros Hwf E. unfold decode_index_rest, run_result in E.
  destruct (index_from_reader d b) as [[[i'|er|pp] rest'] a] eqn:Ei; try discriminate.
  inversion E; subst. clear E.
  destruct (index_from_reader_inv _ _ _ _ _ Ei Hwf) as [sz [x [y [items [_ [_ [_ [_ [Hwfi [Hff [Hmn [Hav [Hmx Hch]]]]]]]]]]]]].
  destruct (chunks_of_items_sound _ _ _ _ Hch ltac:(lia) Hwfi) as [Hst [Hsz [Htot [Hids Hfirst]]]].
  constructor; try assumption. now apply Hfirst.
Qed.
