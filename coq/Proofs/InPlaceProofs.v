(* Lemmas about Model/InPlace.v. *)
From Coq Require Import List NArith Arith Bool Lia.
From DS Require Import Base.Bytes Base.Hash Model.InPlace.
Import ListNotations.

Lemma write_at_length f s d : s + length d <= length f -> length (write_at f s d) = length f.
Proof.
  intros L. unfold write_at. rewrite !app_length, firstn_length, skipn_length. lia.
Qed.

Lemma slice_write_at_same f s d : s + length d <= length f -> slice (write_at f s d) s (length d) = d.
Proof.
  intros L. unfold slice, write_at.
  rewrite skipn_app, firstn_length, Nat.min_l by lia. rewrite skipn_all2 by (rewrite firstn_length; lia).
  rewrite Nat.sub_diag. cbn [skipn app]. rewrite firstn_app, firstn_all, Nat.sub_diag. cbn. apply app_nil_r.
Qed.

Lemma slice_write_at_before f s d s' n : s' + n <= s -> s <= length f ->
  slice (write_at f s d) s' n = slice f s' n.
Proof.
  intros L1 L2. unfold slice, write_at.
  rewrite skipn_app, firstn_length, Nat.min_l by lia.
  replace (s' - s) with 0 by lia. cbn [skipn].
  rewrite firstn_app, skipn_length, firstn_length, Nat.min_l by lia.
  replace (n - (s - s')) with 0 by lia. cbn [firstn]. rewrite app_nil_r.
  rewrite <- (firstn_skipn s f) at 2. rewrite skipn_app, firstn_length, Nat.min_l by lia.
  replace (s' - s) with 0 by lia. cbn [skipn].
  rewrite firstn_app, skipn_length, firstn_length, Nat.min_l by lia.
  replace (n - (s - s')) with 0 by lia. cbn [firstn]. now rewrite app_nil_r.
Qed.

Lemma slice_write_at_after f s d s' n : s + length d <= s' -> s + length d <= length f ->
  slice (write_at f s d) s' n = slice f s' n.
Proof.
  intros L1 L2. unfold slice, write_at. f_equal.
  rewrite skipn_app, firstn_length, Nat.min_l by lia. rewrite skipn_all2 by (rewrite firstn_length; lia).
  cbn [app]. rewrite skipn_app. rewrite skipn_all2 by lia. cbn [app].
  rewrite skipn_skipn. f_equal. lia.
Qed.

Section InPlaceProofs.
  Variable H : bytes -> id.
  Variable fetch : id -> option bytes.

  Definition range_of (f : bytes) (r : row) : bytes := slice f (r_start r) (r_size r).
  Definition disjoint (a b : row) : Prop :=
    r_start a + r_size a <= r_start b \/ r_start b + r_size b <= r_start a.
  Definition in_bounds (n : nat) (r : row) : Prop := r_start r + r_size r <= n.

  Variable idx : list row.
  Variable f0 : bytes.
  Hypothesis idx_disjoint : forall a b, In a idx -> In b idx -> a <> b -> disjoint a b.
  Hypothesis idx_bounds : forall a, In a idx -> in_bounds (length f0) a.

  Lemma row_eq_dec (a b : row) : {a = b} + {a <> b}.
  Proof. decide equality; try apply Nat.eq_dec. apply N.eq_dec. Qed.

  (* one job: the other rows' ranges are untouched; a fetch happens only when the range did not hash *)
  Lemma write_chunk_spec f r f1 q :
    length f = length f0 -> In r idx -> write_chunk H fetch f r = Some (f1, q) ->
    length f1 = length f0 /\
    (forall a, In a idx -> a <> r -> range_of f1 a = range_of f a) /\
    ((q = [] /\ f1 = f /\ H (range_of f r) = r_id r) \/
     (q = [r_id r] /\ H (range_of f r) <> r_id r /\ exists d, fetch (r_id r) = Some d /\ range_of f1 r = d)).
  Proof.
    intros L I. unfold write_chunk. fold (range_of f r).
    destruct (N.eqb (H (range_of f r)) (r_id r)) eqn:E.
    - intros X. inversion X; subst. apply N.eqb_eq in E. repeat split; auto.
    - apply N.eqb_neq in E. destruct (fetch (r_id r)) as [d|] eqn:F; [|discriminate].
      destruct (Nat.eqb (length d) (r_size r)) eqn:S; [|discriminate]. apply Nat.eqb_eq in S.
      intros X. inversion X; subst. pose proof (idx_bounds r I) as B. unfold in_bounds in B.
      split; [rewrite write_at_length; lia|]. split.
      + intros a Ia Na. unfold range_of. pose proof (idx_bounds a Ia) as Ba. unfold in_bounds in Ba.
        destruct (idx_disjoint a r Ia I Na) as [D|D].
        * apply slice_write_at_before; lia.
        * apply slice_write_at_after; lia.
      + right. repeat split; auto. exists d. split; [reflexivity|]. unfold range_of. rewrite <- S.
        apply slice_write_at_same. lia.
  Qed.

  (* zero-filling a null section (clipped to the section): its own range becomes zeroes, every other
     indexed range is untouched *)
  Lemma write_null_spec f r : length f = length f0 -> In r idx ->
    length (write_null f r) = length f0 /\
    range_of (write_null f r) r = repeat 0%N (r_size r) /\
    (forall a, In a idx -> a <> r -> range_of (write_null f r) a = range_of f a).
  Proof.
    intros L I. pose proof (idx_bounds r I) as B. unfold in_bounds in B. unfold write_null.
    assert (Lr : length (repeat 0%N (r_size r)) = r_size r) by apply repeat_length.
    assert (Bf : r_start r + r_size r <= length f) by (rewrite L; exact B).
    split; [rewrite write_at_length; rewrite ?repeat_length; assumption|]. split.
    - unfold range_of. rewrite <- Lr at 2. apply slice_write_at_same. rewrite repeat_length. exact Bf.
    - intros a Ia Na. unfold range_of. pose proof (idx_bounds a Ia) as Ba. unfold in_bounds in Ba.
      destruct (idx_disjoint a r Ia I Na) as [D|D].
      + apply slice_write_at_before; [exact D|]. eapply Nat.le_trans; [apply Nat.le_add_r|exact Bf].
      + apply slice_write_at_after; rewrite repeat_length; [exact D|exact Bf].
  Qed.

  (* Invariant of a run: every indexed range is as in f0 or hashes to its id. *)
  Definition settled (f : bytes) : Prop :=
    length f = length f0 /\ forall a, In a idx -> range_of f a = range_of f0 a \/ H (range_of f a) = r_id a.

  Hypothesis store_verifies : forall i d, fetch i = Some d -> H d = i.

  Lemma assemble_inplace_spec jobs : forall f f' q,
    settled f -> Forall (fun r => In r idx) jobs ->
    assemble_inplace H fetch jobs f = Some (f', q) ->
    settled f' /\
    (forall r, In r jobs -> H (range_of f' r) = r_id r) /\
    (forall a, In a idx -> ~ In a jobs -> range_of f' a = range_of f a) /\
    (forall i, In i q -> exists r, In r jobs /\ r_id r = i /\ H (range_of f r) <> i).
  Proof.
    induction jobs as [|r rest IH]; intros f f' q St Fa E; cbn [assemble_inplace] in E.
    - inversion E; subst. split; [exact St|]. split; [intros r []|]. split; [reflexivity|intros i []].
    - inversion Fa as [|? ? Ir Frest]; subst.
      destruct (write_chunk H fetch f r) as [[f1 q1]|] eqn:W; [|discriminate].
      destruct (assemble_inplace H fetch rest f1) as [[f2 q2]|] eqn:A; [|discriminate].
      inversion E; subst. clear E. destruct St as [L Sa].
      destruct (write_chunk_spec _ _ _ _ L Ir W) as (L1 & Oth & Cases).
      assert (Hr1 : H (range_of f1 r) = r_id r).
      { destruct Cases as [(_ & -> & Hr)|(_ & _ & d & F & Rd)]; [exact Hr|]. rewrite Rd. now apply store_verifies. }
      assert (St1 : settled f1).
      { split; [exact L1|]. intros a Ia. destruct (row_eq_dec a r) as [->|Na]; [now right|].
        rewrite (Oth a Ia Na). apply Sa, Ia. }
      destruct (IH _ _ _ St1 Frest A) as (St2 & Done & Untouched & Fetched).
      split; [exact St2|]. split; [|split].
      + intros a [<-|Ia]; [|now apply Done].
        destruct (in_dec row_eq_dec r rest) as [Y|Nn]; [now apply Done|].
        rewrite (Untouched r Ir Nn). exact Hr1.
      + intros a Ia Nn. rewrite (Untouched a Ia ltac:(intros X; apply Nn; now right)).
        apply Oth; [exact Ia|]. intros ->. apply Nn. now left.
      + intros i Ii. apply in_app_iff in Ii. destruct Ii as [Ii|Ii].
        * destruct Cases as [(-> & _)|(-> & Nh & _)]; [destruct Ii|].
          destruct Ii as [<-|[]]. exists r. split; [now left|]. split; [reflexivity|exact Nh].
        * destruct (Fetched i Ii) as (a & Ia & Ea & Na). exists a. split; [now right|]. split; [exact Ea|].
          (* a's range in f: if a <> r it is the same as in f1; if a = r then f1 holds a valid range *)
          destruct (row_eq_dec a r) as [->|Nar]; [congruence|].
          assert (Iai : In a idx) by (rewrite Forall_forall in Frest; now apply Frest).
          now rewrite <- (Oth a Iai Nar).
  Qed.

  (* inplace_rerun *)
  Lemma inplace_rerun jobs f' q :
    Forall (fun r => In r idx) jobs ->
    assemble_inplace H fetch jobs f0 = Some (f', q) ->
    length f' = length f0 /\
    (forall r, In r jobs -> H (range_of f' r) = r_id r) /\
    (forall a, In a idx -> ~ In a jobs -> range_of f' a = range_of f0 a) /\
    (forall i, In i q -> exists r, In r jobs /\ r_id r = i /\ H (range_of f0 r) <> i).
  Proof.
    intros Fa E.
    assert (St0 : settled f0) by (split; [reflexivity|intros a _; now left]).
    destruct (assemble_inplace_spec jobs f0 f' q St0 Fa E) as ((L & _) & A & B & C). auto.
  Qed.
End InPlaceProofs.
