(* Lemmas about index files (Model/Index.v). *)
From Coq Require Import List NArith Arith Bool Lia ZifyN ZifyNat ZifyBool.
From DS Require Import Gen.Constants Base.Bytes Base.LE64 Model.Format Model.Index Proofs.FormatProofs.
Import ListNotations.
Local Open Scope N_scope.

(* ---------- table_items / chunks_of_items ---------- *)

Lemma chunk_eta (c : chunk) : c = (c_id c, c_start c, c_size c).
Proof. destruct c as [[i s] z]. reflexivity. Qed.

Lemma table_items_length off cs : length (table_items off cs) = length cs.
Proof. revert off. induction cs as [|c r IH]; intros off; cbn [table_items length]; [reflexivity|]. now rewrite IH. Qed.

Lemma table_items_wf : forall cs off,
  off + total_size cs < two64 ->
  (off <> 0 \/ match cs with [] => True | c :: _ => c_size c <> 0 end) ->
  Forall (fun c => length (c_id c) = 32%nat) cs ->
  Forall wf_titem (table_items off cs).
Proof.
  induction cs as [|c r IH]; intros off Htot Hnz Hids; cbn [table_items]; [constructor|].
  cbn [total_size fold_right] in Htot. fold (total_size r) in Htot.
  inversion Hids as [|? ? Hid Hids']; subst.
  rewrite add64_exact by lia.
  constructor.
  - unfold wf_titem, w64. repeat split; [lia| |exact Hid]. destruct Hnz as [Hnz|Hnz]; lia.
  - apply IH; [lia| |assumption]. left. destruct Hnz as [Hnz|Hnz]; lia.
Qed.

Lemma chunks_of_table_items mx : forall cs off,
  off + total_size cs < two64 ->
  Forall (fun c => c_size c <= mx) cs ->
  starts_from off cs ->
  chunks_of_items mx off (table_items off cs) = Ok cs.
Proof.
  induction cs as [|c r IH]; intros off Htot Hsz Hst; cbn [table_items chunks_of_items]; [reflexivity|].
  cbn [total_size fold_right] in Htot. fold (total_size r) in Htot.
  inversion Hsz as [|? ? Hc Hsz']; subst. destruct Hst as [Hs Hst].
  rewrite add64_exact by lia.
  replace (sub64 (off + c_size c) off) with (c_size c) by (rewrite sub64_exact by lia; lia).
  replace (mx <? c_size c) with false by (symmetry; apply N.ltb_ge; exact Hc).
  rewrite IH; [|lia|assumption|assumption].
  rewrite <- Hs. now rewrite <- chunk_eta.
Qed.

(* ---------- decode after encode ---------- *)

Lemma index_elem_wf i : wf_index i ->
  wf_elem (Index (mkHeader 48 CaFormatIndex) (ix_flags i) (ix_min i) (ix_avg i) (ix_max i)).
Proof. intros []. cbn [wf_elem h_type h_size]. unfold w64. repeat split; try assumption; lia. Qed.

Lemma table_elem_wf i : wf_index i ->
  wf_elem (Table (mkHeader MaxUint64 CaFormatTable) (table_items 0 (ix_chunks i))).
Proof.
  intros []. cbn [wf_elem]. split; [reflexivity|].
  apply table_items_wf; [lia| |assumption]. right. assumption.
Qed.

Lemma index_from_reader_encode d i :
  wf_index i -> digest_ok d (ix_flags i) = true ->
  okrun (index_from_reader d) (encode_index i) i [].
Proof.
  intros Hwf Hd. unfold index_from_reader, encode_index.
  eapply okrun_bind; [apply next_encode, index_elem_wf, Hwf|cbv beta iota].
  rewrite Hd. cbn [negb].
  eapply okrun_bind.
  { rewrite <- (app_nil_r (encode_elem (Table _ _))). apply next_encode, table_elem_wf, Hwf. }
  cbv beta iota.
  eapply okrun_bind; [apply okrun_charge|cbv beta].
  destruct Hwf. rewrite chunks_of_table_items by (assumption || lia).
  destruct i. apply okrun_ret.
Qed.

Theorem index_roundtrip d i :
  wf_index i -> digest_ok d (ix_flags i) = true -> decode_index d (encode_index i) = Ok i.
Proof.
  intros Hwf Hd. destruct (index_from_reader_encode d i Hwf Hd) as [a E].
  unfold decode_index. now rewrite E.
Qed.

(* ---------- rejection: digest flag, oversize, decreasing ---------- *)

Lemma okrun_eq {A} (m : M A) s x s' : okrun m s x s' -> exists a, m s = (Ok x, s', a).
Proof. intros H. exact H. Qed.

(* the first element is an index element whose flag disagrees with the digest in use:
   rejected whatever follows *)
Theorem index_rejects_digest_mismatch d h ff mn av mx rest :
  wf_elem (Index h ff mn av mx) -> digest_ok d ff = false ->
  decode_index d (encode_elem (Index h ff mn av mx) ++ rest) = Err DigestMismatch.
Proof.
  intros Hwf Hd. destruct (next_encode _ rest Hwf) as [a E].
  unfold decode_index, index_from_reader, bind. rewrite E. rewrite Hd. reflexivity.
Qed.

Lemma chunks_of_items_rejects mx : forall items last j,
  (j < length items)%nat ->
  mx < sub64 (fst (nth j items (0, []))) (match j with O => last | S j' => fst (nth j' items (0, [])) end) ->
  chunks_of_items mx last items = Err ChunkTooLarge.
Proof.
  induction items as [|[off id] r IH]; intros last j Hj Hbig; [cbn in Hj; lia|].
  cbn [chunks_of_items]. destruct j as [|j].
  - cbn [nth fst] in Hbig. apply N.ltb_lt in Hbig. now rewrite Hbig.
  - destruct (mx <? sub64 off last); [reflexivity|].
    rewrite (IH off j); [reflexivity|cbn [length] in Hj; lia|].
    cbn [nth] in Hbig. destruct j as [|j']; cbn [nth fst] in *; exact Hbig.
Qed.

(* a file made of an index element and a table in which some row is too large in the
   decoder's unsigned arithmetic is rejected, whatever follows the table *)
Lemma index_rejects_wrapped d h ff mn av mx th items rest j :
  wf_elem (Index h ff mn av mx) -> digest_ok d ff = true -> wf_elem (Table th items) ->
  (j < length items)%nat ->
  mx < sub64 (fst (nth j items (0, []))) (prev_offset j items) ->
  decode_index d (encode_elem (Index h ff mn av mx) ++ encode_elem (Table th items) ++ rest) = Err ChunkTooLarge.
Proof.
  intros Hwi Hd Hwt Hj Hbig.
  destruct (next_encode _ (encode_elem (Table th items) ++ rest) Hwi) as [a1 E1].
  destruct (next_encode _ rest Hwt) as [a2 E2].
  unfold decode_index, index_from_reader, bind. rewrite E1, Hd. cbn [negb]. rewrite E2.
  cbn [charge]. rewrite (chunks_of_items_rejects mx items 0 j Hj); [reflexivity|].
  unfold prev_offset in Hbig. destruct j; exact Hbig.
Qed.

Lemma wf_titem_nth items j : Forall wf_titem items -> (j < length items)%nat -> fst (nth j items (0, [])) < two64.
Proof.
  intros Hwf Hj. rewrite Forall_forall in Hwf. specialize (Hwf (nth j items (0, [])) (nth_In _ _ Hj)).
  destruct (nth j items (0, [])) as [o id]. destruct Hwf as [Ho _]. exact Ho.
Qed.

Lemma prev_offset_lt items j : Forall wf_titem items -> (j < length items)%nat -> prev_offset j items < two64.
Proof.
  intros Hwf Hj. destruct j as [|j]; cbn [prev_offset]; [lia|]. apply wf_titem_nth; [exact Hwf|lia].
Qed.

(* row j ends more than max bytes after row j-1 *)
Theorem index_rejects_oversize d h ff mn av mx th items rest j :
  wf_elem (Index h ff mn av mx) -> digest_ok d ff = true -> wf_elem (Table th items) ->
  (j < length items)%nat ->
  prev_offset j items <= fst (nth j items (0, [])) ->
  mx < fst (nth j items (0, [])) - prev_offset j items ->
  decode_index d (encode_elem (Index h ff mn av mx) ++ encode_elem (Table th items) ++ rest) = Err ChunkTooLarge.
Proof.
  intros Hwi Hd Hwt Hj Hle Hbig. eapply index_rejects_wrapped; eauto.
  destruct Hwt as [_ Hit]. rewrite sub64_exact; [exact Hbig|exact Hle|]. now apply wf_titem_nth.
Qed.

(* row j ends before row j-1 (drop > 0): rejected as long as 2^64 - drop exceeds max *)
Theorem index_rejects_decreasing d h ff mn av mx th items rest j :
  wf_elem (Index h ff mn av mx) -> digest_ok d ff = true -> wf_elem (Table th items) ->
  (j < length items)%nat ->
  fst (nth j items (0, [])) < prev_offset j items ->
  mx < two64 - (prev_offset j items - fst (nth j items (0, []))) ->
  decode_index d (encode_elem (Index h ff mn av mx) ++ encode_elem (Table th items) ++ rest) = Err ChunkTooLarge.
Proof.
  intros Hwi Hd Hwt Hj Hlt Hbig. eapply index_rejects_wrapped; eauto.
  destruct Hwt as [_ Hit]. rewrite sub64_wrap; [exact Hbig|exact Hlt|]. now apply prev_offset_lt.
Qed.
