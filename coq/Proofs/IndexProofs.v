(* Lemmas about index files (Model/Index.v). *)
From Coq Require Import List NArith Arith Bool Lia ZifyN ZifyNat ZifyBool.
From DS Require Import Gen.Constants Base.Bytes Base.LE64 Model.Format Model.Index Proofs.FormatProofs.
Import ListNotations.
Local Open Scope N_scope.

(* ---------- table_items / chunks_of_items ---------- *)

Lemma chunk_eta (c : chunk) : c = (c_id c, c_start c, c_size c).
Proof. destruct c as [[i s] z]. reflexivity. Qed.

Lemma table_items_length off cs : length (table_items off cs) = length cs.
Proof. revert off. induction cs as [|c r IH]; intros off; cbn [table_items length]; [reflexivity|]. now rewrite IH. Qed.

Lemma table_items_wf : forall cs off,
  off + total_size cs < two64 ->
  (off <> 0 \/ match cs with [] => True | c :: _ => c_size c <> 0 end) ->
  Forall (fun c => length (c_id c) = 32%nat) cs ->
  Forall wf_titem (table_items off cs).
Proof.
  induction cs as [|c r IH]; intros off Htot Hnz Hids; cbn [table_items]; [constructor|].
  cbn [total_size fold_right] in Htot. fold (total_size r) in Htot.
  inversion Hids as [|? ? Hid Hids']; subst.
  rewrite add64_exact by lia.
  constructor.
  - unfold wf_titem, w64. repeat split; [lia| |exact Hid]. destruct Hnz as [Hnz|Hnz]; lia.
  - apply IH; [lia| |assumption]. left. destruct Hnz as [Hnz|Hnz]; lia.
Qed.

Lemma chunks_of_table_items mx : forall cs off,
  off + total_size cs < two64 ->
  Forall (fun c => c_size c <= mx) cs ->
  starts_from off cs ->
  chunks_of_items mx off (table_items off cs) = Ok cs.
Proof.
  induction cs as [|c r IH]; intros off Htot Hsz Hst; cbn [table_items chunks_of_items_v]; [reflexivity|].
  cbn [total_size fold_right] in Htot. fold (total_size r) in Htot.
  inversion Hsz as [|? ? Hc Hsz']; subst. destruct Hst as [Hs Hst].
  rewrite add64_exact by lia.
  replace (off + c_size c <? off) with false by (symmetry; apply N.ltb_ge; lia).
  replace (sub64 (off + c_size c) off) with (c_size c) by (rewrite sub64_exact by lia; lia).
  replace (mx <? c_size c) with false by (symmetry; apply N.ltb_ge; exact Hc).
  rewrite IH; [|lia|assumption|assumption].
  rewrite <- Hs. now rewrite <- chunk_eta.
Qed.

(* ---------- decode after encode ---------- *)

Lemma index_elem_wf i : wf_index i ->
  wf_elem (Index (mkHeader 48 CaFormatIndex) (ix_flags i) (ix_min i) (ix_avg i) (ix_max i)).
Proof. intros []. cbn [wf_elem h_type h_size]. unfold w64. repeat split; try assumption; lia. Qed.

Lemma table_elem_wf i : wf_index i ->
  wf_elem (Table (mkHeader MaxUint64 CaFormatTable) (table_items 0 (ix_chunks i))).
Proof.
  intros []. cbn [wf_elem]. split; [reflexivity|].
  apply table_items_wf; [lia| |assumption]. right. assumption.
Qed.

Lemma index_from_reader_encode d i :
  wf_index i -> digest_ok d (ix_flags i) = true ->
  okrun (index_from_reader d) (encode_index i) i [].
Proof.
  intros Hwf Hd. unfold index_from_reader_v, encode_index.
  eapply okrun_bind; [apply next_encode, index_elem_wf, Hwf|cbv beta iota].
  rewrite Hd. cbn [negb].
  eapply okrun_bind.
  { rewrite <- (app_nil_r (encode_elem (Table _ _))). apply next_encode, table_elem_wf, Hwf. }
  cbv beta iota.
  eapply okrun_bind; [apply okrun_charge|cbv beta].
  destruct Hwf. rewrite chunks_of_table_items by (assumption || lia).
  destruct i. apply okrun_ret.
Qed.

Theorem index_roundtrip d i :
  wf_index i -> digest_ok d (ix_flags i) = true -> decode_index d (encode_index i) = Ok i.
Proof.
  intros Hwf Hd. destruct (index_from_reader_encode d i Hwf Hd) as [a E].
  unfold decode_index. now rewrite E.
Qed.

(* ---------- rejection: digest flag, oversize, decreasing ---------- *)

Lemma okrun_eq {A} (m : M A) s x s' : okrun m s x s' -> exists a, m s = (Ok x, s', a).
Proof. intros H. exact H. Qed.

(* the first element is an index element whose flag disagrees with the digest in use:
   rejected whatever follows *)
Theorem index_rejects_digest_mismatch d h ff mn av mx rest :
  wf_elem (Index h ff mn av mx) -> digest_ok d ff = false ->
  decode_index d (encode_elem (Index h ff mn av mx) ++ rest) = Err DigestMismatch.
Proof.
  intros Hwf Hd. destruct (next_encode _ rest Hwf) as [a E].
  unfold decode_index, index_from_reader_v, bind. rewrite E. rewrite Hd. reflexivity.
Qed.

Lemma chunks_of_items_rejects mx : forall items last j,
  (j < length items)%nat ->
  let cur := fst (nth j items (0, [])) in
  let prev := match j with O => last | S j' => fst (nth j' items (0, [])) end in
  cur < prev \/ mx < sub64 cur prev ->
  exists e, chunks_of_items mx last items = Err e /\ table_error e.
Proof.
  induction items as [|[off id] r IH]; intros last j Hj cur prev Hbad; [cbn in Hj; lia|].
  cbn [chunks_of_items_v]. destruct (off <? last) eqn:Elt; [exists DecreasingOffset; split; [reflexivity|now right]|].
  destruct (mx <? sub64 off last) eqn:Ebig; [exists ChunkTooLarge; split; [reflexivity|now left]|].
  destruct j as [|j].
  - subst cur prev. cbn [nth fst] in Hbad. apply N.ltb_ge in Elt. apply N.ltb_ge in Ebig. lia.
  - destruct (IH off j) as [e [E He]]; [cbn [length] in Hj; lia| |rewrite E; exists e; split; [reflexivity|exact He]].
    subst cur prev. cbn [nth] in Hbad. destruct j as [|j']; cbn [nth fst] in *; exact Hbad.
Qed.

(* a file made of an index element and a table in which some row ends before the preceding one, or is
   too large, is rejected, whatever follows the table *)
Lemma index_rejects_bad_row d h ff mn av mx th items rest j :
  wf_elem (Index h ff mn av mx) -> digest_ok d ff = true -> wf_elem (Table th items) ->
  (j < length items)%nat ->
  fst (nth j items (0, [])) < prev_offset j items \/
  mx < sub64 (fst (nth j items (0, []))) (prev_offset j items) ->
  exists e, decode_index d (encode_elem (Index h ff mn av mx) ++ encode_elem (Table th items) ++ rest) = Err e /\
            table_error e.
Proof.
  intros Hwi Hd Hwt Hj Hbad.
  destruct (next_encode _ (encode_elem (Table th items) ++ rest) Hwi) as [a1 E1].
  destruct (next_encode _ rest Hwt) as [a2 E2].
  destruct (chunks_of_items_rejects mx items 0 j Hj) as [e [E He]].
  { unfold prev_offset in Hbad. destruct j; exact Hbad. }
  exists e. split; [|exact He].
  unfold decode_index, index_from_reader_v, bind. rewrite E1, Hd. cbn [negb]. rewrite E2.
  cbn [charge]. rewrite E. reflexivity.
Qed.

Lemma wf_titem_nth items j : Forall wf_titem items -> (j < length items)%nat -> fst (nth j items (0, [])) < two64.
Proof.
  intros Hwf Hj. rewrite Forall_forall in Hwf. specialize (Hwf (nth j items (0, [])) (nth_In _ _ Hj)).
  destruct (nth j items (0, [])) as [o id]. destruct Hwf as [Ho _]. exact Ho.
Qed.

(* row j ends more than max bytes after row j-1 *)
Theorem index_rejects_oversize d h ff mn av mx th items rest j :
  wf_elem (Index h ff mn av mx) -> digest_ok d ff = true -> wf_elem (Table th items) ->
  (j < length items)%nat ->
  prev_offset j items <= fst (nth j items (0, [])) ->
  mx < fst (nth j items (0, [])) - prev_offset j items ->
  exists e, decode_index d (encode_elem (Index h ff mn av mx) ++ encode_elem (Table th items) ++ rest) = Err e /\
            table_error e.
Proof.
  intros Hwi Hd Hwt Hj Hle Hbig. eapply index_rejects_bad_row; eauto. right.
  destruct Hwt as [_ Hit]. rewrite sub64_exact; [exact Hbig|exact Hle|]. now apply wf_titem_nth.
Qed.

(* row j ends before row j-1: rejected, whatever the declared maximum *)
Theorem index_rejects_decreasing d h ff mn av mx th items rest j :
  wf_elem (Index h ff mn av mx) -> digest_ok d ff = true -> wf_elem (Table th items) ->
  (j < length items)%nat ->
  fst (nth j items (0, [])) < prev_offset j items ->
  exists e, decode_index d (encode_elem (Index h ff mn av mx) ++ encode_elem (Table th items) ++ rest) = Err e /\
            table_error e.
Proof. intros Hwi Hd Hwt Hj Hlt. eapply index_rejects_bad_row; eauto. Qed.


(* ---------- WriteTo goes by the sizes: the Start fields do not enter the encoding ---------- *)

Lemma table_items_ignores_start : forall cs cs' off,
  map (fun c => (c_id c, c_size c)) cs = map (fun c => (c_id c, c_size c)) cs' ->
  table_items off cs = table_items off cs'.
Proof.
  induction cs as [|c r IH]; intros cs' off E; destruct cs' as [|c' r']; try discriminate; [reflexivity|].
  cbn [map] in E. inversion E as [[Hid Hsz HE]]. cbn [table_items]. rewrite Hid, Hsz. f_equal. now apply IH.
Qed.

Theorem encode_index_ignores_start i j :
  ix_flags i = ix_flags j -> ix_min i = ix_min j -> ix_avg i = ix_avg j -> ix_max i = ix_max j ->
  map (fun c => (c_id c, c_size c)) (ix_chunks i) = map (fun c => (c_id c, c_size c)) (ix_chunks j) ->
  encode_index i = encode_index j.
Proof.
  intros Hf Hm Ha Hx Hc. unfold encode_index. rewrite Hf, Hm, Ha, Hx.
  now rewrite (table_items_ignores_start _ _ 0 Hc).
Qed.

(* row k of the written table ends at the sum of the sizes of rows 0..k (64-bit arithmetic) *)
Lemma table_items_offsets : forall cs off k,
  (k < length cs)%nat ->
  fst (nth k (table_items off cs) (0%N, [])) = fold_left (fun a c => add64 a (c_size c)) (firstn (S k) cs) off.
Proof.
  induction cs as [|c r IH]; intros off k Hk; [cbn in Hk; lia|].
  cbn [table_items]. destruct k as [|k]; [reflexivity|].
  cbn [nth firstn fold_left]. apply IH. cbn [length] in Hk. lia.
Qed.
