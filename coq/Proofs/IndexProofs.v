(* Lemmas about index files (Model/Index.v). *)
From Coq Require Import List NArith Arith Bool Lia ZifyN ZifyNat ZifyBool.
From DS Require Import Gen.Constants Base.Bytes Base.LE64 Model.Format Model.Index Proofs.FormatProofs.
Import ListNotations.
Local Open Scope N_scope.

(* ---------- table_items / chunks_of_items ---------- *)

Lemma chunk_eta (c : chunk) : c = (c_id c, c_start c, c_size c).
Proof. destruct c as [[i s] z]. reflexivity. Qed.

Lemma table_items_length off cs : length (table_items off cs) = length cs.
Proof. revert off. induction cs as [|c r IH]; intros off; cbn [table_items length]; [reflexivity|]. now rewrite IH. Qed.

Lemma table_items_wf : forall cs off,
  off + total_size cs < two64 ->
  (off <> 0 \/ match cs with [] => True | c :: _ => c_size c <> 0 end) ->
  Forall (fun c => length (c_id c) = 32%nat) cs ->
  Forall wf_titem (table_items off cs).
Proof.
  induction cs as [|c r IH]; intros off Htot Hnz Hids; cbn [table_items]; [constructor|].
  cbn [total_size fold_right] in Htot. fold (total_size r) in Htot.
  inversion Hids as [|? ? Hid Hids']; subst.
  rewrite add64_exact by lia.
  constructor.
  - unfold wf_titem, w64. repeat split; [lia| |exact Hid]. destruct Hnz as [Hnz|Hnz]; lia.
  - apply IH; [lia| |assumption]. left. destruct Hnz as [Hnz|Hnz]; lia.
Qed.

Lemma chunks_of_table_items mx : forall cs off,
  off + total_size cs < two64 ->
  Forall (fun c => c_size c <= mx) cs ->
  starts_from off cs ->
  chunks_of_items mx off (table_items off cs) = Ok cs.
Proof.
  induction cs as [|c r IH]; intros off Htot Hsz Hst; cbn [table_items chunks_of_items]; [reflexivity|].
  cbn [total_size fold_right] in Htot. fold (total_size r) in Htot.
  inversion Hsz as [|? ? Hc Hsz']; subst. destruct Hst as [Hs Hst].
  rewrite add64_exact by lia.
  replace (sub64 (off + c_size c) off) with (c_size c) by (rewrite sub64_exact by lia; lia).
  replace (mx <? c_size c) with false by (symmetry; apply N.ltb_ge; exact Hc).
  rewrite IH; [|lia|assumption|assumption].
  rewrite <- Hs. now rewrite <- chunk_eta.
Qed.

(* ---------- decode after encode ---------- *)

Lemma index_elem_wf i : wf_index i ->
  wf_elem (Index (mkHeader 48 CaFormatIndex) (ix_flags i) (ix_min i) (ix_avg i) (ix_max i)).
Proof. intros []. cbn [wf_elem h_type h_size]. unfold w64. repeat split; try assumption; lia. Qed.

Lemma table_elem_wf i : wf_index i ->
  wf_elem (Table (mkHeader MaxUint64 CaFormatTable) (table_items 0 (ix_chunks i))).
Proof.
  intros []. cbn [wf_elem]. split; [reflexivity|].
  apply table_items_wf; [lia| |assumption]. right. assumption.
Qed.

Lemma index_from_reader_encode d i :
  wf_index i -> digest_ok d (ix_flags i) = true ->
  okrun (index_from_reader d) (encode_index i) i [].
Proof.
  intros Hwf Hd. unfold index_from_reader, encode_index.
  eapply okrun_bind; [apply next_encode, index_elem_wf, Hwf|cbv beta iota].
  rewrite Hd. cbn [negb].
  eapply okrun_bind.
  { rewrite <- (app_nil_r (encode_elem (Table _ _))). apply next_encode, table_elem_wf, Hwf. }
  cbv beta iota.
  eapply okrun_bind; [apply okrun_charge|cbv beta].
  destruct Hwf. rewrite chunks_of_table_items by (assumption || lia).
  destruct i. apply okrun_ret.
Qed.

Theorem index_roundtrip d i :
  wf_index i -> digest_ok d (ix_flags i) = true -> decode_index d (encode_index i) = Ok i.
Proof.
  intros Hwf Hd. destruct (index_from_reader_encode d i Hwf Hd) as [a E].
  unfold decode_index. now rewrite E.
Qed.
