(* Proofs about Model/TarModel.v:

   Part 1  shape of tar_tree: the elements of a directory are its head elements, for every
           child a filename element followed by the child's elements, and a goodbye element;
           every element is well-formed; tar_tree is total on well-formed trees.
   Part 2  the archive decoder (through Proofs/ArchiveSim.v) turns the elements of a tree
           back into its nodes: archive_roundtrip.
   Part 3  tar_ev on the walk of a tree equals tar_tree (the event-stream logic of tar():
           fsBufReader, path.Dir(f.Path) == dir).
   Part 4  sort_xattrs does not depend on the order in which the keys are listed:
           tar_deterministic. *)
From Coq Require Import List NArith Arith Bool Lia Permutation ZifyN ZifyNat ZifyBool.
From DS Require Import Gen.Constants Base.Bytes Base.LE64 Model.Format Model.Archive Model.Goodbye Model.Mode
     Model.TarModel Proofs.FormatProofs Proofs.ArchiveSim Proofs.ModeProofs.
From DS Require Base.FS Base.GoPath Model.Sip Proofs.GoodbyeProofs.
Import ListNotations.
Local Open Scope N_scope.

(* ---------- well-formed trees ---------- *)

(* Go lengths are ints; 2^61 leaves room for the header arithmetic *)
Definition small (s : bytes) : Prop := lenN s < 2 ^ 61.

Definition wf_xattr (kv : bytes * bytes) : Prop := ~ In 0 (fst kv) /\ small (fst kv) /\ small (snd kv).

Record wf_attrs (a : attrs) : Prop := mkWfAttrs {
  wa_mode : t_mode a < 2 ^ 16;
  wa_type : valid_type (N.land (t_mode a) S_IFMT) = true;
  wa_uid : t_uid a < two64;
  wa_gid : t_gid a < two64;
  wa_mtime : t_mtime a < two64;
  wa_xattrs : Forall wf_xattr (t_xattrs a)
}.

Definition type_is (a : attrs) (ty : N) : Prop := N.land (t_mode a) S_IFMT = ty.

(* an entry name: a single path component *)
Definition good_name (nm : bytes) : Prop := bad_name nm = false /\ small nm.

Fixpoint wf_tree (t : tree) : Prop :=
  match t with
  | TDir a ch =>
      wf_attrs a /\ type_is a S_IFDIR /\ N.of_nat (length ch) < 2 ^ 32 /\
      (fix all (ch : list (bytes * tree)) : Prop :=
         match ch with
         | [] => True
         | (nm, c) :: r => good_name nm /\ wf_tree c /\ all r
         end) ch
  | TFile a d => wf_attrs a /\ type_is a S_IFREG /\ small d
  | TLink a tg => wf_attrs a /\ type_is a S_IFLNK /\ small tg
  | TDev a r => wf_attrs a /\ (type_is a S_IFCHR \/ type_is a S_IFBLK)
  | TOther a => wf_attrs a /\ (type_is a S_IFIFO \/ type_is a S_IFSOCK)
  end.

Definition wf_kids (ch : list (bytes * tree)) : Prop := Forall (fun p => good_name (fst p) /\ wf_tree (snd p)) ch.

Lemma wf_tree_dir a ch :
  wf_tree (TDir a ch) <-> wf_attrs a /\ type_is a S_IFDIR /\ N.of_nat (length ch) < 2 ^ 32 /\ wf_kids ch.
Proof.
  cbn [wf_tree]. unfold wf_kids.
  assert (H : forall ch, (fix all (ch : list (bytes * tree)) : Prop :=
                            match ch with [] => True | (nm, c) :: r => good_name nm /\ wf_tree c /\ all r end) ch
                         <-> Forall (fun p => good_name (fst p) /\ wf_tree (snd p)) ch).
  { clear. induction ch as [|[nm c] r IH]; [split; [constructor|trivial]|].
    split.
    - intros (Hn & Hc & Hr). constructor; [cbn; auto|apply IH; exact Hr].
    - intros Hf. inversion Hf as [|? ? [Hn Hc] Hr]; subst. cbn in Hn, Hc. split; [exact Hn|split; [exact Hc|apply IH; exact Hr]]. }
  rewrite H. tauto.
Qed.

(* induction over trees with the children of a directory *)
Fixpoint tree_ind' (P : tree -> Prop)
  (Hdir : forall a ch, Forall (fun p => P (snd p)) ch -> P (TDir a ch))
  (Hfile : forall a d, P (TFile a d)) (Hlink : forall a tg, P (TLink a tg))
  (Hdev : forall a r, P (TDev a r)) (Hoth : forall a, P (TOther a)) (t : tree) : P t :=
  match t with
  | TDir a ch =>
      Hdir a ch ((fix go (ch : list (bytes * tree)) : Forall (fun p => P (snd p)) ch :=
                    match ch with
                    | [] => Forall_nil _
                    | p :: r => Forall_cons p (tree_ind' P Hdir Hfile Hlink Hdev Hoth (snd p)) (go r)
                    end) ch)
  | TFile a d => Hfile a d
  | TLink a tg => Hlink a tg
  | TDev a r => Hdev a r
  | TOther a => Hoth a
  end.

(* ---------- Part 1: shape ---------- *)

(* the children of a directory, encoded one after the other *)
Definition tar_kids (path : list bytes) : list (bytes * tree) -> option (list (bytes * list elem)) :=
  fix kids (ch : list (bytes * tree)) : option (list (bytes * list elem)) :=
    match ch with
    | [] => Some []
    | (nm, c) :: r =>
        if archived c then
          match tar_tree (path ++ [nm]) nm c, kids r with
          | Some els, Some rs => Some ((nm, els) :: rs)
          | _, _ => None
          end
        else kids r
    end.

Lemma tar_tree_dir path name a ch :
  tar_tree path name (TDir a ch) =
    let hd := head_elems (event_of path name (TDir a ch)) in
    match tar_kids path ch with
    | None => None
    | Some enc =>
        match dir_body enc (esize hd) [] [] with
        | (body, n, items) =>
            match goodbye_of n items with
            | None => None
            | Some g => Some (hd ++ body ++ [g])
            end
        end
    end.
Proof. reflexivity. Qed.

Lemma tar_kids_cons path nm c r :
  tar_kids path ((nm, c) :: r) =
    if archived c then
      match tar_tree (path ++ [nm]) nm c, tar_kids path r with
      | Some els, Some rs => Some ((nm, els) :: rs)
      | _, _ => None
      end
    else tar_kids path r.
Proof. reflexivity. Qed.

(* the children tar() writes something for *)
Definition arch_kids (ch : list (bytes * tree)) : list (bytes * tree) := filter (fun p => archived (snd p)) ch.

Lemma arch_kids_cons nm c r :
  arch_kids ((nm, c) :: r) = if archived c then (nm, c) :: arch_kids r else arch_kids r.
Proof. reflexivity. Qed.

Definition kid_stream (p : bytes * list elem) : list elem := filename_elem (GoPath.base (fst p)) :: snd p.

Lemma dir_body_spec : forall enc n items acc,
  exists n' items',
    dir_body enc n items acc = (acc ++ flat_map kid_stream enc, n', items ++ items') /\
    length items' = length enc /\ Forall wf_gitem items'.
Proof.
  induction enc as [|[nm els] r IH]; intros n items acc.
  - exists n, []. cbn [dir_body flat_map]. rewrite !app_nil_r. repeat split; constructor.
  - cbn [dir_body].
    destruct (IH (n + esize (filename_elem (GoPath.base nm) :: els))
                 (items ++ [child_item n (n + esize (filename_elem (GoPath.base nm) :: els)) (GoPath.base nm)])
                 (acc ++ filename_elem (GoPath.base nm) :: els)) as (n' & items' & E & Hl & Hw).
    exists n', (child_item n (n + esize (filename_elem (GoPath.base nm) :: els)) (GoPath.base nm) :: items').
    rewrite E. cbn [flat_map kid_stream fst snd]. rewrite <- !app_assoc. cbn [app].
    repeat split; [cbn [length]; now rewrite Hl|].
    constructor; [|exact Hw]. unfold child_item, wf_gitem, w64. repeat split; apply u64_lt.
Qed.

Lemma forall_perm {A} (P : A -> Prop) l l' : Permutation l l' -> Forall P l -> Forall P l'.
Proof. intros Hp Hf. rewrite Forall_forall in *. intros x Hx. apply Hf. eapply Permutation_in; [symmetry; exact Hp|exact Hx]. Qed.

(* the goodbye element of a directory with fewer than 2^32 entries exists and is well-formed *)
Lemma goodbye_of_wf n items :
  Forall wf_gitem items -> N.of_nat (length items) < 2 ^ 32 ->
  exists g, goodbye_of n items = Some g /\ wf_elem g /\ exists h its, g = Goodbye h its.
Proof.
  intros Hw Hl. unfold goodbye_of.
  set (items1 := map (fun it => (sub64 (u64 n) (it_offset it), it_size it, it_hash it)) items).
  destruct (GoodbyeProofs.bst_inorder_proof items1) as (out & E & Hlen & _ & Hperm).
  rewrite E. eexists. split; [reflexivity|]. split; [|eexists; eexists; reflexivity].
  assert (Hw1 : Forall wf_gitem items1).
  { unfold items1. rewrite Forall_map. eapply Forall_impl; [|exact Hw].
    intros [[o s] h] (Ho & Hs & Hh). unfold wf_gitem, it_offset, it_size, it_hash. cbn [fst snd].
    repeat split; [apply sub64_lt|exact Hs|exact Hh]. }
  assert (Hwo : Forall wf_gitem out) by (apply (forall_perm _ items1); [symmetry; exact Hperm|exact Hw1]).
  assert (Hlo : length out = length items) by (rewrite Hlen; unfold items1; apply map_length).
  unfold goodbye_elem. cbn [wf_elem]. rewrite app_length. cbn [length].
  repeat split.
  - f_equal. lia.
  - change (2 ^ 32) with 4294967296 in Hl. lia.
  - apply Forall_app. split; [exact Hwo|]. constructor; [|constructor].
    unfold wf_gitem, w64. repeat split; try apply u64_lt; try reflexivity.
  - unfold last_hash. rewrite rev_app_distr. reflexivity.
Qed.

Lemma sort_xattrs_in_aux : forall l acc x,
  In x (fold_left (fun acc kv => insert_kv kv acc) l acc) -> In x l \/ In x acc.
Proof.
  assert (Hins : forall kv l x, In x (insert_kv kv l) -> x = kv \/ In x l).
  { intros kv l. induction l as [|y r IH]; intros x Hx; cbn [insert_kv] in Hx.
    - destruct Hx as [<-|[]]. now left.
    - destruct (FS.bytes_cmp (fst kv) (fst y)).
      + destruct Hx as [<-|Hx]; [now left|right; now right].
      + destruct Hx as [<-|Hx]; [now left|right; exact Hx].
      + destruct Hx as [<-|Hx]; [right; now left|]. destruct (IH _ Hx) as [->|H]; [now left|right; now right]. }
  induction l as [|kv l IH]; intros acc x Hx; cbn [fold_left] in Hx; [now right|].
  destruct (IH _ _ Hx) as [H|H]; [left; now right|].
  destruct (Hins _ _ _ H) as [->|H']; [left; now left|now right].
Qed.

Lemma sort_xattrs_in l x : In x (sort_xattrs l) -> In x l.
Proof. intros H. destruct (sort_xattrs_in_aux l [] x H) as [H'|[]]. exact H'. Qed.

Lemma sort_xattrs_wf l : Forall wf_xattr l -> Forall wf_xattr (sort_xattrs l).
Proof. intros H. rewrite Forall_forall in *. intros x Hx. apply H, sort_xattrs_in, Hx. Qed.

Lemma lenN_cons {A} (x : A) (l : list A) : N.of_nat (length (x :: l)) = N.of_nat (length l) + 1.
Proof. cbn [length]. lia. Qed.

Lemma xattr_elem_wf kv : wf_xattr kv -> wf_elem (xattr_elem kv).
Proof.
  intros (_ & Hk & Hv). unfold xattr_elem, small, lenN in *. cbn [wf_elem]. unfold wf_string, lenN.
  rewrite app_length. cbn [length]. change (2 ^ 61) with 2305843009213693952 in *.
  rewrite Nat2N.inj_add, Nat2N.inj_succ. split; [f_equal; lia|lia].
Qed.

Lemma head_elems_wf path name t :
  wf_attrs (tree_attrs t) -> Forall wf_elem (head_elems (event_of path name t)).
Proof.
  intros [Hm Ht Hu Hg Hmt Hx]. unfold head_elems. constructor.
  - unfold entry_elem, event_of. cbn [wf_elem fe_mode fe_uid fe_gid fe_mtime].
    rewrite (mode_roundtrip _ Hm Ht). unfold w64.
    repeat split; try apply u64_lt; try assumption; try reflexivity.
    change (2 ^ 16) with 65536 in Hm. lia.
  - rewrite Forall_map. cbn [event_of fe_xattrs].
    eapply Forall_impl; [|apply sort_xattrs_wf; exact Hx]. intros kv. apply xattr_elem_wf.
Qed.

Lemma filename_elem_wf nm : small nm -> wf_elem (filename_elem nm).
Proof.
  unfold small, filename_elem. cbn [wf_elem]. unfold wf_string. change (2 ^ 61) with 2305843009213693952.
  intros H. split; [reflexivity|lia].
Qed.

Lemma strip_cons c r :
  GoPath.strip_trailing_slashes (c :: r) =
    match GoPath.strip_trailing_slashes r with
    | [] => if GoPath.is_slash c then [] else [c]
    | x :: r' => c :: x :: r'
    end.
Proof. reflexivity. Qed.

Lemma strip_noslash : forall p, GoPath.noslash p -> p <> [] -> GoPath.strip_trailing_slashes p = p.
Proof.
  induction p as [|c r IH]; intros Hns Hne; [congruence|].
  apply GoPath.noslash_cons in Hns. destruct Hns as [Hc Hr].
  rewrite strip_cons. destruct r as [|d r'].
  - cbn. apply GoPath.is_slash_false in Hc. rewrite Hc. reflexivity.
  - rewrite (IH Hr) by discriminate. reflexivity.
Qed.

(* path.Base of a single component is the component *)
Lemma base_good_name nm : good_name nm -> GoPath.base nm = nm.
Proof.
  intros [Hb _]. unfold bad_name in Hb. destruct nm as [|c r]; [discriminate|].
  rewrite !orb_false_iff in Hb. destruct Hb as [[_ _] Hs].
  assert (Hns : GoPath.noslash (c :: r)).
  { unfold GoPath.noslash. intros Hin.
    assert (Ht : existsb (fun x : N => x =? 47) (c :: r) = true).
    { apply existsb_exists. exists GoPath.slash. split; [exact Hin|reflexivity]. }
    rewrite Hs in Ht. discriminate. }
  unfold GoPath.base.
  rewrite (strip_noslash (c :: r) Hns) by discriminate.
  rewrite (GoPath.split_path_noslash (c :: r) Hns). reflexivity.
Qed.

(* ---------- tar_kids, totality, well-formed elements ---------- *)

Definition kid_rel (path : list bytes) (p : bytes * tree) (q : bytes * list elem) : Prop :=
  fst q = fst p /\ tar_tree (path ++ [fst p]) (fst p) (snd p) = Some (snd q).

Lemma tar_kids_spec path : forall ch enc, tar_kids path ch = Some enc -> Forall2 (kid_rel path) (arch_kids ch) enc.
Proof.
  induction ch as [|[nm c] r IH]; intros enc E.
  - cbn in E. inversion E. constructor.
  - rewrite tar_kids_cons in E. rewrite arch_kids_cons. destruct (archived c); [|apply IH, E].
    destruct (tar_tree (path ++ [nm]) nm c) as [els|] eqn:Ec; [|discriminate].
    destruct (tar_kids path r) as [rs|] eqn:Er; [|discriminate].
    inversion E; subst. constructor; [split; [reflexivity|exact Ec]|apply IH; reflexivity].
Qed.

Lemma goodbye_of_inv n items g : goodbye_of n items = Some g -> exists its, g = goodbye_elem its.
Proof.
  unfold goodbye_of. destruct (make_goodbye_bst _) as [t|]; [|discriminate].
  intros E. inversion E. eexists. reflexivity.
Qed.

(* the elements of a directory *)
Lemma tar_tree_dir_inv path name a ch els :
  tar_tree path name (TDir a ch) = Some els ->
  exists enc its,
    tar_kids path ch = Some enc /\
    els = head_elems (event_of path name (TDir a ch)) ++ flat_map kid_stream enc ++ [goodbye_elem its].
Proof.
  rewrite tar_tree_dir. cbv zeta. destruct (tar_kids path ch) as [enc|]; [|discriminate].
  destruct (dir_body_spec enc (esize (head_elems (event_of path name (TDir a ch)))) [] []) as (n' & items' & E & _ & _).
  rewrite E. cbn [app]. destruct (goodbye_of n' items') as [g|] eqn:Eg; [|discriminate].
  intros H. inversion H; subst. destruct (goodbye_of_inv _ _ _ Eg) as [its ->].
  exists enc, its. split; reflexivity.
Qed.

Lemma tar_tree_total : forall t, wf_tree t -> forall path name,
  exists els, tar_tree path name t = Some els /\ Forall wf_elem els.
Proof.
  induction t as [a ch IH|a d|a tg|a r|a] using tree_ind'; intros Hwf path name.
  - apply wf_tree_dir in Hwf. destruct Hwf as (Ha & Hty & Hlen & Hk).
    assert (Hkids : exists enc, tar_kids path ch = Some enc /\ (length enc <= length ch)%nat /\
                                Forall (fun q => small (fst q) /\ GoPath.base (fst q) = fst q /\ Forall wf_elem (snd q)) enc).
    { clear Hlen. induction ch as [|[nm c] r IHr]; [exists []; repeat split; constructor|].
      inversion IH as [|? ? Hc Hr]; subst. inversion Hk as [|? ? [Hn Hwc] Hkr]; subst. cbn [fst snd] in *.
      destruct (Hc Hwc (path ++ [nm]) nm) as (els & Ee & Hwe).
      destruct (IHr Hr Hkr) as (rs & Er & Hlr & Hwr).
      rewrite tar_kids_cons. destruct (archived c); [|exists rs; repeat split; [exact Er|cbn [length]; lia|exact Hwr]].
      exists ((nm, els) :: rs). rewrite Ee, Er. repeat split; [cbn [length]; lia|].
      constructor; [|exact Hwr]. cbn [fst snd]. repeat split; [apply Hn|apply base_good_name; exact Hn|exact Hwe]. }
    destruct Hkids as (enc & Ek & Hle & Hwenc).
    rewrite tar_tree_dir. cbv zeta. rewrite Ek.
    destruct (dir_body_spec enc (esize (head_elems (event_of path name (TDir a ch)))) [] []) as (n' & items' & E & Hli & Hwi).
    rewrite E. cbn [app].
    assert (Hli' : N.of_nat (length items') < 2 ^ 32) by (rewrite Hli; lia).
    destruct (goodbye_of_wf n' items' Hwi Hli') as (g & Eg & Hwg & _).
    rewrite Eg. eexists. split; [reflexivity|].
    apply Forall_app. split; [apply (head_elems_wf path name (TDir a ch)); exact Ha|].
    apply Forall_app. split; [|constructor; [exact Hwg|constructor]].
    clear -Hwenc. induction Hwenc as [|[nm els] r (Hs & Hb & Hw) Hr IHr]; [constructor|].
    cbn [fst snd] in Hs, Hb, Hw. cbn [flat_map kid_stream fst snd app].
    constructor; [rewrite Hb; apply filename_elem_wf; exact Hs|].
    apply Forall_app. split; assumption.
  - destruct Hwf as (Ha & Hty & Hs). cbn [tar_tree]. eexists. split; [reflexivity|].
    apply Forall_app. split; [apply (head_elems_wf path name (TFile a d)); exact Ha|].
    constructor; [|constructor]. unfold payload_elem, small in *. cbn [wf_elem].
    change (2 ^ 61) with 2305843009213693952 in Hs. split; [reflexivity|lia].
  - destruct Hwf as (Ha & Hty & Hs). cbn [tar_tree]. eexists. split; [reflexivity|].
    apply Forall_app. split; [apply (head_elems_wf path name (TLink a tg)); exact Ha|].
    constructor; [|constructor]. unfold symlink_elem, small in *. cbn [wf_elem]. unfold wf_string.
    change (2 ^ 61) with 2305843009213693952 in Hs. split; [reflexivity|lia].
  - destruct Hwf as (Ha & Hty). cbn [tar_tree]. eexists. split; [reflexivity|].
    apply Forall_app. split; [apply (head_elems_wf path name (TDev a r)); exact Ha|].
    constructor; [|constructor]. unfold device_elem. cbn [wf_elem]. unfold w64.
    pose proof (rdev_major_lt r). pose proof (rdev_minor_lt r).
    change (2 ^ 12) with 4096 in *. change (2 ^ 20) with 1048576 in *. repeat split; lia.
  - cbn [tar_tree]. exists []. split; [reflexivity|constructor].
Qed.

(* ---------- Part 2: what the archive decoder makes of the elements ---------- *)

Definition meta_of (a : attrs) : meta := mkMeta (t_uid a) (t_gid a) (t_mode a) (t_mtime a).
Definition xs_of (a : attrs) : list (bytes * bytes) := sort_xattrs (t_xattrs a).

(* the nodes ArchiveDecoder.Next is expected to return for the tree rooted at [path] *)
Fixpoint nodes_of (path : list bytes) (t : tree) : list node :=
  match t with
  | TDir a ch =>
      NDirectory path (meta_of a) (xs_of a) ::
      flat_map (fun p => match p with (nm, c) => nodes_of (path ++ [nm]) c end) ch
  | TFile a d => [NFile path (meta_of a) (xs_of a) (lenN d) d]
  | TLink a tg => [NSymlink path (meta_of a) (xs_of a) tg]
  | TDev a r => [NDevice path (meta_of a) (xs_of a) (rdev_major r) (rdev_minor r)]
  | TOther _ => []
  end.

(* a logical stream that starts with goodbyes and then a filename (or ends) *)
Inductive ws : list elem -> Prop :=
| ws_nil : ws []
| ws_gb h items r : ws r -> ws (Goodbye h items :: r)
| ws_fn h n r : ws (Filename h n :: r).

Definition delimited (ls : list elem) : Prop := ls <> [] /\ ws ls.

Lemma lruns_ext d1 s1 ls1 d2 s2 ls2 ns : lnext d1 s1 ls1 = lnext d2 s2 ls2 -> lruns d2 s2 ls2 ns -> lruns d1 s1 ls1 ns.
Proof.
  intros E H. inversion H as [d sd ls El|d sd ls n d' sd' ls' ns' El Hr]; subst.
  - apply lruns_end. congruence.
  - eapply lruns_node; [rewrite E; exact El|exact Hr].
Qed.

(* the name a stale filename element left behind does not matter *)
Lemma name_independent : forall ls, ws ls -> forall d sd x y,
  lloop d sd (set_name locals0 x) ls = lloop d sd (set_name locals0 y) ls.
Proof.
  induction 1 as [|h items r Hr IH|h n r]; intros d sd x y.
  - reflexivity.
  - cbn [lloop estep set_name locals0 l_entry a_dir a_last a_started]. apply IH.
  - cbn [lloop estep set_name locals0 l_entry]. destruct (bad_name n); reflexivity.
Qed.

Lemma split_nul_app (k v : bytes) : ~ In 0 k -> split_nul (k ++ 0 :: v) = Some (k, v).
Proof.
  induction k as [|x k IH]; intros Hn; [reflexivity|].
  cbn [app split_nul]. destruct (x =? 0) eqn:Ex.
  - apply N.eqb_eq in Ex. exfalso. apply Hn. left. auto.
  - rewrite IH; [reflexivity|]. intros H. apply Hn. right. exact H.
Qed.

Definition with_xattrs (l : locals) (xs : list (bytes * bytes)) : locals :=
  mkLocals (l_entry l) (l_payload l) (l_symlink l) (l_device l) (l_xattrs l ++ xs) (l_name l).

Lemma xattrs_run d sd : forall xs l tail e,
  l_entry l = Some e -> Forall wf_xattr xs ->
  lloop d sd l (map xattr_elem xs ++ tail) = lloop d sd (with_xattrs l xs) tail.
Proof.
  induction xs as [|[k v] xs IH]; intros l tail e He Hw.
  - cbn [map app]. unfold with_xattrs. rewrite app_nil_r. destruct l; reflexivity.
  - inversion Hw as [|? ? (Hk & _ & _) Hr]; subst. cbn [fst] in Hk.
    cbn [map app]. unfold xattr_elem at 1. cbn [fst snd lloop estep]. rewrite He, (split_nul_app k v Hk).
    cbn [a_dir a_started]. rewrite (IH (add_xattr l (k, v)) tail e); [|exact He|exact Hr].
    unfold with_xattrs, add_xattr. cbn [l_entry l_payload l_symlink l_device l_xattrs l_name].
    rewrite <- app_assoc. reflexivity.
Qed.

(* the locals of Next after the entry and xattr elements of a node *)
Definition after_head (a : attrs) (nm : bytes) : locals :=
  mkLocals (Some (meta_of a)) None None None (xs_of a) nm.

Lemma head_run d sd path name t nm tail :
  wf_attrs (tree_attrs t) ->
  lloop d sd (set_name locals0 nm) (head_elems (event_of path name t) ++ tail) =
  lloop d sd (after_head (tree_attrs t) nm) tail.
Proof.
  intros [Hm Ht Hu Hg Hmt Hx]. unfold head_elems. cbn [app lloop].
  unfold entry_elem. cbn [estep set_name locals0 l_entry a_dir a_started].
  unfold set_entry. cbn [l_entry l_payload l_symlink l_device l_xattrs l_name].
  cbn [event_of fe_mode fe_uid fe_gid fe_mtime fe_xattrs].
  rewrite (mode_roundtrip _ Hm Ht), (u64_small _ Hu), (u64_small _ Hg).
  erewrite xattrs_run; [|reflexivity|apply sort_xattrs_wf; exact Hx].
  reflexivity.
Qed.

Lemma good_name_nonempty nm : good_name nm -> nm <> [].
Proof. intros [Hb _] ->. discriminate. Qed.

Lemma join_good d nm : good_name nm -> join d nm = d ++ [nm].
Proof. intros H. pose proof (good_name_nonempty nm H). unfold join. destruct nm; [congruence|reflexivity]. Qed.

Lemma delimited_head rest : delimited rest ->
  exists c r, rest = c :: r /\ ((exists h n, c = Filename h n) \/ (exists h its, c = Goodbye h its)).
Proof.
  intros [Hne Hws]. inversion Hws as [|h items r Hr|h n r]; subst; [congruence| |].
  - eexists _, _. split; [reflexivity|right; eauto].
  - eexists _, _. split; [reflexivity|left; eauto].
Qed.

(* the children of a directory whose decoder state is "in directory d" *)
Definition kids_nodes (d : list bytes) (ch : list (bytes * tree)) : list node :=
  flat_map (fun p => match p with (nm, c) => nodes_of (d ++ [nm]) c end) ch.

Definition node_goal (c : tree) : Prop :=
  forall path name els, tar_tree path name c = Some els -> wf_tree c ->
  forall d nm rest ns, good_name nm -> delimited rest -> lruns d true rest ns ->
  lruns d true (filename_elem nm :: els ++ rest) (nodes_of (d ++ [nm]) c ++ ns).

Lemma ws_kids enc g_h g_its rest :
  ws rest -> ws (flat_map kid_stream enc ++ Goodbye g_h g_its :: rest).
Proof.
  intros Hr. destruct enc as [|[nm els] r]; cbn [flat_map app kid_stream]; [apply ws_gb; exact Hr|apply ws_fn].
Qed.

Lemma kids_run path : forall ch enc,
  Forall2 (kid_rel path) ch enc -> Forall (fun p => node_goal (snd p)) ch -> wf_kids ch ->
  forall d g_h g_its rest ns,
  ws rest -> lruns d true (Goodbye g_h g_its :: rest) ns ->
  lruns d true (flat_map kid_stream enc ++ Goodbye g_h g_its :: rest) (kids_nodes d ch ++ ns).
Proof.
  induction 1 as [|[nm c] [nm' els] ch enc [Hn Hc] Hrel IH]; intros Hgoal Hwf d g_h g_its rest ns Hws Hruns.
  - exact Hruns.
  - cbn [fst snd] in Hn, Hc. subst nm'.
    inversion Hgoal as [|? ? Hg Hgr]; subst. inversion Hwf as [|? ? [Hgn Hwc] Hwr]; subst. cbn [fst snd] in *.
    unfold kids_nodes. cbn [flat_map]. fold (kids_nodes d ch). unfold kid_stream at 1. cbn [fst snd].
    rewrite (base_good_name nm Hgn).
    rewrite <- !app_assoc. cbn [app].
    apply (Hg _ _ _ Hc Hwc d nm _ _ Hgn).
    + split; [|apply ws_kids; exact Hws]. destruct enc as [|[? ?] ?]; discriminate.
    + apply IH; assumption.
Qed.

Definition is_delim (c : elem) : Prop := (exists h n, c = Filename h n) \/ (exists h its, c = Goodbye h its).

(* only the first entry of an archive may come without a name (a.started) *)
Definition name_ok (sd : bool) (nm : bytes) : Prop := nm <> [] \/ sd = false.

Lemma efinish_ok st l e : name_ok (a_started st) (l_name l) ->
  efinish st l e = SRet (finish_node (mkAState (a_dir st) (a_last st) true) l e).
Proof.
  intros [H|H]; unfold efinish.
  - destruct (l_name l); [congruence|reflexivity].
  - rewrite H. destruct (l_name l); reflexivity.
Qed.

(* a node without payload, device or symlink element is a directory: returned when the next
   filename or goodbye element shows up, which stays unread *)
Lemma dir_return d sd a nm c r : is_delim c -> name_ok sd nm ->
  lloop d sd (after_head a nm) (c :: r) =
  LNode (NDirectory (join d nm) (meta_of a) (xs_of a)) (join d nm) true (c :: r).
Proof.
  intros [(h & n & ->)|(h & its & ->)] Hn; cbn [lloop estep after_head l_entry];
    rewrite efinish_ok by exact Hn; reflexivity.
Qed.

Lemma link_return d sd a nm tg c r : is_delim c -> name_ok sd nm ->
  lloop d sd (after_head a nm) (symlink_elem tg :: c :: r) =
  LNode (NSymlink (join d nm) (meta_of a) (xs_of a) tg) d true (c :: r).
Proof.
  intros [(h & n & ->)|(h & its & ->)] Hn; cbn [lloop symlink_elem estep after_head l_entry set_symlink a_dir a_started];
    rewrite efinish_ok by exact Hn; reflexivity.
Qed.

Lemma dev_return d sd a nm major minor c r : is_delim c -> name_ok sd nm ->
  lloop d sd (after_head a nm) (device_elem major minor :: c :: r) =
  LNode (NDevice (join d nm) (meta_of a) (xs_of a) major minor) d true (c :: r).
Proof.
  intros [(h & n & ->)|(h & its & ->)] Hn; cbn [lloop device_elem estep after_head l_entry set_device a_dir a_started];
    rewrite efinish_ok by exact Hn; reflexivity.
Qed.

Lemma file_return d sd a nm data r : small data -> name_ok sd nm ->
  lloop d sd (after_head a nm) (payload_elem (lenN data) data :: r) =
  LNode (NFile (join d nm) (meta_of a) (xs_of a) (lenN data) data) d true r.
Proof.
  intros Hs Hn. cbn [lloop payload_elem estep after_head l_entry]. rewrite efinish_ok by exact Hn.
  unfold finish_node, set_payload.
  cbn [l_payload h_size a_dir a_started fst snd last_list a_last app l_name l_xattrs].
  rewrite sub64_exact; [|lia|unfold small in Hs; change (2 ^ 61) with 2305843009213693952 in Hs; lia].
  replace (16 + lenN data - 16) with (lenN data) by lia. reflexivity.
Qed.

(* the filename element in front of a node *)
Lemma filename_step d sd nm ls : good_name nm ->
  lnext d sd (filename_elem nm :: ls) = lloop d sd (set_name locals0 nm) ls.
Proof. intros [Hb _]. unfold lnext. cbn [lloop filename_elem estep locals0 l_entry]. rewrite Hb. reflexivity. Qed.

Lemma goodbye_step d sd h its ls : lnext d sd (Goodbye h its :: ls) = lnext (removelast d) sd ls.
Proof. reflexivity. Qed.

Lemma good_name_ok sd nm : good_name nm -> name_ok sd nm.
Proof. intros H. left. apply good_name_nonempty, H. Qed.

Lemma kids_head_delim enc g_h g_its rest :
  exists c r, flat_map kid_stream enc ++ Goodbye g_h g_its :: rest = c :: r /\ is_delim c.
Proof.
  destruct enc as [|[nm els] e]; cbn [flat_map app kid_stream].
  - eexists _, _. split; [reflexivity|right; eauto].
  - unfold filename_elem. eexists _, _. split; [reflexivity|left; eauto].
Qed.

Lemma tar_tree_file path name a d :
  tar_tree path name (TFile a d) = Some (head_elems (event_of path name (TFile a d)) ++ [payload_elem (lenN d) d]).
Proof. reflexivity. Qed.
Lemma tar_tree_link path name a tg :
  tar_tree path name (TLink a tg) = Some (head_elems (event_of path name (TLink a tg)) ++ [symlink_elem tg]).
Proof. reflexivity. Qed.
Lemma tar_tree_dev path name a r :
  tar_tree path name (TDev a r) =
  Some (head_elems (event_of path name (TDev a r)) ++ [device_elem (rdev_major r) (rdev_minor r)]).
Proof. reflexivity. Qed.
Lemma tar_tree_other path name a : tar_tree path name (TOther a) = Some [].
Proof. reflexivity. Qed.

Lemma forall_filter {A} (P : A -> Prop) f l : Forall P l -> Forall P (filter f l).
Proof. intros H. rewrite Forall_forall in *. intros x Hx. apply filter_In in Hx. apply H, Hx. Qed.

(* fifos and sockets contribute no node *)
Lemma kids_nodes_arch d ch : kids_nodes d (arch_kids ch) = kids_nodes d ch.
Proof.
  unfold kids_nodes. induction ch as [|[k c] r IH]; [reflexivity|].
  rewrite arch_kids_cons. cbn [flat_map]. destruct c; cbn [archived flat_map nodes_of app]; rewrite ?IH; reflexivity.
Qed.

Lemma node_goal_all : forall c, node_goal c.
Proof.
  induction c as [a ch IH|a dt|a tg|a r|a] using tree_ind'; intros path name els Etar Hwf d nm rest ns Hgn Hdel Hruns.
  - (* directory *)
    apply wf_tree_dir in Hwf. destruct Hwf as (Ha & Hty & Hlen & Hk).
    destruct (tar_tree_dir_inv _ _ _ _ _ Etar) as (enc & its & Ek & ->).
    pose proof (tar_kids_spec _ _ _ Ek) as Hrel.
    cbn [nodes_of app]. unfold goodbye_elem. rewrite <- !app_assoc. cbn [app].
    destruct (kids_head_delim enc (mkHeader (16 + N.of_nat (length its) * 24) CaFormatGoodbye) its rest) as (c0 & r0 & E0 & Hd0).
    eapply lruns_node.
    + rewrite (filename_step d true nm _ Hgn).
      rewrite (head_run d true path name (TDir a ch) nm _ Ha). cbn [tree_attrs].
      rewrite E0. rewrite (dir_return d true a nm c0 r0 Hd0 (good_name_ok _ _ Hgn)). rewrite (join_good d nm Hgn). reflexivity.
    + rewrite <- E0. fold (kids_nodes (d ++ [nm]) ch). rewrite <- kids_nodes_arch.
      apply (kids_run path (arch_kids ch) enc Hrel (forall_filter _ _ _ IH) (forall_filter _ _ _ Hk)); [apply Hdel|].
      eapply lruns_ext; [|exact Hruns]. rewrite goodbye_step. rewrite removelast_last. reflexivity.
  - (* file *)
    destruct Hwf as (Ha & Hty & Hs). rewrite tar_tree_file in Etar. injection Etar as <-.
    cbn [nodes_of app]. rewrite <- !app_assoc. cbn [app].
    eapply lruns_node; [|exact Hruns].
    rewrite (filename_step d true nm _ Hgn).
    etransitivity; [exact (head_run d true path name (TFile a dt) nm _ Ha)|]. cbn [tree_attrs].
    rewrite (file_return d true a nm dt rest Hs (good_name_ok _ _ Hgn)). rewrite (join_good d nm Hgn). reflexivity.
  - (* symlink *)
    destruct Hwf as (Ha & Hty & Hs). rewrite tar_tree_link in Etar. injection Etar as <-.
    cbn [nodes_of app]. rewrite <- !app_assoc. cbn [app].
    destruct (delimited_head rest Hdel) as (c0 & r0 & -> & Hd0).
    eapply lruns_node; [|exact Hruns].
    rewrite (filename_step d true nm _ Hgn).
    etransitivity; [exact (head_run d true path name (TLink a tg) nm _ Ha)|]. cbn [tree_attrs].
    rewrite (link_return d true a nm tg c0 r0 Hd0 (good_name_ok _ _ Hgn)). rewrite (join_good d nm Hgn). reflexivity.
  - (* device *)
    destruct Hwf as (Ha & Hty). rewrite tar_tree_dev in Etar. injection Etar as <-.
    cbn [nodes_of app]. rewrite <- !app_assoc. cbn [app].
    destruct (delimited_head rest Hdel) as (c0 & r0 & -> & Hd0).
    eapply lruns_node; [|exact Hruns].
    rewrite (filename_step d true nm _ Hgn).
    etransitivity; [exact (head_run d true path name (TDev a r) nm _ Ha)|]. cbn [tree_attrs].
    rewrite (dev_return d true a nm _ _ c0 r0 Hd0 (good_name_ok _ _ Hgn)). rewrite (join_good d nm Hgn). reflexivity.
  - (* fifo, socket: nothing was written but the filename element; the decoder forgets it *)
    rewrite tar_tree_other in Etar. injection Etar as <-. cbn [nodes_of app].
    eapply lruns_ext; [|exact Hruns].
    rewrite (filename_step d true nm _ Hgn). unfold lnext.
    apply (name_independent rest (proj2 Hdel) d true nm []).
Qed.

(* ---------- the whole archive ---------- *)

(* Tar() of something that is not a directory or a regular file: see root_link_lost *)
Definition root_ok (t : tree) : Prop := match t with TDir _ _ | TFile _ _ => True | _ => False end.

Lemma lnext_nil d sd : lnext d sd [] = LEnd.
Proof. reflexivity. Qed.

Lemma root_runs t els :
  wf_tree t -> root_ok t -> tar_tree [] [] t = Some els -> lruns [] false els (nodes_of [] t).
Proof.
  intros Hwf Hroot Etar. destruct t as [a ch|a dt|a tg|a r|a]; try contradiction.
  - apply wf_tree_dir in Hwf. destruct Hwf as (Ha & Hty & Hlen & Hk).
    destruct (tar_tree_dir_inv _ _ _ _ _ Etar) as (enc & its & Ek & ->).
    pose proof (tar_kids_spec _ _ _ Ek) as Hrel.
    cbn [nodes_of]. unfold goodbye_elem.
    destruct (kids_head_delim enc (mkHeader (16 + N.of_nat (length its) * 24) CaFormatGoodbye) its []) as (c0 & r0 & E0 & Hd0).
    eapply lruns_node.
    + unfold lnext. change locals0 with (set_name locals0 []).
      etransitivity; [exact (head_run [] false [] [] (TDir a ch) [] _ Ha)|]. cbn [tree_attrs].
      rewrite E0. rewrite (dir_return [] false a [] c0 r0 Hd0 (or_intror eq_refl)). reflexivity.
    + cbn [join]. rewrite <- E0. fold (kids_nodes [] ch). rewrite <- kids_nodes_arch.
      rewrite <- (app_nil_r (kids_nodes [] (arch_kids ch))).
      apply (kids_run [] (arch_kids ch) enc Hrel); [|apply forall_filter; exact Hk|constructor|].
      * apply forall_filter. clear. induction ch as [|p r IH]; constructor; [apply node_goal_all|exact IH].
      * apply lruns_end. reflexivity.
  - destruct Hwf as (Ha & Hty & Hs). rewrite tar_tree_file in Etar. injection Etar as <-.
    cbn [nodes_of]. eapply lruns_node; [|apply lruns_end; apply lnext_nil].
    unfold lnext. change locals0 with (set_name locals0 []).
    etransitivity; [exact (head_run [] false [] [] (TFile a dt) [] _ Ha)|]. cbn [tree_attrs].
    rewrite (file_return [] false a [] dt [] Hs (or_intror eq_refl)). reflexivity.
Qed.

(* The element stream written by tar() for the tree t, encoded by FormatEncoder and read back by
   ArchiveDecoder.Next until it returns nil, yields exactly the nodes of t: in walk order, each
   with its path, mode (type, permission, set-id and sticky bits), uid, gid, mtime, sorted
   xattrs, and its content / link target / device numbers; nothing is left in the reader. *)
Theorem archive_roundtrip t :
  wf_tree t -> root_ok t ->
  exists b, tar_of_tree t = Some b /\ decode_archive b = Ok (nodes_of [] t, []).
Proof.
  intros Hwf Hroot. destruct (tar_tree_total t Hwf [] []) as (els & Etar & Hwe).
  exists (encode_elems els). unfold tar_of_tree. rewrite Etar. split; [reflexivity|].
  apply archive_sim; [exact Hwe|]. apply root_runs; assumption.
Qed.

(* FINDING in the model: an archive whose root is a symlink (desync tar x.catar some-symlink)
   is written, but the decoder returns no node for it: Next waits for the element after the
   symlink element and treats the end of the stream as the end of the archive. *)
Theorem root_link_lost a tg :
  wf_tree (TLink a tg) ->
  exists b, tar_of_tree (TLink a tg) = Some b /\ decode_archive b = Ok ([], []).
Proof.
  intros Hwf. destruct (tar_tree_total _ Hwf [] []) as (els & Etar & Hwe).
  exists (encode_elems els). unfold tar_of_tree. rewrite Etar. split; [reflexivity|].
  apply archive_sim; [exact Hwe|]. destruct Hwf as (Ha & Hty & Hs).
  rewrite tar_tree_link in Etar. injection Etar as <-.
  apply lruns_end. unfold lnext. change locals0 with (set_name locals0 []).
  etransitivity; [exact (head_run [] false [] [] (TLink a tg) [] _ Ha)|]. reflexivity.
Qed.

(* ---------- Part 3: tar() on the event stream of a walk ---------- *)

Fixpoint tsize (t : tree) : nat :=
  match t with
  | TDir _ ch => S ((fix go (ch : list (bytes * tree)) : nat :=
                       match ch with [] => O | (_, c) :: r => (tsize c + go r)%nat end) ch)
  | _ => 1%nat
  end.
Definition ksize (ch : list (bytes * tree)) : nat :=
  (fix go (ch : list (bytes * tree)) : nat := match ch with [] => O | (_, c) :: r => (tsize c + go r)%nat end) ch.

Lemma tsize_dir a ch : tsize (TDir a ch) = S (ksize ch).
Proof. reflexivity. Qed.
Lemma ksize_cons nm c r : ksize ((nm, c) :: r) = (tsize c + ksize r)%nat.
Proof. reflexivity. Qed.
Lemma tsize_pos t : (1 <= tsize t)%nat.
Proof. destruct t; cbn; lia. Qed.

Definition walk_kids (path : list bytes) (ch : list (bytes * tree)) : list file_event :=
  flat_map (fun p => match p with (nm, c) => walk (path ++ [nm]) nm c end) ch.

Lemma walk_dir path name a ch : walk path name (TDir a ch) = event_of path name (TDir a ch) :: walk_kids path ch.
Proof. reflexivity. Qed.

(* the next event, if any, does not belong to the directory d: it lies higher up *)
Definition stops (d : list bytes) (rest : list file_event) : Prop :=
  match rest with
  | [] => True
  | g :: _ => (length (removelast (fe_path g)) < length d)%nat
  end.

Lemma path_eqb_length p q : length p <> length q -> FS.path_eqb p q = false.
Proof. intros H. apply FS.path_eqb_neq. intros ->. apply H. reflexivity. Qed.

(* the kind tests of tar() on the FileMode of an st_mode *)
Lemma kind_tests m : m < 2 ^ 16 ->
  let fm := stat_to_filemode m in
  let ty := N.land m S_IFMT in
  fm_is_dir fm = (ty =? S_IFDIR) /\
  fm_is_regular fm = negb ((ty =? S_IFBLK) || (ty =? S_IFCHR) || (ty =? S_IFDIR) || (ty =? S_IFIFO) || (ty =? S_IFLNK) || (ty =? S_IFSOCK)) /\
  fm_is_symlink fm = (ty =? S_IFLNK) /\
  fm_is_device fm = ((ty =? S_IFBLK) || (ty =? S_IFCHR)).
Proof.
  intros Hm. pose proof (sweep 16 _ kind_sweep m Hm) as H. unfold kind_check in H.
  rewrite !andb_true_iff in H. destruct H as [[[H1 H2] H3] H4].
  apply eqb_prop in H1, H2, H3, H4. cbv zeta. auto.
Qed.

Definition ev_goal (c : tree) : Prop :=
  forall path name rest fuel, wf_tree c -> stops path rest -> (2 * tsize c <= fuel)%nat ->
  tar_ev fuel (event_of path name c)
         (match c with TDir _ ch => walk_kids path ch | _ => [] end ++ rest) =
  match tar_tree path name c with Some els => Some (els, rest) | None => None end.

Lemma removelast_snoc {A} (l : list A) x : removelast (l ++ [x]) = l.
Proof. apply removelast_last. Qed.

Lemma walk_head path name t : exists tl, walk path name t = event_of path name t :: tl.
Proof. destruct t; eexists; reflexivity. Qed.

(* the type test of tar() on the event of a well-formed tree node *)
Lemma supported_event path name c : wf_tree c -> supported (fe_mode (event_of path name c)) = archived c.
Proof.
  intros Hwf. change (fe_mode (event_of path name c)) with (stat_to_filemode (t_mode (tree_attrs c))).
  assert (Ha : wf_attrs (tree_attrs c)).
  { destruct c as [a ch| | | |]; [apply wf_tree_dir in Hwf|..]; cbn [tree_attrs]; apply Hwf. }
  destruct (kind_tests (t_mode (tree_attrs c)) (wa_mode _ Ha)) as (Kd & Kr & Kl & Kv). cbv zeta in *.
  unfold supported. rewrite Kd, Kr, Kl, Kv.
  destruct c as [a ch|a d|a tg|a r|a]; cbn [tree_attrs archived] in *.
  - apply wf_tree_dir in Hwf. destruct Hwf as (_ & Hty & _). unfold type_is in Hty. rewrite Hty. reflexivity.
  - destruct Hwf as (_ & Hty & _). unfold type_is in Hty. rewrite Hty. reflexivity.
  - destruct Hwf as (_ & Hty & _). unfold type_is in Hty. rewrite Hty. reflexivity.
  - destruct Hwf as (_ & [Hty|Hty]); unfold type_is in Hty; rewrite Hty; reflexivity.
  - destruct Hwf as (_ & [Hty|Hty]); unfold type_is in Hty; rewrite Hty; reflexivity.
Qed.

Lemma kids_loop path : forall ch,
  Forall (fun p => ev_goal (snd p)) ch -> wf_kids ch ->
  forall rest fuel n items acc, stops path rest -> (2 * ksize ch + 1 <= fuel)%nat ->
  dir_loop fuel path (walk_kids path ch ++ rest) n items acc =
  match tar_kids path ch with
  | Some enc => match dir_body enc n items acc with (b, n', items') => Some (b, n', items', rest) end
  | None => None
  end.
Proof.
  induction ch as [|[nm c] r IH]; intros Hg Hwf rest fuel n items acc Hst Hfuel.
  - destruct fuel as [|f]; [lia|]. cbn [walk_kids flat_map app tar_kids dir_body].
    destruct rest as [|g rest']; cbn [dir_loop]; [reflexivity|].
    unfold stops in Hst.
    assert (E : FS.path_eqb (removelast (fe_path g)) path = false).
    { apply FS.path_eqb_neq. intros E. rewrite E in Hst. exact (Nat.lt_irrefl _ Hst). }
    rewrite E. reflexivity.
  - inversion Hg as [|? ? Hc Hgr]; subst. inversion Hwf as [|? ? [Hgn Hwc] Hwr]; subst. cbn [fst snd] in *.
    rewrite ksize_cons in Hfuel. pose proof (tsize_pos c) as Hpos.
    destruct fuel as [|f]; [lia|].
    unfold walk_kids. cbn [flat_map]. fold (walk_kids path r).
    assert (Hwalk : walk (path ++ [nm]) nm c =
                    event_of (path ++ [nm]) nm c :: match c with TDir _ ch' => walk_kids (path ++ [nm]) ch' | _ => [] end).
    { destruct c; reflexivity. }
    rewrite Hwalk. cbn [app dir_loop].
    assert (Hp : fe_path (event_of (path ++ [nm]) nm c) = path ++ [nm]) by reflexivity.
    rewrite Hp, removelast_snoc, FS.path_eqb_refl. cbn [negb].
    rewrite (supported_event (path ++ [nm]) nm c Hwc), tar_kids_cons.
    destruct (archived c) eqn:Earch; cbn [negb].
    2: { (* a fifo or socket: nothing written, the loop goes on *)
         destruct c; try discriminate. cbn [app]. apply (IH Hgr Hwr rest f _ _ _ Hst). cbn [tsize] in Hfuel. lia. }
    assert (Hnm : fe_name (event_of (path ++ [nm]) nm c) = nm) by reflexivity. rewrite Hnm.
    rewrite <- app_assoc.
    rewrite (Hc (path ++ [nm]) nm (walk_kids path r ++ rest) f Hwc); [| |lia].
    + destruct (tar_tree (path ++ [nm]) nm c) as [els|]; [|reflexivity].
      rewrite (IH Hgr Hwr rest f _ _ _ Hst ltac:(lia)).
      destruct (tar_kids path r) as [rs|]; [|reflexivity]. cbn [dir_body]. reflexivity.
    + (* what follows the child lies in this directory or higher up *)
      unfold stops. destruct r as [|[nm' c'] r'].
      * cbn [walk_kids flat_map app]. destruct rest as [|g rest']; [exact I|].
        unfold stops in Hst. rewrite app_length. cbn [length]. lia.
      * unfold walk_kids. cbn [flat_map]. destruct (walk_head (path ++ [nm']) nm' c') as [tl ->].
        cbn [app]. change (fe_path (event_of (path ++ [nm']) nm' c')) with (path ++ [nm']).
        rewrite removelast_snoc, app_length. cbn [length]. lia.
Qed.

Lemma ev_goal_all : forall c, ev_goal c.
Proof.
  induction c as [a ch IH|a d|a tg|a r|a] using tree_ind'; intros path name rest fuel Hwf Hst Hfuel.
  - apply wf_tree_dir in Hwf. destruct Hwf as (Ha & Hty & Hlen & Hk).
    rewrite tsize_dir in Hfuel. destruct fuel as [|f]; [lia|].
    destruct (kind_tests (t_mode a) (wa_mode a Ha)) as (Kd & Kr & Kl & Kv). cbv zeta in *.
    unfold type_is in Hty. rewrite Hty in *.
    cbn [tar_ev]. change (fe_mode (event_of path name (TDir a ch))) with (stat_to_filemode (t_mode a)).
    unfold supported. rewrite Kd. cbn [N.eqb orb negb]. change (S_IFDIR =? S_IFDIR) with true. cbn [orb negb].
    change (fe_path (event_of path name (TDir a ch))) with path.
    rewrite (kids_loop path ch IH Hk rest f _ _ _ Hst ltac:(lia)).
    rewrite tar_tree_dir. cbv zeta. destruct (tar_kids path ch) as [enc|]; [|reflexivity].
    destruct (dir_body enc _ [] []) as [[body n'] items'].
    destruct (goodbye_of n' items'); reflexivity.
  - destruct Hwf as (Ha & Hty & Hs). destruct fuel as [|f]; [cbn in Hfuel; lia|].
    destruct (kind_tests (t_mode a) (wa_mode a Ha)) as (Kd & Kr & Kl & Kv). cbv zeta in *.
    unfold type_is in Hty. rewrite Hty in *.
    cbn [tar_ev app]. change (fe_mode (event_of path name (TFile a d))) with (stat_to_filemode (t_mode a)).
    unfold supported. rewrite Kd, Kr. reflexivity.
  - destruct Hwf as (Ha & Hty & Hs). destruct fuel as [|f]; [cbn in Hfuel; lia|].
    destruct (kind_tests (t_mode a) (wa_mode a Ha)) as (Kd & Kr & Kl & Kv). cbv zeta in *.
    unfold type_is in Hty. rewrite Hty in *.
    cbn [tar_ev app]. change (fe_mode (event_of path name (TLink a tg))) with (stat_to_filemode (t_mode a)).
    unfold supported. rewrite Kd, Kr, Kl. reflexivity.
  - destruct Hwf as (Ha & Hty). destruct fuel as [|f]; [cbn in Hfuel; lia|].
    destruct (kind_tests (t_mode a) (wa_mode a Ha)) as (Kd & Kr & Kl & Kv). cbv zeta in *.
    cbn [tar_ev app]. change (fe_mode (event_of path name (TDev a r))) with (stat_to_filemode (t_mode a)).
    unfold supported. rewrite Kd, Kr, Kl, Kv.
    destruct Hty as [E|E]; unfold type_is in E; rewrite E; reflexivity.
  - destruct Hwf as (Ha & Hty). destruct fuel as [|f]; [cbn in Hfuel; lia|].
    destruct (kind_tests (t_mode a) (wa_mode a Ha)) as (Kd & Kr & Kl & Kv). cbv zeta in *.
    cbn [tar_ev app]. change (fe_mode (event_of path name (TOther a))) with (stat_to_filemode (t_mode a)).
    unfold supported. rewrite Kd, Kr, Kl, Kv.
    destruct Hty as [E|E]; unfold type_is in E; rewrite E; reflexivity.
Qed.

Lemma walk_length : forall t path name, length (walk path name t) = tsize t.
Proof.
  induction t as [a ch IH|a d|a tg|a r|a] using tree_ind'; intros path name; try reflexivity.
  rewrite walk_dir, tsize_dir. cbn [length]. f_equal.
  induction ch as [|[nm c] r IHr]; [reflexivity|].
  inversion IH as [|? ? Hc Hr]; subst. unfold walk_kids. cbn [flat_map]. rewrite app_length, ksize_cons.
  cbn [snd] in Hc. rewrite Hc. f_equal. apply IHr, Hr.
Qed.

(* Tar() fed with the walk of a tree writes the elements of tar_tree: the reconstruction of the
   nesting from the flat event stream (fsBufReader, path.Dir(f.Path) == dir) is right *)
Theorem tar_events_with_walk check t : wf_tree t -> tar_events_with check (walk [] [] t) = tar_tree [] [] t.
Proof.
  intros Hwf. unfold tar_events_with.
  assert (Hw : walk [] [] t = event_of [] [] t :: (match t with TDir _ ch => walk_kids [] ch | _ => [] end ++ []))
    by (rewrite app_nil_r; destruct t; reflexivity).
  pose proof (walk_length t [] []) as Hl. rewrite Hw in Hl. rewrite Hw. cbv beta iota. rewrite Hl.
  assert (Hf : (2 * tsize t <= 2 * tsize t + 2)%nat) by lia.
  rewrite (ev_goal_all t [] [] [] _ Hwf I Hf).
  destruct (tar_tree [] [] t); [|reflexivity]. rewrite andb_false_r. reflexivity.
Qed.

Theorem tar_events_walk t : wf_tree t -> tar_events (walk [] [] t) = tar_tree [] [] t.
Proof. apply tar_events_with_walk. Qed.

(* Tar as it is after the fix: when it succeeds, the source was read to its end -- nothing is
   dropped silently *)
Theorem tar_events_checked_complete f rest els :
  tar_events_with true (f :: rest) = Some els ->
  tar_ev (2 * length (f :: rest) + 2) f rest = Some (els, []).
Proof.
  unfold tar_events_with. destruct (tar_ev _ f rest) as [[e l]|]; [|discriminate].
  destruct l; cbn [andb negb]; [intros H; inversion H; reflexivity|discriminate].
Qed.

(* ---------- Part 4: the listing order of the xattr keys does not matter ---------- *)

Definition canon_attrs (a : attrs) : attrs := mkAttrs (t_mode a) (t_uid a) (t_gid a) (t_mtime a) (sort_xattrs (t_xattrs a)).

Fixpoint canon (t : tree) : tree :=
  match t with
  | TDir a ch => TDir (canon_attrs a) (map (fun p => match p with (nm, c) => (nm, canon c) end) ch)
  | TFile a d => TFile (canon_attrs a) d
  | TLink a tg => TLink (canon_attrs a) tg
  | TDev a r => TDev (canon_attrs a) r
  | TOther a => TOther (canon_attrs a)
  end.

From DS Require Import Proofs.XattrSort.

Definition head_of (a : attrs) : list elem :=
  entry_elem (filemode_to_stat (stat_to_filemode (t_mode a))) (u64 (t_uid a)) (u64 (t_gid a)) (t_mtime a)
  :: map xattr_elem (sort_xattrs (t_xattrs a)).

Lemma head_elems_attrs path name t : head_elems (event_of path name t) = head_of (tree_attrs t).
Proof. destruct t; reflexivity. Qed.

Lemma head_of_canon a : head_of (canon_attrs a) = head_of a.
Proof. unfold head_of, canon_attrs. cbn [t_mode t_uid t_gid t_mtime t_xattrs]. now rewrite sort_xattrs_idem. Qed.

(* the archive depends on the set of extended attributes only, not on how they are listed *)
Lemma tar_tree_canon : forall t path name, tar_tree path name (canon t) = tar_tree path name t.
Proof.
  induction t as [a ch IH|a d|a tg|a r|a] using tree_ind'; intros path name.
  - cbn [canon]. rewrite !tar_tree_dir. cbv zeta. rewrite !head_elems_attrs. cbn [tree_attrs]. rewrite head_of_canon.
    assert (Hk : tar_kids path (map (fun p => match p with (nm, c) => (nm, canon c) end) ch) = tar_kids path ch).
    { induction ch as [|[nm c] r IHr]; [reflexivity|].
      inversion IH as [|? ? Hc Hr]; subst. cbn [map]. rewrite !tar_kids_cons. cbn [snd] in Hc.
      assert (Ha : archived (canon c) = archived c) by (destruct c; reflexivity).
      rewrite Ha, Hc, (IHr Hr). reflexivity. }
    rewrite Hk. reflexivity.
  - cbn [canon]. rewrite !tar_tree_file, !head_elems_attrs. cbn [tree_attrs]. now rewrite head_of_canon.
  - cbn [canon]. rewrite !tar_tree_link, !head_elems_attrs. cbn [tree_attrs]. now rewrite head_of_canon.
  - cbn [canon]. rewrite !tar_tree_dev, !head_elems_attrs. cbn [tree_attrs]. now rewrite head_of_canon.
  - reflexivity.
Qed.

(* two listings of the same attributes of one object *)
Definition same_attrs (a1 a2 : attrs) : Prop :=
  t_mode a1 = t_mode a2 /\ t_uid a1 = t_uid a2 /\ t_gid a1 = t_gid a2 /\ t_mtime a1 = t_mtime a2 /\
  Permutation (t_xattrs a1) (t_xattrs a2) /\ NoDup (keys (t_xattrs a1)).

Lemma canon_attrs_same a1 a2 : same_attrs a1 a2 -> canon_attrs a1 = canon_attrs a2.
Proof.
  intros (Hm & Hu & Hg & Ht & Hp & Hn). unfold canon_attrs. rewrite Hm, Hu, Hg, Ht, (sort_xattrs_perm _ _ Hp Hn). reflexivity.
Qed.

(* the same tree seen twice, with the attributes of every object listed in any order *)
Inductive same_tree : tree -> tree -> Prop :=
| same_dir a1 a2 ch1 ch2 : same_attrs a1 a2 -> Forall2 (fun p q => fst p = fst q /\ same_tree (snd p) (snd q)) ch1 ch2 ->
    same_tree (TDir a1 ch1) (TDir a2 ch2)
| same_file a1 a2 d : same_attrs a1 a2 -> same_tree (TFile a1 d) (TFile a2 d)
| same_link a1 a2 tg : same_attrs a1 a2 -> same_tree (TLink a1 tg) (TLink a2 tg)
| same_dev a1 a2 r : same_attrs a1 a2 -> same_tree (TDev a1 r) (TDev a2 r)
| same_other a1 a2 : same_attrs a1 a2 -> same_tree (TOther a1) (TOther a2).

Lemma same_tree_canon : forall t1 t2, same_tree t1 t2 -> canon t1 = canon t2.
Proof.
  fix IH 3. intros t1 t2 H. destruct H as [a1 a2 ch1 ch2 Ha Hch|a1 a2 d Ha|a1 a2 tg Ha|a1 a2 r Ha|a1 a2 Ha];
    cbn [canon]; rewrite (canon_attrs_same _ _ Ha); try reflexivity.
  f_equal. induction Hch as [|[n1 c1] [n2 c2] r1 r2 [Hn Hc] Hr IHr]; [reflexivity|].
  cbn [map fst snd] in *. subst n2. rewrite (IH _ _ Hc), IHr. reflexivity.
Qed.

(* Packing the same tree twice yields identical archive bytes, whatever order llistxattr
   (or the Go map iteration) delivers the attribute keys in. *)
Theorem tar_deterministic t1 t2 : same_tree t1 t2 -> tar_of_tree t1 = tar_of_tree t2.
Proof.
  intros H. unfold tar_of_tree. rewrite <- (tar_tree_canon t1), <- (tar_tree_canon t2), (same_tree_canon _ _ H). reflexivity.
Qed.

(* ---------- fifos and sockets are left out cleanly ---------- *)

(* the tree without its fifos and sockets *)
Fixpoint prune (t : tree) : tree :=
  match t with
  | TDir a ch => TDir a (flat_map (fun p => match p with (nm, c) => if archived c then [(nm, prune c)] else [] end) ch)
  | _ => t
  end.

Definition prune_kids (ch : list (bytes * tree)) : list (bytes * tree) :=
  flat_map (fun p => match p with (nm, c) => if archived c then [(nm, prune c)] else [] end) ch.

Lemma archived_prune c : archived (prune c) = archived c.
Proof. destruct c; reflexivity. Qed.

(* the archive of a tree is the archive of the tree without its fifos and sockets: nothing at
   all is written for them (no filename element, no goodbye item) *)
Theorem tar_tree_prune : forall t path name, tar_tree path name (prune t) = tar_tree path name t.
Proof.
  induction t as [a ch IH|a d|a tg|a r|a] using tree_ind'; intros path name; try reflexivity.
  cbn [prune]. fold (prune_kids ch). rewrite !tar_tree_dir. cbv zeta. rewrite !head_elems_attrs. cbn [tree_attrs].
  assert (Hk : tar_kids path (prune_kids ch) = tar_kids path ch).
  { induction ch as [|[nm c] r IHr]; [reflexivity|].
    inversion IH as [|? ? Hc Hr]; subst. cbn [snd] in Hc.
    unfold prune_kids. cbn [flat_map]. fold (prune_kids r). rewrite (tar_kids_cons path nm c r).
    destruct (archived c) eqn:Ea; cbn [app]; [|apply IHr, Hr].
    rewrite tar_kids_cons, archived_prune, Ea, Hc, (IHr Hr). reflexivity. }
  rewrite Hk. reflexivity.
Qed.

Theorem tar_of_tree_prune t : tar_of_tree (prune t) = tar_of_tree t.
Proof. unfold tar_of_tree. now rewrite tar_tree_prune. Qed.

Lemma nodes_of_prune : forall t p, nodes_of p (prune t) = nodes_of p t.
Proof.
  induction t as [a ch IH|a d|a tg|a r|a] using tree_ind'; intros p; try reflexivity.
  cbn [prune nodes_of]. f_equal.
  induction ch as [|[nm c] r IHr]; [reflexivity|].
  inversion IH as [|? ? Hc Hr]; subst. cbn [snd] in Hc. cbn [flat_map].
  destruct c as [a1 ch1|a1 d1|a1 t1|a1 r1|a1]; cbn [archived app flat_map];
    rewrite ?(IHr Hr); try reflexivity.
  - rewrite <- (Hc (p ++ [nm])). reflexivity.
Qed.

(* ---------- a tar stream that is not grouped by directory ---------- *)

(* ./  d0/  f1  d0/f0 : the member d0/f0 comes after a member of the parent directory *)
Definition ungrouped_stream : list file_event :=
  let dirm := stat_to_filemode 16877 in
  let filem := stat_to_filemode 33188 in
  [ mkEvent [46] [] dirm 0 [] 1000 0 0 0 0 [] [];
    mkEvent [100; 48] [[100; 48]] dirm 0 [] 1000 0 0 0 0 [] [];
    mkEvent [102; 49] [[102; 49]] filem 1 [] 1000 0 0 0 0 [] [7];
    mkEvent [102; 48] [[100; 48]; [102; 48]] filem 1 [] 1000 0 0 0 0 [] [8] ].

Definition node_paths (ns : list node) : list (list bytes) :=
  map (fun n => match n with NDirectory p _ _ | NFile p _ _ _ _ | NSymlink p _ _ _ | NDevice p _ _ _ _ => p end) ns.

(* what Tar without the check and the archive decoder make of the stream: the paths of the
   decoded nodes and the bytes left over *)
Definition ungrouped_result : option (list (list bytes) * bytes) :=
  match tar_events_with false ungrouped_stream with
  | Some els => match decode_archive (encode_elems els) with
                | Ok (ns, r) => Some (node_paths ns, r)
                | _ => None
                end
  | None => None
  end.

Lemma ungrouped_result_eq : ungrouped_result = Some ([[]; [[100; 48]]; [[102; 49]]], []).
Proof. vm_compute. reflexivity. Qed.

(* Without the check Tar succeeds and the archive decodes to three of the four members:
   d0/f0 is gone.  With the check Tar fails. *)
Lemma tarin_ungrouped :
  (exists els ns, tar_events_with false ungrouped_stream = Some els /\
                  decode_archive (encode_elems els) = Ok (ns, []) /\
                  node_paths ns = [[]; [[100; 48]]; [[102; 49]]] /\
                  ~ In [[100; 48]; [102; 48]] (node_paths ns)) /\
  tar_events_with true ungrouped_stream = None.
Proof.
  split; [|vm_compute; reflexivity].
  pose proof ungrouped_result_eq as R. unfold ungrouped_result in R.
  destruct (tar_events_with false ungrouped_stream) as [els|]; [|discriminate].
  destruct (decode_archive (encode_elems els)) as [[ns rest]|e|p] eqn:D; try discriminate.
  injection R as Hp Hr. subst rest. exists els, ns.
  split; [reflexivity|]. split; [exact D|]. split; [exact Hp|].
  intros Hin. rewrite Hp in Hin. destruct Hin as [H|[H|[H|[]]]]; discriminate.
Qed.
