From Coq Require Import List NArith Arith Bool Lia ZifyN ZifyNat ZifyBool.
From DS Require Import Gen.Constants Base.Bytes Base.Hash Base.Sched Model.Pool Model.VerifyIndex Proofs.PoolProofs.
Import ListNotations.

(* ---- the batching loop partitions the chunk list ---- *)

Lemma skipn_all3 {A} (l : list A) n : length l <= n -> skipn n l = [].
Proof. intros. apply skipn_all2. exact H. Qed.

Lemma batches_loop_spec {A} (chunks : list A) (batch : N) :
  forall fuel i,
    N.to_nat (N.of_nat (length chunks) - i) < fuel ->
    exists bs, batches_loop fuel chunks i batch = Some bs /\
               concat bs = skipn (N.to_nat i) chunks /\
               Forall (fun b => b <> []) bs.
Proof.
  induction fuel as [|fuel IH]; intros i Hf; [lia|].
  cbn [batches_loop].
  destruct (i <? N.of_nat (length chunks))%N eqn:Elt.
  - apply N.ltb_lt in Elt.
    assert (Hnext : (i < vi_next i batch)%N) by (unfold vi_next; lia).
    destruct (IH (vi_next i batch)) as [r [Er [Hc Hne]]]; [lia|].
    rewrite Er. eexists. split; [reflexivity|]. split.
    + cbn [concat]. rewrite Hc. unfold slice.
      destruct (N.of_nat (length chunks) <=? vi_last i batch)%N eqn:Ele.
      * apply N.leb_le in Ele.
        rewrite (skipn_all3 chunks (N.to_nat (vi_next i batch))) by (unfold vi_next, vi_last in *; lia).
        rewrite app_nil_r. apply firstn_all2. rewrite skipn_length. lia.
      * apply N.leb_gt in Ele.
        replace (N.to_nat (vi_next i batch)) with (N.to_nat i + N.to_nat (vi_last i batch + 1 - i))
          by (unfold vi_next, vi_last in *; lia).
        rewrite <- skipn_skipn. apply firstn_skipn.
    + constructor; [|exact Hne].
      intro Hnil. apply (f_equal (@length A)) in Hnil. unfold slice in Hnil.
      rewrite firstn_length, skipn_length in Hnil. cbn in Hnil.
      destruct (N.of_nat (length chunks) <=? vi_last i batch)%N eqn:Ele.
      * lia.
      * apply N.leb_gt in Ele. unfold vi_last in *. lia.
  - apply N.ltb_ge in Elt. exists []. split; [reflexivity|]. split; [|constructor].
    cbn. symmetry. apply skipn_all3. lia.
Qed.

Theorem batches_partition {A} (n : N) (chunks : list A) :
  exists bs, batches n chunks = Some bs /\ concat bs = chunks /\ Forall (fun b => b <> []) bs.
Proof.
  unfold batches.
  destruct (batches_loop_spec chunks (vi_batch (N.of_nat (length chunks)) n) (S (length chunks)) 0%N) as [bs [E [Hc Hne]]];
    [lia|].
  exists bs. split; [exact E|]. split; [|exact Hne]. rewrite Hc. reflexivity.
Qed.

(* ---- sequential result = the hash predicate ---- *)

Section VerifyProofs.
  Variable H : bytes -> id.

  Lemma forallb_concat {A} (f : A -> bool) (ls : list (list A)) :
    forallb (forallb f) ls = forallb f (concat ls).
  Proof. induction ls; cbn; [reflexivity|]. rewrite forallb_app. now rewrite IHls. Qed.

  Lemma rows_ok_with_starts file start idx :
    forallb (fun sr => row_ok H file (fst sr) (snd sr)) (with_starts start idx) = rows_ok H file start idx.
  Proof. revert start; induction idx as [|r rest IH]; intros start; cbn; [reflexivity|]. now rewrite IH. Qed.

  Theorem verify_index_spec n file idx :
    verify_index H n file idx =
    Some ((length file =? idx_length idx) && rows_ok H file 0 idx).
  Proof.
    unfold verify_index. destruct (length file =? idx_length idx) eqn:El; cbn [negb andb]; [|reflexivity].
    destruct (batches_partition n (with_starts 0 idx)) as [bs [E [Hc _]]]. rewrite E. f_equal.
    unfold batch_ok. rewrite forallb_concat, Hc. apply rows_ok_with_starts.
  Qed.

  Lemma rows_ok_iff file start idx :
    rows_ok H file start idx = true <->
    map H (split_by (sizes idx) (skipn start file)) = ids idx.
  Proof.
    revert start. induction idx as [|[i sz] rest IH]; intros start; cbn.
    - tauto.
    - rewrite andb_true_iff, IH. unfold row_ok, slice. cbn. rewrite N.eqb_eq.
      rewrite skipn_skipn. split.
      + intros [E1 E2]. unfold sizes, ids in E2. now rewrite E1, E2.
      + intros E. inversion E as [[E1 E2]]. split; [reflexivity|exact E2].
  Qed.

  (* verify-index accepts iff the file has the indexed length and every range hashes to its id. *)
  Theorem verify_iff n file idx :
    verify_index H n file idx = Some true <->
    (length file = idx_length idx /\ map H (split_by (sizes idx) file) = ids idx).
  Proof.
    rewrite verify_index_spec. split.
    - intros E. inversion E as [E']. apply andb_true_iff in E'. destruct E' as [El Er].
      apply Nat.eqb_eq in El. apply rows_ok_iff in Er. cbn in Er. tauto.
    - intros [El Er]. f_equal. apply andb_true_iff. split; [now apply Nat.eqb_eq|].
      apply rows_ok_iff. exact Er.
  Qed.

  Theorem verify_total n file idx : exists b, verify_index H n file idx = Some b.
  Proof. rewrite verify_index_spec. eexists; reflexivity. Qed.

  Lemma map_H_eq_or_collision (xs ys : list bytes) :
    map H xs = map H ys -> xs = ys \/ Collision H.
  Proof.
    revert ys. induction xs as [|x xs IH]; intros [|y ys] E; try discriminate; [now left|].
    cbn in E. inversion E as [[E1 E2]].
    destruct (hash_eq H x y E1) as [->|C]; [|now right].
    destruct (IH ys E2) as [->|C]; [now left|now right].
  Qed.

  (* Against the blob the index was made from: acceptance means equality (or a hash collision),
     and the blob itself is always accepted. *)
  Theorem verify_accepts_only_blob n file idx blob :
    index_describes H idx blob ->
    verify_index H n file idx = Some true -> file = blob \/ Collision H.
  Proof.
    intros [Hl Hh] Hv. apply verify_iff in Hv. destruct Hv as [Fl Fh].
    rewrite <- Hh in Fh. destruct (map_H_eq_or_collision _ _ Fh) as [E|C]; [|now right].
    left. rewrite <- (concat_split_by (sizes idx) file) by (symmetry; exact Fl).
    rewrite <- (concat_split_by (sizes idx) blob) by exact Hl. now rewrite E.
  Qed.

  Theorem verify_accepts_blob n idx blob :
    index_describes H idx blob -> verify_index H n blob idx = Some true.
  Proof. intros [Hl Hh]. apply verify_iff. split; [now symmetry|exact Hh]. Qed.

  (* Any single altered, missing or extra byte is detected (or exhibits a collision). *)
  Corollary verify_detects_change n file idx blob :
    index_describes H idx blob -> file <> blob ->
    verify_index H n file idx = Some false \/ Collision H.
  Proof.
    intros Hd Hne. destruct (verify_total n file idx) as [[|] E]; [|now left].
    destruct (verify_accepts_only_blob _ _ _ _ Hd E); [contradiction|now right].
  Qed.

  (* ---- the concurrent implementation: nw workers, any schedule, cancellation anywhere ---- *)

  Definition vi_job_ok (file : bytes) (bs : list (list (nat * (id * nat)))) (k : nat) : bool :=
    batch_ok H file (nth k bs []).

  Lemma forallb_nth {A} (f : A -> bool) (l : list A) d :
    (forall k, k < length l -> f (nth k l d) = true) -> forallb f l = true.
  Proof.
    induction l as [|x r IH]; intros Hk; cbn; [reflexivity|].
    pose proof (Hk 0 ltac:(cbn; lia)) as H0. cbn in H0. rewrite H0. cbn. apply IH. intros k Hlt. apply (Hk (S k)). cbn. lia.
  Qed.

  Theorem verify_conc_sound n nw can_cancel sched file idx bs :
    length file = idx_length idx ->
    batches n (with_starts 0 idx) = Some bs ->
    let s := run (Pool.step (length bs) (vi_job_ok file bs) can_cancel) sched (Pool.init nw) in
    final s = true -> pool_result s = RNil ->
    map H (split_by (sizes idx) file) = ids idx.
  Proof.
    intros Hl Eb s Hfin Hres.
    assert (Hall : forall k, k < length bs -> vi_job_ok file bs k = true).
    { intros k Hk. eapply pool_sound; eauto. }
    assert (Hv : verify_index H n file idx = Some true).
    { unfold verify_index. rewrite Hl, Nat.eqb_refl. cbn [negb]. rewrite Eb. f_equal.
      apply forallb_nth with (d := []). exact Hall. }
    apply verify_iff in Hv. tauto.
  Qed.

  Theorem verify_conc_complete n nw sched file idx bs :
    batches n (with_starts 0 idx) = Some bs ->
    map H (split_by (sizes idx) file) = ids idx -> length file = idx_length idx ->
    let s := run (Pool.step (length bs) (vi_job_ok file bs) false) sched (Pool.init nw) in
    final s = true -> pool_result s = RNil.
  Proof.
    intros Eb Hh Hl s Hfin. apply pool_complete; auto.
    intros k Hk.
    assert (Hv : verify_index H n file idx = Some true) by (apply verify_iff; tauto).
    unfold verify_index in Hv. rewrite Hl, Nat.eqb_refl in Hv. cbn [negb] in Hv. rewrite Eb in Hv.
    injection Hv as Hf. rewrite forallb_forall in Hf. unfold vi_job_ok. apply Hf.
    apply nth_In. exact Hk.
  Qed.
End VerifyProofs.
