(* Model/TarWalk.v: with File.Path cleaned, tar()'s path.Dir test regroups the walk into the tree
   that was walked, whatever the spelling of the root path. *)
From Coq Require Import List NArith Arith Bool Lia.
From DS Require Import Base.Bytes Base.GoPath Model.Tar Model.TarWalk Proofs.PathChildProofs Proofs.TarProofs.
Import ListNotations.

(* every name in the tree is a real path element: not empty, not "." or "..", no slash *)
Inductive names_real : node -> Prop :=
| nr_dir m xs cs : Forall (fun nc : bytes * node => real_elem (fst nc) /\ names_real (snd nc)) cs -> names_real (NDir m xs cs)
| nr_file m xs d : names_real (NFile m xs d)
| nr_sym m xs tg : names_real (NSymlink m xs tg)
| nr_dev m xs c ma mi : names_real (NDevice m xs c ma mi)
| nr_other m xs s : names_real (NOther m xs s).

Fixpoint size (t : node) : nat :=
  S (match t with NDir _ _ cs => fold_right (fun nc a => size (snd nc) + a) 0 cs | _ => 0 end).
Definition sizes (cs : list (bytes * node)) : nat := fold_right (fun nc a => size (snd nc) + a) 0 cs.

(* File.Path of every directory in the walk of t at w *)
Fixpoint dirs (w : bytes) (t : node) : list bytes :=
  match t with
  | NDir _ _ cs => clean w :: flat_map (fun nc : bytes * node => dirs (join [w; fst nc]) (snd nc)) cs
  | _ => []
  end.

Definition rest_ok (ds : list bytes) (rest : list event) : Prop :=
  match rest with
  | [] => True
  | (p, _, _) :: _ => ~ In (dir p) ds
  end.

Definition walks (w : bytes) (cs : list (bytes * node)) : list event :=
  flat_map (fun nc : bytes * node => walk PathClean (join [w; fst nc]) (fst nc) (snd nc)) cs.
Definition dirss (w : bytes) (cs : list (bytes * node)) : list bytes :=
  flat_map (fun nc : bytes * node => dirs (join [w; fst nc]) (snd nc)) cs.

Lemma walk_length v w name t : length (walk v w name t) = size t.
Proof.
  revert w name. induction t as [m xs cs IH| | | |] using node_ind'; intros w name; try reflexivity.
  cbn [walk size length]. f_equal.
  induction IH as [|nc r Hnc _ IHr]; [reflexivity|]. cbn [flat_map fold_right]. rewrite app_length, Hnc, IHr. reflexivity.
Qed.

Lemma dirs_rank t : forall w x, w <> [] -> names_real t -> In x (dirs w t) -> prank (clean w) <= prank x.
Proof.
  induction t as [m xs cs IH| | | |] using node_ind'; intros w x Hw Hn Hin; try (now destruct Hin).
  cbn [dirs] in Hin. destruct Hin as [<-|Hin]; [lia|].
  inversion Hn as [? ? ? Hcs| | | |]; subst.
  apply in_flat_map in Hin. destruct Hin as (nc & Hnc & Hx).
  rewrite Forall_forall in IH, Hcs. destruct (Hcs nc Hnc) as [Hr Hnr].
  pose proof (IH nc Hnc (join [w; fst nc]) x (join_child_nonempty _ _ Hw Hr) Hnr Hx) as H1.
  rewrite join_child_clean in H1 by exact Hw.
  pose proof (rank_join_child w (fst nc) Hw Hr) as H2.
  eapply Nat.le_trans; [apply Nat.lt_le_incl; exact H2|exact H1].
Qed.

Lemma head_walk w name t rest : exists ev, walk PathClean w name t ++ rest = (clean w, name, head_of t) :: ev.
Proof. destruct t; cbn [walk file_path app]; eexists; reflexivity. Qed.

Lemma regroup_S f p name h rest :
  regroup (S f) ((p, name, h) :: rest) =
    match h with
    | NDir m xs _ => match group f p rest [] with Some (cs, rest') => Some (NDir m xs cs, rest') | None => None end
    | _ => Some (h, rest)
    end.
Proof. reflexivity. Qed.

Lemma group_S f dirp p name h rest acc :
  group (S f) dirp ((p, name, h) :: rest) acc =
    if beq (dir p) dirp then
      match regroup f ((p, name, h) :: rest) with
      | Some (c, rest') => group f dirp rest' (acc ++ [(base name, c)])
      | None => None
      end
    else Some (acc, (p, name, h) :: rest).
Proof. reflexivity. Qed.

Lemma group_S_head f dirp evs p name h ev acc : evs = (p, name, h) :: ev ->
  group (S f) dirp evs acc =
    if beq (dir p) dirp then
      match regroup f evs with
      | Some (c, rest') => group f dirp rest' (acc ++ [(base name, c)])
      | None => None
      end
    else Some (acc, evs).
Proof. intros ->. reflexivity. Qed.

Lemma rest_ok_head ds evs p nm h ev : evs = (p, nm, h) :: ev -> ~ In (dir p) ds -> rest_ok ds evs.
Proof. intros -> H. exact H. Qed.

Lemma group_step f dirp evs p name h ev acc c rest' :
  evs = (p, name, h) :: ev -> dir p = dirp -> regroup f evs = Some (c, rest') ->
  group (S f) dirp evs acc = group f dirp rest' (acc ++ [(base name, c)]).
Proof. intros E Hd Hr. rewrite (group_S_head f dirp evs p name h ev acc E). rewrite Hd, beq_refl, Hr. reflexivity. Qed.

Definition regroup_prop (t : node) : Prop := forall w name rest fuel,
  names_real t -> w <> [] -> rest_ok (dirs w t) rest -> 2 * size t < fuel ->
  regroup fuel (walk PathClean w name t ++ rest) = Some (t, rest).

Lemma group_ok cs : Forall (fun nc : bytes * node => regroup_prop (snd nc)) cs ->
  Forall (fun nc : bytes * node => real_elem (fst nc) /\ names_real (snd nc)) cs ->
  forall w acc rest fuel, w <> [] ->
  rest_ok (clean w :: dirss w cs) rest -> 2 * sizes cs + 2 <= fuel ->
  group fuel (clean w) (walks w cs ++ rest) acc = Some (acc ++ cs, rest).
Proof.
  induction 1 as [|nc r Hnc _ IH]; intros Hreal w acc rest fuel Hw Hrest Hf.
  - cbn [walks flat_map app]. rewrite app_nil_r. destruct fuel as [|f]; [lia|].
    destruct rest as [|[[p nm] h] rest']; [reflexivity|].
    rewrite group_S. cbn [rest_ok dirss flat_map] in Hrest.
    destruct (beq (dir p) (clean w)) eqn:Eb; [|reflexivity].
    apply beq_eq in Eb. exfalso. apply Hrest. left. symmetry. exact Eb.
  - inversion Hreal as [|? ? [Hr Hnr] Hreal']; subst.
    destruct nc as [n c]. cbn [fst snd] in *.
    unfold walks. cbn [flat_map fst snd]. fold (walks w r). rewrite <- app_assoc.
    destruct (head_walk (join [w; n]) n c (walks w r ++ rest)) as (ev & Eev).
    destruct fuel as [|f]; [lia|].
    cbn [sizes fold_right snd] in Hf. fold (sizes r) in Hf.
    assert (Hsz : 1 <= size c) by (destruct c; cbn [size]; lia).
    assert (Hd : dir (clean (join [w; n])) = clean w).
    { exact (eq_trans (f_equal dir (join_child_clean w n Hw)) (dir_join_child w n Hw Hr)). }
    assert (Hrg : rest_ok (dirs (join [w; n]) c) (walks w r ++ rest) ->
                  regroup f (walk PathClean (join [w; n]) n c ++ walks w r ++ rest) = Some (c, walks w r ++ rest)).
    { intros Hro. apply (Hnc (join [w; n]) n (walks w r ++ rest) f Hnr (join_child_nonempty _ _ Hw Hr) Hro). lia. }
    assert (Hnext : rest_ok (clean w :: dirss w r) rest).
    { destruct rest as [|[[p nm] h] rest']; [exact I|]. cbn [rest_ok] in *. intros Hin. apply Hrest.
      destruct Hin as [Hin|Hin]; [left; exact Hin|right]. unfold dirss. cbn [flat_map]. apply in_or_app. right. exact Hin. }
    etransitivity; [eapply group_step; [exact Eev|exact Hd|apply Hrg]|].
    2:{ etransitivity; [apply (IH Hreal' w (acc ++ [(base n, c)]) rest f Hw Hnext); lia|].
        rewrite (base_plain n Hr), <- app_assoc. reflexivity. }
    (* what follows the child's subtree does not look like an entry of a directory inside it *)
    destruct r as [|[n2 c2] r2].
      * cbn [walks flat_map app]. destruct rest as [|[[p nm] h] rest']; [exact I|]. cbn [rest_ok] in *.
        intros Hin. apply Hrest. right. unfold dirss. cbn [flat_map fst snd]. apply in_or_app. left. exact Hin.
      * inversion Hreal' as [|? ? [Hr2 _] _]; subst. cbn [fst] in Hr2.
        unfold walks. cbn [flat_map fst snd]. rewrite <- app_assoc.
        destruct (head_walk (join [w; n2]) n2 c2 (flat_map (fun nc : bytes * node => walk PathClean (join [w; fst nc]) (fst nc) (snd nc)) r2 ++ rest)) as (ev2 & E2).
        eapply rest_ok_head; [exact E2|].
        assert (Hd2 : dir (clean (join [w; n2])) = clean w)
          by exact (eq_trans (f_equal dir (join_child_clean w n2 Hw)) (dir_join_child w n2 Hw Hr2)).
        intros Hin.
        assert (Hin' : In (clean w) (dirs (join [w; n]) c))
          by exact (eq_ind _ (fun z => In z (dirs (join [w; n]) c)) Hin _ Hd2).
        pose proof (dirs_rank c (join [w; n]) (clean w) (join_child_nonempty _ _ Hw Hr) Hnr Hin') as H1.
        assert (H1' : prank (join [w; n]) <= prank (clean w))
          by exact (eq_ind _ (fun z => prank z <= prank (clean w)) H1 _ (join_child_clean w n Hw)).
        pose proof (rank_join_child w n Hw Hr) as H2.
        exact (Nat.lt_irrefl _ (Nat.lt_le_trans _ _ _ H2 H1')).
Qed.

Theorem regroup_ok : forall t, regroup_prop t.
Proof.
  induction t as [m xs cs IH| | | |] using node_ind'; intros w name rest fuel Hn Hw Hrest Hf;
    try (destruct fuel as [|f]; [lia|]; reflexivity).
  inversion Hn as [? ? ? Hcs| | | |]; subst.
  destruct fuel as [|f]; [lia|].
  cbn [walk file_path head_of app]. rewrite regroup_S. fold (walks w cs).
  cbn [size] in Hf. fold (sizes cs) in Hf.
  rewrite (group_ok cs IH Hcs w [] rest f Hw); [reflexivity| |lia].
  exact Hrest.
Qed.

Theorem tar_sees_clean_proof : forall t w, names_real t -> w <> [] -> tar_sees PathClean w t = Some (t, []).
Proof.
  intros t w Hn Hw. unfold tar_sees. cbv zeta.
  pose proof (regroup_ok t w (base w) [] (2 * length (walk PathClean w (base w) t) + 2) Hn Hw I) as H.
  rewrite app_nil_r in H. apply H. rewrite walk_length. lia.
Qed.

Lemma valid_name_real n : valid_name n = true -> real_elem n.
Proof.
  unfold valid_name. rewrite !andb_true_iff, !negb_true_iff. intros [[[[_ Hs] H1] _] Hd].
  assert (Hns : noslash n).
  { intros Hin. assert (existsb (fun x => N.eqb x 47) n = true) by (apply existsb_exists; exists slash; split; [exact Hin|reflexivity]). congruence. }
  split; [|exact Hns].
  destruct n as [|a [|b [|c r]]]; cbn [kind]; try reflexivity.
  - cbn in H1. discriminate.
  - destruct (is_dot a) eqn:Ea; [|reflexivity]. apply is_dot_true in Ea. subst. discriminate.
  - destruct (is_dot a) eqn:Ea; [|reflexivity]. destruct (is_dot b) eqn:Eb; [|reflexivity].
    apply is_dot_true in Ea, Eb. subst. discriminate.
  - destruct (is_dot a); [|reflexivity]. destruct (is_dot b); reflexivity.
Qed.

Lemma good_names ord : forall t, good ord t -> names_real t.
Proof.
  induction t as [m xs cs IH| | | |] using node_ind'; intros Hg; try constructor.
  inversion Hg as [? ? ? _ _ _ Hcs _| | |]; subst.
  rewrite Forall_forall in *. intros nc Hin. destruct (Hcs nc Hin) as [Hv Hc]. split; [apply valid_name_real; exact Hv|].
  destruct Hc as [Ho|Hc]; [|exact (IH nc Hin Hc)].
  destruct (snd nc); try discriminate. constructor.
Qed.

(* the uncleaned path: a root spelled with a trailing slash is closed at its first entry *)
Definition ex_walk_tree : node :=
  (NDir ex_meta [] [([97], NFile ex_meta [] [1]); ([98], NDir ex_meta [] [([99], NFile ex_meta [] [])])])%N.

Lemma tar_sees_raw_refuted_proof :
  names_real ex_walk_tree /\
  (exists left, tar_sees PathRaw [116; 47]%N ex_walk_tree = Some (NDir ex_meta [] [], left) /\ length left = 3) /\
  tar_sees PathRaw [116]%N ex_walk_tree = Some (ex_walk_tree, []).
Proof.
  split; [|split; [eexists; split; vm_compute; reflexivity|vm_compute; reflexivity]].
  assert (re : forall c : N, c <> slash -> c <> dot -> real_elem [c]).
  { intros c H1 H2. apply real_elem_intro; [exact H1|exact H2|intros []]. }
  apply nr_dir. constructor; [split; [apply re; discriminate|constructor]|].
  constructor; [|constructor]. split; [apply re; discriminate|].
  apply nr_dir. constructor; [split; [apply re; discriminate|constructor]|constructor].
Qed.

(* ---------- the tar-stream source with AddRoot (Model/TarStream.v) ---------- *)
From DS Require Import Model.TarStream.

(* every file of a walk has a path of rank at least that of the (cleaned) start *)
Lemma walk_rank t : forall w name e, w <> [] -> names_real t -> In e (walk PathClean w name t) ->
  prank (clean w) <= prank (fst (fst e)).
Proof.
  induction t as [m xs cs IH| | | |] using node_ind'; intros w name e Hw Hn Hin;
    try (cbn [walk file_path app] in Hin; destruct Hin as [<-|[]]; cbn [fst]; apply Nat.le_refl).
  cbn [walk file_path] in Hin. destruct Hin as [<-|Hin]; [cbn [fst]; apply Nat.le_refl|].
  inversion Hn as [? ? ? Hcs| | | |]; subst.
  apply in_flat_map in Hin. destruct Hin as (nc & Hnc & Hx).
  rewrite Forall_forall in IH, Hcs. destruct (Hcs nc Hnc) as [Hr Hnr].
  pose proof (IH nc Hnc (join [w; fst nc]) (fst nc) e (join_child_nonempty _ _ Hw Hr) Hnr Hx) as H1.
  assert (H1' : prank (join [w; fst nc]) <= prank (fst (fst e)))
    by exact (eq_ind _ (fun z => prank z <= prank (fst (fst e))) H1 _ (join_child_clean w (fst nc) Hw)).
  pose proof (rank_join_child w (fst nc) Hw Hr) as H2.
  eapply Nat.le_trans; [apply Nat.lt_le_incl; exact H2|exact H1'].
Qed.

Lemma filter_all_id {B} (f : B -> bool) l : (forall x, In x l -> f x = true) -> filter f l = l.
Proof.
  induction l as [|a l IH]; intros H; [reflexivity|]. cbn [filter]. rewrite (H a (or_introl eq_refl)).
  rewrite IH; [reflexivity|]. intros x Hx. apply H. right. exact Hx.
Qed.

(* a stream that lists the content of a directory has no root member *)
Lemma members_no_root cs : Forall (fun nc : bytes * node => real_elem (fst nc) /\ names_real (snd nc)) cs ->
  filter (fun e => negb (is_root_member e)) (members_of cs) = members_of cs.
Proof.
  intros Hcs. apply filter_all_id. intros e Hin.
  unfold members_of in Hin. apply in_flat_map in Hin. destruct Hin as (nc & Hnc & Hx).
  rewrite Forall_forall in Hcs. destruct (Hcs nc Hnc) as [Hr Hnr].
  assert (Hd : ([dot] : bytes) <> []) by discriminate.
  pose proof (walk_rank (snd nc) (join [[dot]; fst nc]) (fst nc) e (join_child_nonempty _ _ Hd Hr) Hnr Hx) as H1.
  assert (H1' : prank (join [[dot]; fst nc]) <= prank (fst (fst e)))
    by exact (eq_ind _ (fun z => prank z <= prank (fst (fst e))) H1 _ (join_child_clean [dot] (fst nc) Hd)).
  pose proof (rank_join_child [dot] (fst nc) Hd Hr) as H2.
  unfold is_root_member. destruct (beq (fst (fst e)) [dot]) eqn:Eb; [|reflexivity].
  apply beq_eq in Eb. rewrite Eb in H1'. exfalso.
  assert (Hz : prank [dot] = 0) by reflexivity. rewrite Hz in H1'.
  exact (Nat.nlt_0_r _ (Nat.lt_le_trans _ _ _ H2 H1')).
Qed.

(* AddRoot: every root member of the stream is dropped, wherever it stands and however many there
   are; what is left -- the content of a directory -- ends up in the synthetic root, nothing lost *)
Theorem stream_addroot_proof : forall ms cs,
  Forall (fun nc : bytes * node => real_elem (fst nc) /\ names_real (snd nc)) cs ->
  filter (fun e => negb (is_root_member e)) ms = members_of cs ->
  stream_sees ReaderFixed true ms = Some (NDir stream_root_meta [] cs, []).
Proof.
  intros ms cs Hcs Hf. unfold stream_sees, reader_events. rewrite Hf.
  pose proof (tar_sees_clean_proof (NDir stream_root_meta [] cs) [dot] (nr_dir _ _ _ Hcs)) as H.
  specialize (H ltac:(discriminate)). exact H.
Qed.

Theorem stream_addroot_plain_proof : forall cs,
  Forall (fun nc : bytes * node => real_elem (fst nc) /\ names_real (snd nc)) cs ->
  stream_sees ReaderFixed true (members_of cs) = Some (NDir stream_root_meta [] cs, []).
Proof. intros cs Hcs. apply stream_addroot_proof; [exact Hcs|apply members_no_root; exact Hcs]. Qed.

Definition ex_stream_members : list (bytes * node) :=
  ([([97], NFile ex_meta [] [1]); ([100], NDir ex_meta [] [([120], NFile ex_meta [] [])])])%N.

Lemma stream_reads_first_refuted_proof :
  stream_sees ReaderReadsFirst true (members_of ex_stream_members) =
    Some (NDir stream_root_meta [] [([100], NDir ex_meta [] [([120], NFile ex_meta [] [])])]%N, []) /\
  stream_sees ReaderReadsFirst true [] = None /\
  stream_sees ReaderFixed true [] = Some (NDir stream_root_meta [] [], []).
Proof. repeat split; vm_compute; reflexivity. Qed.

(* ---------- whatever regroup consumes is in the tree it returns ---------- *)
Definition hs (nc : bytes * node) : list node := heads (snd nc).

Lemma regroup_group_consume : forall fuel,
  (forall evs t rest, regroup fuel evs = Some (t, rest) -> event_heads evs = heads t ++ event_heads rest) /\
  (forall dirp evs acc cs rest, group fuel dirp evs acc = Some (cs, rest) ->
     flat_map hs acc ++ event_heads evs = flat_map hs cs ++ event_heads rest).
Proof.
  induction fuel as [|f [IHr IHg]]; [split; intros; discriminate|]. split.
  - intros evs t rest H. destruct evs as [|[[p nm] h] ev]; [discriminate|].
    rewrite regroup_S in H. destruct h as [m xs ch| | | |];
      try (inversion H; subst; reflexivity).
    destruct (group f p ev []) as [[cs rest']|] eqn:E; [|discriminate]. inversion H; subst.
    pose proof (IHg _ _ _ _ _ E) as Hq. cbn [flat_map app] in Hq.
    cbn [event_heads map snd head_of heads]. fold (event_heads ev). rewrite Hq. reflexivity.
  - intros dirp evs acc cs rest H. destruct evs as [|[[p nm] h] ev].
    + inversion H; subst. reflexivity.
    + rewrite group_S in H. destruct (beq (dir p) dirp).
      * destruct (regroup f ((p, nm, h) :: ev)) as [[c rest1]|] eqn:E; [|discriminate].
        pose proof (IHr _ _ _ E) as Hp. pose proof (IHg _ _ _ _ _ H) as Hq.
        rewrite flat_map_app in Hq. cbn [flat_map] in Hq. rewrite app_nil_r in Hq. unfold hs at 2 in Hq. cbn [snd] in Hq.
        exact (eq_trans (f_equal (app (flat_map hs acc)) Hp) (eq_trans (app_assoc _ _ _) Hq)).
      * inversion H; subst. reflexivity.
Qed.

(* Tar() == nil (with the check of 4e00255): every file the reader delivered is a node of the
   archive, in order *)
Theorem stream_tar_complete_proof : forall add_root members t,
  stream_tar LeftoverRefused add_root members = TarOk t ->
  event_heads (reader_events ReaderFixed add_root members) = heads t.
Proof.
  intros add_root members t. unfold stream_tar, stream_sees.
  destruct (reader_events ReaderFixed add_root members) as [|e evs] eqn:E; [discriminate|].
  destruct (regroup (2 * length (e :: evs) + 2) (e :: evs)) as [[t' rest]|] eqn:R; [|discriminate].
  destruct rest as [|x rest]; [|discriminate]. cbn [tar_outcome_of]. intros H. inversion H; subst.
  pose proof (proj1 (regroup_group_consume _) _ _ _ R) as Hc. cbn [event_heads map] in Hc. rewrite app_nil_r in Hc. exact Hc.
Qed.

Lemma stream_leftover_refuted_proof :
  stream_tar LeftoverIgnored false (members_of ex_stream_members) = TarOk (NFile ex_meta [] [1]%N) /\
  stream_tar LeftoverRefused false (members_of ex_stream_members) = TarError /\
  stream_tar LeftoverRefused true (members_of ex_stream_members) = TarOk (NDir stream_root_meta [] ex_stream_members).
Proof. repeat split; vm_compute; reflexivity. Qed.

(* two root members in a row: the `if` variant hands the second one out as an entry named "." *)
Definition root_member (name : bytes) : event := ([dot], name, NDir ex_meta [] []).
Lemma stream_skips_one_refuted_proof :
  let ms := root_member [dot] :: root_member [dot] :: members_of ex_stream_members in
  stream_sees ReaderSkipsOne true ms = Some (NDir stream_root_meta [] [([dot], NDir ex_meta [] ex_stream_members)], []) /\
  stream_sees ReaderFixed true ms = Some (NDir stream_root_meta [] ex_stream_members, []) /\
  stream_sees ReaderNoSkip true (root_member [dot] :: members_of ex_stream_members) =
    Some (NDir stream_root_meta [] [([dot], NDir ex_meta [] ex_stream_members)], []).
Proof. cbv zeta. repeat split; vm_compute; reflexivity. Qed.

(* ---------- a source that fails: Tar() == nil only if nothing failed ---------- *)
Lemma regroupF_consumes : forall fuel,
  (forall src t rest, regroupF FaultReported fuel src = ROk (t, rest) ->
     exists evs, src = map NextOk evs ++ rest) /\
  (forall dirp src acc cs rest, groupF FaultReported fuel dirp src acc = ROk (cs, rest) ->
     exists evs, src = map NextOk evs ++ rest).
Proof.
  induction fuel as [|f [IHr IHg]]; [split; intros; discriminate|]. split.
  - intros src t rest H. destruct src as [|[[[p nm] h]|] r]; cbn [regroupF] in H; try discriminate. destruct h as [m xs ch| | | |];
      try (inversion H; subst; eexists [_]; reflexivity).
    destruct (groupF FaultReported f p r []) as [[cs rest']| |] eqn:E; try discriminate.
    inversion H; subst. destruct (IHg _ _ _ _ _ E) as (evs & ->).
    exists ((p, nm, NDir m xs ch) :: evs). reflexivity.
  - intros dirp src acc cs rest H. destruct src as [|[[[p nm] h]|] r].
    + cbn [groupF] in H. inversion H; subst. exists []. reflexivity.
    + cbn [groupF] in H. destruct (beq (dir p) dirp).
      * destruct (regroupF FaultReported f (NextOk (p, nm, h) :: r)) as [[c rest1]| |] eqn:E; try discriminate.
        destruct (IHr _ _ _ E) as (evs1 & E1). destruct (IHg _ _ _ _ _ H) as (evs2 & E2).
        exists (evs1 ++ evs2). rewrite E1, E2, map_app, <- app_assoc. reflexivity.
      * inversion H; subst. exists []. reflexivity.
    + cbn [groupF] in H. discriminate.
Qed.

Theorem tar_faulty_reports_proof : forall src t,
  tar_faulty FaultReported src = TarOk t -> ~ In NextErr src.
Proof.
  intros src t H. unfold tar_faulty in H.
  destruct (regroupF FaultReported (2 * length src + 2) src) as [[t' rest]| |] eqn:E; try discriminate.
  destruct (proj1 (regroupF_consumes _) _ _ _ E) as (evs & Es).
  destruct rest as [|[e|] rest]; try discriminate.
  rewrite app_nil_r in Es. rewrite Es. intros Hin. apply in_map_iff in Hin. destruct Hin as (x & Hx & _). discriminate.
Qed.

Definition ex_fault_src : list next_result :=
  (NextOk ([116], [116], NDir ex_meta [] []) :: NextOk ([116; 47; 97], [97], NFile ex_meta [] [1]) ::
   NextErr :: NextOk ([116; 47; 122], [122], NFile ex_meta [] []) :: [])%N.

Lemma tar_faulty_refuted_proof :
  tar_faulty FaultAsEOF ex_fault_src = TarOk (NDir ex_meta [] [([97], NFile ex_meta [] [1])])%N /\
  tar_faulty FaultReported ex_fault_src = TarError /\
  tar_faulty FaultReported (filter (fun r => match r with NextOk _ => true | NextErr => false end) ex_fault_src)
    = TarOk (NDir ex_meta [] [([97], NFile ex_meta [] [1]); ([122], NFile ex_meta [] [])])%N.
Proof. repeat split; vm_compute; reflexivity. Qed.
