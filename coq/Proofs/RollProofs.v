(* The rolling update of the buzhash equals the hash of the shifted window. *)
From Coq Require Import NArith List Lia Arith.
From DS Require Import Gen.Constants Base.Bytes Base.Word32 Model.Chunker.
Import ListNotations.
Local Open Scope N_scope.

Lemma hashTable_wf : Forall wf hashTable.
Proof.
  apply Forall_forall. intros x Hx.
  assert (Hb : forallb (fun x => x <? wmod) hashTable = true) by (vm_compute; reflexivity).
  rewrite forallb_forall in Hb. specialize (Hb x Hx). apply N.ltb_lt in Hb. exact Hb.
Qed.

Lemma wf0 : wf 0. Proof. unfold wf, wmod, wbits. reflexivity. Qed.

Lemma T_wf b : wf (T b).
Proof.
  unfold T. destruct (nth_in_or_default (N.to_nat b) hashTable 0) as [Hin|Hd].
  - pose proof hashTable_wf as Hf. rewrite Forall_forall in Hf. apply Hf, Hin.
  - rewrite Hd. apply wf0.
Qed.

Lemma hstep_wf h b : wf h -> wf (hstep h b).
Proof. intros. unfold hstep. apply xor_wf; auto using rotl_wf, T_wf. Qed.

Definition wh_from (h : N) (w : list N) : N := fold_left hstep w h.
Lemma win_hash_from w : win_hash w = wh_from 0 w. Proof. reflexivity. Qed.

Lemma wh_from_wf w : forall h, wf h -> wf (wh_from h w).
Proof. induction w as [|b w IH]; cbn; intros h Hh; auto. apply IH, hstep_wf, Hh. Qed.
Lemma win_hash_wf w : wf (win_hash w).
Proof. apply wh_from_wf, wf0. Qed.

Lemma xor_assoc a b c : xor (xor a b) c = xor a (xor b c). Proof. apply N.lxor_assoc. Qed.
Lemma xor_comm a b : xor a b = xor b a. Proof. apply N.lxor_comm. Qed.
Lemma xor_nilp a : xor a a = 0. Proof. apply N.lxor_nilpotent. Qed.
Lemma xor_0_r a : xor a 0 = a. Proof. apply N.lxor_0_r. Qed.
Lemma xor_0_l a : xor 0 a = a. Proof. apply N.lxor_0_l. Qed.

Lemma rotl_0 k : rotl 0 k = 0.
Proof. apply N.bits_inj. intro i. rewrite rotl_bits by apply wf0. destruct (i <? wbits); now rewrite ?N.bits_0. Qed.

Lemma rotl_0_r h : wf h -> rotl h 0 = h.
Proof.
  intros Hh. apply N.bits_inj. intro i. rewrite rotl_bits by assumption.
  destruct (N.ltb_spec i wbits) as [Hi|Hi].
  - cbn. rewrite N.sub_0_r. replace (i + wbits) with (i + 1 * wbits) by lia.
    rewrite N.mod_add by (unfold wbits; lia). rewrite N.mod_small by assumption. reflexivity.
  - symmetry. apply (proj1 (wf_bits h) Hh). assumption.
Qed.

(* linearity of the Horner fold in its seed *)
Lemma wh_from_lin w : forall h, wf h ->
  wh_from h w = xor (rotl h (N.of_nat (length w))) (win_hash w).
Proof.
  unfold win_hash. induction w as [|b w IH]; intros h Hh.
  - cbn. rewrite xor_0_r. symmetry. apply rotl_0_r. exact Hh.
  - cbn [wh_from fold_left length]. fold (wh_from (hstep h b) w). fold (wh_from (hstep 0 b) w).
    rewrite (IH (hstep h b)) by (apply hstep_wf; assumption).
    rewrite (IH (hstep 0 b)) by (apply hstep_wf, wf0).
    unfold hstep. rewrite rotl_0, xor_0_l.
    rewrite !rotl_xor by auto using rotl_wf, T_wf.
    rewrite rotl_rotl by assumption.
    rewrite Nat2N.inj_succ, <- N.add_1_l.
    rewrite xor_assoc. reflexivity.
Qed.

Lemma win_hash_cons a w :
  win_hash (a :: w) = xor (rotl (T a) (N.of_nat (length w))) (win_hash w).
Proof.
  unfold win_hash at 1. cbn [fold_left]. fold (wh_from (hstep 0 a) w).
  rewrite wh_from_lin by (apply hstep_wf, wf0).
  unfold hstep. rewrite rotl_0, xor_0_l. reflexivity.
Qed.

Lemma win_hash_snoc w b : win_hash (w ++ [b]) = hstep (win_hash w) b.
Proof. unfold win_hash. rewrite fold_left_app. reflexivity. Qed.

(* Go's rolling update: h' = rotl(h,1) ^ rotl(T[out], |window|) ^ T[in] *)
Theorem roll_correct (a b : N) (w : list N) :
  xor (xor (rotl (win_hash (a :: w)) 1) (rotl (T a) (N.of_nat (S (length w))))) (T b)
  = win_hash (w ++ [b]).
Proof.
  rewrite win_hash_snoc, win_hash_cons. unfold hstep.
  assert (Hw : wf (win_hash w)) by apply win_hash_wf.
  rewrite rotl_xor by auto using rotl_wf, T_wf.
  rewrite rotl_rotl by apply T_wf.
  unfold bytes, byte in *.
  replace (N.of_nat (length w) + 1) with (N.of_nat (S (length w))) by lia.
  set (X := rotl (T a) (N.of_nat (S (length w)))).
  rewrite (xor_comm X), xor_assoc, xor_assoc.
  rewrite <- (xor_assoc X X), xor_nilp, xor_0_l. reflexivity.
Qed.

(* Go's explicit window initialisation computes the window hash. *)
Lemma init_hash_xor w : forall n h, init_hash w n h = xor h (init_hash w n 0).
Proof.
  induction w as [|b w IH]; intros n h; cbn.
  - now rewrite xor_0_r.
  - rewrite (IH _ (xor h _)). rewrite ?xor_0_l.
    rewrite (IH _ (rotl (T b) (N.of_nat (n - 1)))). rewrite xor_assoc. reflexivity.
Qed.

Lemma init_hash_correct w : init_hash w (length w) 0 = win_hash w.
Proof.
  induction w as [|b w IH]; [reflexivity|].
  cbn [init_hash length]. rewrite init_hash_xor.
  replace (S (length w) - 1)%nat with (length w) by lia.
  rewrite IH, xor_0_l. symmetry. apply win_hash_cons.
Qed.
