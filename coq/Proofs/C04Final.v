(* C04 corollaries that combine the round trip with the truncation and re-encoding lemmas. *)
From Coq Require Import List NArith Arith Bool Lia.
From DS Require Import Gen.Constants Base.Bytes Base.LE64 Model.Format Model.Index
     Proofs.FormatProofs Proofs.IndexProofs Proofs.PrefixProofs Proofs.ReencodeProofs Proofs.LayoutProofs.
Import ListNotations.
Local Open Scope N_scope.

Lemma decode_rest_encode d i :
  wf_index i -> digest_ok d (ix_flags i) = true -> decode_index_rest d (encode_index i) = Ok (i, []).
Proof.
  intros Hwf Hd. destruct (index_from_reader_encode d i Hwf Hd) as [a E].
  unfold decode_index_rest, run_result. now rewrite E.
Qed.

(* every strict prefix of a file WriteTo wrote is rejected *)
Theorem index_rejects_prefix d i :
  wf_index i -> digest_ok d (ix_flags i) = true ->
  forall p q, encode_index i = p ++ q -> q <> [] -> exists e, decode_index d p = Err e.
Proof. intros Hwf Hd. apply (index_prefix_rejected d _ i). now apply decode_rest_encode. Qed.

(* what WriteTo writes is well-formed bytes in canonical form *)
Lemma encode_index_wf_bytes i : Forall (fun c => wf_bytes (c_id c)) (ix_chunks i) -> wf_bytes (encode_index i).
Proof.
  intros Hids. unfold encode_index. cbn [encode_elem]. apply wf_bytes_app. split; [apply le64s_wf|].
  apply wf_bytes_app. split; [|apply le64s_wf]. apply wf_bytes_app. split; [apply le64s_wf|].
  generalize 0 at 1. induction Hids as [|c cs Hc _ IH]; intros off; cbn [table_items enc_titems flat_map]; [constructor|].
  apply wf_bytes_app. split; [|apply IH]. cbn [enc_titem]. apply wf_bytes_app. split; [apply le64_wf|exact Hc].
Qed.
