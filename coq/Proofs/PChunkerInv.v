(* The invariant of the IndexFromFile protocol (Model/PChunker.v, current collector rule). *)
From Coq Require Import List NArith Arith Bool Lia.
From DS Require Import Gen.Constants Base.Bytes Base.Hash Base.Sched Model.Chunker Model.PChunker
     Proofs.ChunkerSpecProofs Proofs.PChunkerBase.
Import ListNotations.

Section Inv.
  Variable H : bytes -> id.
  Variables (min max : nat) (d : N) (data : bytes).
  Hypothesis Hmin : W <= min.
  Hypothesis Hmax : min <= max.
  Hypothesis Hpos : 0 < max.
  Variables (nw span : nat).
  Hypothesis Hspan : forall i, i < nw -> span * i <= length data.

  Notation canon := (canon min max d data).
  Notation all_zero := (all_zero data).
  Notation zdc := (zeros_dont_cut min max d).

  Definition emit_end (s : pstate) (i : nat) : nat := span * i + covered (w_emit (getw s i)).
  Definition frontier (s : pstate) (i : nat) : nat :=
    span * i + covered (firstn (w_cons (getw s i)) (w_emit (getw s i))).
  Definition act (s : pstate) (i : nat) : Prop := w_active (getw s i) = true.
  Definition onchain (s : pstate) (i : nat) : Prop := forall x, x < i -> ~ i < w_next (getw s x).

  Definition is_ex (p : pc) : bool := match p with Exited => true | _ => false end.

  Definition pcl (s : pstate) (i : nat) : Prop :=
    let w := getw s i in
    match w_pc w with
    | SyncLoop c _ | NullLoop c _ | After c _ => canon c /\ c_end c = emit_end s i /\ w_next w < nw
    | _ => True
    end.

  Definition zero_claim (c : chunk) (l : nat) : Prop := all_zero (c_start c) l /\ zdc.

  Definition sl (s : pstate) (a : nat) : Prop :=
    let w := getw s a in
    let b := getw s (w_next w) in
    match w_pc w with
    | SyncLoop c prev =>
        match prev with
        | None => True
        | Some p => 2 <= w_cons b /\ nth_error (w_emit b) (w_cons b - 2) = Some p /\ c_start p < c_start c
        end
    | NullLoop c n => exists m, w_sync b = Some m /\ c_end m = c_start c + n + max /\ zero_claim c (n + max)
    | After c n => n < max \/ zero_claim c (n + max)
    | _ => True
    end.

  Definition sync_ok (w : wstate) : Prop :=
    w_sync w = if w_cons w =? 0 then None else nth_error (w_emit w) (w_cons w - 1).

  Definition stateA (s : pstate) : Prop :=
    let k := k_cur (p_c s) in onchain s k /\ frontier s k = covered (k_out (p_c s)).
  Definition stateB (s : pstate) : Prop :=
    let k := k_cur (p_c s) in
    exists a, a < k /\ onchain s a /\ k < w_next (getw s a) /\ w_next (getw s a) < nw /\
              frontier s (w_next (getw s a)) = covered (k_out (p_c s)).

  Record PInv (s : pstate) : Prop := {
    p_n : nworkers s = nw;
    p_chain : forall i, i < nw -> chain (span * i) (w_emit (getw s i));
    p_canon : forall i, i < nw -> Forall canon (w_emit (getw s i));
    p_pos : forall i, i < nw -> w_pos (getw s i) = emit_end s i;
    p_cons : forall i, i < nw -> w_cons (getw s i) <= length (w_emit (getw s i));
    p_next : forall i, i < nw -> i < w_next (getw s i);
    p_act : forall i, i < nw -> w_active (getw s i) = negb (is_ex (w_pc (getw s i)));
    p_eof : forall i, i < nw -> w_eof (getw s i) = true -> w_active (getw s i) = false /\ emit_end s i = length data;
    p_pcl : forall i, i < nw -> pcl s i;
    p_sync : forall i, i < nw -> k_cur (p_c s) < i -> sync_ok (getw s i);
    p_n2a : forall a a', a < a' -> a' < nw -> act s a' -> w_next (getw s a) <= a';
    p_n2b : forall a j, a < j -> j < w_next (getw s a) -> j < nw ->
            w_active (getw s j) = false /\ w_cons (getw s j) = length (w_emit (getw s j));
    p_n2c : forall a x, a < x -> x < w_next (getw s a) -> x < nw -> w_next (getw s x) <= w_next (getw s a);
    p_sl : forall a, a < nw -> sl s a;
    p_kb : forall i, i < k_cur (p_c s) -> i < nw ->
           w_active (getw s i) = false /\ w_cons (getw s i) = length (w_emit (getw s i));
    p_out : chain 0 (k_out (p_c s)) /\ Forall canon (k_out (p_c s));
    p_col : k_done (p_c s) = false -> k_cur (p_c s) < nw /\ (stateA s \/ stateB s);
    p_done : k_done (p_c s) = true -> length data <= covered (k_out (p_c s));
    p_hand : forall a, a < nw -> k_cur (p_c s) <= a -> w_active (getw s a) = false -> w_eof (getw s a) = false ->
             onchain s a -> w_next (getw s a) < nw /\ frontier s (w_next (getw s a)) = emit_end s a;
  }.

  (* ---------- consequences ---------- *)

  Lemma chain_end_le : forall cs from, chain from cs -> Forall canon cs -> from <= length data ->
    from + covered cs <= length data.
  Proof.
    induction cs as [|c cs IH]; intros from Hc Hf Hfrom.
    - unfold covered. cbn. lia.
    - cbn [chain] in Hc. destruct Hc as [E Hc]. inversion Hf as [|? ? Hcan Hf']; subst.
      destruct (canon_bounds min max d data Hmin Hmax Hpos _ Hcan) as (_ & _ & Hend).
      specialize (IH _ Hc Hf' Hend). rewrite covered_cons. unfold c_end, c_start, c_size in *. lia.
  Qed.

  Lemma emit_end_le s i : PInv s -> i < nw -> emit_end s i <= length data.
  Proof.
    intros I Hi. unfold emit_end.
    apply chain_end_le; [apply (p_chain s I i Hi)|apply (p_canon s I i Hi)|apply Hspan, Hi].
  Qed.

  Lemma active_ge_kcur s i : PInv s -> i < nw -> act s i -> k_cur (p_c s) <= i.
  Proof.
    intros I Hi Ha. destruct (Nat.le_gt_cases (k_cur (p_c s)) i) as [|Hlt]; [assumption|].
    destruct (p_kb s I i Hlt Hi) as [Hf _]. unfold act in Ha. congruence.
  Qed.

  (* an active worker is the only active worker with its next pointer *)
  Lemma next_unique s a a' : PInv s -> a < nw -> a' < nw -> act s a -> act s a' ->
    w_next (getw s a) = w_next (getw s a') -> a = a'.
  Proof.
    intros I Ha Ha' Aa Aa' E.
    destruct (Nat.lt_trichotomy a a') as [Hlt|[|Hgt]]; [|assumption|].
    - pose proof (p_n2a s I a a' Hlt Ha' Aa'). pose proof (p_next s I a' Ha'). lia.
    - pose proof (p_n2a s I a' a Hgt Ha Aa). pose proof (p_next s I a Ha). lia.
  Qed.

  (* the bucket of an active worker's next is not inside anybody's skipped gap *)
  Lemma frontier_cons s i : PInv s -> i < nw ->
    forall v, nth_error (w_emit (getw s i)) (w_cons (getw s i)) = Some v -> c_start v = frontier s i.
  Proof.
    intros I Hi v Hv. unfold frontier. apply (chain_nth _ _ _ _ (p_chain s I i Hi) Hv).
  Qed.

  Lemma final_index s : PInv s -> k_done (p_c s) = true -> k_out (p_c s) = seq_index min max d data.
  Proof.
    intros I Hd. destruct (p_out s I) as [Hc Hf].
    apply (chain_canon_complete min max d data Hmin Hmax Hpos); auto. apply (p_done s I Hd).
  Qed.
End Inv.
