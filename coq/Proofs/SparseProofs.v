(* Proofs about Model/Sparse.v (C10). *)
From Coq Require Import List NArith ZArith Arith Bool Lia ZifyN ZifyNat ZifyBool.
From DS Require Import Base.Bytes Base.Hash Base.Sched Model.ReadSeeker Model.Sparse Proofs.ReadSeekerProofs.
Import ListNotations.
Local Open Scope Z_scope.

(* ---------- the scan of loadRange ---------- *)

Lemma needed_from_spec idx nullid done : forall cnt i todo,
  needed_from idx nullid done cnt i = Some todo ->
  (cnt = 0%nat \/ (0 <= i /\ i + Z.of_nat cnt <= Z.of_nat (length idx))) /\
  forall k, In k todo <-> (i <= Z.of_nat k < i + Z.of_nat cnt /\ nth k done false = false /\
                            N.eqb (r_id (nth k idx row0)) nullid = false).
Proof.
  induction cnt as [|c IH]; intros i todo E; cbn [needed_from] in E.
  - inversion E; subst. split; [left; reflexivity|]. intros k. cbn. split; [tauto|lia].
  - destruct ((i <? 0) || (Z.of_nat (length idx) <=? i)) eqn:Eb; [discriminate|].
    apply orb_false_iff in Eb. destruct Eb as [E1 E2]. apply Z.ltb_ge in E1. apply Z.leb_gt in E2.
    destruct (needed_from idx nullid done c (i + 1)) as [r|] eqn:Er; [|discriminate].
    destruct (IH _ _ Er) as [Hb Hin]. split; [right; lia|].
    intros k. inversion E; subst todo; clear E.
    destruct (nth (Z.to_nat i) done false || N.eqb (r_id (nth (Z.to_nat i) idx row0)) nullid) eqn:Ec.
    + rewrite Hin. split.
      * intros [A B]. split; [lia|exact B].
      * intros [A [B C]]. split; [|tauto].
        destruct (Z.eq_dec (Z.of_nat k) i) as [Ek|Ek]; [|lia].
        replace (Z.to_nat i) with k in Ec by lia. rewrite B, C in Ec. discriminate.
    + apply orb_false_iff in Ec. destruct Ec as [C1 C2]. cbn [In]. rewrite Hin. split.
      * intros [<-|[A B]]; [|split; [lia|exact B]]. split; [lia|]. split; assumption.
      * intros [A [B C]]. destruct (Z.eq_dec (Z.of_nat k) i) as [Ek|Ek]; [left; lia|right]. split; [lia|tauto].
Qed.

Lemma needed_from_none idx nullid done : forall cnt i,
  needed_from idx nullid done cnt i = None -> i < 0 \/ Z.of_nat (length idx) < i + Z.of_nat cnt.
Proof.
  induction cnt as [|c IH]; intros i E; cbn [needed_from] in E; [discriminate|].
  destruct ((i <? 0) || (Z.of_nat (length idx) <=? i)) eqn:Eb.
  - apply orb_true_iff in Eb. destruct Eb as [E1|E2]; [apply Z.ltb_lt in E1; lia|apply Z.leb_le in E2; lia].
  - destruct (needed_from idx nullid done c (i + 1)) as [r|] eqn:Er; [discriminate|].
    apply IH in Er. apply orb_false_iff in Eb. destruct Eb as [E1 E2]. apply Z.ltb_ge in E1. lia.
Qed.

(* The chunks loadRange decides to load are exactly those of first..last that are neither marked done nor the
   null chunk; the scan indexes out of range (panic) exactly when first..last leaves [0, n). *)
Theorem needed_spec idx nullid done first last :
  match needed idx nullid done first last with
  | Some todo =>
      (last < first \/ (0 <= first /\ last < Z.of_nat (length idx))) /\
      forall k, In k todo <-> (first <= Z.of_nat k <= last /\ nth k done false = false /\
                                N.eqb (r_id (nth k idx row0)) nullid = false)
  | None => first <= last /\ (first < 0 \/ Z.of_nat (length idx) <= last)
  end.
Proof.
  unfold needed. destruct (needed_from idx nullid done (Z.to_nat (last - first + 1)) first) as [todo|] eqn:E.
  - destruct (needed_from_spec _ _ _ _ _ _ E) as [Hb Hin]. split; [lia|].
    intros k. rewrite Hin. lia.
  - pose proof (needed_from_none _ _ _ _ _ E) as Hn.
    assert (first <= last).
    { destruct (Z_le_gt_dec first last); [assumption|]. replace (Z.to_nat (last - first + 1)) with 0%nat in E by lia. discriminate. }
    split; [assumption|lia].
Qed.
