(* Proofs about Model/Sparse.v (C10). *)
From Coq Require Import List NArith ZArith Arith Bool Lia ZifyN ZifyNat ZifyBool.
From DS Require Import Base.Bytes Base.Hash Base.Sched Model.ReadSeeker Model.Sparse Proofs.ReadSeekerProofs.
Import ListNotations.
Local Open Scope Z_scope.

(* ---------- the scan of loadRange ---------- *)

Lemma needed_from_spec idx nullid done : forall cnt i todo,
  needed_from idx nullid done cnt i = Some todo ->
  (cnt = 0%nat \/ (0 <= i /\ i + Z.of_nat cnt <= Z.of_nat (length idx))) /\
  forall k, In k todo <-> (i <= Z.of_nat k < i + Z.of_nat cnt /\ nth k done false = false /\
                            N.eqb (r_id (nth k idx row0)) nullid = false).
Proof.
  induction cnt as [|c IH]; intros i todo E; cbn [needed_from] in E.
  - inversion E; subst. split; [left; reflexivity|]. intros k. cbn. split; [tauto|lia].
  - destruct ((i <? 0) || (Z.of_nat (length idx) <=? i)) eqn:Eb; [discriminate|].
    apply orb_false_iff in Eb. destruct Eb as [E1 E2]. apply Z.ltb_ge in E1. apply Z.leb_gt in E2.
    destruct (needed_from idx nullid done c (i + 1)) as [r|] eqn:Er; [|discriminate].
    destruct (IH _ _ Er) as [Hb Hin]. split; [right; lia|].
    intros k. inversion E; subst todo; clear E.
    destruct (nth (Z.to_nat i) done false || N.eqb (r_id (nth (Z.to_nat i) idx row0)) nullid) eqn:Ec.
    + rewrite Hin. split.
      * intros [A B]. split; [lia|exact B].
      * intros [A [B C]]. split; [|tauto].
        destruct (Z.eq_dec (Z.of_nat k) i) as [Ek|Ek]; [|lia].
        replace (Z.to_nat i) with k in Ec by lia. rewrite B, C in Ec. discriminate.
    + apply orb_false_iff in Ec. destruct Ec as [C1 C2]. cbn [In]. rewrite Hin. split.
      * intros [<-|[A B]]; [|split; [lia|exact B]]. split; [lia|]. split; assumption.
      * intros [A [B C]]. destruct (Z.eq_dec (Z.of_nat k) i) as [Ek|Ek]; [left; lia|right]. split; [lia|tauto].
Qed.

Lemma needed_from_none idx nullid done : forall cnt i,
  needed_from idx nullid done cnt i = None -> i < 0 \/ Z.of_nat (length idx) < i + Z.of_nat cnt.
Proof.
  induction cnt as [|c IH]; intros i E; cbn [needed_from] in E; [discriminate|].
  destruct ((i <? 0) || (Z.of_nat (length idx) <=? i)) eqn:Eb.
  - apply orb_true_iff in Eb. destruct Eb as [E1|E2]; [apply Z.ltb_lt in E1; lia|apply Z.leb_le in E2; lia].
  - destruct (needed_from idx nullid done c (i + 1)) as [r|] eqn:Er; [discriminate|].
    apply IH in Er. apply orb_false_iff in Eb. destruct Eb as [E1 E2]. apply Z.ltb_ge in E1. lia.
Qed.

(* The chunks loadRange decides to load are exactly those of first..last that are neither marked done nor the
   null chunk; the scan indexes out of range (panic) exactly when first..last leaves [0, n). *)
Theorem needed_spec idx nullid done first last :
  match needed idx nullid done first last with
  | Some todo =>
      (last < first \/ (0 <= first /\ last < Z.of_nat (length idx))) /\
      forall k, In k todo <-> (first <= Z.of_nat k <= last /\ nth k done false = false /\
                                N.eqb (r_id (nth k idx row0)) nullid = false)
  | None => first <= last /\ (first < 0 \/ Z.of_nat (length idx) <= last)
  end.
Proof.
  unfold needed. destruct (needed_from idx nullid done (Z.to_nat (last - first + 1)) first) as [todo|] eqn:E.
  - destruct (needed_from_spec _ _ _ _ _ _ E) as [Hb Hin]. split; [lia|].
    intros k. rewrite Hin. lia.
  - pose proof (needed_from_none _ _ _ _ _ E) as Hn.
    assert (first <= last).
    { destruct (Z_le_gt_dec first last); [assumption|]. replace (Z.to_nat (last - first + 1)) with 0%nat in E by lia. discriminate. }
    split; [assumption|lia].
Qed.

(* ---------- lists: slices, writes, resizing (pointwise, default 0) ---------- *)

Lemma nth_firstn_lt {A} (l : list A) m p d : (p < m)%nat -> nth p (firstn m l) d = nth p l d.
Proof.
  revert l p. induction m as [|m IH]; intros l p Hp; [lia|]. destruct l as [|x l]; [reflexivity|].
  destruct p as [|p]; [reflexivity|]. cbn. apply IH. lia.
Qed.

Lemma nth_skipn_add {A} (l : list A) a p d : nth p (skipn a l) d = nth (a + p) l d.
Proof. revert l. induction a as [|a IH]; intros l; [reflexivity|]. destruct l as [|x l]; [destruct p; reflexivity|]. cbn. apply IH. Qed.

Lemma nth_slice {A} (l : list A) a m p d : (p < m)%nat -> nth p (slice l a m) d = nth (a + p) l d.
Proof.
  intros Hp. unfold slice. rewrite nth_firstn_lt by exact Hp. apply nth_skipn_add.
Qed.

Lemma list_eq_nth {A} (l1 l2 : list A) d : length l1 = length l2 ->
  (forall p, (p < length l1)%nat -> nth p l1 d = nth p l2 d) -> l1 = l2.
Proof. intros Hl Hn. apply (nth_ext l1 l2 d d Hl Hn). Qed.

Lemma slice_eq_nth {A} (f g : list A) a m d : (a + m <= length f)%nat -> (a + m <= length g)%nat ->
  (slice f a m = slice g a m <-> forall p, (p < m)%nat -> nth (a + p) f d = nth (a + p) g d).
Proof.
  intros Hf Hg. split.
  - intros E p Hp. rewrite <- !(nth_slice _ a m p d Hp). now rewrite E.
  - intros Hn. apply (list_eq_nth _ _ d); [rewrite !slice_length; auto|].
    intros p Hp. rewrite slice_length in Hp by exact Hf. rewrite !nth_slice by exact Hp. apply Hn. exact Hp.
Qed.

Lemma nth_repeat0 q k : nth q (repeat 0%N k) 0%N = 0%N.
Proof. revert q. induction k; intros [|q]; cbn; auto. Qed.

Lemma nth_resize f k q : nth q (resize f k) 0%N = if (q <? k)%nat then nth q f 0%N else 0%N.
Proof.
  unfold resize. destruct (q <? k)%nat eqn:E.
  - apply Nat.ltb_lt in E. destruct (Nat.lt_ge_cases q (length f)) as [Hq|Hq].
    + rewrite app_nth1 by (rewrite firstn_length; lia). apply nth_firstn_lt. exact E.
    + rewrite app_nth2 by (rewrite firstn_length; lia). rewrite nth_repeat0. symmetry. apply nth_overflow. exact Hq.
  - apply Nat.ltb_ge in E. apply nth_overflow. rewrite app_length, firstn_length, repeat_length. lia.
Qed.

Lemma resize_length f k : length (resize f k) = k.
Proof. unfold resize. rewrite app_length, firstn_length, repeat_length. lia. Qed.

Lemma write_at_length f off d : (off + length d <= length f)%nat -> length (write_at f off d) = length f.
Proof.
  intros Hle. unfold write_at. replace (off + length d - length f)%nat with 0%nat by lia. cbn [repeat]. rewrite app_nil_r.
  rewrite !app_length, firstn_length, skipn_length. lia.
Qed.

Lemma nth_write_at f off d q x : (off + length d <= length f)%nat ->
  nth q (write_at f off d) x =
  if (q <? off)%nat then nth q f x else if (q <? off + length d)%nat then nth (q - off) d x else nth q f x.
Proof.
  intros Hle. unfold write_at. replace (off + length d - length f)%nat with 0%nat by lia. cbn [repeat]. rewrite app_nil_r.
  destruct (q <? off)%nat eqn:E1.
  - apply Nat.ltb_lt in E1. rewrite app_nth1 by (rewrite firstn_length; lia). apply nth_firstn_lt. exact E1.
  - apply Nat.ltb_ge in E1. rewrite app_nth2 by (rewrite firstn_length; lia). rewrite firstn_length.
    replace (Nat.min off (length f)) with off by lia.
    destruct (q <? off + length d)%nat eqn:E2.
    + apply Nat.ltb_lt in E2. rewrite app_nth1 by lia. reflexivity.
    + apply Nat.ltb_ge in E2. rewrite app_nth2 by lia. rewrite nth_skipn_add. f_equal. lia.
Qed.

(* ---------- the cache file against the blob ---------- *)

Lemma pos_in_chunk idx : forall st q, tiles_from st idx -> (st <= q < end_from st idx)%N ->
  exists j r, nth_error idx j = Some r /\ (r_start r <= q < r_start r + r_size r)%N.
Proof.
  induction idx as [|a rest IH]; intros st q Ht Hq; [cbn in Hq; lia|].
  destruct Ht as [Hs [Hp Hr]]. cbn [end_from] in Hq.
  destruct (N.lt_ge_cases q (st + r_size a)) as [Hlt|Hge].
  - exists 0%nat, a. split; [reflexivity|lia].
  - destruct (IH _ q Hr ltac:(lia)) as [j [r [Hn Hin]]]. exists (S j), r. split; assumption.
Qed.

Section SparseSpec.
  Variable H : bytes -> id.
  Variable idx : index.
  Variable blob : bytes.
  Hypothesis Hd : index_describes H idx blob.
  Let n := length idx.
  Let Lb := length blob.
  Let Ht : tiles_from 0 idx := proj1 Hd.

  Notation good := (range_good idx blob).

  Lemma row_in_blob i r : nth_error idx i = Some r -> (N.to_nat (r_start r) + N.to_nat (r_size r) <= Lb)%nat.
  Proof. intros Hn. exact (proj2 (proj2 (describes_row H idx blob Hd i r Hn))). Qed.

  Lemma good_nth f i r : length f = Lb -> nth_error idx i = Some r ->
    (good f i <-> forall p, (p < N.to_nat (r_size r))%nat ->
                   nth (N.to_nat (r_start r) + p) f 0%N = nth (N.to_nat (r_start r) + p) blob 0%N).
  Proof.
    intros Hl Hn. pose proof (row_in_blob i r Hn) as Hin. unfold range_good. split.
    - intros Hg. apply (slice_eq_nth f blob _ _ 0%N); [lia|exact Hin|]. exact (Hg r Hn).
    - intros Hp r' Hn'. rewrite Hn in Hn'. inversion Hn'; subst r'. unfold chunk_of.
      apply (slice_eq_nth f blob _ _ 0%N); [lia|exact Hin|exact Hp].
  Qed.

  (* writing chunk i's bytes at its offset makes range i good and keeps every good range good *)
  Lemma write_good f i ri : length f = Lb -> nth_error idx i = Some ri ->
    let f' := write_at f (N.to_nat (r_start ri)) (chunk_of blob ri) in
    length f' = Lb /\ good f' i /\ forall j, good f j -> good f' j.
  Proof.
    intros Hl Hn f'. pose proof (row_in_blob i ri Hn) as Hin.
    assert (Hlc : length (chunk_of blob ri) = N.to_nat (r_size ri)) by (unfold chunk_of; apply slice_length; exact Hin).
    assert (Hl' : length f' = Lb) by (unfold f'; rewrite write_at_length; lia).
    assert (Hnth : forall q, nth q f' 0%N = nth q blob 0%N \/ nth q f' 0%N = nth q f 0%N).
    { intros q. unfold f'. rewrite nth_write_at by lia. destruct (q <? N.to_nat (r_start ri))%nat eqn:E0; [right; reflexivity|].
      destruct (q <? N.to_nat (r_start ri) + length (chunk_of blob ri))%nat eqn:E; [|right; reflexivity].
      apply Nat.ltb_lt in E. apply Nat.ltb_ge in E0. left. unfold chunk_of. rewrite nth_slice by lia. f_equal. lia. }
    split; [exact Hl'|]. split.
    - apply (proj2 (good_nth f' i ri Hl' Hn)). intros p Hp. unfold f'. rewrite nth_write_at by lia.
      replace (N.to_nat (r_start ri) + p <? N.to_nat (r_start ri))%nat with false by (symmetry; apply Nat.ltb_ge; lia).
      replace (N.to_nat (r_start ri) + p <? N.to_nat (r_start ri) + length (chunk_of blob ri))%nat with true
        by (symmetry; apply Nat.ltb_lt; lia).
      unfold chunk_of. rewrite nth_slice by lia. f_equal. lia.
    - intros j Hg r Hnj. assert (Hg' : good f' j); [|exact (Hg' r Hnj)].
      apply (proj2 (good_nth f' j r Hl' Hnj)). intros p Hp.
      destruct (Hnth (N.to_nat (r_start r) + p)%nat) as [E|E]; [exact E|]. rewrite E.
      apply (proj1 (good_nth f j r Hl Hnj) Hg p Hp).
  Qed.

  Definition overlaps (r : row) (off : Z) (len : nat) : Prop :=
    Z.of_N (r_start r) < off + Z.of_nat len /\ off < r_end r.

  (* if every chunk that overlaps [off, off+len) is good, ReadAt on the file returns the blob's bytes *)
  Lemma range_eq f off len : length f = Lb -> 0 <= off ->
    (forall j r, nth_error idx j = Some r -> overlaps r off len -> good f j) ->
    let m := Nat.min len (Lb - Z.to_nat off) in
    slice f (Z.to_nat off) m = slice blob (Z.to_nat off) m.
  Proof.
    intros Hl Hoff Hg m. set (o := Z.to_nat off).
    destruct (Nat.le_gt_cases Lb o) as [Hge|Hlt].
    { replace m with 0%nat by (unfold m; fold o; lia). reflexivity. }
    apply (slice_eq_nth f blob o m 0%N); [unfold m; fold o; lia|unfold m; fold o; lia|].
    intros p Hp. pose proof Hd as [_ [He _]]. fold Lb in He.
    destruct (pos_in_chunk idx 0%N (N.of_nat (o + p)) Ht ltac:(unfold m in Hp; fold o in Hp; lia)) as [j [r [Hn Hin]]].
    assert (Hov : overlaps r off len). { unfold overlaps. rewrite r_end_eq. unfold m in Hp. fold o in Hp. lia. }
    pose proof (proj1 (good_nth f j r Hl Hn) (Hg j r Hn Hov) (o + p - N.to_nat (r_start r))%nat ltac:(lia)) as E.
    replace (N.to_nat (r_start r) + (o + p - N.to_nat (r_start r)))%nat with (o + p)%nat in E by lia. exact E.
  Qed.

  Lemma zero_good f i r : length f = Lb -> nth_error idx i = Some r ->
    chunk_of blob r = repeat 0%N (N.to_nat (r_size r)) ->
    (forall p, (p < N.to_nat (r_size r))%nat -> nth (N.to_nat (r_start r) + p) f 0%N = 0%N) -> good f i.
  Proof.
    intros Hl Hn Hz Hp. apply (proj2 (good_nth f i r Hl Hn)). intros p Hlt. etransitivity; [exact (Hp p Hlt)|].
    pose proof (row_in_blob i r Hn) as Hin.
    assert (E : nth p (chunk_of blob r) 0%N = 0%N) by (rewrite Hz; apply nth_repeat0).
    unfold chunk_of in E. rewrite nth_slice in E by exact Hlt. symmetry. exact E.
  Qed.

  Variable maxsz : N.
  Let nullid : id := snd (new_null_chunk H maxsz).

  (* a row carrying the null chunk's ID is a run of zeros (or H collides) *)
  Lemma null_row_zero i r : nth_error idx i = Some r -> r_id r = nullid ->
    chunk_of blob r = repeat 0%N (N.to_nat (r_size r)) \/ Collision H.
  Proof.
    intros Hn Hid. destruct (describes_row H idx blob Hd i r Hn) as [Hh [Hlen _]].
    destruct (hash_eq H (chunk_of blob r) (repeat 0%N (N.to_nat maxsz))) as [E|C]; [|left|right; exact C].
    - rewrite Hh, Hid. reflexivity.
    - rewrite E in Hlen. rewrite repeat_length in Hlen. rewrite E. f_equal. exact Hlen.
  Qed.

End SparseSpec.

(* ---------- indexRange covers the requested bytes ---------- *)

Lemma scan_last_ge_base rows e : forall base, base <= scan_last rows e base.
Proof.
  induction rows as [|r rest IH]; intros base; cbn [scan_last]; [lia|].
  destruct (e <? Z.of_N (r_start r)); [lia|]. specialize (IH (base + 1)). lia.
Qed.

Lemma scan_last_covers e : forall rows base,
  (forall a b ra rb, (a <= b)%nat -> nth_error rows a = Some ra -> nth_error rows b = Some rb ->
                     (r_start ra <= r_start rb)%N) ->
  forall m r, nth_error rows m = Some r -> Z.of_N (r_start r) <= e ->
              base + Z.of_nat m + 1 <= scan_last rows e base.
Proof.
  induction rows as [|r0 rest IH]; intros base Hmono m r Hn Hle; [destruct m; discriminate|].
  cbn [scan_last]. destruct (e <? Z.of_N (r_start r0)) eqn:E.
  - apply Z.ltb_lt in E. pose proof (Hmono 0%nat m r0 r ltac:(lia) eq_refl Hn). lia.
  - destruct m as [|m].
    + pose proof (scan_last_ge_base rest e (base + 1)). lia.
    + cbn in Hn. assert (Hmono' : forall a b ra rb, (a <= b)%nat -> nth_error rest a = Some ra ->
                                   nth_error rest b = Some rb -> (r_start ra <= r_start rb)%N).
      { intros a b ra rb Hab Ha Hb. apply (Hmono (S a) (S b) ra rb); [lia|exact Ha|exact Hb]. }
      specialize (IH (base + 1) Hmono' m r Hn Hle). lia.
Qed.

Lemma nth_error_skipn_add {A} (l : list A) a p : nth_error (skipn a l) p = nth_error l (a + p).
Proof. revert l. induction a as [|a IH]; intros l; [reflexivity|]. destruct l as [|x l]; [destruct p; reflexivity|]. cbn. apply IH. Qed.

Lemma index_range_covers idx off len : tiles_from 0 idx -> 0 <= off -> (1 <= len)%nat ->
  off + Z.of_nat len < two64 ->
  exists first last, index_range idx off (Z.of_nat len) = Some (first, last) /\
    forall j r, nth_error idx j = Some r -> Z.of_N (r_start r) < off + Z.of_nat len -> off < r_end r ->
                first <= Z.of_nat j <= last.
Proof.
  intros Ht Hoff Hlen Hb. unfold index_range.
  destruct (go_search_least (length idx) _ (search_pred_mono idx Ht off)) as [f [Es [Hf [Hlo Hhi]]]].
  rewrite Es. replace (Z.of_nat len <? 1) with false by (symmetry; apply Z.ltb_ge; lia).
  assert (Hfirst : forall j r, nth_error idx j = Some r -> off < r_end r -> (f <= j)%nat).
  { intros j r Hn He. destruct (Nat.le_gt_cases f j) as [|Hlt]; [assumption|]. exfalso.
    specialize (Hlo j Hlt). cbn beta in Hlo. rewrite (nth_error_nth _ _ row0 Hn) in Hlo. apply Z.ltb_ge in Hlo. lia. }
  destruct (length idx <=? f)%nat eqn:Ef.
  - apply Nat.leb_le in Ef. eexists _, _. split; [reflexivity|]. intros j r Hn _ He. exfalso.
    pose proof (Hfirst j r Hn He). assert (j < length idx)%nat by (apply nth_error_Some; congruence). lia.
  - apply Nat.leb_gt in Ef. eexists _, _. split; [reflexivity|]. intros j r Hn Hs He.
    pose proof (Hfirst j r Hn He) as Hfj. split; [lia|].
    destruct (Nat.eq_dec j f) as [->|Hne].
    + pose proof (scan_last_ge_base (skipn (S f) idx) ((off + Z.of_nat len - 1) mod two64) (Z.of_nat f)). lia.
    + assert (Hmod : (off + Z.of_nat len - 1) mod two64 = off + Z.of_nat len - 1) by (apply Z.mod_small; lia).
      rewrite Hmod.
      pose proof (scan_last_covers (off + Z.of_nat len - 1) (skipn (S f) idx) (Z.of_nat f)) as Hc.
      assert (Hmono : forall a b ra rb, (a <= b)%nat -> nth_error (skipn (S f) idx) a = Some ra ->
                        nth_error (skipn (S f) idx) b = Some rb -> (r_start ra <= r_start rb)%N).
      { intros a b ra rb Hab Ha Hb'. rewrite nth_error_skipn_add in Ha, Hb'.
        destruct (Nat.eq_dec a b) as [->|Hab']; [rewrite Ha in Hb'; inversion Hb'; lia|].
        pose proof (tiles_lt _ _ Ht (S f + a) (S f + b) ra rb ltac:(lia) Ha Hb'). lia. }
      specialize (Hc Hmono (j - S f)%nat r).
      rewrite nth_error_skipn_add in Hc. replace (S f + (j - S f))%nat with j in Hc by lia.
      specialize (Hc Hn ltac:(lia)). lia.
Qed.

Lemma nth_set_nth_other {A} (l : list A) i j x d : j <> i -> nth j (set_nth l i x) d = nth j l d.
Proof.
  revert i j. induction l as [|a l IH]; intros [|i] [|j] Hne; cbn; auto; try congruence.
Qed.

(* ---------- the invariant of the loader, preserved by every step of every goroutine and every restart ---------- *)

Section SparseInv.
  Variable H : bytes -> id.
  Variable idx : index.
  Variable blob : bytes.
  Hypothesis Hd : index_describes H idx blob.
  Variable maxsz : N.
  Variable store : store_t.
  Hypothesis Hs : store_sound H store.
  Let nullid : id := snd (new_null_chunk H maxsz).
  Let n := length idx.
  Let Lb := length blob.
  Let Ht : tiles_from 0 idx := proj1 Hd.
  Notation good := (range_good idx blob).

  Definition todo_of (p : phase) : list nat :=
    match p with PNeed t => t | PFetch i t => i :: t | PWrite i _ t => i :: t | PSet _ t => t end.

  Definition thread_ok (f : bytes) (th : thread) : Prop :=
    Forall (fun rq => valid_request idx rq = true) (queue th) /\
    match pc th with
    | None => True
    | Some p =>
        queue th <> [] /\
        Forall (fun i => (i < n)%nat) (todo_of p) /\
        match p with
        | PNeed _ => True
        | PFetch i _ => True
        | PWrite i d _ => d = chunk_of blob (nth i idx row0)
        | PSet i _ => (i < n)%nat /\ good f i
        end /\
        match queue th with
        | RqRead off len :: _ =>
            0 <= off -> (1 <= len)%nat -> off + Z.of_nat len < two64 ->
            forall j r, nth_error idx j = Some r -> overlaps r off len -> In j (todo_of p) \/ good f j
        | _ => True
        end
    end.

  Record SInv (s : sstate) : Prop := {
    inv_len : length (s_file s) = Lb;
    inv_done : forall i r, nth_error idx i = Some r ->
                 (nth i (s_done s) false = true \/ r_id r = nullid) -> good (s_file s) i;
    inv_saved : forall b, s_saved s = Some b ->
                 forall i, nth i b false = true -> good (s_file s) i;
    inv_threads : Forall (thread_ok (s_file s)) (s_threads s);
    inv_log : Forall (read_result_ok blob) (s_log s);
  }.

  Lemma thread_ok_mono f f' th : (forall j, good f j -> good f' j) -> thread_ok f th -> thread_ok f' th.
  Proof.
    intros Hm. unfold thread_ok. intros [Hv Hrest]. split; [exact Hv|]. revert Hrest. destruct (pc th) as [p|]; [|auto].
    intros [A [B [C D]]]. split; [exact A|]. split; [exact B|]. split.
    - destruct p; auto. destruct C as [C1 C2]. split; [exact C1|apply Hm; exact C2].
    - destruct (queue th) as [|[off len| |] q]; auto.
      intros H1 H2 H3 j r Hn Ho. destruct (D H1 H2 H3 j r Hn Ho) as [E|E]; [left; exact E|right; apply Hm; exact E].
  Qed.

  Lemma Lb_eq : Z.to_nat (idx_length idx) = Lb.
  Proof. rewrite (L_blob H idx blob Hd). unfold Lb. lia. Qed.

  Lemma nth_row i : (i < n)%nat -> nth_error idx i = Some (nth i idx row0).
  Proof. intros Hi. destruct (nth_ok idx i row0 Hi) as [r [E1 E2]]. rewrite E2. exact E1. Qed.

  (* ---- one atomic step of a goroutine ---- *)
  Lemma idle_ok f q : Forall (fun rq => valid_request idx rq = true) q -> thread_ok f (mkthread q None).
  Proof. intros Hq. split; [exact Hq|exact I]. Qed.

  Lemma tstep_inv s k s' : SInv s -> tstep idx nullid store s k = Some s' -> SInv s' \/ Collision H.
  Proof.
    intros [Il Id Is It Ig] E. unfold tstep in E.
    destruct (nth_error (s_threads s) k) as [th|] eqn:Ek; [|discriminate].
    assert (Hth : thread_ok (s_file s) th) by (rewrite Forall_forall in It; apply It; eapply nth_error_In; eauto).
    unfold thread_ok in Hth. destruct Hth as [Hvalid Hth].
    destruct (queue th) as [|rq q] eqn:Eq.
    { destruct (pc th) as [[[|? ?]|? ?|? ? ?|? ?]|]; discriminate. }
    assert (Hvq : Forall (fun rq => valid_request idx rq = true) q) by (inversion Hvalid; assumption).
    destruct (pc th) as [p|] eqn:Epc.
    - (* in the middle of a request *)
      destruct Hth as [_ [Htodo [Hp Hcov]]].
      destruct p as [todo|i todo|i d todo|i todo].
      + destruct todo as [|i todo].
        * (* all chunks loaded: the request completes *)
          assert (Hres : read_result_ok blob (rq, match rq with RqRead off len => file_read (s_file s) off len | _ => RDone end)).
          { destruct rq as [off len| |]; cbn; auto. unfold file_read. destruct (off <? 0) eqn:En; [exact I|].
            apply Z.ltb_ge in En. intros Hb. split; [exact En|].
            set (m := Nat.min len (length (s_file s) - Z.to_nat off)).
            assert (Hm : m = Nat.min len (Lb - Z.to_nat off)) by (unfold m; rewrite Il; reflexivity).
            assert (Hsl : length (slice (s_file s) (Z.to_nat off) m) = m) by (unfold slice; rewrite firstn_length, skipn_length; lia).
            cbn [length] in *. rewrite Hsl. split; [|split; [exact Hm|reflexivity]].
            destruct len as [|len']; [reflexivity|]. rewrite Hm.
            apply (range_eq H idx blob Hd (s_file s) off (S len') Il En).
            intros j r Hn Ho. destruct (Hcov En ltac:(lia) Hb j r Hn Ho) as [[]|Hg]. exact Hg. }
          left. assert (s' = finish s k th (match rq with RqRead off len => file_read (s_file s) off len | _ => RDone end))
            by (destruct rq; inversion E; reflexivity).
          subst s'. unfold finish. rewrite Eq. constructor; cbn; auto.
          -- apply set_nth_Forall; [exact It|apply idle_ok; exact Hvq].
        * (* loadChunk(i): lock, re-check *)
          inversion Htodo as [|? ? Hi Htodo']; subst.
          destruct (nth i (s_mutex s) true); [discriminate|].
          destruct (nth i (s_done s) false) eqn:Edone.
          -- inversion E; subst s'. left. constructor; cbn; auto.
             apply set_nth_Forall; [exact It|]. unfold thread_ok. cbn [pc queue]. rewrite Eq. split; [exact Hvalid|].
             split; [discriminate|]. split; [exact Htodo'|]. split; [exact I|].
             destruct rq as [off len| |]; auto. intros H1 H2 H3 j r Hn Ho.
             destruct (Hcov H1 H2 H3 j r Hn Ho) as [[<-|Hin]|Hg]; [right|left; exact Hin|right; exact Hg].
             apply (Id i r Hn). left. exact Edone.
          -- inversion E; subst s'. left. constructor; cbn; auto.
             apply set_nth_Forall; [exact It|]. unfold thread_ok. cbn [pc queue]. rewrite Eq. split; [exact Hvalid|].
             split; [discriminate|]. split; [exact Htodo|]. split; [exact I|exact Hcov].
      + (* GetChunk *)
        inversion Htodo as [|? ? Hi Htodo']; subst.
        destruct (store (s_calls s) (r_id (nth i idx row0))) as [d|c] eqn:Est.
        * destruct (length d =? 0)%nat eqn:El.
          -- inversion E; subst s'. left. unfold finish. rewrite Eq. constructor; cbn; auto.
             ++ apply set_nth_Forall; [exact It|apply idle_ok; exact Hvq].
             ++ constructor; [destruct rq; exact I|exact Ig].
          -- inversion E; subst s'.
             pose proof (nth_row i Hi) as Hn.
             destruct (describes_row H idx blob Hd i _ Hn) as [Hh _].
             destruct (hash_eq H d (chunk_of blob (nth i idx row0))) as [Ed|C]; [rewrite Hh; apply (Hs _ _ _ Est)| |right; exact C].
             left. constructor; cbn; auto.
             apply set_nth_Forall; [exact It|]. unfold thread_ok. cbn [pc queue]. rewrite Eq. split; [exact Hvalid|].
             split; [discriminate|]. split; [exact Htodo|]. split; [exact Ed|exact Hcov].
        * inversion E; subst s'. left. unfold finish. rewrite Eq. constructor; cbn; auto.
          -- apply set_nth_Forall; [exact It|apply idle_ok; exact Hvq].
          -- constructor; [|exact Ig]. destruct rq; try exact I. cbn.
             destruct (N.eqb c code_bare_eof); exact I.
      + (* OpenFile + WriteAt *)
        destruct (s_nofile s).
        { (* the cache file's path is gone: the load fails, nothing changes *)
          inversion E; subst s'. left. unfold finish. rewrite Eq. constructor; cbn; auto.
          - apply set_nth_Forall; [exact It|apply idle_ok; exact Hvq].
          - constructor; [destruct rq; exact I|exact Ig]. }
        inversion Htodo as [|? ? Hi Htodo']; subst. inversion E; subst s'. clear E.
        pose proof (nth_row i Hi) as Hn.
        destruct (write_good H idx blob Hd (s_file s) i _ Il Hn) as [Hl' [Hgi Hmono]].
        left. constructor; cbn [s_file s_done s_saved s_threads s_log set_pc upd_thread].
        -- exact Hl'.
        -- intros j r Hnj Hor. apply Hmono. exact (Id j r Hnj Hor).
        -- intros b Hb j Hj. apply Hmono. exact (Is b Hb j Hj).
        -- apply set_nth_Forall.
           ++ eapply Forall_impl; [|exact It]. intros th0. apply thread_ok_mono. exact Hmono.
           ++ unfold thread_ok. cbn [pc queue]. rewrite Eq. split; [exact Hvalid|].
              split; [discriminate|]. split; [exact Htodo'|]. split; [split; [exact Hi|exact Hgi]|].
              destruct rq as [off len| |]; auto. intros H1 H2 H3 j r Hnj Ho.
              destruct (Hcov H1 H2 H3 j r Hnj Ho) as [[<-|Hin]|Hg]; [right; exact Hgi|left; exact Hin|right; apply Hmono; exact Hg].
        -- exact Ig.
      + (* done.Set *)
        destruct Hp as [Hi Hgi]. inversion E; subst s'. clear E.
        left. constructor; cbn [s_file s_done s_saved s_threads s_log set_pc upd_thread]; auto.
        -- intros j r Hnj [Hdn|Hnull]; [|apply (Id j r Hnj); right; exact Hnull].
           destruct (Nat.eq_dec j i) as [->|Hne]; [exact Hgi|].
           apply (Id j r Hnj). left. rewrite <- Hdn. symmetry. apply nth_set_nth_other. exact Hne.
        -- apply set_nth_Forall; [exact It|]. unfold thread_ok. cbn [pc queue]. rewrite Eq. split; [exact Hvalid|].
           split; [discriminate|]. split; [exact Htodo|]. split; [exact I|exact Hcov].
    - (* a goroutine picks up its next request *)
      destruct rq as [off len|i|].
      + fold n in E. destruct (n =? 0)%nat eqn:En0.
        { (* empty blob: nothing to load *)
          apply Nat.eqb_eq in En0. inversion E; subst s'. left. constructor; cbn; auto.
          apply set_nth_Forall; [exact It|]. unfold thread_ok. cbn [pc queue]. rewrite Eq. split; [exact Hvalid|].
          split; [discriminate|]. split; [constructor|]. split; [exact I|].
          intros _ _ _ j r Hnj _. exfalso. assert (j < n)%nat by (apply nth_error_Some; congruence). lia. }
        destruct (index_range idx off (Z.of_nat len)) as [[first last]|] eqn:Er; [|discriminate].
        pose proof (needed_spec idx nullid (s_done s) first last) as Hnd.
        destruct (needed idx nullid (s_done s) first last) as [todo|].
        * inversion E; subst s'. left. constructor; cbn; auto.
          apply set_nth_Forall; [exact It|]. unfold thread_ok. cbn [pc queue]. rewrite Eq. split; [exact Hvalid|].
          destruct Hnd as [Hrange Hin].
          split; [discriminate|]. split; [|split; [exact I|]].
          -- apply Forall_forall. intros j Hj. apply Hin in Hj. fold n. lia.
          -- intros H1 H2 H3 j r Hnj [Ho1 Ho2].
             destruct (index_range_covers idx off len Ht H1 H2 H3) as [f' [l' [Er' Hc]]].
             rewrite Er in Er'. inversion Er'; subst f' l'.
             specialize (Hc j r Hnj Ho1 Ho2).
             destruct (nth j (s_done s) false) eqn:Edn; [right; apply (Id j r Hnj); left; exact Edn|].
             destruct (N.eqb (r_id (nth j idx row0)) nullid) eqn:En.
             ++ right. apply (Id j r Hnj). right. apply N.eqb_eq in En. rewrite (nth_error_nth _ _ row0 Hnj) in En. exact En.
             ++ left. apply Hin. split; [exact Hc|]. split; assumption.
        * inversion E; subst s'. left. constructor; cbn; auto.
      + inversion E; subst s'. left. constructor; cbn; auto.
        apply set_nth_Forall; [exact It|]. unfold thread_ok. cbn [pc queue]. rewrite Eq. split; [exact Hvalid|].
        split; [discriminate|]. split; [|split; exact I].
        (* the request was validated when it was handed over *)
        constructor; [|constructor]. inversion Hvalid as [|? ? Hv _]. cbn in Hv. apply Nat.ltb_lt in Hv. exact Hv.
      + inversion E; subst s'. left. unfold finish. cbn [queue]. rewrite Eq. constructor; cbn; auto.
        -- intros b Hb i Hi. inversion Hb; subst b. intros r Hn. exact (Id i r Hn (or_introl Hi) r Hn).
        -- apply set_nth_Forall; [exact It|apply idle_ok; exact Hvq].
  Qed.

  Lemma resize_same f k : length f = k -> resize f k = f.
  Proof. intros <-. unfold resize. rewrite firstn_all, Nat.sub_diag. apply app_nil_r. Qed.

  Lemma nth_repeat_false i k : nth i (repeat false k) false = false.
  Proof. revert i. induction k; intros [|i]; cbn; auto. Qed.

  Lemma no_rows : Lb = 0%nat -> forall i r, nth_error idx i = Some r -> False.
  Proof.
    intros HL i r Hn. pose proof (row_in_blob H idx blob Hd i r Hn) as Hin. fold Lb in Hin.
    destruct (tiles_nth _ _ Ht _ _ Hn) as [_ [Hp _]]. lia.
  Qed.

  (* every row that carries the null chunk's ID is a run of zeros, or H collides *)
  Lemma all_null_zero :
    (forall i r, nth_error idx i = Some r -> r_id r = nullid -> chunk_of blob r = repeat 0%N (N.to_nat (r_size r)))
    \/ Collision H.
  Proof.
    assert (Hl : forall l, (forall r, In r l -> exists i, nth_error idx i = Some r) ->
                 (forall r, In r l -> r_id r = nullid -> chunk_of blob r = repeat 0%N (N.to_nat (r_size r))) \/ Collision H).
    { induction l as [|a l IH]; intros Hin; [left; intros r []|].
      destruct IH as [IH|C]; [intros r Hr; apply Hin; right; exact Hr| |right; exact C].
      destruct (N.eq_dec (r_id a) nullid) as [Ea|Ea].
      - destruct (Hin a (or_introl eq_refl)) as [i Hi].
        destruct (null_row_zero H idx blob Hd maxsz i a Hi Ea) as [Z|C]; [|right; exact C].
        left. intros r [<-|Hr] Hid; [exact Z|exact (IH r Hr Hid)].
      - left. intros r [<-|Hr] Hid; [contradiction|exact (IH r Hr Hid)]. }
    destruct (Hl idx) as [A|C]; [intros r Hr; apply In_nth_error; exact Hr| |right; exact C].
    left. intros i r Hn. apply A. eapply nth_error_In; eauto.
  Qed.

  (* ---- NewSparseFile on what the previous incarnation left behind: every restart the code can perform ---- *)
  Lemma restart_gen_inv s m src : SInv s -> SInv (restart_gen idx s m src) \/ Collision H.
  Proof.
    intros [Il Id Is It Ig].
    destruct all_null_zero as [Hz|C]; [|right; exact C]. left.
    unfold restart_gen. rewrite Lb_eq. fold n.
    set (cache := if s_nofile s then [] else
                  match m_cache m with CKeep => s_file s | CAbsent => [] | CResize k => resize (s_file s) k end).
    assert (Hcache : forall q, nth q cache 0%N = 0%N \/ nth q cache 0%N = nth q (s_file s) 0%N).
    { intros q. unfold cache. destruct (s_nofile s); [left; destruct q; reflexivity|].
      destruct (m_cache m) as [| |k]; [right; reflexivity|left; destruct q; reflexivity|].
      rewrite nth_resize. destruct (q <? k)%nat; [right; reflexivity|left; reflexivity]. }
    (* ranges of null rows are zero in the old file, hence in whatever is made of it *)
    assert (Hnull : forall f', length f' = Lb -> (forall q, nth q f' 0%N = 0%N \/ nth q f' 0%N = nth q (s_file s) 0%N) ->
                     forall i r, nth_error idx i = Some r -> r_id r = nullid -> good f' i).
    { intros f' Hl' Hq i r Hn Hid. apply (zero_good H idx blob Hd f' i r Hl' Hn (Hz i r Hn Hid)).
      intros p Hp. destruct (Hq (N.to_nat (r_start r) + p)%nat) as [E|E]; [exact E|]. etransitivity; [exact E|].
      pose proof (proj1 (good_nth H idx blob Hd (s_file s) i r Il Hn) (Id i r Hn (or_intror Hid)) p Hp) as Eg.
      etransitivity; [exact Eg|].
      pose proof (row_in_blob H idx blob Hd i r Hn) as Hin.
      assert (E0 : nth p (chunk_of blob r) 0%N = 0%N) by (rewrite (Hz i r Hn Hid); apply nth_repeat0).
      unfold chunk_of in E0. rewrite nth_slice in E0 by exact Hp. exact E0. }
    destruct ((length cache =? Lb)%nat &&
              match s_saved s with Some b => m_state m && state_matches idx b | None => false end) eqn:Euse.
    - (* the state file is loaded: the cache file has the full size, so it is the file the state was saved for
         (deleting or resizing it would have changed its size, except for the empty blob) *)
      apply andb_true_iff in Euse. destruct Euse as [El Eu]. apply Nat.eqb_eq in El.
      destruct (s_saved s) as [b|] eqn:Esaved; [|discriminate].
      assert (Hc : cache = s_file s \/ Lb = 0%nat).
      { unfold cache in *. destruct (s_nofile s); [right; cbn in El; lia|].
        destruct (m_cache m) as [| |k]; [left; reflexivity|right; cbn in El; lia|].
        left. rewrite resize_length in El. subst k. apply resize_same. exact Il. }
      assert (Hb : forall i, nth i b false = true -> good cache i).
      { intros i Hi. destruct Hc as [->|H0]; [exact (Is b eq_refl i Hi)|intros r Hn; exfalso; exact (no_rows H0 i r Hn)]. }
      constructor; cbn [s_file s_done s_saved s_threads s_log].
      + exact El.
      + intros i r Hn [Hi|Hid]; [exact (Hb i Hi)|apply (Hnull cache El Hcache i r Hn Hid)].
      + intros b' Hb' i Hi. inversion Hb'; subst b'. exact (Hb i Hi).
      + constructor.
      + exact Ig.
    - (* the state file is not used: every chunk counts as not loaded, the file is brought to full size, and the
         state file is replaced by the blank state *)
      assert (Hl' : length (resize cache Lb) = Lb) by apply resize_length.
      assert (Hq' : forall q, nth q (resize cache Lb) 0%N = 0%N \/ nth q (resize cache Lb) 0%N = nth q (s_file s) 0%N).
      { intros q. rewrite nth_resize. destruct (q <? Lb)%nat; [apply Hcache|left; reflexivity]. }
      constructor; cbn [s_file s_done s_saved s_threads s_log].
      + exact Hl'.
      + intros i r Hn [Hb|Hid]; [rewrite nth_repeat_false in Hb; discriminate|].
        apply (Hnull _ Hl' Hq' i r Hn Hid).
      + intros b Hb i Hi. inversion Hb; subst b. rewrite nth_repeat_false in Hi. discriminate.
      + destruct src as [b|]; [|constructor].
        destruct (m_preload m && state_matches idx b); [|constructor].
        apply Forall_forall. intros th Hin. apply in_map_iff in Hin. destruct Hin as [i [<- Hi]].
        apply filter_In in Hi. destruct Hi as [Hi _]. apply in_seq in Hi.
        apply idle_ok. constructor; [|constructor]. cbn. apply Nat.ltb_lt. fold n. lia.
      + exact Ig.
  Qed.

  Lemma restart_inv s m : SInv s -> SInv (restart idx s m) \/ Collision H.
  Proof. apply restart_gen_inv. Qed.

  Lemma init_inv : SInv (init idx) \/ Collision H.
  Proof.
    destruct all_null_zero as [Hz|C]; [|right; exact C]. left.
    unfold init. rewrite Lb_eq. constructor; cbn [s_file s_done s_saved s_threads s_log].
    - apply repeat_length.
    - intros i r Hn [Hb|Hid]; [rewrite nth_repeat_false in Hb; discriminate|].
      apply (zero_good H idx blob Hd _ i r (repeat_length _ _) Hn (Hz i r Hn Hid)). intros p _. apply nth_repeat0.
    - intros b Hb i Hi. inversion Hb; subst b. rewrite nth_repeat_false in Hi. discriminate.
    - constructor.
    - constructor.
  Qed.

  (* ---- every label ---- *)
  Lemma step_inv s l s' : SInv s -> step idx nullid store s l = Some s' -> SInv s' \/ Collision H.
  Proof.
    intros Hinv E.
    destruct l as [k|k rq|m|m|m b|]; cbn [step] in E.
    - destruct (s_crashed s); [discriminate|]. exact (tstep_inv s k s' Hinv E).
    - destruct (s_crashed s || negb (valid_request idx rq)) eqn:Ev; [discriminate|].
      apply orb_false_iff in Ev. destruct Ev as [_ Ev]. apply negb_false_iff in Ev.
      destruct Hinv as [Il Id Is It Ig]. left.
      destruct (nth_error (s_threads s) k) as [th|] eqn:Ek; inversion E; subst s'; constructor; cbn; auto.
      + assert (Hth : thread_ok (s_file s) th) by (rewrite Forall_forall in It; apply It; eapply nth_error_In; eauto).
        apply set_nth_Forall; [exact It|]. unfold thread_ok in *. cbn [pc queue]. destruct Hth as [Hv Hth].
        split; [apply Forall_app; split; [exact Hv|constructor; [exact Ev|constructor]]|].
        destruct (pc th) as [p|]; [|exact I]. destruct Hth as [A [B [C D]]].
        split; [intro E0; apply app_eq_nil in E0; destruct E0 as [_ E0]; discriminate|]. split; [exact B|]. split; [exact C|].
        destruct (queue th) as [|rq0 q0]; [contradiction|exact D].
      + apply Forall_app. split; [exact It|]. constructor; [|constructor]. apply idle_ok. constructor; [exact Ev|constructor].
    - inversion E; subst s'. apply restart_inv. exact Hinv.
    - inversion E; subst s'. apply restart_inv. exact Hinv.
    - inversion E; subst s'. apply restart_gen_inv. exact Hinv.
    - inversion E; subst s'. left. destruct Hinv as [Il Id Is It Ig]. constructor; cbn; assumption.
  Qed.
End SparseInv.

(* ---------- theorems over all schedules ---------- *)

Theorem sparse_inv H idx blob maxsz store sched :
  index_describes H idx blob -> store_sound H store ->
  let nullid := snd (new_null_chunk H maxsz) in
  loader_inv idx nullid blob (run (step idx nullid store) sched (init idx)) \/ Collision H.
Proof.
  intros Hd Hs nullid.
  pose (Inv := fun s => SInv H idx blob maxsz s \/ Collision H).
  assert (Hrun : Inv (run (step idx nullid store) sched (init idx))).
  { apply (inv_run (step idx nullid store) Inv).
    - intros s l s' [Hi|C] E; [|right; exact C]. exact (step_inv H idx blob Hd maxsz store Hs s l s' Hi E).
    - exact (init_inv H idx blob Hd maxsz). }
  destruct Hrun as [[Il Id Is _ Ig]|C]; [left|right; exact C]. constructor; assumption.
Qed.

(* Every ReadAt that reported success -- under any interleaving of any number of readers, preload workers and
   WriteState calls, any store faults, any sequence of restarts the code can perform (kills of the running process
   included) -- returned exactly blob[off, off+n), n = min(len, L-off). *)
Theorem sparse_read_sound H idx blob maxsz store sched off len d eof :
  index_describes H idx blob -> store_sound H store ->
  let nullid := snd (new_null_chunk H maxsz) in
  In (RqRead off len, ROk d eof) (s_log (run (step idx nullid store) sched (init idx))) ->
  off + Z.of_nat len < two64 ->
  (0 <= off /\ d = slice blob (Z.to_nat off) (length d) /\
   length d = Nat.min len (length blob - Z.to_nat off) /\ eof = (length d <? len)%nat) \/ Collision H.
Proof.
  intros Hd Hs nullid Hin Hb.
  destruct (sparse_inv H idx blob maxsz store sched Hd Hs) as [[_ _ _ Hlog]|C]; [left|right; exact C].
  rewrite Forall_forall in Hlog. exact (Hlog _ Hin Hb).
Qed.

(* A failed load leaves no trace: the done bits and the file are unchanged, the chunk's mutex is free again, and a
   reader gets the store's error (a preload worker drops it).  Together with [needed_spec] (a chunk that is not done
   and not null is on the list of every later read that covers it) and [sparse_read_sound] this is the retry rule:
   the next read of that range calls the store again or fails. *)
Theorem sparse_failed_load idx nullid store s k th i todo rq q c :
  s_crashed s = false -> nth_error (s_threads s) k = Some th ->
  pc th = Some (PFetch i todo) -> queue th = rq :: q ->
  store (s_calls s) (r_id (nth i idx row0)) = SFail c ->
  exists s', step idx nullid store s (LThread k) = Some s' /\
    s_done s' = s_done s /\ s_file s' = s_file s /\ s_calls s' = S (s_calls s) /\
    s_mutex s' = set_nth (s_mutex s) i false /\
    nth_error (s_threads s') k = Some (mkthread q None) /\
    s_log s' = (rq, match rq with RqRead _ _ => read_error (XStore c) | _ => RDone end) :: s_log s.
Proof.
  intros Hc Hk Hpc Hq Hst. cbn [step]. rewrite Hc. unfold tstep. rewrite Hk, Hpc, Hq, Hst.
  eexists. split; [reflexivity|]. unfold finish. cbn [queue]. rewrite Hq. cbn.
  repeat split. unfold upd_thread. clear -Hk. revert k Hk. generalize (s_threads s) as l.
  induction l as [|a l IH]; intros [|k] Hk; cbn in *; try discriminate; auto.
Qed.

(* ---------- no panic when every ReadAt has a non-empty buffer and the index has chunks ---------- *)

Lemma scan_last_le rows e : forall base, scan_last rows e base <= base + Z.of_nat (length rows).
Proof.
  induction rows as [|r rest IH]; intros base; cbn [scan_last length]; [lia|].
  destruct (e <? Z.of_N (r_start r)); [lia|]. specialize (IH (base + 1)). lia.
Qed.

Lemma index_range_bounds idx off len : tiles_from 0 idx -> idx <> [] ->
  exists first last, index_range idx off len = Some (first, last) /\
                     0 <= first <= last /\ last < Z.of_nat (length idx).
Proof.
  intros Ht Hne. unfold index_range.
  destruct (go_search_least (length idx) _ (search_pred_mono idx Ht off)) as [f [Es [Hf _]]].
  rewrite Es.
  assert (0 < length idx)%nat by (destruct idx; [congruence|cbn; lia]).
  destruct (length idx <=? f)%nat eqn:Ef.
  - eexists _, _. split; [reflexivity|]. lia.
  - apply Nat.leb_gt in Ef. destruct (len <? 1).
    + eexists _, _. split; [reflexivity|]. lia.
    + eexists _, _. split; [reflexivity|].
      pose proof (scan_last_ge_base (skipn (S f) idx) ((off + len - 1) mod two64) (Z.of_nat f)).
      pose proof (scan_last_le (skipn (S f) idx) ((off + len - 1) mod two64) (Z.of_nat f)) as Hle.
      rewrite skipn_length in Hle. lia.
Qed.

Section NoPanic.
  Variable idx : index.
  Variable nullid : id.
  Variable store : store_t.
  Hypothesis Ht : tiles_from 0 idx.

  Lemma tstep_no_panic s k s' : s_crashed s = false -> tstep idx nullid store s k = Some s' -> s_crashed s' = false.
  Proof.
    intros Hc E. unfold tstep in E.
    destruct (nth_error (s_threads s) k) as [th|]; [|discriminate].
    destruct (queue th) as [|rq q] eqn:Eq.
    { destruct (pc th) as [[[|? ?]|? ?|? ? ?|? ?]|]; discriminate. }
    destruct (pc th) as [[[|i todo]|i todo|i d todo|i todo]|].
    - destruct rq; inversion E; subst s'; unfold finish; rewrite Eq; exact Hc.
    - destruct (nth i (s_mutex s) true); [discriminate|]. destruct (nth i (s_done s) false); inversion E; subst s'; exact Hc.
    - destruct (store (s_calls s) (r_id (nth i idx row0))) as [d|c].
      + destruct (length d =? 0)%nat; inversion E; subst s'; [unfold finish; rewrite Eq|]; exact Hc.
      + inversion E; subst s'. unfold finish. rewrite Eq. exact Hc.
    - destruct (s_nofile s); inversion E; subst s'; [unfold finish; rewrite Eq|]; exact Hc.
    - inversion E; subst s'. exact Hc.
    - destruct rq as [off len|i|].
      + destruct (length idx =? 0)%nat eqn:En0; [inversion E; subst s'; exact Hc|].
        apply Nat.eqb_neq in En0. assert (Hne : idx <> []) by (intros ->; apply En0; reflexivity).
        destruct (index_range_bounds idx off (Z.of_nat len) Ht Hne) as [first [last [Er [Hb1 Hb2]]]].
        rewrite Er in E. pose proof (needed_spec idx nullid (s_done s) first last) as Hnd.
        destruct (needed idx nullid (s_done s) first last) as [todo|]; [|lia].
        inversion E; subst s'. exact Hc.
      + inversion E; subst s'. exact Hc.
      + inversion E; subst s'. unfold finish. cbn [queue]. rewrite Eq. exact Hc.
  Qed.

  Lemma step_no_panic s l s' : s_crashed s = false -> step idx nullid store s l = Some s' -> s_crashed s' = false.
  Proof.
    intros Hc E. destruct l as [k|k rq|m|m|m b|]; cbn [step] in E.
    - rewrite Hc in E. exact (tstep_no_panic s k s' Hc E).
    - destruct (s_crashed s || negb (valid_request idx rq)); [discriminate|].
      destruct (nth_error (s_threads s) k); inversion E; subst s'; exact Hc.
    - inversion E; subst s'. unfold restart, restart_gen.
      match goal with |- context [if ?c then _ else _] => destruct c end; reflexivity.
    - inversion E; subst s'. unfold restart, restart_gen.
      match goal with |- context [if ?c then _ else _] => destruct c end; reflexivity.
    - inversion E; subst s'. unfold restart_gen.
      match goal with |- context [if ?c then _ else _] => destruct c end; reflexivity.
    - inversion E; subst s'. exact Hc.
  Qed.
End NoPanic.

(* No goroutine ever indexes out of range: for every index (the empty one included), every request (empty buffers,
   offsets at, past or before the ends included), every schedule, store and restart sequence. *)
Theorem sparse_no_panic idx nullid store sched :
  tiles_from 0 idx ->
  s_crashed (run (step idx nullid store) sched (init idx)) = false.
Proof.
  intros Ht.
  apply (inv_run (step idx nullid store) (fun s => s_crashed s = false)); [|reflexivity].
  intros s l s'. apply step_no_panic. exact Ht.
Qed.

(* ---------- sparse_retry: success is always backed by a successful fetch ---------- *)

Section Retry.
  Variable idx : index.
  Variable nullid : id.
  Variable store : store_t.
  Hypothesis Ht : tiles_from 0 idx.
  Notation fetched := (fetched_ok idx store).

  Lemma fetched_mono fl fl' i : incl fl fl' -> fetched fl i -> fetched fl' i.
  Proof. intros Hi [c [d [A B]]]. exists c, d. split; [apply Hi; exact A|exact B]. Qed.

  Definition rtodo (p : phase) : list nat :=
    match p with PNeed t => t | PFetch i t => i :: t | PWrite i _ t => i :: t | PSet _ t => t end.

  Definition thread_r (fl : list (nat * nat)) (th : thread) : Prop :=
    match pc th with
    | None => True
    | Some p =>
        queue th <> [] /\
        match p with PWrite i _ _ | PSet i _ => fetched fl i | _ => True end /\
        match queue th with
        | RqRead off len :: _ =>
            0 <= off -> (1 <= len)%nat -> off + Z.of_nat len < two64 ->
            forall j r, nth_error idx j = Some r -> row_overlaps r off len ->
                        In j (rtodo p) \/ r_id r = nullid \/ fetched fl j
        | _ => True
        end
    end.

  Lemma thread_r_mono fl fl' th : incl fl fl' -> thread_r fl th -> thread_r fl' th.
  Proof.
    intros Hi. unfold thread_r. destruct (pc th) as [p|]; [|auto]. intros [Q [A B]]. split; [exact Q|]. split.
    - destruct p; auto; eapply fetched_mono; eauto.
    - destruct (queue th) as [|[off len| |] q]; auto. intros H1 H2 H3 j r Hn Ho.
      destruct (B H1 H2 H3 j r Hn Ho) as [E|[E|E]]; [left; exact E|right; left; exact E|right; right; eapply fetched_mono; eauto].
  Qed.

  Lemma read_backed_mono fl fl' e : incl fl fl' -> read_backed idx nullid store fl e -> read_backed idx nullid store fl' e.
  Proof.
    intros Hi. destruct e as [[off len| |] [d eof|e|]]; cbn; auto. intros B H1 H2 H3 j r Hn Ho.
    destruct (B H1 H2 H3 j r Hn Ho) as [E|E]; [left; exact E|right; eapply fetched_mono; eauto].
  Qed.

  Record RInv (s : sstate) : Prop := {
    ri_done : forall i, nth i (s_done s) false = true -> fetched (s_fetched s) i;
    ri_saved : forall b, s_saved s = Some b -> forall i, nth i b false = true -> fetched (s_fetched s) i;
    ri_threads : Forall (thread_r (s_fetched s)) (s_threads s);
    ri_log : Forall (read_backed idx nullid store (s_fetched s)) (s_log s);
  }.

  Lemma rtstep s k s' : RInv s -> tstep idx nullid store s k = Some s' -> RInv s'.
  Proof.
    intros [Rd Rs Rt Rl] E. unfold tstep in E.
    destruct (nth_error (s_threads s) k) as [th|] eqn:Ek; [|discriminate].
    assert (Hth : thread_r (s_fetched s) th) by (rewrite Forall_forall in Rt; apply Rt; eapply nth_error_In; eauto).
    unfold thread_r in Hth.
    destruct (queue th) as [|rq q] eqn:Eq.
    { destruct (pc th) as [[[|? ?]|? ?|? ? ?|? ?]|]; discriminate. }
    destruct (pc th) as [p|] eqn:Epc.
    - destruct Hth as [_ [Hp Hcov]].
      destruct p as [[|i todo]|i todo|i d todo|i todo].
      + (* the request completes *)
        assert (Hres : forall res, (forall off len, rq = RqRead off len -> res = file_read (s_file s) off len) ->
                       read_backed idx nullid store (s_fetched s) (rq, res)).
        { intros res Hr. destruct rq as [off len| |]; [|exact I|exact I]. destruct res as [d eof|e|]; cbn; auto.
          intros H1 H2 H3 j r Hn Ho. destruct (Hcov H1 H2 H3 j r Hn Ho) as [[]|E0]. exact E0. }
        assert (s' = finish s k th (match rq with RqRead off len => file_read (s_file s) off len | _ => RDone end))
          by (destruct rq; inversion E; reflexivity). subst s'. unfold finish. rewrite Eq.
        constructor; cbn; auto.
        * apply set_nth_Forall; [exact Rt|exact I].
        * constructor; [|exact Rl]. apply Hres. intros off len ->. reflexivity.
      + destruct (nth i (s_mutex s) true); [discriminate|].
        destruct (nth i (s_done s) false) eqn:Edone; inversion E; subst s'; constructor; cbn; auto.
        * apply set_nth_Forall; [exact Rt|]. unfold thread_r. cbn [pc queue]. rewrite Eq. split; [discriminate|]. split; [exact I|].
          destruct rq as [off len| |]; auto. intros H1 H2 H3 j r Hn Ho.
          destruct (Hcov H1 H2 H3 j r Hn Ho) as [[<-|Hin]|Hb]; [right; right; apply Rd; exact Edone|left; exact Hin|right; exact Hb].
        * apply set_nth_Forall; [exact Rt|]. unfold thread_r. cbn [pc queue]. rewrite Eq. split; [discriminate|]. split; [exact I|exact Hcov].
      + destruct (store (s_calls s) (r_id (nth i idx row0))) as [d|c] eqn:Est.
        * destruct (length d =? 0)%nat.
          -- inversion E; subst s'. unfold finish. rewrite Eq. constructor; cbn; auto.
             ++ apply set_nth_Forall; [exact Rt|exact I].
             ++ constructor; [destruct rq; exact I|exact Rl].
          -- inversion E; subst s'. clear E.
             assert (Hincl : incl (s_fetched s) ((s_calls s, i) :: s_fetched s)) by (intros x Hx; right; exact Hx).
             assert (Hfi : fetched ((s_calls s, i) :: s_fetched s) i) by (exists (s_calls s), d; split; [left; reflexivity|exact Est]).
             constructor; cbn [s_done s_saved s_threads s_log s_fetched set_pc upd_thread].
             ++ intros j Hj. eapply fetched_mono; [exact Hincl|apply Rd; exact Hj].
             ++ intros b Hb j Hj. eapply fetched_mono; [exact Hincl|exact (Rs b Hb j Hj)].
             ++ apply set_nth_Forall.
                ** eapply Forall_impl; [|exact Rt]. intros th0. apply thread_r_mono. exact Hincl.
                ** unfold thread_r. cbn [pc queue]. rewrite Eq. split; [discriminate|]. split; [exact Hfi|].
                   destruct rq as [off len| |]; auto. intros H1 H2 H3 j r Hn Ho.
                   destruct (Hcov H1 H2 H3 j r Hn Ho) as [E0|[E0|E0]]; [left; exact E0|right; left; exact E0|right; right; eapply fetched_mono; eauto].
             ++ eapply Forall_impl; [|exact Rl]. intros e. apply read_backed_mono. exact Hincl.
        * inversion E; subst s'. unfold finish. rewrite Eq. constructor; cbn; auto.
          -- apply set_nth_Forall; [exact Rt|exact I].
          -- constructor; [|exact Rl]. destruct rq; try exact I. cbn.
             destruct (N.eqb c code_bare_eof); exact I.
      + destruct (s_nofile s).
        { inversion E; subst s'. unfold finish. rewrite Eq. constructor; cbn; auto.
          - apply set_nth_Forall; [exact Rt|exact I].
          - constructor; [destruct rq; exact I|exact Rl]. }
        inversion E; subst s'. constructor; cbn; auto.
        apply set_nth_Forall; [exact Rt|]. unfold thread_r. cbn [pc queue]. rewrite Eq. split; [discriminate|]. split; [exact Hp|].
        destruct rq as [off len| |]; auto. intros H1 H2 H3 j r Hn Ho.
        destruct (Hcov H1 H2 H3 j r Hn Ho) as [[<-|Hin]|Hb]; [right; right; exact Hp|left; exact Hin|right; exact Hb].
      + inversion E; subst s'. constructor; cbn [s_done s_saved s_threads s_log s_fetched set_pc upd_thread]; auto.
        * intros j Hj. destruct (Nat.eq_dec j i) as [->|Hne]; [exact Hp|]. apply Rd. rewrite <- Hj. symmetry.
          apply nth_set_nth_other. exact Hne.
        * apply set_nth_Forall; [exact Rt|]. unfold thread_r. cbn [pc queue]. rewrite Eq. split; [discriminate|]. split; [exact I|exact Hcov].
    - destruct rq as [off len|i|].
      + destruct (length idx =? 0)%nat eqn:En0.
        { apply Nat.eqb_eq in En0. inversion E; subst s'. constructor; cbn; auto.
          apply set_nth_Forall; [exact Rt|]. unfold thread_r. cbn [pc queue]. rewrite Eq. split; [discriminate|]. split; [exact I|].
          intros _ _ _ j r Hnj _. exfalso. assert (j < length idx)%nat by (apply nth_error_Some; congruence). lia. }
        destruct (index_range idx off (Z.of_nat len)) as [[first last]|] eqn:Er; [|discriminate].
        pose proof (needed_spec idx nullid (s_done s) first last) as Hnd.
        destruct (needed idx nullid (s_done s) first last) as [todo|]; inversion E; subst s'; constructor; cbn; auto.
        apply set_nth_Forall; [exact Rt|]. unfold thread_r. cbn [pc queue]. rewrite Eq. split; [discriminate|]. split; [exact I|].
        destruct Hnd as [_ Hin]. intros H1 H2 H3 j r Hnj [Ho1 Ho2].
        destruct (index_range_covers idx off len Ht H1 H2 H3) as [f' [l' [Er' Hc]]].
        rewrite Er in Er'. inversion Er'; subst f' l'. specialize (Hc j r Hnj Ho1 Ho2).
        destruct (nth j (s_done s) false) eqn:Edn; [right; right; apply Rd; exact Edn|].
        destruct (N.eqb (r_id (nth j idx row0)) nullid) eqn:En.
        * right. left. apply N.eqb_eq in En. rewrite (nth_error_nth _ _ row0 Hnj) in En. exact En.
        * left. apply Hin. split; [exact Hc|]. split; assumption.
      + inversion E; subst s'. constructor; cbn; auto.
        apply set_nth_Forall; [exact Rt|]. unfold thread_r. cbn [pc queue]. rewrite Eq. split; [discriminate|]. split; exact I.
      + inversion E; subst s'. unfold finish. cbn [queue]. rewrite Eq. constructor; cbn; auto.
        * intros b Hb i Hi. inversion Hb; subst b. apply Rd. exact Hi.
        * apply set_nth_Forall; [exact Rt|exact I].
  Qed.

  Lemma rrestart_gen s m src : RInv s -> RInv (restart_gen idx s m src).
  Proof.
    intros [Rd Rs Rt Rl]. unfold restart_gen.
    match goal with |- context [if ?c then _ else _] => destruct c eqn:Ec end.
    - constructor; cbn; auto.
      destruct (s_saved s) as [b|]; [|apply andb_true_iff in Ec; destruct Ec; discriminate].
      intros i Hi. exact (Rs b eq_refl i Hi).
    - constructor; cbn; auto.
      + intros i Hi. rewrite nth_repeat_false in Hi. discriminate.
      + intros b Hb i Hi. inversion Hb; subst b. rewrite nth_repeat_false in Hi. discriminate.
      + destruct src as [b|]; [|constructor].
        destruct (m_preload m && state_matches idx b); [|constructor].
        apply Forall_forall. intros th Hin. apply in_map_iff in Hin. destruct Hin as [i [<- _]]. exact I.
  Qed.

  Lemma rrestart s m : RInv s -> RInv (restart idx s m).
  Proof. apply rrestart_gen. Qed.

  Lemma rstep s l s' : RInv s -> step idx nullid store s l = Some s' -> RInv s'.
  Proof.
    intros Hinv E. destruct l as [k|k rq|m|m|m b|]; cbn [step] in E.
    - destruct (s_crashed s); [discriminate|]. exact (rtstep s k s' Hinv E).
    - destruct (s_crashed s || negb (valid_request idx rq)); [discriminate|].
      destruct Hinv as [Rd Rs Rt Rl].
      destruct (nth_error (s_threads s) k) as [th|] eqn:Ek; inversion E; subst s'; constructor; cbn; auto.
      + assert (Hth : thread_r (s_fetched s) th) by (rewrite Forall_forall in Rt; apply Rt; eapply nth_error_In; eauto).
        apply set_nth_Forall; [exact Rt|]. unfold thread_r in *. cbn [pc queue].
        destruct (pc th) as [p|] eqn:Epc; [|exact I]. destruct Hth as [Q [A B]].
        split; [intro E0; apply app_eq_nil in E0; destruct E0 as [_ E0]; discriminate|]. split; [exact A|].
        destruct (queue th) as [|rq0 q0]; [contradiction|exact B].
      + apply Forall_app. split; [exact Rt|]. constructor; [exact I|constructor].
    - inversion E; subst s'. apply rrestart. exact Hinv.
    - inversion E; subst s'. apply rrestart. exact Hinv.
    - inversion E; subst s'. apply rrestart_gen. exact Hinv.
    - inversion E; subst s'. destruct Hinv as [Rd Rs Rt Rl]. constructor; cbn; assumption.
  Qed.
End Retry.

(* sparse_retry: for EVERY schedule (all restarts allowed, paired or not), every fault pattern: if a ReadAt with a
   non-empty buffer reported success, then for every chunk the request covers, either it is the null chunk or some
   GetChunk call for it succeeded and was written (in this or an earlier incarnation).  A failed load is never such a
   call: after a failure the range is served only after a successful retry, otherwise the read fails. *)
Theorem sparse_retry idx nullid store sched off len d eof :
  tiles_from 0 idx ->
  let s := run (step idx nullid store) sched (init idx) in
  In (RqRead off len, ROk d eof) (s_log s) ->
  0 <= off -> (1 <= len)%nat -> off + Z.of_nat len < two64 ->
  forall j r, nth_error idx j = Some r -> row_overlaps r off len ->
    r_id r = nullid \/ exists c d', In (c, j) (s_fetched s) /\ store c (r_id r) = SData d'.
Proof.
  intros Ht s Hin H1 H2 H3 j r Hn Ho.
  assert (Hr : RInv idx nullid store s).
  { apply (inv_run (step idx nullid store) (RInv idx nullid store)).
    - intros s0 l s1. apply rstep. exact Ht.
    - constructor; cbn.
      + intros i Hi. rewrite nth_repeat_false in Hi. discriminate.
      + intros b Hb i Hi. inversion Hb; subst b. rewrite nth_repeat_false in Hi. discriminate.
      + constructor.
      + constructor. }
  destruct Hr as [_ _ _ Rl]. rewrite Forall_forall in Rl. specialize (Rl _ Hin). cbn in Rl.
  destruct (Rl H1 H2 H3 j r Hn Ho) as [E|[c [d' [A B]]]]; [left; exact E|right].
  exists c, d'. split; [exact A|]. rewrite (nth_error_nth _ _ row0 Hn) in B. exact B.
Qed.
