From Coq Require Import List Arith Bool Lia.
From DS Require Import Base.Sched Model.Pool Model.Explore Model.Cancel Proofs.PoolProofs Proofs.ExploreProofs.
Import ListNotations.

(* ---- the fixed skeleton: nil => every job processed, cancellation allowed anywhere ---- *)
Theorem pool_cancel_sound njobs job_ok nw sched :
  let s := run (Pool.step njobs job_ok true) sched (Pool.init nw) in
  final s = true -> pool_result s = RNil ->
  forall k, k < njobs -> In k (processed s) /\ job_ok k = true.
Proof. apply pool_sound. Qed.

(* ---- the pre-fix skeleton is refuted: cancel before the first job ---- *)
Theorem pool_prefix_refuted_first njobs job_ok :
  0 < njobs ->
  exists nw sched,
    let s := run (Pool.step njobs job_ok true) sched (Pool.init nw) in
    final s = true /\ pool_result_prefix s = RNil /\ processed s = [] /\ pool_result s = RInterrupted.
Proof.
  intros Hn. exists 1, [CancelEnv; Feeder; Worker 0].
  destruct njobs as [|n]; [lia|]. cbn. repeat split; reflexivity.
Qed.

(* ... and between job k and k+1, for every k: the workers have processed exactly
   the first k jobs, the feeder leaves on ctx.Done, the old code returns nil. *)
Definition fedk (k : nat) (w : wstate) (done : nat) : pstate :=
  {| fed := k; feeder := Feeding; cancelled := false; ext_cancel := false;
     workers := [w]; failed := false; processed := rev (seq 0 done) |}.

Lemma step_take njobs job_ok c k :
  k < njobs -> Pool.step njobs job_ok c (fedk k Idle k) (Worker 0) = Some (fedk (S k) (Busy k) k).
Proof.
  intros Hk. unfold Pool.step, fedk. cbn [workers nth_error feeder fed].
  apply Nat.ltb_lt in Hk. rewrite Hk. reflexivity.
Qed.

Lemma step_finish njobs job_ok c k :
  job_ok k = true -> Pool.step njobs job_ok c (fedk (S k) (Busy k) k) (Worker 0) = Some (fedk (S k) Idle (S k)).
Proof.
  intros Hok. unfold Pool.step, fedk. cbn [workers nth_error feeder fed]. rewrite Hok.
  cbn [set_nth processed cancelled ext_cancel failed]. rewrite seq_S, rev_app_distr. reflexivity.
Qed.

Lemma run_feed_k njobs job_ok c k :
  k <= njobs -> (forall j, j < k -> job_ok j = true) ->
  run (Pool.step njobs job_ok c) (concat (repeat [Worker 0; Worker 0] k)) (Pool.init 1) = fedk k Idle k.
Proof.
  induction k as [|k IH]; intros Hk Hok; [reflexivity|].
  replace (S k) with (k + 1) at 1 by lia.
  rewrite repeat_app, concat_app, run_app. rewrite IH by (auto with arith).
  cbn [repeat concat app run fold_left]. unfold run1.
  rewrite step_take by lia. rewrite step_finish by (apply Hok; lia). reflexivity.
Qed.

Theorem pool_prefix_refuted_between njobs job_ok k :
  k < njobs -> (forall j, j < k -> job_ok j = true) ->
  exists nw sched,
    let s := run (Pool.step njobs job_ok true) sched (Pool.init nw) in
    final s = true /\ pool_result_prefix s = RNil /\ ~ In k (processed s) /\ pool_result s = RInterrupted.
Proof.
  intros Hk Hok. exists 1, (concat (repeat [Worker 0; Worker 0] k) ++ [CancelEnv; Feeder; Worker 0]).
  cbn zeta. rewrite run_app, run_feed_k by (auto with arith).
  unfold fedk. cbn [run fold_left]. unfold run1, Pool.step.
  cbn [andb negb ext_cancel fed feeder cancelled workers failed processed nth_error set_nth].
  assert (E : k =? njobs = false) by (apply Nat.eqb_neq; lia). rewrite E.
  cbn [andb negb ext_cancel fed feeder cancelled workers failed processed nth_error set_nth].
  repeat split; try reflexivity.
  rewrite <- in_rev, in_seq. lia.
Qed.

(* ---- Plan.Validate ---- *)
Lemma nth_filter_in {A} (f : A -> bool) l d k :
  k < length (filter f l) -> In (nth k (filter f l) d) l /\ f (nth k (filter f l) d) = true.
Proof. intros Hk. apply filter_In. apply nth_In. exact Hk. Qed.

Theorem validate_cancel_sound plan nw sched :
  let jobs := validate_jobs plan in
  let s := run (Pool.step (length jobs) (validate_job_ok plan) true) sched (Pool.init nw) in
  final s = true -> pool_result s = RNil ->
  forall seg, In seg plan -> seg_file_seed seg = true -> seg_valid seg = true.
Proof.
  intros jobs s Hfin Hres seg Hin Hfs.
  assert (Hj : In seg jobs) by (apply filter_In; split; assumption).
  destruct (In_nth _ _ {| seg_file_seed := true; seg_valid := true |} Hj) as [k [Hk Ek]].
  destruct (pool_sound _ _ _ nw sched Hfin Hres k Hk) as [_ Hok].
  unfold validate_job_ok in Hok. fold jobs in Hok. rewrite Ek in Hok. exact Hok.
Qed.

(* ---- AssembleFile ---- *)
Lemma assemble_result_nil a attempts main :
  assemble_result a attempts main = Some RNil ->
  main = RNil /\ exists pre rg post, attempts = pre ++ (RNil, rg) :: post /\
                 Forall (fun vr => fst vr = RErr) pre.
Proof.
  induction attempts as [|[v rg] rest IH]; cbn; intros E; [discriminate|].
  destruct v; cbn in E.
  - inversion E; subst. split; [reflexivity|]. exists [], rg, rest. split; [reflexivity|constructor].
  - destruct a; cbn in E; try discriminate.
    + destruct (IH E) as [Hm [pre [rg' [post [Ea Hp]]]]]. split; [exact Hm|].
      exists ((RErr, rg) :: pre), rg', post. split; [now rewrite Ea|constructor; auto].
    + destruct rg; try discriminate.
      destruct (IH E) as [Hm [pre [rg' [post [Ea Hp]]]]]. split; [exact Hm|].
      exists ((RErr, RNil) :: pre), rg', post. split; [now rewrite Ea|constructor; auto].
  - discriminate.
Qed.

(* AssembleFile returns nil only if a validation completed with nil (never after an
   interrupted one) and the main pool processed every segment of the plan. *)
Theorem assemble_cancel_sound a attempts nsegs seg_ok nw sched :
  let s := run (Pool.step nsegs seg_ok true) sched (Pool.init nw) in
  final s = true ->
  assemble_result a attempts (pool_result s) = Some RNil ->
  (forall k, k < nsegs -> In k (processed s) /\ seg_ok k = true) /\
  exists rg, In (RNil, rg) attempts.
Proof.
  intros s Hfin E. apply assemble_result_nil in E. destruct E as [Hm [pre [rg [post [Ea _]]]]].
  split; [apply pool_sound; assumption|].
  exists rg. rewrite Ea. apply in_or_app. right. now left.
Qed.

(* an interrupted validation is never followed by the main loop *)
Theorem assemble_validate_interrupted a rg rest main :
  assemble_result a ((RInterrupted, rg) :: rest) main = Some RInterrupted.
Proof. reflexivity. Qed.

(* ---- state equality is equality ---- *)
Lemma list_eqb_eq {A} (e : A -> A -> bool) :
  (forall a b, e a b = true <-> a = b) -> forall l m, list_eqb e l m = true <-> l = m.
Proof.
  intros He. induction l as [|x r IH]; destruct m as [|y q]; cbn; split; intros E; try congruence; try discriminate.
  - apply andb_true_iff in E. destruct E as [E1 E2]. apply He in E1. apply IH in E2. congruence.
  - inversion E; subst. apply andb_true_iff. split; [now apply He|now apply IH].
Qed.

Lemma wstate_eqb_eq a b : wstate_eqb a b = true <-> a = b.
Proof.
  destruct a, b; cbn; split; intros E; try congruence; try discriminate.
  - apply Nat.eqb_eq in E. now subst.
  - inversion E. apply Nat.eqb_refl.
Qed.

Lemma fstate_eqb_eq a b : fstate_eqb a b = true <-> a = b.
Proof.
  destruct a, b; cbn; split; intros E; try congruence; try discriminate.
  - apply eqb_prop in E. now subst.
  - inversion E. apply eqb_reflx.
Qed.

Lemma pstate_eqb_eq a b : pstate_eqb a b = true <-> a = b.
Proof.
  destruct a, b; unfold pstate_eqb; cbn. rewrite !andb_true_iff.
  rewrite Nat.eqb_eq, fstate_eqb_eq, !eqb_true_iff.
  rewrite (list_eqb_eq wstate_eqb wstate_eqb_eq), (list_eqb_eq Nat.eqb Nat.eqb_eq).
  split; [intros [[[[[[? ?] ?] ?] ?] ?] ?]; congruence|intros E; inversion E; tauto].
Qed.

(* ---- the outcome enumeration only lists outcomes of real runs ---- *)
Section OutcomeProofs.
  Variable njobs : nat.
  Variable job_ok : nat -> bool.
  Variable nw : nat.
  Variable cancel_at : option nat.

  Lemma step_cancel_irrelevant c s t :
    t <> CancelEnv -> Pool.step njobs job_ok c s t = Pool.step njobs job_ok true s t.
  Proof. destruct t; intros; [reflexivity|reflexivity|congruence]. Qed.

  Lemma succs_step s s' :
    In s' (pool_succs njobs job_ok nw cancel_at s) ->
    exists t, Pool.step njobs job_ok true s t = Some s'.
  Proof.
    unfold pool_succs. destruct (cancel_now cancel_at s).
    - unfold opt_list. destruct (Pool.step njobs job_ok true s CancelEnv) eqn:E; [|intros []].
      intros [<-|[]]. now exists CancelEnv.
    - intros Hin. apply in_app_or in Hin. destruct Hin as [Hin|Hin].
      + unfold opt_list in Hin. destruct (Pool.step njobs job_ok false s Feeder) eqn:E; [|destruct Hin].
        destruct Hin as [<-|[]]. exists Feeder. rewrite <- E. symmetry. now apply step_cancel_irrelevant.
      + apply in_flat_map in Hin. destruct Hin as [i [_ Hin]].
        unfold opt_list in Hin. destruct (Pool.step njobs job_ok false s (Worker i)) eqn:E; [|destruct Hin].
        destruct Hin as [<-|[]]. exists (Worker i). rewrite <- E. symmetry. now apply step_cancel_irrelevant.
  Qed.

  Lemma reach_run s :
    reach (pool_succs njobs job_ok nw cancel_at) (Pool.init nw) s ->
    exists sched, run (Pool.step njobs job_ok true) sched (Pool.init nw) = s.
  Proof.
    induction 1 as [|a b _ [sched IH] Hb].
    - exists []. reflexivity.
    - destruct (succs_step _ _ Hb) as [t Et]. exists (sched ++ [t]).
      rewrite run_app, IH. cbn. unfold run1. now rewrite Et.
  Qed.

  Lemma dedup_In l x : In x (dedup l) -> In x l.
  Proof.
    induction l as [|y r IH]; cbn; [auto|].
    destruct (existsb (outcome_eqb y) r); cbn; intros Hin; [right; auto|].
    destruct Hin as [->|Hin]; [now left|right; auto].
  Qed.

  Theorem pool_outcomes_sound fuel outs o :
    pool_outcomes njobs job_ok nw cancel_at fuel = Some outs -> In o outs ->
    exists sched, let s := run (Pool.step njobs job_ok true) sched (Pool.init nw) in
                  final s = true /\ outcome njobs s = o.
  Proof.
    unfold pool_outcomes. destruct (reach_set _ _ fuel (Pool.init nw)) as [states|] eqn:E; [|discriminate].
    intros Eo Hin. inversion Eo; subst; clear Eo.
    apply dedup_In, in_map_iff in Hin. destruct Hin as [s [Es Hs]].
    apply filter_In in Hs. destruct Hs as [Hs Hf].
    pose proof (reach_set_sound _ _ fuel _ _ E s Hs) as Hr.
    destruct (reach_run s Hr) as [sched Er]. exists sched. cbn zeta. rewrite Er. split; assumption.
  Qed.
End OutcomeProofs.
