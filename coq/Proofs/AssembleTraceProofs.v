(* Trace validation for assemble.go: the verif build records the events of the assemble workers
   (job start, seed write with the bytes found in the job's range afterwards, per-chunk re-hash,
   in-place hit, store write, self-seed copy, ss.add); the harness replays them with
   [run_strict] on Model/Assemble.v, i.e. EVERY recorded event must be enabled in the model
   (its guard -- confinement, digest of the file slice, ownership, finished source -- must hold
   of the model's file).  An accepted trace is an execution of the model: *)
From Coq Require Import List NArith Arith Bool Lia.
From DS Require Import Base.Bytes Base.Hash Base.Sched Model.Assemble Model.VerifyIndex Proofs.AssembleProofs.
Import ListNotations.

Theorem assemble_trace_valid (H : bytes -> id) (idx : Assemble.index) (plan : list (nat * nat)) :
  plan_ok idx plan ->
  forall file0 blob (evs : list event) s',
  index_describes H idx blob -> length file0 = length blob ->
  run_strict (Assemble.step H idx plan) evs (Assemble.init plan file0) = Some s' ->
  all_finished s' = true ->
  a_file s' = blob \/ Collision H.
Proof.
  intros Hplan file0 blob evs s' Hd Hl E Hall.
  apply run_strict_run in E. rewrite <- E in Hall |- *.
  exact (assemble_safe H idx plan Hplan file0 blob evs Hd Hl Hall).
Qed.
