From Coq Require Import List NArith Arith Bool Lia.
From DS Require Import Base.Bytes Model.Pool Model.ExtractTmp.
Import ListNotations.

Lemma fs_set_same fs p f : fs_set fs p f p = f.
Proof. unfold fs_set. now rewrite Nat.eqb_refl. Qed.
Lemma fs_set_other fs p f q : q <> p -> fs_set fs p f q = fs q.
Proof. intros Hne. unfold fs_set. apply Nat.eqb_neq in Hne. now rewrite Hne. Qed.

(* extract without --in-place: unless the result is nil the destination path is unchanged
   (same inode, same content, or still absent) ... *)
Theorem extract_tmp_untouched name tmp create_ok new_ino asm_data asm_res rename_ok fs :
  tmp <> name ->
  let '(fs', r) := write_with_tmp name tmp create_ok new_ino asm_data asm_res rename_ok fs in
  r <> RNil -> fs' name = fs name.
Proof.
  intros Hne. unfold write_with_tmp. destruct create_ok; cbn; [|reflexivity].
  assert (Hn : name <> tmp) by congruence.
  destruct asm_res; [destruct rename_ok| |]; intros Hr; try congruence;
    repeat (rewrite fs_set_other by exact Hn); reflexivity.
Qed.

(* ... nil means that AssembleFile returned nil and the destination now is the assembled file ... *)
Theorem extract_tmp_success name tmp create_ok new_ino asm_data asm_res rename_ok fs :
  tmp <> name ->
  let '(fs', r) := write_with_tmp name tmp create_ok new_ino asm_data asm_res rename_ok fs in
  r = RNil -> asm_res = RNil /\ fs' name = Some {| f_ino := new_ino; f_data := asm_data |}.
Proof.
  intros Hne. unfold write_with_tmp. destruct create_ok; cbn; [|discriminate].
  assert (Hn : name <> tmp) by congruence.
  destruct asm_res; [destruct rename_ok| |]; intros Hr; try discriminate.
  split; [reflexivity|].
  rewrite !(fs_set_other _ tmp _ name) by exact Hn. rewrite fs_set_same. rewrite !fs_set_same. reflexivity.
Qed.

(* ... and no temp file is left behind in any case. *)
Theorem extract_tmp_removed name tmp create_ok new_ino asm_data asm_res rename_ok fs :
  tmp <> name -> fs tmp = None ->
  fst (write_with_tmp name tmp create_ok new_ino asm_data asm_res rename_ok fs) tmp = None.
Proof.
  intros Hne Hf. unfold write_with_tmp. destruct create_ok; cbn; [|exact Hf].
  destruct asm_res; [destruct rename_ok| |]; cbn; apply fs_set_same.
Qed.

(* Renaming before looking at the error (seeded mutation) destroys the destination on failure. *)
Theorem extract_rename_first_refuted :
  exists name tmp new_ino asm_data fs,
    tmp <> name /\
    let '(fs', r) := write_with_tmp_rename_first name tmp true new_ino asm_data RInterrupted fs in
    r <> RNil /\ fs' name <> fs name.
Proof.
  exists 0, 1, 7, [1%N], (fun p => if p =? 0 then Some {| f_ino := 3; f_data := [9%N] |} else None).
  split; [discriminate|]. cbn. split; discriminate.
Qed.

(* frame: unless the result is nil NO path other than the temp name changes -- in particular not the file a
   destination symlink points to, nor the link itself *)
Theorem extract_tmp_frame name tmp create_ok new_ino asm_data asm_res rename_ok fs p :
  p <> tmp ->
  let '(fs', r) := write_with_tmp name tmp create_ok new_ino asm_data asm_res rename_ok fs in
  r <> RNil -> fs' p = fs p.
Proof.
  intros Hp. unfold write_with_tmp. destruct create_ok; cbn; [|reflexivity].
  destruct asm_res; [destruct rename_ok| |]; intros Hr; try congruence;
    repeat (rewrite fs_set_other by exact Hp); reflexivity.
Qed.

(* writing through the link: an interrupted extract leaves the linked file modified *)
Theorem extract_through_link_refuted :
  exists target new_ino asm_data fs,
    let '(fs', r) := write_through_link target new_ino asm_data RInterrupted fs in
    r <> RNil /\ fs' target <> fs target.
Proof.
  exists 2, 7, [1%N], (fun p => if p =? 2 then Some {| f_ino := 3; f_data := [9%N] |} else None).
  cbn. split; discriminate.
Qed.
