From Coq Require Import List Arith Bool Lia.
From DS Require Import Base.Sched Model.Pool.
Import ListNotations.

Lemma set_nth_length {A} (l : list A) i x : length (set_nth l i x) = length l.
Proof. revert i; induction l; destruct i; cbn; auto. Qed.

Lemma nth_error_set_nth_eq {A} (l : list A) i x :
  i < length l -> nth_error (set_nth l i x) i = Some x.
Proof. revert i; induction l; destruct i; cbn; intros; try lia; auto. apply IHl; lia. Qed.

Lemma nth_error_set_nth_ne {A} (l : list A) i j x :
  i <> j -> nth_error (set_nth l i x) j = nth_error l j.
Proof.
  revert i j; induction l; destruct i, j; cbn; intros; try congruence; auto.
Qed.

Lemma nth_error_set_nth {A} (l : list A) i j x y :
  nth_error (set_nth l i x) j = Some y ->
  (i = j /\ y = x) \/ (i <> j /\ nth_error l j = Some y).
Proof.
  intros E. destruct (Nat.eq_dec i j) as [->|Hne].
  - left. split; [reflexivity|].
    destruct (Nat.lt_ge_cases j (length l)) as [Hl|Hl].
    + rewrite nth_error_set_nth_eq in E by exact Hl. congruence.
    + assert (nth_error (set_nth l j x) j = None) by (apply nth_error_None; rewrite set_nth_length; exact Hl).
      congruence.
  - right. split; [exact Hne|]. rewrite nth_error_set_nth_ne in E by exact Hne. exact E.
Qed.

Section PoolProofs.
  Variable njobs : nat.
  Variable job_ok : nat -> bool.
  Variable can_cancel : bool.

  Notation step := (Pool.step njobs job_ok can_cancel).

  Record PInv (s : pstate) : Prop := {
    i_fed : fed s <= njobs;
    i_closed : feeder s = Stopped false -> fed s = njobs;
    i_broke : feeder s = Stopped true -> cancelled s = true;
    i_proc : forall k, In k (processed s) -> k < fed s /\ job_ok k = true;
    i_cover : forall k, k < fed s ->
              In k (processed s) \/ (exists i, nth_error (workers s) i = Some (Busy k)) \/ failed s = true;
    i_busy : forall i k, nth_error (workers s) i = Some (Busy k) -> k < fed s;
    i_canc : cancelled s = true -> failed s = true \/ ext_cancel s = true;
    i_failc : failed s = true -> cancelled s = true;
    i_fail : failed s = true -> exists k, k < njobs /\ job_ok k = false;
    i_ext : ext_cancel s = true -> can_cancel = true;
    i_exit : feeder s = Feeding -> forall i, nth_error (workers s) i = Some Exited -> failed s = true;
  }.

  Lemma init_inv nw : PInv (init nw).
  Proof.
    constructor; cbn; intros; try lia; try discriminate; try contradiction.
    - apply nth_error_In, repeat_spec in H. discriminate.
    - apply nth_error_In, repeat_spec in H0. discriminate.
  Qed.

  Lemma step_inv s t s' : PInv s -> step s t = Some s' -> PInv s'.
  Proof.
    intros I E. destruct t as [|i|]; unfold Pool.step in E.
    - (* Feeder *)
      destruct (feeder s) eqn:Ef; [|discriminate].
      destruct (fed s =? njobs) eqn:Efed.
      + apply Nat.eqb_eq in Efed. inversion E; subst; clear E.
        destruct I. constructor; cbn; intros; eauto; try discriminate.
      + destruct (cancelled s) eqn:Ec; [|discriminate].
        inversion E; subst; clear E.
        destruct I. constructor; cbn; intros; eauto; try discriminate.
    - (* Worker i *)
      destruct (nth_error (workers s) i) as [[| k |]|] eqn:Ew; try discriminate.
      + (* Idle *)
        destruct (feeder s) eqn:Ef.
        * destruct (fed s <? njobs) eqn:Elt; [|discriminate].
          apply Nat.ltb_lt in Elt. inversion E; subst; clear E.
          assert (Hi : i < length (workers s)) by (apply nth_error_Some; congruence).
          destruct I. constructor; cbn; intros; eauto; try discriminate; try lia.
          -- apply i_proc0 in H. destruct H; split; [lia|assumption].
          -- destruct (Nat.eq_dec k (fed s)) as [->|Hne].
             ++ right; left. exists i. apply nth_error_set_nth_eq; exact Hi.
             ++ assert (Hk : k < fed s) by lia.
                destruct (i_cover0 k Hk) as [Hp|[[j Hj]|Hf]]; auto.
                right; left. exists j. rewrite nth_error_set_nth_ne; [exact Hj|].
                intro; subst j. congruence.
          -- apply nth_error_set_nth in H. destruct H as [[_ Hk]|[_ Hk]].
             ++ inversion Hk; lia.
             ++ apply i_busy0 in Hk. lia.
          -- apply nth_error_set_nth in H0. destruct H0 as [[_ Hk]|[_ Hk]]; [discriminate|].
             eapply i_exit0; eauto.
        * inversion E; subst; clear E.
          destruct I. constructor; cbn; intros; eauto; try congruence;
            try (match goal with Hs : Stopped _ = Stopped _ |- _ => rewrite Hs in Ef; now eauto end).
          -- destruct (i_cover0 k H) as [Hp|[[j Hj]|Hf]]; auto.
             right; left. exists j. rewrite nth_error_set_nth_ne; [exact Hj|].
             intro; subst j. congruence.
          -- apply nth_error_set_nth in H. destruct H as [[_ Hk]|[_ Hk]]; [discriminate|].
             eapply i_busy0; eauto.
      + (* Busy k *)
        destruct (job_ok k) eqn:Eok; inversion E; subst; clear E.
        * destruct I. constructor; cbn; intros; eauto.
          -- destruct H as [->|H]; [split; [eapply i_busy0; eauto|exact Eok]|auto].
          -- destruct (i_cover0 k0 H) as [Hp|[[j Hj]|Hf]]; auto.
             destruct (Nat.eq_dec j i) as [->|Hne].
             ++ left. left. congruence.
             ++ right; left. exists j. rewrite nth_error_set_nth_ne; auto.
          -- apply nth_error_set_nth in H. destruct H as [[_ Hk]|[_ Hk]]; [discriminate|].
             eapply i_busy0; eauto.
          -- apply nth_error_set_nth in H0. destruct H0 as [[_ Hk]|[_ Hk]]; [discriminate|].
             eapply i_exit0; eauto.
        * destruct I. constructor; cbn; intros; eauto.
          -- apply nth_error_set_nth in H. destruct H as [[_ Hk]|[_ Hk]]; [discriminate|].
             eapply i_busy0; eauto.
          -- exists k. split; [|exact Eok]. specialize (i_busy0 _ _ Ew). lia.
    - (* CancelEnv *)
      destruct (can_cancel && negb (ext_cancel s)) eqn:Ec; [|discriminate].
      apply andb_true_iff in Ec. destruct Ec as [Ecc _].
      inversion E; subst; clear E.
      destruct I. constructor; cbn; intros; eauto.
  Qed.

  Lemma run_inv nw sched : PInv (run step sched (init nw)).
  Proof. apply inv_run with (Inv := PInv); [intros; eapply step_inv; eauto|apply init_inv]. Qed.

  Lemma all_exited_no_busy s i k :
    all_exited s = true -> nth_error (workers s) i = Some (Busy k) -> False.
  Proof.
    unfold all_exited. intros Ha Hn. rewrite forallb_forall in Ha.
    apply nth_error_In in Hn. apply Ha in Hn. discriminate.
  Qed.

  (* Soundness: nil is only returned when every job ran and succeeded --
     for every schedule, worker count and cancellation point. *)
  Theorem pool_sound nw sched :
    let s := run step sched (init nw) in
    final s = true -> pool_result s = RNil ->
    forall k, k < njobs -> In k (processed s) /\ job_ok k = true.
  Proof.
    intros s Hfin Hres k Hk. assert (I := run_inv nw sched). fold s in I.
    unfold final in Hfin. unfold pool_result in Hres.
    destruct (failed s) eqn:Ef; [discriminate|].
    destruct (feeder s) as [|[|]] eqn:Efd; try discriminate.
    assert (Hfed : fed s = njobs) by (apply (i_closed _ I); exact Efd).
    assert (Hc := i_cover _ I k). rewrite Hfed in Hc. specialize (Hc Hk).
    destruct Hc as [Hp|[[i Hi]|Hf]].
    - split; [exact Hp|]. apply (i_proc _ I) in Hp. tauto.
    - exfalso. eapply all_exited_no_busy; eauto.
    - congruence.
  Qed.

  (* A reported error is a real job failure; an interruption is a real cancellation. *)
  Theorem pool_err_real nw sched :
    let s := run step sched (init nw) in
    pool_result s = RErr -> exists k, k < njobs /\ job_ok k = false.
  Proof.
    intros s Hres. assert (I := run_inv nw sched). fold s in I.
    unfold pool_result in Hres. destruct (failed s) eqn:Ef.
    - apply (i_fail _ I). exact Ef.
    - destruct (feeder s) as [|[|]]; discriminate.
  Qed.

  Theorem pool_interrupted_real nw sched :
    let s := run step sched (init nw) in
    pool_result s = RInterrupted -> can_cancel = true.
  Proof.
    intros s Hres. assert (I := run_inv nw sched). fold s in I.
    unfold pool_result in Hres. destruct (failed s) eqn:Ef; [discriminate|].
    destruct (feeder s) as [|[|]] eqn:Efd; try discriminate.
    assert (Hc : cancelled s = true) by (apply (i_broke _ I); exact Efd).
    destruct (i_canc _ I Hc) as [Hf|He]; [congruence|].
    apply (i_ext _ I He).
  Qed.

  (* Completeness: without cancellation, all jobs good => nil. *)
  Theorem pool_complete nw sched :
    let s := run step sched (init nw) in
    can_cancel = false -> (forall k, k < njobs -> job_ok k = true) ->
    final s = true -> pool_result s = RNil.
  Proof.
    intros s Hnc Hall Hfin.
    destruct (pool_result s) eqn:Hres; [reflexivity| |].
    - destruct (pool_err_real nw sched Hres) as [k [Hk Hok]]. rewrite Hall in Hok by exact Hk. discriminate.
    - apply pool_interrupted_real in Hres. congruence.
  Qed.

  Lemma step_workers_length s t s' : step s t = Some s' -> length (workers s') = length (workers s).
  Proof.
    intros Es. destruct t as [|i|]; unfold Pool.step in Es.
    - destruct (feeder s); [|discriminate]. destruct (fed s =? njobs).
      + inversion Es; subst; reflexivity.
      + destruct (cancelled s); [|discriminate]. inversion Es; subst; reflexivity.
    - destruct (nth_error (workers s) i) as [[|k|]|]; try discriminate.
      + destruct (feeder s).
        * destruct (fed s <? njobs); [|discriminate]. inversion Es; subst; cbn. apply set_nth_length.
        * inversion Es; subst; cbn. apply set_nth_length.
      + destruct (job_ok k); inversion Es; subst; cbn; apply set_nth_length.
    - destruct (can_cancel && negb (ext_cancel s)); [|discriminate]. inversion Es; subst; reflexivity.
  Qed.

  Lemma run_workers_length nw sched : length (workers (run step sched (init nw))) = nw.
  Proof.
    apply (inv_run step (fun s => length (workers s) = nw)).
    - intros s t s' Hs Es. rewrite (step_workers_length _ _ _ Es). exact Hs.
    - cbn. apply repeat_length.
  Qed.

  (* Deadlock freedom: a non-final state with at least one worker has an enabled thread. *)
  Theorem pool_deadlock_free nw sched :
    let s := run step sched (init nw) in
    0 < nw -> final s = false -> exists t, step s t <> None.
  Proof.
    intros s Hnw Hfin. assert (I := run_inv nw sched). fold s in I.
    assert (Hlen : length (workers s) = nw) by apply run_workers_length.
    unfold final in Hfin. destruct (feeder s) as [|b] eqn:Efd.
    - destruct (fed s =? njobs) eqn:Efed.
      + exists Feeder. unfold Pool.step. rewrite Efd, Efed. discriminate.
      + destruct (cancelled s) eqn:Ec.
        * exists Feeder. unfold Pool.step. rewrite Efd, Efed, Ec. discriminate.
        * assert (Hnf : failed s = false).
          { destruct (failed s) eqn:Ef; [|reflexivity]. rewrite (i_failc _ I) in Ec by exact Ef. discriminate. }
          destruct (nth_error (workers s) 0) as [w|] eqn:Ew.
          2:{ apply nth_error_None in Ew. lia. }
          exists (Worker 0). unfold Pool.step. rewrite Ew. destruct w as [|k|].
          -- rewrite Efd. apply Nat.eqb_neq in Efed.
             assert (fed s < njobs) by (pose proof (i_fed _ I); lia).
             apply Nat.ltb_lt in H. rewrite H. discriminate.
          -- destruct (job_ok k); discriminate.
          -- rewrite (i_exit _ I Efd 0 Ew) in Hnf. discriminate.
    - unfold all_exited in Hfin.
      assert (Hex : exists i w, nth_error (workers s) i = Some w /\ w <> Exited).
      { clear -Hfin. induction (workers s) as [|w r IH]; cbn in Hfin; [discriminate|].
        destruct w; try (exists 0; eexists; split; [reflexivity|discriminate]).
        cbn in Hfin. destruct (IH Hfin) as [i [w [Hi Hw]]]. exists (S i), w. split; assumption. }
      destruct Hex as [i [w [Hi Hw]]]. exists (Worker i). unfold Pool.step. rewrite Hi.
      destruct w as [|k|]; [rewrite Efd; discriminate|destruct (job_ok k); discriminate|congruence].
  Qed.

  (* Termination: a measure that every enabled step strictly decreases. *)
  Definition wweight (w : wstate) : nat := match w with Idle => 1 | Busy _ => 2 | Exited => 0 end.
  Definition mu (s : pstate) : nat :=
    3 * (njobs - fed s) + match feeder s with Feeding => 1 | Stopped _ => 0 end
    + fold_right (fun w a => wweight w + a) 0 (workers s)
    + (if negb (ext_cancel s) then 1 else 0).

  Lemma weight_set_nth l i w w0 :
    nth_error l i = Some w0 ->
    fold_right (fun w a => wweight w + a) 0 (set_nth l i w) + wweight w0 =
    fold_right (fun w a => wweight w + a) 0 l + wweight w.
  Proof.
    revert i. induction l as [|x r IH]; destruct i; cbn; intros E; try discriminate.
    - inversion E; subst. lia.
    - specialize (IH _ E). lia.
  Qed.

  Theorem pool_step_decreases s t s' : PInv s -> step s t = Some s' -> mu s' < mu s.
  Proof.
    intros I E. unfold mu. destruct t as [|i|]; unfold Pool.step in E.
    - destruct (feeder s) eqn:Ef; [|discriminate].
      destruct (fed s =? njobs).
      + inversion E; subst; cbn. lia.
      + destruct (cancelled s); [|discriminate]. inversion E; subst; cbn. lia.
    - destruct (nth_error (workers s) i) as [[|k|]|] eqn:Ew; try discriminate.
      + destruct (feeder s) eqn:Ef.
        * destruct (fed s <? njobs) eqn:Elt; [|discriminate]. apply Nat.ltb_lt in Elt.
          inversion E; subst; cbn. pose proof (weight_set_nth _ _ (Busy (fed s)) _ Ew). cbn in H. lia.
        * inversion E; subst; cbn. rewrite ?Ef. pose proof (weight_set_nth _ _ Exited _ Ew). cbn in H. lia.
      + destruct (job_ok k); inversion E; subst; cbn.
        * pose proof (weight_set_nth _ _ Idle _ Ew). cbn in H. lia.
        * pose proof (weight_set_nth _ _ Exited _ Ew). cbn in H. lia.
    - destruct (can_cancel && negb (ext_cancel s)) eqn:Ec; [|discriminate].
      apply andb_true_iff in Ec. destruct Ec as [_ Ec]. inversion E; subst; cbn. rewrite Ec. cbn. lia.
  Qed.

  (* Every run made of enabled steps only is at most [mu init] long. *)
  Theorem pool_terminates nw sched s' :
    run_strict step sched (init nw) = Some s' -> length sched <= mu (init nw).
  Proof.
    intros E.
    pose proof (measure_bound_inv step PInv mu
                  (fun s t s' I Es => step_inv s t s' I Es)
                  (fun s t s' I Es => pool_step_decreases s t s' I Es)
                  sched (init nw) s' (init_inv nw) E). lia.
  Qed.
End PoolProofs.
