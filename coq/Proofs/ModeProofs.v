(* Proofs about Model/Mode.v: the st_mode <-> os.FileMode conversion is lossless
   on every st_mode a file system can report, and mkdev / the rdev split of
   LocalFS.Next are inverse to each other on exactly the 12+20 bit device
   numbers. *)
From Coq Require Import List NArith Bool Lia ZifyN ZifyBool.
From DS Require Import Gen.Constants Model.Mode.
Import ListNotations.
Local Open Scope N_scope.

(* ---------- enumeration ---------- *)

Lemma all_below_complete bits : forall m, m < 2 ^ N.of_nat bits -> In m (all_below bits).
Proof.
  induction bits as [|k IH]; intros m Hm.
  - cbn in Hm. cbn [all_below]. left. lia.
  - cbn [all_below]. apply in_or_app.
    rewrite Nat2N.inj_succ, N.pow_succ_r in Hm by lia.
    destruct (N.lt_ge_cases m (2 ^ N.of_nat k)) as [Hlt|Hge].
    + left. apply IH. exact Hlt.
    + right. apply in_map_iff. exists (m - 2 ^ N.of_nat k). split; [lia|]. apply IH. lia.
Qed.

Lemma sweep (bits : nat) (chk : N -> bool) :
  forallb chk (all_below bits) = true -> forall m, m < 2 ^ N.of_nat bits -> chk m = true.
Proof.
  intros Hall m Hm. rewrite forallb_forall in Hall. apply Hall, all_below_complete, Hm.
Qed.

(* ---------- mode ---------- *)

Lemma mode_sweep : forallb mode_roundtrip_check (all_below 16) = true.
Proof. vm_compute. reflexivity. Qed.

Lemma mode_roundtrip m :
  m < 2 ^ 16 -> valid_type (N.land m S_IFMT) = true -> filemode_to_stat (stat_to_filemode m) = m.
Proof.
  intros Hm Hv. pose proof (sweep 16 _ mode_sweep m Hm) as H.
  unfold mode_roundtrip_check in H. rewrite Hv in H. cbn [negb orb] in H.
  apply N.eqb_eq. exact H.
Qed.

(* the 64-bit mode word of an archive entry goes through uint32() first *)
Lemma mode_roundtrip_word m :
  m < 2 ^ 16 -> valid_type (N.land m S_IFMT) = true -> filemode_to_stat (stat_to_filemode (u32 m)) = m.
Proof.
  intros Hm Hv. unfold u32. rewrite N.mod_small by (change (2 ^ 16) with 65536 in Hm; lia).
  apply mode_roundtrip; assumption.
Qed.

(* the permission, set-id and sticky bits are what chmod receives *)
Definition chmod_check (m : N) : bool :=
  chmod_bits (filemode_to_stat (stat_to_filemode m)) =? N.land m 4095.

Lemma chmod_sweep : forallb chmod_check (all_below 16) = true.
Proof. vm_compute. reflexivity. Qed.

(* whatever the type nibble: the twelve permission bits survive *)
Lemma chmod_bits_roundtrip m :
  m < 2 ^ 16 -> chmod_bits (filemode_to_stat (stat_to_filemode m)) = N.land m 4095.
Proof. intros Hm. apply N.eqb_eq. exact (sweep 16 _ chmod_sweep m Hm). Qed.

(* the kind tests of tar() see the type of the st_mode *)
Definition kind_check (m : N) : bool :=
  let fm := stat_to_filemode m in
  let ty := N.land m S_IFMT in
  eqb (fm_is_dir fm) (ty =? S_IFDIR) &&
  eqb (fm_is_regular fm) (negb ((ty =? S_IFBLK) || (ty =? S_IFCHR) || (ty =? S_IFDIR) || (ty =? S_IFIFO) ||
                                (ty =? S_IFLNK) || (ty =? S_IFSOCK))) &&
  eqb (fm_is_symlink fm) (ty =? S_IFLNK) &&
  eqb (fm_is_device fm) ((ty =? S_IFBLK) || (ty =? S_IFCHR)).

Lemma kind_sweep : forallb kind_check (all_below 16) = true.
Proof. vm_compute. reflexivity. Qed.

(* gnu-tar output followed by tar input: the set-id and sticky bits never come back *)
Definition gnutar_check (m : N) : bool :=
  tar_mode_back (tar_header_mode m) =? N.land m 511.

Lemma gnutar_sweep : forallb gnutar_check (all_below 16) = true.
Proof. vm_compute. reflexivity. Qed.

Lemma gnutar_mode_loses_special_bits m :
  m < 2 ^ 16 -> tar_mode_back (tar_header_mode m) = N.land m 511.
Proof. intros Hm. apply N.eqb_eq. exact (sweep 16 _ gnutar_sweep m Hm). Qed.

(* ---------- bits ---------- *)

Lemma testbit_small x k n : x < 2 ^ k -> k <= n -> N.testbit x n = false.
Proof.
  intros Hx Hn. rewrite <- (N.mod_small x (2 ^ k)) by exact Hx.
  apply N.mod_pow2_bits_high. exact Hn.
Qed.

Lemma testbit_mod_pow2 x k n : N.testbit (x mod 2 ^ k) n = (n <? k) && N.testbit x n.
Proof.
  destruct (N.ltb_spec n k) as [H|H]; cbn [andb].
  - apply N.mod_pow2_bits_low. exact H.
  - apply N.mod_pow2_bits_high. exact H.
Qed.

Lemma testbit_shiftl x s n : N.testbit (N.shiftl x s) n = (s <=? n) && N.testbit x (n - s).
Proof.
  destruct (N.leb_spec s n) as [H|H]; cbn [andb].
  - apply N.shiftl_spec_high'. exact H.
  - apply N.shiftl_spec_low. exact H.
Qed.

Lemma testbit_shiftr x s n : N.testbit (N.shiftr x s) n = N.testbit x (n + s).
Proof. apply N.shiftr_spec'. Qed.

Lemma testbit_ones k n : N.testbit (N.ones k) n = (n <? k).
Proof.
  destruct (N.ltb_spec n k) as [H|H].
  - apply N.ones_spec_low. exact H.
  - apply N.ones_spec_high. exact H.
Qed.

(* a run of ones: bits lo .. lo+len-1 *)
Lemma testbit_mask lo len n : N.testbit (N.shiftl (N.ones len) lo) n = (lo <=? n) && (n - lo <? len).
Proof. rewrite testbit_shiftl, testbit_ones. reflexivity. Qed.

Lemma mask_fff : 0x00000fff = N.shiftl (N.ones 12) 0. Proof. reflexivity. Qed.
Lemma mask_fffff000 : 0xfffff000 = N.shiftl (N.ones 20) 12. Proof. reflexivity. Qed.
Lemma mask_ff : 0x000000ff = N.shiftl (N.ones 8) 0. Proof. reflexivity. Qed.
Lemma mask_ffffff00 : 0xffffff00 = N.shiftl (N.ones 24) 8. Proof. reflexivity. Qed.
Lemma mask_fff00000 : 0xfff00000 = N.shiftl (N.ones 12) 20. Proof. reflexivity. Qed.
Lemma mod_256 x : x mod 256 = x mod 2 ^ 8. Proof. reflexivity. Qed.

(* bit n of mkdev major minor *)
Lemma mkdev_bit major minor n :
  N.testbit (mkdev major minor) n =
    ((n <? 64) && ((8 <=? n) && (N.testbit major (n - 8) && ((0 <=? n - 8) && (n - 8 - 0 <? 12))))
  || (n <? 64) && ((32 <=? n) && (N.testbit major (n - 32) && ((12 <=? n - 32) && (n - 32 - 12 <? 20))))
  || (n <? 64) && ((0 <=? n) && (N.testbit minor (n - 0) && ((0 <=? n - 0) && (n - 0 - 0 <? 8))))
  || (n <? 64) && ((12 <=? n) && (N.testbit minor (n - 12) && ((8 <=? n - 12) && (n - 12 - 8 <? 24))))).
Proof.
  unfold mkdev, c05_mkdev.
  rewrite mask_fff, mask_fffff000, mask_ff, mask_ffffff00.
  rewrite !N.lor_spec, !testbit_mod_pow2, !testbit_shiftl, !N.land_spec, !testbit_mask.
  reflexivity.
Qed.

Lemma rdev_major_bit r n :
  N.testbit (rdev_major r) n = N.testbit r (n + 8) && ((0 <=? n) && (n - 0 <? 12)).
Proof.
  unfold rdev_major, c05_rdev_major. rewrite mask_fff.
  rewrite N.land_spec, testbit_shiftr, testbit_mask. reflexivity.
Qed.

Lemma rdev_minor_bit r n :
  N.testbit (rdev_minor r) n =
    ((n <? 8) && N.testbit r n) || (N.testbit r (n + 12) && ((20 <=? n + 12) && (n + 12 - 20 <? 12))).
Proof.
  unfold rdev_minor, c05_rdev_minor. rewrite mask_fff00000, mod_256.
  rewrite N.lor_spec, testbit_mod_pow2, testbit_shiftr, N.land_spec, testbit_mask. reflexivity.
Qed.

(* decide every comparison in the goal from the hypotheses (all about one bit index) *)
Ltac decide_cmps :=
  repeat match goal with
  | |- context [?a <? ?b] =>
      first [ replace (a <? b) with true by (symmetry; apply N.ltb_lt; lia)
            | replace (a <? b) with false by (symmetry; apply N.ltb_ge; lia) ]
  | |- context [?a <=? ?b] =>
      first [ replace (a <=? b) with true by (symmetry; apply N.leb_le; lia)
            | replace (a <=? b) with false by (symmetry; apply N.leb_gt; lia) ]
  end;
  cbn [andb orb];
  repeat rewrite ?andb_true_r, ?andb_false_r, ?orb_false_r, ?orb_false_l, ?orb_true_r.

(* bring every bit index that equals n into that form *)
Ltac norm_idx n :=
  repeat match goal with
  | |- context [N.testbit ?x ?e] =>
      lazymatch e with
      | n => fail
      | _ => replace e with n by lia
      end
  end.

Lemma rdev_major_mkdev major minor :
  major < 2 ^ 12 -> minor < 2 ^ 20 -> rdev_major (mkdev major minor) = major.
Proof.
  intros HM Hm. apply N.bits_inj. intro n.
  rewrite rdev_major_bit, mkdev_bit.
  destruct (N.lt_ge_cases n 12) as [H|H].
  - decide_cmps. replace (n + 8 - 8) with n by lia. reflexivity.
  - decide_cmps. symmetry. apply (testbit_small major 12); assumption.
Qed.

Lemma rdev_minor_mkdev major minor :
  major < 2 ^ 12 -> minor < 2 ^ 20 -> rdev_minor (mkdev major minor) = minor.
Proof.
  intros HM Hm. apply N.bits_inj. intro n.
  rewrite rdev_minor_bit, !mkdev_bit.
  destruct (N.lt_ge_cases n 8) as [H|H].
  - decide_cmps. replace (n - 0) with n by lia. reflexivity.
  - destruct (N.lt_ge_cases n 20) as [H20|H20].
    + decide_cmps. replace (n + 12 - 12) with n by lia. reflexivity.
    + decide_cmps. symmetry. apply (testbit_small minor 20); assumption.
Qed.

Lemma rdev_major_lt r : rdev_major r < 2 ^ 12.
Proof.
  unfold rdev_major, c05_rdev_major. change 0xfff with (N.ones 12).
  rewrite N.land_ones. apply N.mod_lt. discriminate.
Qed.

Lemma rdev_minor_lt r : rdev_minor r < 2 ^ 20.
Proof.
  destruct (N.lt_ge_cases (rdev_minor r) (2 ^ 20)) as [H|H]; [exact H|exfalso].
  assert (Hz : rdev_minor r <> 0) by (change (2 ^ 20) with 1048576 in H; lia).
  pose proof (N.log2_le_mono _ _ H) as Hl. rewrite N.log2_pow2 in Hl by lia.
  pose proof (N.bit_log2 _ Hz) as Hb. rewrite rdev_minor_bit in Hb.
  revert Hb. decide_cmps. discriminate.
Qed.

(* the other direction: the device number of the source comes back (Linux dev_t as seen
   by user space has 32 significant bits in the 12+20 layout) *)
Lemma mkdev_split r : r < 2 ^ 32 -> mkdev (rdev_major r) (rdev_minor r) = r.
Proof.
  intros Hr. apply N.bits_inj. intro n.
  rewrite mkdev_bit, !rdev_major_bit, !rdev_minor_bit.
  destruct (N.lt_ge_cases n 8) as [H8|H8]; [decide_cmps; norm_idx n; reflexivity|].
  destruct (N.lt_ge_cases n 12) as [H12|H12]; [decide_cmps; norm_idx n; reflexivity|].
  destruct (N.lt_ge_cases n 20) as [H20|H20]; [decide_cmps; norm_idx n; reflexivity|].
  destruct (N.lt_ge_cases n 32) as [H32|H32]; [decide_cmps; norm_idx n; reflexivity|].
  destruct (N.lt_ge_cases n 44) as [H44|H44];
    [|destruct (N.lt_ge_cases n 64) as [H64|H64]]; decide_cmps;
    symmetry; apply (testbit_small r 32); assumption.
Qed.

Theorem dev_roundtrip major minor :
  major < 2 ^ 12 -> minor < 2 ^ 20 ->
  rdev_major (mkdev major minor) = major /\ rdev_minor (mkdev major minor) = minor.
Proof. intros. split; [apply rdev_major_mkdev|apply rdev_minor_mkdev]; assumption. Qed.

(* the domain is exact: outside of it something is lost *)
Theorem dev_roundtrip_domain major minor :
  (rdev_major (mkdev major minor) = major /\ rdev_minor (mkdev major minor) = minor) <->
  (major < 2 ^ 12 /\ minor < 2 ^ 20).
Proof.
  split.
  - intros [HM Hm]. split.
    + rewrite <- HM. apply rdev_major_lt.
    + rewrite <- Hm. apply rdev_minor_lt.
  - intros [HM Hm]. apply dev_roundtrip; assumption.
Qed.

(* ---------- the gnu-tar and mtree writers ---------- *)

Definition char_check (m : N) : bool :=
  let ty := N.land m S_IFMT in
  negb ((ty =? S_IFCHR) || (ty =? S_IFBLK)) || eqb (writer_is_char (stat_to_filemode m)) (ty =? S_IFCHR).
Lemma char_sweep : forallb char_check (all_below 16) = true.
Proof. vm_compute. reflexivity. Qed.

(* a device is written as a character device exactly when it is one *)
Lemma writer_char_correct m :
  m < 2 ^ 16 -> (N.land m S_IFMT = S_IFCHR \/ N.land m S_IFMT = S_IFBLK) ->
  writer_is_char (stat_to_filemode m) = (N.land m S_IFMT =? S_IFCHR).
Proof.
  intros Hm Hty. pose proof (sweep 16 _ char_sweep m Hm) as H. unfold char_check in H. cbv zeta in H.
  destruct Hty as [E|E]; rewrite E in *; cbn [N.eqb negb orb] in H;
    change (S_IFCHR =? S_IFCHR) with true in H; change (S_IFBLK =? S_IFBLK) with true in H;
    change (S_IFBLK =? S_IFCHR) with false in H; change (S_IFCHR =? S_IFBLK) with false in H;
    cbn [negb orb] in H; apply eqb_prop in H; exact H.
Qed.

(* before the fix no st_mode whatsoever was taken for a character device *)
Definition char_prefix_check (m : N) : bool := negb (writer_is_char_prefix (stat_to_filemode m)).
Lemma char_prefix_sweep : forallb char_prefix_check (all_below 16) = true.
Proof. vm_compute. reflexivity. Qed.
Lemma writer_char_prefix_refuted m : m < 2 ^ 16 -> writer_is_char_prefix (stat_to_filemode m) = false.
Proof. intros Hm. pose proof (sweep 16 _ char_prefix_sweep m Hm) as H. unfold char_prefix_check in H. now apply negb_true_iff in H. Qed.

Definition mtree_mode_check (m : N) : bool := mtree_mode (stat_to_filemode m) =? N.land m 4095.
Lemma mtree_mode_sweep : forallb mtree_mode_check (all_below 16) = true.
Proof. vm_compute. reflexivity. Qed.
(* mode= shows all twelve permission bits *)
Lemma mtree_mode_correct m : m < 2 ^ 16 -> mtree_mode (stat_to_filemode m) = N.land m 4095.
Proof. intros Hm. apply N.eqb_eq. exact (sweep 16 _ mtree_mode_sweep m Hm). Qed.

Definition mtree_mode_prefix_check (m : N) : bool := mtree_mode_prefix (stat_to_filemode m) =? N.land m 511.
Lemma mtree_mode_prefix_sweep : forallb mtree_mode_prefix_check (all_below 16) = true.
Proof. vm_compute. reflexivity. Qed.
Lemma mtree_mode_prefix_refuted m : m < 2 ^ 16 -> mtree_mode_prefix (stat_to_filemode m) = N.land m 511.
Proof. intros Hm. apply N.eqb_eq. exact (sweep 16 _ mtree_mode_prefix_sweep m Hm). Qed.

(* %09d: always nine digits, and they read back as the number *)
Lemma dec_digits_length k : forall n, length (dec_digits k n) = k.
Proof. induction k as [|k IH]; intros n; cbn [dec_digits]; [reflexivity|]. rewrite app_length, IH. cbn. lia. Qed.

Lemma read_digits_app a d : read_digits (a ++ [d]) = 10 * read_digits a + d.
Proof. unfold read_digits. rewrite fold_left_app. reflexivity. Qed.

Lemma read_dec_digits k : forall n, read_digits (dec_digits k n) = n mod 10 ^ N.of_nat k.
Proof.
  induction k as [|k IH]; intros n.
  - cbn. now rewrite N.mod_1_r.
  - cbn [dec_digits]. rewrite read_digits_app, IH, Nat2N.inj_succ, N.pow_succ_r by lia.
    assert (Hp : 10 ^ N.of_nat k <> 0) by (apply N.pow_nonzero; lia).
    rewrite (N.mod_mul_r n 10 (10 ^ N.of_nat k)) by lia. lia.
Qed.

Lemma fmt_nsec_correct ns : ns < 10 ^ 9 -> length (fmt_nsec ns) = 9%nat /\ read_digits (fmt_nsec ns) = ns.
Proof.
  intros H. unfold fmt_nsec. split; [apply dec_digits_length|].
  rewrite read_dec_digits. apply N.mod_small. exact H.
Qed.
