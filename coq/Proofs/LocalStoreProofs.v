(* Lemmas about Model/LocalStore.v: names, format filters, GetChunk/HasChunk/StoreChunk. *)
From Coq Require Import List NArith Arith Bool Lia.
From DS Require Import Gen.Constants Base.Bytes Base.Hash Base.HexId Base.FS Model.LocalStore.
Import ListNotations.

(* ---------- strings ---------- *)

Lemma has_suffix_nil s : has_suffix s [] = true.
Proof.
  unfold has_suffix. cbn [length]. rewrite Nat.sub_0_r, skipn_all. reflexivity.
Qed.

Lemma trim_suffix_nil s : trim_suffix s [] = s.
Proof.
  unfold trim_suffix. rewrite has_suffix_nil. cbn [length]. rewrite Nat.sub_0_r. apply firstn_all.
Qed.

Lemma has_suffix_spec s e : has_suffix s e = true <-> exists x, s = x ++ e.
Proof.
  unfold has_suffix. rewrite andb_true_iff, Nat.leb_le, bytes_eqb_eq. split.
  - intros [L E]. exists (firstn (length s - length e) s). rewrite <- E at 2. symmetry. apply firstn_skipn.
  - intros [x ->]. rewrite app_length. split; [lia|].
    replace (length x + length e - length e) with (length x) by lia.
    rewrite skipn_app, skipn_all, Nat.sub_diag. reflexivity.
Qed.

Lemma has_suffix_app_inv a b e :
  has_suffix (a ++ b) e = true -> length e <= length b -> has_suffix b e = true.
Proof.
  unfold has_suffix. rewrite !andb_true_iff, !Nat.leb_le, !bytes_eqb_eq, app_length.
  intros [_ E] L. split; [exact L|]. rewrite skipn_app in E.
  rewrite skipn_all2 in E by lia. cbn [app] in E.
  replace (length a + length b - length e - length a) with (length b - length e) in E by lia. exact E.
Qed.

Lemma trim_suffix_app x e : trim_suffix (x ++ e) e = x.
Proof.
  unfold trim_suffix. replace (has_suffix (x ++ e) e) with true
    by (symmetry; apply has_suffix_spec; now exists x).
  rewrite app_length. replace (length x + length e - length e) with (length x) by lia.
  rewrite firstn_app, firstn_all, Nat.sub_diag. cbn. apply app_nil_r.
Qed.

Definition hexok (c : byte) : bool := match unhex_digit c with Some _ => true | None => false end.

Lemma Forall_hexok s : Forall (fun c => unhex_digit c <> None) s -> forallb hexok s = true.
Proof.
  induction 1 as [|c s Hc Hs IH]; [reflexivity|]. cbn [forallb]. rewrite IH, andb_true_r.
  unfold hexok. destruct (unhex_digit c); [reflexivity|congruence].
Qed.

Lemma lower_hex_hexok c : is_lower_hex c = true -> hexok c = true.
Proof.
  unfold is_lower_hex, hexok, unhex_digit. intros E.
  destruct ((48 <=? c)%N && (c <=? 57)%N); [reflexivity|].
  cbn [orb] in E. now rewrite E.
Qed.

(* ---------- facts about the generated constants (re-checked when const.go / local.go change) ---------- *)

Lemma unc_ext_empty : ext_of true = [].
Proof. reflexivity. Qed.

Lemma comp_ext_literal : ext_of false = [46; 99; 97; 99; 110; 107]%N.   (* ".cacnk" *)
Proof. reflexivity. Qed.

Lemma comp_ext_not_hex : forallb hexok (ext_of false) = false.
Proof. vm_compute. reflexivity. Qed.

Lemma comp_ext_short : length (ext_of false) <= 64.
Proof. vm_compute. lia. Qed.

Lemma tmp_prefix_not_hex : match tmpChunkPrefix_bytes with c :: _ => hexok c = false | [] => False end.
Proof. vm_compute. reflexivity. Qed.

Lemma ext_lengths_differ : length (ext_of true) <> length (ext_of false).
Proof. vm_compute. lia. Qed.

(* ---------- nameFromID ---------- *)

Lemma name_from_id_layout st i :
  exists d4 s64,
    name_from_id st i =
      (st_base st ++ [d4],
       (st_base st ++ [d4]) ++ [s64 ++ (if st_unc st then [] else [46; 99; 97; 99; 110; 107]%N)]) /\
    length d4 = 4 /\ length s64 = 64 /\ d4 = firstn 4 s64 /\
    forallb is_lower_hex s64 = true /\ (wf_id i -> unhex_id s64 = Some i).
Proof.
  exists (firstn 4 (hex_id i)), (hex_id i). split; [|split; [|split; [|split; [|split]]]].
  - unfold name_from_id. destruct (st_unc st); reflexivity.
  - rewrite firstn_length, hex_id_length. reflexivity.
  - apply hex_id_length.
  - reflexivity.
  - apply hex_id_lower.
  - apply unhex_hex_id.
Qed.

Lemma app_eq_len {A} (a b c d : list A) : a ++ b = c ++ d -> length a = length c -> a = c /\ b = d.
Proof.
  revert c. induction a as [|x a IH]; destruct c as [|y c]; cbn; intros E L; try discriminate.
  - now split.
  - inversion E; subst. destruct (IH c H1 ltac:(lia)) as [-> ->]. now split.
Qed.

Lemma name_from_id_inj base z z' k k' i i' : wf_id i -> wf_id i' ->
  snd (name_from_id (mkStore base z k) i) = snd (name_from_id (mkStore base z' k') i') ->
  i = i' /\ z = z'.
Proof.
  intros Wi Wi'. unfold name_from_id. cbn [snd st_base st_unc]. rewrite <- !app_assoc. intros E.
  apply app_inv_head in E. cbn [app] in E.
  assert (E64 := f_equal (fun l => nth 1 l []) E). cbn [nth] in E64. clear E.
  assert (Z : z = z').
  { apply (f_equal (@length byte)) in E64. rewrite !app_length, !hex_id_length in E64.
    destruct z, z'; try reflexivity; exfalso; apply ext_lengths_differ; lia. }
  subst z'. split; [|reflexivity].
  apply app_eq_len in E64; [|now rewrite !hex_id_length]. apply hex_id_inj; tauto.
Qed.

(* the own-format filter accepts the canonical name and yields the id back *)
Lemma chunk_file_id_canonical unc dstr i : wf_id i ->
  chunk_file_id unc (join_str dstr (hex_id i ++ ext_of unc)) (hex_id i ++ ext_of unc) = Some i.
Proof.
  intros Wi. unfold chunk_file_id, join_str.
  replace (has_suffix (dstr ++ slash :: hex_id i ++ ext_of unc) (ext_of unc)) with true.
  - rewrite trim_suffix_app. now apply unhex_hex_id.
  - symmetry. apply has_suffix_spec. exists (dstr ++ slash :: hex_id i).
    now rewrite <- app_assoc.
Qed.

(* ---------- the two formats are disjoint ---------- *)

Lemma formats_disjoint dstr nm i j :
  chunk_file_id false (join_str dstr nm) nm = Some i ->
  chunk_file_id true (join_str dstr nm) nm = Some j -> False.
Proof.
  unfold chunk_file_id. rewrite unc_ext_empty, has_suffix_nil, trim_suffix_nil.
  intros Ec Eu. destruct (unhex_id_some _ _ Eu) as [L F].
  destruct (has_suffix (join_str dstr nm) (ext_of false)) eqn:S; [|discriminate].
  unfold join_str in S. change (dstr ++ slash :: nm) with (dstr ++ [slash] ++ nm) in S.
  rewrite app_assoc in S. apply has_suffix_app_inv in S; [|rewrite L; apply comp_ext_short].
  apply has_suffix_spec in S. destruct S as [x ->].
  apply Forall_hexok in F. rewrite forallb_app, comp_ext_not_hex, andb_false_r in F. discriminate.
Qed.

Lemma firstn_head_hexok k c (x : bytes) :
  forallb hexok (firstn k (c :: x)) = true -> length (firstn k (c :: x)) = 64 -> hexok c = true.
Proof.
  destruct k; cbn [firstn forallb length]; [discriminate|]. intros F _.
  apply andb_true_iff in F. tauto.
Qed.

(* a temp file is never taken for a chunk, in either format *)
Lemma tmp_name_not_chunk unc pstr r : chunk_file_id unc pstr (tmp_name r) = None.
Proof.
  unfold chunk_file_id. destruct (has_suffix pstr (ext_of unc)); [|reflexivity].
  destruct (unhex_id (trim_suffix (tmp_name r) (ext_of unc))) eqn:E; [|reflexivity]. exfalso.
  destruct (unhex_id_some _ _ E) as [L F]. apply Forall_hexok in F.
  pose proof tmp_prefix_not_hex as T. unfold tmp_name in *.
  destruct tmpChunkPrefix_bytes as [|c t] eqn:P; [exact T|].
  unfold trim_suffix in F, L.
  destruct (has_suffix ((c :: t) ++ r) (ext_of unc)).
  - cbn [app] in F, L. rewrite (firstn_head_hexok _ _ _ F L) in T. discriminate.
  - cbn [app forallb] in F. rewrite T in F. discriminate.
Qed.

(* ---------- probe in terms of stat ---------- *)

Fixpoint sprefixes (p : path) : list path :=
  match p with
  | [] => []
  | nm :: rest => [] :: map (cons nm) (sprefixes rest)
  end.

Definition nondir (o : option ent) : bool :=
  match o with Some (EDir _) => false | Some _ => true | None => false end.
Definition isnone {A} (o : option A) : bool := match o with None => true | Some _ => false end.

Lemma existsb_map {A B} (f : B -> bool) (g : A -> B) l : existsb f (map g l) = existsb (fun x => f (g x)) l.
Proof. induction l; cbn; [reflexivity|]. now rewrite IHl. Qed.

Lemma existsb_ext' {A} (f g : A -> bool) l : (forall x, In x l -> f x = g x) -> existsb f l = existsb g l.
Proof.
  induction l as [|a l IH]; cbn; intros E; [reflexivity|]. rewrite (E a) by now left.
  rewrite IH; [reflexivity|]. intros x I. apply E. now right.
Qed.

Lemma stat_cons_dir nm q m l : stat (nm :: q) (Dir m l) = stat_opt q (assoc nm l).
Proof. unfold stat, stat_opt. now rewrite lookup_cons. Qed.

Lemma stat_cons_nondir nm q s : (forall m l, s <> Dir m l) -> stat (nm :: q) s = None.
Proof. intros N. unfold stat. rewrite lookup_cons. destruct s; try reflexivity. exfalso. eapply N; eauto. Qed.

Lemma probe_char p : forall s,
  probe p s = match stat p s with
              | Some e => Ok e
              | None => Err (if existsb (fun q => nondir (stat q s)) (sprefixes p) then ENOTDIR else ENOENT)
              end.
Proof.
  induction p as [|nm rest IH]; intros s; [reflexivity|].
  destruct s as [m l|m b|m t].
  - rewrite stat_cons_dir. unfold probe. cbn [resolve sprefixes existsb].
    change (nondir (stat [] (Dir m l))) with false. cbn [orb]. rewrite existsb_map.
    destruct (assoc nm l) as [c|] eqn:A.
    + specialize (IH c). unfold probe in IH. rewrite IH. unfold stat_opt, lookup_opt. fold (stat rest c).
      destruct (stat rest c); [reflexivity|].
      rewrite (existsb_ext' (fun x => nondir (stat (nm :: x) (Dir m l))) (fun q => nondir (stat q c))); [reflexivity|].
      intros x _. now rewrite stat_cons_dir, A.
    + cbn. rewrite (existsb_ext' _ (fun _ => false)).
      * clear IH. induction (sprefixes rest) as [|y ys IHy]; [reflexivity|exact IHy].
      * intros x _. now rewrite stat_cons_dir, A.
  - rewrite stat_cons_nondir by congruence. reflexivity.
  - rewrite stat_cons_nondir by congruence. reflexivity.
Qed.

Lemma in_sprefixes_length q p : In q (sprefixes p) -> length q < length p.
Proof.
  revert q. induction p as [|nm rest IH]; intros q I; [destruct I|]. cbn [sprefixes] in I.
  destruct I as [<-|I]; [cbn; lia|]. apply in_map_iff in I. destruct I as (x & <- & I).
  specialize (IH _ I). cbn. lia.
Qed.

Lemma in_prefixes_length q p : In q (prefixes p) -> length q <= length p.
Proof.
  revert q. induction p as [|nm rest IH]; intros q I; [destruct I|]. cbn [prefixes] in I.
  destruct I as [<-|I]; [cbn; lia|]. apply in_map_iff in I. destruct I as (x & <- & I).
  specialize (IH _ I). cbn. lia.
Qed.

Lemma existsb_path_false q ps : (forall x, In x ps -> x <> q) -> existsb (path_eqb q) ps = false.
Proof.
  intros N. destruct (existsb (path_eqb q) ps) eqn:E; [|reflexivity].
  apply existsb_exists in E. destruct E as (x & I & E). apply path_eqb_eq in E. subst x.
  exfalso. exact (N q I eq_refl).
Qed.

(* probe only depends on stat at the path and on which strict prefixes are non-directories *)
Lemma probe_ext p s s' :
  stat p s' = stat p s ->
  (forall q, In q (sprefixes p) -> nondir (stat q s') = nondir (stat q s)) ->
  probe p s' = probe p s.
Proof.
  intros E1 E2. rewrite !probe_char, E1. now rewrite (existsb_ext' _ _ _ E2).
Qed.

(* Stat/Open follow a final symbolic link; where the path is not a link they are lstat *)
Definition not_link (r : res ent) : Prop := match r with Ok (ELink _ _) => False | _ => True end.

Lemma probe_f_eq p s : not_link (probe p s) -> probe_f p s = probe p s.
Proof.
  unfold probe_f. cbn [probe_follow]. destruct (probe p s) as [[m|m b|m t]|e]; cbn [not_link]; try reflexivity.
  intros [].
Qed.

Lemma probe_of_stat p s e : stat p s = Some e -> probe p s = Ok e.
Proof. intros S. now rewrite probe_char, S. Qed.

Lemma probe_f_file p s m b : stat p s = Some (EFile m b) -> probe_f p s = Ok (EFile m b).
Proof. intros S. rewrite probe_f_eq; rewrite (probe_of_stat _ _ _ S); [reflexivity|exact I]. Qed.

Lemma not_link_of_stat_none p s : stat p s = None -> not_link (probe p s).
Proof. intros S. rewrite probe_char, S. exact I. Qed.

(* ---------- MkdirAll as a list of ensure_dir steps ---------- *)

Lemma ensure_dir_ok_cases p s s' : ensure_dir p s = Ok s' -> is_dir (stat p s) = true \/ stat p s = None.
Proof.
  unfold ensure_dir, stat, lookup. destruct (resolve p s) as [[m l|m b|m t]|e]; try discriminate.
  - now left.
  - now right.
Qed.

Lemma stat_ensure_dir' p s s' : ensure_dir p s = Ok s' ->
  forall q, stat q s' = if path_eqb q p && isnone (stat p s) then Some (EDir meta0) else stat q s.
Proof.
  intros E q. rewrite (stat_ensure_dir _ _ _ E). destruct (ensure_dir_ok_cases _ _ _ E) as [D|N].
  - rewrite D. destruct (stat p s); [|discriminate]. cbn. now rewrite andb_false_r.
  - now rewrite N.
Qed.

Lemma run_ensure_stat ps : forall s s1, run_ops (map OpEnsureDir ps) s = (s1, None) ->
  forall q, stat q s1 = if existsb (path_eqb q) ps && isnone (stat q s) then Some (EDir meta0) else stat q s.
Proof.
  induction ps as [|p ps IH]; intros s s1 R q; cbn [map run_ops] in R.
  - inversion R. reflexivity.
  - cbn [exec] in R. destruct (ensure_dir p s) as [s0|e] eqn:E; [|discriminate].
    rewrite (IH _ _ R q), !(stat_ensure_dir' _ _ _ E). cbn [existsb].
    destruct (path_eqb q p) eqn:Q.
    + apply path_eqb_eq in Q. subst q. cbn [andb orb].
      destruct (stat p s); cbn; [now rewrite andb_false_r|]. now rewrite andb_false_r.
    + cbn [andb orb]. reflexivity.
Qed.

Lemma create_tmp_some d rs : forall s r s2,
  create_tmp d rs s = (Some r, Ok s2) -> create_excl (d ++ [tmp_name r]) s = Ok s2.
Proof.
  induction rs as [|r0 rs IH]; intros s r s2 E; cbn [create_tmp] in E; [discriminate|].
  destruct (create_excl (d ++ [tmp_name r0]) s) as [x|e] eqn:C.
  - inversion E; subst. exact C.
  - destruct e; try discriminate. now apply IH.
Qed.

Lemma tmp_name_neq_chunk_name r i unc : tmp_name r <> hex_id i ++ ext_of unc.
Proof.
  intros E. pose proof tmp_prefix_not_hex as T. unfold tmp_name in E.
  pose proof (hex_id_length i) as L. pose proof (hex_id_lower i) as W.
  destruct tmpChunkPrefix_bytes as [|c t]; [exact T|]. destruct (hex_id i) as [|h x]; [discriminate|].
  cbn [app] in E. inversion E; subst. cbn [forallb] in W. apply andb_true_iff in W.
  destruct W as [W _]. apply lower_hex_hexok in W. congruence.
Qed.

Lemma name_from_id_shape st i : exists nm,
  name_from_id st i = (st_base st ++ [firstn 4 (hex_id i)], (st_base st ++ [firstn 4 (hex_id i)]) ++ [nm]) /\
  nm = hex_id i ++ ext_of (st_unc st).
Proof. eexists. split; reflexivity. Qed.

Section StoreProofs.
  Variable H : bytes -> id.
  Variable zcomp zdecomp : bytes -> option bytes.

  Notation store_chunk := (store_chunk zcomp).
  Notation get_chunk := (get_chunk H zdecomp).
  Notation get_data := (get_data H zdecomp).

  (* what a successful StoreChunk does to the tree, path by path *)
  Lemma store_chunk_stat st rs i plain s s' :
    store_chunk st rs i plain s = (s', None) ->
    exists b, plain <> [] /\ to_storage zcomp (st_unc st) plain = Some b /\
      forall q, stat q s' =
        if path_eqb q (snd (name_from_id st i)) then Some (EFile meta0 b)
        else if existsb (path_eqb q) (prefixes (fst (name_from_id st i))) && isnone (stat q s)
             then Some (EDir meta0) else stat q s.
  Proof.
    unfold LocalStore.store_chunk. destruct plain as [|x0 plain0] eqn:P; [discriminate|]. rewrite <- P.
    destruct (to_storage zcomp (st_unc st) plain) as [b|] eqn:TS; [|discriminate].
    destruct (name_from_id_shape st i) as (nm & N & Enm). rewrite N. cbn [fst snd].
    set (d := st_base st ++ [firstn 4 (hex_id i)]) in *.
    unfold store_ops_pre.
    destruct (run_ops (map OpEnsureDir (prefixes d)) s) as [s1 [e|]] eqn:R1; [discriminate|].
    destruct (create_tmp d (firstn max_attempts rs) s1) as [[r|] [s2|e]] eqn:CT; try discriminate.
    apply create_tmp_some in CT. set (tmp := d ++ [tmp_name r]) in *.
    unfold store_ops_post. cbn [run_ops exec].
    destruct (write_file tmp b s2) as [s3|e] eqn:W; [|discriminate].
    destruct (rename tmp (d ++ [nm]) s3) as [s4|e] eqn:RN; [|discriminate].
    intros E. inversion E; subst s4. clear E.
    exists b. split; [subst plain; discriminate|]. split; [reflexivity|].
    pose proof (run_ensure_stat _ _ _ R1) as S1.
    destruct (stat_create_excl _ _ _ CT) as [T1 S2].
    destruct (stat_write_file _ _ _ _ W) as (m & old & T2 & S3).
    rewrite S2, path_eqb_refl in T2. inversion T2; subst m old. clear T2.
    assert (NE : tmp <> d ++ [nm]).
    { unfold tmp. intros X. apply app_inv_head in X. inversion X as [X1].
      rewrite Enm in X1. exact (tmp_name_neq_chunk_name _ _ _ X1). }
    assert (T3 : stat tmp s3 = Some (EFile meta0 b)) by (rewrite S3, path_eqb_refl; reflexivity).
    pose proof (stat_rename_leaf _ _ _ _ RN NE ltac:(eexists; exact T3) ltac:(now rewrite T3)) as S4.
    assert (TP : existsb (path_eqb tmp) (prefixes d) = false).
    { apply existsb_path_false. intros x I X. rewrite X in I. apply in_prefixes_length in I.
      unfold tmp in I. rewrite app_length in I. cbn in I. lia. }
    intros q. rewrite S4, T3. destruct (path_eqb q (d ++ [nm])) eqn:Q1; [reflexivity|].
    destruct (path_eqb q tmp) eqn:Q2.
    - apply path_eqb_eq in Q2. subst q. rewrite TP. cbn [andb].
      rewrite S1, TP in T1. cbn [andb] in T1. now rewrite T1.
    - rewrite S3, Q2, S2, Q2. apply S1.
  Qed.

  (* the object on disk is toStorage(format, plain data) -- nothing else about the chunk enters *)
  Lemma store_chunk_object st rs i plain s s' :
    store_chunk st rs i plain s = (s', None) ->
    exists b, to_storage zcomp (st_unc st) plain = Some b /\
              stat (snd (name_from_id st i)) s' = Some (EFile meta0 b) /\
              (st_unc st = true -> b = plain) /\ (st_unc st = false -> zcomp plain = Some b).
  Proof.
    intros E. destruct (store_chunk_stat _ _ _ _ _ _ E) as (b & _ & TS & S). exists b. split; [exact TS|].
    split; [now rewrite S, path_eqb_refl|]. unfold to_storage in TS.
    split; intros U; rewrite U in TS; [now inversion TS|exact TS].
  Qed.

  (* paths of the same depth as the stored chunk's path, other than it, probe as before *)
  Lemma store_chunk_probe_frame st rs i plain s s' t :
    store_chunk st rs i plain s = (s', None) ->
    length t = length (snd (name_from_id st i)) -> t <> snd (name_from_id st i) ->
    probe t s' = probe t s.
  Proof.
    intros E L N. destruct (store_chunk_stat _ _ _ _ _ _ E) as (b & _ & _ & SS).
    destruct (name_from_id_shape st i) as (nm & NS & _). rewrite NS in *. cbn [fst snd] in *.
    set (d := st_base st ++ [firstn 4 (hex_id i)]) in *.
    assert (Ld : length (d ++ [nm]) = S (length d)) by (rewrite app_length; cbn; lia).
    apply probe_ext.
    - rewrite SS. replace (path_eqb t (d ++ [nm])) with false by (symmetry; now apply path_eqb_neq).
      rewrite existsb_path_false; [reflexivity|]. intros x I <-. apply in_prefixes_length in I. lia.
    - intros q I. apply in_sprefixes_length in I. rewrite SS.
      replace (path_eqb q (d ++ [nm])) with false
        by (symmetry; apply path_eqb_neq; intros ->; lia).
      destruct (existsb (path_eqb q) (prefixes d) && isnone (stat q s)) eqn:C; [|reflexivity].
      apply andb_true_iff in C. destruct C as [_ C]. destruct (stat q s); [discriminate|reflexivity].
  Qed.

  Lemma name_length st i : length (snd (name_from_id st i)) = S (S (length (st_base st))).
  Proof. unfold name_from_id. cbn [snd]. rewrite !app_length. cbn. lia. Qed.

  (* Any other (id, format) of a store with the same base is served exactly as before. *)
  Lemma store_chunk_frame st rs i plain s s' st2 j :
    store_chunk st rs i plain s = (s', None) ->
    st_base st2 = st_base st -> wf_id j -> wf_id i ->
    (j <> i \/ st_unc st2 <> st_unc st) ->
    not_link (probe (snd (name_from_id st2 j)) s) ->
    get_chunk st2 j s' = get_chunk st2 j s /\ has_chunk st2 j s' = has_chunk st2 j s /\
    get_data st2 j s' = get_data st2 j s.
  Proof.
    intros E B Wj Wi D NL.
    assert (P : probe (snd (name_from_id st2 j)) s' = probe (snd (name_from_id st2 j)) s).
    { apply (store_chunk_probe_frame _ _ _ _ _ _ _ E).
      - rewrite !name_length. now rewrite B.
      - intros X. destruct st as [b1 z1 k1], st2 as [b2 z2 k2]. cbn [st_base st_unc] in *. subst b2.
        apply name_from_id_inj in X; [|exact Wj|exact Wi]. destruct X as [-> ->]. destruct D; congruence. }
    assert (PF : probe_f (snd (name_from_id st2 j)) s' = probe_f (snd (name_from_id st2 j)) s)
      by (rewrite !probe_f_eq; [exact P|exact NL|rewrite P; exact NL]).
    unfold LocalStore.get_data, LocalStore.get_chunk, has_chunk, read_file. rewrite PF. repeat split; reflexivity.
  Qed.

  (* RemoveChunk through a store of one (id, format) changes nothing that a store on the same directory
     serves for any other (id, format) *)
  Lemma remove_chunk_frame st j s s' st2 i :
    remove_chunk st j s = RmOk s' ->
    st_base st2 = st_base st -> wf_id i -> wf_id j ->
    (i <> j \/ st_unc st2 <> st_unc st) ->
    not_link (probe (snd (name_from_id st2 i)) s) ->
    get_chunk st2 i s' = get_chunk st2 i s /\ has_chunk st2 i s' = has_chunk st2 i s.
  Proof.
    unfold remove_chunk. set (p := snd (name_from_id st j)).
    destruct (probe_f p s) as [en|e]; [|discriminate].
    destruct (remove p s) as [s1|e] eqn:R; [|discriminate]. intros E B Wi Wj D NL. inversion E; subst s1. clear E.
    assert (U : forall q, stat q s' = if path_eqb q p then None else stat q s).
    { unfold remove in R. destruct (resolve p s) as [[m l|m b|m t]|e] eqn:RS;
        try (intros q; apply (proj2 (stat_unlink _ _ _ R))).
      unfold rmdir in R. destruct (stat_upd_point _ _ _ _ R) as (r & F & _ & P).
      assert (L : lookup p s = Some (Dir m l)) by (unfold lookup; now rewrite RS). rewrite L in F, P.
      destruct l; [|discriminate]. inversion F; subst r. apply P; exact I. }
    assert (N : snd (name_from_id st2 i) <> p).
    { intros X. destruct st as [b1 z1 k1], st2 as [b2 z2 k2]. cbn [st_base st_unc] in *. subst b2.
      apply name_from_id_inj in X; [|exact Wi|exact Wj]. destruct X as [-> ->]. destruct D; congruence. }
    assert (P : probe (snd (name_from_id st2 i)) s' = probe (snd (name_from_id st2 i)) s).
    { apply probe_ext.
      - rewrite U. replace (path_eqb (snd (name_from_id st2 i)) p) with false; [reflexivity|].
        symmetry. now apply path_eqb_neq.
      - intros q I. apply in_sprefixes_length in I. rewrite U.
        replace (path_eqb q p) with false; [reflexivity|]. symmetry. apply path_eqb_neq. intros ->.
        unfold p in I. rewrite !name_length, B in I. lia. }
    assert (PF : probe_f (snd (name_from_id st2 i)) s' = probe_f (snd (name_from_id st2 i)) s)
      by (rewrite !probe_f_eq; [exact P|exact NL|rewrite P; exact NL]).
    unfold LocalStore.get_chunk, has_chunk, read_file. rewrite PF. split; reflexivity.
  Qed.

  Hypothesis z_law : forall x b, zcomp x = Some b -> zdecomp b = Some x.
  Hypothesis z_nonempty : forall x b, zcomp x = Some b -> b <> [].

  (* GetChunk (StoreChunk c) = c *)
  Lemma store_chunk_roundtrip st rs i plain s s' :
    store_chunk st rs i plain s = (s', None) -> (i = H plain \/ st_skip st = true) ->
    exists b, to_storage zcomp (st_unc st) plain = Some b /\
              get_chunk st i s' = GetOk b /\ get_data st i s' = Some plain /\
              has_chunk st i s' = HasYes.
  Proof.
    intros E HI. destruct (store_chunk_stat _ _ _ _ _ _ E) as (b & NE & TS & S). exists b. split; [exact TS|].
    assert (P : probe_f (snd (name_from_id st i)) s' = Ok (EFile meta0 b)).
    { apply probe_f_file. now rewrite S, path_eqb_refl. }
    assert (SD : storage_data zdecomp (st_unc st) b = Some plain).
    { unfold storage_data, to_storage, from_storage in *. destruct (st_unc st).
      - inversion TS; subst b. destruct plain; [congruence|reflexivity].
      - pose proof (z_nonempty _ _ TS). destruct b; [congruence|]. now apply z_law. }
    assert (G : get_chunk st i s' = GetOk b).
    { unfold LocalStore.get_chunk, read_file. rewrite P. unfold new_chunk_from_storage.
      rewrite SD. destruct HI as [->| ->]; [|reflexivity]. rewrite N.eqb_refl. now destruct (st_skip st). }
    split; [exact G|]. split.
    - unfold LocalStore.get_data. now rewrite G.
    - unfold has_chunk. now rewrite P.
  Qed.

  (* a verifying store accepts an object only if its data can be produced and hashes to the id *)
  Lemma new_chunk_ok_valid i b unc : new_chunk_from_storage H zdecomp i b unc false = GetOk b ->
    exists d, storage_data zdecomp unc b = Some d /\ H d = i.
  Proof.
    unfold new_chunk_from_storage. destruct (storage_data zdecomp unc b) as [d|]; [|discriminate].
    destruct (N.eqb (H d) i) eqn:E; [|discriminate]. intros _. exists d. split; [reflexivity|now apply N.eqb_eq].
  Qed.

  Lemma get_chunk_ok_valid st i s b : st_skip st = false -> get_chunk st i s = GetOk b ->
    exists d, storage_data zdecomp (st_unc st) b = Some d /\ H d = i.
  Proof.
    intros K. unfold LocalStore.get_chunk. destruct (read_file _ s) as [c|]; [|discriminate]. rewrite K.
    intros E. assert (c = b). { unfold new_chunk_from_storage in E. destruct (storage_data zdecomp (st_unc st) c); [|discriminate]. destruct (N.eqb (H b0) i); inversion E; reflexivity. }
    subst c. now apply new_chunk_ok_valid.
  Qed.
End StoreProofs.

(* ---------- HTTPHandler.idFromPath ---------- *)

Lemma http_path_rule comp p i : http_id_from_path comp p = Some i ->
  exists sid, p = slash :: firstn 4 sid ++ slash :: sid ++ ext_of (negb comp) /\ unhex_id sid = Some i.
Proof.
  unfold http_id_from_path. destruct p as [|s rest]; [discriminate|].
  destruct (N.eqb s slash) eqn:S; [|discriminate]. apply N.eqb_eq in S. subst s. cbn [andb].
  destruct (4 <=? length rest) eqn:L; [|discriminate]. apply Nat.leb_le in L.
  destruct (skipn 4 rest) as [|s2 nm] eqn:K; [discriminate|].
  destruct (N.eqb s2 slash) eqn:S2; [|discriminate]. apply N.eqb_eq in S2. subst s2. cbn [andb].
  destruct (has_suffix nm (ext_of (negb comp))) eqn:Hs; [|discriminate]. cbn [andb].
  destruct (negb (negb comp && has_suffix (slash :: rest) CompressedChunkExt_bytes)); [|discriminate].
  destruct (bytes_eqb (firstn 4 (trim_suffix nm (ext_of (negb comp)))) (firstn 4 rest)) eqn:E; [|discriminate].
  apply bytes_eqb_eq in E. intros U. apply has_suffix_spec in Hs. destruct Hs as [sid ->].
  rewrite trim_suffix_app in *. exists sid. split; [|exact U].
  rewrite E. f_equal. rewrite <- (firstn_skipn 4 rest) at 1. now rewrite K.
Qed.

Lemma http_paths_disjoint p i j : http_id_from_path true p = Some i -> http_id_from_path false p = Some j -> False.
Proof.
  intros A B. apply http_path_rule in A. apply http_path_rule in B.
  destruct A as (sa & Pa & Ua), B as (sb & Pb & Ub). cbn [negb] in *. rewrite unc_ext_empty, app_nil_r in Pb.
  destruct (unhex_id_some _ _ Ua) as [La _]. destruct (unhex_id_some _ _ Ub) as [Lb _].
  assert (Fa : length (firstn 4 sa) = 4) by (rewrite firstn_length; lia).
  assert (Fb : length (firstn 4 sb) = 4) by (rewrite firstn_length; lia).
  assert (E : firstn 4 sa ++ slash :: sa ++ ext_of false = firstn 4 sb ++ slash :: sb)
    by (rewrite Pa in Pb; exact (f_equal (@tl byte) Pb)).
  apply app_eq_len in E; [|congruence]. destruct E as [_ E]. apply (f_equal (@tl byte)) in E. cbn [tl] in E.
  apply (f_equal (@length byte)) in E. rewrite app_length, La, Lb in E.
  pose proof ext_lengths_differ as D. rewrite unc_ext_empty in D. cbn [length] in D. lia.
Qed.

Lemma http_path_accepts_canonical comp i : wf_id i ->
  http_id_from_path comp (slash :: firstn 4 (hex_id i) ++ slash :: hex_id i ++ ext_of (negb comp)) = Some i.
Proof.
  intros W. unfold http_id_from_path. rewrite N.eqb_refl. cbn [andb].
  assert (L4 : length (firstn 4 (hex_id i)) = 4) by (rewrite firstn_length, hex_id_length; reflexivity).
  replace (4 <=? length (firstn 4 (hex_id i) ++ slash :: hex_id i ++ ext_of (negb comp))) with true
    by (symmetry; apply Nat.leb_le; rewrite app_length; lia).
  rewrite skipn_app, L4, Nat.sub_diag, skipn_all2 by lia. cbn [app skipn]. rewrite N.eqb_refl. cbn [andb].
  replace (has_suffix (hex_id i ++ ext_of (negb comp)) (ext_of (negb comp))) with true
    by (symmetry; apply has_suffix_spec; now exists (hex_id i)).
  cbn [andb]. rewrite trim_suffix_app.
  rewrite firstn_app, L4, Nat.sub_diag, firstn_O, app_nil_r, firstn_firstn.
  change (Nat.min 4 4) with 4. rewrite bytes_eqb_refl.
  destruct comp; cbn [negb andb].
  - now apply unhex_hex_id.
  - rewrite unc_ext_empty, app_nil_r.
    replace (has_suffix (slash :: firstn 4 (hex_id i) ++ slash :: hex_id i) CompressedChunkExt_bytes) with false.
    + now apply unhex_hex_id.
    + symmetry. destruct (has_suffix _ CompressedChunkExt_bytes) eqn:Hs; [exfalso|reflexivity].
      replace (slash :: firstn 4 (hex_id i) ++ slash :: hex_id i) with ((slash :: firstn 4 (hex_id i) ++ [slash]) ++ hex_id i) in Hs
        by (cbn [app]; rewrite <- app_assoc; reflexivity).
      apply has_suffix_app_inv in Hs; [|rewrite hex_id_length; apply comp_ext_short].
      apply has_suffix_spec in Hs. destruct Hs as [x Hx].
      pose proof (hex_id_lower i) as Lw. rewrite Hx, forallb_app in Lw. apply andb_true_iff in Lw. destruct Lw as [_ Lw].
      assert (F : forallb hexok (ext_of false) = true).
      { change CompressedChunkExt_bytes with (ext_of false) in Lw. rewrite forallb_forall in *. intros c I. apply lower_hex_hexok, Lw, I. }
      rewrite comp_ext_not_hex in F. discriminate.
Qed.
