(* Lemmas about Model/HTTPClient.v (C14): the retry loop and the status mapping. *)
From Coq Require Import List NArith Arith Bool Lia ZifyN ZifyNat ZifyBool.
From DS Require Import Gen.Constants Base.Bytes Base.Hash Base.Hex Base.GoPath
     Model.HTTPServer Model.HTTPClient Proofs.HTTPServerProofs.
Import ListNotations.
Local Open Scope N_scope.

(* the budget formula of the code: attempts never exceed max(1, ErrorRetry) *)
Definition max_attempts (budget : N) : N := N.max 1 budget.

Definition retry_at (rs : nat -> resp_ev) (k : N) : bool := retryable (issue_once (rs (N.to_nat k))).

(* the first [n] responses from attempt [a] on are retryable, the next one is not *)
Lemma retry_loop_stop rs budget : forall n fuel a,
  (forall j, a <= j < a + N.of_nat n -> retry_at rs j = true) ->
  retry_at rs (a + N.of_nat n) = false ->
  a + N.of_nat n < max_attempts budget -> (n < fuel)%nat ->
  retry_loop fuel budget a rs = Some (issue_once (rs (N.to_nat (a + N.of_nat n))), a + N.of_nat n + 1).
Proof.
  unfold retry_at, max_attempts. induction n as [|n IH]; intros fuel a Hre Hstop Hlt Hfuel.
  - destruct fuel as [|fuel]; [lia|]. cbn [retry_loop].
    replace (a + 1 - 1) with a by lia. replace (a + N.of_nat 0) with a in * by lia.
    rewrite Hstop. reflexivity.
  - destruct fuel as [|fuel]; [lia|]. cbn [retry_loop].
    replace (a + 1 - 1) with a by lia. rewrite (Hre a) by lia.
    replace (budget <=? a + 1) with false by lia.
    replace (a + N.of_nat (S n)) with (a + 1 + N.of_nat n) in * by lia.
    rewrite (IH fuel (a + 1)).
    + reflexivity.
    + intros j Hj. apply Hre. lia.
    + exact Hstop.
    + lia.
    + lia.
Qed.

(* every response up to the budget is retryable: the loop gives up at max(1, budget) *)
Lemma retry_loop_exhaust rs budget : forall n fuel a,
  a + N.of_nat n + 1 = max_attempts budget ->
  (forall j, a <= j < max_attempts budget -> retry_at rs j = true) ->
  (n < fuel)%nat ->
  retry_loop fuel budget a rs =
  Some (give_up (issue_once (rs (N.to_nat (max_attempts budget - 1)))), max_attempts budget).
Proof.
  unfold retry_at, max_attempts. induction n as [|n IH]; intros fuel a Ha Hre Hfuel.
  - destruct fuel as [|fuel]; [lia|]. cbn [retry_loop].
    replace (a + 1 - 1) with a by lia. rewrite (Hre a) by lia.
    replace (budget <=? a + 1) with true by lia.
    replace (N.max 1 budget - 1) with a by lia. replace (N.max 1 budget) with (a + 1) by lia. reflexivity.
  - destruct fuel as [|fuel]; [lia|]. cbn [retry_loop].
    replace (a + 1 - 1) with a by lia. rewrite (Hre a) by lia.
    replace (budget <=? a + 1) with false by lia.
    apply IH; [lia| |lia]. intros j Hj. apply Hre. lia.
Qed.

(* first non-retryable position below a bound, or none *)
Fixpoint first_stop (rs : nat -> resp_ev) (a : N) (n : nat) : option N :=
  match n with
  | O => None
  | S n' => if retry_at rs a then first_stop rs (a + 1) n' else Some a
  end.

Lemma first_stop_some rs : forall n a k,
  first_stop rs a n = Some k ->
  a <= k < a + N.of_nat n /\ retry_at rs k = false /\ forall j, a <= j < k -> retry_at rs j = true.
Proof.
  induction n as [|n IH]; intros a k E; [discriminate|]. cbn [first_stop] in E.
  destruct (retry_at rs a) eqn:Ea.
  - apply IH in E as [H1 [H2 H3]]. split; [lia|]. split; [exact H2|].
    intros j Hj. destruct (N.eq_dec j a) as [->|Hn]; [exact Ea|]. apply H3. lia.
  - injection E as <-. split; [lia|]. split; [exact Ea|]. intros j Hj. lia.
Qed.

Lemma first_stop_none rs : forall n a,
  first_stop rs a n = None -> forall j, a <= j < a + N.of_nat n -> retry_at rs j = true.
Proof.
  induction n as [|n IH]; intros a E j Hj; [lia|]. cbn [first_stop] in E.
  destruct (retry_at rs a) eqn:Ea; [|discriminate].
  destruct (N.eq_dec j a) as [->|Hn]; [exact Ea|]. apply (IH (a + 1)); [exact E|lia].
Qed.

(* complete description of IssueRetryableHttpRequest *)
Definition issue_spec (budget : N) (rs : nat -> resp_ev) : hres * N :=
  match first_stop rs 0 (N.to_nat (max_attempts budget)) with
  | Some k => (issue_once (rs (N.to_nat k)), k + 1)
  | None => (give_up (issue_once (rs (N.to_nat (max_attempts budget - 1)))), max_attempts budget)
  end.

Lemma issue_retryable_spec budget rs : issue_retryable budget rs = issue_spec budget rs.
Proof.
  unfold issue_retryable, issue_spec, retry_fuel.
  destruct (first_stop rs 0 (N.to_nat (max_attempts budget))) as [k|] eqn:E.
  - apply first_stop_some in E as [H1 [H2 H3]].
    rewrite (retry_loop_stop rs budget (N.to_nat k) _ 0).
    + replace (0 + N.of_nat (N.to_nat k)) with k by lia. reflexivity.
    + intros j Hj. apply H3. lia.
    + replace (0 + N.of_nat (N.to_nat k)) with k by lia. exact H2.
    + lia.
    + unfold max_attempts in *. lia.
  - pose proof (first_stop_none _ _ _ E) as Hall.
    rewrite (retry_loop_exhaust rs budget (N.to_nat (max_attempts budget - 1)) _ 0).
    + reflexivity.
    + unfold max_attempts. lia.
    + intros j Hj. apply Hall. lia.
    + unfold max_attempts. lia.
Qed.

(* the fuel handed to the loop always suffices *)
Lemma retry_loop_fuel budget rs : retry_loop (retry_fuel budget) budget 0 rs <> None.
Proof.
  pose proof (issue_retryable_spec budget rs) as Hs. unfold issue_retryable, issue_spec, retry_fuel in *.
  destruct (first_stop rs 0 (N.to_nat (max_attempts budget))) as [k|] eqn:E.
  - apply first_stop_some in E as [H1 [H2 H3]].
    rewrite (retry_loop_stop rs budget (N.to_nat k) _ 0); [discriminate| | | |].
    + intros j Hj. apply H3. lia.
    + replace (0 + N.of_nat (N.to_nat k)) with k by lia. exact H2.
    + lia.
    + unfold max_attempts in *. lia.
  - pose proof (first_stop_none _ _ _ E) as Hall.
    rewrite (retry_loop_exhaust rs budget (N.to_nat (max_attempts budget - 1)) _ 0); [discriminate| | |].
    + unfold max_attempts. lia.
    + intros j Hj. apply Hall. lia.
    + unfold max_attempts. lia.
Qed.

(* retry_bound *)
Lemma retry_bound budget rs :
  1 <= snd (issue_retryable budget rs) <= max_attempts budget.
Proof.
  rewrite issue_retryable_spec. unfold issue_spec.
  destruct (first_stop rs 0 (N.to_nat (max_attempts budget))) as [k|] eqn:E; cbn [snd].
  - apply first_stop_some in E as [H1 _]. lia.
  - unfold max_attempts. lia.
Qed.

(* retry_transparent *)
Lemma retry_transparent budget rs k :
  k < max_attempts budget ->
  (forall j, j < k -> retry_at rs j = true) -> retry_at rs k = false ->
  issue_retryable budget rs = (issue_once (rs (N.to_nat k)), k + 1).
Proof.
  intros Hk Hre Hstop. unfold issue_retryable, retry_fuel.
  rewrite (retry_loop_stop rs budget (N.to_nat k) _ 0).
  - replace (0 + N.of_nat (N.to_nat k)) with k by lia. reflexivity.
  - intros j Hj. apply Hre. lia.
  - replace (0 + N.of_nat (N.to_nat k)) with k by lia. exact Hstop.
  - lia.
  - unfold max_attempts in *. lia.
Qed.

(* retry_exhausted *)
Lemma retry_exhausted budget rs :
  (forall j, j < max_attempts budget -> retry_at rs j = true) ->
  issue_retryable budget rs =
  (give_up (issue_once (rs (N.to_nat (max_attempts budget - 1)))), max_attempts budget).
Proof.
  intros Hall. unfold issue_retryable, retry_fuel.
  rewrite (retry_loop_exhaust rs budget (N.to_nat (max_attempts budget - 1)) _ 0).
  - reflexivity.
  - unfold max_attempts. lia.
  - intros j Hj. apply Hall. lia.
  - unfold max_attempts. lia.
Qed.

(* a given-up request is never a success and never "missing" *)
Lemma give_up_class h : retryable h = true ->
  give_up h = HErr \/ give_up h = HStatus 0 [].
Proof. destruct h; cbn; auto. Qed.

(* ---------- status mapping ---------- *)

(* classification of one final (non-retryable) response by the three client operations *)
Definition obj_of (h : hres) : obj_result :=
  match h with
  | HErr => ObjErr
  | HStatus st b => if st =? 200 then ObjData b else if st =? 404 then ObjMissing else ObjErr
  end.
Definition has_of (h : hres) : has_res :=
  match h with
  | HErr => HasErr
  | HStatus st _ => if st =? 200 then HasTrue else if st =? 404 then HasFalse else HasErr
  end.
Definition put_of (h : hres) : bool :=
  match h with HErr => false | HStatus st _ => (st =? 200) || (st =? 201) end.

Lemma get_object_eq budget rs :
  get_object budget rs = (obj_of (fst (issue_retryable budget rs)), snd (issue_retryable budget rs)).
Proof. unfold get_object. destruct (issue_retryable budget rs) as [h n]. reflexivity. Qed.
Lemma has_chunk_eq budget rs :
  has_chunk budget rs = (has_of (fst (issue_retryable budget rs)), snd (issue_retryable budget rs)).
Proof. unfold has_chunk. destruct (issue_retryable budget rs) as [h n]. reflexivity. Qed.
Lemma store_object_eq budget rs :
  store_object budget rs = (put_of (fst (issue_retryable budget rs)), snd (issue_retryable budget rs)).
Proof. unfold store_object. destruct (issue_retryable budget rs) as [h n]. reflexivity. Qed.

(* exhausted budget: every operation reports an error (never missing, never success) *)
Lemma exhausted_is_error budget rs :
  (forall j, j < max_attempts budget -> retry_at rs j = true) ->
  get_object budget rs = (ObjErr, max_attempts budget) /\
  has_chunk budget rs = (HasErr, max_attempts budget) /\
  store_object budget rs = (false, max_attempts budget).
Proof.
  intros Hall. rewrite get_object_eq, has_chunk_eq, store_object_eq, (retry_exhausted _ _ Hall). cbn [fst snd].
  assert (retryable (issue_once (rs (N.to_nat (max_attempts budget - 1)))) = true) as Hr
    by (apply (Hall (max_attempts budget - 1)); unfold max_attempts; lia).
  destruct (give_up_class _ Hr) as [-> | ->]; repeat split; reflexivity.
Qed.

(* status_truthful, per final response: 200 => data/true, 404 => missing/false,
   any other status and any error => error.  The cases are exhaustive and the results
   distinct, so the converse directions hold as well (stated for "missing"). *)
Lemma obj_of_200 b : obj_of (HStatus 200 b) = ObjData b. Proof. reflexivity. Qed.
Lemma obj_of_404 b : obj_of (HStatus 404 b) = ObjMissing. Proof. reflexivity. Qed.
Lemma obj_of_other st b : st <> 200 -> st <> 404 -> obj_of (HStatus st b) = ObjErr.
Proof. intros H2 H4. cbn. apply N.eqb_neq in H2, H4. now rewrite H2, H4. Qed.
Lemma obj_of_err : obj_of HErr = ObjErr. Proof. reflexivity. Qed.

Lemma has_of_200 b : has_of (HStatus 200 b) = HasTrue. Proof. reflexivity. Qed.
Lemma has_of_404 b : has_of (HStatus 404 b) = HasFalse. Proof. reflexivity. Qed.
Lemma has_of_other st b : st <> 200 -> st <> 404 -> has_of (HStatus st b) = HasErr.
Proof. intros H2 H4. cbn. apply N.eqb_neq in H2, H4. now rewrite H2, H4. Qed.
Lemma has_of_err : has_of HErr = HasErr. Proof. reflexivity. Qed.

Lemma obj_missing_iff h : obj_of h = ObjMissing <-> exists b, h = HStatus 404 b.
Proof.
  destruct h as [|st b]; cbn [obj_of].
  - split; [discriminate|intros [b H]; discriminate].
  - destruct (N.eq_dec st 200) as [->|H2]; [split; [discriminate|intros [b' H]; discriminate]|].
    destruct (N.eq_dec st 404) as [->|H4]; [split; [intros _; now exists b|reflexivity]|].
    apply N.eqb_neq in H2, H4. rewrite H2, H4. split; [discriminate|].
    intros [b' [= -> _]]. discriminate.
Qed.

Lemma obj_data_iff h b : obj_of h = ObjData b <-> h = HStatus 200 b.
Proof.
  destruct h as [|st b0]; cbn [obj_of].
  - split; discriminate.
  - destruct (N.eq_dec st 200) as [->|H2]; [split; intros [= ->]; reflexivity|].
    destruct (N.eq_dec st 404) as [->|H4]; [split; [discriminate|intros [= H]; discriminate]|].
    apply N.eqb_neq in H2, H4. rewrite H2, H4. split; [discriminate|].
    intros [= -> _]. discriminate.
Qed.

Lemma has_false_iff h : has_of h = HasFalse <-> exists b, h = HStatus 404 b.
Proof.
  destruct h as [|st b]; cbn [has_of].
  - split; [discriminate|intros [b H]; discriminate].
  - destruct (N.eq_dec st 200) as [->|H2]; [split; [discriminate|intros [b' H]; discriminate]|].
    destruct (N.eq_dec st 404) as [->|H4]; [split; [intros _; now exists b|reflexivity]|].
    apply N.eqb_neq in H2, H4. rewrite H2, H4. split; [discriminate|].
    intros [b' [= -> _]]. discriminate.
Qed.

Lemma has_true_iff h : has_of h = HasTrue <-> exists b, h = HStatus 200 b.
Proof.
  destruct h as [|st b]; cbn [has_of].
  - split; [discriminate|intros [b H]; discriminate].
  - destruct (N.eq_dec st 200) as [->|H2]; [split; [intros _; now exists b|reflexivity]|].
    destruct (N.eq_dec st 404) as [->|H4]; [split; [discriminate|intros [b' H]; discriminate]|].
    apply N.eqb_neq in H2, H4. rewrite H2, H4. split; [discriminate|].
    intros [b' [= -> _]]. discriminate.
Qed.

(* ---------- request bodies across retries ---------- *)

Lemma retry_loop_ge rs budget : forall fuel a h n,
  retry_loop fuel budget a rs = Some (h, n) -> a + 1 <= n.
Proof.
  induction fuel as [|fuel IH]; intros a h n E; [discriminate|]. cbn [retry_loop] in E.
  destruct (retryable (issue_once (rs (N.to_nat (a + 1 - 1))))).
  - destruct (budget <=? a + 1); [injection E as _ <-; lia|]. apply IH in E. lia.
  - injection E as _ <-. lia.
Qed.

(* the log is: one body per request sent, the k-th produced by the k-th call of the callback *)
Lemma retry_loop_log_spec body rs budget : forall fuel a,
  retry_loop_log fuel budget a body rs =
  match retry_loop fuel budget a rs with
  | Some (h, n) => Some (h, n, map body (seq (N.to_nat a) (N.to_nat n - N.to_nat a)))
  | None => None
  end.
Proof.
  induction fuel as [|fuel IH]; intros a; [reflexivity|]. cbn [retry_loop_log retry_loop].
  replace (N.to_nat (a + 1 - 1)) with (N.to_nat a) by lia.
  destruct (retryable (issue_once (rs (N.to_nat a)))).
  - destruct (budget <=? a + 1).
    + replace (N.to_nat (a + 1) - N.to_nat a)%nat with 1%nat by lia. reflexivity.
    + rewrite IH. destruct (retry_loop fuel budget (a + 1) rs) as [[h n]|] eqn:E; [|reflexivity].
      apply retry_loop_ge in E.
      replace (N.to_nat n - N.to_nat a)%nat with (S (N.to_nat n - N.to_nat (a + 1))) by lia.
      cbn [seq map]. replace (S (N.to_nat a)) with (N.to_nat (a + 1)) by lia. reflexivity.
  - replace (N.to_nat (a + 1) - N.to_nat a)%nat with 1%nat by lia. reflexivity.
Qed.

Lemma issue_retryable_log_spec budget body rs :
  issue_retryable_log budget body rs =
  (fst (issue_retryable budget rs), snd (issue_retryable budget rs),
   map body (seq 0 (N.to_nat (snd (issue_retryable budget rs))))).
Proof.
  unfold issue_retryable_log, issue_retryable. rewrite retry_loop_log_spec.
  pose proof (retry_loop_fuel budget rs) as Hf.
  destruct (retry_loop (retry_fuel budget) budget 0 rs) as [[h n]|]; [|congruence].
  cbn [fst snd]. replace (N.to_nat n - N.to_nat 0)%nat with (N.to_nat n) by lia. reflexivity.
Qed.

Lemma map_const_seq {A} (p : A) a n : map (fun _ => p) (seq a n) = repeat p n.
Proof. revert a. induction n as [|n IH]; intros a; [reflexivity|]. cbn. now rewrite IH. Qed.

(* StoreIndex / StoreChunk: EVERY attempt carries the whole payload, the number of attempts is
   the one of the retry loop (so within the budget), and the result is StoreObject's *)
Lemma store_payload_log_spec budget payload rs :
  store_payload_log budget payload rs =
  (fst (store_object budget rs), snd (store_object budget rs),
   repeat payload (N.to_nat (snd (store_object budget rs)))).
Proof.
  unfold store_payload_log, store_object_log. rewrite issue_retryable_log_spec, store_object_eq.
  cbn [fst snd]. now rewrite map_const_seq.
Qed.

Lemma store_payload_bodies budget payload rs :
  let '(ok, n, bodies) := store_payload_log budget payload rs in
  Forall (fun b => b = payload) bodies /\ length bodies = N.to_nat n /\ 1 <= n <= max_attempts budget.
Proof.
  rewrite store_payload_log_spec. split; [|split].
  - apply Forall_forall. intros x Hx. now apply repeat_spec in Hx.
  - apply repeat_length.
  - rewrite store_object_eq. cbn [snd]. apply retry_bound.
Qed.

Definition is_2xx (r : resp_ev) : bool :=
  match r with Status st _ => (st =? 200) || (st =? 201) | _ => false end.

Lemma retryable_not_2xx r : retryable (issue_once r) = true -> is_2xx r = false.
Proof. destruct r as [st b| |]; cbn; [|reflexivity|reflexivity]. intros E. lia. Qed.

Lemma is_2xx_not_retryable r : is_2xx r = true -> retryable (issue_once r) = false.
Proof. destruct r as [st b| |]; cbn; [|discriminate|discriminate]. intros E. lia. Qed.

Lemma put_of_is_2xx r : put_of (issue_once r) = is_2xx r.
Proof. destruct r; reflexivity. Qed.

(* success iff the first non-retryable answer, within the budget, is 200/201 *)
Lemma store_payload_ok_iff budget payload rs :
  fst (fst (store_payload_log budget payload rs)) = true <->
  exists k, k < max_attempts budget /\ (forall j, j < k -> retry_at rs j = true) /\ is_2xx (rs (N.to_nat k)) = true.
Proof.
  rewrite store_payload_log_spec, store_object_eq. cbn [fst snd]. split.
  - rewrite issue_retryable_spec. unfold issue_spec.
    destruct (first_stop rs 0 (N.to_nat (max_attempts budget))) as [k|] eqn:E; cbn [fst].
    + apply first_stop_some in E as [H1 [H2 H3]]. rewrite put_of_is_2xx. intros Hk.
      exists k. split; [lia|]. split; [intros j Hj; apply H3; lia|exact Hk].
    + pose proof (first_stop_none _ _ _ E (max_attempts budget - 1)) as Hr.
      assert (retryable (issue_once (rs (N.to_nat (max_attempts budget - 1)))) = true) as Hr'
        by (apply Hr; unfold max_attempts; lia).
      destruct (give_up_class _ Hr') as [-> | ->]; discriminate.
  - intros [k [Hk [Hre H2]]]. rewrite (retry_transparent budget rs k Hk Hre (is_2xx_not_retryable _ H2)).
    cbn [fst]. now rewrite put_of_is_2xx.
Qed.

(* what a server that keeps the body of every PUT it answers 2xx holds afterwards *)
Lemma stored_after_retry rs p : forall m k0 rest obj,
  (forall j, (k0 <= j < k0 + m)%nat -> retry_at rs (N.of_nat j) = true) ->
  stored_after rs k0 (repeat p m ++ rest) obj = stored_after rs (k0 + m) rest obj.
Proof.
  induction m as [|m IH]; intros k0 rest obj Hre.
  - cbn. now rewrite Nat.add_0_r.
  - cbn [repeat app stored_after].
    assert (is_2xx (rs k0) = false) as Hn.
    { apply retryable_not_2xx. specialize (Hre k0 ltac:(lia)). unfold retry_at in Hre.
      now rewrite Nat2N.id in Hre. }
    unfold is_2xx in Hn. destruct (rs k0) as [st b| |]; [rewrite Hn|..];
      (rewrite IH by (intros j Hj; apply Hre; lia); f_equal; lia).
Qed.

(* reported success => the server holds exactly the payload; reported failure => the server
   holds what it held before (no empty or partial object) *)
Lemma store_payload_stored budget payload rs obj :
  let '(ok, n, bodies) := store_payload_log budget payload rs in
  stored_after rs 0 bodies obj = if ok then Some payload else obj.
Proof.
  rewrite store_payload_log_spec, store_object_eq. cbn [fst snd].
  rewrite issue_retryable_spec. unfold issue_spec.
  destruct (first_stop rs 0 (N.to_nat (max_attempts budget))) as [k|] eqn:E; cbn [fst snd].
  - apply first_stop_some in E as [H1 [H2 H3]].
    replace (N.to_nat (k + 1)) with (N.to_nat k + 1)%nat by lia.
    rewrite repeat_app. cbn [repeat].
    rewrite stored_after_retry by (intros j Hj; apply H3; lia).
    cbn [Nat.add app stored_after]. rewrite put_of_is_2xx. unfold is_2xx.
    destruct (rs (N.to_nat k)) as [st b| |]; reflexivity.
  - pose proof (first_stop_none _ _ _ E) as Hall.
    rewrite <- (app_nil_r (repeat payload _)).
    rewrite stored_after_retry by (intros j Hj; apply Hall; lia). cbn [stored_after].
    assert (retryable (issue_once (rs (N.to_nat (max_attempts budget - 1)))) = true) as Hr'
      by (apply (Hall (max_attempts budget - 1)); unfold max_attempts; lia).
    destruct (give_up_class _ Hr') as [-> | ->]; reflexivity.
Qed.
