(* Lemmas about Model/HTTPClient.v (C14): the retry loop and the status mapping. *)
From Coq Require Import List NArith Arith Bool Lia ZifyN ZifyNat ZifyBool.
From DS Require Import Gen.Constants Base.Bytes Base.Hash Base.Hex Base.GoPath
     Model.HTTPServer Model.HTTPClient Proofs.HTTPServerProofs.
Import ListNotations.
Local Open Scope N_scope.

(* the budget formula of the code: attempts never exceed max(1, ErrorRetry) *)
Definition max_attempts (budget : N) : N := N.max 1 budget.

Definition retry_at (rs : nat -> resp_ev) (k : N) : bool := retryable (issue_once (rs (N.to_nat k))).

(* the first [n] responses from attempt [a] on are retryable, the next one is not *)
Lemma retry_loop_stop rs budget : forall n fuel a,
  (forall j, a <= j < a + N.of_nat n -> retry_at rs j = true) ->
  retry_at rs (a + N.of_nat n) = false ->
  a + N.of_nat n < max_attempts budget -> (n < fuel)%nat ->
  retry_loop fuel budget a rs = Some (issue_once (rs (N.to_nat (a + N.of_nat n))), a + N.of_nat n + 1).
Proof.
  unfold retry_at, max_attempts. induction n as [|n IH]; intros fuel a Hre Hstop Hlt Hfuel.
  - destruct fuel as [|fuel]; [lia|]. cbn [retry_loop].
    replace (a + 1 - 1) with a by lia. replace (a + N.of_nat 0) with a in * by lia.
    rewrite Hstop. reflexivity.
  - destruct fuel as [|fuel]; [lia|]. cbn [retry_loop].
    replace (a + 1 - 1) with a by lia. rewrite (Hre a) by lia.
    replace (budget <=? a + 1) with false by lia.
    replace (a + N.of_nat (S n)) with (a + 1 + N.of_nat n) in * by lia.
    rewrite (IH fuel (a + 1)).
    + reflexivity.
    + intros j Hj. apply Hre. lia.
    + exact Hstop.
    + lia.
    + lia.
Qed.

(* every response up to the budget is retryable: the loop gives up at max(1, budget) *)
Lemma retry_loop_exhaust rs budget : forall n fuel a,
  a + N.of_nat n + 1 = max_attempts budget ->
  (forall j, a <= j < max_attempts budget -> retry_at rs j = true) ->
  (n < fuel)%nat ->
  retry_loop fuel budget a rs =
  Some (give_up (issue_once (rs (N.to_nat (max_attempts budget - 1)))), max_attempts budget).
Proof.
  unfold retry_at, max_attempts. induction n as [|n IH]; intros fuel a Ha Hre Hfuel.
  - destruct fuel as [|fuel]; [lia|]. cbn [retry_loop].
    replace (a + 1 - 1) with a by lia. rewrite (Hre a) by lia.
    replace (budget <=? a + 1) with true by lia.
    replace (N.max 1 budget - 1) with a by lia. replace (N.max 1 budget) with (a + 1) by lia. reflexivity.
  - destruct fuel as [|fuel]; [lia|]. cbn [retry_loop].
    replace (a + 1 - 1) with a by lia. rewrite (Hre a) by lia.
    replace (budget <=? a + 1) with false by lia.
    apply IH; [lia| |lia]. intros j Hj. apply Hre. lia.
Qed.

(* first non-retryable position below a bound, or none *)
Fixpoint first_stop (rs : nat -> resp_ev) (a : N) (n : nat) : option N :=
  match n with
  | O => None
  | S n' => if retry_at rs a then first_stop rs (a + 1) n' else Some a
  end.

Lemma first_stop_some rs : forall n a k,
  first_stop rs a n = Some k ->
  a <= k < a + N.of_nat n /\ retry_at rs k = false /\ forall j, a <= j < k -> retry_at rs j = true.
Proof.
  induction n as [|n IH]; intros a k E; [discriminate|]. cbn [first_stop] in E.
  destruct (retry_at rs a) eqn:Ea.
  - apply IH in E as [H1 [H2 H3]]. split; [lia|]. split; [exact H2|].
    intros j Hj. destruct (N.eq_dec j a) as [->|Hn]; [exact Ea|]. apply H3. lia.
  - injection E as <-. split; [lia|]. split; [exact Ea|]. intros j Hj. lia.
Qed.

Lemma first_stop_none rs : forall n a,
  first_stop rs a n = None -> forall j, a <= j < a + N.of_nat n -> retry_at rs j = true.
Proof.
  induction n as [|n IH]; intros a E j Hj; [lia|]. cbn [first_stop] in E.
  destruct (retry_at rs a) eqn:Ea; [|discriminate].
  destruct (N.eq_dec j a) as [->|Hn]; [exact Ea|]. apply (IH (a + 1)); [exact E|lia].
Qed.

(* complete description of IssueRetryableHttpRequest *)
Definition issue_spec (budget : N) (rs : nat -> resp_ev) : hres * N :=
  match first_stop rs 0 (N.to_nat (max_attempts budget)) with
  | Some k => (issue_once (rs (N.to_nat k)), k + 1)
  | None => (give_up (issue_once (rs (N.to_nat (max_attempts budget - 1)))), max_attempts budget)
  end.

Lemma issue_retryable_spec budget rs : issue_retryable budget rs = issue_spec budget rs.
Proof.
  unfold issue_retryable, issue_spec, retry_fuel.
  destruct (first_stop rs 0 (N.to_nat (max_attempts budget))) as [k|] eqn:E.
  - apply first_stop_some in E as [H1 [H2 H3]].
    rewrite (retry_loop_stop rs budget (N.to_nat k) _ 0).
    + replace (0 + N.of_nat (N.to_nat k)) with k by lia. reflexivity.
    + intros j Hj. apply H3. lia.
    + replace (0 + N.of_nat (N.to_nat k)) with k by lia. exact H2.
    + lia.
    + unfold max_attempts in *. lia.
  - pose proof (first_stop_none _ _ _ E) as Hall.
    rewrite (retry_loop_exhaust rs budget (N.to_nat (max_attempts budget - 1)) _ 0).
    + reflexivity.
    + unfold max_attempts. lia.
    + intros j Hj. apply Hall. lia.
    + unfold max_attempts. lia.
Qed.

(* the fuel handed to the loop always suffices *)
Lemma retry_loop_fuel budget rs : retry_loop (retry_fuel budget) budget 0 rs <> None.
Proof.
  pose proof (issue_retryable_spec budget rs) as Hs. unfold issue_retryable, issue_spec, retry_fuel in *.
  destruct (first_stop rs 0 (N.to_nat (max_attempts budget))) as [k|] eqn:E.
  - apply first_stop_some in E as [H1 [H2 H3]].
    rewrite (retry_loop_stop rs budget (N.to_nat k) _ 0); [discriminate| | | |].
    + intros j Hj. apply H3. lia.
    + replace (0 + N.of_nat (N.to_nat k)) with k by lia. exact H2.
    + lia.
    + unfold max_attempts in *. lia.
  - pose proof (first_stop_none _ _ _ E) as Hall.
    rewrite (retry_loop_exhaust rs budget (N.to_nat (max_attempts budget - 1)) _ 0); [discriminate| | |].
    + unfold max_attempts. lia.
    + intros j Hj. apply Hall. lia.
    + unfold max_attempts. lia.
Qed.

(* retry_bound *)
Lemma retry_bound budget rs :
  1 <= snd (issue_retryable budget rs) <= max_attempts budget.
Proof.
  rewrite issue_retryable_spec. unfold issue_spec.
  destruct (first_stop rs 0 (N.to_nat (max_attempts budget))) as [k|] eqn:E; cbn [snd].
  - apply first_stop_some in E as [H1 _]. lia.
  - unfold max_attempts. lia.
Qed.

(* retry_transparent *)
Lemma retry_transparent budget rs k :
  k < max_attempts budget ->
  (forall j, j < k -> retry_at rs j = true) -> retry_at rs k = false ->
  issue_retryable budget rs = (issue_once (rs (N.to_nat k)), k + 1).
Proof.
  intros Hk Hre Hstop. unfold issue_retryable, retry_fuel.
  rewrite (retry_loop_stop rs budget (N.to_nat k) _ 0).
  - replace (0 + N.of_nat (N.to_nat k)) with k by lia. reflexivity.
  - intros j Hj. apply Hre. lia.
  - replace (0 + N.of_nat (N.to_nat k)) with k by lia. exact Hstop.
  - lia.
  - unfold max_attempts in *. lia.
Qed.

(* retry_exhausted *)
Lemma retry_exhausted budget rs :
  (forall j, j < max_attempts budget -> retry_at rs j = true) ->
  issue_retryable budget rs =
  (give_up (issue_once (rs (N.to_nat (max_attempts budget - 1)))), max_attempts budget).
Proof.
  intros Hall. unfold issue_retryable, retry_fuel.
  rewrite (retry_loop_exhaust rs budget (N.to_nat (max_attempts budget - 1)) _ 0).
  - reflexivity.
  - unfold max_attempts. lia.
  - intros j Hj. apply Hall. lia.
  - unfold max_attempts. lia.
Qed.

(* a given-up request is never a success and never "missing" *)
Lemma give_up_class h : retryable h = true ->
  give_up h = HErr \/ give_up h = HStatus 0 [].
Proof. destruct h; cbn; auto. Qed.

(* ---------- status mapping ---------- *)

(* classification of one final (non-retryable) response by the three client operations *)
Definition obj_of (h : hres) : obj_result :=
  match h with
  | HErr => ObjErr
  | HStatus st b => if st =? 200 then ObjData b else if st =? 404 then ObjMissing else ObjErr
  end.
Definition has_of (h : hres) : has_res :=
  match h with
  | HErr => HasErr
  | HStatus st _ => if st =? 200 then HasTrue else if st =? 404 then HasFalse else HasErr
  end.
Definition put_of (h : hres) : bool :=
  match h with HErr => false | HStatus st _ => (st =? 200) || (st =? 201) end.

Lemma get_object_eq budget rs :
  get_object budget rs = (obj_of (fst (issue_retryable budget rs)), snd (issue_retryable budget rs)).
Proof. unfold get_object. destruct (issue_retryable budget rs) as [h n]. reflexivity. Qed.
Lemma has_chunk_eq budget rs :
  has_chunk budget rs = (has_of (fst (issue_retryable budget rs)), snd (issue_retryable budget rs)).
Proof. unfold has_chunk. destruct (issue_retryable budget rs) as [h n]. reflexivity. Qed.
Lemma store_object_eq budget rs :
  store_object budget rs = (put_of (fst (issue_retryable budget rs)), snd (issue_retryable budget rs)).
Proof. unfold store_object. destruct (issue_retryable budget rs) as [h n]. reflexivity. Qed.

(* exhausted budget: every operation reports an error (never missing, never success) *)
Lemma exhausted_is_error budget rs :
  (forall j, j < max_attempts budget -> retry_at rs j = true) ->
  get_object budget rs = (ObjErr, max_attempts budget) /\
  has_chunk budget rs = (HasErr, max_attempts budget) /\
  store_object budget rs = (false, max_attempts budget).
Proof.
  intros Hall. rewrite get_object_eq, has_chunk_eq, store_object_eq, (retry_exhausted _ _ Hall). cbn [fst snd].
  assert (retryable (issue_once (rs (N.to_nat (max_attempts budget - 1)))) = true) as Hr
    by (apply (Hall (max_attempts budget - 1)); unfold max_attempts; lia).
  destruct (give_up_class _ Hr) as [-> | ->]; repeat split; reflexivity.
Qed.

(* status_truthful, per final response: 200 => data/true, 404 => missing/false,
   any other status and any error => error.  The cases are exhaustive and the results
   distinct, so the converse directions hold as well (stated for "missing"). *)
Lemma obj_of_200 b : obj_of (HStatus 200 b) = ObjData b. Proof. reflexivity. Qed.
Lemma obj_of_404 b : obj_of (HStatus 404 b) = ObjMissing. Proof. reflexivity. Qed.
Lemma obj_of_other st b : st <> 200 -> st <> 404 -> obj_of (HStatus st b) = ObjErr.
Proof. intros H2 H4. cbn. apply N.eqb_neq in H2, H4. now rewrite H2, H4. Qed.
Lemma obj_of_err : obj_of HErr = ObjErr. Proof. reflexivity. Qed.

Lemma has_of_200 b : has_of (HStatus 200 b) = HasTrue. Proof. reflexivity. Qed.
Lemma has_of_404 b : has_of (HStatus 404 b) = HasFalse. Proof. reflexivity. Qed.
Lemma has_of_other st b : st <> 200 -> st <> 404 -> has_of (HStatus st b) = HasErr.
Proof. intros H2 H4. cbn. apply N.eqb_neq in H2, H4. now rewrite H2, H4. Qed.
Lemma has_of_err : has_of HErr = HasErr. Proof. reflexivity. Qed.

Lemma obj_missing_iff h : obj_of h = ObjMissing <-> exists b, h = HStatus 404 b.
Proof.
  destruct h as [|st b]; cbn [obj_of].
  - split; [discriminate|intros [b H]; discriminate].
  - destruct (N.eq_dec st 200) as [->|H2]; [split; [discriminate|intros [b' H]; discriminate]|].
    destruct (N.eq_dec st 404) as [->|H4]; [split; [intros _; now exists b|reflexivity]|].
    apply N.eqb_neq in H2, H4. rewrite H2, H4. split; [discriminate|].
    intros [b' [= -> _]]. discriminate.
Qed.

Lemma obj_data_iff h b : obj_of h = ObjData b <-> h = HStatus 200 b.
Proof.
  destruct h as [|st b0]; cbn [obj_of].
  - split; discriminate.
  - destruct (N.eq_dec st 200) as [->|H2]; [split; intros [= ->]; reflexivity|].
    destruct (N.eq_dec st 404) as [->|H4]; [split; [discriminate|intros [= H]; discriminate]|].
    apply N.eqb_neq in H2, H4. rewrite H2, H4. split; [discriminate|].
    intros [= -> _]. discriminate.
Qed.

Lemma has_false_iff h : has_of h = HasFalse <-> exists b, h = HStatus 404 b.
Proof.
  destruct h as [|st b]; cbn [has_of].
  - split; [discriminate|intros [b H]; discriminate].
  - destruct (N.eq_dec st 200) as [->|H2]; [split; [discriminate|intros [b' H]; discriminate]|].
    destruct (N.eq_dec st 404) as [->|H4]; [split; [intros _; now exists b|reflexivity]|].
    apply N.eqb_neq in H2, H4. rewrite H2, H4. split; [discriminate|].
    intros [b' [= -> _]]. discriminate.
Qed.

Lemma has_true_iff h : has_of h = HasTrue <-> exists b, h = HStatus 200 b.
Proof.
  destruct h as [|st b]; cbn [has_of].
  - split; [discriminate|intros [b H]; discriminate].
  - destruct (N.eq_dec st 200) as [->|H2]; [split; [intros _; now exists b|reflexivity]|].
    destruct (N.eq_dec st 404) as [->|H4]; [split; [discriminate|intros [b' H]; discriminate]|].
    apply N.eqb_neq in H2, H4. rewrite H2, H4. split; [discriminate|].
    intros [b' [= -> _]]. discriminate.
Qed.
