From Coq Require Import List Arith Bool Lia.
From DS Require Import Base.Sched Model.Pool Model.UnTarIndex Proofs.PoolProofs.
Import ListNotations.

Lemma existsb_eqb_In k l : existsb (Nat.eqb k) l = true -> In k l.
Proof.
  rewrite existsb_exists. intros [x [Hx E]]. apply Nat.eqb_eq in E. now subst.
Qed.

Ltac usimp := cbn [u_feed u_req u_handed u_taken u_workers u_fetched u_asm u_wdone u_dec u_pos u_wclosed
                   u_rclosed u_cancelled u_ext u_err set_feed set_wk add_fetched set_asm set_dec set_pipe
                   set_ctx record is_done] in *.

Ltac ubreak E :=
  repeat match type of E with
         | context [if ?c then _ else _] => let Q := fresh "Q" in destruct c eqn:Q
         | context [match ?x with Some _ => _ | None => _ end] => let Q := fresh "Q" in destruct x eqn:Q
         | context [match ?x with UFSel => _ | UFHand => _ | UFDone _ => _ end] => let Q := fresh "Q" in destruct x eqn:Q
         | context [match ?x with UWIdle => _ | UWBusy _ => _ | UWErr => _ | UWExited => _ end] => let Q := fresh "Q" in destruct x eqn:Q
         | context [match ?x with UASel => _ | UAWait => _ | UAWrite _ => _ | UADone _ => _ end] => let Q := fresh "Q" in destruct x eqn:Q
         | context [match ?x with UDCheck => _ | UDRead => _ | UDDone _ => _ end] => let Q := fresh "Q" in destruct x eqn:Q
         | context [match ?x with O => _ | S _ => _ end] => let Q := fresh "Q" in destruct x eqn:Q
         end; try discriminate E.

Section UnTarProofs.
  Variable n : nat.
  Variable csize : nat -> nat.
  Variable fetch_ok : nat -> bool.
  Variable boundary : nat -> bool.
  Variable dec_ok : nat -> bool.
  Variable cap : nat.
  Variable can_cancel : bool.

  (* the code after the fix *)
  Notation step := (ustep n csize fetch_ok boundary dec_ok cap true can_cancel).

  Definition wsize (k : nat) : nat := if fetch_ok k then csize k else 0.
  Fixpoint wsum (m : nat) : nat := match m with O => 0 | S j => wsum j + wsize j end.

  Definition errd (s : ustate) : Prop := u_err s <> None.

  Definition pending (a : uasm) (w : nat) : nat := match a with UAWrite r => csize w - r | _ => 0 end.

  Record UInv (s : ustate) : Prop := {
    q_ord : u_taken s <= u_handed s /\ u_handed s <= u_req s /\ u_req s <= n;
    q_fsel : u_feed s = UFSel -> u_req s = u_handed s;
    q_fhand : u_feed s = UFHand -> u_req s = S (u_handed s);
    q_fdone : u_feed s = UFDone false -> u_req s = n /\ u_handed s = n;
    q_fint : u_feed s = UFDone true -> errd s;
    q_asel : u_asm s = UASel -> u_wdone s = u_taken s;
    q_await : u_asm s = UAWait -> u_taken s = S (u_wdone s);
    q_awrite : forall r, u_asm s = UAWrite r ->
               u_taken s = S (u_wdone s) /\ 0 < r /\ r <= csize (u_wdone s) /\
               fetch_ok (u_wdone s) = true /\ In (u_wdone s) (u_fetched s);
    q_adone : u_asm s = UADone true ->
              u_wdone s = u_taken s /\ u_taken s = u_handed s /\ is_done (u_feed s) = true;
    q_aerr : u_asm s = UADone false -> errd s;
    q_pos : u_asm s <> UADone false -> u_pos s = wsum (u_wdone s) + pending (u_asm s) (u_wdone s);
    q_fetched : forall k, k < u_wdone s -> In k (u_fetched s);
    q_bad : forall k, In k (u_fetched s) -> fetch_ok k = false ->
            errd s \/ exists i, nth_error (u_workers s) i = Some UWErr;
    q_derr : u_dec s = UDDone false -> errd s;
    q_dok : u_dec s = UDDone true -> boundary (u_pos s) = true;
  }.

  Lemma init_uinv nw : UInv (uinit nw).
  Proof. constructor; cbn; auto; try lia; intros; try lia; try discriminate; contradiction. Qed.

  Ltac use_eqs :=
    repeat match goal with
           | H : ?x <> ?y -> _ |- _ =>
               let N := fresh "N" in assert (N : x <> y) by (first [discriminate | congruence]); specialize (H N); clear N
           | H : ?x = ?x -> _ |- _ => specialize (H eq_refl)
           | H : forall r, UAWrite ?r0 = UAWrite r -> _ |- _ => specialize (H r0 eq_refl)
           | H : ?x = ?y -> _, Q : ?x = ?y |- _ => specialize (H Q)
           | H : forall r, ?x = UAWrite r -> _, Q : ?x = UAWrite ?r0 |- _ => specialize (H r0 Q)
           end.
  Ltac rw_eqs :=
    repeat match goal with
           | Q : u_feed _ = _ |- _ => rewrite Q in *; clear Q
           | Q : u_asm _ = _ |- _ => rewrite Q in *; clear Q
           | Q : u_dec _ = _ |- _ => rewrite Q in *; clear Q
           end.
  Ltac leaf :=
    constructor; usimp; unfold errd, pending in *; usimp; intros;
    try discriminate; use_eqs; try (rw_eqs; cbn [is_done] in *);
    try discriminate; try congruence; try lia;
    try (match goal with |- match ?e with None => Some _ | Some x => Some x end <> None => destruct e; discriminate end);
    try (intuition (auto; try lia; try congruence; try (right; assumption)); fail);
    try (eauto; fail);
    try (match goal with
         | Hw : forall r, _ = UAWrite r -> _, Hx : _ = UAWrite _ |- _ =>
             destruct (Hw _ Hx) as [? [? [? [? ?]]]]; repeat split; auto; try lia; right; assumption
         end);
    try (match goal with
         | Hf : forall k, k < _ -> In k _ |- In _ (_ :: _) => right; apply Hf; assumption
         end).

  Ltac bad_other Hbad Hother :=
    match goal with
    | Hk : In ?k (u_fetched _), Hf : fetch_ok ?k = false |- _ =>
        destruct (Hbad k Hk Hf) as [He|Hx]; [left; auto|right; apply Hother; auto; discriminate]
    end.

  Lemma step_uinv s t s' : UInv s -> step s t = Some s' -> UInv s'.
  Proof.
    intros I E.
    destruct I as [[O1 [O2 O3]] Hfsel Hfhand Hfdone Hfint Hasel Hawait Hawrite Hadone Haerr Hpos Hfet Hbad Hderr Hdok].
    assert (Hrec : forall e, match u_err s with None => Some e | Some x => Some x end <> None).
    { intros e. destruct (u_err s); discriminate. }
    destruct t as [| |i| | | | |]; unfold ustep in E.
    - (* feeder: loop end / hand over *)
      destruct (u_feed s) eqn:Qf; [| |discriminate].
      + destruct (u_req s =? n) eqn:Q0; [|discriminate]. inversion E; subst; clear E.
        apply Nat.eqb_eq in Q0. leaf.
      + destruct (u_handed s - u_taken s <? cap) eqn:Q0; [|discriminate]. inversion E; subst; clear E.
        leaf.
    - (* feeder: ctx.Done *)
      destruct (u_feed s) eqn:Qf; [| |discriminate].
      + destruct (u_cancelled s && (u_req s <? n)); [|discriminate]. inversion E; subst; clear E. leaf.
      + destruct (u_cancelled s && true); [|discriminate]. inversion E; subst; clear E. leaf.
    - (* worker i *)
      destruct (nth_error (u_workers s) i) as [w0|] eqn:Ew; [|discriminate].
      assert (Hother : forall w', (exists j, nth_error (u_workers s) j = Some UWErr) -> w0 <> UWErr ->
                                  exists j, nth_error (set_nth (u_workers s) i w') j = Some UWErr).
      { intros w' [j Ej] Hne. exists j. rewrite nth_error_set_nth_ne; [exact Ej|]. intro; subst. congruence. }
      destruct w0 as [|k| |].
      + (* idle *)
        destruct (u_feed s) eqn:Qf; [| discriminate |].
        * destruct (u_req s <? n) eqn:Q0; [|discriminate]. inversion E; subst; clear E.
          apply Nat.ltb_lt in Q0. leaf. bad_other Hbad Hother.
        * inversion E; subst; clear E. leaf. bad_other Hbad Hother.
      + (* busy k *)
        destruct (fetch_ok k) eqn:Ef; inversion E; subst; clear E; leaf.
        * match goal with Hk : In _ (_ :: _) |- _ => destruct Hk as [<-|Hk0]; [congruence|] end.
          bad_other Hbad Hother.
        * right. exists i. apply nth_error_set_nth_eq. apply nth_error_Some. congruence.
      + (* err: return it to the group *)
        inversion E; subst; clear E. leaf.
      + discriminate.
    - (* assembler *)
      destruct (u_asm s) as [| |r|c] eqn:Qa; [| | |discriminate].
      + destruct (u_taken s <? u_handed s) eqn:Q0.
        * inversion E; subst; clear E. apply Nat.ltb_lt in Q0. leaf.
        * destruct (is_done (u_feed s)) eqn:Q1; [|discriminate]. inversion E; subst; clear E.
          apply Nat.ltb_ge in Q0. leaf.
      + destruct (existsb (Nat.eqb (u_taken s - 1)) (u_fetched s)) eqn:Q0; [|discriminate].
        apply existsb_eqb_In in Q0.
        pose proof (Hawait eq_refl) as Ht.
        replace (u_taken s - 1) with (u_wdone s) in * by lia.
        destruct (fetch_ok (u_wdone s) && (0 <? csize (u_wdone s))) eqn:Q1; inversion E; subst; clear E.
        * (* wait -> write *)
          apply andb_true_iff in Q1. destruct Q1 as [Qf Qc]. apply Nat.ltb_lt in Qc. leaf.
          inversion H; subst. repeat split; auto; lia.
        * (* wait -> nothing to write *)
          leaf.
          -- cbn [wsum]. unfold wsize. apply andb_false_iff in Q1. destruct Q1 as [Qf|Qc].
             ++ rewrite Qf. lia.
             ++ apply Nat.ltb_ge in Qc. destruct (fetch_ok (u_wdone s)); lia.
          -- destruct (Nat.eq_dec k (u_wdone s)) as [->|Hne]; [exact Q0|apply Hfet; lia].
      + (* write fails: reader closed *)
        destruct (u_rclosed s); [|discriminate]. inversion E; subst; clear E. leaf.
    - (* assembler: ctx.Done -> Interrupted *)
      destruct (u_asm s) eqn:Qa; try discriminate.
      destruct (u_cancelled s); [|discriminate]. inversion E; subst; clear E. leaf.
    - (* decoder *)
      destruct (u_dec s) eqn:Qd; [| |discriminate].
      + destruct (u_cancelled s); inversion E; subst; clear E; leaf.
      + destruct (negb (dec_ok (u_pos s))).
        * inversion E; subst; clear E. leaf.
        * destruct (u_asm s) as [| |[|[|r]]|c] eqn:Qa;
            try (destruct (u_wclosed s); [|discriminate]; destruct (boundary (u_pos s)) eqn:Qb;
                 inversion E; subst; clear E; leaf; fail).
          -- (* last byte of the chunk *)
             inversion E; subst; clear E.
             destruct (Hawrite 1 eq_refl) as [Ht [Hr0 [Hr [Hf Hin]]]].
             leaf.
             ++ cbn [wsum]. unfold wsize. rewrite Hf. lia.
             ++ destruct (Nat.eq_dec k (u_wdone s)) as [->|Hne]; [exact Hin|apply Hfet; lia].
          -- (* a byte in the middle *)
             inversion E; subst; clear E.
             destruct (Hawrite (S (S r)) eq_refl) as [Ht [Hr0 [Hr [Hf Hin]]]].
             leaf. inversion H; subst. repeat split; auto; lia.
    - (* decoder: node done *)
      destruct (u_dec s) eqn:Qd; try discriminate. inversion E; subst; clear E. leaf.
    - (* cancel *)
      destruct (can_cancel && negb (u_ext s)); [|discriminate]. inversion E; subst; clear E. leaf.
  Qed.

  Lemma run_uinv nw sched : UInv (run step sched (uinit nw)).
  Proof. apply inv_run with (Inv := UInv); [intros; eapply step_uinv; eauto|apply init_uinv]. Qed.

  Lemma wsum_total m : (forall k, k < m -> fetch_ok k = true) -> wsum m = total_to csize m.
  Proof.
    induction m as [|m IH]; intros Hall; [reflexivity|].
    cbn. rewrite IH by (intros; apply Hall; lia). unfold wsize. rewrite Hall by lia. reflexivity.
  Qed.

  (* UnTarIndex after the fix: for every schedule and cancellation point, a nil result means that
     every chunk was fetched successfully, its bytes went through the pipe in index order, the decoder
     consumed the whole stream and ended at an element boundary. *)
  Theorem untarindex_cancel_sound nw sched :
    let s := run step sched (uinit nw) in
    ufinal s = true -> untar_result s = RNil ->
    u_wdone s = n /\ (forall k, k < n -> fetch_ok k = true) /\
    u_pos s = total_to csize n /\ boundary (u_pos s) = true.
  Proof.
    intros s Hfin Hres. assert (I := run_uinv nw sched). fold s in I.
    unfold untar_result in Hres. destruct (u_err s) as [[|]|] eqn:Ee; try discriminate.
    assert (Hne : ~ errd s) by (unfold errd; congruence).
    unfold ufinal in Hfin. rewrite !andb_true_iff in Hfin. destruct Hfin as [[[Hf Hw] Ha] Hd].
    destruct (u_feed s) as [| |[|]] eqn:Ef; try discriminate.
    { exfalso. apply Hne. apply (q_fint _ I). exact Ef. }
    destruct (q_fdone _ I Ef) as [Hreq Hhand].
    destruct (u_asm s) as [| | |[|]] eqn:Ea; try discriminate.
    2:{ exfalso. apply Hne. apply (q_aerr _ I). exact Ea. }
    destruct (q_adone _ I Ea) as [Hwd [Htk _]].
    destruct (u_dec s) as [| |[|]] eqn:Ed; try discriminate.
    2:{ exfalso. apply Hne. apply (q_derr _ I). exact Ed. }
    assert (Hn : u_wdone s = n) by lia.
    assert (Hall : forall k, k < n -> fetch_ok k = true).
    { intros k Hk. destruct (fetch_ok k) eqn:Efk; [reflexivity|exfalso].
      assert (Hin : In k (u_fetched s)) by (apply (q_fetched _ I); lia).
      destruct (q_bad _ I k Hin Efk) as [He|[i Hi]]; [contradiction|].
      rewrite forallb_forall in Hw. apply nth_error_In in Hi. apply Hw in Hi. discriminate. }
    split; [exact Hn|]. split; [exact Hall|].
    assert (Hpos : u_pos s = total_to csize n).
    { rewrite (q_pos _ I) by (rewrite Ea; discriminate). rewrite Ea, Hn. cbn. rewrite wsum_total by exact Hall. lia. }
    split; [exact Hpos|]. apply (q_dok _ I). exact Ed.
  Qed.

  (* ---------- deadlock freedom ---------- *)
  Definition asm_done (a : uasm) : bool := match a with UADone _ => true | _ => false end.

  Record DInv (s : ustate) : Prop := {
    d_wclosed : u_wclosed s = asm_done (u_asm s);
    d_rclosed : u_rclosed s = true <-> u_dec s = UDDone false;
    d_errc : errd s -> u_cancelled s = true;
    d_req : forall k, k < u_req s -> In k (u_fetched s) \/ exists i, nth_error (u_workers s) i = Some (UWBusy k);
    d_exit : is_done (u_feed s) = false -> forall i, nth_error (u_workers s) i = Some UWExited -> errd s;
    d_dclean : u_dec s = UDDone true -> u_wclosed s = true;
  }.

  Lemma init_dinv nw : DInv (uinit nw).
  Proof.
    constructor; cbn; auto; try (intros; lia); try discriminate;
      try (split; discriminate);
      try (unfold errd; cbn; intros Hx; exfalso; apply Hx; reflexivity);
      try (intros _ i Hi; apply nth_error_In, repeat_spec in Hi; discriminate).
  Qed.

  Ltac dleaf :=
    constructor; usimp; unfold errd in *; usimp; auto;
    try (split; assumption);
    try (intros; discriminate);
    try congruence;
    try (split; [intros Hr; try discriminate Hr | intros Hd; try discriminate Hd]; try reflexivity;
         match goal with Dr : _ = true -> _ = UDDone false, Hr : _ = true |- _ => apply Dr in Hr; congruence end).

  Lemma step_dinv s t s' : DInv s -> step s t = Some s' -> DInv s'.
  Proof.
    intros [Dw [Dr1 Dr2] De Dq Dx Dc] E.
    assert (Hrec : forall e, match u_err s with None => Some e | Some x => Some x end <> None).
    { intros e. destruct (u_err s); discriminate. }
    assert (Hbusy : forall i w0 w', nth_error (u_workers s) i = Some w0 -> (forall k, w0 <> UWBusy k) ->
              forall k, (exists j, nth_error (u_workers s) j = Some (UWBusy k)) ->
                        exists j, nth_error (set_nth (u_workers s) i w') j = Some (UWBusy k)).
    { intros i w0 w' Ei Hn k [j Ej]. exists j. rewrite nth_error_set_nth_ne; [exact Ej|]. intro; subst.
      rewrite Ei in Ej. inversion Ej. eapply Hn; eauto. }
    assert (Hexit : forall i w0 w' (f : ufeed) (e : option ekind),
              nth_error (u_workers s) i = Some w0 ->
              (w' = UWExited -> is_done f = true \/ e <> None) ->
              (is_done f = false -> is_done (u_feed s) = false) -> (u_err s <> None -> e <> None) ->
              is_done f = false -> forall j, nth_error (set_nth (u_workers s) i w') j = Some UWExited -> e <> None).
    { intros i w0 w' f e Ei Hw Hf He Hd j Ej. apply nth_error_set_nth in Ej. destruct Ej as [[_ Ej]|[_ Ej]].
      - destruct (Hw (eq_sym Ej)) as [Hx|Hx]; [congruence|exact Hx].
      - apply He. eapply Dx; eauto. }
    destruct t as [| |i| | | | |]; unfold ustep in E.
    - destruct (u_feed s) eqn:Qf; [| |discriminate].
      + destruct (u_req s =? n); [|discriminate]. inversion E; subst; clear E. dleaf.
      + destruct (u_handed s - u_taken s <? cap); [|discriminate]. inversion E; subst; clear E. dleaf.
    - destruct (u_feed s) eqn:Qf; [| |discriminate].
      + destruct (u_cancelled s && (u_req s <? n)) eqn:Qc; [|discriminate]. inversion E; subst; clear E.
        apply andb_true_iff in Qc. destruct Qc as [Qc _]. dleaf.
      + destruct (u_cancelled s && true) eqn:Qc; [|discriminate]. inversion E; subst; clear E.
        apply andb_true_iff in Qc. destruct Qc as [Qc _]. dleaf.
    - destruct (nth_error (u_workers s) i) as [w0|] eqn:Ew; [|discriminate].
      destruct w0 as [|k| |].
      + destruct (u_feed s) eqn:Qf; [| discriminate |].
        * destruct (u_req s <? n) eqn:Q0; [|discriminate]. inversion E; subst; clear E. dleaf.
          -- intros k Hk. destruct (Nat.eq_dec k (u_req s)) as [->|Hne].
             ++ right. exists i. apply nth_error_set_nth_eq. apply nth_error_Some. congruence.
             ++ destruct (Dq k ltac:(lia)) as [Hin|Hb]; [left; exact Hin|right].
                eapply Hbusy; eauto. discriminate.
          -- eapply (Hexit i UWIdle _ UFHand); eauto; try discriminate; try (rewrite Qf; reflexivity).
        * inversion E; subst; clear E. dleaf.
          -- intros k Hk. destruct (Dq k Hk) as [Hin|Hb]; [left; exact Hin|right]. eapply Hbusy; eauto. discriminate.
          -- rewrite Qf. cbn. discriminate.
      + assert (G : forall w' k0, k0 < u_req s -> In k0 (k :: u_fetched s) \/
                                             exists j, nth_error (set_nth (u_workers s) i w') j = Some (UWBusy k0)).
        { intros w' k0 Hk0. destruct (Dq k0 Hk0) as [Hin|[j Ej]]; [left; now right|].
          destruct (Nat.eq_dec j i) as [->|Hne].
          - rewrite Ew in Ej. inversion Ej; subst. left. now left.
          - right. exists j. rewrite nth_error_set_nth_ne; auto. }
        destruct (fetch_ok k); inversion E; subst; clear E; dleaf; try (apply G);
          intros Hd; eapply (Hexit i (UWBusy k) _ (u_feed s)); eauto; discriminate.
      + inversion E; subst; clear E. dleaf.
        intros k Hk. destruct (Dq k Hk) as [Hin|Hb]; [left; exact Hin|right]. eapply Hbusy; eauto. discriminate.
      + discriminate.
    - destruct (u_asm s) as [| |r|c] eqn:Qa; [| | |discriminate].
      + destruct (u_taken s <? u_handed s).
        * inversion E; subst; clear E. dleaf.
        * destruct (is_done (u_feed s)) eqn:Qd; [|discriminate]. inversion E; subst; clear E. dleaf; try (intros Hd; congruence).
      + destruct (existsb (Nat.eqb (u_taken s - 1)) (u_fetched s)); [|discriminate].
        destruct (fetch_ok (u_taken s - 1) && (0 <? csize (u_taken s - 1))); inversion E; subst; clear E; dleaf.
      + destruct (u_rclosed s); [|discriminate]. inversion E; subst; clear E. dleaf.
    - destruct (u_asm s) eqn:Qa; try discriminate.
      destruct (u_cancelled s); [|discriminate]. inversion E; subst; clear E. dleaf.
    - destruct (u_dec s) eqn:Qd; [| |discriminate].
      + destruct (u_cancelled s) eqn:Qc; inversion E; subst; clear E; dleaf; try (rewrite Qc; exact De).
      + destruct (negb (dec_ok (u_pos s))).
        * inversion E; subst; clear E. dleaf.
        * destruct (u_asm s) as [| |[|[|r]]|c] eqn:Qa;
            try (destruct (u_wclosed s) eqn:Qw; [|discriminate]; destruct (boundary (u_pos s)));
            inversion E; subst; clear E; dleaf. 
    - destruct (u_dec s) eqn:Qd; try discriminate. inversion E; subst; clear E. dleaf.
    - destruct (can_cancel && negb (u_ext s)); [|discriminate]. inversion E; subst; clear E. dleaf.
  Qed.

  Lemma run_dinv nw sched : DInv (run step sched (uinit nw)).
  Proof. apply inv_run with (Inv := DInv); [intros; eapply step_dinv; eauto|apply init_dinv]. Qed.

  Lemma run_uworkers_length nw sched : length (u_workers (run step sched (uinit nw))) = nw.
  Proof.
    apply (inv_run step (fun s => length (u_workers s) = nw)).
    - intros s t s' Hs E. rewrite <- Hs.
      destruct t as [| |i| | | | |]; unfold ustep in E; ubreak E; inversion E; subst; clear E; usimp;
        try reflexivity; apply set_nth_length.
    - cbn. apply repeat_length.
  Qed.

  Lemma workers_cases (l : list uwork) :
    (exists i k, nth_error l i = Some (UWBusy k)) \/ (exists i, nth_error l i = Some UWErr) \/
    (exists i, nth_error l i = Some UWIdle) \/
    forallb (fun w => match w with UWExited => true | _ => false end) l = true.
  Proof.
    induction l as [|w r IH]; [right; right; right; reflexivity|].
    destruct w as [|k| |].
    - right; right; left. exists 0. reflexivity.
    - left. exists 0, k. reflexivity.
    - right; left. exists 0. reflexivity.
    - destruct IH as [[i [k Hi]]|[[i Hi]|[[i Hi]|Hall]]].
      + left. exists (S i), k. exact Hi.
      + right; left. exists (S i). exact Hi.
      + right; right; left. exists (S i). exact Hi.
      + right; right; right. cbn. exact Hall.
  Qed.

  (* UnTarIndex cannot get stuck: whenever some goroutine has not returned, one of them can take a
     step -- in particular after a cancellation or an error every goroutine eventually leaves. *)
  Theorem untarindex_deadlock_free nw sched :
    let s := run step sched (uinit nw) in
    0 < nw -> 0 < cap -> ufinal s = false -> exists t, step s t <> None.
  Proof.
    intros s Hnw Hcap Hfin.
    assert (I := run_uinv nw sched). fold s in I. assert (D := run_dinv nw sched). fold s in D.
    assert (Hlen : length (u_workers s) = nw) by apply run_uworkers_length.
    destruct (q_ord _ I) as [O1 [O2 O3]].
    (* a busy or failed worker can always move *)
    assert (BUSY : forall j k, nth_error (u_workers s) j = Some (UWBusy k) -> exists t, step s t <> None).
    { intros j k Hj. exists (UTWorker j). unfold ustep. rewrite Hj. destruct (fetch_ok k); discriminate. }
    (* the assembler waiting for a data channel *)
    assert (WAIT : u_asm s = UAWait -> exists t, step s t <> None).
    { intros Ea. pose proof (q_await _ I Ea) as Ht.
      destruct (d_req _ D (u_taken s - 1) ltac:(lia)) as [Hin|[j Hj]]; [|eapply BUSY; eauto].
      exists UTAsm. unfold ustep. rewrite Ea.
      assert (Ex : existsb (Nat.eqb (u_taken s - 1)) (u_fetched s) = true).
      { apply existsb_exists. exists (u_taken s - 1). split; [exact Hin|apply Nat.eqb_refl]. }
      rewrite Ex. destruct (fetch_ok (u_taken s - 1) && (0 <? csize (u_taken s - 1))); discriminate. }
    (* the assembler inside a pipe write *)
    assert (WRITE : forall r, u_asm s = UAWrite r -> exists t, step s t <> None).
    { intros r Ea. destruct (q_awrite _ I r Ea) as [_ [Hr _]].
      destruct (u_dec s) as [| |[|]] eqn:Ed.
      - exists UTDec. unfold ustep. rewrite Ed. destruct (u_cancelled s); discriminate.
      - exists UTDec. unfold ustep. rewrite Ed, Ea. destruct (negb (dec_ok (u_pos s))); [discriminate|].
        destruct r as [|[|r]]; [lia|discriminate|discriminate].
      - pose proof (d_dclean _ D Ed) as Hw. rewrite (d_wclosed _ D), Ea in Hw. discriminate.
      - exists UTAsm. unfold ustep. rewrite Ea.
        assert (Hr' : u_rclosed s = true) by (apply (d_rclosed _ D); exact Ed). rewrite Hr'. discriminate. }
    (* the feeder holding a data channel for the assembler *)
    assert (HAND : u_feed s = UFHand -> exists t, step s t <> None).
    { intros Ef. destruct (u_handed s - u_taken s <? cap) eqn:Eq.
      - exists UTFeed. unfold ustep. rewrite Ef, Eq. discriminate.
      - apply Nat.ltb_ge in Eq. assert (Hlt : u_taken s < u_handed s) by lia.
        destruct (u_asm s) as [| |r|[|]] eqn:Ea.
        + exists UTAsm. unfold ustep. rewrite Ea. apply Nat.ltb_lt in Hlt. rewrite Hlt. discriminate.
        + apply WAIT. reflexivity.
        + eapply WRITE. reflexivity.
        + destruct (q_adone _ I Ea) as [_ [Hth _]]. lia.
        + exists UTFeedCancel. unfold ustep. rewrite Ef.
          assert (Hc : u_cancelled s = true) by (apply (d_errc _ D), (q_aerr _ I); exact Ea).
          rewrite Hc. cbn. destruct (u_err s); discriminate. }
    destruct (workers_cases (u_workers s)) as [[i [k Hb]]|[[i He]|[[i Hi]|Hall]]].
    - eapply BUSY; eauto.
    - exists (UTWorker i). unfold ustep. rewrite He. discriminate.
    - destruct (u_feed s) as [| |b] eqn:Ef.
      + destruct (u_req s <? n) eqn:Eq.
        * exists (UTWorker i). unfold ustep. rewrite Hi, Ef, Eq. discriminate.
        * apply Nat.ltb_ge in Eq. exists UTFeed. unfold ustep. rewrite Ef.
          assert (En : u_req s =? n = true) by (apply Nat.eqb_eq; lia). rewrite En. discriminate.
      + apply HAND. reflexivity.
      + exists (UTWorker i). unfold ustep. rewrite Hi, Ef. discriminate.
    - (* every worker has returned *)
      assert (Hw0 : nth_error (u_workers s) 0 = Some UWExited).
      { destruct (u_workers s) as [|w r] eqn:El; [cbn in Hlen; lia|].
        cbn in Hall. destruct w; try discriminate. reflexivity. }
      destruct (u_feed s) as [| |b] eqn:Ef.
      + destruct (u_req s =? n) eqn:Eq.
        * exists UTFeed. unfold ustep. rewrite Ef, Eq. discriminate.
        * apply Nat.eqb_neq in Eq. exists UTFeedCancel. unfold ustep. rewrite Ef.
          assert (Hc : u_cancelled s = true).
          { apply (d_errc _ D). eapply (d_exit _ D); [rewrite Ef; reflexivity|exact Hw0]. }
          assert (El : u_req s <? n = true) by (apply Nat.ltb_lt; lia).
          rewrite Hc, El. cbn. discriminate.
      + apply HAND. reflexivity.
      + destruct (u_asm s) as [| |r|c] eqn:Ea.
        * exists UTAsm. unfold ustep. rewrite Ea, Ef. destruct (u_taken s <? u_handed s); discriminate.
        * apply WAIT. reflexivity.
        * eapply WRITE. reflexivity.
        * destruct (u_dec s) as [| |c'] eqn:Ed.
          -- exists UTDec. unfold ustep. rewrite Ed. destruct (u_cancelled s); discriminate.
          -- exists UTDec. unfold ustep. rewrite Ed, Ea. destruct (negb (dec_ok (u_pos s))); [discriminate|].
             assert (Hwc : u_wclosed s = true) by (rewrite (d_wclosed _ D), Ea; reflexivity).
             rewrite Hwc. destruct (boundary (u_pos s)); discriminate.
          -- exfalso. unfold ufinal in Hfin. rewrite Ef, Hall, Ea, Ed in Hfin. discriminate.
  Qed.
End UnTarProofs.

(* The code before the fix: the decoder has passed its ctx check and waits for bytes; the context is
   cancelled before the first request; feeder and assembler leave their loops and return nil, the pipe
   is closed, the decoder sees EOF at offset 0 -- an element boundary -- and returns nil.  The fixed
   code returns Interrupted under the same schedule. *)
Theorem untarindex_prefix_refuted n csize fetch_ok boundary dec_ok cap :
  0 < n -> boundary 0 = true -> dec_ok 0 = true ->
  exists nw sched,
    let s := run (ustep n csize fetch_ok boundary dec_ok cap false true) sched (uinit nw) in
    let s' := run (ustep n csize fetch_ok boundary dec_ok cap true true) sched (uinit nw) in
    ufinal s = true /\ untar_result s = RNil /\ u_pos s = 0 /\ u_wdone s = 0 /\ u_fetched s = [] /\
    ufinal s' = true /\ untar_result s' = RInterrupted.
Proof.
  intros Hn Hb Hd.
  exists 1, [UTDec; UTCancel; UTFeedCancel; UTWorker 0; UTAsmCancel; UTDec].
  destruct n as [|m]; [lia|].
  change [UTDec; UTCancel; UTFeedCancel; UTWorker 0; UTAsmCancel; UTDec]
    with ([UTDec; UTCancel; UTFeedCancel; UTWorker 0; UTAsmCancel] ++ [UTDec]).
  cbv zeta. rewrite !run_app.
  (* the first five steps do not consult boundary / dec_ok: evaluate them in the VM *)
  set (pre := run (ustep (S m) csize fetch_ok boundary dec_ok cap false true)
                  [UTDec; UTCancel; UTFeedCancel; UTWorker 0; UTAsmCancel] (uinit 1)).
  set (pre' := run (ustep (S m) csize fetch_ok boundary dec_ok cap true true)
                   [UTDec; UTCancel; UTFeedCancel; UTWorker 0; UTAsmCancel] (uinit 1)).
  vm_compute in pre. vm_compute in pre'. subst pre pre'.
  unfold run, run1, fold_left, ustep.
  cbn [u_dec u_pos u_asm u_wclosed negb]. rewrite Hd. cbn [negb]. rewrite Hb.
  vm_compute. repeat split; reflexivity.
Qed.
