(* C18: the name discipline of ArchiveDecoder.Next (decoder as it is now, policy [Fixed]).

   a.dir is always [rel cs] for a list [cs] of validated single components, every Name
   handed to the writer is [rel (cs0 ++ [base])] (or [rel cs0] for the nameless first
   entry) with [cs0] a prefix of the directory the call started in, and goodbyes in excess
   stay at ".".  The string facts come from Base/GoPath.v (Clean = clean_spec). *)
From Coq Require Import List NArith Arith Bool Lia.
From DS Require Import Base.Bytes Base.GoPath Model.ArchiveNames.
Import ListNotations.

(* ---------- validated names ---------- *)

Lemma existsb_slash_false n : existsb is_slash n = false -> noslash n.
Proof.
  induction n as [|c n IH]; intros E; [intros []|]. cbn [existsb] in E. apply orb_false_iff in E as [E1 E2].
  apply noslash_cons. split; [now apply is_slash_false|auto].
Qed.

Lemma bad_name_real n : bad_name n = false -> real_elem n.
Proof.
  unfold bad_name. destruct n as [|x r]; [discriminate|]. intros E.
  apply orb_false_iff in E as [E E3]. apply orb_false_iff in E as [E1 E2].
  split; [|now apply existsb_slash_false].
  cbn [kind]. destruct (is_dot x) eqn:Dx; [|reflexivity]. apply is_dot_true in Dx. subst x.
  destruct r as [|y r'].
  - exfalso. apply beq_neq in E1. congruence.
  - destruct (is_dot y) eqn:Dy; [|reflexivity]. apply is_dot_true in Dy. subst y.
    destruct r'; [|reflexivity]. exfalso. apply beq_neq in E2. congruence.
Qed.

Lemma real_elem_noslash e : real_elem e -> noslash e.
Proof. now intros []. Qed.

Lemma Forall_real_noslash l : Forall real_elem l -> Forall noslash l.
Proof. intros F. eapply Forall_impl; [|exact F]. exact real_elem_noslash. Qed.

(* ---------- Clean on component lists ---------- *)

Lemma join47_app a b : a <> [] -> b <> [] -> join47 (a ++ b) = join47 a ++ slash :: join47 b.
Proof.
  induction a as [|x a IH]; intros Ha Hb; [congruence|]. cbn [app]. rewrite !join47_cons.
  destruct a as [|y a].
  - cbn [app sepj]. rewrite app_nil_r. destruct b; [congruence|reflexivity].
  - cbn [app] in *. cbn [sepj]. rewrite IH by (try discriminate; exact Hb).
    cbn [sepj]. rewrite <- app_assoc. reflexivity.
Qed.

Lemma join47_head_real e l : real_elem e -> exists c j, join47 (e :: l) = c :: j /\ is_slash c = false.
Proof.
  intros R. destruct (real_elem_head _ R) as [c [e' [-> Hc]]]. rewrite join47_cons. now exists c, (e' ++ sepj l).
Qed.

(* Clean of a relative path whose first byte is not '/', by components *)
Lemma clean_rel_comps L c j :
  Forall noslash L -> L <> [] -> join47 L = c :: j -> is_slash c = false ->
  clean (join47 L) = finish (render false (fold_left (cstep false) L (0, []))).
Proof.
  intros N Hne E Hc. rewrite clean_eq_spec. rewrite E. unfold clean_spec. rewrite Hc. rewrite <- E.
  now rewrite split47_join47.
Qed.

(* Clean of "/" ++ components *)
Lemma clean_rooted_comps L :
  Forall noslash L -> L <> [] ->
  clean (slash :: join47 L) = finish (render true (fold_left (cstep true) L (0, []))).
Proof.
  intros N Hne. rewrite clean_eq_spec. unfold clean_spec. change (is_slash slash) with true. cbv iota zeta.
  now rewrite split47_join47.
Qed.

Lemma cstep_dot rooted st : cstep rooted st [dot] = st.
Proof. reflexivity. Qed.
Lemma cstep_empty rooted st : cstep rooted st [] = st.
Proof. reflexivity. Qed.

Lemma noslash_dot : noslash [dot].
Proof. intros [H|[]]. discriminate. Qed.
Lemma noslash_nil : noslash [].
Proof. intros []. Qed.

Lemma rel_nonempty cs : Forall real_elem cs -> rel cs <> [].
Proof.
  destruct cs as [|e l]; [discriminate|]. intros F. inversion F; subst. cbn [rel].
  destruct (join47_head_real e l H1) as (c & j & E & _). rewrite E. discriminate.
Qed.

Lemma finish_join47 cs : Forall real_elem cs -> finish (join47 cs) = rel cs.
Proof.
  intros F. destruct cs as [|e l]; [reflexivity|]. cbn [rel]. inversion F; subst.
  destruct (join47_head_real e l H1) as (c & j & E & _). now rewrite E.
Qed.

Lemma render_false_real cs : render false (0, rev cs) = join47 cs.
Proof. unfold render, comps_of. cbn [fst snd repeat app root_prefix]. now rewrite rev_involutive. Qed.

Lemma render_true_real cs : render true (0, rev cs) = slash :: join47 cs.
Proof. unfold render, comps_of. cbn [fst snd repeat app root_prefix]. now rewrite rev_involutive. Qed.

(* "cs/" cleans to cs, "./" to "." *)
Lemma clean_rel_trailing_slash cs : Forall real_elem cs -> clean (rel cs ++ [slash]) = rel cs.
Proof.
  intros F. destruct cs as [|e l].
  - reflexivity.
  - assert (Hne : e :: l <> []) by discriminate.
    replace (rel (e :: l) ++ [slash]) with (join47 ((e :: l) ++ [[]])).
    2:{ rewrite join47_snoc. reflexivity. }
    inversion F as [|? ? Re Fl]; subst.
    destruct (join47_head_real e (l ++ [[]]) Re) as (c & j & E & Hc).
    rewrite (clean_rel_comps ((e :: l) ++ [[]]) c j).
    + rewrite fold_left_app, fold_push_real by exact F. cbn [fold_left]. rewrite cstep_empty, app_nil_r.
      rewrite render_false_real. now apply finish_join47.
    + apply Forall_app. split; [now apply Forall_real_noslash|constructor; [exact noslash_nil|constructor]].
    + discriminate.
    + exact E.
    + exact Hc.
Qed.

(* ---------- path.Join / filepath.Dir on rel ---------- *)

Lemma join_buf_two a b : a <> [] -> join_buf [] [a; b] = a ++ slash :: b.
Proof. destruct a; [congruence|]. intros _. reflexivity. Qed.

Lemma join_two a b : a <> [] -> GoPath.join [a; b] = clean (a ++ slash :: b).
Proof.
  intros Ha. unfold GoPath.join. rewrite join_buf_two by exact Ha.
  destruct a; [congruence|]. reflexivity.
Qed.

(* path.Join(a.dir, name) for a validated name *)
Lemma join_rel_name cs n : Forall real_elem cs -> real_elem n -> GoPath.join [rel cs; n] = rel (cs ++ [n]).
Proof.
  intros F R. rewrite join_two by now apply rel_nonempty.
  destruct cs as [|e l].
  - cbn [rel app].
    change (clean (join47 [[dot]; n]) = join47 [n]).
    rewrite (clean_rel_comps [[dot]; n] dot (slash :: n)).
    + cbn [fold_left]. rewrite cstep_dot. unfold cstep. destruct R as [K Nn]. rewrite K. cbn [fst snd].
      assert (R : real_elem n) by (split; assumption).
      change (render false (0, [n])) with (render false (0, rev [n])).
      rewrite render_false_real. apply finish_join47. constructor; [exact R|constructor].
    + constructor; [exact noslash_dot|constructor; [now apply real_elem_noslash|constructor]].
    + discriminate.
    + reflexivity.
    + reflexivity.
  - assert (Hr : rel (e :: l) ++ slash :: n = join47 ((e :: l) ++ [n])) by (rewrite join47_snoc; reflexivity).
    rewrite Hr. replace (rel ((e :: l) ++ [n])) with (join47 ((e :: l) ++ [n])) by reflexivity.
    apply (clean_of_clean_rel 0 ((e :: l) ++ [n])).
    + apply Forall_app. split; [exact F|constructor; [exact R|constructor]].
    + discriminate.
Qed.

(* path.Join(a.dir, "") *)
Lemma join_rel_empty cs : Forall real_elem cs -> GoPath.join [rel cs; []] = rel cs.
Proof.
  intros F. rewrite join_two by now apply rel_nonempty. now apply clean_rel_trailing_slash.
Qed.

(* filepath.Dir(a.dir): one component less; "." stays "." *)
Lemma dir_rel cs : Forall real_elem cs -> GoPath.dir (rel cs) = rel (removelast cs).
Proof.
  intros F. destruct cs as [|e l] using rev_ind; [reflexivity|]. clear IHl.
  rewrite removelast_last. apply Forall_app in F as [Fl Fe]. inversion Fe as [|? ? Re _]; subst.
  unfold GoPath.dir. destruct l as [|e0 l].
  - cbn [app rel join47]. rewrite split_path_noslash by now apply real_elem_noslash. reflexivity.
  - replace (rel ((e0 :: l) ++ [e])) with (join47 (e0 :: l) ++ slash :: e) by (symmetry; apply join47_snoc).
    rewrite split_path_app_slash by now apply real_elem_noslash. cbn [fst].
    apply (clean_rel_trailing_slash (e0 :: l) Fl).
Qed.

(* filepath.Join(root, name) for an absolute clean root and a relative clean name *)
Lemma join_root_rel rs cs : rs <> [] -> Forall real_elem rs -> Forall real_elem cs ->
  GoPath.join [slash :: join47 rs; rel cs] = slash :: join47 (rs ++ cs).
Proof.
  intros Hne Fr Fc. rewrite join_two by discriminate. cbn [app].
  destruct cs as [|e l].
  - rewrite app_nil_r. cbn [rel].
    replace (join47 rs ++ slash :: [dot]) with (join47 (rs ++ [[dot]])) by (rewrite join47_snoc; destruct rs; [congruence|reflexivity]).
    rewrite clean_rooted_comps.
    + rewrite fold_left_app, fold_push_real by exact Fr. cbn [fold_left]. rewrite cstep_dot, app_nil_r.
      rewrite render_true_real. reflexivity.
    + apply Forall_app. split; [now apply Forall_real_noslash|constructor; [exact noslash_dot|constructor]].
    + destruct rs; [congruence|discriminate].
  - cbn [rel]. rewrite <- join47_app by (try exact Hne; discriminate).
    apply clean_of_clean_rooted. apply Forall_app. now split.
Qed.

Lemma split47_rooted xs : xs <> [] -> Forall noslash xs -> split47 (slash :: join47 xs) = [] :: xs.
Proof.
  intros Hne N. change (slash :: join47 xs) with ([] ++ slash :: join47 xs).
  rewrite split47_app_slash by exact noslash_nil. now rewrite split47_join47.
Qed.

(* ---------- Next ---------- *)

Definition opt_comp (base : bytes) : list bytes := match base with [] => [] | _ :: _ => [base] end.
Definition name_ok (n : bytes) : Prop := n = [] \/ real_elem n.
Definition prefix_of (a b : list bytes) : Prop := exists t, b = a ++ t.

Lemma prefix_of_refl a : prefix_of a a.
Proof. exists []. now rewrite app_nil_r. Qed.

Lemma prefix_of_removelast a b : prefix_of a b -> prefix_of (removelast a) b.
Proof.
  intros [t ->]. destruct a as [|x a] using rev_ind; [now exists t|].
  rewrite removelast_last. exists ([x] ++ t). now rewrite <- app_assoc.
Qed.

Lemma Forall_removelast {A} (P : A -> Prop) l : Forall P l -> Forall P (removelast l).
Proof.
  intros F. destruct l as [|x l] using rev_ind; [constructor|]. rewrite removelast_last.
  now apply Forall_app in F as [F _].
Qed.

Lemma join_rel_opt cs base : Forall real_elem cs -> name_ok base ->
  GoPath.join [rel cs; base] = rel (cs ++ opt_comp base).
Proof.
  intros F [->|R].
  - cbn [opt_comp]. rewrite app_nil_r. now apply join_rel_empty.
  - destruct base as [|x r]; [destruct R as [K _]; discriminate|]. cbn [opt_comp]. now apply join_rel_name.
Qed.

Lemma Forall_app_opt cs base : Forall real_elem cs -> name_ok base -> Forall real_elem (cs ++ opt_comp base).
Proof.
  intros F [->|R]; [cbn; now rewrite app_nil_r|]. apply Forall_app. split; [exact F|].
  destruct base; [constructor|constructor; [exact R|constructor]].
Qed.

(* what a returned node looks like *)
Definition node_shape (started : dstate) (cs : list bytes) (nd : anode) (base dir' : bytes) : Prop :=
  started <> LeafRoot /\
  exists cs0, prefix_of cs0 cs /\ Forall real_elem cs0 /\ name_ok base /\ (base = [] -> started = Fresh) /\
              node_name nd = rel (cs0 ++ opt_comp base) /\
              dir' = rel (if is_dir_node nd then cs0 ++ opt_comp base else cs0).

Lemma finish_entry_shape started cs0 cs l e rest nd base dir' rest' :
  prefix_of cs0 cs -> Forall real_elem cs0 -> name_ok (l_name l) ->
  finish_entry Fixed started (rel cs0) l e rest = NNode nd base dir' rest' ->
  node_shape started cs nd base dir' /\ rest' = rest.
Proof.
  intros P F N E. unfold finish_entry in E. destruct e as [[[mode uid] gid] mtime].
  destruct (nameless_rejected Fixed started (l_name l)) eqn:NR; [discriminate|].
  destruct (leaf_rejected Fixed started) eqn:LR; [discriminate|].
  assert (Hs : l_name l = [] -> started = Fresh).
  { intros E0. rewrite E0 in NR. cbn in NR. now destruct started. }
  assert (Hl : started <> LeafRoot) by (intros ->; discriminate).
  pose proof (join_rel_opt cs0 (l_name l) F N) as J.
  destruct (l_payload l) as [data|]; [|destruct (l_device l) as [[major minor]|]; [|destruct (l_symlink l) as [t|]]];
    inversion E; subst; (split; [|reflexivity]); (split; [exact Hl|]); exists cs0; repeat split; auto.
Qed.

Lemma next_loop_shape : forall inp started cs0 cs l nd base dir' rest,
  prefix_of cs0 cs -> Forall real_elem cs0 -> name_ok (l_name l) ->
  next_loop Fixed started (rel cs0) l inp = NNode nd base dir' rest ->
  node_shape started cs nd base dir'.
Proof.
  induction inp as [|c inp IH]; intros started cs0 cs l nd base dir' rest P F N E; [discriminate|].
  cbn [next_loop] in E. destruct c as [mode uid gid mtime|name|data|t|major minor|nv| | | |].
  - destruct (l_entry l); [discriminate|]. refine (IH _ _ _ _ _ _ _ _ P F _ E); exact N.
  - destruct (l_entry l) as [e|].
    + refine (proj1 (finish_entry_shape _ _ _ _ _ _ _ _ _ _ P F _ E)); exact N.
    + unfold name_rejected in E. destruct (bad_name name) eqn:B; [discriminate|].
      refine (IH _ _ _ _ _ _ _ _ P F _ E). right. now apply bad_name_real.
  - destruct (l_entry l) as [e|]; [|discriminate].
    refine (proj1 (finish_entry_shape _ _ _ _ _ _ _ _ _ _ P F _ E)); exact N.
  - destruct (l_entry l); [|discriminate]. refine (IH _ _ _ _ _ _ _ _ P F _ E); exact N.
  - destruct (l_entry l); [|discriminate]. refine (IH _ _ _ _ _ _ _ _ P F _ E); exact N.
  - destruct (l_entry l); [|discriminate]. destruct (split_nul nv) as [[k v]|]; [|discriminate].
    refine (IH _ _ _ _ _ _ _ _ P F _ E); exact N.
  - destruct (l_entry l) as [e|].
    + refine (proj1 (finish_entry_shape _ _ _ _ _ _ _ _ _ _ P F _ E)); exact N.
    + rewrite dir_rel in E by exact F.
      refine (IH _ _ _ _ _ _ _ _ (prefix_of_removelast _ _ P) (Forall_removelast _ _ F) _ E); exact N.
  - refine (IH _ _ _ _ _ _ _ _ P F _ E); exact N.
  - discriminate.
  - discriminate.
Qed.

(* ArchiveDecoder.Next started in directory [rel cs] *)
Lemma archive_next_shape started cs inp nd base dir' rest :
  Forall real_elem cs -> archive_next Fixed started (rel cs) inp = NNode nd base dir' rest ->
  node_shape started cs nd base dir'.
Proof.
  intros F E. unfold archive_next in E. eapply next_loop_shape; eauto.
  - apply prefix_of_refl.
  - now left.
Qed.

(* every call consumes input: the remaining input is shorter *)
Lemma finish_entry_rest pol started dir l e rest nd base dir' rest' :
  finish_entry pol started dir l e rest = NNode nd base dir' rest' -> rest' = rest.
Proof.
  unfold finish_entry. destruct e as [[[mode uid] gid] mtime].
  destruct (nameless_rejected pol started (l_name l)); [discriminate|].
  destruct (leaf_rejected pol started); [discriminate|].
  destruct (l_payload l); [|destruct (l_device l) as [[? ?]|]; [|destruct (l_symlink l)]]; intros E; now inversion E.
Qed.

Lemma next_loop_rest pol : forall inp started dir l nd base dir' rest,
  next_loop pol started dir l inp = NNode nd base dir' rest ->
  length rest <= length inp /\ (l_entry l = None -> length rest < length inp).
Proof.
  induction inp as [|c inp IH]; intros started dir l nd base dir' rest E; [discriminate|].
  cbn [next_loop] in E. cbn [length].
  destruct c as [mode uid gid mtime|name|data|t|major minor|nv| | | |].
  - destruct (l_entry l) eqn:Le; [discriminate|]. apply IH in E as [E1 _]. split; [lia|intros _; lia].
  - destruct (l_entry l) as [e|] eqn:Le.
    + apply finish_entry_rest in E. subst. cbn [length]. split; [lia|discriminate].
    + destruct (name_rejected pol name); [discriminate|]. apply IH in E as [E1 E2]. cbn [l_entry] in E2.
      specialize (E2 ltac:(first [exact Le|reflexivity])). split; [lia|intros _; lia].
  - destruct (l_entry l) as [e|] eqn:Le; [|discriminate]. apply finish_entry_rest in E. subst. split; [lia|discriminate].
  - destruct (l_entry l) eqn:Le; [|discriminate]. apply IH in E as [E1 _]. split; [lia|discriminate].
  - destruct (l_entry l) eqn:Le; [|discriminate]. apply IH in E as [E1 _]. split; [lia|discriminate].
  - destruct (l_entry l) eqn:Le; [|discriminate]. destruct (split_nul nv) as [[k v]|]; [|discriminate].
    apply IH in E as [E1 _]. split; [lia|discriminate].
  - destruct (l_entry l) as [e|] eqn:Le.
    + apply finish_entry_rest in E. subst. cbn [length]. split; [lia|discriminate].
    + apply IH in E as [E1 E2]. specialize (E2 ltac:(first [exact Le|reflexivity])). split; [lia|intros _; lia].
  - apply IH in E as [E1 E2]. split; [lia|intros H; specialize (E2 H); lia].
  - discriminate.
  - discriminate.
Qed.

Lemma archive_next_rest pol started dir inp nd base dir' rest :
  archive_next pol started dir inp = NNode nd base dir' rest -> length rest < length inp.
Proof. intros E. apply next_loop_rest in E as [_ E]. now apply E. Qed.
