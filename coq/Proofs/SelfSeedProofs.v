(* Every row the self seed offers belongs to a segment that was reported finished. *)
From Coq Require Import List NArith Arith Bool Lia.
From DS Require Import Base.Bytes Base.Hash Model.SelfSeed.
Import ListNotations.

Definition covered_by (adds : list (nat * nat)) (i : nat) : Prop :=
  exists seg, In seg adds /\ fst seg <= i <= snd seg.

(* invariant: rows below written are covered; cache entries are reported segments *)
Definition SInv (adds : list (nat * nat)) (s : sstate) : Prop :=
  (forall i, i < ss_written s -> covered_by adds i) /\
  (forall k v, cache_get (ss_cache s) k = Some v -> In (k, v - 1) adds /\ 1 <= v).

Lemma cache_get_del c k k' : cache_get (cache_del c k) k' = if k =? k' then None else cache_get c k'.
Proof.
  induction c as [|[a v] r IH]; cbn; [destruct (k =? k'); reflexivity|].
  destruct (a =? k) eqn:E1.
  - apply Nat.eqb_eq in E1. subst a. rewrite IH. destruct (k =? k') eqn:E2; [reflexivity|]. reflexivity.
  - cbn. rewrite IH. destruct (a =? k') eqn:E2; [|reflexivity].
    apply Nat.eqb_eq in E2. subst a. rewrite Nat.eqb_sym in E1. rewrite E1. reflexivity.
Qed.

Lemma advance_inv adds : forall fuel s, SInv adds s -> SInv adds (advance fuel s).
Proof.
  induction fuel as [|f IH]; intros s I; [exact I|]. cbn [advance].
  destruct (cache_get (ss_cache s) (ss_written s)) as [next|] eqn:E; [|exact I].
  apply IH. destruct I as [I1 I2]. destruct (I2 _ _ E) as [Hin Hv]. split; cbn [ss_written ss_cache].
  - intros i Hi. destruct (Nat.lt_ge_cases i (ss_written s)) as [Hl|Hg]; [apply I1; exact Hl|].
    exists (ss_written s, next - 1). split; [exact Hin|cbn; lia].
  - intros k v Hk. rewrite cache_get_del in Hk. destruct (ss_written s =? k); [discriminate|]. apply I2. exact Hk.
Qed.

Lemma add_inv adds s seg : SInv adds s -> SInv (adds ++ [seg]) (ss_add s seg).
Proof.
  intros [I1 I2]. unfold ss_add. apply advance_inv. split; cbn [ss_written ss_cache].
  - intros i Hi. destruct (I1 i Hi) as (sg & Hin & Hr). exists sg. split; [apply in_or_app; left; exact Hin|exact Hr].
  - intros k v Hk. unfold cache_set in Hk. cbn [cache_get] in Hk.
    destruct (fst seg =? k) eqn:E.
    + apply Nat.eqb_eq in E. injection Hk as <-. subst k. split; [|lia].
      apply in_or_app. right. left. destruct seg as [a b]. cbn. f_equal. lia.
    + rewrite cache_get_del in Hk. rewrite E in Hk. destruct (I2 _ _ Hk) as [Hin Hv]. split; [apply in_or_app; left; exact Hin|exact Hv].
Qed.

Lemma run_inv_from adds0 s0 : SInv adds0 s0 -> forall adds, SInv (adds0 ++ adds) (fold_left ss_add adds s0).
Proof.
  intros I0 adds. revert adds0 s0 I0. induction adds as [|seg r IH]; intros adds0 s0 I0; cbn.
  - rewrite app_nil_r. exact I0.
  - replace (adds0 ++ seg :: r) with ((adds0 ++ [seg]) ++ r) by (rewrite <- app_assoc; reflexivity).
    apply IH. apply add_inv. exact I0.
Qed.

Lemma find_row_spec ids : forall i limit x p, find_row ids i limit x = Some p ->
  i <= p < limit /\ nth_error ids (p - i) = Some x /\
  (forall q, i <= q < p -> nth_error ids (q - i) <> Some x).
Proof.
  induction ids as [|y r IH]; intros i limit x p E; cbn in E; [discriminate|].
  destruct (limit <=? i) eqn:El; [discriminate|]. apply Nat.leb_gt in El.
  destruct (N.eqb y x) eqn:Ey.
  - injection E as <-. apply N.eqb_eq in Ey. subst y. rewrite Nat.sub_diag. cbn.
    repeat split; [lia|lia|intros q Hq; lia].
  - destruct (IH (S i) limit x p E) as (A & B & C).
    split; [lia|]. split.
    + replace (p - i) with (S (p - S i)) by lia. exact B.
    + intros q Hq. destruct (Nat.eq_dec q i) as [->|Hne].
      * rewrite Nat.sub_diag. cbn. intro Hx. injection Hx as <-. rewrite N.eqb_refl in Ey. discriminate.
      * replace (q - i) with (S (q - S i)) by lia. apply C. lia.
Qed.

(* For ANY order in which the workers report their segments: a row the self seed hands out has the
   requested id, is the least such row below [written], and lies in a segment that was reported. *)
Theorem selfseed_sound (ids : list id) (adds : list (nat * nat)) (x : id) (p : nat) :
  ss_get ids (ss_run adds) x = Some p ->
  nth_error ids p = Some x /\ covered_by adds p /\
  (forall q, q < p -> nth_error ids q <> Some x).
Proof.
  intros E. unfold ss_get in E. destruct (find_row_spec ids 0 _ x p E) as (A & B & C).
  rewrite Nat.sub_0_r in B.
  assert (I : SInv ([] ++ adds) (ss_run adds)).
  { apply run_inv_from. split; cbn; [intros i Hi; lia|intros k v Hk; discriminate]. }
  cbn [app] in I. destruct I as [I1 _].
  split; [exact B|]. split; [apply I1; lia|].
  intros q Hq. specialize (C q ltac:(lia)). rewrite Nat.sub_0_r in C. exact C.
Qed.
