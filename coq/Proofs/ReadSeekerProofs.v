(* Proofs about Model/ReadSeeker.v (C09). *)
From Coq Require Import List NArith ZArith Arith Bool Lia ZifyN ZifyNat ZifyBool Permutation.
From DS Require Import Base.Bytes Base.Hash Model.ReadSeeker.
Import ListNotations.
Local Open Scope Z_scope.

(* ---------- lists ---------- *)

Lemma firstn_add {A} (l : list A) n m : firstn (n + m) l = firstn n l ++ firstn m (skipn n l).
Proof.
  revert l. induction n as [|n IH]; intros l; [reflexivity|].
  destruct l as [|x l].
  - rewrite skipn_nil, !firstn_nil. reflexivity.
  - cbn [Nat.add firstn skipn app]. now rewrite IH.
Qed.

Lemma slice_app_next {A} (l : list A) s n m : slice l s n ++ slice l (s + n) m = slice l s (n + m).
Proof. unfold slice. rewrite firstn_add, skipn_skipn. reflexivity. Qed.

Lemma slice_slice {A} (l : list A) s m a n : (a + n <= m)%nat -> slice (slice l s m) a n = slice l (s + a) n.
Proof.
  intros Hle. unfold slice. rewrite <- skipn_skipn.
  generalize (skipn s l) as k. intros k.
  rewrite skipn_firstn_comm, firstn_firstn. f_equal. lia.
Qed.

(* ---------- sort.Search ---------- *)


Lemma div2_bounds i j : (i < j)%nat -> (i <= Nat.div2 (i + j) < j)%nat.
Proof. intros. rewrite Nat.div2_div. split; [apply Nat.div_le_lower_bound|apply Nat.div_lt_upper_bound]; lia. Qed.

Lemma go_search_loop_least n f : mono_upto n f ->
  forall fuel i j, (i <= j <= n)%nat ->
    (forall x, (x < i)%nat -> f x = false) -> (forall x, (j <= x < n)%nat -> f x = true) ->
    (j - i < fuel)%nat ->
    exists k, go_search_loop fuel f i j = Some k /\ (k <= n)%nat /\
              (forall x, (x < k)%nat -> f x = false) /\ (forall x, (k <= x < n)%nat -> f x = true).
Proof.
  intros Hm. induction fuel as [|fuel IH]; intros i j Hij Hlo Hhi Hf; [lia|].
  cbn [go_search_loop]. destruct (i <? j)%nat eqn:E.
  - apply Nat.ltb_lt in E. pose proof (div2_bounds i j E) as Hb.
    set (h := Nat.div2 (i + j)) in *. destruct (f h) eqn:Fh.
    + apply IH; try lia; [exact Hlo|]. intros x Hx. apply (Hm h x); [lia|lia|exact Fh].
    + apply IH; try lia; [|exact Hhi]. intros x Hx.
      destruct (f x) eqn:Fx; [|reflexivity]. rewrite (Hm x h) in Fh; [discriminate|lia|lia|exact Fx].
  - apply Nat.ltb_ge in E. assert (i = j) by lia. subst j.
    exists i. repeat split; [lia|exact Hlo|exact Hhi].
Qed.

(* For a predicate that is monotone on [0,n), sort.Search returns the least index where it holds (n if none). *)
Theorem go_search_least n f : mono_upto n f ->
  exists k, go_search n f = Some k /\ (k <= n)%nat /\
            (forall x, (x < k)%nat -> f x = false) /\ (forall x, (k <= x < n)%nat -> f x = true).
Proof.
  intros Hm. unfold go_search. apply (go_search_loop_least n f Hm); try lia; intros; lia.
Qed.

(* ---------- tiling ---------- *)

Lemma end_from_ge st idx : (st <= end_from st idx)%N.
Proof. revert st. induction idx as [|r rest IH]; intros st; cbn; [lia|]. specialize (IH (st + r_size r)%N). lia. Qed.

Lemma tiles_nth st idx : tiles_from st idx -> forall i r, nth_error idx i = Some r ->
  (st <= r_start r)%N /\ (0 < r_size r)%N /\ (r_start r + r_size r <= end_from st idx)%N /\
  (i = 0%nat -> r_start r = st) /\
  (forall r', nth_error idx (S i) = Some r' -> r_start r' = (r_start r + r_size r)%N) /\
  ((r_start r + r_size r = end_from st idx)%N <-> S i = length idx).
Proof.
  revert st. induction idx as [|a rest IH]; intros st Ht i r Hn; [destruct i; discriminate|].
  destruct Ht as [Hs [Hp Hr]]. destruct i as [|i].
  - cbn in Hn. inversion Hn; subst a. pose proof (end_from_ge (st + r_size r) rest) as Hge.
    cbn [end_from]. repeat split; try lia.
    + intros r' Hn'. cbn in Hn'. destruct rest as [|b rest']; [discriminate|]. cbn in Hn'. inversion Hn'; subst b.
      destruct Hr as [Hb _]. lia.
    + intros E. destruct rest as [|b rest']; [reflexivity|]. exfalso.
      destruct Hr as [Hb [Hbp Hr']]. cbn [end_from] in E. pose proof (end_from_ge (st + r_size r + r_size b) rest'). lia.
    + intros E. destruct rest; [cbn; lia|cbn in E; lia].
  - cbn in Hn. destruct (IH _ Hr i r Hn) as [H1 [H2 [H3 [H4 [H5 H6]]]]]. cbn [end_from length].
    repeat split; try lia. exact H5.
Qed.

Lemma tiles_lt st idx : tiles_from st idx -> forall i j r r', (i < j)%nat ->
  nth_error idx i = Some r -> nth_error idx j = Some r' -> (r_start r + r_size r <= r_start r')%N.
Proof.
  revert st. induction idx as [|a rest IH]; intros st Ht i j r r' Hij Hi Hj; [destruct i; discriminate|].
  destruct Ht as [Hs [Hp Hr]]. destruct j as [|j]; [lia|]. cbn in Hj.
  destruct i as [|i].
  - cbn in Hi. inversion Hi; subst a. destruct (tiles_nth _ _ Hr j r' Hj) as [H1 _]. lia.
  - cbn in Hi. apply (IH _ Hr i j); [lia|assumption|assumption].
Qed.

Lemma r_end_eq r : r_end r = Z.of_N (r_start r) + Z.of_N (r_size r).
Proof. unfold r_end. lia. Qed.

Lemma idx_length_tiles idx : tiles_from 0 idx -> idx_length idx = Z.of_N (end_from 0 idx).
Proof.
  intros Ht. unfold idx_length. destruct idx as [|a rest]; [reflexivity|].
  replace (length (a :: rest) <? 1)%nat with false by (cbn; reflexivity).
  assert (Hl : (length (a :: rest) - 1 < length (a :: rest))%nat) by (cbn; lia).
  apply nth_error_Some in Hl. destruct (nth_error (a :: rest) (length (a :: rest) - 1)) as [r|] eqn:E; [|congruence].
  rewrite (nth_error_nth _ _ row0 E). destruct (tiles_nth _ _ Ht _ _ E) as [_ [_ [_ [_ [_ H6]]]]].
  rewrite r_end_eq. assert (S (length (a :: rest) - 1) = length (a :: rest)) as E2 by (cbn; lia).
  apply H6 in E2. lia.
Qed.

Lemma nth_ok {A} (l : list A) i d : (i < length l)%nat -> exists r, nth_error l i = Some r /\ nth i l d = r.
Proof.
  intros Hl. apply nth_error_Some in Hl. destruct (nth_error l i) as [r|] eqn:E; [|congruence].
  exists r. split; [reflexivity|]. exact (nth_error_nth _ _ d E).
Qed.

(* ---------- findOffset / Seek / loadChunk ---------- *)

Section Reader.
  Variable H : bytes -> id.
  Variable idx : index.
  Hypothesis Ht : tiles_from 0 idx.
  Let L := idx_length idx.

  Lemma search_pred_mono p : mono_upto (length idx) (fun i => p <? r_end (nth i idx row0)).
  Proof.
    intros a b Hab Hb Fa. destruct (nth_ok idx a row0) as [ra [Ea Na]]; [lia|].
    destruct (nth_ok idx b row0) as [rb [Eb Nb]]; [lia|]. rewrite Na in Fa. rewrite Nb.
    apply Z.ltb_lt in Fa. apply Z.ltb_lt. rewrite r_end_eq in *.
    destruct (Nat.eq_dec a b) as [->|Hne]; [congruence|].
    pose proof (tiles_lt _ _ Ht a b ra rb ltac:(lia) Ea Eb). lia.
  Qed.

  Definition at_row (s : ipos) : Prop :=
    exists r, nth_error idx (cur_idx s) = Some r /\ cur_id s = r_id r /\
              pos s = Z.of_N (r_start r) + cur_off s /\
              0 <= cur_off s <= Z.of_N (r_size r) /\
              (cur_off s < Z.of_N (r_size r) \/ pos s = idx_length idx).
  Definition cache_ok (s : ipos) : Prop := cur_chunk s = [] \/ H (cur_chunk s) = cur_id s.

  Lemma ok_nonempty s : idx <> [] -> (ipos_ok H idx s <-> cache_ok s /\ at_row s).
  Proof. unfold ipos_ok, cache_ok, at_row. destruct idx; [congruence|]. tauto. Qed.
  Lemma ok_empty s : idx = [] -> (ipos_ok H idx s <-> s = new_ipos []).
  Proof.
    unfold ipos_ok. intros E. rewrite E. split; [tauto|]. intros ->. split; [left; reflexivity|reflexivity].
  Qed.

  Lemma L_eq : L = Z.of_N (end_from 0 idx).
  Proof. unfold L. apply idx_length_tiles. exact Ht. Qed.

  Lemma ok_pos_le s : ipos_ok H idx s -> 0 <= pos s <= L.
  Proof.
    intros Hok. destruct (list_eq_dec (fun a b : row => ltac:(decide equality; apply N.eq_dec) : {a = b} + {a <> b}) idx []) as [E|E].
    - apply (ok_empty s E) in Hok. subst s. rewrite L_eq, E. cbn. lia.
    - apply (ok_nonempty s E) in Hok. destruct Hok as [_ [r [Hn [_ [Hp [Ho _]]]]]].
      destruct (tiles_nth _ _ Ht _ _ Hn) as [_ [_ [H3 _]]]. rewrite L_eq. lia.
  Qed.

  Lemma find_offset_spec s p : ipos_ok H idx s -> 0 <= p ->
    match find_offset idx s p with
    | Ret (s', r, e) =>
        ipos_ok H idx s' /\
        ((p <= L /\ e = None /\ r = p /\ pos s' = p) \/
         (L < p /\ s' = s /\ r = pos s /\ (e = Some EEmptyBlob \/ e = Some EPastChunk)))
    | _ => False
    end.
  Proof.
    intros Hok Hp. pose proof (ok_pos_le s Hok) as Hpl. unfold find_offset.
    destruct (p - pos s =? 0) eqn:Ed.
    { apply Z.eqb_eq in Ed. split; [exact Hok|]. left. repeat split; lia. }
    apply Z.eqb_neq in Ed.
    destruct (length idx =? 0)%nat eqn:El.
    { apply Nat.eqb_eq in El. split; [exact Hok|]. right.
      assert (E : idx = []) by (destruct idx; [reflexivity|discriminate]).
      apply (ok_empty s E) in Hok. subst s. rewrite L_eq, E in *. cbn in *. repeat split; auto; lia. }
    apply Nat.eqb_neq in El.
    assert (Hne : idx <> []) by (intro E; rewrite E in El; apply El; reflexivity).
    apply (ok_nonempty s Hne) in Hok. destruct Hok as [Hc Hk].
    destruct Hk as [r [Hn [Hid [Hpos [Hoff Hlt]]]]]. rewrite Hn.
    pose proof L_eq as HL.
    destruct ((0 <=? p - pos s + cur_off s) && (p - pos s + cur_off s <? Z.of_N (r_size r))) eqn:Ef.
    { (* within the current chunk *)
      apply andb_true_iff in Ef. destruct Ef as [E1 E2]. apply Z.leb_le in E1. apply Z.ltb_lt in E2.
      destruct (tiles_nth _ _ Ht _ _ Hn) as [_ [_ [H3 _]]].
      split.
      - apply (ok_nonempty _ Hne). split; [exact Hc|]. exists r. cbn [pos cur_id cur_chunk cur_idx cur_off].
        repeat split; try assumption; try lia.
      - left. cbn [pos]. repeat split; lia. }
    (* bisect *)
    destruct (go_search_least (length idx) _ (search_pred_mono p)) as [k0 [Es [Hk0 [Hlo Hhi]]]].
    rewrite Es. clear Es.
    destruct (length idx <=? k0)%nat eqn:Ek.
    - (* no chunk ends after p: p >= L *)
      apply Nat.leb_le in Ek. assert (k0 = length idx) by lia. subst k0.
      destruct (nth_ok idx (length idx - 1) row0) as [nc [En Nn]]; [lia|]. rewrite En.
      destruct (tiles_nth _ _ Ht _ _ En) as [T1 [T2 [T3 [_ [_ T6]]]]].
      assert (Hend : Z.of_N (r_start nc) + Z.of_N (r_size nc) = L).
      { rewrite HL. assert (S (length idx - 1) = length idx) as E2 by lia. apply T6 in E2. lia. }
      assert (Hge : L <= p).
      { specialize (Hlo (length idx - 1)%nat ltac:(lia)). cbn beta in Hlo. rewrite Nn in Hlo.
        apply Z.ltb_ge in Hlo. rewrite r_end_eq in Hlo. lia. }
      destruct (p <? Z.of_N (r_start nc)) eqn:E1; [apply Z.ltb_lt in E1; lia|].
      rewrite r_end_eq. destruct (Z.of_N (r_start nc) + Z.of_N (r_size nc) <? p) eqn:E2.
      + apply Z.ltb_lt in E2. split.
        * apply (ok_nonempty _ Hne). split; [exact Hc|]. exists r. repeat split; try assumption; lia.
        * right. repeat split; auto; lia.
      + apply Z.ltb_ge in E2. assert (p = L) by lia. split.
        * apply (ok_nonempty _ Hne). split.
          -- unfold cache_ok. cbn [cur_chunk cur_id]. destruct (N.eqb (r_id nc) (cur_id s)) eqn:Eid; [|left; reflexivity].
             apply N.eqb_eq in Eid. rewrite Eid. exact Hc.
          -- exists nc. cbn [pos cur_id cur_chunk cur_idx cur_off].
             repeat split; try assumption; try lia; right; fold L; lia.
        * left. cbn [pos]. repeat split; lia.
    - (* chunk k0 is the first that ends after p *)
      apply Nat.leb_gt in Ek.
      destruct (nth_ok idx k0 row0) as [nc [En Nn]]; [lia|]. rewrite En.
      destruct (tiles_nth _ _ Ht _ _ En) as [T1 [T2 [T3 [T4 [_ T6]]]]].
      assert (Hlt2 : p < r_end nc).
      { specialize (Hhi k0 ltac:(lia)). cbn beta in Hhi. rewrite Nn in Hhi. apply Z.ltb_lt in Hhi. exact Hhi. }
      assert (Hst : Z.of_N (r_start nc) <= p).
      { destruct k0 as [|k1]; [rewrite T4 by reflexivity; lia|].
        destruct (nth_ok idx k1 row0) as [pc [Epc Npc]]; [lia|].
        specialize (Hlo k1 ltac:(lia)). cbn beta in Hlo. rewrite Npc in Hlo. apply Z.ltb_ge in Hlo.
        destruct (tiles_nth _ _ Ht _ _ Epc) as [_ [_ [_ [_ [T5 _]]]]]. specialize (T5 _ En).
        rewrite r_end_eq in Hlo. lia. }
      destruct (p <? Z.of_N (r_start nc)) eqn:E1; [apply Z.ltb_lt in E1; lia|].
      destruct (r_end nc <? p) eqn:E2; [apply Z.ltb_lt in E2; lia|].
      rewrite r_end_eq in Hlt2. split.
      + apply (ok_nonempty _ Hne). split.
        * unfold cache_ok. cbn [cur_chunk cur_id]. destruct (N.eqb (r_id nc) (cur_id s)) eqn:Eid; [|left; reflexivity].
          apply N.eqb_eq in Eid. rewrite Eid. exact Hc.
        * exists nc. cbn [pos cur_id cur_chunk cur_idx cur_off].
          repeat split; try assumption; try lia.
      + left. cbn [pos]. repeat split; try lia.
  Qed.

  Lemma seek_spec s off wh : ipos_ok H idx s ->
    match seek idx s off wh with
    | Ret (s', r, e) =>
        ipos_ok H idx s' /\
        match seek_target idx s off wh with
        | None => s' = s /\ r = pos s /\ e = Some EWhence
        | Some t => (0 <= t <= L /\ e = None /\ r = t /\ pos s' = t) \/
                    ((t < 0 \/ L < t) /\ s' = s /\ r = pos s /\ exists x, e = Some x /\ x <> EEOF)
        end
    | _ => False
    end.
  Proof.
    intros Hok. unfold seek, seek_target. fold L.
    destruct (if wh =? SeekStart then Some off
              else if wh =? SeekCurrent then Some (pos s + off)
              else if wh =? SeekEnd then Some (L + off) else None) as [t|]; [|split; [exact Hok|auto]].
    destruct (t <? 0) eqn:En.
    { apply Z.ltb_lt in En. split; [exact Hok|]. right. repeat split; auto. exists ENegative. split; [reflexivity|discriminate]. }
    apply Z.ltb_ge in En. pose proof (find_offset_spec s t Hok En) as Hf.
    destruct (find_offset idx s t) as [[[s' r] e]| |]; try contradiction.
    destruct Hf as [Hok' [[Hle [-> [-> Hp]]]|[Hgt [-> [-> He]]]]].
    - split; [exact Hok'|]. left. destruct (L <? t) eqn:E; [apply Z.ltb_lt in E; lia|]. repeat split; auto; lia.
    - split; [exact Hok'|]. right. repeat split; auto.
      destruct He as [->| ->]; eexists; (split; [reflexivity|discriminate]).
  Qed.

  (* loadChunk *)
  Variable store : store_t.
  Variable nc : nullchunk.
  Hypothesis Hnc : snd nc = H (fst nc).
  Hypothesis Hsound : store_sound H store.

  Lemma load_chunk_spec calls s : idx <> [] -> ipos_ok H idx s ->
    match load_chunk store nc calls s with
    | (s1, calls1, e) =>
        ipos_ok H idx s1 /\ pos s1 = pos s /\ cur_idx s1 = cur_idx s /\ cur_off s1 = cur_off s /\ cur_id s1 = cur_id s /\
        match e with
        | None => H (cur_chunk s1) = cur_id s1 /\ (calls <= calls1)%nat
        | Some x => s1 = s /\ calls1 = S calls /\
                    ((x = ENoData /\ store calls (cur_id s) = SData []) \/
                     exists c, x = store_err c /\ store calls (cur_id s) = SFail c)
        end
    end.
  Proof.
    intros Hne Hok. unfold load_chunk.
    assert (Hkeep : forall d, H d = cur_id s -> ipos_ok H idx (mkpos (pos s) (cur_id s) d (cur_idx s) (cur_off s))).
    { intros d Hd. apply (ok_nonempty s Hne) in Hok. apply (ok_nonempty _ Hne). destruct Hok as [_ Hr].
      split; [right; exact Hd|exact Hr]. }
    destruct (N.eqb (cur_id s) (snd nc)) eqn:En.
    - apply N.eqb_eq in En. assert (Hd : H (fst nc) = cur_id s) by congruence.
      split; [apply Hkeep; exact Hd|]. cbn. repeat split; auto.
    - destruct (store calls (cur_id s)) as [d|c] eqn:Es.
      + destruct (length d =? 0)%nat eqn:El.
        * apply Nat.eqb_eq in El. destruct d; [|discriminate]. split; [exact Hok|]. repeat split; auto.
        * pose proof (Hsound _ _ _ Es) as Hd. split; [apply Hkeep; exact Hd|]. cbn. repeat split; auto.
      + split; [exact Hok|]. repeat split; auto. right. exists c. split; reflexivity.
  Qed.
End Reader.

(* ---------- Read ---------- *)

Lemma describes_row H idx blob : index_describes H idx blob -> forall i r, nth_error idx i = Some r ->
  H (chunk_of blob r) = r_id r /\ length (chunk_of blob r) = N.to_nat (r_size r) /\
  (N.to_nat (r_start r) + N.to_nat (r_size r) <= length blob)%nat.
Proof.
  intros [Ht [He Hf]] i r Hn. split.
  - rewrite Forall_forall in Hf. apply Hf. eapply nth_error_In; eauto.
  - destruct (tiles_nth _ _ Ht _ _ Hn) as [_ [_ [H3 _]]].
    assert (N.to_nat (r_start r) + N.to_nat (r_size r) <= length blob)%nat by lia.
    split; [|assumption]. unfold chunk_of. apply slice_length. assumption.
Qed.

Lemma L_blob H idx blob : index_describes H idx blob -> idx_length idx = Z.of_nat (length blob).
Proof. intros [Ht [E _]]. rewrite (idx_length_tiles _ Ht). lia. Qed.

Section ReadSpec.
  Variable H : bytes -> id.
  Variable idx : index.
  Variable blob : bytes.
  Hypothesis Hd : index_describes H idx blob.
  Variable store : store_t.
  Variable nc : nullchunk.
  Hypothesis Hnc : snd nc = H (fst nc).
  Hypothesis Hsound : store_sound H store.
  Let L := idx_length idx.
  Let Ht : tiles_from 0 idx := proj1 Hd.


  Lemma read_loop_spec : forall fuel calls s remaining acc p0,
    idx <> [] -> ipos_ok H idx s -> (remaining < fuel)%nat ->
    pos s = Z.of_nat p0 + Z.of_nat (length acc) -> acc = slice blob p0 (length acc) ->
    (match read_loop fuel store nc idx calls s remaining acc with
     | Ret (s', calls', d, e) =>
         ipos_ok H idx s' /\ pos s' = Z.of_nat p0 + Z.of_nat (length d) /\ d = slice blob p0 (length d) /\
         (calls <= calls')%nat /\
         match e with
         | None => Z.of_nat (length d) = Z.of_nat (length acc) + Z.min (Z.of_nat remaining) (L - pos s)
         | Some x => exists c k i, x = read_err (store_err c) /\ (calls <= k < calls')%nat /\ store k i = SFail c
         end
     | _ => False
     end) \/ Collision H.
  Proof.
    induction fuel as [|fuel IH]; intros calls s remaining acc p0 Hne Hok Hfuel Hpos Hacc; [lia|].
    pose proof (ok_pos_le H idx Ht s Hok) as Hpl. fold L in Hpl.
    cbn [read_loop]. destruct (remaining =? 0)%nat eqn:Er.
    { apply Nat.eqb_eq in Er. left. split; [exact Hok|]. repeat split; auto; lia. }
    apply Nat.eqb_neq in Er.
    pose proof (proj1 (ok_nonempty H idx Ht s Hne) Hok) as [Hc [r [Hn [Hid [Hp [Hoff Hlt]]]]]].
    destruct (describes_row H idx blob Hd _ _ Hn) as [Hh [Hlen Hin]].
    destruct (tiles_nth _ _ Ht _ _ Hn) as [_ [Hsz [H3 [_ [_ T6]]]]].
    pose proof (L_eq idx Ht) as HL. fold L in HL.
    (* the (possibly skipped) load *)
    assert (Hload : (exists x, (if (length (cur_chunk s) =? 0)%nat then load_chunk store nc calls s else (s, calls, None))
                              = (s, S calls, Some x) /\
                              ((x = ENoData /\ store calls (cur_id s) = SData []) \/
                               exists c, x = store_err c /\ store calls (cur_id s) = SFail c)) \/
                    (exists s1 calls1, (if (length (cur_chunk s) =? 0)%nat then load_chunk store nc calls s else (s, calls, None))
                              = (s1, calls1, None) /\ ipos_ok H idx s1 /\ pos s1 = pos s /\ cur_idx s1 = cur_idx s /\
                              cur_off s1 = cur_off s /\ cur_id s1 = cur_id s /\ H (cur_chunk s1) = cur_id s1 /\
                              (calls <= calls1)%nat)).
    { destruct (length (cur_chunk s) =? 0)%nat eqn:Elc.
      - pose proof (load_chunk_spec H idx Ht store nc Hnc Hsound calls s Hne Hok) as Hl.
        destruct (load_chunk store nc calls s) as [[s1 calls1] [x|]].
        + left. destruct Hl as [_ [_ [_ [_ [_ [-> [-> Hx]]]]]]]. exists x. split; [reflexivity|exact Hx].
        + right. exists s1, calls1. destruct Hl as [A [B [C [D [E [F G]]]]]]. split; [reflexivity|]. split; [exact A|]. repeat split; auto.
      - right. exists s, calls. apply Nat.eqb_neq in Elc. split; [reflexivity|]. split; [exact Hok|]. repeat split; auto.
        destruct Hc as [Hc|Hc]; [rewrite Hc in Elc; cbn in Elc; lia|exact Hc]. }
    destruct Hload as [[x [-> Hx]]|[s1 [calls1 [-> [Hok1 [Ep [Ei [Eo [Eid [Hh1 Hcalls]]]]]]]]]].
    { (* the load failed *)
      destruct Hx as [[-> Hs]|[c [-> Hs]]].
      - right. apply Hsound in Hs. exists [], (chunk_of blob r). split; [|congruence].
        intro E. rewrite <- E in Hlen. cbn in Hlen. lia.
      - left. split; [exact Hok|]. repeat split; auto. exists c, calls, (cur_id s). repeat split; auto. }
    (* the cached chunk is the row's range of the blob *)
    destruct (hash_eq H (cur_chunk s1) (chunk_of blob r)) as [Ecache|C]; [congruence| |right; exact C].
    assert (Hl1 : length (cur_chunk s1) = N.to_nat (r_size r)) by (rewrite Ecache; exact Hlen).
    rewrite Eo. destruct (Z.of_nat (length (cur_chunk s1)) <? cur_off s) eqn:E1; [apply Z.ltb_lt in E1; lia|].
    destruct (cur_off s <? 0) eqn:E2; [apply Z.ltb_lt in E2; lia|].
    set (rem := skipn (Z.to_nat (cur_off s)) (cur_chunk s1)).
    assert (Hlr : length rem = (N.to_nat (r_size r) - Z.to_nat (cur_off s))%nat).
    { unfold rem. rewrite skipn_length. lia. }
    destruct (length rem =? 0)%nat eqn:E3.
    { (* at the end of the last chunk *)
      apply Nat.eqb_eq in E3. assert (Hend : pos s = L) by (destruct Hlt; [lia|assumption]).
      assert (Hlast : S (cur_idx s) = length idx) by (apply T6; lia).
      rewrite Ei. replace (Z.of_nat (cur_idx s) =? Z.of_nat (length idx) - 1) with true by (symmetry; apply Z.eqb_eq; lia).
      cbn [andb]. left. split; [exact Hok1|]. repeat split; auto; lia. }
    apply Nat.eqb_neq in E3. cbn [andb].
    set (c := Nat.min remaining (length rem)).
    assert (Hc1 : (1 <= c <= length rem)%nat) by (unfold c; lia).
    pose proof (seek_spec H idx Ht s1 (Z.of_nat c) SeekCurrent Hok1) as Hs.
    unfold seek_target in Hs. cbn [SeekCurrent SeekStart Z.eqb] in Hs.
    replace (SeekCurrent =? SeekStart) with false in Hs by reflexivity.
    replace (SeekCurrent =? SeekCurrent) with true in Hs by reflexivity.
    destruct (seek idx s1 (Z.of_nat c) SeekCurrent) as [[[s2 rr] e2]| |]; try contradiction.
    destruct Hs as [Hok2 [[Hr [-> [_ Hp2]]]|[Hbad _]]]; [|fold L in Hbad; lia].
    assert (Hf : firstn c rem = slice blob (p0 + length acc) c).
    { unfold rem. rewrite Ecache. unfold chunk_of.
      change (firstn c (skipn (Z.to_nat (cur_off s)) (slice blob (N.to_nat (r_start r)) (N.to_nat (r_size r)))))
        with (slice (slice blob (N.to_nat (r_start r)) (N.to_nat (r_size r))) (Z.to_nat (cur_off s)) c).
      rewrite slice_slice by lia. f_equal. lia. }
    assert (Hfl : length (firstn c rem) = c) by (rewrite firstn_length; lia).
    specialize (IH calls1 s2 (remaining - c)%nat (acc ++ firstn c rem) p0 Hne Hok2 ltac:(lia)).
    rewrite app_length, Hfl in IH.
    assert (Hp2' : pos s2 = Z.of_nat p0 + Z.of_nat (length acc + c)) by lia.
    assert (Hacc' : acc ++ firstn c rem = slice blob p0 (length acc + c)).
    { rewrite Hf. rewrite Hacc at 1. apply slice_app_next. }
    specialize (IH Hp2' Hacc').
    destruct IH as [IH|C]; [|right; exact C].
    left. destruct (read_loop fuel store nc idx calls1 s2 (remaining - c) (acc ++ firstn c rem)) as [[[[s' calls'] d] e]| |]; try contradiction.
    destruct IH as [A [B [C [D E]]]]. split; [exact A|]. repeat split; auto; [lia|].
    destruct e as [x|].
    - destruct E as [cc [k [i [Ex [Hk Hs]]]]]. exists cc, k, i. repeat split; auto; lia.
    - fold L in Hr. lia.
  Qed.
End ReadSpec.

(* ---------- the invariant holds along every history ---------- *)

Lemma new_ipos_ok H idx : tiles_from 0 idx -> ipos_ok H idx (new_ipos idx).
Proof.
  intros Ht. unfold ipos_ok, new_ipos. split; [left; reflexivity|]. destruct idx as [|a rest]; [reflexivity|].
  exists a. cbn. destruct Ht as [Hs [Hp _]]. repeat split; try lia.
Qed.

Section Inv.
  Variable H : bytes -> id.
  Variable idx : index.
  Hypothesis Ht : tiles_from 0 idx.
  Variable store : store_t.
  Variable nc : nullchunk.
  Hypothesis Hnc : snd nc = H (fst nc).
  Hypothesis Hsound : store_sound H store.

  Lemma read_loop_ok : forall fuel calls s remaining acc, idx <> [] -> ipos_ok H idx s ->
    match read_loop fuel store nc idx calls s remaining acc with
    | Ret (s', _, _, _) => ipos_ok H idx s'
    | _ => True
    end.
  Proof.
    induction fuel as [|fuel IH]; intros calls s remaining acc Hne Hok; [exact I|].
    cbn [read_loop]. destruct (remaining =? 0)%nat; [exact Hok|].
    assert (Hl : match (if (length (cur_chunk s) =? 0)%nat then load_chunk store nc calls s else (s, calls, None)) with
                 | (s1, _, _) => ipos_ok H idx s1 end).
    { destruct (length (cur_chunk s) =? 0)%nat; [|exact Hok].
      pose proof (load_chunk_spec H idx Ht store nc Hnc Hsound calls s Hne Hok) as Hl.
      destruct (load_chunk store nc calls s) as [[s1 calls1] e]. exact (proj1 Hl). }
    destruct (if (length (cur_chunk s) =? 0)%nat then load_chunk store nc calls s else (s, calls, None)) as [[s1 calls1] [x|]];
      [exact Hl|].
    destruct (Z.of_nat (length (cur_chunk s1)) <? cur_off s1); [exact I|].
    destruct (cur_off s1 <? 0); [exact I|].
    destruct ((length (skipn (Z.to_nat (cur_off s1)) (cur_chunk s1)) =? 0)%nat && (Z.of_nat (cur_idx s1) =? Z.of_nat (length idx) - 1));
      [exact Hl|].
    pose proof (seek_spec H idx Ht s1 (Z.of_nat (Nat.min remaining (length (skipn (Z.to_nat (cur_off s1)) (cur_chunk s1))))) SeekCurrent Hl) as Hs.
    destruct (seek idx s1 _ SeekCurrent) as [[[s2 rr] [x|]]| |]; try exact I.
    - exact (proj1 Hs).
    - apply IH; [exact Hne|exact (proj1 Hs)].
  Qed.

  Lemma read_ok fuel calls s plen : ipos_ok H idx s ->
    match read fuel store nc idx calls s plen with
    | Ret (s', _, _, _) => ipos_ok H idx s'
    | _ => True
    end.
  Proof.
    intros Hok. unfold read. destruct (pos s =? idx_length idx) eqn:E; [exact Hok|].
    apply read_loop_ok; [|exact Hok]. intros ->.
    apply (ok_empty H [] s eq_refl) in Hok. subst s. cbn in E. discriminate.
  Qed.

  Lemma apply_op_ok st o : ipos_ok H idx (fst st) -> ipos_ok H idx (fst (fst (apply_op store nc idx st o))).
  Proof.
    destruct st as [s calls]. cbn [fst]. intros Hok. destruct o as [off wh|plen]; cbn [apply_op].
    - pose proof (seek_spec H idx Ht s off wh Hok) as Hs.
      destruct (seek idx s off wh) as [[[s' r] e]| |]; try contradiction. exact (proj1 Hs).
    - pose proof (read_ok (read_fuel plen) calls s plen Hok) as Hr.
      destruct (read (read_fuel plen) store nc idx calls s plen) as [[[[s' calls'] d] e]| |]; cbn; assumption.
  Qed.

  Lemma run_ops_ok ops : forall st, ipos_ok H idx (fst st) -> ipos_ok H idx (fst (fst (run_ops store nc idx st ops))).
  Proof.
    induction ops as [|o rest IH]; intros st Hok; [exact Hok|].
    cbn [run_ops]. pose proof (apply_op_ok st o Hok) as H1.
    destruct (apply_op store nc idx st o) as [st' r]. cbn [fst] in H1. specialize (IH st' H1).
    destruct (run_ops store nc idx st' rest) as [st'' rs]. exact IH.
  Qed.
End Inv.

Lemma null_chunk_ok H size : snd (new_null_chunk H size) = H (fst (new_null_chunk H size)).
Proof. reflexivity. Qed.

(* ipos_inv: along every history of Seek and Read, with any faults of a sound store, the cursor stays consistent. *)
Theorem ipos_inv H idx store maxsz ops :
  tiles_from 0 idx -> store_sound H store ->
  ipos_ok H idx (fst (fst (run_ops store (new_null_chunk H maxsz) idx (new_ipos idx, 0%nat) ops))).
Proof.
  intros Ht Hs. apply (run_ops_ok H idx Ht store (new_null_chunk H maxsz) (null_chunk_ok H maxsz) Hs). cbn [fst].
  apply new_ipos_ok. exact Ht.
Qed.

(* ---------- Read and Seek after any history ---------- *)

Lemma slice_len0 {A} (l : list A) s : slice l s 0 = [].
Proof. reflexivity. Qed.


Definition p_lt_L_and_fault (p L : Z) (store : store_t) (calls calls' : nat) (x : err) : Prop :=
  p < L /\ exists c k i, x = read_err (store_err c) /\ (calls <= k < calls')%nat /\ store k i = SFail c.

Lemma read_spec H idx blob store nc calls s plen :
  index_describes H idx blob -> snd nc = H (fst nc) -> store_sound H store -> ipos_ok H idx s ->
  (0 <= pos s <= Z.of_nat (length blob) /\
   read_post H blob store calls (pos s) plen (read (read_fuel plen) store nc idx calls s plen)) \/ Collision H.
Proof.
  intros Hd Hnc Hs Hok. pose proof (proj1 Hd) as Ht.
  pose proof (ok_pos_le H idx Ht s Hok) as Hpl. pose proof (L_blob H idx blob Hd) as HL. rewrite HL in Hpl.
  unfold read. rewrite HL. destruct (pos s =? Z.of_nat (length blob)) eqn:E.
  - apply Z.eqb_eq in E. left. split; [exact Hpl|]. cbn. repeat split; auto; lia.
  - apply Z.eqb_neq in E.
    assert (Hne : idx <> []).
    { intros ->. apply (ok_empty H [] s eq_refl) in Hok. subst s. cbn in *. unfold idx_length in HL. cbn in HL. lia. }
    pose proof (read_loop_spec H idx blob Hd store nc Hnc Hs (read_fuel plen) calls s plen [] (Z.to_nat (pos s))
                  Hne Hok ltac:(unfold read_fuel; lia) ltac:(cbn; lia) eq_refl) as Hr.
    destruct Hr as [Hr|C]; [|right; exact C]. left. split; [exact Hpl|].
    destruct (read_loop (read_fuel plen) store nc idx calls s plen []) as [[[[s' calls'] d] e]| |]; try contradiction.
    destruct Hr as [A [B [C [D E']]]]. cbn. repeat split; auto; try lia.
    destruct e as [x|].
    + destruct E' as [c [k [i [-> [Hk Hst]]]]].
      assert (Hx : p_lt_L_and_fault (pos s) (Z.of_nat (length blob)) store calls calls' (read_err (store_err c))).
      { split; [lia|]. exists c, k, i. split; [reflexivity|]. split; assumption. }
      unfold store_err, read_err in *. destruct (N.eqb c code_bare_eof); exact Hx.
    + rewrite HL in E'. cbn [length] in E'. split; lia.
Qed.

Theorem read_refines_blob H maxsz idx blob store ops plen :
  index_describes H idx blob -> store_sound H store ->
  let nc := new_null_chunk H maxsz in
  let st := fst (run_ops store nc idx (new_ipos idx, 0%nat) ops) in
  (0 <= pos (fst st) <= Z.of_nat (length blob) /\
   read_post H blob store (snd st) (pos (fst st)) plen (read (read_fuel plen) store nc idx (snd st) (fst st) plen))
  \/ Collision H.
Proof.
  intros Hd Hs nc st. apply (read_spec H idx blob store nc (snd st) (fst st) plen Hd (null_chunk_ok H maxsz) Hs).
  apply ipos_inv; [exact (proj1 Hd)|exact Hs].
Qed.


Theorem seek_refines H maxsz idx blob store ops off wh :
  index_describes H idx blob -> store_sound H store ->
  let nc := new_null_chunk H maxsz in
  let s := fst (fst (run_ops store nc idx (new_ipos idx, 0%nat) ops)) in
  seek_post idx (Z.of_nat (length blob)) s off wh (seek idx s off wh).
Proof.
  intros Hd Hs nc s. pose proof (proj1 Hd) as Ht.
  assert (Hok : ipos_ok H idx s) by (apply ipos_inv; assumption).
  pose proof (seek_spec H idx Ht s off wh Hok) as Hsp. rewrite (L_blob H idx blob Hd) in Hsp.
  unfold seek_post. destruct (seek idx s off wh) as [[[s' r] e]| |]; try contradiction.
  destruct Hsp as [_ Hsp]. destruct (seek_target idx s off wh) as [t|].
  - destruct Hsp as [Hsp|[A [-> [B C]]]]; [left; exact Hsp|right; repeat split; auto].
  - destruct Hsp as [-> [-> ->]]. repeat split.
Qed.

(* ---------- the empty index ---------- *)


Lemma find_offset_empty p :
  find_offset [] (new_ipos []) p = Ret (new_ipos [], 0, if p =? 0 then None else Some EEmptyBlob).
Proof.
  unfold find_offset. cbn [pos new_ipos]. rewrite Z.sub_0_r. destruct (p =? 0); reflexivity.
Qed.

Lemma seek_empty off wh :
  seek [] (new_ipos []) off wh =
  Ret (new_ipos [], 0, match seek_target [] (new_ipos []) off wh with
                       | None => Some EWhence
                       | Some t => if t <? 0 then Some ENegative else if t =? 0 then None else Some EEmptyBlob
                       end).
Proof.
  unfold seek, seek_target. change (idx_length []) with 0.
  destruct (if wh =? SeekStart then Some off
            else if wh =? SeekCurrent then Some (pos (new_ipos []) + off)
            else if wh =? SeekEnd then Some (0 + off) else None) as [t|]; [|reflexivity].
  destruct (t <? 0) eqn:En; [reflexivity|]. rewrite find_offset_empty.
  destruct (t =? 0) eqn:E0; [|reflexivity]. apply Z.eqb_eq in E0. subst t. reflexivity.
Qed.

Lemma apply_op_empty store nc o :
  fst (apply_op store nc [] (new_ipos [], 0%nat) o) = (new_ipos [], 0%nat) /\
  empty_res_ok o (snd (apply_op store nc [] (new_ipos [], 0%nat) o)).
Proof.
  destruct o as [off wh|plen].
  - cbn [apply_op]. rewrite seek_empty. cbn [fst snd empty_res_ok]. split; [reflexivity|]. split; [reflexivity|].
    destruct (seek_target [] (new_ipos []) off wh) as [t|]; [|split; discriminate].
    destruct (t <? 0) eqn:En; [apply Z.ltb_lt in En; split; [discriminate|intros E; inversion E; lia]|].
    destruct (t =? 0) eqn:E0.
    + apply Z.eqb_eq in E0. subst t. split; reflexivity.
    + apply Z.eqb_neq in E0. split; [discriminate|intros E; inversion E; lia].
  - cbn. split; [reflexivity|]. split; reflexivity.
Qed.

Theorem ipos_empty store nc ops :
  fst (run_ops store nc [] (new_ipos [], 0%nat) ops) = (new_ipos [], 0%nat) /\
  Forall2 empty_res_ok ops (snd (run_ops store nc [] (new_ipos [], 0%nat) ops)).
Proof.
  induction ops as [|o rest IH]; [split; [reflexivity|constructor]|].
  cbn [run_ops]. destruct (apply_op_empty store nc o) as [E1 E2].
  destruct (apply_op store nc [] (new_ipos [], 0%nat) o) as [st' r]. cbn [fst snd] in *. subst st'.
  destruct (run_ops store nc [] (new_ipos [], 0%nat) rest) as [st'' rs]. cbn [fst snd] in *.
  destruct IH as [-> IH]. split; [reflexivity|]. constructor; assumption.
Qed.

(* ---------- FUSE reads on any number of handles ---------- *)


Section Fuse.
  Variable H : bytes -> id.
  Variable idx : index.
  Variable blob : bytes.
  Hypothesis Hd : index_describes H idx blob.
  Variable store : store_t.
  Variable nc : nullchunk.
  Hypothesis Hnc : snd nc = H (fst nc).
  Hypothesis Hsound : store_sound H store.

  Lemma fuse_read_ok s calls off len : ipos_ok H idx s ->
    ipos_ok H idx (fst (fst (fuse_read store nc idx (s, calls) off len))).
  Proof.
    intros Hok. pose proof (proj1 Hd) as Ht. unfold fuse_read.
    pose proof (seek_spec H idx Ht s off SeekStart Hok) as Hs.
    destruct (seek idx s off SeekStart) as [[[s1 r] [x|]]| |]; try contradiction; [exact (proj1 Hs)|].
    pose proof (read_ok H idx Ht store nc Hnc Hsound (read_fuel len) calls s1 len (proj1 Hs)) as Hr.
    destruct (read (read_fuel len) store nc idx calls s1 len) as [[[[s2 calls2] d] [[]|]]| |]; cbn; try exact Hr; exact (proj1 Hs).
  Qed.

  Lemma fuse_read_spec s calls off len : ipos_ok H idx s ->
    fuse_post blob store calls (snd (fst (fuse_read store nc idx (s, calls) off len))) off len
              (snd (fuse_read store nc idx (s, calls) off len)) \/ Collision H.
  Proof.
    intros Hok. pose proof (proj1 Hd) as Ht. unfold fuse_read, fuse_post.
    pose proof (seek_spec H idx Ht s off SeekStart Hok) as Hs. rewrite (L_blob H idx blob Hd) in Hs.
    unfold seek_target in Hs. replace (SeekStart =? SeekStart) with true in Hs by reflexivity.
    destruct (seek idx s off SeekStart) as [[[s1 r] e]| |]; try contradiction.
    destruct Hs as [Hok1 [[Hr [-> [_ Hp]]]|[Hbad [_ [_ [x [-> _]]]]]]].
    2: { left. cbn. split; [lia|]. destruct Hbad; [left|right; left]; assumption. }
    destruct (read_spec H idx blob store nc calls s1 len Hd Hnc Hsound Hok1) as [[_ Hrd]|C]; [|right; exact C].
    left. unfold read_post in Hrd. rewrite Hp in Hrd.
    destruct (read (read_fuel len) store nc idx calls s1 len) as [[[[s2 calls2] d] e]| |]; try contradiction.
    destruct Hrd as [A [B [C D]]].
    assert (Hfault : forall x, p_lt_L_and_fault off (Z.of_nat (length blob)) store calls calls2 x ->
              (calls <= calls2)%nat /\
              (off < 0 \/ Z.of_nat (length blob) < off \/
               exists c k i, (calls <= k < calls2)%nat /\ store k i = SFail c)).
    { intros x [_ [c [k [i [_ [D2 D3]]]]]]. split; [exact C|]. right. right. exists c, k, i. split; assumption. }
    destruct e as [[]|]; cbn; try (apply (Hfault _ D)).
    - destruct D as [-> ->]. split; [exact C|]. cbn. repeat split; auto; lia.
    - destruct D as [D1 D2]. split; [exact C|]. repeat split; auto; lia.
  Qed.

  Lemma set_nth_length {A} (l : list A) i x : length (set_nth l i x) = length l.
  Proof. revert i. induction l as [|a l IH]; intros [|i]; cbn; auto. Qed.

  Lemma set_nth_Forall {A} (P : A -> Prop) (l : list A) i x : Forall P l -> P x -> Forall P (set_nth l i x).
  Proof.
    intros Hl Hx. revert i. induction Hl as [|a l Ha Hl IH]; intros [|i]; cbn; constructor; auto.
  Qed.

  Definition fuse_ok (n : nat) (fs : fuse_state) : Prop := length (fst fs) = n /\ Forall (ipos_ok H idx) (fst fs).

  Lemma fuse_req_ok n fs rq : fuse_ok n fs -> fuse_ok n (fst (fuse_req store nc idx fs rq)).
  Proof.
    intros [Hl Hf]. destruct rq as [[h off] len]. unfold fuse_req.
    destruct (nth_error (fst fs) h) as [s|] eqn:En; [|split; assumption].
    assert (Hok : ipos_ok H idx s) by (rewrite Forall_forall in Hf; apply Hf; eapply nth_error_In; eauto).
    pose proof (fuse_read_ok s (snd fs) off len Hok) as Hr.
    destruct (fuse_read store nc idx (s, snd fs) off len) as [[s' calls'] r]. cbn [fst snd] in *.
    split; cbn [fst]; [rewrite set_nth_length; exact Hl|apply set_nth_Forall; assumption].
  Qed.

  Lemma fuse_run_ok n rqs : forall fs, fuse_ok n fs -> fuse_ok n (fst (fuse_run store nc idx fs rqs)).
  Proof.
    induction rqs as [|rq rest IH]; intros fs Hok; [exact Hok|].
    cbn [fuse_run]. pose proof (fuse_req_ok n fs rq Hok) as H1.
    destruct (fuse_req store nc idx fs rq) as [fs' r]. cbn [fst] in H1. specialize (IH fs' H1).
    destruct (fuse_run store nc idx fs' rest) as [fs'' rs]. exact IH.
  Qed.

  Lemma fuse_open_ok n : fuse_ok n (fuse_open idx n).
  Proof.
    unfold fuse_ok, fuse_open. cbn [fst]. split; [apply repeat_length|].
    apply Forall_forall. intros s Hin. apply repeat_spec in Hin. subst s. apply new_ipos_ok. exact (proj1 Hd).
  Qed.

  Lemma fuse_req_spec n fs h off len : fuse_ok n fs ->
    match snd (fuse_req store nc idx fs (h, off, len)) with
    | None => (n <= h)%nat /\ fst (fuse_req store nc idx fs (h, off, len)) = fs
    | Some r => (h < n)%nat /\
                (fuse_post blob store (snd fs) (snd (fst (fuse_req store nc idx fs (h, off, len)))) off len r \/ Collision H)
    end.
  Proof.
    intros [Hl Hf]. unfold fuse_req.
    destruct (nth_error (fst fs) h) as [s|] eqn:En.
    - assert (Hok : ipos_ok H idx s) by (rewrite Forall_forall in Hf; apply Hf; eapply nth_error_In; eauto).
      pose proof (fuse_read_spec s (snd fs) off len Hok) as Hr.
      destruct (fuse_read store nc idx (s, snd fs) off len) as [[s' calls'] r]. cbn [fst snd] in *.
      split; [|exact Hr]. rewrite <- Hl. apply nth_error_Some. congruence.
    - cbn. split; [|reflexivity]. rewrite <- Hl. apply nth_error_None. exact En.
  Qed.

  Lemma fuse_run_all n rqs : forall fs, fuse_ok n fs ->
    Forall2 (fuse_answer_ok blob store n) rqs (snd (fuse_run store nc idx fs rqs)) \/ Collision H.
  Proof.
    induction rqs as [|[[h off] len] rest IH]; intros fs Hok; [left; constructor|].
    cbn [fuse_run]. pose proof (fuse_req_spec n fs h off len Hok) as Hs. pose proof (fuse_req_ok n fs (h, off, len) Hok) as Hok'.
    destruct (fuse_req store nc idx fs (h, off, len)) as [fs' r]. cbn [fst snd] in *.
    specialize (IH fs' Hok'). destruct (fuse_run store nc idx fs' rest) as [fs'' rs]. cbn [snd] in *.
    destruct IH as [IH|C]; [|right; exact C].
    destruct r as [r|].
    - destruct Hs as [Hh [Hp|C]]; [|right; exact C]. left. constructor; [|exact IH].
      unfold fuse_answer_ok. unfold fuse_post in Hp. destruct Hp as [_ Hp]. destruct r; try contradiction.
      + exact Hp.
      + destruct Hp as [A|[A|[c [k [i [_ A]]]]]]; [left; exact A|right; left; exact A|right; right; exists c, k, i; exact A].
    - left. constructor; [|exact IH]. cbn. exact (proj1 Hs).
  Qed.
End Fuse.

(* Whatever the order in which the handles' mutexes let the requests in -- [served] is ANY list, in particular any
   permutation of the requests that were issued concurrently -- every answer is right. *)
Theorem fuse_any_admission_order H maxsz idx blob store n issued served :
  index_describes H idx blob -> store_sound H store -> Permutation issued served ->
  let nc := new_null_chunk H maxsz in
  Forall2 (fuse_answer_ok blob store n) served (snd (fuse_run store nc idx (fuse_open idx n) served)) \/ Collision H.
Proof.
  intros Hd Hs _ nc. apply (fuse_run_all H idx blob Hd store nc (null_chunk_ok H maxsz) Hs n).
  eapply fuse_open_ok; eauto.
Qed.

Theorem fuse_read_refines_blob H maxsz idx blob store n rqs h off len :
  index_describes H idx blob -> store_sound H store ->
  let nc := new_null_chunk H maxsz in
  let fs := fst (fuse_run store nc idx (fuse_open idx n) rqs) in
  match snd (fuse_req store nc idx fs (h, off, len)) with
  | None => (n <= h)%nat /\ fst (fuse_req store nc idx fs (h, off, len)) = fs
  | Some r => (h < n)%nat /\
              (fuse_post blob store (snd fs) (snd (fst (fuse_req store nc idx fs (h, off, len)))) off len r \/ Collision H)
  end.
Proof.
  intros Hd Hs nc fs. apply (fuse_req_spec H idx blob Hd store nc (null_chunk_ok H maxsz) Hs n).
  eapply fuse_run_ok; eauto using null_chunk_ok. eapply fuse_open_ok; eauto.
Qed.

(* With a store that never fails, Read never reports an error other than EOF at the end. *)
Theorem read_healthy H maxsz idx blob store ops plen :
  index_describes H idx blob -> store_sound H store -> (forall k i c, store k i <> SFail c) ->
  let nc := new_null_chunk H maxsz in
  let st := fst (run_ops store nc idx (new_ipos idx, 0%nat) ops) in
  match read (read_fuel plen) store nc idx (snd st) (fst st) plen with
  | Ret (_, _, d, e) =>
      (e = None /\ Z.of_nat (length d) = Z.min (Z.of_nat plen) (Z.of_nat (length blob) - pos (fst st))) \/
      (e = Some EEOF /\ pos (fst st) = Z.of_nat (length blob))
  | _ => False
  end \/ Collision H.
Proof.
  intros Hd Hs Hh nc st. destruct (read_refines_blob H maxsz idx blob store ops plen Hd Hs) as [[_ Hr]|C]; [|right; exact C].
  left. fold nc st in Hr. unfold read_post in Hr.
  destruct (read (read_fuel plen) store nc idx (snd st) (fst st) plen) as [[[[s' calls'] d] e]| |]; try contradiction.
  destruct Hr as [_ [_ [_ Hr]]].
  destruct e as [[]|]; try (destruct Hr as [_ [c [k [i [_ [_ Hf]]]]]]; exfalso; exact (Hh _ _ _ Hf)).
  - right. split; [reflexivity|exact (proj1 Hr)].
  - left. split; [reflexivity|exact (proj2 Hr)].
Qed.

(* ---------- overlapping requests on different handles ---------- *)

Lemma handle_run_ok H idx blob nc : index_describes H idx blob -> snd nc = H (fst nc) ->
  forall rqs s, ipos_ok H idx s -> Forall (fun rq => store_sound H (fst (fst (fst rq)))) rqs ->
  ipos_ok H idx (fst (handle_run nc idx s rqs)).
Proof.
  intros Hd Hnc. induction rqs as [|[[[st calls] off] len] rest IH]; intros s Hok Hs; [exact Hok|].
  inversion Hs as [|? ? Hs1 Hs2]; subst. cbn [fst] in Hs1. cbn [handle_run].
  pose proof (fuse_read_ok H idx blob Hd st nc Hnc Hs1 s calls off len Hok) as H1.
  destruct (fuse_read st nc idx (s, calls) off len) as [[s' c'] r]. cbn [fst] in H1.
  specialize (IH s' H1 Hs2). destruct (handle_run nc idx s' rest) as [s'' rs]. exact IH.
Qed.

Theorem fuse_overlapping_reads H maxsz idx blob rqs st calls off len :
  index_describes H idx blob ->
  Forall (fun rq => store_sound H (fst (fst (fst rq)))) rqs -> store_sound H st ->
  let nc := new_null_chunk H maxsz in
  let s := fst (handle_run nc idx (new_ipos idx) rqs) in
  fuse_post blob st calls (snd (fst (fuse_read st nc idx (s, calls) off len))) off len
            (snd (fuse_read st nc idx (s, calls) off len)) \/ Collision H.
Proof.
  intros Hd Hs Hst nc s.
  apply (fuse_read_spec H idx blob Hd st nc (null_chunk_ok H maxsz) Hst).
  apply (handle_run_ok H idx blob nc Hd (null_chunk_ok H maxsz)); [|exact Hs].
  apply new_ipos_ok. exact (proj1 Hd).
Qed.
