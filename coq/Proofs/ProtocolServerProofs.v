(* C19 for the protocol endpoints: ProtocolServer.Serve and the client-side reply handlers never
   panic, their loops are bounded by the input, input-derived allocation is bounded. *)
From Coq Require Import List NArith Arith Bool Lia ZifyN ZifyNat ZifyBool.
From DS Require Import Gen.Constants Base.Bytes Base.LE64 Model.Format Model.Protocol Model.ProtocolServer
     Proofs.FormatProofs Proofs.DecoderProofs.
Import ListNotations.
Local Open Scope N_scope.

Lemma H_subslice n b lo hi : (hi <= length b)%nat -> H n (subslice b lo hi) (fun _ l => (l <= n)%nat).
Proof.
  intros Hh. unfold subslice. replace (length b <? hi)%nat with false by (symmetry; apply Nat.ltb_ge; exact Hh).
  eapply H_weaken; [apply H_ret|]. cbv beta. intros ? ? [_ Hl]. exact Hl.
Qed.

Lemma H_recv_hello n : H n recv_hello (fun _ l => (l + 16 <= n)%nat).
Proof.
  unfold recv_hello. eapply H_bind; [apply H_read_message|]. cbv beta. intros m k Hk.
  destruct (negb _); [apply H_fail; discriminate|]. destruct (negb _); [apply H_fail; discriminate|].
  eapply H_weaken; [apply H_ret|]. cbv beta. intros ? ? [_ Hl]. lia.
Qed.

Section ServerProofs.
  Variable store : bytes -> store_res.

  Lemma H_serve_one n : H n (serve_one 40 store) (fun _ l => (l + 16 <= n)%nat).
  Proof.
    unfold serve_one. eapply H_bind; [apply H_read_message|]. cbv beta. intros m k Hk.
    destruct (fst m =? CaProtocolRequest).
    - destruct (lenN (snd m) <? 40) eqn:E; [apply H_fail; discriminate|]. apply N.ltb_ge in E.
      eapply H_bind; [apply H_subslice; unfold lenN in E; lia|]. cbv beta. intros id k2 Hk2.
      destruct (store id); try (apply H_fail; discriminate);
        (eapply H_weaken; [apply H_ret|]; cbv beta; intros ? ? [_ Hl]; lia).
    - destruct (fst m =? CaProtocolAbort); [apply H_fail; discriminate|].
      destruct (fst m =? CaProtocolGoodbye); [|apply H_fail; discriminate].
      eapply H_weaken; [apply H_ret|]. cbv beta. intros ? ? [_ Hl]. lia.
  Qed.

  Lemma H_serve_loop : forall fuel n acc, (n < fuel)%nat ->
    H n (serve_loop 40 store fuel acc) (fun _ l => (l <= n)%nat).
  Proof.
    induction fuel as [|fuel IH]; intros n acc Hn; [lia|].
    cbn [serve_loop]. eapply H_bind; [apply H_serve_one|]. cbv beta. intros st k Hk. destruct st.
    - eapply H_weaken; [apply IH; lia|cbv beta; intros; lia].
    - eapply H_weaken; [apply H_ret|]. cbv beta. intros ? ? [_ Hl]. lia.
  Qed.

  Lemma H_serve n : H n (serve 40 store) (fun _ l => (l <= n)%nat).
  Proof.
    unfold serve, serve_handshake.
    eapply H_bind.
    - eapply H_bind; [apply H_recv_hello|]. cbv beta. intros flags k Hk.
      destruct (_ =? 0); [apply H_fail; discriminate|].
      eapply H_weaken; [apply H_ret|]. cbv beta. intros ? l [_ Hl]. exact (Nat.le_trans _ _ _ Hl (Nat.le_trans _ _ _ (Nat.le_add_r k 16) Hk)).
    - cbv beta. intros _ k Hk. apply H_with_input_fuel. intros k' Hk'.
      eapply H_weaken; [apply H_serve_loop; lia|cbv beta; intros; lia].
  Qed.

  (* ---- allocation (factor 1) ---- *)
  Let c1 : 1 <= 1. Proof. lia. Qed.

  Lemma abound_subslice d b lo hi : abound 1 (fun _ => d) d (subslice b lo hi).
  Proof. unfold subslice. destruct (_ <? _)%nat; [apply abound_throw|apply abound_ret]; exact c1. Qed.

  Lemma abound_recv_hello d : abound 1 (fun _ => d) d recv_hello.
  Proof.
    unfold recv_hello. eapply abound_bind; [exact c1|apply abound_read_message; exact c1|]. cbv beta. intros m.
    destruct (negb _); [apply abound_fail; exact c1|]. destruct (negb _); [apply abound_fail; exact c1|].
    apply abound_ret. exact c1.
  Qed.

  Lemma abound_serve_one g d : abound 1 (fun _ => d) d (serve_one g store).
  Proof.
    unfold serve_one. eapply abound_bind; [exact c1|apply abound_read_message; exact c1|]. cbv beta. intros m.
    destruct (fst m =? CaProtocolRequest).
    - destruct (_ <? g); [apply abound_fail; exact c1|].
      eapply abound_bind; [exact c1|apply abound_subslice|]. cbv beta. intros id.
      destruct (store id); [apply abound_ret|apply abound_ret|apply abound_fail]; exact c1.
    - destruct (_ =? CaProtocolAbort); [apply abound_fail; exact c1|].
      destruct (_ =? CaProtocolGoodbye); [apply abound_ret|apply abound_fail]; exact c1.
  Qed.

  Lemma abound_serve_loop g d : forall fuel acc, abound 1 (fun _ => d) d (serve_loop g store fuel acc).
  Proof.
    induction fuel as [|fuel IH]; intros acc; cbn [serve_loop]; [apply abound_fail; exact c1|].
    eapply abound_bind; [exact c1|apply abound_serve_one|]. cbv beta. intros st.
    destruct st; [apply IH|apply abound_ret; exact c1].
  Qed.

  Lemma abound_serve g d : abound 1 (fun _ => d) d (serve g store).
  Proof.
    unfold serve, serve_handshake.
    eapply abound_bind; [exact c1| |].
    - eapply abound_bind; [exact c1|apply abound_recv_hello|]. cbv beta. intros flags.
      destruct (_ =? 0); [apply abound_fail|apply abound_ret]; exact c1.
    - cbv beta. intros u. apply abound_with_input_fuel. intros. apply abound_serve_loop.
  Qed.
End ServerProofs.

(* ---------- client ---------- *)

Lemma H_request_reply n : H n request_reply (fun _ l => (l + 16 <= n)%nat).
Proof.
  unfold request_reply. eapply H_bind; [apply H_read_message|]. cbv beta. intros m k Hk.
  destruct (fst m =? CaProtocolMissing).
  - eapply H_weaken; [apply H_ret|]. cbv beta. intros ? ? [_ Hl]. lia.
  - destruct (fst m =? CaProtocolChunk); [|apply H_fail; discriminate].
    destruct (_ <? 40); [apply H_fail; discriminate|].
    eapply H_bind; [apply H_subslice; apply le_n|]. cbv beta. intros dd k2 Hk2.
    eapply H_weaken; [apply H_ret|]. cbv beta. intros ? ? [_ Hl]. lia.
Qed.

Lemma H_client_loop : forall fuel n acc, (n < fuel)%nat -> H n (client_loop fuel acc) (fun _ l => (l <= n)%nat).
Proof.
  induction fuel as [|fuel IH]; intros n acc Hn; [lia|].
  cbn [client_loop]. intros s Hs. destruct s as [|x t] eqn:Es.
  - cbn. lia.
  - rewrite <- Es in *. clear Es.
    assert (Hb : H n (do r <- request_reply; client_loop fuel (r :: acc)) (fun _ l => (l <= n)%nat)).
    { eapply H_bind; [apply H_request_reply|]. cbv beta. intros r k Hk.
      eapply H_weaken; [apply IH; lia|cbv beta; intros; lia]. }
    exact (Hb s Hs).
Qed.

Lemma H_client_session n : H n client_session (fun _ l => (l <= n)%nat).
Proof.
  unfold client_session. eapply H_bind; [apply H_recv_hello|]. cbv beta. intros fl k Hk.
  apply H_with_input_fuel. intros k' Hk'.
  eapply H_weaken; [apply H_client_loop; lia|cbv beta; intros; lia].
Qed.

Lemma abound_request_reply d : abound 1 (fun _ => d) d request_reply.
Proof.
  assert (c1 : 1 <= 1) by lia.
  unfold request_reply. eapply abound_bind; [exact c1|apply abound_read_message; exact c1|]. cbv beta. intros m.
  destruct (_ =? CaProtocolMissing); [apply abound_ret; exact c1|].
  destruct (_ =? CaProtocolChunk); [|apply abound_fail; exact c1].
  destruct (_ <? 40); [apply abound_fail; exact c1|].
  eapply abound_bind; [exact c1|apply abound_subslice|]. cbv beta. intros dd. apply abound_ret. exact c1.
Qed.

Lemma abound_client_loop d : forall fuel acc, abound 1 (fun _ => d) d (client_loop fuel acc).
Proof.
  assert (c1 : 1 <= 1) by lia.
  induction fuel as [|fuel IH]; intros acc; cbn [client_loop]; [apply abound_fail; exact c1|].
  assert (Hb : abound 1 (fun _ => d) d (do r <- request_reply; client_loop fuel (r :: acc))).
  { eapply abound_bind; [exact c1|apply abound_request_reply|]. cbv beta. intros r. apply IH. }
  intros s. destruct s as [|x t]; [cbn; lia|]. exact (Hb (x :: t)).
Qed.

Lemma abound_client_session d : abound 1 (fun _ => d) d client_session.
Proof.
  assert (c1 : 1 <= 1) by lia.
  unfold client_session. eapply abound_bind; [exact c1|apply abound_recv_hello|]. cbv beta. intros fl.
  apply abound_with_input_fuel. intros. apply abound_client_loop.
Qed.

(* ---------- statements ---------- *)

Theorem server_total (store : bytes -> store_res) (b : bytes) :
  survives (decode_serve store b) /\ decode_serve_alloc store b <= lenN b + 65536.
Proof.
  split; [eapply survives_run, H_serve|].
  unfold decode_serve_alloc. pose proof (alloc_run 1 (serve 40 store) b (abound_serve store 40 0)) as Ha.
  unfold K in Ha. lia.
Qed.

Theorem client_total (b : bytes) :
  survives (decode_client b) /\ decode_client_alloc b <= lenN b + 65536.
Proof.
  split; [eapply survives_run, H_client_session|].
  unfold decode_client_alloc. pose proof (alloc_run 1 client_session b (abound_client_session 0)) as Ha.
  unfold K in Ha. lia.
Qed.

(* reading back what WriteMessage wrote *)
Lemma okrun_read_message t body rest :
  t < two64 -> lenN body + 8 <= MaxInt64 ->
  okrun (read_message Fixed) (write_message (t, body) ++ rest) (t, body) rest.
Proof.
  intros Ht Hl. unfold write_message, read_message. cbn [fst snd]. rewrite <- !app_assoc.
  eapply okrun_bind; [apply okrun_read_u64; lia|]. cbv beta.
  replace (16 + lenN body <? 16) with false by (symmetry; apply N.ltb_ge; lia).
  replace (sub64 (16 + lenN body) 8) with (lenN (le64 t ++ body)).
  2:{ rewrite sub64_exact by lia. rewrite lenN_app. unfold lenN at 1. rewrite le64_length. lia. }
  rewrite app_assoc. eapply okrun_bind.
  - apply okrun_read_n. rewrite lenN_app. unfold lenN at 1. rewrite le64_length. lia.
  - cbv beta. rewrite <- (le64_length t) at 1. rewrite take_exact_app. rewrite un_le64_le64 by assumption. apply okrun_ret.
Qed.

(* a REQUEST whose body cannot hold 8 flag bytes and a 32-byte id is refused with an error *)
Theorem server_rejects_short_request (store : bytes -> store_res) body rest :
  lenN body < 40 ->
  exists a, serve_one 40 store (write_message (CaProtocolRequest, body) ++ rest) = (Err TooShort, rest, a).
Proof.
  intros Hl. destruct (okrun_read_message CaProtocolRequest body rest) as [a E]; [reflexivity|lia|].
  exists (a + 0). unfold serve_one, bind. rewrite E. cbn [fst snd]. rewrite N.eqb_refl.
  replace (lenN body <? 40) with true by (symmetry; apply N.ltb_lt; exact Hl). reflexivity.
Qed.
