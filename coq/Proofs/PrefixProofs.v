(* Truncation: a decoder run that succeeded depends only on the bytes it
   consumed, and on every strict prefix of those bytes it fails with an
   end-of-input error.  Consequence (C04): every strict prefix of a file that
   IndexFromReader reads to its end is rejected. *)
From Coq Require Import List NArith Arith Bool Lia ZifyN ZifyNat ZifyBool.
From DS Require Import Gen.Constants Base.Bytes Base.LE64 Model.Format Model.Index
     Proofs.FormatProofs Proofs.DecoderProofs.
Import ListNotations.
Local Open Scope N_scope.

Definition eofish (e : err) : Prop := e = EOF \/ e = UnexpectedEOF.
Definition res {A} (m : M A) (s : bytes) : result A := fst (fst (m s)).

Definition PF {A} (m : M A) : Prop :=
  forall s x s' a, m s = (Ok x, s', a) ->
    exists c, s = c ++ s' /\
      (forall t, exists a', m (c ++ t) = (Ok x, t, a')) /\
      (forall p q, c = p ++ q -> q <> [] -> exists e, res m p = Err e /\ eofish e).

Lemma PF_ret {A} (x : A) : PF (ret x).
Proof.
  intros s y s' a E. inversion E; subst. exists []. split; [reflexivity|]. split.
  - intros t. exists 0. reflexivity.
  - intros p q Hc Hq. symmetry in Hc. apply app_eq_nil in Hc. destruct Hc as [_ ->]. contradiction.
Qed.

Lemma PF_fail {A} e : PF (@fail A e).
Proof. intros s y s' a E. discriminate. Qed.

Lemma PF_charge n : PF (charge n).
Proof.
  intros s y s' a E. inversion E; subst. exists []. split; [reflexivity|]. split.
  - intros t. eexists. reflexivity.
  - intros p q Hc Hq. symmetry in Hc. apply app_eq_nil in Hc. destruct Hc as [_ ->]. contradiction.
Qed.

Lemma read_full_short k p : (length p < k)%nat -> exists e, res (read_full k) p = Err e /\ eofish e.
Proof.
  intros Hl. unfold res, read_full. destruct (take_exact k p) as [[a r]|] eqn:E.
  - apply take_exact_some in E. destruct E as [-> Ha]. rewrite app_length in Hl. lia.
  - destruct p; cbn; eexists; (split; [reflexivity|]); [left|right]; reflexivity.
Qed.

Lemma PF_read_full k : PF (read_full k).
Proof.
  intros s x s' a E. unfold read_full in E. destruct (take_exact k s) as [[b r]|] eqn:Et.
  - inversion E; subst. apply take_exact_some in Et. destruct Et as [-> Hl].
    exists x. split; [reflexivity|]. split.
    + intros t. exists 0. rewrite <- Hl. apply read_full_app.
    + intros p q Hc Hq. apply read_full_short. subst x. rewrite app_length in Hl. destruct q; [contradiction|]. cbn in Hl. lia.
  - destruct s; discriminate.
Qed.

Lemma app_split_cases {A} (c1 c2 p q : list A) :
  c1 ++ c2 = p ++ q ->
  (exists q1, q1 <> [] /\ c1 = p ++ q1) \/ (exists p2, p = c1 ++ p2 /\ c2 = p2 ++ q).
Proof.
  intros E. apply app_eq_app in E. destruct E as [l [[E1 E2]|[E1 E2]]].
  - (* c1 = p ++ l, q = l ++ c2 *)
    destruct l as [|y l].
    + right. exists []. rewrite app_nil_r in *. subst. split; reflexivity.
    + left. exists (y :: l). split; [discriminate|exact E1].
  - right. exists l. split; assumption.
Qed.

Lemma PF_bind {A B} (m : M A) (f : A -> M B) : PF m -> (forall x, PF (f x)) -> PF (bind m f).
Proof.
  intros Hm Hf s y s2 a E. unfold bind in E.
  destruct (m s) as [[[x|e|p] s1] a1] eqn:Em; try discriminate.
  destruct (f x s1) as [[r s2'] a2] eqn:Ef. destruct r; inversion E; subst.
  destruct (Hm _ _ _ _ Em) as [c1 [Hs [Hext1 Hpre1]]].
  destruct (Hf x _ _ _ _ Ef) as [c2 [Hs1 [Hext2 Hpre2]]].
  exists (c1 ++ c2). split; [subst; now rewrite app_assoc|]. split.
  - intros t. destruct (Hext1 (c2 ++ t)) as [a1' E1]. destruct (Hext2 t) as [a2' E2].
    exists (a1' + a2'). unfold bind. rewrite <- app_assoc, E1, E2. reflexivity.
  - intros p q Hc Hq. destruct (app_split_cases _ _ _ _ Hc) as [[q1 [Hq1 Hc1]]|[p2 [Hp Hc2]]].
    + destruct (Hpre1 p q1 Hc1 Hq1) as [e [He Hf']]. exists e. split; [|exact Hf'].
      unfold res, bind in *. destruct (m p) as [[r1 sp] ap]. cbn in He. subst r1. reflexivity.
    + destruct (Hext1 p2) as [a1' E1]. destruct (Hpre2 p2 q Hc2 Hq) as [e [He Hf']]. exists e. split; [|exact Hf'].
      unfold res, bind in *. rewrite Hp, E1. destruct (f x p2) as [[r2 sp] ap]. cbn in He. subst r2. reflexivity.
Qed.

Lemma PF_read_u64 : PF read_u64.
Proof. unfold read_u64. apply PF_bind; [apply PF_read_full|intros; apply PF_ret]. Qed.

Lemma PF_read_id : PF read_id.
Proof. apply PF_read_full. Qed.

(* ---------- the table loop ---------- *)

Lemma read_u64_inv s x s1 a : read_u64 s = (Ok x, s1, a) ->
  exists w, length w = 8%nat /\ s = w ++ s1 /\ forall t, read_u64 (w ++ t) = (Ok x, t, 0).
Proof.
  intros E. destruct (read_u64_cases s) as [[x' [s1' [E' L]]]|[[E' _]|[E' _]]]; rewrite E' in E; try discriminate.
  inversion E; subst. clear E.
  unfold read_u64, bind, read_full in E'. destruct (take_exact 8 s) as [[w r]|] eqn:Et; [|destruct s; discriminate].
  apply take_exact_some in Et. destruct Et as [-> Hw]. cbn in E'. inversion E'; subst.
  exists w. split; [exact Hw|]. split; [reflexivity|]. intros t.
  unfold read_u64, bind. rewrite <- Hw, read_full_app. reflexivity.
Qed.

Lemma read_id_inv s x s1 a : read_id s = (Ok x, s1, a) ->
  length x = 32%nat /\ s = x ++ s1 /\ forall t, read_id (x ++ t) = (Ok x, t, 0).
Proof.
  unfold read_id, read_full. intros E. destruct (take_exact 32 s) as [[w r]|] eqn:Et; [|destruct s; discriminate].
  apply take_exact_some in Et. destruct Et as [-> Hw]. inversion E; subst.
  split; [exact Hw|]. split; [reflexivity|]. intros t. rewrite <- Hw. now rewrite take_exact_app.
Qed.

Lemma read_u64_short p : (length p < 8)%nat -> exists e, res read_u64 p = Err e /\ eofish e.
Proof.
  intros Hl. destruct (read_full_short 8 p Hl) as [e [He Hf]]. exists e. split; [|exact Hf].
  unfold res, read_u64, bind in *. destruct (read_full 8 p) as [[r sp] ap]. cbn in He. subst r. reflexivity.
Qed.

Lemma table_loop_PF : forall fuel acc s x s' a,
  (length s < fuel)%nat -> table_loop fuel acc s = (Ok x, s', a) ->
  exists c, s = c ++ s' /\
    (forall t fuel', (length (c ++ t) < fuel')%nat -> exists a', table_loop fuel' acc (c ++ t) = (Ok x, t, a')) /\
    (forall p q fuel', c = p ++ q -> q <> [] -> (length p < fuel')%nat ->
        exists e, res (table_loop fuel' acc) p = Err e /\ eofish e).
Proof.
  induction fuel as [|fuel IH]; intros acc s x s' a Hl E; [lia|].
  cbn [table_loop] in E. unfold bind in E.
  destruct (read_u64 s) as [[[off|e|pp] s1] a1] eqn:Eu; try discriminate.
  destruct (read_u64_inv _ _ _ _ Eu) as [w [Hw [Hs Hwext]]].
  destruct (off =? 0) eqn:Ez.
  - (* terminator *)
    cbn in E. inversion E; subst. exists w. split; [reflexivity|]. split.
    + intros t fuel' Hf. destruct fuel' as [|fuel']; [lia|]. exists (0 + 0).
      cbn [table_loop]. unfold bind. rewrite Hwext, Ez. reflexivity.
    + intros p q fuel' Hc Hq Hf. destruct fuel' as [|fuel']; [lia|].
      assert (Hp : (length p < 8)%nat).
      { rewrite Hc, app_length in Hw. destruct q; [contradiction|]. cbn in Hw. lia. }
      destruct (read_u64_short p Hp) as [e [He Hfe]]. exists e. split; [|exact Hfe].
      unfold res in *. cbn [table_loop]. unfold bind. destruct (read_u64 p) as [[r sp] ap]. cbn in He. subst r. reflexivity.
  - destruct (read_id s1) as [[[id|e|pp] s2] a2] eqn:Ei; try discriminate.
    destruct (read_id_inv _ _ _ _ Ei) as [Hid [Hs1 Hiext]].
    cbn [charge] in E.
    destruct (table_loop fuel ((off, id) :: acc) s2) as [[r s3] a3] eqn:El.
    destruct r; inversion E; subst. clear E.
    assert (Hl2 : (length s2 < fuel)%nat) by (rewrite !app_length in Hl; lia).
    destruct (IH _ _ _ _ _ Hl2 El) as [c' [Hs2 [Hext Hpre]]].
    exists (w ++ id ++ c'). split; [subst; now rewrite <- !app_assoc|]. split.
    + intros t fuel' Hf. destruct fuel' as [|fuel']; [lia|].
      rewrite <- !app_assoc in Hf. rewrite !app_length in Hf.
      destruct (Hext t fuel') as [a' Ea']; [rewrite app_length; lia|].
      exists (0 + (0 + (40 + a'))). cbn [table_loop]. unfold bind. rewrite <- !app_assoc, Hwext, Ez, Hiext.
      cbn [charge]. rewrite Ea'. reflexivity.
    + intros p q fuel' Hc Hq Hf. destruct fuel' as [|fuel']; [lia|].
      destruct (app_split_cases _ _ _ _ Hc) as [[q1 [Hq1 Hc1]]|[p2 [Hp Hc2]]].
      * assert (Hp : (length p < 8)%nat).
        { rewrite Hc1, app_length in Hw. destruct q1; [contradiction|]. cbn in Hw. lia. }
        destruct (read_u64_short p Hp) as [e [He Hfe]]. exists e. split; [|exact Hfe].
        unfold res in *. cbn [table_loop]. unfold bind. destruct (read_u64 p) as [[r sp] ap]. cbn in He. subst r. reflexivity.
      * destruct (app_split_cases _ _ _ _ Hc2) as [[q1 [Hq1 Hc1]]|[p3 [Hp3 Hc3]]].
        -- assert (Hp2 : (length p2 < 32)%nat).
           { rewrite Hc1, app_length in Hid. destruct q1; [contradiction|]. cbn in Hid. lia. }
           destruct (read_full_short 32 p2 Hp2) as [e [He Hfe]]. exists e. split; [|exact Hfe].
           unfold res in *. cbn [table_loop]. unfold bind. rewrite Hp, Hwext, Ez. unfold read_id.
           destruct (read_full 32 p2) as [[r sp] ap]. cbn in He. subst r. reflexivity.
        -- assert (Hf3 : (length p3 < fuel')%nat) by (rewrite Hp, Hp3, !app_length in Hf; lia).
           destruct (Hpre p3 q fuel' Hc3 Hq Hf3) as [e [He Hfe]]. exists e. split; [|exact Hfe].
           unfold res in *. cbn [table_loop]. unfold bind. rewrite Hp, Hp3, Hwext, Ez, Hiext. cbn [charge].
           destruct (table_loop fuel' ((off, id) :: acc) p3) as [[r sp] ap]. cbn in He. subst r. reflexivity.
Qed.

Lemma PF_table : PF (with_input_fuel (fun fuel => table_loop fuel [])).
Proof.
  intros s x s' a E. unfold with_input_fuel in E.
  destruct (table_loop_PF _ _ _ _ _ _ (Nat.lt_succ_diag_r _) E) as [c [Hs [Hext Hpre]]].
  exists c. split; [exact Hs|]. split.
  - intros t. unfold with_input_fuel. apply Hext. lia.
  - intros p q Hc Hq. unfold res, with_input_fuel. apply (Hpre p q (S (length p)) Hc Hq). lia.
Qed.

(* ---------- the two elements an index file is made of ---------- *)

Lemma PF_index_body hdr : h_type hdr = CaFormatIndex -> PF (next_body Fixed hdr).
Proof.
  intros Ht. destruct hdr as [sz ty]. cbn in Ht. subst ty. rewrite next_body_index.
  repeat (apply PF_bind; [apply PF_read_u64|intros ?]). apply PF_ret.
Qed.

Lemma PF_table_body hdr : h_type hdr = CaFormatTable -> PF (next_body Fixed hdr).
Proof.
  intros Ht. destruct hdr as [sz ty]. cbn in Ht. subst ty. rewrite next_body_table.
  destruct (negb _); [apply PF_fail|].
  apply PF_bind; [apply PF_table|intros items].
  apply PF_bind; [apply PF_read_u64|intros fill2]. destruct (negb _); [apply PF_fail|].
  repeat (apply PF_bind; [apply PF_read_u64|intros ?]).
  destruct (negb _); [apply PF_fail|apply PF_ret].
Qed.

Definition index_or_table (e : elem) : Prop :=
  match e with Index _ _ _ _ _ | Table _ _ => True | _ => False end.

(* on a strict prefix, Next reports an error or a clean end of the stream *)
Definition stops {A} (r : result (option A)) : Prop := (exists e, r = Err e) \/ r = Ok None.

(* what Next returns carries the header it read, and its constructor is the one of the header's type *)
Ltac tfin := eapply H_weaken; [apply H_ret|cbv beta; intros ? ? [? ?]; subst; cbn [elem_type elem_header];
                               split; [reflexivity|symmetry; apply N.eqb_eq; assumption]].
Ltac trd := eapply H_bind; [apply H_read_u64|cbv beta; intros ? ? ?].
Ltac tstr := eapply H_bind; [apply H_read_string|cbv beta; intros ? ? ?]; tfin.

Lemma H_next_body_type n hdr :
  H n (next_body Fixed hdr) (fun e _ => elem_header e = hdr /\ elem_type e = h_type hdr).
Proof.
  unfold next_body.
  repeat match goal with |- H _ (if ?t =? ?c then _ else _) _ => destruct (t =? c) eqn:? end.
  - destruct (negb _); [apply H_fail; discriminate|]. repeat trd. tfin.
  - tstr.
  - tstr.
  - tstr.
  - tstr.
  - tstr.
  - tstr.
  - destruct (negb _); [apply H_fail; discriminate|]. repeat trd. tfin.
  - destruct (_ || _); [apply H_fail; discriminate|].
    intros s Hs. destruct (take_upto _ s) as [a r]. cbn [elem_type elem_header]. split; [reflexivity|symmetry; apply N.eqb_eq; assumption].
  - eapply H_bind; [apply H_read_body|cbv beta; intros ? ? ?]. tfin.
  - trd. trd. tstr.
  - trd. trd. tstr.
  - trd. tfin.
  - repeat trd. tfin.
  - destruct (_ <? _); [apply H_fail; discriminate|].
    eapply H_bind.
    + apply H_with_input_fuel. intros k Hk. eapply H_weaken; [apply H_goodbye_loop; lia|].
      cbv beta. intros x l Hl. exact (Nat.le_trans _ _ _ Hl Hk).
    + cbv beta. intros items k Hk. destruct (last_hash items); [|apply H_fail; discriminate].
      destruct (_ =? CaFormatGoodbyeTailMarker); [tfin|apply H_fail; discriminate].
  - repeat trd. tfin.
  - destruct (negb _); [apply H_fail; discriminate|].
    eapply H_bind.
    + apply H_with_input_fuel. intros k Hk. eapply H_weaken; [apply H_table_loop; lia|].
      cbv beta. intros x l Hl. exact (Nat.le_trans _ _ _ Hl Hk).
    + cbv beta. intros items k Hk. trd. destruct (negb _); [apply H_fail; discriminate|].
      trd. trd. trd. destruct (negb _); [apply H_fail; discriminate|]. tfin.
  - apply H_fail. discriminate.
Qed.

Lemma next_body_type_of hdr s e s' a :
  next_body Fixed hdr s = (Ok e, s', a) -> elem_header e = hdr /\ elem_type e = h_type hdr.
Proof.
  intros E. pose proof (H_next_body_type (length s) hdr s (le_n _)) as Hh. rewrite E in Hh. exact Hh.
Qed.

Lemma read_header_inv s hdr s1 a : read_header s = (Ok (Some hdr), s1, a) ->
  exists w, length w = 16%nat /\ s = w ++ s1 /\ forall t, read_header (w ++ t) = (Ok (Some hdr), t, 0).
Proof.
  unfold read_header. intros E.
  destruct (read_u64 s) as [[[x|e|pp] s0] a0] eqn:E1; [|destruct e; discriminate|discriminate].
  destruct (read_u64 s0) as [[[y|e|pp] s2] a2] eqn:E2; [|destruct e; discriminate|discriminate].
  inversion E; subst. clear E.
  destruct (read_u64_inv _ _ _ _ E1) as [w1 [Hw1 [Hs Hext1]]].
  destruct (read_u64_inv _ _ _ _ E2) as [w2 [Hw2 [Hs0 Hext2]]].
  exists (w1 ++ w2). split; [rewrite app_length; lia|]. split; [subst; now rewrite app_assoc|].
  intros t. rewrite <- app_assoc, Hext1, Hext2. reflexivity.
Qed.

Lemma read_header_short p : (length p < 16)%nat ->
  (exists e a, read_header p = (Err e, [], a)) \/ (exists a, read_header p = (Ok None, [], a)).
Proof.
  intros Hl. unfold read_header.
  destruct (read_u64_cases p) as [[x [s1 [E1 L1]]]|[[E1 _]|[E1 _]]]; rewrite E1.
  - destruct (read_u64_cases s1) as [[y [s2 [E2 L2]]]|[[E2 _]|[E2 _]]]; rewrite E2.
    + lia.
    + right. eexists. reflexivity.
    + left. do 2 eexists. reflexivity.
  - right. eexists. reflexivity.
  - left. do 2 eexists. reflexivity.
Qed.

Lemma next_PF s e s' a : next Fixed s = (Ok (Some e), s', a) -> index_or_table e ->
  exists c, s = c ++ s' /\
    (forall t, exists a', next Fixed (c ++ t) = (Ok (Some e), t, a')) /\
    (forall p q, c = p ++ q -> q <> [] -> stops (res (next Fixed) p)).
Proof.
  intros E Hit. unfold next, bind in E.
  destruct (read_header s) as [[[oh|er|pp] s1] a1] eqn:Eh; try discriminate.
  destruct oh as [hdr|]; [|discriminate].
  destruct (next_body Fixed hdr s1) as [[[e'|er|pp] s2] a2] eqn:Eb; try discriminate.
  cbn in E. inversion E; subst. clear E.
  destruct (read_header_inv _ _ _ _ Eh) as [w [Hw [Hs Hhext]]].
  destruct (next_body_type_of _ _ _ _ _ Eb) as [_ Hty].
  assert (HPF : PF (next_body Fixed hdr)).
  { destruct e; try contradiction; cbn [elem_type] in Hty; [apply PF_index_body|apply PF_table_body]; now symmetry. }
  destruct (HPF _ _ _ _ Eb) as [c2 [Hs1 [Hext Hpre]]].
  exists (w ++ c2). split; [subst; now rewrite app_assoc|]. split.
  - intros t. destruct (Hext t) as [a' Ea']. exists (0 + (a' + 0)).
    unfold next, bind. rewrite <- app_assoc, Hhext, Ea'. reflexivity.
  - intros p q Hc Hq. unfold stops, res.
    destruct (app_split_cases _ _ _ _ Hc) as [[q1 [Hq1 Hc1]]|[p2 [Hp Hc2]]].
    + assert (Hl : (length p < 16)%nat).
      { rewrite Hc1, app_length in Hw. destruct q1; [contradiction|]. cbn in Hw. lia. }
      unfold next, bind. destruct (read_header_short p Hl) as [[er [a' E']]|[a' E']]; rewrite E'.
      * left. eexists. reflexivity.
      * right. reflexivity.
    + destruct (Hpre p2 q Hc2 Hq) as [er [He _]]. left. exists er.
      unfold next, bind. rewrite Hp, Hhext. unfold res in He.
      destruct (next_body Fixed hdr p2) as [[r sp] ap]. cbn in He. subst r. reflexivity.
Qed.

(* Every strict prefix of a file that IndexFromReader accepts and reads to its last byte is rejected. *)
Theorem index_prefix_rejected d b i :
  decode_index_rest d b = Ok (i, []) ->
  forall p q, b = p ++ q -> q <> [] -> exists e, decode_index d p = Err e.
Proof.
  unfold decode_index_rest, run_result, decode_index, index_from_reader_v. intros E p q Hb Hq.
  unfold bind in E.
  destruct (next Fixed b) as [[[oe|er|pp] s1] a1] eqn:E1; try discriminate.
  destruct oe as [e1|]; [|discriminate].
  destruct e1; try discriminate.
  destruct (negb (digest_ok d feature_flags)) eqn:Ed; [discriminate|].
  destruct (next Fixed s1) as [[[oe2|er|pp] s2] a2] eqn:E2; try discriminate.
  destruct oe2 as [e2|]; [|discriminate].
  destruct e2; try discriminate.
  cbn [charge] in E.
  destruct (chunks_of_items chunk_max 0 items) as [cs|er|pp] eqn:Ec; try discriminate.
  cbn in E. inversion E; subst. clear E.
  destruct (next_PF _ _ _ _ E1 I) as [c1 [Hs [Hext1 Hpre1]]].
  destruct (next_PF _ _ _ _ E2 I) as [c2 [Hs1 [Hext2 Hpre2]]].
  rewrite app_nil_r in Hs1. subst s1. symmetry in Hs.
  destruct (app_split_cases _ _ _ _ Hs) as [[q1 [Hq1 Hc1]]|[p2 [Hp Hc2]]].
  - destruct (Hpre1 p q1 Hc1 Hq1) as [[er He]|He]; unfold res, bind in *;
      destruct (next Fixed p) as [[r sp] ap]; cbn in He; subst r; eexists; reflexivity.
  - destruct (Hext1 p2) as [a' Ea']. unfold bind. rewrite Hp, Ea', Ed.
    destruct (Hpre2 p2 q Hc2 Hq) as [[er He]|He]; unfold res in He;
      destruct (next Fixed p2) as [[r sp] ap]; cbn in He; subst r; eexists; reflexivity.
Qed.
